import TracklibVerif.Model.ObsTime
/-! Model of tracklib's text writers and readers (property C13), on `List Char`, numbers as scaled
integers (`n` at `d` decimals stands for the float `n / 10^d`, which Python's `format` prints exactly
on that lattice).

  (a) `fixedW w d n`           "{:w.df}".format(n/10^d);  `parseDec?` = `float()` on such a literal
      `reprFloat ec d v`       `str(float)` (shortest repr) of ±mag/10^d: positional, or exponent notation below 1e-4 / from 1e16
  (b) `writeToFile` / `readCsv`   io/track_writer.py `TrackWriter.writeToFile` (O list, stable sort by
      column id, `__printInOrder`), io/track_reader.py `TrackReader.__readFromCsv`
  (c) `printTime` / `precompile` / `readTimestamp`   core/obs_time.py `__str__`, `__precompileReadFmt`,
      `readTimestamp`, over the tokenised format (`tokenize`)
  (d) `netWrite` / `netRead`   io/network_writer.py `writeToCsv`, io/network_reader.py `readFromFile`,
      `readLineAndAddToNetwork`, `wktLineStringToObs`, core/network.py `addEdge` (node table)
  (e) `toWKT` / `parseWkt`     core/track.py `Track.toWKT`, io/track_reader.py `TrackReader.parseWkt`
  (f) `gpxBody` / `gpxBodyAF` / `readGpx`    io/track_writer.py `writeToGpx` (from the first `<trk>` line on; with
      `af=True` the `<extensions>` block of every point), io/track_reader.py `__readFromGpx` (type `trk`)
  (b') `readAll` / `readCsvAll`   the `read_all` part of `__readFromCsv` (feature columns named by the header block)

Python exceptions are the `Except` error strings `index` (IndexError), `value` (ValueError),
`arg` (WrongArgumentError), `type` (TypeError). -/
namespace TV.TextIO
open TV.ObsTime

abbrev Str := List Char

/-! ### (a) decimal printer and parser -/

def digitChar (d : Nat) : Char :=
  match d with
  | 0 => '0' | 1 => '1' | 2 => '2' | 3 => '3' | 4 => '4'
  | 5 => '5' | 6 => '6' | 7 => '7' | 8 => '8' | _ => '9'

def digitVal? (c : Char) : Option Nat :=
  if c = '0' then some 0 else if c = '1' then some 1 else if c = '2' then some 2
  else if c = '3' then some 3 else if c = '4' then some 4 else if c = '5' then some 5
  else if c = '6' then some 6 else if c = '7' then some 7 else if c = '8' then some 8
  else if c = '9' then some 9 else none

/-- the `k` low-order decimal digits of `n`, most significant first (zero padded) -/
def padDigits : Nat → Nat → Str
  | 0, _ => []
  | k+1, n => padDigits k (n / 10) ++ [digitChar (n % 10)]

/-- number of decimal digits of `n` (1 for 0); the fuel `n` is more than enough -/
def numDigitsF : Nat → Nat → Nat
  | 0, _ => 1
  | f+1, n => if n < 10 then 1 else 1 + numDigitsF f (n / 10)
def numDigits (n : Nat) : Nat := numDigitsF n n

/-- `str(n)` for a non-negative Python int -/
def natStr (n : Nat) : Str := padDigits (numDigits n) n
/-- `"{:0wd}".format(n)` (at least `w` digits) -/
def zpad (w n : Nat) : Str := padDigits (max w (numDigits n)) n
/-- `str(i)` for a Python int -/
def intStr (i : Int) : Str := if i < 0 then '-' :: natStr i.natAbs else natStr i.natAbs

def parseNatAux : Str → Nat → Option Nat
  | [], acc => some acc
  | c :: cs, acc =>
    match digitVal? c with
    | some d => parseNatAux cs (acc * 10 + d)
    | none => none
/-- `int(s)` on a non-empty string of decimal digits; anything else is Python's ValueError -/
def parseNat? (s : Str) : Option Nat := if s.isEmpty then none else parseNatAux s 0
/-- `int(s)` with an optional leading minus -/
def parseInt? (s : Str) : Option Int :=
  if s.head? == some '-' then (parseNat? (s.drop 1)).map (fun n => - (n : Int))
  else (parseNat? s).map (fun n => (n : Int))

def isWs (c : Char) : Bool := c = ' ' || c = '\t' || c = '\n' || c = '\r'
def lstrip (s : Str) : Str := s.dropWhile isWs
def rstrip (s : Str) : Str := (s.reverse.dropWhile isWs).reverse
/-- `str.strip()` -/
def strip (s : Str) : Str := rstrip (lstrip s)

/-- a float on the `10^-d` lattice in sign–magnitude form (`-0.000` is a value Python prints for a
negative number that rounds to zero) -/
structure SNum where
  neg : Bool
  mag : Nat
  deriving DecidableEq, Repr
def SNum.toInt (v : SNum) : Int := if v.neg then - (v.mag : Int) else v.mag
def SNum.ofInt (n : Int) : SNum := ⟨decide (n < 0), n.natAbs⟩

/-- body of a fixed-point rendering: sign, integer part, '.', `d` decimals -/
def fixedCoreS (d : Nat) (v : SNum) : Str :=
  (if v.neg then ['-'] else []) ++ natStr (v.mag / 10 ^ d) ++ ['.'] ++ padDigits d (v.mag % 10 ^ d)
def lpad (w : Nat) (s : Str) : Str := List.replicate (w - s.length) ' ' ++ s
/-- `"{:w.df}".format(x)` for `x = ±mag / 10^d` -/
def fixedWS (w d : Nat) (v : SNum) : Str := lpad w (fixedCoreS d v)
/-- the same followed by `.strip()` (what `__printInOrder` writes) -/
def renderFixedS (w d : Nat) (v : SNum) : Str := strip (fixedWS w d v)
def fixedCore (d : Nat) (n : Int) : Str := fixedCoreS d (SNum.ofInt n)
def fixedW (w d : Nat) (n : Int) : Str := fixedWS w d (SNum.ofInt n)
def renderFixed (w d : Nat) (n : Int) : Str := renderFixedS w d (SNum.ofInt n)

/-- the mantissa part of a float literal, `[-+]digits[.digits]` or `[-+].digits` (no surrounding blanks): signed mantissa and
number of decimals. `none` is Python's ValueError. -/
def parseMant? (s : Str) : Option (Int × Nat) :=
  let neg := s.head? == some '-'
  let body := if s.head? == some '-' || s.head? == some '+' then s.drop 1 else s
  let ip := body.takeWhile (· ≠ '.')
  let fp := (body.dropWhile (· ≠ '.')).drop 1
  if ip.isEmpty && fp.isEmpty then none else
  match parseNatAux ip 0, parseNatAux fp 0 with
  | some a, some b =>
    let m : Int := ((a * 10 ^ fp.length + b : Nat) : Int)
    some (if neg then -m else m, fp.length)
  | _, _ => none

/-- the exponent marker of a float literal -/
def isExpChar (c : Char) : Bool := c = 'e' || c = 'E'

/-- the exponent of a float literal: `[-+]digits` -/
def parseSInt? (s : Str) : Option Int :=
  if s.head? == some '-' then (parseNat? (s.drop 1)).map (fun n => - (n : Int))
  else if s.head? == some '+' then (parseNat? (s.drop 1)).map (fun n => (n : Int))
  else (parseNat? s).map (fun n => (n : Int))

/-- `m / 10^k` times `10^x`, again as mantissa and number of decimals (no rounding: the value is kept exactly) -/
def scaleDec (m : Int) (k : Nat) (x : Int) : Int × Nat :=
  if x ≤ 0 then (m, k + x.natAbs)
  else if x.toNat ≤ k then (m, k - x.toNat) else (m * 10 ^ (x.toNat - k), 0)

/-- `float(s)` on a decimal literal `[-+]digits[.digits][(e|E)[-+]digits]` (surrounding blanks ignored, as `float` does):
signed mantissa and number of decimals of the exact decimal value (`1.5e-07` is `(15, 8)`, `1.5E+16` is
`(15000000000000000, 0)`). `none` is Python's ValueError. Outside the model: digit-group underscores, and the
overflow to `inf` / underflow to `0.0` of exponents beyond the double range (`inf`, `nan` are `floatLit?`). -/
def parseDec? (s0 : Str) : Option (Int × Nat) :=
  let s := strip s0
  match s.dropWhile (fun c => !isExpChar c) with
  | [] => parseMant? s
  | _ :: ex =>
    match parseMant? (s.takeWhile (fun c => !isExpChar c)), parseSInt? ex with
    | some (m, k), some x => some (scaleDec m k x)
    | _, _ => none

/-- decimals with trailing zeros removed, keeping at least one: `(d', f')` with `f = f' * 10^(d-d')` -/
def trimFrac : Nat → Nat → Nat × Nat
  | 0, f => (0, f)
  | 1, f => (1, f)
  | d+2, f => if f % 10 = 0 then trimFrac (d+1) (f / 10) else (d+2, f)

/-- `str(x)` for the float `x = ±mag / 10^d` (`d ≥ 1`) in Python's positional repr range: integer part, point, the decimals
without their trailing zeros (at least one) -/
def reprDecS (d : Nat) (v : SNum) : Str :=
  let (d', f') := trimFrac d (v.mag % 10 ^ d)
  (if v.neg then ['-'] else []) ++ natStr (v.mag / 10 ^ d) ++ ['.'] ++ padDigits d' f'

/-- `a` without its trailing decimal zeros (`a > 0`; the fuel `a` is more than enough) -/
def stripZerosF : Nat → Nat → Nat
  | 0, a => a
  | f+1, a => if a ≠ 0 ∧ a % 10 = 0 then stripZerosF f (a / 10) else a
def stripZeros (a : Nat) : Nat := stripZerosF a a

/-- the digits `a` as the mantissa of the exponent notation: first digit, then (when there are more) a point and the others -/
def sciMant (a : Nat) : Str :=
  let k := numDigits a
  natStr (a / 10 ^ (k - 1)) ++ (if k = 1 then [] else '.' :: padDigits (k - 1) (a % 10 ^ (k - 1)))

/-- the exponent part `e-05`, `e+16` (at least two digits); `ec` is the marker (`e`; `E` after `str.upper()`) -/
def expText (ec : Char) (x : Int) : Str := [ec, if x < 0 then '-' else '+'] ++ zpad 2 x.natAbs

/-- decimal exponent of the leading digit of `m / 10^d` (`m > 0`) -/
def sciExp (d m : Nat) : Int := (numDigits m : Int) - 1 - (d : Int)

/-- `float.__repr__` switches to the exponent notation below `1e-4` and from `1e16` (format code `r`: `decpt <= -4 or decpt > 16`) -/
def useExp (d m : Nat) : Bool := m != 0 && (decide (sciExp d m < -4) || decide (16 ≤ sciExp d m))

/-- `str(x)` / `repr(x)` for ANY finite float `x` whose shortest round-trip decimal is `±mag / 10^d` (`-0.0` is `⟨true, 0⟩`):
positional (`5.0`, `0.0001`, `9999999999999998.0`) or exponent notation (`1e-05`, `1.9290316747799796e-05`, `1.5e+22`,
`5e-324`); `ec` is the exponent marker -/
def reprFloat (ec : Char) (d : Nat) (v : SNum) : Str :=
  if useExp d v.mag then
    (if v.neg then ['-'] else []) ++ sciMant (stripZeros v.mag) ++ expText ec (sciExp d v.mag)
  else if d = 0 then reprDecS 1 ⟨v.neg, v.mag * 10⟩ else reprDecS d v

instance : OfNat SNum n := ⟨⟨false, n⟩⟩
instance : Neg SNum := ⟨fun v => ⟨!v.neg, v.mag⟩⟩

/-! ### generic string helpers -/

/-- `s.split(c)` for a one-character separator -/
def splitOnChar (c : Char) : Str → List Str
  | [] => [[]]
  | x :: xs =>
    if x = c then [] :: splitOnChar c xs
    else match splitOnChar c xs with
      | [] => [[x]]
      | h :: t => (x :: h) :: t

/-- `sep.join(parts)` for a one-character separator -/
def joinChar (c : Char) : List Str → Str
  | [] => []
  | [a] => a
  | a :: b :: r => a ++ c :: joinChar c (b :: r)

def isPrefix : Str → Str → Bool
  | [], _ => true
  | _ :: _, [] => false
  | a :: as, b :: bs => a = b && isPrefix as bs
/-- `pat in s` -/
def isInfix (pat : Str) : Str → Bool
  | [] => pat.isEmpty
  | c :: cs => isPrefix pat (c :: cs) || isInfix pat cs

def toUpper (s : Str) : Str := s.map Char.toUpper

/-! ### (c) timestamps over a tokenised format -/

inductive Tok where
  | code (w : Nat) (l : Char)
  | lit (c : Char)
  deriving DecidableEq, Repr

/-- the fifteen `ObsTime.__codes`, in the order of the Python list -/
def codes : List (Nat × Char) :=
  [(1,'D'),(2,'D'),(1,'M'),(2,'M'),(2,'Y'),(4,'Y'),(1,'h'),(2,'h'),(1,'m'),(2,'m'),(1,'s'),(2,'s'),(1,'z'),(2,'z'),(3,'z')]

def codeOf? (a b : Char) : Option (Nat × Char) :=
  match digitVal? a with
  | some w => if codes.contains (w, b) then some (w, b) else none
  | none => none

/-- a format string as codes (digit + letter among `__codes`) and literal characters -/
def tokenize : Str → List Tok
  | [] => []
  | [a] => [Tok.lit a]
  | a :: b :: r =>
    match codeOf? a b with
    | some (w, l) => Tok.code w l :: tokenize r
    | none => Tok.lit a :: tokenize (b :: r)

/-- the `subst` entry of `__str__` for a code -/
def fieldVal (t : Stamp) (w : Nat) (l : Char) : Nat :=
  if l = 'D' then t.d.day else if l = 'M' then t.d.month
  else if l = 'Y' then (if w = 2 then t.d.year % 100 else t.d.year)
  else if l = 'h' then t.d.hour else if l = 'm' then t.d.min else if l = 's' then t.d.sec
  else if w = 1 then (t.ms + 50) / 100 else if w = 2 then (t.ms + 5) / 10 else t.ms

/-- `ObsTime.__str__` with print format `f` -/
def printTime (f : List Tok) (t : Stamp) : Str :=
  match f with
  | [] => []
  | Tok.code w l :: r => zpad w (fieldVal t w l) ++ printTime r t
  | Tok.lit c :: r => c :: printTime r t

/-- index in the *format string* of the first occurrence of code `(w,l)` -/
def findCode (w : Nat) (l : Char) : List Tok → Nat → Option Nat
  | [], _ => none
  | Tok.code w' l' :: r, pos => if w = w' ∧ l = l' then some pos else findCode w l r (pos + 2)
  | Tok.lit _ :: r, pos => findCode w l r (pos + 1)

/-- stable insertion by index (the `sort(key=__takeSecond)`) -/
def insertByIdx (x : (Nat × Char) × Nat) : List ((Nat × Char) × Nat) → List ((Nat × Char) × Nat)
  | [] => [x]
  | y :: ys => if x.2 < y.2 then x :: y :: ys else y :: insertByIdx x ys
def sortByIdx (l : List ((Nat × Char) × Nat)) : List ((Nat × Char) × Nat) :=
  l.foldl (fun acc x => insertByIdx x acc) []

/-- `shift += int(code[0]) - 2` may be negative (one-digit codes); a position never becomes negative
because every earlier code occupies two characters of the format -/
def applyShift : List ((Nat × Char) × Nat) → Int → List ((Nat × Char) × Nat)
  | [], _ => []
  | ((w, l), i) :: r, sh => ((w, l), ((i : Int) + sh).toNat) :: applyShift r (sh + (w : Int) - 2)

/-- `ObsTime.__precompileReadFmt` (without the `*` wildcard): for every code of `__codes` its first
position in the format, sorted by position, shifted by the widths that differ from two -/
def precompile (f : List Tok) : List ((Nat × Char) × Nat) :=
  let found := codes.filterMap (fun c => (findCode c.1 c.2 f 0).map (fun i => (c, i)))
  applyShift (sortByIdx found) 0

/-- `ObsTime.__fillMember` -/
def fillMember (t : Stamp) (w : Nat) (l : Char) (v : Str) : Option Stamp :=
  if l = 'z' then
    if v.isEmpty then some { t with ms := 0 }
    else (parseNat? v).map (fun n => { t with ms := n * 10 ^ (3 - w) })
  else
    match parseNat? v with
    | none => none
    | some n =>
      if l = 'D' then some { t with d := { t.d with day := n } }
      else if l = 'M' then some { t with d := { t.d with month := n } }
      else if l = 'h' then some { t with d := { t.d with hour := n } }
      else if l = 'm' then some { t with d := { t.d with min := n } }
      else if l = 's' then some { t with d := { t.d with sec := n } }
      else if w = 2 then some { t with d := { t.d with year := n + 2000 } }
      else some { t with d := { t.d with year := n } }

/-- `ObsTime()` -/
def epoch : Stamp := ⟨⟨1970, 1, 1, 0, 0, 0⟩, 0⟩

def readLoop : List ((Nat × Char) × Nat) → Str → Stamp → Option Stamp
  | [], _, t => some t
  | ((w, l), i) :: r, s, t =>
    match fillMember t w l ((s.drop i).take w) with
    | none => none
    | some t' => readLoop r s t'

/-- `ObsTime.readTimestamp` with read format `f`; `none` is the ValueError of `int()` -/
def readTimestamp (f : List Tok) (s : Str) : Option Stamp := readLoop (precompile f) s epoch

/-! ### (b) track CSV -/

structure CsvFmt where
  idE : Int
  idN : Int
  idU : Int
  idT : Int
  sep : Char
  deriving Repr

/-- one observation: coordinates as scaled integers, calendar time -/
structure Row where
  x : SNum
  y : SNum
  z : SNum
  t : Stamp
  deriving DecidableEq, Repr

/-- stable insertion sort on the column id (`O.sort(key=__takeFirst)`) -/
def insertByKey (x : Int × Nat) : List (Int × Nat) → List (Int × Nat)
  | [] => [x]
  | y :: ys => if x.1 < y.1 then x :: y :: ys else y :: insertByKey x ys
def sortByKey (l : List (Int × Nat)) : List (Int × Nat) := l.foldl (fun acc x => insertByKey x acc) []

/-- the `O` list of `writeToFile`: (column id, position in `D`), sorted by column id -/
def orderList (f : CsvFmt) (naf : Nat) : List (Int × Nat) :=
  let o : List (Int × Nat) := [(f.idE, 0), (f.idN, 1)]
  let o := if f.idU ≠ -1 then o ++ [(f.idU, 2)] else o
  let o := if f.idT ≠ -1 then (if f.idU ≠ -1 then o ++ [(f.idT, 3)] else o ++ [(f.idT, 2)]) else o
  let start := 2 + (if f.idU ≠ -1 then 1 else 0) + (if f.idT ≠ -1 then 1 else 0)
  sortByKey (o ++ (List.range naf).map (fun i => (((start + i : Nat) : Int), start + i)))

def nth (l : List α) (i : Nat) : Except String α :=
  match l[i]? with
  | some a => pure a
  | none => throw "index"

/-- `str(D[O[j][1]]).strip()` -/
def pick (D : List Str) (O : List (Int × Nat)) (j : Nat) : Except String Str := do
  let o ← nth O j
  let d ← nth D o.2
  pure (strip d)

/-- `TrackWriter.__printInOrder` (fields already converted to text) -/
def printInOrder (E N : Str) (U T : Option Str) (afs : Str) (O : List (Int × Nat)) (sep : Char) :
    Except String Str := do
  let D := [E, N] ++ U.toList ++ T.toList
  let a ← pick D O 0
  let b ← pick D O 1
  let rest ← match U, T with
    | some _, some _ => do
      let c ← pick D O 2
      let e ← pick D O 3
      pure ([sep] ++ c ++ [sep] ++ e)
    | some _, none => do
      let c ← pick D O 2
      pure ([sep] ++ c)
    | none, some _ => do
      let c ← pick D O 2
      pure ([sep] ++ c)
    | none, none => pure []
  pure (a ++ [sep] ++ b ++ rest ++ afs)

/-- a value of an analytical feature as the writer meets it: a Python `int`, a `float` whose shortest decimal is `n / 10^d`
(any magnitude: `str()` prints it positionally or in exponent notation), a `str`, `nan`, `±inf` -/
inductive AFVal where
  | int (i : Int)
  | dec (d : Nat) (n : Int)
  | str (s : Str)
  | nan
  | inf (neg : Bool)
  deriving DecidableEq, Repr

/-- `str(track.getObsAnalyticalFeature(af_name, i))` -/
def afText : AFVal → Str
  | .int i => intStr i
  | .dec d n => reprFloat 'e' d (SNum.ofInt n)
  | .str s => s
  | .nan => "nan".toList
  | .inf neg => if neg then "-inf".toList else "inf".toList

/-- width and decimals of the float format chosen from the SRID: ENU/ECEF `{:10.3f}`, GEO `{:20.10f}` -/
def floatFmt (geo : Bool) : Nat × Nat := if geo then (20, 10) else (10, 3)

/-- one data line of `writeToFile` (without the newline); `afs` are the feature values of the observation -/
def writeRow (f : CsvFmt) (geo : Bool) (pf : List Tok) (O : List (Int × Nat)) (r : Row) (afs : List AFVal) :
    Except String Str :=
  let (w, d) := floatFmt geo
  let x := fixedWS w d r.x
  let y := fixedWS w d r.y
  let z := if f.idU = -1 then none else some (fixedWS w d r.z)
  let t := if f.idT = -1 then none else some (printTime pf r.t)
  let a := afs.foldl (fun acc v => acc ++ [f.sep] ++ afText v) []
  printInOrder x y z t a O f.sep

/-- header names of the coordinate columns by `track.getSRID().upper()` -/
def hdrNames (srid : Str) : Str × Str × Str :=
  if srid = "GEO".toList then ("lon".toList, "lat".toList, "h".toList)
  else if srid = "ECEF".toList then ("X".toList, "Y".toList, "Z".toList)
  else ("E".toList, "N".toList, "U".toList)

/-- the header block of `writeToFile` (`fmt.header > 0`, where `fmt.header = h`): srid line (`track.getSRID()` is
`ENU`, `Geo` or `ECEF`), reference point (`None` for a track without base), no `Reference epoch` line
(`fmt.time_ini` keeps the `-1` of `TrackFormat({'ext': 'CSV'})`), column names in column order followed by the
feature names, each line starting with the comment character `fmt.cmt` = `#` -/
def headerBlock (f : CsvFmt) (srid : Str) (names : List Str) (O : List (Int × Nat)) : Except String (List Str) := do
  let sridShown := if srid = "GEO".toList then "Geo".toList else srid
  let (a, b, c) := hdrNames srid
  let headerAF := names.foldl (fun acc n => acc ++ [f.sep] ++ n) []
  let l3 ← printInOrder a b (if f.idU = -1 then none else some c) (if f.idT = -1 then none else some "time".toList)
    headerAF O f.sep
  pure ['#' :: ("srid: ".toList ++ sridShown), '#' :: "ref point: None".toList, '#' :: l3]

/-- `TrackWriter.writeToFile(track, path, id_E, id_N, id_U, id_T, separator, h, af_names)`:
the text of the file (`srid` = `track.getSRID().upper()`, `names` = `af_names`, `naf` their number). The header
block is written for every `h > 0` and is the same whatever the positive value. -/
def writeToFile (f : CsvFmt) (geo : Bool) (pf : List Tok) (h : Nat) (naf : Nat) (rows : List (Row × List AFVal))
    (srid : Str := "ENU".toList) (names : List Str := []) : Except String Str := do
  let O := orderList f naf
  let hdr ← if h > 0 then headerBlock f srid names O else pure []
  let ls ← rows.mapM (fun ra => writeRow f geo pf O ra.1 ra.2)
  pure ((hdr ++ ls).map (· ++ ['\n'])).flatten

/-- `TrackWriter.writeToCsv(track, path, track_format)`: `writeToFile` with the column ids, separator and `header` of the
TrackFormat; `track_format.af_names` is always empty (TrackFormat never fills it), so no feature column is written -/
def writeToCsv (f : CsvFmt) (geo : Bool) (pf : List Tok) (header : Nat) (rows : List Row) (srid : Str := "ENU".toList) :
    Except String Str :=
  writeToFile f geo pf header 0 (rows.map (fun r => (r, []))) srid []

/-- `TrackWriter.writeToCsv(collection, dir, track_format)` = `writeToFiles`: one file `track_output_<i>.csv` per track, each
written by `writeToFile` with the same arguments -/
def writeToCsvColl (f : CsvFmt) (geo : Bool) (pf : List Tok) (header : Nat) (tracks : List (List Row)) (srid : Str := "ENU".toList) :
    Except String (List Str) :=
  tracks.mapM (fun rows => writeToCsv f geo pf header rows srid)

/-- `TrackWriter.writeToFile(track, path)` with every other argument left at its default (`id_E = id_N = -1`): the branch that
builds the format `E` in column 0, `N` in column 1, no `U`, no time, separator `,`, no header -/
def writeToFileDefault (geo : Bool) (pf : List Tok) (rows : List Row) (srid : Str := "ENU".toList) : Except String Str :=
  writeToFile ⟨0, 1, -1, -1, ','⟩ geo pf 0 0 (rows.map (fun r => (r, []))) srid []

/-- the lines of a text as `readline()` delivers them, without their newline (an empty element is
an empty line inside the file; the end of the list is end of file) -/
def fileLines (s : Str) : List Str :=
  let parts := splitOnChar '\n' s
  if parts.getLast? = some [] then parts.dropLast else parts

def noData : Int := -999999

/-- a coordinate as read: scaled mantissa, decimals -/
abbrev Dec := Int × Nat
/-- `int(x)` (truncation toward zero) of a parsed decimal -/
def decTrunc (v : Dec) : Int := Int.tdiv v.1 (10 ^ v.2)

structure RRow where
  x : Dec
  y : Dec
  z : Dec
  t : Stamp
  deriving DecidableEq, Repr

def idx (i : Int) : Nat := i.toNat

/-- a field used as a coordinate: blank or `NA` (E, N only) becomes `no_data_value`, then `float()` -/
def coordField (fld : Str) (naToo : Bool) : Option Dec :=
  if (strip fld).isEmpty || (naToo && strip fld == ['N', 'A']) then some (noData, 0) else parseDec? fld

/-- one data line of `__readFromCsv` (already stripped, non-empty, not a comment) -/
def readRow (f : CsvFmt) (rf : List Tok) (line : Str) : Except String RRow := do
  let fields := (splitOnChar f.sep (strip line)).filter (fun s => !s.isEmpty)
  let time ←
    if f.idT ≠ -1 then do
      let fld ← nth fields (idx f.idT)
      let T := (strip fld).filter (· ≠ '"')
      pure (match readTimestamp rf T with | some t => t | none => epoch)
    else pure epoch
  let fe ← nth fields (idx f.idE)
  let fn ← nth fields (idx f.idN)
  -- the blank-field test on U indexes the list before E and N are converted
  let fu? ← if f.idU ≥ 0 then (do let u ← nth fields (idx f.idU); pure (some u)) else pure none
  let E ← match coordField fe true with | some v => pure v | none => throw "arg"
  let N ← match coordField fn true with | some v => pure v | none => throw "arg"
  if decTrunc E ≠ noData ∧ decTrunc N ≠ noData then
    let U ← match fu? with
      | some fu => (match coordField fu false with | some v => pure v | none => throw "value")
      | none => pure ((0, 0) : Dec)
    return ⟨E, N, U, time⟩
  else
    return ⟨(noData, 0), (noData, 0), (noData, 0), time⟩

/-- data loop of `__readFromCsv`: stops at the first line that is empty after `strip` -/
def readLines (f : CsvFmt) (rf : List Tok) (cmt : Char) : List Str → Except String (List RRow)
  | [] => pure []
  | l :: ls =>
    let s := strip l
    match s with
    | [] => pure []
    | c :: _ =>
      if c = cmt then readLines f rf cmt ls
      else do
        let r ← readRow f rf s
        let rs ← readLines f rf cmt ls
        pure (r :: rs)

/-- header loop: `for i in range(fmt.header): line = fp.readline(); if line[0] == fmt.cmt: …`
(`line[0]` on the empty string read at end of file is an IndexError) -/
def skipHeader : Nat → List Str → Except String (List Str)
  | 0, ls => pure ls
  | _+1, [] => throw "index"
  | k+1, _ :: ls => skipHeader k ls

/-- `TrackReader.readFromCsv(path, id_E, id_N, id_U, id_T, separator, h=header)` on a file text
(negative ids other than −1 are outside the model) -/
def readCsv (f : CsvFmt) (rf : List Tok) (header : Nat) (text : Str) : Except String (List RRow) := do
  let ls ← skipHeader header (fileLines text)
  readLines f rf '#' ls

/-- `TrackReader.readFromCsv(<directory>, …)` = `readFromFile` on a directory: every file of the listing (`texts`, in the order
`os.listdir` delivers them) is read with the same format; files that give an empty track are skipped; the others make up the
collection, in listing order -/
def readCsvDir (f : CsvFmt) (rf : List Tok) (header : Nat) (texts : List Str) : Except String (List (List RRow)) := do
  let ts ← texts.mapM (readCsv f rf header)
  pure (ts.filter (fun t => !t.isEmpty))

/-! ### (b') `read_all`: the feature columns

`__readFromCsv(..., read_all=True)`: during the first pass `name_non_special` is overwritten by every header line and
every comment line (split on the separator), `fields` is left at the last data line; afterwards one feature is created
for every column index of that last line that is not one of `id_E id_N id_U id_T`, named by `name_non_special[i]`, and
the file is read a second time to fill the values (`float(val)`, else the text without double quotes; a name ending in
`&` keeps the text). -/

/-- a feature value as the reader stores it: a float (decimal literal), `nan`, `±inf`, or a string -/
inductive AFRead where
  | num (v : Dec)
  | nan
  | inf (neg : Bool)
  | str (s : Str)
  deriving DecidableEq, Repr

def toLower (s : Str) : Str := s.map Char.toLower

/-- `float(s)` on the texts met in feature columns: a decimal literal, or `nan` / `inf` / `infinity` in any case with an
optional sign; `none` is the ValueError (digit-group underscores are outside the model) -/
def floatLit? (s0 : Str) : Option AFRead :=
  match parseDec? s0 with
  | some v => some (.num v)
  | none =>
    let s := strip s0
    let neg := s.head? == some '-'
    let body := toLower (if s.head? == some '-' || s.head? == some '+' then s.drop 1 else s)
    if body = "nan".toList then some .nan
    else if body = "inf".toList || body = "infinity".toList then some (.inf neg) else none

/-- the value stored for the (stripped) field `val` of the column named `name` (`name[-1]` on an empty name is an IndexError) -/
def afValue (name val : Str) : Except String AFRead :=
  match name.getLast? with
  | none => throw "index"
  | some c =>
    if c = '&' then pure (.str val)
    else match floatLit? val with
      | some v => pure v
      | none => pure (.str (val.filter (· ≠ '"')))

/-- the lines of a text as `readline()` returns them, with their newline (the last one may lack it) -/
def rawLines (s : Str) : List Str :=
  let ls := fileLines s
  if s.getLast? = some '\n' then ls.map (· ++ ['\n'])
  else ls.dropLast.map (· ++ ['\n']) ++ ls.getLast?.toList

/-- the lines of a file paired with their raw form: (line without its newline, line as `readline()` returns it) -/
def linePairs (s : Str) : List (Str × Str) := (fileLines s).zip (rawLines s)

/-- header loop of the first pass: `if line[0] == cmt: line = line[1:]; name_non_special = line.split(sep)` on the raw line -/
def hdrLoopNames (sep cmt : Char) : Nat → List (Str × Str) → Option (List Str) →
    Except String (List (Str × Str) × Option (List Str))
  | 0, ls, nm => pure (ls, nm)
  | _+1, [], _ => throw "index"
  | k+1, l :: ls, _ =>
    hdrLoopNames sep cmt k ls (some (splitOnChar sep (if l.2.head? = some cmt then l.2.drop 1 else l.2)))

/-- data loop of the first pass as far as `name_non_special` (comment lines: `line[1:].split(sep)` of the stripped line) and
the length of the last `fields` are concerned -/
def dataLoopNames (sep cmt : Char) : List (Str × Str) → Option (List Str) → Option Nat → Option (List Str) × Option Nat
  | [], nm, nf => (nm, nf)
  | l :: ls, nm, nf =>
    match strip l.1 with
    | [] => (nm, nf)
    | c :: cs =>
      if c = cmt then dataLoopNames sep cmt ls (some (splitOnChar sep cs)) nf
      else dataLoopNames sep cmt ls nm (some ((splitOnChar sep (c :: cs)).filter (fun s => !s.isEmpty)).length)

/-- `id_special` -/
def special (f : CsvFmt) : List Int :=
  [f.idE, f.idN] ++ (if f.idU ≥ 0 then [f.idU] else []) ++ (if f.idT ≥ 0 then [f.idT] else [])

/-- the names `Track.__controlName` refuses -/
def reserved : List Str := ["x".toList, "y".toList, "z".toList, "t".toList, "timestamp".toList, "idx".toList]

/-- `for i in range(len(fields)): if not (i in id_special): track.createAnalyticalFeature(name_non_special[i])`:
the feature dictionary (names in order of creation; a name already present is not created again) -/
def createAFs (f : CsvFmt) (names : List Str) (nf : Nat) : Except String (List Str) :=
  (List.range nf).foldlM (fun dico (i : Nat) =>
    if (special f).contains (Int.ofNat i) then pure dico else do
      let name ← nth names i
      if reserved.contains name then throw "AnalyticalFeatureError"
      else pure (if dico.contains name then dico else dico ++ [name])) []

/-- the inner loop of the second pass on the fields of one line: observation number `k` -/
def afRowSet (f : CsvFmt) (names dico : List Str) (fields : List Str) (k : Nat) (fs : List (List AFRead)) :
    Except String (List (List AFRead)) :=
  (List.range fields.length).foldlM (fun fs (i : Nat) =>
    if (special f).contains (Int.ofNat i) then pure fs else do
      let fld ← nth fields i
      let name ← nth names i
      let v ← afValue name (strip fld)
      match dico.idxOf? name with
      | none => throw "AnalyticalFeatureError"
      | some j => do
        let ft ← nth fs k
        pure (fs.set k (ft.set j v))) fs

/-- the second pass over (line without newline, raw line) pairs: the first line is used raw (`fp.readline()`), the
following ones stripped; `line.strip()[0]` on a blank first line is an IndexError -/
def afLoop (f : CsvFmt) (cmt : Char) (names dico : List Str) :
    Bool → List (Str × Str) → Nat → List (List AFRead) → Except String (List (List AFRead))
  | _, [], _, fs => pure fs
  | first, l :: ls, k, fs =>
    let line := if first then l.2 else strip l.1
    if line.isEmpty then pure fs
    else match strip line with
      | [] => throw "index"
      | c :: _ =>
        if c = cmt then afLoop f cmt names dico false ls k fs
        else do
          let fields := (splitOnChar f.sep line).filter (fun s => !s.isEmpty)
          let fs' ← afRowSet f names dico fields k fs
          afLoop f cmt names dico false ls (k + 1) fs'

/-- the `read_all` part of `__readFromCsv` on a file text whose first pass gave `nobs` observations: the feature names
and, per observation, the feature values (0.0 where a line has fewer fields) -/
def readAll (f : CsvFmt) (header : Nat) (cmt : Char) (text : Str) (nobs : Nat) :
    Except String (List Str × List (List AFRead)) := do
  let (rest, nm0) ← hdrLoopNames f.sep cmt header (linePairs text) none
  let (nm, nf) := dataLoopNames f.sep cmt rest nm0 none
  match nm with
  | none => throw "unbound"
  | some nm =>
    let names := (nm.filter (fun s => !s.isEmpty)).map strip
    match nf with
    | none => throw "unbound"
    | some nf => do
      let dico ← createAFs f names nf
      let init := List.replicate nobs (List.replicate dico.length (AFRead.num (0, 0)))
      let fs ← afLoop f cmt names dico true ((linePairs text).drop header) 0 init
      pure (dico, fs)

/-- `TrackReader.readFromCsv(..., read_all=True)`: the observations, the feature names, the feature values -/
def readCsvAll (f : CsvFmt) (rf : List Tok) (header : Nat) (text : Str) :
    Except String (List RRow × List Str × List (List AFRead)) := do
  let rows ← readCsv f rf header text
  let (names, fs) ← readAll f header '#' text rows.length
  pure (rows, names, fs)

/-! ### (e) WKT -/

/-- a planimetric vertex: two floats `±mag / 10^d` (negative zero included) -/
abbrev Pt := SNum × SNum

/-- `Track.toWKT()` for an ENU, Geo or ECEF track whose first two coordinates (E N / lon lat / X Y) are the floats `±mag / 10^d`,
printed by `str(float)`; `ec` is the exponent marker (`e` as written, `E` once `parseWkt` has upper-cased the text) -/
def toWKTE (ec : Char) (d : Nat) (pts : List Pt) : Str :=
  "LINESTRING(".toList ++ joinChar ',' (pts.map (fun p => reprFloat ec d p.1 ++ [' '] ++ reprFloat ec d p.2)) ++ [')']
def toWKT (d : Nat) (pts : List Pt) : Str := toWKTE 'e' d pts

/-- the vertex loop shared by `parseWkt` and `wktLineStringToObs`: `strip().split(" ")`, `float` of
the first two (and of a third when there are exactly three) items -/
def parseVertex (s : Str) : Except String (Dec × Dec × Dec) := do
  let sl := splitOnChar ' ' (strip s)
  let xs ← nth sl 0
  let x ← match parseDec? xs with | some v => pure v | none => throw "value"
  let ys ← nth sl 1
  let y ← match parseDec? ys with | some v => pure v | none => throw "value"
  if sl.length = 3 then
    let zs ← nth sl 2
    let z ← match parseDec? zs with | some v => pure v | none => throw "value"
    return (x, y, z)
  else return (x, y, (0, 0))

/-- `wkt.split("(")[1].split(")")[0].split(",")` -/
def wktCoords (wkt : Str) : Except String (List Str) := do
  let a ← nth (splitOnChar '(' wkt) 1
  let b ← nth (splitOnChar ')' a) 0
  return splitOnChar ',' b

/-- `s.split("ab")` for a two-character separator (left to right, non-overlapping) -/
def splitOn2 (a b : Char) : Str → List Str
  | [] => [[]]
  | [x] => [[x]]
  | x :: y :: r =>
    if x = a ∧ y = b then [] :: splitOn2 a b r
    else match splitOn2 a b (y :: r) with
      | [] => [[x]]
      | h :: t => (x :: h) :: t

/-- `wkt.split("((")[1].split("))")[0].split(",")` -/
def wktCoordsPoly (wkt : Str) : Except String (List Str) := do
  let a ← nth (splitOn2 '(' '(' wkt) 1
  let b ← nth (splitOn2 ')' ')' a) 0
  return splitOnChar ',' b

/-- `TrackReader.parseWkt`: `POLYGON((…))` (outer ring up to the first `))`), `LINESTRING(…)`; the `MULTIPOLYGON` branch
calls `.split` on a list (AttributeError) once its two index operations succeeded; any other text is a WrongArgumentError -/
def parseWkt (wkt : Str) : Except String (List (Dec × Dec × Dec)) := do
  let w := toUpper wkt
  if w.take 4 == "POLY".toList then
    let cs ← wktCoordsPoly w
    cs.mapM parseVertex
  else if w.take 4 == "LINE".toList then
    let cs ← wktCoords w
    cs.mapM parseVertex
  else if w.take 7 == "MULTIPO".toList then
    let _ ← wktCoordsPoly w
    throw "AttributeError"
  else throw "arg"

/-! ### (d) network CSV -/

structure NEdge where
  id : Str
  src : Str
  tgt : Str
  orient : Int
  geom : List Pt
  deriving DecidableEq, Repr

def netHeader (sep : Char) : Str :=
  "link_id".toList ++ [sep] ++ "source".toList ++ [sep] ++ "target".toList ++ [sep] ++ "direction".toList ++ [sep] ++ "wkt\n".toList

def netRow (sep : Char) (d : Nat) (e : NEdge) : Str :=
  e.id ++ [sep] ++ e.src ++ [sep] ++ e.tgt ++ [sep] ++ intStr e.orient ++ [sep] ++ ['"'] ++ toWKT d e.geom ++ ['"'] ++ ['\n']

/-- `NetworkWriter.writeToCsv(network, path, separator, h)` -/
def netWrite (sep : Char) (h : Nat) (d : Nat) (es : List NEdge) : Str :=
  (if h = 1 then netHeader sep else []) ++ (es.map (netRow sep d)).flatten

inductive CsvSt where | start | inField | inQuoted | quoteInQuoted

/-- one record of `csv.reader(delimiter=sep, doublequote=True)` on a line without its newline -/
def csvFields (sep : Char) : Str → CsvSt → Str → List Str → List Str
  | [], st, cur, acc =>
    match st with
    | CsvSt.start => if acc.isEmpty then [] else (acc ++ [cur])   -- empty line: [] ; trailing delimiter: last empty field
    | _ => acc ++ [cur]
  | c :: cs, st, cur, acc =>
    match st with
    | CsvSt.start =>
      if c = '"' then csvFields sep cs CsvSt.inQuoted cur acc
      else if c = sep then csvFields sep cs CsvSt.start [] (acc ++ [cur])
      else csvFields sep cs CsvSt.inField (cur ++ [c]) acc
    | CsvSt.inField =>
      if c = sep then csvFields sep cs CsvSt.start [] (acc ++ [cur])
      else csvFields sep cs CsvSt.inField (cur ++ [c]) acc
    | CsvSt.inQuoted =>
      if c = '"' then csvFields sep cs CsvSt.quoteInQuoted cur acc
      else csvFields sep cs CsvSt.inQuoted (cur ++ [c]) acc
    | CsvSt.quoteInQuoted =>
      if c = '"' then csvFields sep cs CsvSt.inQuoted (cur ++ [c]) acc
      else if c = sep then csvFields sep cs CsvSt.start [] (acc ++ [cur])
      else csvFields sep cs CsvSt.inField (cur ++ [c]) acc

def csvRecord (sep : Char) (line : Str) : List Str := csvFields sep line CsvSt.start [] []

structure NetFmt where
  posId : Nat
  posSrc : Nat
  posTgt : Nat
  posDir : Int      -- −1: not read
  posWkt : Nat
  sep : Char
  header : Nat

structure REdge where
  id : Str
  src : Str
  tgt : Str
  orient : Int
  geom : List (Dec × Dec × Dec)
  deriving DecidableEq, Repr

/-- `readLineAndAddToNetwork` (identifiers, orientation, geometry; the weight is not written) -/
def netReadRow (f : NetFmt) (row : List Str) : Except String REdge := do
  let id ← nth row f.posId
  let g ← nth row f.posWkt
  let cs ← wktCoords g
  let geom ← cs.mapM parseVertex
  if geom.length < 2 then throw "type" else
  let orient ←
    if f.posDir = -1 then pure (0 : Int) else do
      let o ← nth row f.posDir.toNat
      match parseInt? (strip o) with
      | some v => pure (if v = 0 ∨ v = 1 ∨ v = -1 then v else 0)
      | none => throw "value"
  let s ← nth row f.posSrc
  let t ← nth row f.posTgt
  return ⟨id, s, t, orient, geom⟩

/-- `Network.addNode` over the rows in order: first coordinates seen for an identifier win -/
def addNode (nodes : List (Str × (Dec × Dec × Dec))) (id : Str) (c : Dec × Dec × Dec) :=
  if nodes.any (fun n => n.1 == id) then nodes else nodes ++ [(id, c)]

def nodesOf (es : List REdge) : List (Str × (Dec × Dec × Dec)) :=
  es.foldl (fun acc e =>
    let first := e.geom.head?.getD ((0,0),(0,0),(0,0))
    let last := e.geom.getLast?.getD ((0,0),(0,0),(0,0))
    addNode (addNode acc e.src first) e.tgt last) []

/-- `NetworkReader.readFromFile`: the header loop, entered only when `fmt.header > 0`, consumes `header`
records (fewer when the file is shorter); the remaining records become edges -/
def netRead (f : NetFmt) (text : Str) : Except String (List REdge) := do
  let recs := (fileLines text).map (fun l => csvRecord f.sep (l.filter (fun c => c ≠ '\n' ∧ c ≠ '\r')))
  let body := recs.drop f.header
  body.mapM (netReadRow f)

/-! ### (e') a csv file with a WKT column: `TrackReader.readFromWkt`

tracklib has no writer for this layout: the file is the one a user writes with `sep.join([uid, tid, track.toWKT()])`, one
track per line, the WKT text in double quotes or bare. -/

/-- `csv.reader(delimiter=sep, doublequote=dq)` (non-strict): as `csvFields`, with the `doublequote` flag — when it is off, a
quote met right after the closing quote of a quoted field is kept and the field goes on unquoted -/
def csvFieldsQ (dq : Bool) (sep : Char) : Str → CsvSt → Str → List Str → List Str
  | [], st, cur, acc =>
    match st with
    | CsvSt.start => if acc.isEmpty then [] else (acc ++ [cur])
    | _ => acc ++ [cur]
  | c :: cs, st, cur, acc =>
    match st with
    | CsvSt.start =>
      if c = '"' then csvFieldsQ dq sep cs CsvSt.inQuoted cur acc
      else if c = sep then csvFieldsQ dq sep cs CsvSt.start [] (acc ++ [cur])
      else csvFieldsQ dq sep cs CsvSt.inField (cur ++ [c]) acc
    | CsvSt.inField =>
      if c = sep then csvFieldsQ dq sep cs CsvSt.start [] (acc ++ [cur])
      else csvFieldsQ dq sep cs CsvSt.inField (cur ++ [c]) acc
    | CsvSt.inQuoted =>
      if c = '"' then csvFieldsQ dq sep cs CsvSt.quoteInQuoted cur acc
      else csvFieldsQ dq sep cs CsvSt.inQuoted (cur ++ [c]) acc
    | CsvSt.quoteInQuoted =>
      if c = '"' ∧ dq = true then csvFieldsQ dq sep cs CsvSt.inQuoted (cur ++ [c]) acc
      else if c = sep then csvFieldsQ dq sep cs CsvSt.start [] (acc ++ [cur])
      else csvFieldsQ dq sep cs CsvSt.inField (cur ++ [c]) acc

def csvRecordQ (dq : Bool) (sep : Char) (line : Str) : List Str := csvFieldsQ dq sep line CsvSt.start [] []

/-- the arguments of `readFromWkt(path, id_geom, id_user, id_track, separator, h, doublequote=…)` (−1: column not read) -/
structure WktFmt where
  idWkt : Nat
  idUser : Int
  idTrack : Int
  sep : Char
  header : Nat
  dq : Bool

/-- a track as `readFromWkt` returns it: `uid` / `tid` when their column is read, the vertices -/
structure WTrack where
  uid : Option Str
  tid : Option Str
  pts : List (Dec × Dec × Dec)
  deriving DecidableEq, Repr

/-- one record of `__readFromWkt`: `parseWkt(fields[id_wkt])`, then `fields[id_user]`, `fields[id_track]` -/
def wktReadRow (f : WktFmt) (fields : List Str) : Except String WTrack := do
  let w ← nth fields f.idWkt
  let pts ← parseWkt w
  let uid ← if f.idUser ≥ 0 then (do let u ← nth fields f.idUser.toNat; pure (some u)) else pure none
  let tid ← if f.idTrack ≥ 0 then (do let t ← nth fields f.idTrack.toNat; pure (some t)) else pure none
  pure ⟨uid, tid, pts⟩

/-- `TrackReader.readFromWkt` on a file text: `next(reader)` `header` times (StopIteration when the file is shorter), then one
track per non-empty record -/
def readWktFile (f : WktFmt) (text : Str) : Except String (List WTrack) := do
  let recs := (fileLines text).map (fun l => csvRecordQ f.dq f.sep (l.filter (fun c => c ≠ '\n' ∧ c ≠ '\r')))
  if recs.length < f.header then throw "StopIteration" else
  ((recs.drop f.header).filter (fun r => !r.isEmpty)).mapM (wktReadRow f)

/-- the three columns of a line in file order: the WKT text at position `pw`, the user id at `pu`, the track id at `pt` -/
def wktCols (pw pu pt : Nat) (uid tid w : Str) : List Str :=
  (List.range 3).map (fun j => if j = pw then w else if j = pu then uid else if j = pt then tid else [])

/-- a line of the file: `sep.join(columns)`, the WKT text of `track.toWKT()` in double quotes (`quoted`) or bare -/
def wktFileLine (sep : Char) (quoted : Bool) (pw pu pt : Nat) (d : Nat) (t : Str × Str × List Pt) : Str :=
  joinChar sep (wktCols pw pu pt t.1 t.2.1 (if quoted then ['"'] ++ toWKT d t.2.2 ++ ['"'] else toWKT d t.2.2))

/-- the file: an optional header line naming the columns, then one line per track (`blank`: an empty line after each) -/
def wktFile (sep : Char) (hdr quoted blank : Bool) (pw pu pt : Nat) (d : Nat) (tracks : List (Str × Str × List Pt)) : Str :=
  let h := if hdr then [joinChar sep (wktCols pw pu pt "user".toList "track".toList "wkt".toList)] else []
  let ls := (tracks.map (fun t => [wktFileLine sep quoted pw pu pt d t] ++ (if blank then [[]] else []))).flatten
  ((h ++ ls).map (· ++ ['\n'])).flatten

/-! ### (f) GPX -/

structure GRow where
  x : SNum
  y : SNum
  z : SNum
  t : Stamp

def isoFmt : List Tok := tokenize "4Y-2M-2DT2h:2m:2s".toList

/-! the lines `writeToGpx` writes for one track (each `f.write` ends with a newline) -/
def lTrk : Str := "    <trk>".toList
def lName (name : Str) : Str := "    <name>".toList ++ (name ++ "</name>".toList)
def lSeg : Str := "        <trkseg>".toList
def lPt (r : GRow) : Str :=
  "            <trkpt lat=".toList ++ '"' :: (fixedWS 3 8 r.y ++ '"' :: (" lon=".toList ++ '"' :: (fixedWS 3 8 r.x ++ '"' :: ">".toList)))
def lEle (r : GRow) : Str := "                <ele>".toList ++ (fixedWS 3 8 r.z ++ "</ele>".toList)
def lTime (r : GRow) : Str := "                <time>".toList ++ (printTime isoFmt r.t ++ "Z</time>".toList)
def lEndPt : Str := "            </trkpt>".toList
def lEndSeg : Str := "        </trkseg>".toList
def lEndTrk : Str := "    </trk>".toList
def lEndGpx : Str := "</gpx>".toList

def ptLines (r : GRow) : List Str := [lPt r, lEle r, lTime r, lEndPt]

def gpxLines (name : Str) (rows : List GRow) : List Str :=
  [lTrk, lName name, lSeg] ++ (rows.map ptLines).flatten ++ [lEndSeg, lEndTrk, lEndGpx]

/-- `writeToGpx(track, path)` for one track, from the `<trk>` line on (the metadata block above it
contains the current time); coordinates `{:3.8f}` of `n / 10^8`, zone 0 (`Z`), time printed with
`4Y-2M-2DT2h:2m:2s` -/
def gpxBody (name : Str) (rows : List GRow) : Str := ((gpxLines name rows).map (· ++ ['\n'])).flatten

/-- the lines of one track inside a GPX file -/
def trkLines (name : Str) (rows : List GRow) : List Str :=
  [lTrk, lName name, lSeg] ++ (rows.map ptLines).flatten ++ [lEndSeg, lEndTrk]

/-- `writeToGpx(collection, path)` (`oneFile=True`, the default) for a collection of tracks `(tid, points)`: one `<trk>` element
per track in the order of the collection, then `</gpx>` (from the first `<trk>` line on) -/
def gpxBodyColl (tracks : List (Str × List GRow)) : Str :=
  (((tracks.map (fun t => trkLines t.1 t.2)).flatten ++ [lEndGpx]).map (· ++ ['\n'])).flatten

/-! `writeToGpx(..., af=True)`: after `<time>` every track point carries an `<extensions>` block with one line per
analytical feature of the track, `<name>str(value)</name>` -/
def lExt : Str := "                <extensions>".toList
def lAf (n : Str) (v : AFVal) : Str :=
  "                    <".toList ++ (n ++ ('>' :: (afText v ++ ('<' :: '/' :: (n ++ ['>'])))))
def lEndExt : Str := "                </extensions>".toList
def extLines (afs : List (Str × AFVal)) : List Str := [lExt] ++ afs.map (fun a => lAf a.1 a.2) ++ [lEndExt]
def ptLinesAF (r : GRow) (afs : List (Str × AFVal)) : List Str := [lPt r, lEle r, lTime r] ++ extLines afs ++ [lEndPt]
def gpxLinesAF (name : Str) (rows : List (GRow × List (Str × AFVal))) : List Str :=
  [lTrk, lName name, lSeg] ++ (rows.map (fun ra => ptLinesAF ra.1 ra.2)).flatten ++ [lEndSeg, lEndTrk, lEndGpx]
/-- `writeToGpx(track, path, af=True)` for one track, from the `<trk>` line on -/
def gpxBodyAF (name : Str) (rows : List (GRow × List (Str × AFVal))) : Str :=
  ((gpxLinesAF name rows).map (· ++ ['\n'])).flatten

structure GState where
  inTrk : Bool := false
  inPt : Bool := false
  pos : Option (Dec × Dec × Dec) := none
  tps : Option Stamp := none
  tracks : List (List RRow) := []
  inExt : Bool := false

def appendLast (ts : List (List RRow)) (r : RRow) : Except String (List (List RRow)) :=
  match ts.reverse with
  | [] => throw "index"
  | l :: rest => pure ((((l ++ [r]) :: rest)).reverse)

/-- text between the first '>' and the next '<': `line.split('>')[1].split('<')[0]` -/
def tagText (line : Str) : Except String Str := do
  let a ← nth (splitOnChar '>' line) 1
  nth (splitOnChar '<' a) 0

/-- the `<trkpt …>` test of the scanner: `splits = line.split('"')`, `makeCoords(float(splits[3]), float(splits[1]), 0, srid)` -/
def gpxPt (st : GState) (line : Str) : Except String GState :=
  if isInfix "<trkpt ".toList line then do
    let sp := splitOnChar '"' line
    let lon ← nth sp 3
    let lat ← nth sp 1
    let x ← match parseDec? lon with | some v => pure v | none => throw "value"
    let y ← match parseDec? lat with | some v => pure v | none => throw "value"
    pure { st with inPt := true, pos := some (x, y, (0, 0)) }
  else pure st

/-- the `</trkpt>` test: `tracks[-1].addObs(Obs(pos, tps))` -/
def gpxEndPt (st : GState) (line : Str) : Except String GState :=
  if isInfix "</trkpt>".toList line then
    match st.pos, st.tps with
    | some (x, y, z), some t => do
      let ts ← appendLast st.tracks ⟨x, y, z, t⟩
      pure { st with inPt := false, tracks := ts }
    | _, _ => throw "unbound"
  else pure st

/-- the `<ele>` test; `geo` says whether `pos.hgt = …` reaches the third coordinate (it does for
GeoCoords only: on ENU/ECEF coordinates it creates an unused attribute) -/
def gpxEle (geo : Bool) (st : GState) (line : Str) : Except String GState :=
  if isInfix "<ele>".toList line then do
    let e ← tagText line
    let v ← match parseDec? e with | some v => pure v | none => throw "value"
    match st.pos with
    | some (x, y, z) => pure { st with pos := some (x, y, if geo then v else z) }
    | none => throw "unbound"
  else pure st

/-- the `<time>` test: `tps = ObsTime(text)` with the current read format -/
def gpxTime (rf : List Tok) (st : GState) (line : Str) : Except String GState :=
  if isInfix "<time>".toList line then do
    let e ← tagText line
    match readTimestamp rf e with
    | some t => pure { st with tps := some t }
    | none => throw "value"
  else pure st

/-- one line of the `trk` scanner of `__readFromGpx`: the lines from `<extensions>` to `</extensions>` (both included) are
skipped; the others go through the tag tests -/
def gpxLine (rf : List Tok) (geo : Bool) (st0 : GState) (line : Str) : Except String GState := do
  let st := if isInfix "<extensions>".toList line then { st0 with inExt := true } else st0
  if st.inExt then
    return (if isInfix "</extensions>".toList line then { st with inExt := false } else st)
  let st1 := if isInfix "<trk>".toList line then
      { st with inTrk := true, inPt := false, tracks := st.tracks ++ [[]] } else st
  let st2 := if isInfix "</trk>".toList line then { st1 with inTrk := false } else st1
  if st2.inTrk then do
    let st3 ← gpxPt st2 line
    let st4 ← gpxEndPt st3 line
    if st4.inPt then do
      let st5 ← gpxEle geo st4 line
      gpxTime rf st5 line
    else pure st4
  else pure st2

/-- `TrackReader.readFromGpx(path, srid, type="trk")` on the lines of a file -/
def readGpx (rf : List Tok) (geo : Bool) (text : Str) : Except String (List (List RRow)) := do
  let st ← (fileLines text).foldlM (gpxLine rf geo) {}
  return st.tracks

end TV.TextIO
