import TracklibVerif.Model.Seq
/-! Model of the sequence operations of `tracklib/core/track.py` (property C04), part 2:
reading a feature by name through the table, the creation / removal of a feature (they decide the
column layout), the remaining entry points of the statement (`addObs`, `insertObs(obs, i)`, `removeObs`,
`removeFirstObs`, `removeLastObs`, `popObs`, `track[i]`, `track[a:b:c]`, `track[name, i]`,
`extractSpanTime(track)`, `sortRadix`) and a small interpreter that applies operators in sequence to a
pool of tracks (the result of one operator is an operand of the next). Core Lean only. -/
namespace TV.Seq

/-! ### reading a feature by name -/

/-- `self.__analyticalFeaturesDico[name]` (`none` = the name is not a key). Keys of a dict are unique:
the first pair with that name is the only one. -/
def colOf (tb : Table) (nm : String) : Option Nat := (tb.find? (fun p => p.1 == nm)).map (·.2)

/-- outcome of a read by name -/
inductive Rd where
  | val (v : Int)
  | noFeature      -- `AnalyticalFeatureError` (the name is not in the table)
  | indexErr       -- `IndexError` (no such observation, or its `features` list has no such column)
deriving DecidableEq, Repr

/-- what an observation reads under `nm` THROUGH a given table: `obs.features[table[nm]]` -/
def Obs.read (o : Obs) (tb : Table) (nm : String) : Rd :=
  match colOf tb nm with
  | none => .noFeature
  | some c =>
    match o.feats[c]? with
    | none => .indexErr
    | some v => .val v

/-- `getObsAnalyticalFeature(nm, i)` = `track[nm, i]` = `track[i, nm]` for a name that is not one of
the reserved `x y z t timestamp idx`: the dict test first, then `self.__POINTS[i].features[index]`. -/
def readAF (tr : Track) (nm : String) (i : Int) : Rd :=
  match colOf tr.table nm with
  | none => .noFeature
  | some _ =>
    match pyGet tr.pts i with
    | none => .indexErr
    | some o => o.read tr.table nm

/-- the six names `__controlName` refuses -/
def reserved : List String := ["x", "y", "z", "t", "timestamp", "idx"]

/-- `createAnalyticalFeature(nm, val_init)` with a list of initial values (`none` = an
`AnalyticalFeatureError`: reserved name or empty track; the harness never gives a list shorter than the
track). An existing name is left alone. The new column index is the current number of names. -/
def createAF (tr : Track) (nm : String) (vals : List Int) : Option Track :=
  if reserved.contains nm then none
  else if tr.pts.isEmpty then none
  else if (colOf tr.table nm).isSome then some tr
  else if vals.length < tr.pts.length then none
  else some ⟨(tr.pts.zip vals).map (fun p => { p.1 with feats := p.1.feats ++ [p.2] }),
             tr.table ++ [(nm, tr.table.length)]⟩

/-- `removeAnalyticalFeature(nm)`: the column is deleted from every observation, the key from the dict, the
larger column indices are decremented (`none` = `AnalyticalFeatureError`). A reserved name passes
`hasAnalyticalFeature` and then fails on the dict (`KeyError`): also `none`. -/
def removeAF (tr : Track) (nm : String) : Option Track :=
  match colOf tr.table nm with
  | none => none
  | some c =>
    some ⟨tr.pts.map (fun o => { o with feats := o.feats.eraseIdx c }),
          (tr.table.filter (fun p => !(p.1 == nm))).map (fun p => if p.2 > c then (p.1, p.2 - 1) else p)⟩

/-! ### Python slices, `track[n]` -/

/-- CPython `PySlice_AdjustIndices` for a list of length `len` (`step ≠ 0`): the first index and the bound. -/
def sliceBounds (len : Nat) (start stop : Option Int) (step : Int) : Int × Int :=
  let n : Int := len
  let lower : Int := if step < 0 then -1 else 0
  let upper : Int := if step < 0 then n - 1 else n
  let adj (v : Int) : Int :=
    if v < 0 then (if v + n < lower then lower else v + n) else (if v > upper then upper else v)
  let s := match start with
    | none => if step < 0 then upper else lower
    | some v => adj v
  let e := match stop with
    | none => if step < 0 then lower else upper
    | some v => adj v
  (s, e)

/-- CPython's slice length -/
def sliceLen (s e step : Int) : Nat :=
  if step > 0 then (if s < e then ((e - s - 1) / step + 1).toNat else 0)
  else (if e < s then ((s - e - 1) / (-step) + 1).toNat else 0)

/-- `L[start:stop:step]` (`none` = `ValueError: slice step cannot be zero`); an absent step is 1. -/
def pySlice {α : Type} (l : List α) (start stop step : Option Int) : Option (List α) :=
  let st := step.getD 1
  if st = 0 then none
  else
    let (s, e) := sliceBounds l.length start stop st
    some ((List.range (sliceLen s e st)).filterMap (fun (k : Nat) => l[(s + (k : Int) * st).toNat]?))

/-- `track[a:b:c]`: `Track(self.__POINTS[n])` + `__transmitAF` -/
def getitemSlice (tr : Track) (start stop step : Option Int) : Option Track :=
  (pySlice tr.pts start stop step).map (fun p => transmitAF p tr)

/-- `track[i]` with an integer: the observation (`none` = `IndexError`) -/
def getitemInt (tr : Track) (i : Int) : Option Obs := pyGet tr.pts i

/-- `getAnalyticalFeature(nm)` = `track[nm]` for a non-reserved plain name: the whole column
(`none` inside = `IndexError` on that observation; outer error = unknown name) -/
def getAF (tr : Track) (nm : String) : Option (List Rd) :=
  match colOf tr.table nm with
  | none => none
  | some _ => some (tr.pts.map (fun o => o.read tr.table nm))

/-! ### the other in-place entry points -/

/-- `addObs(obs)` -/
def addObs (tr : Track) (o : Obs) : Track := ⟨tr.pts ++ [o], tr.table⟩

/-- `insertObs(obs, i)` with an index: `list.insert` (everything clamped, negative from the end) -/
def insertAt (tr : Track) (o : Obs) (i : Int) : Track := ⟨pyInsert tr.pts i o, tr.table⟩

/-- `removeObs(i)` = `removeObsList([i])` -/
def removeObs {α : Type} (l : List α) (i : Int) : List α × Option Nat := removeByIdx l [i]

/-- `removeFirstObs()` = `removeObs(0)` -/
def removeFirst {α : Type} (l : List α) : List α × Option Nat := removeObs l 0

/-- `removeLastObs()` = `removeObs(len(self) - 1)` (on the empty track: `del L[-1]`, an `IndexError`) -/
def removeLast {α : Type} (l : List α) : List α × Option Nat := removeObs l ((l.length : Int) - 1)

/-- `popObs(idx)`: `obs = self.getObs(idx); self.removeObs(idx); return obs` (`none` = `IndexError`
at the read, nothing removed) -/
def popObs {α : Type} (l : List α) (i : Int) : List α × Option α :=
  match pyGet l i with
  | none => (l, none)
  | some o => ((removeObs l i).1, some o)

/-- `extractSpanTime(track)`: the span of the first and last observation of the other track
(`none` = `IndexError`: the other track is empty) -/
def extractSpanTrack (tr other : Track) : Option Track :=
  match pyGet other.pts 0, pyGet other.pts (-1) with
  | some a, some b => some (extractSpanTime tr a.time b.time)
  | _, _ => none

/-! ### `sortRadix` -/

/-- Python `L[k]` on a list of `nb` buckets: the bucket number, `none` = `IndexError` -/
def bucketOf (nb : Nat) (k : Int) : Option Nat :=
  if 0 ≤ k then (if k.toNat < nb then some k.toNat else none)
  else if 0 ≤ (nb : Int) + k then some ((nb : Int) + k).toNat
  else none

/-- one pass of `sortRadix`: `B = [[] for _ in range(nb)]`, then `B[key(id)].append(id)` for the ids in
their current order, then the buckets are read out in order. `none` = `IndexError` (a key outside the
buckets; nothing has been assigned to `__POINTS` yet, the track is unchanged). -/
def bucketPass (nb : Nat) (key : Nat → Int) (ids : List Nat) : Option (List Nat) :=
  if ids.all (fun i => (bucketOf nb (key i)).isSome) then
    some ((List.range nb).flatMap (fun b => ids.filter (fun i => bucketOf nb (key i) == some b)))
  else none

/-- the passes in the order of the code (least significant first): bucket count and key of position `id`. -/
def runPasses : List (Nat × (Nat → Int)) → List Nat → Option (List Nat)
  | [], ids => some ids
  | (nb, key) :: rest, ids =>
    match bucketPass nb key ids with
    | none => none
    | some ids' => runPasses rest ids'

/-- the bucket counts of the five fixed passes, least significant first: `sec*1000+ms` (60000 buckets),
`min` (60), `hour` (24), `day-1` (31), `month-1` (12). The sixth digit of a timestamp is its `year`. -/
def radixBuckets : List Nat := [60000, 60, 24, 31, 12]

/-- Python `min(iterable, default=d)` -/
def minD : List Int → Int → Int
  | [], d => d
  | x :: xs, _ => xs.foldl min x

/-- Python `max(iterable, default=d)` -/
def maxD : List Int → Int → Int
  | [], d => d
  | x :: xs, _ => xs.foldl max x

/-- `self.getObs(id).timestamp.year` -/
def yearDigit (digits : Nat → List Int) (id : Nat) : Int := (digits id).getD 5 0

/-- the last pass (after fix b323645): `ymin = min(years, default=0)`, `ymax = max(years, default=-1)`,
`ymax - ymin + 1` buckets (none for the empty track), key `year - ymin`. -/
def yearPass (digits : Nat → List Int) (n : Nat) : Nat × (Nat → Int) :=
  let years := (List.range n).map (yearDigit digits)
  let ymin := minD years 0
  let ymax := maxD years (-1)
  ((ymax - ymin + 1).toNat, fun id => yearDigit digits id - ymin)

/-- `sortRadix()` on a list whose element at position `id` has the digits `digits id` (least
significant first: one per entry of `radixBuckets`, then the year; the driver checks that there are six).
`none` = `IndexError`. -/
def sortRadixIds (digits : Nat → List Int) (n : Nat) : Option (List Nat) :=
  runPasses (radixBuckets.zipIdx.map (fun p => (p.1, fun id => (digits id).getD p.2 0)) ++ [yearPass digits n])
    (List.range n)

def sortRadix {α : Type} (l : List α) (digits : Nat → List Int) : Option (List α) :=
  match sortRadixIds digits l.length with
  | none => none
  | some ids => gather l ids

/-! ### operators applied in sequence -/

/-- one operation on a pool of tracks; a track is designated by its position in the pool, a new
track is appended to the pool, an in-place operation replaces its operand. -/
inductive Op where
  -- operators returning a new track
  | extract (k : Nat) (a b : Int)
  | span (k : Nat) (t1 t2 : Int)
  | spanTrack (k m : Nat)
  | add (k m : Nat)
  | step (k : Nat) (n : Int)
  | pattern (k : Nat) (pat : List Bool)
  | gt (k : Nat) (n : Int)
  | lt (k : Nat) (n : Int)
  | slice (k : Nat) (start stop step : Option Int)
  -- in-place operations
  | sort (k : Nat)
  | insert (k : Nat) (tag : Nat) (time : Int) (vals : List (String × Int))
  | insertAt (k : Nat) (i : Int) (tag : Nat) (time : Int) (vals : List (String × Int))
  | addObs (k : Nat) (tag : Nat) (time : Int) (vals : List (String × Int))
  | remove (k : Nat) (idx : List Int)
  | removeObs (k : Nat) (i : Int)
  | removeFirst (k : Nat)
  | removeLast (k : Nat)
  | pop (k : Nat) (i : Int)
  -- reads
  | get (k : Nat) (i : Int)
  | read (k : Nat) (nm : String) (i : Int)
  | column (k : Nat) (nm : String)
  -- feature layout (build phase of a session)
  | create (k : Nat) (nm : String) (vals : List Int)
  | delete (k : Nat) (nm : String)
deriving Repr

/-- what an operation reports besides the pool -/
inductive Out where
  | done                       -- nothing returned (or a track, which is the pool's last element)
  | count (n : Nat)            -- `removeObsList` & co: number removed
  | obs (tag : Nat)            -- `track[i]`, `popObs`
  | value (r : Rd)             -- `track[nm, i]`
  | values (rs : List Rd)      -- `track[nm]`
  | error (kind : String)      -- the exception class, as the harness names it
  | noTrack                    -- the request designates a track that is not in the pool (malformed)
deriving DecidableEq, Repr

/-- the value given for a name in a list of (name, value) pairs -/
def lookVal (vals : List (String × Int)) (nm : String) : Option Int := (vals.find? (fun p => p.1 == nm)).map (·.2)

/-- a new observation for a given track: its feature list follows the track's names (the harness builds
the real `Obs.features` the same way, from `getListAnalyticalFeatures()`); `none` = a name has no value. -/
def mkObs (tr : Track) (tag : Nat) (time : Int) (vals : List (String × Int)) : Option Obs :=
  if tr.names.all (fun nm => (lookVal vals nm).isSome) then
    some ⟨tag, time, tr.names.map (fun nm => (lookVal vals nm).getD 0)⟩
  else none

def setAt {α : Type} (l : List α) (k : Nat) (x : α) : List α := l.set k x

/-- an operator returning a new track: it is appended to the pool (`none` = the exception `err`) -/
def newTrack (pool : List Track) (r : Option Track) (err : String) : List Track × Out :=
  match r with
  | some r => (pool ++ [r], .done)
  | none => (pool, .error err)

/-- an in-place operation on the track at position `k`: the track afterwards (also when the operation raised
half-way), what it returned -/
def inPlace (pool : List Track) (k : Nat) (r : Track) (out : Out) : List Track × Out := (setAt pool k r, out)

def countOut : Option Nat → Out
  | some c => .count c
  | none => .error "index"

/-- the pool after the operation, and what the operation returned -/
def applyOp (pool : List Track) (op : Op) : List Track × Out :=
  match op with
  | .extract k a b =>
    match pool[k]? with
    | none => (pool, .noTrack)
    | some tr => newTrack pool (extract tr a b) "index"
  | .span k t1 t2 =>
    match pool[k]? with
    | none => (pool, .noTrack)
    | some tr => newTrack pool (some (extractSpanTime tr t1 t2)) "index"
  | .spanTrack k m =>
    match pool[k]?, pool[m]? with
    | some tr, some other => newTrack pool (extractSpanTrack tr other) "index"
    | _, _ => (pool, .noTrack)
  | .add k m =>
    match pool[k]?, pool[m]? with
    | some t1, some t2 => newTrack pool (some (concat t1 t2)) "index"
    | _, _ => (pool, .noTrack)
  | .step k n =>
    match pool[k]? with
    | none => (pool, .noTrack)
    | some tr => newTrack pool (decimateStep tr n) "value"
  | .pattern k pat =>
    match pool[k]? with
    | none => (pool, .noTrack)
    | some tr => newTrack pool (decimatePattern tr pat) "zerodiv"
  | .gt k n =>
    match pool[k]? with
    | none => (pool, .noTrack)
    | some tr => newTrack pool (some (dropFirst tr n)) "index"
  | .lt k n =>
    match pool[k]? with
    | none => (pool, .noTrack)
    | some tr => newTrack pool (some (dropLast tr n)) "index"
  | .slice k a b c =>
    match pool[k]? with
    | none => (pool, .noTrack)
    | some tr => newTrack pool (getitemSlice tr a b c) "value"
  | .sort k =>
    match pool[k]? with
    | none => (pool, .noTrack)
    | some tr =>
      match sortByTime tr with
      | some r => inPlace pool k r .done
      | none => (pool, .error "index")
  | .insert k tag time vals =>
    match pool[k]? with
    | none => (pool, .noTrack)
    | some tr =>
      match mkObs tr tag time vals with
      | none => (pool, .noTrack)
      | some o =>
        match insertChrono tr o with
        | some r => inPlace pool k r .done
        | none => (pool, .error "index")
  | .insertAt k i tag time vals =>
    match pool[k]? with
    | none => (pool, .noTrack)
    | some tr =>
      match mkObs tr tag time vals with
      | none => (pool, .noTrack)
      | some o => inPlace pool k (insertAt tr o i) .done
  | .addObs k tag time vals =>
    match pool[k]? with
    | none => (pool, .noTrack)
    | some tr =>
      match mkObs tr tag time vals with
      | none => (pool, .noTrack)
      | some o => inPlace pool k (addObs tr o) .done
  | .remove k idx =>
    match pool[k]? with
    | none => (pool, .noTrack)
    | some tr => inPlace pool k ⟨(removeByIdx tr.pts idx).1, tr.table⟩ (countOut (removeByIdx tr.pts idx).2)
  | .removeObs k i =>
    match pool[k]? with
    | none => (pool, .noTrack)
    | some tr => inPlace pool k ⟨(removeObs tr.pts i).1, tr.table⟩ (countOut (removeObs tr.pts i).2)
  | .removeFirst k =>
    match pool[k]? with
    | none => (pool, .noTrack)
    | some tr => inPlace pool k ⟨(removeFirst tr.pts).1, tr.table⟩ (countOut (removeFirst tr.pts).2)
  | .removeLast k =>
    match pool[k]? with
    | none => (pool, .noTrack)
    | some tr => inPlace pool k ⟨(removeLast tr.pts).1, tr.table⟩ (countOut (removeLast tr.pts).2)
  | .pop k i =>
    match pool[k]? with
    | none => (pool, .noTrack)
    | some tr =>
      inPlace pool k ⟨(popObs tr.pts i).1, tr.table⟩
        (match (popObs tr.pts i).2 with | some o => .obs o.tag | none => .error "index")
  | .get k i =>
    match pool[k]? with
    | none => (pool, .noTrack)
    | some tr => (pool, match getitemInt tr i with | some o => .obs o.tag | none => .error "index")
  | .read k nm i =>
    match pool[k]? with
    | none => (pool, .noTrack)
    | some tr => (pool, .value (readAF tr nm i))
  | .column k nm =>
    match pool[k]? with
    | none => (pool, .noTrack)
    | some tr => (pool, match getAF tr nm with | some rs => .values rs | none => .error "AnalyticalFeatureError")
  | .create k nm vals =>
    match pool[k]? with
    | none => (pool, .noTrack)
    | some tr =>
      match createAF tr nm vals with
      | some r => inPlace pool k r .done
      | none => (pool, .error "AnalyticalFeatureError")
  | .delete k nm =>
    match pool[k]? with
    | none => (pool, .noTrack)
    | some tr =>
      match removeAF tr nm with
      | some r => inPlace pool k r .done
      | none => (pool, .error "AnalyticalFeatureError")

/-- the operations in sequence: the pool after each of them and what each returned -/
def runOps : List Track → List Op → List (List Track × Out)
  | _, [] => []
  | pool, op :: rest =>
    let r := applyOp pool op
    r :: runOps r.1 rest

/-- the pool at the end -/
def finalPool (pool : List Track) (ops : List Op) : List Track :=
  ops.foldl (fun p op => (applyOp p op).1) pool

end TV.Seq
