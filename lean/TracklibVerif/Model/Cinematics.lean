/-! Model of the curvilinear-abscissa and speed features (C17).

Mirrors, as the code is now:
* `algo/analytics.py` `ds(track, i)`      : `0` at index 0, else `obs[i].distance2DTo(obs[i-1])`
* `core/obs_coords.py` `ENUCoords.distance2DTo` / `__sub__` / `norm2D` : `sqrt(dE*dE + dN*dN)` (U is not read)
* `core/operators.py` `Integrator.execute`: `temp = [0]*n; for i in 1..n-1: temp[i] = temp[i-1] + in[i]`
* `algo/cinematics.py` `computeAbsCurv`    : create `ds` unless present, integrate into `abs_curv` unless present,
                                             remove `ds`, return the `abs_curv` column
* `algo/analytics.py` `speed(track, i)`    : `i == 0` → fixes (1,0); `i == N-1` → fixes (N-1,N-2); else fixes (i+1,i-1);
                                             `NAN` when the time difference `== 0`, else distance / time difference
* `core/track.py` `addAnalyticalFeature`   : loop over all indices, an `IndexError` of the algorithm gives `NAN`
* `algo/cinematics.py` `estimate_speed`    : returns the existing `speed` column if there is one

Scalars: `α` is any type with the arithmetic used (`Float` and `Rat` in the driver, an ordered field in the
theorems); `sqrt` is a parameter. A feature value is an `Option α`, `none` standing for NaN. Timestamps are
the `toAbsTime()` values (seconds), `ObsTime.__sub__` being the difference of those.
The analytical-feature table is abstracted to an insertion-ordered association list name ↦ column (its
alignment under create/remove is property C01's subject).
Tracks whose positions are `GeoCoords` / `ECEFCoords` (other `distance2DTo`, exceptions): `Model/CinematicsCoords.lean`,
which reuses the definitions below and coincides with them on `ENUCoords` (`TV.C17.enu_class_is_cinematics`). -/
namespace TV.Cinematics
variable {α : Type}

/-- a feature column; `none` = NaN -/
abbrev Col (α : Type) := List (Option α)

structure Track (α : Type) where
  xy : List (α × α)
  ts : List α
  feats : List (String × Col α)

/-- `hasAnalyticalFeature` (the virtual names x,y,z,t,timestamp,idx are never used here) -/
def Track.has (t : Track α) (name : String) : Bool := t.feats.any (fun p => p.1 == name)

/-- `getAnalyticalFeature` -/
def Track.get (t : Track α) (name : String) : Option (Col α) := (t.feats.find? (fun p => p.1 == name)).map Prod.snd

/-- create-if-absent, then overwrite the column (what `addAnalyticalFeature` / `createAnalyticalFeature` +
    `addListToAF` do): a new name is appended, an existing one keeps its place -/
def Track.set (t : Track α) (name : String) (col : Col α) : Track α :=
  if t.has name then { t with feats := t.feats.map (fun p => if p.1 == name then (p.1, col) else p) }
  else { t with feats := t.feats ++ [(name, col)] }

/-- `removeAnalyticalFeature` -/
def Track.remove (t : Track α) (name : String) : Track α :=
  { t with feats := t.feats.filter (fun p => !(p.1 == name)) }

section arith
variable [Add α] [Sub α] [Mul α] [Div α] [OfNat α 0] [BEq α]

/-- `self.distance2DTo(point)` = `(point - self).norm2D()` -/
def dist2D (sqrt : α → α) (self point : α × α) : α :=
  let dE := point.1 - self.1
  let dN := point.2 - self.2
  sqrt (dE * dE + dN * dN)

/-- NaN-propagating `+` on feature values -/
def oadd : Option α → Option α → Option α
  | some a, some b => some (a + b)
  | _, _ => none

/-- `ds(track, i)` -/
def dsAt (sqrt : α → α) (xy : List (α × α)) (i : Nat) : Option α :=
  if i = 0 then some 0
  else match xy[i]?, xy[i - 1]? with
    | some p, some q => some (dist2D sqrt p q)
    | _, _ => none

/-- the column computed by `track.addAnalyticalFeature(ds, "ds")` -/
def dsCol (sqrt : α → α) (xy : List (α × α)) : Col α := (List.range xy.length).map (dsAt sqrt xy)

/-- the loop of `Integrator.execute` from index 1 on: running value `acc` = `temp[i-1]` -/
def integLoop : Option α → Col α → Col α
  | _, [] => []
  | acc, d :: rest => let a := oadd acc d; a :: integLoop a rest

/-- `Integrator.execute`: first value 0, the input at index 0 is never read -/
def integrator : Col α → Col α
  | [] => []
  | _ :: rest => some 0 :: integLoop (some 0) rest

/-- `computeAbsCurv(track)`: the track afterwards and the returned column -/
def computeAbsCurv (sqrt : α → α) (t : Track α) : Track α × Option (Col α) :=
  let t1 := if t.has "ds" then t else t.set "ds" (dsCol sqrt t.xy)
  let t2 := if t1.has "abs_curv" then t1
            else t1.set "abs_curv" (integrator ((t1.get "ds").getD []))
  let t3 := t2.remove "ds"
  (t3, t3.get "abs_curv")

/-- `NAN` when the elapsed time is zero, else the quotient -/
def quot (d dt : α) : Option α := if dt == 0 then none else some (d / dt)

/-- speed from the fixes `a` (later) and `b` (earlier); a missing fix is Python's `IndexError`, turned into
    `NAN` by `addAnalyticalFeature` -/
def speedBetween (sqrt : α → α) (xy : List (α × α)) (ts : List α) (a b : Nat) : Option α :=
  match xy[a]?, xy[b]?, ts[a]?, ts[b]? with
  | some pa, some pb, some ta, some tb => quot (dist2D sqrt pa pb) (ta - tb)
  | _, _, _, _ => none

/-- `speed(track, i)` -/
def speedAt (sqrt : α → α) (xy : List (α × α)) (ts : List α) (i : Nat) : Option α :=
  let n := xy.length
  if i = 0 then speedBetween sqrt xy ts 1 0
  else if i = n - 1 then speedBetween sqrt xy ts (n - 1) (n - 2)
  else speedBetween sqrt xy ts (i + 1) (i - 1)

def speedCol (sqrt : α → α) (xy : List (α × α)) (ts : List α) : Col α :=
  (List.range xy.length).map (speedAt sqrt xy ts)

/-- `estimate_speed(track)`: the track afterwards and the returned column -/
def estimateSpeed (sqrt : α → α) (t : Track α) : Track α × Option (Col α) :=
  if t.has "speed" then (t, t.get "speed")
  else
    let t1 := t.set "speed" (speedCol sqrt t.xy t.ts)
    (t1, t1.get "speed")

/-! ### specification-side definitions (used by the theorems, not by the driver) -/

/-- planimetric length of the first `i` legs -/
def absc (sqrt : α → α) (xy : List (α × α)) : Nat → α
  | 0 => 0
  | i + 1 => absc sqrt xy i + (match xy[i + 1]?, xy[i]? with
      | some p, some q => dist2D sqrt p q
      | _, _ => 0)

end arith
end TV.Cinematics
