import TracklibVerif.Model.MapMatch
import TracklibVerif.Model.Grid
/-! Model of the CONSTRUCTION PATH and of the FRONT END of map-matching (C10), on top of `Model/MapMatch` (candidate
loop, flag state, inference column) and `Model/Grid` (the spatial index of C08).

* `tracklib/core/network.py` `Network.addNode` / `Network.addEdge` (what they do to the node table, to `EDGES`, to
  `__idx_edges`, to the geometry of the edge — nothing —, and to an attached spatial index: `addFeature(edge.geom,
  getNumberOfEdges() - 1)`), `getEdgeId`, `getNumberOfEdges`, `Network.__getitem__`, `bbox`; the adjacency lists
  (`NEXT_EDGES` …) are only read by the routing (C06/C07) and are left out.
* `tracklib/algo/cinematics.py` `computeAbsCurv` on an edge geometry, as the builders call it BEFORE `addEdge`
  (`io/network_reader.py` `readLineAndAddToNetwork`, the hand-written builders of the test-suite): the `abs_curv` column is
  computed once and never recomputed (`if not track.hasAnalyticalFeature(BIAF_ABS_CURV)`).
* `SpatialIndex(network, resolution, margin)` = `Grid.build` on the geometries by edge number.
* `tracklib/algo/mapping.py` `__mapOnNetwork`: `createAnalyticalFeature("obs_noise", obs_noise)` (an `AnalyticalFeatureError`
  on a track without observation; nothing when the column exists — it then KEEPS its old content), the search unit
  `math.ceil(search_radius / min(spatial_index.csize, spatial_index.lsize))` (the numbers of cells, as coded),
  `spatial_index.neighborhood(p, unit=newunit)`, the candidate loop on `EDGES[getEdgeId(elem)].geom`, the flag state,
  `HMM.estimate(track, obs=["x","y"], mode=MODE_OBS_AS_2D_POSITIONS)` as a decoder that may read the network, the track
  (positions, `obs_noise`) and `STATES`, the created columns.
* `mapOnNetwork(tracks, network, gps_noise, transition_cost, search_radius, debug, report, verbose)`: a bare `Track` is wrapped
  in a collection of one; the tracks are processed in order, `STATES` being rebuilt from scratch for each; `transition_cost`
  and `report` are never read, `debug` / `verbose` only write to a file / to the terminal; the first exception aborts the
  call, the tracks processed before it keep their results.

Order of candidates: `neighborhood` returns `list(set)`; the model's list is duplicate-free in first-insertion order, Python's
order is that of its hash table. `STATES[i]` of the model is therefore a PERMUTATION of the real list (the harness compares
them as sets keyed by the edge number, and compares the exact lists through `MapMatch.obsStates` fed with the real candidate
order). Scalar-polymorphic, core Lean only. -/
namespace TV.MapMatch
open TV.Proj

/-- a `Node(id, coord)` -/
structure Node (α : Type) where
  id : Nat
  coord : α × α

/-- an `Edge` as handed to `Network.addEdge`: id, geometry (a `Track`) with its `abs_curv` column, orientation, weight -/
structure EdgeIn (α : Type) where
  id : Nat
  geom : List (α × α)
  curv : List α
  orientation : Int
  weight : α

/-- an edge as stored in `EDGES`: `edge.source = NODES[source.id]`, `edge.target = NODES[target.id]` (the REGISTERED nodes,
given by their ids) -/
structure NEdge (α : Type) where
  e : EdgeIn α
  source : Nat
  target : Nat

/-- a `Network`: `NODES` in registration order (`__idx_nodes`), `EDGES` (a dict: one entry per id), `__idx_edges`,
`spatial_index` -/
structure Net (α : Type) where
  nodes : List (Node α)
  edges : List (NEdge α)
  idx : List Nat
  index : Option (Grid.Index α)

def Net.empty {α : Type} : Net α := ⟨[], [], [], none⟩

/-- `EDGES[id]` -/
def lookupEdge {α : Type} (l : List (NEdge α)) (i : Nat) : Option (NEdge α) := l.find? (fun x => x.e.id == i)

/-- `EDGES[edge.id] = edge` (dict assignment: an existing key keeps its place) -/
def setEdge {α : Type} (l : List (NEdge α)) (ne : NEdge α) : List (NEdge α) :=
  if l.any (fun x => x.e.id == ne.e.id) then l.map (fun x => if x.e.id == ne.e.id then ne else x) else l ++ [ne]

/-- `Network.addNode`: the first node registered under an id stays (a later `Node` with the same id is ignored, whatever
its coordinates) -/
def addNode {α : Type} (net : Net α) (n : Node α) : Net α :=
  if net.nodes.any (fun x => x.id == n.id) then net else { net with nodes := net.nodes ++ [n] }

/-- `NODES[id]` -/
def lookupNode {α : Type} (net : Net α) (i : Nat) : Option (Node α) := net.nodes.find? (fun x => x.id == i)

/-- `network.EDGES[network.getEdgeId(n)]` (`KeyError` / `IndexError` = `none`) -/
def edgeNo {α : Type} (net : Net α) (n : Nat) : Option (NEdge α) :=
  match net.idx[n]? with
  | none => none
  | some i => lookupEdge net.edges i

/-- the edge geometries with their `abs_curv` columns by edge NUMBER, as `__mapOnNetwork` reads them
(`EDGES[getEdgeId(elem)].geom`) -/
def netEdges {α : Type} (net : Net α) : List (Edge α) :=
  net.idx.filterMap (fun i => (lookupEdge net.edges i).map (fun ne => (⟨ne.e.geom, ne.e.curv⟩ : Edge α)))

/-- the features the spatial index registers: `collection[num]` for `num in range(collection.size())`,
`size() = len(EDGES)` -/
def netFeatures {α : Type} (net : Net α) : List (List (α × α)) :=
  (List.range net.edges.length).filterMap (fun n => (edgeNo net n).map (fun ne => ne.e.geom))

section
variable {α : Type} [Add α] [Sub α] [Mul α] [Div α] [Neg α] [LT α] [LE α]
  [DecidableLT α] [DecidableLE α] [OfNat α 0] [OfNat α 1] [IntCast α]

/-- total length of a polyline: Σ `distance2DTo` of consecutive vertices, accumulated from the left like the integrator -/
def polyLengthFrom (sqrt : α → α) (acc : α) (prev : α × α) : List (α × α) → α
  | [] => acc
  | q :: rest => polyLengthFrom sqrt (acc + dist2D sqrt q prev) q rest

def polyLength (sqrt : α → α) : List (α × α) → α
  | [] => 0
  | p :: rest => polyLengthFrom sqrt 0 p rest

/-- an `Edge` as `NetworkReader` / the hand-written builders make it: `computeAbsCurv(track)` then `Edge(id, track)` -/
def readerEdge (sqrt : α → α) (id : Nat) (geom : List (α × α)) (orientation : Int) (weight : α) : EdgeIn α :=
  ⟨id, geom, absCurv sqrt geom, orientation, weight⟩

/-- `Network.addEdge(edge, source, target)`: registers the two nodes (first registration wins), stores the edge under its id
with the registered nodes as ends, appends the id to `__idx_edges`; the geometry and its `abs_curv` column are stored AS
GIVEN. When a spatial index is attached the geometry is registered under the number `getNumberOfEdges() - 1`. -/
def addEdge (fl : α → Int) (net : Net α) (e : EdgeIn α) (source target : Node α) : Grid.Res (Net α) :=
  let net1 := addNode (addNode net source) target
  let net2 : Net α := { net1 with edges := setEdge net1.edges ⟨e, source.id, target.id⟩, idx := net1.idx ++ [e.id] }
  match net2.index with
  | none => .ok net2
  | some ix =>
    match Grid.addFeature fl ix e.geom (net2.edges.length - 1) with
    | .error er => .error er
    | .ok ix' => .ok { net2 with index := some ix' }

/-- a sequence of `addEdge` calls -/
def addEdges (fl : α → Int) : Net α → List (EdgeIn α × Node α × Node α) → Grid.Res (Net α)
  | net, [] => .ok net
  | net, (e, s, t) :: rest =>
    match addEdge fl net e s t with
    | .error er => .error er
    | .ok net' => addEdges fl net' rest

/-- `network.spatial_index = SpatialIndex(network, resolution, margin)` -/
def attachIndex (fl : α → Int) (net : Net α) (res : Option (α × α)) (margin : α) : Grid.Res (Net α) :=
  match Grid.build fl (netFeatures net) res margin with
  | .error er => .error er
  | .ok ix => .ok { net with index := some ix }

/-- the construction paths exercised by the harness: `late = 0` — every edge, then the index; `late = k` — the index is
built when the last `k` edges are still to come, they are registered by `addEdge` itself -/
def buildNet (fl : α → Int) (es : List (EdgeIn α × Node α × Node α)) (late : Nat) (res : Option (α × α)) (margin : α) :
    Grid.Res (Net α) :=
  let m := es.length - late
  match addEdges fl Net.empty (es.take m) with
  | .error er => .error er
  | .ok net =>
    match attachIndex fl net res margin with
    | .error er => .error er
    | .ok net' => addEdges fl net' (es.drop m)

inductive ErrN where
  | mm (e : MapMatch.Err)        -- exceptions of the candidate loop / of the backward step
  | grid (e : Grid.Err)          -- exceptions of `spatial_index.neighborhood`
  | zerodiv                      -- `search_radius / cellsize` with no cell
  | noIndex                      -- `network.spatial_index` is `None` (`AttributeError`)
  | emptyTrack                   -- `createAnalyticalFeature` on a track without observation (`AnalyticalFeatureError`)
  deriving DecidableEq, Repr

/-- `newunit = math.ceil(search_radius / min(csize, lsize))` — `csize`, `lsize` are the NUMBERS of cells per axis (as coded);
`math.ceil x = -floor(-x)` -/
def searchUnit (fl : α → Int) (radius : α) (ix : Grid.Index α) : Except ErrN Int :=
  let cellsize := if ix.lsize < ix.csize then ix.lsize else ix.csize
  if cellsize == 0 then .error .zerodiv else .ok (-(fl (-(radius / ((cellsize : Int) : α)))))

/-- the candidate edge numbers of one observation: `network.spatial_index.neighborhood(p, unit=newunit)` -/
def candidatesOf (fl : α → Int) (radius : α) (net : Net α) (pos : α × α) : Except ErrN (Option (List Nat)) :=
  match net.index with
  | none => .error .noIndex
  | some ix =>
    match searchUnit fl radius ix with
    | .error e => .error e
    | .ok u =>
      match Grid.neighborhoodPoint fl ix pos u with
      | .error e => .error (.grid e)
      | .ok c => .ok c

/-- `STATES[i]` for one observation, candidates from the network's own index -/
def obsStatesNet (sqrt : α → α) (fl : α → Int) (eps radius : α) (net : Net α) (pos : α × α) :
    Except ErrN (List (State α)) :=
  match candidatesOf fl radius net pos with
  | .error e => .error e
  | .ok cand =>
    match obsStates sqrt eps radius (netEdges net) pos cand with
    | .error e => .error (.mm e)
    | .ok l => .ok l

/-- the preparation loop of `__mapOnNetwork`: `STATES`, observation after observation (the first exception aborts) -/
def allStatesNet (sqrt : α → α) (fl : α → Int) (eps radius : α) (net : Net α) :
    List (Obs α) → Except ErrN (List (List (State α)))
  | [] => .ok []
  | o :: os =>
    match obsStatesNet sqrt fl eps radius net o.pos with
    | .error e => .error e
    | .ok s =>
      match allStatesNet sqrt fl eps radius net os with
      | .error e => .error e
      | .ok ss => .ok (s :: ss)

/-- a track as `mapOnNetwork` sees it: observations, feature names, the content of the `obs_noise` column
(meaningful when the name exists) -/
structure TrackS (α : Type) where
  obs : List (Obs α)
  names : List String
  noise : List α

/-- the arguments of the front end after `tracks` and `network` -/
structure Args (α : Type) where
  gpsNoise : α
  transitionCost : α
  searchRadius : α
  debug : Bool
  verbose : Bool

/-- `HMM.estimate` as a parameter: it may read the network (`net.distanceBtwPts`), the track (positions, `obs_noise`) and
`STATES`; it answers one state index per epoch. It is NOT given `transition_cost`, `debug`, `verbose`: the code never passes
them on (`__tst_log` divides by the constant 10). -/
abbrev Decoder (α : Type) := Net α → TrackS α → List (List (State α)) → List Nat

structure ResultN (α : Type) where
  states : List (List (State α))      -- mapping.STATES at the end of the track's turn
  inference : List (State α)          -- the hmm_inference column
  track : TrackS α                    -- the track after the call

/-- `__mapOnNetwork(track, network, obs_noise, transition_cost, search_radius, debug, verbose)` -/
def matchOne (sqrt : α → α) (fl : α → Int) (eps : α) (net : Net α) (dec : Decoder α) (a : Args α) (t : TrackS α) :
    Except ErrN (ResultN α) :=
  if t.obs.isEmpty then .error .emptyTrack else
  let t1 : TrackS α :=
    if t.names.contains "obs_noise" then t
    else { t with names := t.names ++ ["obs_noise"], noise := t.obs.map (fun _ => a.gpsNoise) }
  match allStatesNet sqrt fl eps a.searchRadius net t1.obs with
  | .error e => .error e
  | .ok states =>
    match inferAll states (dec net t1 states) with
    | .error e => .error (.mm e)
    | .ok inf =>
      .ok ⟨states, inf, { t1 with obs := newPositions 1 t1.obs inf,
                                  names := addName (addName t1.names "hmm_inference") "hmm_cost" }⟩

/-- the first argument of `mapOnNetwork`: a `Track`, or a collection / any iterable of tracks -/
inductive TracksArg (α : Type) where
  | one (t : TrackS α)
  | many (ts : List (TrackS α))

def TracksArg.toList {α : Type} : TracksArg α → List (TrackS α)
  | .one t => [t]
  | .many ts => ts

/-- `for track in tracks: __mapOnNetwork(track, …)`: results of the tracks completed, and the exception that stopped the
loop if any -/
def matchLoop (sqrt : α → α) (fl : α → Int) (eps : α) (net : Net α) (dec : Decoder α) (a : Args α) :
    List (TrackS α) → List (ResultN α) × Option ErrN
  | [] => ([], none)
  | t :: ts =>
    match matchOne sqrt fl eps net dec a t with
    | .error e => ([], some e)
    | .ok r =>
      let rest := matchLoop sqrt fl eps net dec a ts
      (r :: rest.1, rest.2)

/-- `mapOnNetwork(tracks, network, gps_noise, transition_cost, search_radius, debug, report, verbose)` -/
def mapOnNetworkFront (sqrt : α → α) (fl : α → Int) (eps : α) (net : Net α) (dec : Decoder α) (a : Args α)
    (tracks : TracksArg α) : List (ResultN α) × Option ErrN :=
  matchLoop sqrt fl eps net dec a tracks.toList

end
end TV.MapMatch
