import TracklibVerif.Model.Filter
/-! Model of `TrackCollection.smooth` (tracklib/core/track_collection.py), the outermost front end of the sequence filter
(property C15):

    def smooth(self, constraint=1e3):
        for track in self:
            track.smooth(constraint)

Every track is smoothed IN PLACE by `Track.smooth` (`filter_seq(self, GaussianKernel(constraint))`, a new kernel object per
track, on which `setFilterBoundary` is never called); the first exception leaves the loop: the tracks before the failing one
stay smoothed, the ones after it are not touched. The default value of `constraint` is `1e3`: a Gaussian window of
`2·3000 + 1` weights whose boundaries are copied, so that a collection whose first track has fewer than 3000 points raises
`IndexError` (theorem `collection_smooth_too_short_fails`).

Not modelled: what the failing track itself looks like after the exception (the scratch feature `temp` may have been created,
`x` may already be smoothed when `y` fails): the model returns it as it was and the harness does not compare it. Core Lean only. -/
namespace TV.Filter

section coll
variable {α : Type} [Add α] [Sub α] [Mul α] [Div α] [Neg α] [LT α] [LE α] [DecidableLT α] [DecidableLE α]
  [OfNat α 0] [OfNat α 1] [NatCast α]

/-- `TrackCollection.smooth(constraint)`; `f`, `support`, `S` describe `GaussianKernel(constraint)`. Returns the tracks after
the call, the position of the track whose `smooth` raised together with the error (if any), and the module-level state;
`none`: the module constant `FILTER_XYZ` is missing (never the case from `Globals.initial`). -/
def collectionSmooth [BEq α] (f : α → α) (support : α) (S : Nat) :
    Globals → List (Sigs α) → Option (List (Sigs α) × Option (Nat × Err) × Globals)
  | g, [] => some ([], none, g)
  | g, t :: ts =>
    match smooth g t f support S with
    | none => none
    | some (.error e, g') => some (t :: ts, some (0, e), g')
    | some (.ok t', g') =>
      match collectionSmooth f support S g' ts with
      | none => none
      | some (ts', err, g'') => some (t' :: ts', err.map (fun p => (p.1 + 1, p.2)), g'')
end coll

end TV.Filter
