namespace TV.Viterbi
variable {α : Type} [LT α] [DecidableLT α]
/-- scan 0..n-1 keeping the first strict minimum, starting from (big, 0) like the Python loop -/
def scanMin (big : α) (f : Nat → α) : Nat → α × Nat
  | 0 => (big, 0)
  | n+1 => let (bv, ba) := scanMin big f n
           if f n < bv then (f n, n) else (bv, ba)
structure Tables (α : Type) where
  n : Nat → Nat
  obs : Nat → Nat → α
  trans : Nat → Nat → Nat → α   -- epoch k, from m (epoch k) to l (epoch k+1)
  add : α → α → α
  big : α
/-- TAB_VAL -/
def val (t : Tables α) : Nat → Nat → α
  | 0, l => t.obs 0 l
  | k+1, l => t.add (scanMin t.big (fun m => t.add (t.trans k m l) (val t k m)) (t.n k)).1 (t.obs (k+1) l)
/-- TAB_MRK -/
def mrk (t : Tables α) (k l : Nat) : Nat :=
  (scanMin t.big (fun m => t.add (t.trans k m l) (val t k m)) (t.n k)).2
/-- cost of a path σ up to epoch k -/
def cost (t : Tables α) (σ : Nat → Nat) : Nat → α
  | 0 => t.obs 0 (σ 0)
  | k+1 => t.add (t.add (t.trans k (σ k) (σ (k+1))) (cost t σ k)) (t.obs (k+1) (σ (k+1)))
/-- back-pointer path ending in state l at epoch k -/
def back (t : Tables α) : Nat → Nat → Nat → Nat     -- k l j ↦ state at epoch j (j ≤ k)
  | 0, l, _ => l
  | k+1, l, j => if j = k+1 then l else back t k (mrk t k l) j
end TV.Viterbi
