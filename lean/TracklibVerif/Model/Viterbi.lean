namespace TV.Viterbi
variable {α : Type} [LT α] [DecidableLT α]
/-- scan 0..n-1 keeping the first strict minimum, starting from (big, 0) like the Python loop -/
def scanMin (big : α) (f : Nat → α) : Nat → α × Nat
  | 0 => (big, 0)
  | n+1 => let (bv, ba) := scanMin big f n
           if f n < bv then (f n, n) else (bv, ba)
structure Tables (α : Type) where
  n : Nat → Nat
  obs : Nat → Nat → α
  trans : Nat → Nat → Nat → α   -- epoch k, from m (epoch k) to l (epoch k+1)
  add : α → α → α
  big : α
/-- TAB_VAL -/
def val (t : Tables α) : Nat → Nat → α
  | 0, l => t.obs 0 l
  | k+1, l => t.add (scanMin t.big (fun m => t.add (t.trans k m l) (val t k m)) (t.n k)).1 (t.obs (k+1) l)
/-- TAB_MRK -/
def mrk (t : Tables α) (k l : Nat) : Nat :=
  (scanMin t.big (fun m => t.add (t.trans k m l) (val t k m)) (t.n k)).2
/-- cost of a path σ up to epoch k -/
def cost (t : Tables α) (σ : Nat → Nat) : Nat → α
  | 0 => t.obs 0 (σ 0)
  | k+1 => t.add (t.add (t.trans k (σ k) (σ (k+1))) (cost t σ k)) (t.obs (k+1) (σ (k+1)))
/-- back-pointer path ending in state l at epoch k -/
def back (t : Tables α) : Nat → Nat → Nat → Nat     -- k l j ↦ state at epoch j (j ≤ k)
  | 0, l, _ => l
  | k+1, l, j => if j = k+1 then l else back t k (mrk t k l) j
end TV.Viterbi

/-! ## Table-building executable form (what the driver runs)

Mirrors `HMM.estimate` of `tracklib/algo/dynamics.py` as it is written: the columns `TAB_VAL[k]` /
`TAB_MRK[k]` are built one epoch after the other from the previous column (no recomputation), the
last column is searched with `numpy.argmin` (first NaN, else first minimum) and the back-pointers are walked from the
last epoch down to epoch 0, recording `(idk, TAB_VAL[k][idk])` (`hmm_inference`, `hmm_cost`).
`Lemmas/Viterbi.lean` proves that this form equals the function-style `val`/`mrk`/`back` above. -/
namespace TV.Viterbi
variable {α : Type} [LT α] [DecidableLT α]

/-- `Qlog`/`Plog` followed by the negation at the call site (`q = -self.Qlog(…)`, `p = -self.Plog(…)`):
`-(math.log(v + 1e-300))`, or `-v` when the model was declared with `log=True`. -/
def costOf [Add α] [Neg α] (logf : α → α) (eps : α) (isLog : Bool) (v : α) : α :=
  if isLog then -v else -(logf (v + eps))

/-- `npy_isnan`: the only values that differ from themselves are the NaNs of IEEE-754 (in a type with a lawful `==` —
ℕ, ℤ, ℚ, any linear order — there is none) -/
def isNaN [BEq α] (x : α) : Bool := !(x == x)

/-- the scan of `numpy.argmin` after its first element (`best` is not a NaN): `if (!(*ip >= mp)) { mp = *ip; *min_ind = i;
if (npy_isnan(mp)) break; }` — a NaN is taken at once and ends the scan, otherwise strict `<`, so the first minimum
is kept -/
def argminFrom [BEq α] (best : α) (bi : Nat) : Nat → List α → Nat
  | _, [] => bi
  | i, x :: xs => if isNaN x then i
                  else if x < best then argminFrom x i (i+1) xs else argminFrom best bi (i+1) xs

/-- `numpy.argmin` of a list: the index of the FIRST NaN if there is one, else of the first minimum;
`none` = `ValueError` on an empty sequence -/
def argmin? [BEq α] : List α → Option Nat
  | [] => none
  | x :: xs => if isNaN x then some 0 else some (argminFrom x 0 1 xs)

/-- `(TAB_VAL[0], TAB_MRK[0])`; Python stores `-1` as marker, which is never read: `0` here -/
def firstCol (t : Tables α) : List α × List Nat :=
  ((List.range (t.n 0)).map (t.obs 0), (List.range (t.n 0)).map (fun _ => 0))

/-- `(TAB_VAL[k+1], TAB_MRK[k+1])` from `prev = TAB_VAL[k]`: for every state `l` of epoch `k+1`
the loop over `m in range(len(TAB_MRK[k]))` is `scanMin` reading `TAB_VAL[k][m]` from `prev` -/
def nextCol (t : Tables α) (k : Nat) (prev : List α) : List α × List Nat :=
  let cells := (List.range (t.n (k+1))).map fun l =>
    let r := scanMin t.big (fun m => t.add (t.trans k m l) (prev.getD m t.big)) prev.length
    (t.add r.1 (t.obs (k+1) l), r.2)
  (cells.map Prod.fst, cells.map Prod.snd)

/-- forward pass: the columns of epochs `k, k-1, …, 0` (latest first) -/
def forward (t : Tables α) : Nat → List (List α × List Nat)
  | 0 => [firstCol t]
  | k+1 =>
    match forward t k with
    | [] => []
    | c :: rest => nextCol t k c.1 :: c :: rest

/-- backward walk from the last epoch down: records `(idk, TAB_VAL[k][idk])` then follows
`TAB_MRK[k][idk]`; `none` = `IndexError` (only possible when an epoch has no state) -/
def walk : List (List α × List Nat) → Nat → Option (List (Nat × α))
  | [], _ => some []
  | c :: rest, idk =>
    match c.1[idk]?, c.2[idk]? with
    | some v, some m => (walk rest m).map (fun r => (idk, v) :: r)
    | _, _ => none

inductive Res (α : Type) where
  | ok (r : List (Nat × α))   -- per epoch 0..N-1: (index of the inferred state, recorded hmm_cost)
  | errIndex                  -- IndexError (no epoch, or an epoch without states)
  | errValue                  -- ValueError: argmin of an empty last column
  deriving DecidableEq

/-- `HMM.estimate` on a track of `N` epochs -/
def decode [BEq α] (t : Tables α) : Nat → Res α
  | 0 => .errIndex
  | N+1 =>
    match forward t N with
    | [] => .errIndex
    | c :: rest =>
      match argmin? c.1 with
      | none => .errValue
      | some idk =>
        match walk (c :: rest) idk with
        | none => .errIndex
        | some r => .ok r.reverse
end TV.Viterbi
