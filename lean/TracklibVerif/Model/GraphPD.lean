import TracklibVerif.Model.Graph
import TracklibVerif.Model.PDict
/-! `run_routing_forward` with the queue `fil` spelled out as a `priority_dict` (`Model/PDict.lean`) instead of the
abstract "pop the minimum (label, id) among the labelled unsettled nodes" of `Model/Graph.lean`.
`Lemmas/GraphPD.lean` proves the two loops equal. Core Lean only. -/
namespace TV.Graph
open TV.PDict
variable {W : Type} [LT W] [DecidableLT W] [Add W]

/-- one pass of the loop body over an edge, with `fil.__setitem__(fils, fils.poids)` when the label is updated -/
def relaxOnePD (u : Nat) (du : W) (x : St W × PD W) (e : Edge W) : St W × PD W :=
  let st := x.1
  let v := other e u
  if st.vis v then x else
  let upd : St W := { st with d := fun z => if z = v then some (du + e.w) else st.d z,
                              pred := fun z => if z = v then some (u, e.id) else st.pred z }
  match st.d v with
  | none => (upd, setitem x.2 v (du + e.w))
  | some y => if du + e.w < y then (upd, setitem x.2 v (du + e.w)) else x

/-- the `while len(fil) != 0` loop with `pere = fil.pop_smallest()`; `du = pere.poids` is read from the node -/
def forwardPD (net : Net W) (target : Option Nat) (cut : Option W) :
    Nat → St W → PD W → List (Nat × W) → St W × List (Nat × W)
  | 0, st, _, out => (st, out)
  | f+1, st, pd, out =>
    if len pd = 0 then (st, out) else
    match popSmallest pd with
    | none => (st, out)                 -- IndexError; proved impossible
    | some (u, pd') =>
      match st.d u with
      | none => (st, out)               -- a queued node always has a label; proved impossible
      | some du =>
        if stops target cut u du then (st, out)
        else
          let r := (nextEdges net u).foldl (relaxOnePD u du)
            ({ st with vis := fun z => if z = u then true else st.vis z }, pd')
          forwardPD net target cut f r.1 r.2 (out ++ [(u, du)])

/-- `fil = priority_dict({source: 0})` and the loop -/
def runForwardPD [OfNat W 0] (net : Net W) (s : Nat) (target : Option Nat) (cut : Option W) :
    St W × List (Nat × W) :=
  forwardPD net target cut net.n (St.init s) (ofDict [(s, 0)]) []
end TV.Graph
