/-! Model of `minCircle` / `minCircleOfPoints` / `__welzl` / `__circle` (util/geometrics.py) and of
`ENUCoords.__eq__` (core/obs_coords.py), the randomised minimum-enclosing-circle routine `findStopsGlobal` calls for
every candidate segment (C12).

* The random source is an explicit parameter: `draw k` is the value behind the `k`-th call of `random.randint` made
  by the run (`random.randint(0, len(P) - 1)` is `draw k % len(P)`); every function threads the number of draws made.
* A circle is kept as centre and SQUARED radius; the code keeps the radius (`math.sqrt`). Every test of the code
  compares a planimetric distance with a radius (`p.distance2DTo(D.center) < D.radius`, `CANDIDATS[i].radius < min`):
  both sides are non-negative roots, the model compares the squares. Exact on the rationals; on doubles the code's
  roots are rounded (the harness compares values up to 1e-9 and does not compare runs that meet an exact tie with a
  circle through three points, whose centre the code computes in rounded complex arithmetic).
* `__circle(p1, p2, p3)` as coded: `None` for three collinear points; the three `== 0` tests that would move a point
  by `random.random() * 1e-10` (outcome `random`: outside the model — never reached, `circle3_never_random`); the
  three circles on two of the points, kept as CANDIDATES when they contain the third point STRICTLY, the first of the
  smallest radius returned; otherwise the circle through the three points (the code's complex-number formula is the
  circumcentre; written here with real coordinates).
* `__welzl` as coded: the strict test `<` (a point ON the circle joins `R`), `if not p in R` with `ENUCoords.__eq__`
  (all three coordinates within `eps = 0.0001`), the early return when `len(R) == 3` whatever is left in `P`.
Core Lean only; polymorphic in the scalar. -/
namespace TV.MinCircle

structure Pt (α : Type) where
  x : α
  y : α
  z : α

structure Circ (α : Type) where
  cx : α
  cy : α
  r2 : α

/-- what a call returns: `None`, a `Circle`, `random` = the code went into a `random.random()` perturbation
(outside the model), `stuck` = the model ran out of fuel (never with `fuel = len(P)`) -/
inductive Out (α : Type) where
  | none : Out α
  | circ : Circ α → Out α
  | random : Out α
  | stuck : Out α

variable {α : Type} [Add α] [Sub α] [Mul α] [Div α] [Neg α] [LT α] [DecidableLT α] [DecidableEq α]
  [OfNat α 0] [OfNat α 2] [OfNat α 4]

/-- squared planimetric distance (`distance2DTo` squared) -/
def d2 (ax ay bx by' : α) : α := (bx - ax) * (bx - ax) + (by' - ay) * (by' - ay)

def absv (a : α) : α := if a < 0 then -a else a

/-- `ENUCoords.__eq__`: every coordinate within `eps` (strict) -/
def ptEq (eps : α) (p q : Pt α) : Bool :=
  decide (absv (p.x - q.x) < eps) && decide (absv (p.y - q.y) < eps) && decide (absv (p.z - q.z) < eps)

/-- `__circle(p1)` -/
def circle1 (p : Pt α) : Circ α := ⟨p.x, p.y, 0⟩

/-- `__circle(p1, p2)`: centre `(p1 + p2) * 0.5`, radius `p1.distance2DTo(p2) / 2` -/
def circle2 (p q : Pt α) : Circ α := ⟨(q.x + p.x) / 2, (q.y + p.y) / 2, d2 p.x p.y q.x q.y / 4⟩

/-- `collinear([x1,y1],[x2,y2],[x3,y3])` (util/geometry.py) -/
def collinear (p1 p2 p3 : Pt α) : Bool :=
  decide ((p2.x - p1.x) * (p3.y - p1.y) - (p3.x - p1.x) * (p2.y - p1.y) = 0)

/-- does the circle contain the point strictly (`c.center.distance2DTo(p) < c.radius`) -/
def inside (c : Circ α) (p : Pt α) : Bool := decide (d2 p.x p.y c.cx c.cy < c.r2)

/-- the circle through three non-collinear points (the code's complex formula: circumcentre, radius = distance to `p1`) -/
def circum (p1 p2 p3 : Pt α) : Circ α :=
  let bx := p2.x - p1.x
  let by' := p2.y - p1.y
  let cx := p3.x - p1.x
  let cy := p3.y - p1.y
  let d := 2 * (bx * cy - by' * cx)
  let ux := (cy * (bx * bx + by' * by') - by' * (cx * cx + cy * cy)) / d
  let uy := (bx * (cx * cx + cy * cy) - cx * (bx * bx + by' * by')) / d
  ⟨p1.x + ux, p1.y + uy, ux * ux + uy * uy⟩

/-- `for i in range(len(CANDIDATS)): if CANDIDATS[i].radius < min: …` — first circle of the smallest radius -/
def argminR (best : Circ α) : List (Circ α) → Circ α
  | [] => best
  | c :: rest => if c.r2 < best.r2 then argminR c rest else argminR best rest

/-- `CANDIDATS`: the circles on two of the three points that contain the third one strictly, in the order `C12, C23, C13` -/
def cands3 (p1 p2 p3 : Pt α) : List (Circ α) :=
  ((if inside (circle2 p1 p2) p3 then [circle2 p1 p2] else []) ++ (if inside (circle2 p2 p3) p1 then [circle2 p2 p3] else []))
    ++ (if inside (circle2 p1 p3) p2 then [circle2 p1 p3] else [])

/-- `__circle(p1, p2, p3)` -/
def circle3 (p1 p2 p3 : Pt α) : Out α :=
  if collinear p1 p2 p3 then .none
  else if d2 p1.x p1.y p2.x p2.y = 0 ∨ d2 p1.x p1.y p3.x p3.y = 0 ∨ d2 p2.x p2.y p3.x p3.y = 0 then .random
  else
    match cands3 p1 p2 p3 with
    | c :: rest => .circ (argminR c (c :: rest))
    | [] => .circ (circum p1 p2 p3)

/-- the leaf of `__welzl`: `len(P) == 0 or len(R) == 3` -/
def base : List (Pt α) → Out α
  | [] => .circ ⟨0, 0, 0⟩
  | [a] => .circ (circle1 a)
  | [a, b] => .circ (circle2 a b)
  | a :: b :: c :: _ => circle3 a b c

/-- `__welzl(Circle(P, R))`; `draw` is the random source, `k` the number of draws made so far; returns the result and
the number of draws made. `fuel ≥ len(P)`. -/
def welzl (eps : α) (draw : Nat → Nat) : Nat → List (Pt α) → List (Pt α) → Nat → Out α × Nat
  | fuel, P, R, k =>
    if P.isEmpty || R.length == 3 then (base R, k)
    else match fuel with
      | 0 => (.stuck, k)
      | fuel + 1 =>
        let id := draw k % P.length
        match P[id]? with
        | Option.none => (.stuck, k)
        | some p =>
          let P2 := P.eraseIdx id
          match welzl eps draw fuel P2 R (k + 1) with
          | (.circ D, k1) =>
            if inside D p then (.circ D, k1)
            else welzl eps draw fuel P2 (if R.any (fun q => ptEq eps p q) then R else R ++ [p]) k1
          | other => other

/-- `minCircleOfPoints(points)` (sizes far below the recursion-limit test) = `minCircle(track)` on an ENU track -/
def minCircleOfPoints (eps : α) (draw : Nat → Nat) (pts : List (Pt α)) : Out α × Nat :=
  welzl eps draw pts.length pts [] 0

/-- certificate: the circle encloses every point in the plane (`≤`) -/
def encloses [LE α] [DecidableLE α] (c : Circ α) (pts : List (Pt α)) : Bool :=
  pts.all (fun p => decide (d2 p.x p.y c.cx c.cy ≤ c.r2))

end TV.MinCircle
