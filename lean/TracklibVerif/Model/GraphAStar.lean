import TracklibVerif.Model.Graph
import TracklibVerif.Model.GraphSession
/-! Model of the routing-method API of `tracklib/core/network.py` and of the A* branch of `run_routing_forward`
(as it is after fix c78e3ab):

* `Network.__init__`: `self.routing_mode = Network.ROUTING_ALGO_DIJKSTRA` (0), `self.astar_wgt = 1` — **instance**
  attributes; `setRoutingMethod(method)` / `setAStarWeight(weight)` assign them on `self`.
* `run_routing_forward`: the local `heuristic = 0`; inside the relaxation
  `if (self.routing_mode == 1) and not (target is None): heuristic = self.astar_wgt * fils.distanceTo(self.NODES[target])`,
  then `fils.poids = pere.poids + e.weight` and `fil.__setitem__(fils, fils.poids + heuristic)`: the node label is the
  travelled distance `g` (so the relaxation is `relaxOne` of `Model/Graph.lean`, the stop test `pere.poids > cut` compares
  `g` with the cut-off and `output_dict` receives `g`), the heuristic enters the **queue priority** `g + h` only
  (`popMinKey`). With no target (or `routing_mode != 1`) `heuristic` keeps its initial value 0. The source enters the queue
  with priority `poids = 0` — it is alone there, so its priority is never compared.
* `Node.distanceTo` → `ENUCoords.distanceTo` → `(point - self).norm()` = `sqrt(E**2 + N**2 + U**2)`.
* several `Network` objects alive at the same time (`World`), each with its own settings.

The last section, "the A* branch before fix c78e3ab", keeps the pre-fix loop (`…HOld`: `poids = g + h`, the next edge added
on top of it) as the documented defective variant; nothing but its own lemmas refers to it.

Core Lean only. -/
namespace TV.Graph
variable {W : Type}

/-- `ENUCoords(E, N, U)` of a `Node` -/
structure Pos (W : Type) where
  e : W
  n : W
  u : W

/-- `a.distanceTo(b)` = `(b - a).norm()`: `ENUCoords.__sub__` gives `(b.E - a.E, b.N - a.N, b.U - a.U)`,
`norm` = `math.sqrt(self.E ** 2 + self.N ** 2 + self.U ** 2)` (the sum is taken left to right). -/
def distanceTo [Sub W] [Mul W] [Add W] (sqrt : W → W) (a b : Pos W) : W :=
  let dE := b.e - a.e
  let dN := b.n - a.n
  let dU := b.u - a.u
  sqrt (dE * dE + dN * dN + dU * dU)

/-- integer square root (floor), Newton's iteration from above; `fuel` = number of iterations allowed -/
def isqrtAux (n : Nat) : Nat → Nat → Nat
  | 0, x => x
  | f+1, x =>
    let y := (x + n / x) / 2
    if y < x then isqrtAux n f y else x

def isqrt (n : Nat) : Nat := if n < 2 then n else isqrtAux n (n.log2 + 2) n

/-- `math.sqrt` on the rationals that are squares of rationals (the exact stream uses node positions whose
mutual distances are rational: on a line, on the corners of a 3k x 4k rectangle); on other arguments it is the
floor on numerator and denominator, and the driver refuses such inputs (`isSquareRat`). -/
def sqrtRat (q : Rat) : Rat := (isqrt q.num.toNat : Rat) / (isqrt q.den : Rat)

def isSquareRat (q : Rat) : Bool := decide (0 ≤ q) && decide (sqrtRat q * sqrtRat q = q)

/-- the value the local variable `heuristic` holds when `fils = v` is relabelled: `0` (its initial value) unless
`routing_mode == 1` and a target is given, in which case it was just set to `astar_wgt * fils.distanceTo(NODES[target])` -/
def heuristicOf [Sub W] [Mul W] [Add W] [OfNat W 0] (sqrt : W → W) (pos : Nat → Pos W) (mode : Nat) (wgt : W)
    (target : Option Nat) : Nat → W :=
  fun v => match target with
    | some t => if mode = 1 then wgt * distanceTo sqrt (pos v) (pos t) else 0
    | none => 0

variable [LT W] [DecidableLT W] [Add W]

/-! ### the loop with the heuristic in the queue priority: label `g`, priority `g + h` -/

/-- `fil.pop_smallest()` when every queue entry was set by `fil[fils] = fils.poids + heuristic`: the unsettled labelled
node with the smallest `(poids + h, id)` (scan in id order keeping the first strict minimum); the popped node comes with
its label `poids`, which is what the stop test and `output_dict` read -/
def popMinKey (h : Nat → W) (st : St W) : Nat → Option (Nat × W)
  | 0 => none
  | k+1 =>
    let best := popMinKey h st k
    if st.vis k then best else
    match st.d k with
    | none => best
    | some x => match best with
      | none => some (k, x)
      | some (u, y) => if x + h k < y + h u then some (k, x) else some (u, y)

/-- the `while len(fil) != 0` loop, `h v` being the value of `heuristic` for `fils = v`: same stop tests, same recording,
same relaxation (`settle`) as `forward`; only the queue order differs -/
def forwardH (net : Net W) (h : Nat → W) (target : Option Nat) (cut : Option W) :
    Nat → St W → List (Nat × W) → St W × List (Nat × W)
  | 0, st, out => (st, out)
  | f+1, st, out =>
    match popMinKey h st net.n with
    | none => (st, out)
    | some (u, du) =>
      if stops target cut u du then (st, out)
      else forwardH net h target cut f (settle net st u du) (out ++ [(u, du)])

/-- `run_routing_forward(source, target, cut, output_dict)` on a fresh labelling, with the heuristic values `h` -/
def runForwardH [OfNat W 0] (net : Net W) (h : Nat → W) (s : Nat) (target : Option Nat) (cut : Option W) :
    St W × List (Nat × W) :=
  forwardH net h target cut net.n (St.init s) []

/-- `shortest_distance(source, target, cut)` when `heuristic` takes the values `h` -/
def shortestDistanceH [OfNat W 0] (net : Net W) (h : Nat → W) (s t : Nat) (cut : Option W) : Option W :=
  (runForwardH net h s (some t) cut).1.d t

/-- as `routeOn` (`Model/GraphSession.lean`): `__resetFlags` over the object's own nodes, then the loop with the heuristic -/
def routeOnH [OfNat W 0] (net : Net W) (order : List Nat) (st : St W) (h : Nat → W) (s : Nat) (tgt : Option Nat)
    (cut : Option W) : St W × List (Nat × W) :=
  forwardH net h tgt cut net.n (startFlags order st s) []

/-! ### one `Network` object with its routing settings; several objects alive at the same time -/

/-- a `Network` object: the session state of `Model/GraphSession.lean`, the coordinates of its `Node` objects, and the
two attributes `__init__` creates on the instance -/
structure NetObj (W : Type) where
  sess : Sess W
  pos : Nat → Pos W
  mode : Nat           -- `self.routing_mode`
  wgt : W              -- `self.astar_wgt`

/-- `Network()`: `routing_mode = ROUTING_ALGO_DIJKSTRA`, `astar_wgt = 1` -/
def NetObj.new [OfNat W 1] (n : Nat) (pos : Nat → Pos W) : NetObj W :=
  { sess := Sess.new n, pos := pos, mode := 0, wgt := 1 }

inductive WOp (W : Type) where
  | setMethod (m : Nat)          -- `setRoutingMethod(m)`
  | setWeight (w : W)            -- `setAStarWeight(w)`
  | call (op : Op W)             -- any call of `Model/GraphSession.lean`

variable [Sub W] [Mul W] [OfNat W 0]

/-- the heuristic values of a search on this object -/
def NetObj.h (sqrt : W → W) (o : NetObj W) (t : Option Nat) : Nat → W :=
  heuristicOf sqrt o.pos o.mode o.wgt t

/-- one call on one object. Only a search *with a target* on an object whose *own* `routing_mode` is 1 differs from
`exec`: every other call (list form, `all_shortest_distances`, `prepare`, `sub_network`, …) leaves `heuristic = 0`. -/
def execObj (sqrt : W → W) (o : NetObj W) : WOp W → NetObj W × Out W
  | .setMethod m => ({ o with mode := m }, .unit)
  | .setWeight w => ({ o with wgt := w }, .unit)
  | .call (.route s (some t) cut ud) =>
    if o.mode = 1 then
      let σ := o.sess
      if σ.order.contains s && σ.order.contains t then
        let r := routeOnH σ.net σ.order σ.flags (o.h sqrt (some t)) s (some t) cut
        ({ o with sess := { σ with flags := r.1, udict := if ud then record σ.udict s r.2 else σ.udict } },
         .flags (σ.order.map r.1.d) (σ.order.map r.1.vis))
      else (o, .err)
    else let r := exec o.sess (.route s (some t) cut ud); ({ o with sess := r.1 }, r.2)
  | .call (.dist s t cut ud) =>
    if o.mode = 1 then
      let σ := o.sess
      if σ.order.contains s && σ.order.contains t then
        let r := routeOnH σ.net σ.order σ.flags (o.h sqrt (some t)) s (some t) cut
        ({ o with sess := { σ with flags := r.1, udict := if ud then record σ.udict s r.2 else σ.udict } }, .val (r.1.d t))
      else (o, .err)
    else let r := exec o.sess (.dist s t cut ud); ({ o with sess := r.1 }, r.2)
  | .call op => let r := exec o.sess op; ({ o with sess := r.1 }, r.2)

/-- a sequence of calls on one object: what each returned -/
def runObj (sqrt : W → W) (o : NetObj W) : List (WOp W) → List (Out W)
  | [] => []
  | op :: rest => (execObj sqrt o op).2 :: runObj sqrt (execObj sqrt o op).1 rest

def objAfter (sqrt : W → W) (o : NetObj W) : List (WOp W) → NetObj W
  | [] => o
  | op :: rest => objAfter sqrt (execObj sqrt o op).1 rest

/-- the `Network` objects of a program, in creation order -/
abbrev World (W : Type) := List (NetObj W)

inductive WorldOp (W : Type) where
  | create (n : Nat) (pos : Nat → Pos W)     -- `Network()` (node ids `< n`, the coordinates its nodes will get)
  | on (k : Nat) (op : WOp W)                -- a call on the `k`-th object

variable [OfNat W 1]

def execWorld (sqrt : W → W) (w : World W) : WorldOp W → World W × Out W
  | .create n pos => (w ++ [NetObj.new n pos], .unit)
  | .on k op =>
    match w[k]? with
    | none => (w, .err)
    | some o => let r := execObj sqrt o op; (w.set k r.1, r.2)

def runWorld (sqrt : W → W) (w : World W) : List (WorldOp W) → List (Out W)
  | [] => []
  | op :: rest => (execWorld sqrt w op).2 :: runWorld sqrt (execWorld sqrt w op).1 rest

def worldAfter (sqrt : W → W) (w : World W) : List (WorldOp W) → World W
  | [] => w
  | op :: rest => worldAfter sqrt (execWorld sqrt w op).1 rest

/-- the calls of a program that are addressed to object `k` -/
def opsOn (k : Nat) : List (WorldOp W) → List (WOp W)
  | [] => []
  | .create _ _ :: rest => opsOn k rest
  | .on j op :: rest => if j = k then op :: opsOn k rest else opsOn k rest

/-- what a program's calls on object `k` returned -/
def answersOn (k : Nat) : List (WorldOp W) → List (Out W) → List (Out W)
  | .on j _ :: rest, a :: as => if j = k then a :: answersOn k rest as else answersOn k rest as
  | .create _ _ :: rest, _ :: as => answersOn k rest as
  | _, _ => []
/-! ### the A* branch before fix c78e3ab (documented pre-fix variant, not a model of any current code)

`fils.poids = pere.poids + e.weight + heuristic; fil[fils] = fils.poids`: the label held `g + h`, the next edge was added on
top of it, so the heuristic terms of all nodes on the way accumulated in the label, the relaxation test compared a label
with heuristic against a candidate without, and the cut-off test saw inflated labels (finding
`astar-label-accumulates-heuristic`, repaired by c78e3ab). Kept so that `TV.C06.astar_old_inflates` can state what was
wrong; reverting the fix makes the harness disagree with `forwardH` above and fail the oracle on the corpus witness. -/
section old
variable {V : Type} [LT V] [DecidableLT V] [Add V]

/-- PRE-FIX relaxation, `h v` being the value of `heuristic` for `fils = v`:
`if (fils.poids == -1) or (pere.poids + e.weight < fils.poids): fils.poids = pere.poids + e.weight + heuristic` -/
def relaxOneHOld (h : Nat → V) (u : Nat) (du : V) (st : St V) (e : Edge V) : St V :=
  let v := other e u
  if st.vis v then st else
  let upd : St V := { st with d := fun z => if z = v then some (du + e.w + h v) else st.d z,
                              pred := fun z => if z = v then some (u, e.id) else st.pred z }
  match st.d v with
  | none => upd
  | some y => if du + e.w < y then upd else st

/-- PRE-FIX -/
def settleHOld (net : Net V) (h : Nat → V) (st : St V) (u : Nat) (du : V) : St V :=
  (nextEdges net u).foldl (relaxOneHOld h u du) { st with vis := fun z => if z = u then true else st.vis z }

/-- PRE-FIX loop: the queue holds the unsettled labelled nodes with priority `poids` (= `g` + accumulated heuristic) -/
def forwardHOld (net : Net V) (h : Nat → V) (target : Option Nat) (cut : Option V) :
    Nat → St V → List (Nat × V) → St V × List (Nat × V)
  | 0, st, out => (st, out)
  | f+1, st, out =>
    match popMinAux st net.n with
    | none => (st, out)
    | some (u, du) =>
      if stops target cut u du then (st, out)
      else forwardHOld net h target cut f (settleHOld net h st u du) (out ++ [(u, du)])

/-- PRE-FIX `run_routing_forward(source, target, cut)` -/
def runForwardHOld [OfNat V 0] (net : Net V) (h : Nat → V) (s : Nat) (target : Option Nat) (cut : Option V) :
    St V × List (Nat × V) :=
  forwardHOld net h target cut net.n (St.init s) []

/-- PRE-FIX `shortest_distance(source, target, cut)` -/
def shortestDistanceHOld [OfNat V 0] (net : Net V) (h : Nat → V) (s t : Nat) (cut : Option V) : Option V :=
  (runForwardHOld net h s (some t) cut).1.d t
end old
end TV.Graph
