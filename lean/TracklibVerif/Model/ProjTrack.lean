import TracklibVerif.Model.Proj
import TracklibVerif.Model.Features
/-! Model of the TRACK form of `mapOnTrack` on track OBJECTS (C20): `tracklib/algo/mapping.py`

```
def mapOnTrack(coord_or_track, track):
    if "tracklib.core.track.Track" in str(type(coord_or_track)):
        output = tracklib.Track()
        dist = [0]*len(coord_or_track); edge = [0]*len(coord_or_track)
        for i in range(len(coord_or_track)):
            proj = __projOnTrack(coord_or_track[i].position, track)
            output.addObs(Obs(proj[0]))
            dist[i] = proj[1]; edge[i] = proj[2]
        output.createAnalyticalFeature("dist", dist)
        output.createAnalyticalFeature("edge", edge)
        return output
    return __projOnTrack(coord_or_track, track)
```

`Model/Proj.lean` has the projections (`projOnTrack3`, `mapOnTrack3All`: one row per query). Here the two tracks are
track objects with their STATE: the table of analytical features (`_Track__analyticalFeaturesDico` + the `features`
list of every observation) and the time stamps — `TV.Features.St`, the concrete track state of C01's model, with
`createAnalyticalFeature` = `TV.Features.createC` (a **silent no-op on a name the track already has**, an
`AnalyticalFeatureError` on a track without observation, `IndexError` on a too short list).

What the code does with that state: the output is a FRESH `Track()` — it inherits neither the features nor the time
stamps of the track of queries (every `Obs(proj[0])` gets the default `ObsTime()`, 1970-01-01 00:00:00) —, so that the
two `createAnalyticalFeature` calls always write: the output has exactly the features `dist`, `edge`, whatever the
track of queries carried (features called `dist` / `edge` included: the output of an earlier `mapOnTrack`). A track of
queries without observation makes `createAnalyticalFeature("dist", [])` raise `AnalyticalFeatureError`.

Feature cells are scalars of the same type `α` as the coordinates (as in `TV.Features`): the segment index `edge[i]`
(a Python `int`) is stored as `ofNat i` (`Float.ofNat` in the driver, the cast `ℕ → α` in the theorems).

Core Lean only. -/
namespace TV.ProjTrack
open TV.Proj TV.Features

/-- errors of `mapOnTrack` on track objects: those of the projection, and those of `createAnalyticalFeature` -/
inductive ErrT where
  | proj (e : ErrX)
  | feat (e : TV.Features.Err)
  deriving Repr

section
variable {α : Type} [Add α] [Sub α] [Mul α] [Div α] [Neg α] [LT α] [LE α]
  [DecidableLT α] [DecidableLE α] [OfNat α 0]

/-- `[o.position for o in track]` as `(getX(), getY(), getZ())` triples -/
def positions (t : St α) : List (α × α × α) := t.xs.zip (t.ys.zip t.zs)

/-- `output = Track()` followed by `output.addObs(Obs(p))` for every `p`: no analytical feature, an empty `features`
list on every observation, the default time stamp `ObsTime()` (absolute time `0`) -/
def freshTrack (ps : List (α × α × α)) : St α :=
  { dico := [], rows := ps.map (fun _ => []),
    xs := ps.map (fun p => p.1), ys := ps.map (fun p => p.2.1), zs := ps.map (fun p => p.2.2),
    ts := ps.map (fun _ => (0 : α)) }

/-- the last three statements of the Track branch, on the rows `(ENUCoords, distance, index)` of the loop:
the fresh output track, then `createAnalyticalFeature("dist", dist)`, `createAnalyticalFeature("edge", edge)` -/
def outputTrack (ofNat : Nat → α) (rs : List ((α × α × α) × α × Nat)) : Except ErrT (St α) :=
  let out : St α := freshTrack (rs.map (fun r => r.1))
  match createC "dist" (.list (rs.map (fun r => r.2.1))) out with
  | (.error e, _) => .error (.feat e)
  | (.ok _, o1) =>
    match createC "edge" (.list (rs.map (fun r => ofNat r.2.2))) o1 with
    | (.error e, _) => .error (.feat e)
    | (.ok _, o2) => .ok o2

/-- `mapOnTrack(track_of_queries, track)`, the Track branch, on two track objects: `q` is the track of queries **with
its feature table and time stamps**, `ref` the reference track (its own features are never read either) -/
def mapOnTrackT (sqrt : α → α) (eps : α) (ofNat : Nat → α) (ref q : St α) : Except ErrT (St α) :=
  match mapOnTrack3All sqrt eps (positions ref) (positions q) with
  | .error e => .error (.proj e)
  | .ok rs => outputTrack ofNat rs

/-- `mapOnTrack(coord_or_track, track)` with its dispatch on the type of the first argument, on track objects -/
def mapOnTrackD (sqrt : α → α) (eps : α) (ofNat : Nat → α) (ref : St α) :
    (α × α × α) ⊕ St α → Except ErrT (((α × α × α) × α × Nat) ⊕ St α)
  | .inl c => match projOnTrack3 sqrt eps (positions ref) c with
    | .error e => .error (.proj e)
    | .ok r => .ok (.inl r)
  | .inr q => (mapOnTrackT sqrt eps ofNat ref q).map .inr

/-- chained snapping `mapOnTrack(… mapOnTrack(mapOnTrack(q, ref₀), ref₁) …, refₖ)`: the outputs of the completed calls
in order, and the exception that stopped the chain if there is one -/
def mapChain (sqrt : α → α) (eps : α) (ofNat : Nat → α) : List (St α) → St α → List (St α) × Option ErrT
  | [], _ => ([], none)
  | r :: rs, q =>
    match mapOnTrackT sqrt eps ofNat r q with
    | .error e => ([], some e)
    | .ok o =>
      let rest := mapChain sqrt eps ofNat rs o
      (o :: rest.1, rest.2)

/-- `track.getAnalyticalFeature(name)` for an ordinary feature name (not a coordinate / `timestamp` / `idx`): the column
registered under `name`, `none` when the track has no such feature (AnalyticalFeatureError) -/
def column (t : St α) (name : String) : Option (List α) :=
  match find t.dico name with
  | none => none
  | some idx => t.rows.mapM (fun r => r[idx]?)

end
end TV.ProjTrack
