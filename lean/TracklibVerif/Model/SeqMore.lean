import TracklibVerif.Model.SeqOps
/-! Model of the sequence operations of `tracklib/core/track.py` (property C04), part 3: the remaining public
operations on the observation list — `reverse`, `makeOdd` / `makeEven`, `setObs` / `track[i] = obs`,
`getFirstObs` / `getLastObs`, the even split `track / n`, `removeObsList` with timestamps. Core Lean only. -/
namespace TV.Seq
variable {α : Type}

/-- `reverse()`: `output = self.copy(); output.__POINTS = output.__POINTS[::-1]` — a deep copy (observations and
feature table), its list replaced by the slice with step `-1` -/
def reverseTrack (tr : Track) : Option Track :=
  (pySlice tr.pts none none (some (-1))).map (fun p => ⟨p, tr.table⟩)

/-- `list.pop()`; `none` = `IndexError: pop from empty list` -/
def pyPop (l : List α) : Option (List α) := if l.isEmpty then none else some l.dropLast

/-- `makeOdd()`: `if self.size() % 2 == 0: self.__POINTS.pop()` -/
def makeOdd (l : List α) : Option (List α) := if l.length % 2 = 0 then pyPop l else some l

/-- `makeEven()`: `if self.size() % 2 == 1: self.__POINTS.pop()` -/
def makeEven (l : List α) : Option (List α) := if l.length % 2 = 1 then pyPop l else some l

/-- `L[i] = x` (`setObs(i, obs)`, `track[i] = obs`); `none` = `IndexError` -/
def pySet (l : List α) (i : Int) (x : α) : Option (List α) :=
  if 0 ≤ i then (if i.toNat < l.length then some (l.set i.toNat x) else none)
  else if 0 ≤ (l.length : Int) + i then some (l.set ((l.length : Int) + i).toNat x)
  else none

/-- `getFirstObs()`: `self.__POINTS[0]` -/
def getFirst (l : List α) : Option α := pyGet l 0

/-- `getLastObs()`: `self.__POINTS[self.size() - 1]` (on the empty track the index is `-1`: `IndexError`) -/
def getLast (l : List α) : Option α := pyGet l ((l.length : Int) - 1)

/-- `track / number` (an `int`):
```
N = (int)(self.size() / number)
for i in range(number):
    id_ini = i * N;  id_fin = min((i + 1) * N, self.size()) + 1
    portion = Track(self.__POINTS[id_ini:id_fin-1]);  portion.__transmitAF(self)
```
`none` = `ZeroDivisionError` (`number = 0`). A negative `number` gives no segment (`range(number)` is empty). For
`number ≥ 1` the float quotient truncated by `int` is the integer quotient `size / number` (contract of the float
division: exact for sizes below 2^53), both slice bounds are `≥ 0`, so the slice is `take`/`drop`
(`TV.C04.getitemSlice_simple`). -/
def splitEven (tr : Track) (number : Int) : Option (List Track) :=
  if number = 0 then none
  else
    let N := tr.pts.length / number.toNat
    some ((List.range number.toNat).map (fun i =>
      transmitAF ((tr.pts.take (min ((i + 1) * N) tr.pts.length)).drop (i * N)) tr))

/-- `__removeObsByTimestamp(tps)`: the FIRST observation with that timestamp is deleted and 1 returned; 0 when there
is none -/
def removeFirstTime : List Obs → Int → List Obs × Nat
  | [], _ => ([], 0)
  | o :: os, t =>
    if o.time = t then (os, 1)
    else ((o :: (removeFirstTime os t).1), (removeFirstTime os t).2)

/-- `for i in range(len(tab_tps)): counter += self.__removeObsByTimestamp(tab_tps[i])` -/
def removeTimesLoop : List Int → List Obs → Nat → List Obs × Nat
  | [], l, c => (l, c)
  | t :: rest, l, c => removeTimesLoop rest (removeFirstTime l t).1 (c + (removeFirstTime l t).2)

/-- `removeObsList(tab)` with `ObsTime`s (as integers; `tab.sort()` orders them by instant, C03): a repeated
timestamp is refused (nothing removed, 0 returned) -/
def removeByTimes (l : List Obs) (tab : List Int) : List Obs × Nat :=
  if tab.isEmpty then (l, 0)
  else
    let s := tab.mergeSort (fun a b => decide (a ≤ b))
    if hasAdjDup s then (l, 0)
    else removeTimesLoop s l 0

end TV.Seq
