/-! Model of `_dtw` (algo/comparison.py), function style. `w acc d` is `_p2weight`'s accumulation
    (`acc + d^p` or `max acc d`), `D i j` the point distance, `z` the initial accumulator 0. -/
namespace TV.DTW
variable {α : Type} [LT α] [LE α] [DecidableLT α] [DecidableLE α]

def min3 (a b c : α) : α := if a ≤ b then (if a ≤ c then a else c) else (if b ≤ c then b else c)

/-- forward table T -/
def T (w : α → α → α) (z : α) (D : Nat → Nat → α) : Nat → Nat → α
  | 0, 0 => w z (D 0 0)
  | i+1, 0 => w (T w z D i 0) (D (i+1) 0)
  | 0, j+1 => w (T w z D 0 j) (D 0 (j+1))
  | i+1, j+1 => w (min3 (T w z D i j) (T w z D i (j+1)) (T w z D (i+1) j)) (D (i+1) (j+1))

/-- predecessor as repaired by D14: diagonal if `ul ≤ min(u,l)`, else up if `u < l`, else left -/
def pred (w : α → α → α) (z : α) (D : Nat → Nat → α) : Nat → Nat → Nat × Nat
  | 0, 0 => (0, 0)
  | i+1, 0 => (i, 0)
  | 0, j+1 => (0, j)
  | i+1, j+1 =>
    let ul := T w z D i j; let u := T w z D i (j+1); let l := T w z D (i+1) j
    if ul ≤ u ∧ ul ≤ l then (i, j) else if u < l then (i, j+1) else (i+1, j)
end TV.DTW
