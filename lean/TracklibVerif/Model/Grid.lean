/-! Model of `tracklib/core/spatial_index.py` (class `SpatialIndex`, as it is after fixes ad7c5ee, 9a44198, the
degenerate-extent repair: one column / row and a non-zero cell side on an axis shorter than the cell size, and the
upper-border repair: integer cell indices clamped to the last column / row) and of
`cartesienne`, `__eval`, `isSegmentIntersects` of `tracklib/util/geometry.py`.

Scalar-polymorphic (core Lean only): `α` is `Rat` in the driver (exact stream) or `Float`; `fl : α → Int` is
`math.floor`. Python exceptions are the `Err` enum; `None` is `Option.none`. Python `int`s are `Int`.
`grid[i][j]` is a nested list indexed with Python's list semantics (negative indices wrap, out of range =
IndexError). The set `inventaire` is a list (only membership is ever used). Sets returned by `neighborhood`
(`list(TAB)` of a Python `set`) are duplicate-free lists in first-insertion order: the order is unspecified
in Python and compared as a set by the harness. -/
namespace TV.Grid

inductive Err where
  | zerodiv | index | type | exit
  deriving DecidableEq, Repr

abbrev Res := Except Err

/-- Python list index: `0 ≤ i < len` or the wrap of `-len ≤ i < 0`; `none` = IndexError -/
def pyIdx (len : Nat) (i : Int) : Option Nat :=
  if 0 ≤ i then (if i < (len : Int) then some i.toNat else none)
  else if -(len : Int) ≤ i then some (i + (len : Int)).toNat else none

abbrev Cells := List (List (List Nat))

/-- `self.grid[i][j]` -/
def cellGet (g : Cells) (i j : Int) : Res (List Nat) :=
  match pyIdx g.length i with
  | none => .error .index
  | some a =>
    match g[a]? with
    | none => .error .index
    | some row =>
      match pyIdx row.length j with
      | none => .error .index
      | some b =>
        match row[b]? with
        | none => .error .index
        | some c => .ok c

/-- `self.grid[i][j].append(d)` -/
def cellAppend (g : Cells) (i j : Int) (d : Nat) : Res Cells :=
  match pyIdx g.length i with
  | none => .error .index
  | some a =>
    match g[a]? with
    | none => .error .index
    | some row =>
      match pyIdx row.length j with
      | none => .error .index
      | some b =>
        match row[b]? with
        | none => .error .index
        | some c => .ok (g.set a (row.set b (c ++ [d])))

/-- `range(lo, hi)` -/
def rangeI (lo hi : Int) : List Int := (List.range (hi - lo).toNat).map (fun (k : Nat) => lo + (k : Int))

/-- `if x not in L: L.append(x)` -/
def addNew {β : Type} [BEq β] (l : List β) (x : β) : List β := if l.contains x then l else l ++ [x]

/-- `for d in values: if d not in TAB: TAB.append(d)` (also `set.update`) -/
def addAll {β : Type} [BEq β] (tab : List β) (values : List β) : List β := values.foldl addNew tab

section scalar
variable {α : Type} [Add α] [Sub α] [Mul α] [Div α] [Neg α] [LT α] [LE α]
  [DecidableLT α] [DecidableLE α] [IntCast α] [OfNat α 0]

/-- `x == 0` on numbers (order-based, so that it needs no `DecidableEq α`) -/
def isZero (x : α) : Bool := !(decide (x < 0)) && !(decide (0 < x))

/-- `int(x)`: truncation toward zero -/
def pyInt (fl : α → Int) (x : α) : Int := if x < 0 then -(fl (-x)) else fl x
/-- `min(a, b)` = `b if b < a else a` -/
def pyMin (a b : α) : α := if b < a then b else a
/-- `max(a, b)` = `b if b > a else a` -/
def pyMax (a b : α) : α := if a < b then b else a

/-! ### util/geometry.py -/

structure Seg (α : Type) where
  x1 : α
  y1 : α
  x2 : α
  y2 : α

/-- `cartesienne(segment)`: `[a, b, c]` of the line `a x + b y + c = 0` through the two ends -/
def cartesienne (s : Seg α) : α × α × α :=
  let u1 := s.x2 - s.x1
  let u2 := s.y2 - s.y1
  let b := -u1
  let a := u2
  let c := -(a * s.x1 + b * s.y1)
  (a, b, c)

/-- `__eval(param, x, y)` -/
def evalLine (p : α × α × α) (x y : α) : α := p.1 * x + p.2.1 * y + p.2.2

/-- `isSegmentIntersects(segment1, segment2)`: `(val1 <= 0) & (val2 <= 0)` -/
def isSegmentIntersects (s1 s2 : Seg α) : Bool :=
  let p1 := cartesienne s1
  let p2 := cartesienne s2
  let val11 := evalLine p1 s2.x1 s2.y1
  let val12 := evalLine p1 s2.x2 s2.y2
  let val21 := evalLine p2 s1.x1 s1.y1
  let val22 := evalLine p2 s1.x2 s1.y2
  let val1 := val11 * val12
  let val2 := val21 * val22
  decide (val1 ≤ 0) && decide (val2 ≤ 0)

/-! ### core/spatial_index.py -/

structure Index (α : Type) where
  xmin : α
  xmax : α
  ymin : α
  ymax : α
  csize : Int
  lsize : Int
  dX : α
  dY : α
  grid : Cells
  inv : List (Int × Int × Nat)

/-- bounding box `(xmin, xmax, ymin, ymax)` of all vertices (`TrackCollection.bbox`, `Bbox.__add__`) -/
def bboxOf (pts : List (α × α)) : Option (α × α × α × α) :=
  match pts with
  | [] => none
  | p :: rest =>
    some (rest.foldl (fun (bb : α × α × α × α) q =>
      (pyMin bb.1 q.1, pyMax bb.2.1 q.1, pyMin bb.2.2.1 q.2, pyMax bb.2.2.2 q.2)) (p.1, p.1, p.2, p.2))

/-- the cell size `r = (r[0], r[1])` the constructor works with: the explicit `resolution`, or
`max(ax, ay) / 100` on both axes with the default one (`1` when the bounding box is a single point) -/
def reqSide (ax ay : α) (res : Option (α × α)) : α × α :=
  match res with
  | none =>
    let am := pyMax ax ay
    let r := if 0 < am then am / ((100 : Int) : α) else ((1 : Int) : α)
    (r, r)
  | some r => r

/-- `__init__` up to the registration loop: extent = bbox + relative margin, grid dimensions
`max(1, int(ax / r[0])) x max(1, int(ay / r[1]))` from the cell size `r` (`reqSide`): at least one column and
one row in both branches (the default one since 9a44198), empty grid, cell size `ax / csize`, or `r[0]` on an
axis of zero length (all vertices on one vertical line; the single column then holds every point of the extent,
whose fractional index is `0 / r[0] = 0`). Only a cell size `0` given by the caller raises (ZeroDivisionError). -/
def mkIndex (fl : α → Int) (bb : α × α × α × α) (res : Option (α × α)) (margin : α) : Res (Index α) :=
  let dx := bb.2.1 - bb.1
  let dy := bb.2.2.2 - bb.2.2.1
  let xmin := bb.1 - margin * dx
  let xmax := bb.2.1 + margin * dx
  let ymin := bb.2.2.1 - margin * dy
  let ymax := bb.2.2.2 + margin * dy
  let ax := xmax - xmin
  let ay := ymax - ymin
  let r := reqSide ax ay res
  if isZero r.1 then .error .zerodiv
  else if isZero r.2 then .error .zerodiv
  else
    let cs := max 1 (pyInt fl (ax / r.1))
    let ls := max 1 (pyInt fl (ay / r.2))
    .ok { xmin := xmin, xmax := xmax, ymin := ymin, ymax := ymax, csize := cs, lsize := ls,
          dX := if 0 < ax then ax / ((cs : Int) : α) else r.1,
          dY := if 0 < ay then ay / ((ls : Int) : α) else r.2,
          grid := List.replicate cs.toNat (List.replicate ls.toNat []), inv := [] }

/-- what `__getCell` returns when it returns: `None` outside the (closed) extent, else the fractional cell
indices (the theorems speak about a point and its cell through this function) -/
def getCell (ix : Index α) (p : α × α) : Option (α × α) :=
  if p.1 < ix.xmin ∨ ix.xmax < p.1 then none
  else if p.2 < ix.ymin ∨ ix.ymax < p.2 then none
  else some ((p.1 - ix.xmin) / ix.dX, (p.2 - ix.ymin) / ix.dY)

/-- `__getCell` as executed: the two range tests, then `idx = min((x - xmin) / dX, csize)`,
`idy = min((y - ymin) / dY, lsize)`: each division is a ZeroDivisionError when the cell side is `0` (which the
constructor no longer produces: `mkIndex_builds`); the `min` only matters in floating point, where the quotient for
`x = xmax` can exceed the number of columns by a rounding error (in exact arithmetic it is the identity on every
built index: `getCellR_of_good`) -/
def getCellR (ix : Index α) (p : α × α) : Res (Option (α × α)) :=
  if p.1 < ix.xmin ∨ ix.xmax < p.1 then .ok none
  else if p.2 < ix.ymin ∨ ix.ymax < p.2 then .ok none
  else if isZero ix.dX then .error .zerodiv
  else if isZero ix.dY then .error .zerodiv
  else .ok (some (pyMin ((p.1 - ix.xmin) / ix.dX) ((ix.csize : Int) : α), pyMin ((p.2 - ix.ymin) / ix.dY) ((ix.lsize : Int) : α)))

/-- the test made by `__cellsCrossSegment` for cell `(i, j)`: both ends strictly inside, or one of the
four sides (bottom, left, top, right — in this order) passes the straddle test -/
def cellHit (c1 c2 : α × α) (i j : Int) : Bool :=
  let fi : α := ((i : Int) : α)
  let fj : α := ((j : Int) : α)
  let fi1 : α := ((i + 1 : Int) : α)
  let fj1 : α := ((j + 1 : Int) : α)
  let segment2 : Seg α := ⟨c1.1, c1.2, c2.1, c2.2⟩
  if decide (fi < c1.1) && decide (c1.1 < fi1) && decide (fi < c2.1) && decide (c2.1 < fi1)
      && decide (fj < c1.2) && decide (c1.2 < fj1) && decide (fj < c2.2) && decide (c2.2 < fj1) then true
  else if isSegmentIntersects ⟨fi, fj, fi1, fj⟩ segment2 then true
  else if isSegmentIntersects ⟨fi, fj, fi, fj1⟩ segment2 then true
  else if isSegmentIntersects ⟨fi, fj1, fi1, fj1⟩ segment2 then true
  else if isSegmentIntersects ⟨fi1, fj, fi1, fj1⟩ segment2 then true
  else false

/-- `__cellsCrossSegment(coord1, coord2)` (arguments are fractional cell indices; `cs`, `ls` are `self.csize`,
`self.lsize`): the scanned index box is that of the two ends, with every bound clamped to the last column / row
(`min(floor, floor, csize - 1)` … `min(max(floor, floor), csize - 1)`): the upper border of the extent, where the
fractional index is `csize`, belongs to the last column -/
def cellsCross (fl : α → Int) (cs ls : Int) (c1 c2 : α × α) : List (Int × Int) :=
  let xmin := min (min (fl c1.1) (fl c2.1)) (cs - 1)
  let xmax := min (max (fl c1.1) (fl c2.1)) (cs - 1)
  let ymin := min (min (fl c1.2) (fl c2.2)) (ls - 1)
  let ymax := min (max (fl c1.2) (fl c2.2)) (ls - 1)
  (rangeI xmin (xmax + 1)).foldl (fun cells i =>
    (rangeI ymin (ymax + 1)).foldl (fun cells j =>
      if cellHit c1 c2 i j then addNew cells (i, j) else cells) cells) []

/-- the integer cell of a point with fractional indices `c`, as `request(coord)` and `neighborhood(coord)` compute
it: `(min(floor(c[0]), csize - 1), min(floor(c[1]), lsize - 1))` — a point on the upper border of the extent
belongs to the last column / row -/
def cellOf (fl : α → Int) (ix : Index α) (c : α × α) : Int × Int :=
  (min (fl c.1) (ix.csize - 1), min (fl c.2) (ix.lsize - 1))

/-- body of the loop of `__addSegment` for one cell -/
def registerCell (ix : Index α) (data : Nat) (cell : Int × Int) : Res (Index α) :=
  let i := cell.1
  let j := cell.2
  if i > ix.csize then .error .exit
  else if j > ix.lsize then .error .exit
  else
    match cellGet ix.grid i j with
    | .error e => .error e
    | .ok c =>
      if c.contains data then .ok ix
      else if ix.inv.contains (i, j, data) then .ok ix
      else
        match cellAppend ix.grid i j data with
        | .error e => .error e
        | .ok g => .ok { ix with grid := g, inv := ix.inv ++ [(i, j, data)] }

def registerCells (ix : Index α) (data : Nat) : List (Int × Int) → Res (Index α)
  | [] => .ok ix
  | cell :: rest =>
    match registerCell ix data cell with
    | .error e => .error e
    | .ok ix' => registerCells ix' data rest

/-- `__addSegment(coord1, coord2, data)` -/
def addSegment (fl : α → Int) (ix : Index α) (p1 p2 : α × α) (data : Nat) : Res (Index α) :=
  registerCells ix data (cellsCross fl ix.csize ix.lsize p1 p2)

/-- loop of `addFeature(track, num)`; `coord1` is the loop-carried variable. An out-of-extent vertex
`continue`s *without* updating `coord1`. -/
def addFeatureLoop (fl : α → Int) (num : Nat) : Index α → Option (α × α) → List (α × α) → Res (Index α)
  | ix, _, [] => .ok ix
  | ix, none, c2 :: rest => addFeatureLoop fl num ix (some c2) rest
  | ix, some c1, c2 :: rest =>
    match getCellR ix c1 with
    | .error e => .error e
    | .ok o1 =>
      match getCellR ix c2 with
      | .error e => .error e
      | .ok o2 =>
        match o1, o2 with
        | some p1, some p2 =>
          match addSegment fl ix p1 p2 num with
          | .error e => .error e
          | .ok ix' => addFeatureLoop fl num ix' (some c2) rest
        | _, _ => addFeatureLoop fl num ix (some c1) rest

def addFeature (fl : α → Int) (ix : Index α) (track : List (α × α)) (num : Nat) : Res (Index α) :=
  addFeatureLoop fl num ix none track

/-- registration loop of `__init__`: feature `num` is `collection[num]` -/
def addFeatures (fl : α → Int) : Index α → Nat → List (List (α × α)) → Res (Index α)
  | ix, _, [] => .ok ix
  | ix, num, t :: rest =>
    match addFeature fl ix t num with
    | .error e => .error e
    | .ok ix' => addFeatures fl ix' (num + 1) rest

/-- `SpatialIndex(collection, resolution, margin)`; an empty collection has no bbox (`getTrack(0)` raises) -/
def build (fl : α → Int) (feats : List (List (α × α))) (res : Option (α × α)) (margin : α) : Res (Index α) :=
  match bboxOf feats.flatten with
  | none => .error .index
  | some bb =>
    match mkIndex fl bb res margin with
    | .error e => .error e
    | .ok ix => addFeatures fl ix 0 feats

/-- `TrackCollection.createSpatialIndex(resolution, verbose)` calls `SpatialIndex(self, resolution, verbose)`: the
third positional parameter of the constructor is `margin`, so the flag is used as the margin — `True` is `1` (an
extent three times the bounding box), `False` is `0` (the extent is the bounding box) — and the constructor's own
`verbose` keeps its default. (`Network.createSpatialIndex(resolution, margin, verbose)` passes its three arguments in
order: it is `build`.) -/
def createIndexTC (fl : α → Int) (feats : List (List (α × α))) (res : Option (α × α)) (verbose : Bool) : Res (Index α) :=
  build fl feats res (if verbose then ((1 : Int) : α) else ((0 : Int) : α))

/-- the default value `margin=0.05` of `SpatialIndex.__init__` and of `Network.createSpatialIndex` (`1 / 20`: on `Float`
the correctly rounded quotient is the double that the literal `0.05` denotes) -/
def defaultMargin : α := ((1 : Int) : α) / ((20 : Int) : α)

/-- argument handling of the front ends that take a margin: `SpatialIndex(collection, resolution=None, margin=0.05,
verbose=True)` and `Network.createSpatialIndex(resolution=None, margin=0.05, verbose=True)` (which passes its three
arguments on in order). `margin = none` is a call that leaves the margin out; a left-out `resolution` is `None`, i.e.
`res = none`, which `reqSide` handles. -/
def createIndexArgs (fl : α → Int) (feats : List (List (α × α))) (res : Option (α × α)) (margin : Option α) : Res (Index α) :=
  build fl feats res (match margin with | some m => m | none => defaultMargin)

/-- `Network.addEdge(edge, source, target)` called for each of `tracks` on a network of `n` edges that has a spatial
index: the edge is appended and `self.spatial_index.addFeature(edge.geom, self.getNumberOfEdges() - 1)` registers it
under its running number `n`, `n + 1`, … (the same loop as the constructor's registration loop, started at `n`). -/
def networkAddEdges (fl : α → Int) (ix : Index α) (n : Nat) (tracks : List (List (α × α))) : Res (Index α) :=
  addFeatures fl ix n tracks

/-- `request(i, j)` -/
def requestCell (ix : Index α) (i j : Int) : Res (List Nat) := cellGet ix.grid i j

/-- `request(coord)`: `c[0]` on `None` is a TypeError -/
def requestPoint (fl : α → Int) (ix : Index α) (p : α × α) : Res (List Nat) :=
  match getCellR ix p with
  | .error e => .error e
  | .ok none => .error .type
  | .ok (some c) => requestCell ix (cellOf fl ix c).1 (cellOf fl ix c).2

/-- `for cell in CELLS: self.__addCellValuesInTAB(TAB, cell)` -/
def collectCells (ix : Index α) : List Nat → List (Int × Int) → Res (List Nat)
  | tab, [] => .ok tab
  | tab, cell :: rest =>
    match requestCell ix cell.1 cell.2 with
    | .error e => .error e
    | .ok values => collectCells ix (addAll tab values) rest

/-- `request([coord1, coord2])` with an accumulator (`TAB = []` for the segment form) -/
def requestSegInto (fl : α → Int) (ix : Index α) (tab : List Nat) (a b : α × α) : Res (List Nat) :=
  match getCellR ix a with
  | .error e => .error e
  | .ok o1 =>
    match getCellR ix b with
    | .error e => .error e
    | .ok o2 =>
      match o1, o2 with
      | some p1, some p2 => collectCells ix tab (cellsCross fl ix.csize ix.lsize p1 p2)
      | _, _ => .error .type

def requestSeg (fl : α → Int) (ix : Index α) (a b : α × α) : Res (List Nat) :=
  requestSegInto fl ix [] a b

/-- `request(track)`: here `pos1 = pos2` is always executed -/
def requestTrackLoop (fl : α → Int) (ix : Index α) : List Nat → Option (α × α) → List (α × α) → Res (List Nat)
  | tab, _, [] => .ok tab
  | tab, none, p2 :: rest => requestTrackLoop fl ix tab (some p2) rest
  | tab, some p1, p2 :: rest =>
    match requestSegInto fl ix tab p1 p2 with
    | .error e => .error e
    | .ok tab' => requestTrackLoop fl ix tab' (some p2) rest

def requestTrack (fl : α → Int) (ix : Index α) (track : List (α × α)) : Res (List Nat) :=
  requestTrackLoop fl ix [] none track

/-- `__neighboringcells(i, j, u, incremental)` -/
def neighboringCells (ix : Index α) (i j u : Int) (incremental : Bool) : List (Int × Int) :=
  let imin := max (i - u) 0
  let imax := min (i + u + 1) ix.csize
  let jmin := max (j - u) 0
  let jmax := min (j + u + 1) ix.lsize
  (rangeI imin imax).flatMap (fun ii =>
    (rangeI jmin jmax).filterMap (fun jj =>
      if incremental && (ii != imin && ii != imax - 1) && (jj != jmin && jj != jmax - 1) then none
      else some (ii, jj)))

/-- incremental search of `neighborhood(i, j, unit=-1)`; `fuel` bounds the `while` (it runs at most
`max(csize, lsize) + 1` times) -/
def searchCellLoop (ix : Index α) (i j : Int) : Nat → Int → List Nat → Bool → Res (List Nat)
  | 0, _, tab, _ => .ok tab
  | fuel + 1, u, tab, found =>
    if u ≤ max ix.csize ix.lsize then
      match collectCells ix tab (neighboringCells ix i j u true) with
      | .error e => .error e
      | .ok tab' =>
        if found then .ok tab'
        else searchCellLoop ix i j fuel (u + 1) tab' (decide (tab'.length > 0))
    else .ok tab

/-- `neighborhood(i, j, unit)` -/
def neighborhoodCell (ix : Index α) (i j unit : Int) : Res (List Nat) :=
  if unit != -1 then collectCells ix [] (neighboringCells ix i j unit false)
  else searchCellLoop ix i j ((max ix.csize ix.lsize).toNat + 2) 0 [] false

/-- `neighborhood(coord, unit=…)`: `None` outside the extent -/
def neighborhoodPoint (fl : α → Int) (ix : Index α) (p : α × α) (unit : Int) : Res (Option (List Nat)) :=
  match getCellR ix p with
  | .error e => .error e
  | .ok none => .ok none
  | .ok (some c) =>
    match neighborhoodCell ix (cellOf fl ix c).1 (cellOf fl ix c).2 unit with
    | .error e => .error e
    | .ok l => .ok (some l)

/-- `for cell in CELLS: for cellu in NC(cell, u): addCellValuesInTAB(TAB, cellu)` -/
def collectAround (ix : Index α) (u : Int) : List Nat → List (Int × Int) → Res (List Nat)
  | tab, [] => .ok tab
  | tab, cell :: rest =>
    match collectCells ix tab (neighboringCells ix cell.1 cell.2 u false) with
    | .error e => .error e
    | .ok tab' => collectAround ix u tab' rest

def searchSegLoop (ix : Index α) (cells : List (Int × Int)) : Nat → Int → Res (Option (List Nat))
  | 0, _ => .ok none
  | fuel + 1, u =>
    if u ≤ max ix.csize ix.lsize then
      match collectAround ix u [] cells with
      | .error e => .error e
      | .ok tab =>
        if tab.length ≤ 0 then searchSegLoop ix cells fuel (u + 1)
        else
          match collectAround ix (u + 1) tab cells with
          | .error e => .error e
          | .ok tab' => .ok (some tab')
    else .ok none

/-- `neighborhood([coord1, coord2], None, unit)`; `None` when the `unit = -1` search finds nothing -/
def neighborhoodSeg (fl : α → Int) (ix : Index α) (a b : α × α) (unit : Int) : Res (Option (List Nat)) :=
  match getCellR ix a with
  | .error e => .error e
  | .ok o1 =>
    match getCellR ix b with
    | .error e => .error e
    | .ok o2 =>
      match o1, o2 with
      | some p1, some p2 =>
        let cells := cellsCross fl ix.csize ix.lsize p1 p2
        if unit > -1 then
          match collectAround ix unit [] cells with
          | .error e => .error e
          | .ok tab => .ok (some tab)
        else searchSegLoop ix cells ((max ix.csize ix.lsize).toNat + 2) 0
      | _, _ => .error .type

/-- `neighborhood(track, None, unit)` -/
def neighborhoodTrackLoop (fl : α → Int) (ix : Index α) (unit : Int) :
    List Nat → Option (α × α) → List (α × α) → Res (List Nat)
  | tab, _, [] => .ok tab
  | tab, none, p2 :: rest => neighborhoodTrackLoop fl ix unit tab (some p2) rest
  | tab, some p1, p2 :: rest =>
    match neighborhoodSeg fl ix p1 p2 unit with
    | .error e => .error e
    | .ok none => .error .type          -- `for cell in None`
    | .ok (some cells) => neighborhoodTrackLoop fl ix unit (addAll tab cells) (some p2) rest

def neighborhoodTrack (fl : α → Int) (ix : Index α) (track : List (α × α)) (unit : Int) : Res (List Nat) :=
  neighborhoodTrackLoop fl ix unit [] none track

/-- `groundDistanceToUnits(distance)` (after ad7c5ee: the smaller cell side); ZeroDivisionError when that side
is `0` -/
def groundDistanceToUnits (fl : α → Int) (ix : Index α) (distance : α) : Res Int :=
  if isZero (pyMin ix.dX ix.dY) then .error .zerodiv
  else .ok (fl (distance / pyMin ix.dX ix.dY + ((1 : Int) : α)))

end scalar
end TV.Grid
