import TracklibVerif.Model.Cinematics
import TracklibVerif.Model.Geo
/-! Model of the curvilinear-abscissa and speed features **per coordinate class** (C17).

`Model/Cinematics.lean` fixes the distance to `ENUCoords.distance2DTo`. The features are computed by the same Python on
tracks whose positions are `GeoCoords` (longitude / latitude in degrees, straight from a GPX file) or `ECEFCoords`; which
distance the features then use is decided by a chain of dispatches that this file mirrors, as the code is now:

* `core/obs.py` `Obs.distance2DTo(obs)`         : `__check_call_geom1` REFUSES when either position is an `ECEFCoords`
                                                  (`raise CoordTypeError(...)`; obs.py does not import that name, so on this
                                                  tree the refusal surfaces as a `NameError`), else `self.position.distance2DTo(obs.position)`
* `core/obs_coords.py` `ENUCoords.distance2DTo` : `(point - self).norm2D()` = `sqrt(dE*dE + dN*dN)`     (`Cinematics.dist2D`)
* `core/obs_coords.py` `GeoCoords.distance2DTo` : `self.toENUCoords(point).norm2D()` — the East/North part of `self` in the
                                                  local tangent frame AT `point` (`Geo.geoToEnu`: both to ECEF, the base
                                                  back to geodetic angles, rotation), `norm2D` = `sqrt(E ** 2 + N ** 2)`
* `core/obs_coords.py` `ECEFCoords`             : has NO `distance2DTo` → `AttributeError`
* `algo/analytics.py` `ds(track, i)`            : `getObs(i).distance2DTo(getObs(i-1))` — through `Obs.distance2DTo`
* `algo/analytics.py` `speed(track, i)`         : `getObs(a).position.distance2DTo(getObs(b).position)` — NOT through `Obs`
* `algo/cinematics.py` `computeCurvAbsBetweenTwoPoints` : `track[i].position.distance2DTo(track[i+1].position)` — NOT through `Obs`
* `core/track.py` `addAnalyticalFeature`        : `createAnalyticalFeature(name)` (a column of `0.0`) BEFORE the loop; an
                                                  exception other than `IndexError` leaves the loop with the values written so
                                                  far and the rest of the column as it was
* `algo/cinematics.py` `computeAbsCurv` / `estimate_speed` : as in `Model/Cinematics.lean`, with the exception paths.

A track here is a coordinate class, the list of third coordinates (`U` / `hgt` / `Z`; only the Geo distance reads them)
and a `Cinematics.Track` whose `xy` are the first two coordinates (`E,N` / `lon,lat` / `X,Y` — the `getX()/getY()`
aliases), so that the feature table operations of `Model/Cinematics.lean` are reused as they are. Core Lean only. -/
namespace TV.CinCoords
open TV.Cinematics
open TV.Geo (Trig V3 geoToEnu)

/-- the class of the position objects of a track -/
inductive Cls
  | enu | geo | ecef
  deriving DecidableEq, Repr

/-- the exceptions of the geometry: `refused` = the `raise CoordTypeError` of `Obs.__check_call_geom1`;
`attr` = `AttributeError: 'ECEFCoords' object has no attribute 'distance2DTo'`; `index` = an `IndexError` outside
`addAnalyticalFeature` (unreachable when the three coordinate lists have one length) -/
inductive GErr
  | refused | attr | index
  deriving DecidableEq, Repr

section dist
variable {α : Type} [Add α] [Sub α] [Mul α] [Div α] [Neg α] [OfScientific α] [OfNat α 0]
variable (T : Trig α)

/-- `ENUCoords.norm2D` as the Geo path evaluates it: `math.sqrt(self.E ** 2 + self.N ** 2)` -/
def norm2DP (v : V3 α) : α := T.sqrt (T.pow v.x 2.0 + T.pow v.y 2.0)

/-- `GeoCoords.distance2DTo(point)` = `self.toENUCoords(point).norm2D()` -/
def geoDist2D (self point : V3 α) : α := norm2DP T (geoToEnu T self (.geo point))

/-- `ENUCoords.distance2DTo(point)` = `(point - self).norm2D()`, the distance of `Model/Cinematics.lean` -/
def enuDist2D (self point : V3 α) : α := dist2D T.sqrt (self.x, self.y) (point.x, point.y)

/-- the planimetric distance the class of the positions defines (`ECEFCoords` defines none: the value is not used) -/
def dist2C (c : Cls) (self point : V3 α) : α :=
  match c with
  | .enu => enuDist2D T self point
  | .geo => geoDist2D T self point
  | .ecef => 0

/-- `self.position.distance2DTo(point.position)`, dispatched on the class of the position objects -/
def posDist2D (c : Cls) (self point : V3 α) : Except GErr α :=
  match c with
  | .ecef => .error .attr
  | _ => .ok (dist2C T c self point)

/-- `Obs.distance2DTo(obs)`: refused for ECEF positions before any dispatch -/
def obsDist2D (c : Cls) (self point : V3 α) : Except GErr α :=
  match c with
  | .ecef => .error .refused
  | _ => posDist2D T c self point

end dist

/-- a track of one coordinate class -/
structure CTrack (α : Type) where
  cls : Cls
  /-- third coordinates (`U` / `hgt` / `Z`) -/
  zs : List α
  /-- first two coordinates, `toAbsTime()` values, feature table -/
  tr : Track α

variable {α : Type}

/-- the position of fix `i`; `none` = Python's `IndexError` -/
def CTrack.pt (t : CTrack α) (i : Nat) : Option (V3 α) :=
  match t.tr.xy[i]?, t.zs[i]? with
  | some p, some z => some ⟨p.1, p.2, z⟩
  | _, _ => none

/-- the loop of `addAnalyticalFeature`: `for i in …: value = algorithm(self, i); features[idAF] = value` as the list of
the values written, in order; an exception ends the loop (the `IndexError → NAN` rule is inside `alg`) -/
def afVals (alg : Nat → Except GErr (Option α)) : List Nat → Except GErr Unit × Col α
  | [] => (.ok (), [])
  | i :: is =>
    match alg i with
    | .error e => (.error e, [])
    | .ok v => let r := afVals alg is; (r.1, v :: r.2)

section progs
variable [Add α] [Sub α] [Mul α] [Div α] [Neg α] [OfScientific α] [OfNat α 0] [BEq α]
variable (T : Trig α)

/-- `Track.addAnalyticalFeature(algorithm, name)` with the exception path: the column is created (all `0.0`) unless the
name exists, the first `k` entries are overwritten by the values computed before the exception (all of them when there is
none), the others keep what they held -/
def addAFC (alg : Nat → Except GErr (Option α)) (name : String) (t : Track α) : Except GErr (Col α) × Track α :=
  let n := t.xy.length
  let t1 := if t.has name then t else t.set name (List.replicate n (some 0))
  let col0 := (t1.get name).getD []
  let r := afVals alg (List.range n)
  let col := r.2 ++ col0.drop r.2.length
  (r.1.map (fun _ => col), t1.set name col)

/-- `analytics.ds(track, i)` -/
def dsAlgC (t : CTrack α) (i : Nat) : Except GErr (Option α) :=
  if i = 0 then .ok (some 0)
  else match t.pt i, t.pt (i - 1) with
    | some p, some q => (obsDist2D T t.cls p q).map some
    | _, _ => .ok none

/-- speed from the later fix `a` and the earlier fix `b` (the distance is evaluated before the time difference) -/
def speedBetweenC (t : CTrack α) (a b : Nat) : Except GErr (Option α) :=
  match t.pt a, t.pt b with
  | some pa, some pb =>
    match posDist2D T t.cls pa pb with
    | .error e => .error e
    | .ok d =>
      match t.tr.ts[a]?, t.tr.ts[b]? with
      | some ta, some tb => .ok (quot d (ta - tb))
      | _, _ => .ok none
  | _, _ => .ok none

/-- `analytics.speed(track, i)` -/
def speedAlgC (t : CTrack α) (i : Nat) : Except GErr (Option α) :=
  let n := t.tr.xy.length
  if i = 0 then speedBetweenC T t 1 0
  else if i = n - 1 then speedBetweenC T t (n - 1) (n - 2)
  else speedBetweenC T t (i + 1) (i - 1)

/-- `cinematics.computeAbsCurv(track)`: the outcome (returned column or exception) and the track afterwards -/
def computeAbsCurvC (t : CTrack α) : Except GErr (Option (Col α)) × CTrack α :=
  let r1 : Except GErr Unit × Track α :=
    if t.tr.has "ds" then (.ok (), t.tr)
    else let r := addAFC (dsAlgC T t) "ds" t.tr; (r.1.map (fun _ => ()), r.2)
  match r1.1 with
  | .error e => (.error e, { t with tr := r1.2 })
  | .ok _ =>
    let t2 := if r1.2.has "abs_curv" then r1.2
              else r1.2.set "abs_curv" (integrator ((r1.2.get "ds").getD []))
    let t3 := t2.remove "ds"
    (.ok (t3.get "abs_curv"), { t with tr := t3 })

/-- `cinematics.estimate_speed(track)` -/
def estimateSpeedC (t : CTrack α) : Except GErr (Option (Col α)) × CTrack α :=
  if t.tr.has "speed" then (.ok (t.tr.get "speed"), t)
  else
    let r := addAFC (speedAlgC T t) "speed" t.tr
    (r.1.map some, { t with tr := r.2 })

/-- `track.addAnalyticalFeature(ds, "ds")` called directly -/
def dsFeatureC (t : CTrack α) : Except GErr (Option (Col α)) × CTrack α :=
  let r := addAFC (dsAlgC T t) "ds" t.tr
  (r.1.map some, { t with tr := r.2 })

/-- the loop of `computeCurvAbsBetweenTwoPoints`: `s = s + track[i].position.distance2DTo(track[i+1].position)` -/
def curvLoopC (t : CTrack α) : List Nat → α → Except GErr α
  | [], s => .ok s
  | i :: is, s =>
    match t.pt i, t.pt (i + 1) with
    | some p, some q =>
      match posDist2D T t.cls p q with
      | .error e => .error e
      | .ok d => curvLoopC t is (s + d)
    | _, _ => .error .index

/-- `cinematics.computeCurvAbsBetweenTwoPoints(track)` (all fixes) -/
def curvAbsC (t : CTrack α) : Except GErr α := curvLoopC T t (List.range (t.tr.xy.length - 1)) 0

/-- `track[i].distance2DTo(track[j])` (an `Obs` method) -/
def obsDistC (t : CTrack α) (i j : Nat) : Option (Except GErr α) :=
  match t.pt i, t.pt j with
  | some p, some q => some (obsDist2D T t.cls p q)
  | _, _ => none

/-! ### specification-side definitions -/

/-- cumulated planimetric length of the first `i` legs, each leg being the distance the class defines from fix `i+1`
to fix `i` (for Geo: in the tangent frame at fix `i`) -/
def abscC (t : CTrack α) : Nat → α
  | 0 => 0
  | i + 1 => abscC t i + (match t.pt (i + 1), t.pt i with
      | some p, some q => dist2C T t.cls p q
      | _, _ => 0)

end progs
end TV.CinCoords
