import TracklibVerif.Model.Geo
/-! Number types of the coordinates (`GeoCoords(2, 48, 120)`, numpy integers, `fractions.Fraction`).

The coordinate attributes of `GeoCoords / ENUCoords / ECEFCoords` hold whatever number the caller passed; the
constructors and setters never convert. What the formulas of obs_coords.py then compute is decided by Python's
arithmetic on mixed operands:

* `int` (`bool` is an `int`, a `numpy.int64` behaves alike while nothing overflows) and `fractions.Fraction` are *exact*:
  `+ - *` and unary minus between two of them are exact rational arithmetic (`X * X + Y * Y`, `self.X - base.X`);
* as soon as one operand is a `float` the other one is converted (`float(x)`) and the operation is the float one;
* `/` between two ints is the float division (between two Fractions it would be exact: no formula of the model divides
  two numbers that can both be non-floats — every denominator is a float literal, a `math` result or a float constant);
* every `math` function converts its argument and returns a float; a literal with a decimal point is a float.

`Num F` is that tower over a float type `F` (driver: `Float`, theorems: `ℝ`), `trig` lifts the libm parameters, and the
*same polymorphic definitions* of `Model/Geo.lean` instantiated at `α := Num F` are the conversions on coordinates of any
of these types. `TV.C14.number_types_irrelevant` proves that over exact arithmetic they return what the float-only
model returns on `float(v)` — the step the harness takes when it hands `float(v)` to the driver for a case with `ty`. -/
namespace TV.GeoNum
open TV.Geo

/-- `float(q)` for an exact number -/
class OfRat (F : Type) where
  ofRat : Rat → F

/-- a Python number: exact (`int`, `bool`, numpy integer, `Fraction`) or `float` -/
inductive Num (F : Type) where
  | exact (q : Rat)
  | flt (f : F)

variable {F : Type} [OfRat F]

/-- `float(x)` -/
def Num.toF : Num F → F
  | .exact q => OfRat.ofRat q
  | .flt f => f

section
variable [Add F] [Sub F] [Mul F] [Div F] [Neg F] [OfScientific F]

def Num.add : Num F → Num F → Num F
  | .exact p, .exact q => .exact (p + q)
  | a, b => .flt (a.toF + b.toF)

def Num.sub : Num F → Num F → Num F
  | .exact p, .exact q => .exact (p - q)
  | a, b => .flt (a.toF - b.toF)

def Num.mul : Num F → Num F → Num F
  | .exact p, .exact q => .exact (p * q)
  | a, b => .flt (a.toF * b.toF)

/-- true division: a float whenever an operand is a float, and between two ints -/
def Num.div (a b : Num F) : Num F := .flt (a.toF / b.toF)

def Num.neg : Num F → Num F
  | .exact p => .exact (-p)
  | .flt f => .flt (-f)

instance : Add (Num F) := ⟨Num.add⟩
instance : Sub (Num F) := ⟨Num.sub⟩
instance : Mul (Num F) := ⟨Num.mul⟩
instance : Div (Num F) := ⟨Num.div⟩
instance : Neg (Num F) := ⟨Num.neg⟩
/-- a literal written with a decimal point (all literals of the model) is a float -/
instance : OfScientific (Num F) := ⟨fun m s e => .flt (OfScientific.ofScientific m s e)⟩

/-- the `math` module on any number: convert, compute, return a float -/
def trig (T : Trig F) : Trig (Num F) where
  pi := .flt T.pi
  sin x := .flt (T.sin x.toF)
  cos x := .flt (T.cos x.toF)
  tan x := .flt (T.tan x.toF)
  atan x := .flt (T.atan x.toF)
  atan2 y x := .flt (T.atan2 y.toF x.toF)
  sqrt x := .flt (T.sqrt x.toF)
  log x := .flt (T.log x.toF)
  exp x := .flt (T.exp x.toF)
  pow x y := .flt (T.pow x.toF y.toF)

/-- the float values of the three coordinates -/
def v3F (v : V3 (Num F)) : V3 F := ⟨v.x.toF, v.y.toF, v.z.toF⟩

def baseF : Base (Num F) → Base F
  | .geo c => .geo (v3F c)
  | .ecef c => .ecef (v3F c)

end

/-- `float(q)` in doubles (the driver's instance; exact for |numerator|, denominator < 2^53) -/
instance : OfRat Float := ⟨fun q => Float.ofInt q.num / Float.ofNat q.den⟩

end TV.GeoNum
