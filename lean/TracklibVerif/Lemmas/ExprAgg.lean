import TracklibVerif.Lemmas.Expr
/-! `Min` / `Max` as coded (a fold from `+inf` / `-inf` with a strict comparison; fix 68863c7, the start values used to
be `±1e300`) against the documented `min(x)` / `max(x)`: under the order laws of `lt` that the folds need — strict,
transitive, `+inf` above and `-inf` below every number, NaN comparing false — the result is the extremum of the
non-NaN values at every magnitude: a non-NaN value of the vector with nothing beyond it. On an empty or all-NaN
vector the start value comes back. -/
namespace TV.Expr
open Scalar
variable {α : Type} [Scalar α]

/-- what the folds of `Min` / `Max` use of the comparison: irreflexive and transitive -/
structure OrdLaws (α : Type) [Scalar α] : Prop where
  irrefl : ∀ a : α, lt a a = false
  trans : ∀ a b c : α, lt a b = true → lt b c = true → lt a c = true

theorem foldMin_spec (L : OrdLaws α) (c : List α) : ∀ (m0 : α),
    (∀ v ∈ c, lt v (c.foldl (fun m v => if lt v m then v else m) m0) = false) ∧
    (c.foldl (fun m v => if lt v m then v else m) m0 = m0 ∨
      (c.foldl (fun m v => if lt v m then v else m) m0 ∈ c ∧ lt (c.foldl (fun m v => if lt v m then v else m) m0) m0 = true)) := by
  induction c with
  | nil => intro m0; exact ⟨by simp, Or.inl rfl⟩
  | cons w ws ih =>
    intro m0
    simp only [List.foldl_cons]
    by_cases hw : lt w m0 = true
    · simp only [hw, if_true]
      obtain ⟨h2, h3⟩ := ih w
      generalize ws.foldl (fun m v => if lt v m then v else m) w = m at h2 h3
      refine ⟨?_, ?_⟩
      · intro v hv
        rcases List.mem_cons.mp hv with rfl | hv
        · rcases h3 with h3 | ⟨_, h3⟩
          · rw [h3]; exact L.irrefl v
          · cases hvm : lt v m with
            | false => rfl
            | true => have := L.trans v m v hvm h3; rw [L.irrefl v] at this; cases this
        · exact h2 v hv
      · rcases h3 with h3 | ⟨h3, h4⟩
        · exact Or.inr ⟨by rw [h3]; simp, by rw [h3]; exact hw⟩
        · exact Or.inr ⟨List.mem_cons_of_mem _ h3, L.trans m w m0 h4 hw⟩
    · have hw' : lt w m0 = false := by simpa using hw
      simp only [hw', Bool.false_eq_true, if_false]
      obtain ⟨h2, h3⟩ := ih m0
      generalize ws.foldl (fun m v => if lt v m then v else m) m0 = m at h2 h3
      refine ⟨?_, ?_⟩
      · intro v hv
        rcases List.mem_cons.mp hv with rfl | hv
        · rcases h3 with h3 | ⟨_, h3⟩
          · rw [h3]; exact hw'
          · cases hvm : lt v m with
            | false => rfl
            | true => have := L.trans v m m0 hvm h3; rw [hw'] at this; cases this
        · exact h2 v hv
      · rcases h3 with h3 | ⟨h3, h4⟩
        · exact Or.inl h3
        · exact Or.inr ⟨List.mem_cons_of_mem _ h3, h4⟩

theorem foldMax_spec (L : OrdLaws α) (c : List α) : ∀ (m0 : α),
    (∀ v ∈ c, lt (c.foldl (fun m v => if lt m v then v else m) m0) v = false) ∧
    (c.foldl (fun m v => if lt m v then v else m) m0 = m0 ∨
      (c.foldl (fun m v => if lt m v then v else m) m0 ∈ c ∧ lt m0 (c.foldl (fun m v => if lt m v then v else m) m0) = true)) := by
  induction c with
  | nil => intro m0; exact ⟨by simp, Or.inl rfl⟩
  | cons w ws ih =>
    intro m0
    simp only [List.foldl_cons]
    by_cases hw : lt m0 w = true
    · simp only [hw, if_true]
      obtain ⟨h2, h3⟩ := ih w
      generalize ws.foldl (fun m v => if lt m v then v else m) w = m at h2 h3
      refine ⟨?_, ?_⟩
      · intro v hv
        rcases List.mem_cons.mp hv with rfl | hv
        · rcases h3 with h3 | ⟨_, h3⟩
          · rw [h3]; exact L.irrefl v
          · cases hvm : lt m v with
            | false => rfl
            | true => have := L.trans v m v h3 hvm; rw [L.irrefl v] at this; cases this
        · exact h2 v hv
      · rcases h3 with h3 | ⟨h3, h4⟩
        · exact Or.inr ⟨by rw [h3]; simp, by rw [h3]; exact hw⟩
        · exact Or.inr ⟨List.mem_cons_of_mem _ h3, L.trans m0 w m hw h4⟩
    · have hw' : lt m0 w = false := by simpa using hw
      simp only [hw', Bool.false_eq_true, if_false]
      obtain ⟨h2, h3⟩ := ih m0
      generalize ws.foldl (fun m v => if lt m v then v else m) m0 = m at h2 h3
      refine ⟨?_, ?_⟩
      · intro v hv
        rcases List.mem_cons.mp hv with rfl | hv
        · rcases h3 with h3 | ⟨_, h3⟩
          · rw [h3]; exact hw'
          · cases hvm : lt m v with
            | false => rfl
            | true => have := L.trans m0 m v h3 hvm; rw [hw'] at this; cases this
        · exact h2 v hv
      · rcases h3 with h3 | ⟨h3, h4⟩
        · exact Or.inl h3
        · exact Or.inr ⟨List.mem_cons_of_mem _ h3, h4⟩

/-- `+inf` is above and `-inf` below every number; NaN compares false (IEEE), the infinities are numbers -/
structure TopLaws (α : Type) [Scalar α] : Prop where
  top : ∀ a : α, isNaN a = false → lt a inf = true ∨ a = inf
  bot : ∀ a : α, isNaN a = false → lt (neg inf) a = true ∨ a = neg inf
  nan_lt : ∀ a b : α, isNaN a = true → lt a b = false
  lt_nan : ∀ a b : α, isNaN b = true → lt a b = false
  inf_num : isNaN (inf : α) = false
  ninf_num : isNaN (neg inf : α) = false

/-- **`MIN` as coded**: no value is below the result; the result is `+inf` (the start value) or a value of the
    vector below it -/
theorem minL_spec (L : OrdLaws α) (c : List α) :
    (∀ v ∈ c, lt v (minL c) = false) ∧ (minL c = inf ∨ (minL c ∈ c ∧ lt (minL c) inf = true)) :=
  foldMin_spec L c inf

theorem maxL_spec (L : OrdLaws α) (c : List α) :
    (∀ v ∈ c, lt (maxL c) v = false) ∧ (maxL c = neg inf ∨ (maxL c ∈ c ∧ lt (neg inf) (maxL c) = true)) :=
  foldMax_spec L c (neg inf)

/-- as soon as the vector holds one number (a non-NaN value, of any magnitude, the infinities included), `MIN` is
    the minimum of its numbers: a non-NaN value of the vector, and nothing is below it -/
theorem minL_is_minimum (L : OrdLaws α) (T : TopLaws α) (c : List α) (w : α) (hw : w ∈ c) (hn : isNaN w = false) :
    minL c ∈ c ∧ isNaN (minL c) = false ∧ ∀ v ∈ c, lt v (minL c) = false := by
  obtain ⟨h1, h2⟩ := minL_spec L c
  rcases h2 with h2 | ⟨h2, h3⟩
  · rcases T.top w hn with ht | ht
    · have := h1 w hw; rw [h2, ht] at this; cases this
    · refine ⟨by rw [h2, ← ht]; exact hw, by rw [h2]; exact T.inf_num, h1⟩
  · refine ⟨h2, ?_, h1⟩
    cases hnan : isNaN (minL c) with
    | false => rfl
    | true => rw [T.nan_lt _ _ hnan] at h3; cases h3

theorem maxL_is_maximum (L : OrdLaws α) (T : TopLaws α) (c : List α) (w : α) (hw : w ∈ c) (hn : isNaN w = false) :
    maxL c ∈ c ∧ isNaN (maxL c) = false ∧ ∀ v ∈ c, lt (maxL c) v = false := by
  obtain ⟨h1, h2⟩ := maxL_spec L c
  rcases h2 with h2 | ⟨h2, h3⟩
  · rcases T.bot w hn with ht | ht
    · have := h1 w hw; rw [h2, ht] at this; cases this
    · refine ⟨by rw [h2, ← ht]; exact hw, by rw [h2]; exact T.ninf_num, h1⟩
  · refine ⟨h2, ?_, h1⟩
    cases hnan : isNaN (maxL c) with
    | false => rfl
    | true => rw [T.lt_nan _ _ hnan] at h3; cases h3

/-- on an empty or all-NaN vector the start values come back: `MIN = +inf`, `MAX = -inf` -/
theorem minmax_of_no_number (L : OrdLaws α) (T : TopLaws α) (c : List α) (h : ∀ v ∈ c, isNaN v = true) :
    minL c = inf ∧ maxL c = neg inf := by
  constructor
  · rcases (minL_spec L c).2 with h2 | ⟨h2, h3⟩
    · exact h2
    · rw [T.nan_lt _ _ (h _ h2)] at h3; cases h3
  · rcases (maxL_spec L c).2 with h2 | ⟨h2, h3⟩
    · exact h2
    · rw [T.lt_nan _ _ (h _ h2)] at h3; cases h3

end TV.Expr
