import TracklibVerif.Lemmas.Expr
/-! `Min` / `Max` as coded (a fold from the sentinels `+1e300` / `-1e300` with a strict comparison) against the
documented `min(x)` / `max(x)`: under the two order laws of `lt` that the folds need, the result is a bound of every
value and is attained — by a value of the vector that is beyond the sentinel, or by the sentinel itself. So `MIN` is
the minimum of the values exactly when one of them is below `1e300`; otherwise it is `1e300` (finding class
`extremum-beyond-sentinel`). NaN compares false with everything, so it is never selected and the bounds hold
for it vacuously. -/
namespace TV.Expr
open Scalar
variable {α : Type} [Scalar α]

/-- what the folds of `Min` / `Max` use of the comparison: irreflexive and transitive -/
structure OrdLaws (α : Type) [Scalar α] : Prop where
  irrefl : ∀ a : α, lt a a = false
  trans : ∀ a b c : α, lt a b = true → lt b c = true → lt a c = true

theorem foldMin_spec (L : OrdLaws α) (c : List α) : ∀ (m0 : α),
    (∀ v ∈ c, lt v (c.foldl (fun m v => if lt v m then v else m) m0) = false) ∧
    (c.foldl (fun m v => if lt v m then v else m) m0 = m0 ∨
      (c.foldl (fun m v => if lt v m then v else m) m0 ∈ c ∧ lt (c.foldl (fun m v => if lt v m then v else m) m0) m0 = true)) := by
  induction c with
  | nil => intro m0; exact ⟨by simp, Or.inl rfl⟩
  | cons w ws ih =>
    intro m0
    simp only [List.foldl_cons]
    by_cases hw : lt w m0 = true
    · simp only [hw, if_true]
      obtain ⟨h2, h3⟩ := ih w
      generalize ws.foldl (fun m v => if lt v m then v else m) w = m at h2 h3
      refine ⟨?_, ?_⟩
      · intro v hv
        rcases List.mem_cons.mp hv with rfl | hv
        · rcases h3 with h3 | ⟨_, h3⟩
          · rw [h3]; exact L.irrefl v
          · cases hvm : lt v m with
            | false => rfl
            | true => have := L.trans v m v hvm h3; rw [L.irrefl v] at this; cases this
        · exact h2 v hv
      · rcases h3 with h3 | ⟨h3, h4⟩
        · exact Or.inr ⟨by rw [h3]; simp, by rw [h3]; exact hw⟩
        · exact Or.inr ⟨List.mem_cons_of_mem _ h3, L.trans m w m0 h4 hw⟩
    · have hw' : lt w m0 = false := by simpa using hw
      simp only [hw', Bool.false_eq_true, if_false]
      obtain ⟨h2, h3⟩ := ih m0
      generalize ws.foldl (fun m v => if lt v m then v else m) m0 = m at h2 h3
      refine ⟨?_, ?_⟩
      · intro v hv
        rcases List.mem_cons.mp hv with rfl | hv
        · rcases h3 with h3 | ⟨_, h3⟩
          · rw [h3]; exact hw'
          · cases hvm : lt v m with
            | false => rfl
            | true => have := L.trans v m m0 hvm h3; rw [hw'] at this; cases this
        · exact h2 v hv
      · rcases h3 with h3 | ⟨h3, h4⟩
        · exact Or.inl h3
        · exact Or.inr ⟨List.mem_cons_of_mem _ h3, h4⟩

theorem foldMax_spec (L : OrdLaws α) (c : List α) : ∀ (m0 : α),
    (∀ v ∈ c, lt (c.foldl (fun m v => if lt m v then v else m) m0) v = false) ∧
    (c.foldl (fun m v => if lt m v then v else m) m0 = m0 ∨
      (c.foldl (fun m v => if lt m v then v else m) m0 ∈ c ∧ lt m0 (c.foldl (fun m v => if lt m v then v else m) m0) = true)) := by
  induction c with
  | nil => intro m0; exact ⟨by simp, Or.inl rfl⟩
  | cons w ws ih =>
    intro m0
    simp only [List.foldl_cons]
    by_cases hw : lt m0 w = true
    · simp only [hw, if_true]
      obtain ⟨h2, h3⟩ := ih w
      generalize ws.foldl (fun m v => if lt m v then v else m) w = m at h2 h3
      refine ⟨?_, ?_⟩
      · intro v hv
        rcases List.mem_cons.mp hv with rfl | hv
        · rcases h3 with h3 | ⟨_, h3⟩
          · rw [h3]; exact L.irrefl v
          · cases hvm : lt m v with
            | false => rfl
            | true => have := L.trans v m v h3 hvm; rw [L.irrefl v] at this; cases this
        · exact h2 v hv
      · rcases h3 with h3 | ⟨h3, h4⟩
        · exact Or.inr ⟨by rw [h3]; simp, by rw [h3]; exact hw⟩
        · exact Or.inr ⟨List.mem_cons_of_mem _ h3, L.trans m0 w m hw h4⟩
    · have hw' : lt m0 w = false := by simpa using hw
      simp only [hw', Bool.false_eq_true, if_false]
      obtain ⟨h2, h3⟩ := ih m0
      generalize ws.foldl (fun m v => if lt m v then v else m) m0 = m at h2 h3
      refine ⟨?_, ?_⟩
      · intro v hv
        rcases List.mem_cons.mp hv with rfl | hv
        · rcases h3 with h3 | ⟨_, h3⟩
          · rw [h3]; exact hw'
          · cases hvm : lt m v with
            | false => rfl
            | true => have := L.trans m0 m v h3 hvm; rw [hw'] at this; cases this
        · exact h2 v hv
      · rcases h3 with h3 | ⟨h3, h4⟩
        · exact Or.inl h3
        · exact Or.inr ⟨List.mem_cons_of_mem _ h3, h4⟩

/-- **`MIN` as coded**: no value is below the result; the result is a value of the vector below the sentinel, or the
    sentinel `1e300` itself -/
theorem minL_spec (L : OrdLaws α) (c : List α) :
    (∀ v ∈ c, lt v (minL c) = false) ∧ (minL c = big ∨ (minL c ∈ c ∧ lt (minL c) big = true)) :=
  foldMin_spec L c big

/-- **`MAX` as coded**: no value is above the result; the result is a value of the vector above the sentinel
    `-1e300`, or the sentinel itself -/
theorem maxL_spec (L : OrdLaws α) (c : List α) :
    (∀ v ∈ c, lt (maxL c) v = false) ∧ (maxL c = neg big ∨ (maxL c ∈ c ∧ lt (neg big) (maxL c) = true)) :=
  foldMax_spec L c (neg big)

/-- hence, as soon as one value is below the sentinel, `MIN` is the minimum of the vector: it belongs to it and
    nothing is below it -/
theorem minL_is_minimum (L : OrdLaws α) (c : List α) (w : α) (hw : w ∈ c) (hlt : lt w big = true) :
    minL c ∈ c ∧ ∀ v ∈ c, lt v (minL c) = false := by
  obtain ⟨h1, h2⟩ := minL_spec L c
  refine ⟨?_, h1⟩
  rcases h2 with h2 | ⟨h2, _⟩
  · have := h1 w hw; rw [h2, hlt] at this; cases this
  · exact h2

theorem maxL_is_maximum (L : OrdLaws α) (c : List α) (w : α) (hw : w ∈ c) (hlt : lt (neg big) w = true) :
    maxL c ∈ c ∧ ∀ v ∈ c, lt (maxL c) v = false := by
  obtain ⟨h1, h2⟩ := maxL_spec L c
  refine ⟨?_, h1⟩
  rcases h2 with h2 | ⟨h2, _⟩
  · have := h1 w hw; rw [h2, hlt] at this; cases this
  · exact h2

end TV.Expr
