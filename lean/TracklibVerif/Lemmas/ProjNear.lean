import TracklibVerif.Lemmas.Proj
import Mathlib.Algebra.Order.Ring.Abs
/-! Helper lemmas for C20: a point close (in the `|dx| + |dy|` sense of `proj_polyligne`'s zero-length test) to a vertex
is almost as far from the query as that vertex — what is needed to bound the error made by skipping a segment of
non-zero length `< 1e-16`. Ordered field, `sqrt` by its contract. -/
namespace TV.Proj
variable {α : Type} [Field α] [LinearOrder α] [IsStrictOrderedRing α]

theorem fabs_eq_abs (v : α) : fabs v = |v| := by
  unfold fabs
  split
  · rename_i h; exact (abs_of_pos h).symm
  · rename_i h; rw [abs_of_nonpos (le_of_not_gt h)]; ring

/-- triangle inequality in the form used here: if `d` is at most the distance from `(x, y)` to the vertex `(vx, vy)`, `e` is
the distance from `(x, y)` to `(qx, qy)`, and `(qx, qy)` is within `δ` of the vertex (`|dx| + |dy| ≤ δ`), then `d ≤ e + δ` -/
theorem near_vertex_bound (x y vx vy qx qy d e δ : α) (hd : 0 ≤ d) (he : 0 ≤ e)
    (hv : d * d ≤ d2 x y vx vy) (hee : e * e = d2 x y qx qy) (hn : |qx - vx| + |qy - vy| ≤ δ) : d ≤ e + δ := by
  have ha := abs_nonneg (qx - vx)
  have hb := abs_nonneg (qy - vy)
  have hδ : 0 ≤ δ := le_trans (add_nonneg ha hb) hn
  rw [mul_self_le_mul_self_iff hd (add_nonneg he hδ)]
  refine le_trans hv ?_
  unfold d2 at hv hee ⊢
  -- |x - qx| ≤ e, |y - qy| ≤ e
  have hu : |x - qx| ≤ e := by
    apply abs_le_of_sq_le_sq _ he
    have := mul_self_nonneg (y - qy)
    nlinarith
  have hw : |y - qy| ≤ e := by
    apply abs_le_of_sq_le_sq _ he
    have := mul_self_nonneg (x - qx)
    nlinarith
  have c1 : (x - qx) * (qx - vx) ≤ e * |qx - vx| :=
    le_trans (le_abs_self _) (by rw [abs_mul]; exact mul_le_mul_of_nonneg_right hu ha)
  have c2 : (y - qy) * (qy - vy) ≤ e * |qy - vy| :=
    le_trans (le_abs_self _) (by rw [abs_mul]; exact mul_le_mul_of_nonneg_right hw hb)
  have s1 : (qx - vx) * (qx - vx) = |qx - vx| * |qx - vx| := (abs_mul_abs_self _).symm
  have s2 : (qy - vy) * (qy - vy) = |qy - vy| * |qy - vy| := (abs_mul_abs_self _).symm
  have e1 : (x - vx) * (x - vx) + (y - vy) * (y - vy) =
      ((x - qx) * (x - qx) + (y - qy) * (y - qy)) + 2 * ((x - qx) * (qx - vx) + (y - qy) * (qy - vy))
        + ((qx - vx) * (qx - vx) + (qy - vy) * (qy - vy)) := by ring
  rw [e1, ← hee, s1, s2]
  have hab : 0 ≤ |qx - vx| * |qy - vy| := mul_nonneg ha hb
  have hS : |qx - vx| + |qy - vy| ≤ δ := hn
  have hS0 : 0 ≤ |qx - vx| + |qy - vy| := add_nonneg ha hb
  have k1 : (|qx - vx| + |qy - vy|) * (|qx - vx| + |qy - vy|) ≤ δ * δ := mul_self_le_mul_self hS0 hS
  have k2 : e * (|qx - vx| + |qy - vy|) ≤ e * δ := mul_le_mul_of_nonneg_left hS he
  nlinarith

/-- a point of a segment is within the segment's `|dx| + |dy|` of both of its ends -/
theorem onSeg_near_ends (x1 y1 x2 y2 qx qy : α) (h : OnSeg x1 y1 x2 y2 qx qy) :
    |qx - x1| + |qy - y1| ≤ fabs (x1 - x2) + fabs (y1 - y2) ∧ |qx - x2| + |qy - y2| ≤ fabs (x1 - x2) + fabs (y1 - y2) := by
  obtain ⟨t, t0, t1, e1, e2⟩ := h
  rw [fabs_eq_abs, fabs_eq_abs]
  have a1 : qx - x1 = t * (x2 - x1) := by rw [e1]; ring
  have a2 : qy - y1 = t * (y2 - y1) := by rw [e2]; ring
  have b1 : qx - x2 = (1 - t) * (x1 - x2) := by rw [e1]; ring
  have b2 : qy - y2 = (1 - t) * (y1 - y2) := by rw [e2]; ring
  have s0 : 0 ≤ 1 - t := by linarith
  have hx := abs_nonneg (x1 - x2)
  have hy := abs_nonneg (y1 - y2)
  constructor
  · rw [a1, a2, abs_mul, abs_mul, abs_of_nonneg t0, abs_sub_comm x2 x1, abs_sub_comm y2 y1]
    nlinarith
  · rw [b1, b2, abs_mul, abs_mul, abs_of_nonneg s0]
    nlinarith

/-- along a run of `r` consecutive skipped segments starting at vertex `v`, vertex `v + r` is within `r * eps` of vertex `v`
(in the `|dx| + |dy|` sense of the zero-length test) -/
theorem run_near (eps : α) (pts : List (α × α)) (v : Nat) :
    ∀ (r : Nat) (pv pw : α × α), pts[v]? = some pv → pts[v + r]? = some pw →
      (∀ t, t < r → ∀ a b, pts[v + t]? = some a → pts[v + t + 1]? = some b → skipped eps a.1 a.2 b.1 b.2 = true) →
      |pw.1 - pv.1| + |pw.2 - pv.2| ≤ (r : α) * eps := by
  intro r
  induction r with
  | zero =>
    intro pv pw h1 h2 _
    rw [Nat.add_zero, h1] at h2
    injection h2 with h2
    subst h2
    simp
  | succ r ih =>
    intro pv pw h1 h2 hrun
    have hlt : v + r < pts.length := by
      have := (List.getElem?_eq_some_iff.mp h2).1
      omega
    have hm : pts[v + r]? = some pts[v + r] := List.getElem?_eq_getElem hlt
    have i1 := ih pv pts[v + r] h1 hm (fun t ht a b ha hb => hrun t (Nat.lt_succ_of_lt ht) a b ha hb)
    have sk := hrun r (Nat.lt_succ_self r) pts[v + r] pw hm (by rw [← h2]; rfl)
    have hs : fabs ((pts[v + r]).1 - pw.1) + fabs ((pts[v + r]).2 - pw.2) < eps := by simpa [skipped] using sk
    rw [fabs_eq_abs, fabs_eq_abs] at hs
    have t1 : |pw.1 - pv.1| ≤ |pw.1 - (pts[v + r]).1| + |(pts[v + r]).1 - pv.1| := abs_sub_le _ _ _
    have t2 : |pw.2 - pv.2| ≤ |pw.2 - (pts[v + r]).2| + |(pts[v + r]).2 - pv.2| := abs_sub_le _ _ _
    rw [abs_sub_comm pw.1 (pts[v + r]).1] at t1
    rw [abs_sub_comm pw.2 (pts[v + r]).2] at t2
    push_cast
    linarith

end TV.Proj
