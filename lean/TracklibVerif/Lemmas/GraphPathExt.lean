import TracklibVerif.Model.GraphPathExt
import TracklibVerif.Lemmas.GraphBack
import TracklibVerif.Props.C04
/-! Lemmas for the extension of C07 (`Model/GraphPathExt.lean`):

* `run_routing_backward` written with the track operators of the C04 model (`Seq.concat` = `+`,
  `Seq.dropFirst` = `>`, `reverseT`, `copyT`, `Seq.addObs`) returns the track whose points are those of the
  list-level model `TV.Graph.runBackward` and whose feature table is empty. The two operator facts used are the C04
  property theorems `TV.C04.concat_spec` and `TV.C04.dropFirst_spec`.
* the session: `__resetFlags` followed by `poids[source] = 0` is the initial state whatever the earlier searches
  left, so every forward pass of a session is the forward pass on a fresh network. -/
namespace TV.GraphExt
open TV.Graph TV.Seq

theorem reverseT_spec (tr : Track) : reverseT tr = ⟨tr.pts.reverse, tr.table⟩ := rfl

theorem copyT_spec (tr : Track) : copyT tr = tr := rfl

/-- `track + (edge_geom > 1)` when `track` has no analytical feature: the points of `track` followed by those of
`edge_geom` but the first, and no analytical feature (whatever the features of the edge geometry are) -/
theorem chain_step (track g : Track) (ht : track.table = []) :
    concat track (dropFirst g 1) = ⟨track.pts ++ g.pts.drop 1, []⟩ := by
  have hd : dropFirst g 1 = ⟨g.pts.drop 1, g.table⟩ := by simpa using TV.C04.dropFirst_spec g 1
  obtain ⟨h1, h2⟩ := TV.C04.concat_spec track (dropFirst g 1)
  rw [ht] at h2
  have h2' : (concat track (dropFirst g 1)).table = [] := by rw [h2]; split <;> rfl
  rw [hd] at h1 h2' ⊢
  cases hc : concat track ⟨g.pts.drop 1, g.table⟩ with
  | mk p tb =>
    rw [hc] at h1 h2'
    simp only at h1 h2'
    rw [h1, h2']

variable {W : Type}

/-- the loop on tracks is the loop on point lists -/
theorem backAuxT_eq (net : Net W) (geo : GeoT) (st : St W) :
    ∀ (f node : Nat) (nodes : List Nat) (track : Track), track.table = [] →
      backAuxT net geo st f node nodes track = liftBack (backAux net geo.toGeo st f node nodes track.pts) := by
  intro f
  induction f with
  | zero => intro node nodes track _; rfl
  | succ f ih =>
    intro node nodes track ht
    unfold backAuxT backAux
    cases hp : st.pred node with
    | none =>
      simp only [liftBack, reverseT_spec, ht]
    | some p =>
      obtain ⟨a, eid⟩ := p
      simp only []
      cases hf : findEdge net eid with
      | none => simp only [liftBack]
      | some e =>
        simp only []
        by_cases hs : e.src ≠ node
        · simp only [hs, ne_eq, not_false_eq_true, if_true, copyT_spec]
          rw [chain_step track (reverseT (geo.geom eid)) ht, ih a (nodes ++ [a]) _ rfl]
          rfl
        · simp only [hs, if_false, copyT_spec]
          rw [chain_step track (geo.geom eid) ht, ih a (nodes ++ [a]) _ rfl]
          rfl

/-- `run_routing_backward` through the track operators = the list-level model, as a track without features -/
theorem runBackwardT_eq (net : Net W) (geo : GeoT) (st : St W) (t : Nat) :
    runBackwardT net geo st t = liftBack (runBackward net geo.toGeo st t) := by
  unfold runBackwardT runBackward
  cases hp : st.pred t with
  | none => rfl
  | some p =>
    simp only []
    rw [backAuxT_eq net geo st (net.n + 1) t [t] (addObs emptyT (geo.pos t)) rfl]
    rfl

theorem liftBack_path {b : Back Obs} {nodes : List Nat} {trk : Track} (h : liftBack b = .path nodes trk) :
    b = .path nodes trk.pts ∧ trk.table = [] := by
  cases b with
  | none => cases h
  | diverge => cases h
  | path n g =>
    simp only [liftBack, BackT.path.injEq] at h
    obtain ⟨rfl, rfl⟩ := h
    exact ⟨rfl, rfl⟩

theorem liftBack_none {b : Back Obs} : liftBack b = .none ↔ b = .none := by
  cases b <;> simp [liftBack]

theorem liftBack_diverge {b : Back Obs} : liftBack b = .diverge ↔ b = .diverge := by
  cases b <;> simp [liftBack]

/-! ### the session -/

/-- `__resetFlags` then `poids[source] = 0`: the initial state, whatever was there -/
theorem reset_init [OfNat W 0] (flags : Option (St W)) (s : Nat) : setSource (resetFlags flags) s = St.init s := rfl

variable [LT W] [DecidableLT W] [Add W] [OfNat W 0]

/-- a forward pass of a session does not see what earlier searches left, nor whether the nodes are designated by
id or by object -/
theorem runForwardOn_eq (net : Net W) (flags : Option (St W)) (s : NodeArg) (t : Option NodeArg) (cut : Option W) :
    runForwardOn net flags s t cut = runForward net (correctInputNode s) (t.map correctInputNode) cut := rfl

end TV.GraphExt
