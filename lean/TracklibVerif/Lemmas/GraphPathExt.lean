import TracklibVerif.Model.GraphPathExt
import TracklibVerif.Lemmas.GraphBack
import TracklibVerif.Props.C04
/-! Lemmas for the extension of C07 (`Model/GraphPathExt.lean`):

* `run_routing_backward` written with the track operators of the C04 model (`Seq.concat` = `+`,
  `Seq.dropFirst` = `>`, `reverseT`, `copyT`, `Seq.addObs`) returns the track whose points are those of the
  list-level model `TV.Graph.runBackward` and whose feature table is empty. The two operator facts used are the C04
  property theorems `TV.C04.concat_spec` and `TV.C04.dropFirst_spec`.
* the session: `__resetFlags` followed by `poids[source] = 0` is the initial state whatever the earlier searches
  left, so every forward pass of a session is the forward pass on a fresh network. -/
namespace TV.GraphExt
open TV.Graph TV.Seq

theorem reverseT_spec (tr : Track) : reverseT tr = ⟨tr.pts.reverse, tr.table⟩ := rfl

theorem copyT_spec (tr : Track) : copyT tr = tr := rfl

/-- `track + (edge_geom > 1)` when `track` has no analytical feature: the points of `track` followed by those of
`edge_geom` but the first, and no analytical feature (whatever the features of the edge geometry are) -/
theorem chain_step (track g : Track) (ht : track.table = []) :
    concat track (dropFirst g 1) = ⟨track.pts ++ g.pts.drop 1, []⟩ := by
  have hd : dropFirst g 1 = ⟨g.pts.drop 1, g.table⟩ := by simpa using TV.C04.dropFirst_spec g 1
  obtain ⟨h1, h2⟩ := TV.C04.concat_spec track (dropFirst g 1)
  rw [ht] at h2
  have h2' : (concat track (dropFirst g 1)).table = [] := by rw [h2]; split <;> rfl
  rw [hd] at h1 h2' ⊢
  cases hc : concat track ⟨g.pts.drop 1, g.table⟩ with
  | mk p tb =>
    rw [hc] at h1 h2'
    simp only at h1 h2'
    rw [h1, h2']

variable {W : Type}

/-- the loop on tracks is the loop on point lists -/
theorem backAuxT_eq (net : Net W) (geo : GeoT) (st : St W) :
    ∀ (f node : Nat) (nodes : List Nat) (track : Track), track.table = [] →
      backAuxT net geo st f node nodes track = liftBack (backAux net geo.toGeo st f node nodes track.pts) := by
  intro f
  induction f with
  | zero => intro node nodes track _; rfl
  | succ f ih =>
    intro node nodes track ht
    unfold backAuxT backAux
    cases hp : st.pred node with
    | none =>
      simp only [liftBack, reverseT_spec, ht]
    | some p =>
      obtain ⟨a, eid⟩ := p
      simp only []
      cases hf : findEdge net eid with
      | none => simp only [liftBack]
      | some e =>
        simp only []
        by_cases hs : e.src ≠ node
        · simp only [hs, ne_eq, not_false_eq_true, if_true, copyT_spec]
          rw [chain_step track (reverseT (geo.geom eid)) ht, ih a (nodes ++ [a]) _ rfl]
          rfl
        · simp only [hs, if_false, copyT_spec]
          rw [chain_step track (geo.geom eid) ht, ih a (nodes ++ [a]) _ rfl]
          rfl

/-- `run_routing_backward` through the track operators = the list-level model, as a track without features -/
theorem runBackwardT_eq (net : Net W) (geo : GeoT) (st : St W) (t : Nat) :
    runBackwardT net geo st t = liftBack (runBackward net geo.toGeo st t) := by
  unfold runBackwardT runBackward
  cases hp : st.pred t with
  | none => rfl
  | some p =>
    simp only []
    rw [backAuxT_eq net geo st (net.n + 1) t [t] (addObs emptyT (geo.pos t)) rfl]
    rfl

theorem liftBack_path {b : Back Obs} {nodes : List Nat} {trk : Track} (h : liftBack b = .path nodes trk) :
    b = .path nodes trk.pts ∧ trk.table = [] := by
  cases b with
  | none => cases h
  | diverge => cases h
  | path n g =>
    simp only [liftBack, BackT.path.injEq] at h
    obtain ⟨rfl, rfl⟩ := h
    exact ⟨rfl, rfl⟩

theorem liftBack_none {b : Back Obs} : liftBack b = .none ↔ b = .none := by
  cases b <;> simp [liftBack]

theorem liftBack_diverge {b : Back Obs} : liftBack b = .diverge ↔ b = .diverge := by
  cases b <;> simp [liftBack]

/-! ### the session -/

/-- `__resetFlags` then `poids[source] = 0`: the initial state, whatever was there -/
theorem reset_init [OfNat W 0] (flags : Option (St W)) (s : Nat) : setSource (resetFlags flags) s = St.init s := rfl

variable [LT W] [DecidableLT W] [Add W] [OfNat W 0]

/-- a forward pass of a session does not see what earlier searches left, nor whether the nodes are designated by
id or by object -/
theorem runForwardOn_eq (net : Net W) (flags : Option (St W)) (s : NodeArg) (t : Option NodeArg) (cut : Option W) :
    runForwardOn net flags s t cut = runForward net (correctInputNode s) (t.map correctInputNode) cut := rfl


/-! ### invariant of a session -/
section session
variable {W : Type} [LinearOrder W] [Add W] [Zero W] [WalkAdd W]

/-- the flags a session leaves on the nodes are those of a forward pass from some source of the network -/
def SessGood (net : Net W) (se : Sess W) : Prop := ∀ st, se.flags = some st → ∃ s, s < net.n ∧ Good net s st

/-- the source of the call is a node of the network -/
def OpOk (net : Net W) : Op W → Prop
  | .path s _ _ _ => correctInputNode s < net.n
  | .dist s _ _ _ => correctInputNode s < net.n
  | .fwd s _ _ _ => correctInputNode s < net.n
  | .back _ => True

omit [WalkAdd W] in
theorem sessGood_start (net : Net W) : SessGood net (Sess.start : Sess W) := by
  intro st h; cases h

theorem sess_forward_good (net : Net W) (hnet : WFNet net) (se : Sess W) (s : NodeArg) (t : Option NodeArg)
    (cut : Option W) (ud : Bool) (hs : correctInputNode s < net.n) : SessGood net (se.forward net s t cut ud) := by
  intro st h
  simp only [Sess.forward, Option.some.injEq] at h
  subst h
  exact ⟨correctInputNode s, hs, forward_good net hnet _ _ cut net.n _ [] (good_init net _ hs)⟩

theorem stepOp_good (net : Net W) (hnet : WFNet net) (geo : GeoT) (order : List Nat) (se : Sess W) (op : Op W)
    (hok : OpOk net op) (hse : SessGood net se) : SessGood net (stepOp net geo order se op).1 := by
  cases op with
  | path s t cut ud =>
    have := sess_forward_good net hnet se s (some t) cut ud hok
    simp only [stepOp]
    split <;> exact this
  | dist s t cut ud =>
    have := sess_forward_good net hnet se s t cut ud hok
    simp only [stepOp]
    split <;> exact this
  | fwd s t cut ud => exact sess_forward_good net hnet se s t cut ud hok
  | back t =>
    simp only [stepOp]
    split <;> exact hse

/-- what a `.path` output of a session must be: never a divergence; a returned track is the chain of a real route
(from the source of the last search) closed by the position of its last node, without analytical feature, and the
weights of the route's edges sum to the label reported with it -/
def OutOk (net : Net W) (geo : GeoT) : Out W → Prop
  | .path b label => b ≠ .diverge ∧ ∀ nodes trk, b = .path nodes trk →
      ∃ s t l g g' y, nodes = l ++ [t] ∧ trk = ⟨g ++ [geo.pos t], []⟩ ∧ Route net geo.toGeo s l g g' t y ∧ label = some y
  | _ => True

theorem backward_out_ok (net : Net W) (hu : UniqueIds net) (geo : GeoT) (s : Nat) (st : St W) (hg : Good net s st)
    (t : Nat) : OutOk net geo (.path (runBackwardT net geo st t) (st.d t)) := by
  obtain ⟨h1, h2⟩ := runBackward_spec net hu geo.toGeo s st hg t
  rw [runBackwardT_eq]
  cases hp : st.pred t with
  | none => rw [h1 hp]; exact ⟨fun h => (by cases h), fun _ _ h => by cases h⟩
  | some p =>
    obtain ⟨l, g, g', y, hd, hr, hb⟩ := h2 p hp
    rw [hb]
    refine ⟨fun h => (by cases h), fun nodes trk h => ?_⟩
    simp only [liftBack, BackT.path.injEq] at h
    obtain ⟨rfl, rfl⟩ := h
    exact ⟨s, t, l, g, g', y, rfl, rfl, hr, hd⟩

end session

end TV.GraphExt

/-! ### labels of settled nodes are final in EVERY state of the loop -/
namespace TV.Graph
variable {W : Type} [LinearOrder W] [Add W] [Zero W] [WalkAdd W]

/-- in a state satisfying the loop invariants, every walk from the source ends at a node whose label does not exceed
the walk's weight, or passes a labelled unsettled node whose label does not exceed it -/
theorem walk_frontier (net : Net W) (hnet : WFNet net) (s : Nat) (st : St W) (hinv : Inv net s st) :
    ∀ v c, Walk net s v c → ∃ z y, st.d z = some y ∧ y ≤ c ∧ (z = v ∨ st.vis z = false) := by
  intro v c hw
  induction hw with
  | nil => exact ⟨s, 0, hinv.j1, le_refl _, Or.inl rfl⟩
  | @snoc a v x w hwalk harc ih =>
    obtain ⟨z, y, hz, hle, hor⟩ := ih
    have hw0 : 0 ≤ w := (arc_wf hnet harc).2
    have hxw : x ≤ x + w := WalkAdd.le_add_right x w hw0
    rcases hor with rfl | hun
    · cases hva : st.vis z with
      | true =>
        obtain ⟨x', y', h1, h2, h3⟩ := hinv.j2 z hva v w harc
        rw [hz] at h1
        cases h1
        exact ⟨v, y', h2, le_trans h3 (WalkAdd.add_le_add _ _ w hle), Or.inl rfl⟩
      | false => exact ⟨z, y, hz, le_trans hle hxw, Or.inr hva⟩
    · exact ⟨z, y, hz, le_trans hle hxw, Or.inr hun⟩

/-- the label of a settled node is the true distance, whenever the loop is stopped -/
theorem settled_label_isDist (net : Net W) (hnet : WFNet net) (s : Nat) (st : St W) (hinv : Inv net s st)
    (u : Nat) (x : W) (hv : st.vis u = true) (hd : st.d u = some x) : IsDist net s u x := by
  refine ⟨hinv.j3 u x hd, fun c hc => ?_⟩
  obtain ⟨z, y, hz, hle, hor⟩ := walk_frontier net hnet s st hinv u c hc
  rcases hor with rfl | hun
  · rw [hd] at hz; cases hz; exact hle
  · exact le_trans (hinv.j4 u x hv hd z y hun hz) hle

/-- the entries recorded so far (`output_dict`) are settled nodes with their labels, none above the cut-off — whatever
the target and the cut-off, wherever the loop stops -/
theorem forward_out_settled (net : Net W) (tgt : Option Nat) (cut : Option W) :
    ∀ (f : Nat) (st : St W) (out : List (Nat × W)),
      (∀ p ∈ out, st.vis p.1 = true ∧ st.d p.1 = some p.2 ∧ Within cut p.2) →
      ∀ p ∈ (forward net tgt cut f st out).2,
        (forward net tgt cut f st out).1.vis p.1 = true ∧ (forward net tgt cut f st out).1.d p.1 = some p.2 ∧ Within cut p.2 := by
  intro f
  induction f with
  | zero => intro st out h; exact h
  | succ f ih =>
    intro st out h
    unfold forward
    cases hp : popMinAux st net.n with
    | none => exact h
    | some q =>
      obtain ⟨u, du⟩ := q
      simp only []
      by_cases hstop : stops tgt cut u du = true
      · simp only [hstop, if_true]; exact h
      · simp only [hstop, Bool.false_eq_true, if_false]
        apply ih
        obtain ⟨s1, s2, _, _⟩ := settle_spec net st u du
        obtain ⟨_, _, hud, _⟩ := popMin_facts hp
        intro p hpm
        rcases List.mem_append.1 hpm with hpm | hpm
        · obtain ⟨a, b, c⟩ := h p hpm
          refine ⟨by rw [s1]; split <;> simp [a], by rw [s2 p.1 (Or.inr a)]; exact b, c⟩
        · simp only [List.mem_singleton] at hpm
          subst hpm
          refine ⟨by rw [s1]; simp, by rw [s2 u (Or.inl rfl)]; exact hud, ?_⟩
          intro c hc
          have : ¬ (c < du) := by
            intro hlt
            apply hstop
            simp [stops, hc, hlt]
          exact not_lt.1 this
end TV.Graph

/-! ### construction: `addNode` / `addEdge` and the loop over `NEXT_EDGES` -/
namespace TV.GraphExt
open TV.Graph
section construction
variable {W : Type}

theorem addNode_edges {P : Type} (nb : NetObj W P) (id : Nat) (c : P) :
    (addNode nb id c).edges = nb.edges ∧ (addNode nb id c).next = nb.next := by
  unfold addNode; split <;> exact ⟨rfl, rfl⟩

theorem addEdge_edges {P : Type} (nb : NetObj W P) (e : Edge W) (sc tc : P) :
    (addEdge nb e sc tc).edges = nb.edges ++ [e] := by
  have hn : (addNode (addNode nb e.src sc) e.tgt tc).edges = nb.edges := by
    rw [(addNode_edges _ _ _).1, (addNode_edges _ _ _).1]
  unfold addEdge
  simp only []
  generalize addNode (addNode nb e.src sc) e.tgt tc = nb' at hn ⊢
  by_cases ha : 0 ≤ e.ori <;> by_cases hb : e.ori ≤ 0 <;> simp [ha, hb, hn]

theorem addEdge_next {P : Type} (nb : NetObj W P) (e : Edge W) (sc tc : P) (u : Nat) :
    (addEdge nb e sc tc).next u = nb.next u ++ nextOf e u := by
  have hn : (addNode (addNode nb e.src sc) e.tgt tc).next = nb.next := by
    rw [(addNode_edges _ _ _).2, (addNode_edges _ _ _).2]
  unfold addEdge nextOf
  simp only []
  generalize addNode (addNode nb e.src sc) e.tgt tc = nb' at hn ⊢
  have e1 : (u = e.src) = (e.src = u) := propext eq_comm
  have e2 : (u = e.tgt) = (e.tgt = u) := propext eq_comm
  by_cases ha : 0 ≤ e.ori <;> by_cases hb : e.ori ≤ 0 <;> by_cases hs : e.src = u <;> by_cases ht : e.tgt = u <;>
    simp [ha, hb, hs, ht, hn, e1, e2]

theorem build_spec {P : Type} (es : List (Edge W × P × P)) : ∀ (nb : NetObj W P),
    (build nb es).edges = nb.edges ++ es.map (·.1) ∧
    ∀ u, (build nb es).next u = nb.next u ++ (es.map (·.1)).flatMap (fun e => nextOf e u) := by
  induction es with
  | nil => intro nb; simp [build]
  | cons x r ih =>
    intro nb
    obtain ⟨e, sc, tc⟩ := x
    obtain ⟨h1, h2⟩ := ih (addEdge nb e sc tc)
    refine ⟨by simp [build, h1, addEdge_edges], fun u => ?_⟩
    simp [build, h2, addEdge_next, List.append_assoc]


theorem addNode_posOf {P : Type} (nb : NetObj W P) (id : Nat) (c : P) (v : Nat) (p : P) (h : posOf nb v = some p) :
    posOf (addNode nb id c) v = some p := by
  unfold addNode
  split
  · exact h
  · unfold posOf at h ⊢
    simp only [Option.map_eq_some_iff] at h ⊢
    obtain ⟨q, hq, rfl⟩ := h
    exact ⟨q, by rw [List.find?_append, hq]; rfl, rfl⟩

theorem addNode_registers {P : Type} (nb : NetObj W P) (id : Nat) (c : P) : ∃ p, posOf (addNode nb id c) id = some p := by
  unfold addNode
  split
  · rename_i h
    obtain ⟨q, hq, hid⟩ := List.any_eq_true.1 h
    unfold posOf
    cases hf : nb.nodes.find? (fun p => p.1 == id) with
    | none => exact absurd hid (by simpa using List.find?_eq_none.1 hf q hq)
    | some r => exact ⟨r.2, rfl⟩
  · rename_i h
    unfold posOf
    have hn : nb.nodes.find? (fun p => p.1 == id) = none := by
      rw [List.find?_eq_none]
      intro q hq hid
      exact h (List.any_eq_true.2 ⟨q, hq, hid⟩)
    exact ⟨c, by simp [List.find?_append, hn]⟩

theorem addEdge_posOf {P : Type} (nb : NetObj W P) (e : Edge W) (sc tc : P) (v : Nat) (p : P) (h : posOf nb v = some p) :
    posOf (addEdge nb e sc tc) v = some p := by
  have h2 := addNode_posOf (addNode nb e.src sc) e.tgt tc v p (addNode_posOf nb e.src sc v p h)
  unfold addEdge
  simp only []
  generalize addNode (addNode nb e.src sc) e.tgt tc = nb' at h2 ⊢
  unfold posOf at h2 ⊢
  by_cases ha : 0 ≤ e.ori <;> by_cases hb : e.ori ≤ 0 <;> simp [ha, hb, h2]

theorem build_posOf {P : Type} (es : List (Edge W × P × P)) : ∀ (nb : NetObj W P) (v : Nat) (p : P),
    posOf nb v = some p → posOf (build nb es) v = some p := by
  induction es with
  | nil => intro nb v p h; exact h
  | cons x r ih =>
    intro nb v p h
    obtain ⟨e, sc, tc⟩ := x
    exact ih _ v p (addEdge_posOf nb e sc tc v p h)

variable [LT W] [DecidableLT W] [Add W]

theorem relaxOne_vis (u : Nat) (du : W) (st : St W) (e : Edge W) : (relaxOne u du st e).vis = st.vis := by
  unfold relaxOne
  simp only []
  split
  · rfl
  · split
    · rfl
    · split <;> rfl

theorem relaxOne_loop (u : Nat) (du : W) (st : St W) (e : Edge W) (hv : st.vis u = true) (hs : e.src = u) (ht : e.tgt = u) :
    relaxOne u du st e = st := by
  have : other e u = u := by unfold other; rw [if_pos ht, hs]
  unfold relaxOne
  simp only [this, hv, if_true]

/-- the relaxation loop over `NEXT_EDGES[u]` as `addEdge` fills it = the loop over the model's `nextEdges net u` (each
permitted edge once): the second visit of a two-way self-loop finds `fils = pere`, which is marked `visite` -/
theorem pyNext_fold (net : Net W) (u : Nat) (du : W) : ∀ (st : St W), st.vis u = true →
    (pyNext net u).foldl (relaxOne u du) st = (nextEdges net u).foldl (relaxOne u du) st := by
  unfold pyNext nextEdges
  induction net.edges with
  | nil => intro st _; rfl
  | cons e es ih =>
    intro st hv
    rw [List.flatMap_cons, List.foldl_append, List.filter_cons]
    by_cases ha : 0 ≤ e.ori ∧ e.src = u <;> by_cases hb : e.ori ≤ 0 ∧ e.tgt = u
    · have hf : (decide (0 ≤ e.ori) && decide (e.src = u) || decide (e.ori ≤ 0) && decide (e.tgt = u)) = true := by simp [ha.1, ha.2]
      rw [hf, if_pos rfl, if_pos ha, if_pos hb]
      have hv1 : (relaxOne u du st e).vis u = true := by rw [relaxOne_vis]; exact hv
      simp only [List.cons_append, List.nil_append, List.foldl_cons, List.foldl_nil]
      rw [relaxOne_loop u du (relaxOne u du st e) e hv1 ha.2 hb.2]
      exact ih _ hv1
    · have hf : (decide (0 ≤ e.ori) && decide (e.src = u) || decide (e.ori ≤ 0) && decide (e.tgt = u)) = true := by simp [ha.1, ha.2]
      rw [hf, if_pos rfl, if_pos ha, if_neg hb]
      have hv1 : (relaxOne u du st e).vis u = true := by rw [relaxOne_vis]; exact hv
      simp only [List.append_nil, List.foldl_cons, List.foldl_nil]
      exact ih _ hv1
    · have hf : (decide (0 ≤ e.ori) && decide (e.src = u) || decide (e.ori ≤ 0) && decide (e.tgt = u)) = true := by simp [hb.1, hb.2]
      rw [hf, if_pos rfl, if_neg ha, if_pos hb]
      have hv1 : (relaxOne u du st e).vis u = true := by rw [relaxOne_vis]; exact hv
      simp only [List.nil_append, List.foldl_cons, List.foldl_nil]
      exact ih _ hv1
    · have hf : (decide (0 ≤ e.ori) && decide (e.src = u) || decide (e.ori ≤ 0) && decide (e.tgt = u)) = false := by
        rw [Bool.eq_false_iff]; intro h
        simp only [Bool.or_eq_true, Bool.and_eq_true, decide_eq_true_eq] at h
        rcases h with h | h
        · exact ha h
        · exact hb h
      rw [hf, if_neg ha, if_neg hb]
      simp only [List.append_nil, List.foldl_nil, Bool.false_eq_true, if_false]
      exact ih _ hv



end construction

section lookup
variable {W : Type} [LinearOrder W] [Add W] [Zero W] [WalkAdd W]

/-- looking the ids of `NEXT_EDGES[u]` up in `EDGES` (a dict keyed by unique edge ids) gives back the edges -/
theorem lookup_next (net : Net W) (hu : UniqueIds net) (u : Nat) : ∀ (l : List (Edge W)), (∀ e ∈ l, e ∈ net.edges) →
    (l.flatMap (fun e => nextOf e u)).filterMap (findEdge net) =
      l.flatMap (fun e => (if 0 ≤ e.ori ∧ e.src = u then [e] else []) ++ (if e.ori ≤ 0 ∧ e.tgt = u then [e] else [])) := by
  intro l
  induction l with
  | nil => intro _; rfl
  | cons e r ih =>
    intro h
    have he : findEdge net e.id = some e := findEdge_of_mem net hu e (h e (List.mem_cons_self))
    rw [List.flatMap_cons, List.flatMap_cons, List.filterMap_append, ih (fun x hx => h x (List.mem_cons_of_mem _ hx))]
    congr 1
    unfold nextOf
    by_cases ha : 0 ≤ e.ori ∧ e.src = u <;> by_cases hb : e.ori ≤ 0 ∧ e.tgt = u <;> simp [ha, hb, he]

end lookup
end TV.GraphExt
