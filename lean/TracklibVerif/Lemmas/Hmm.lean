import TracklibVerif.Model.Hmm
import TracklibVerif.Lemmas.ViterbiTable
/-! Lemmas about the front end of `HMM.estimate` (`Model/Hmm.lean`): the feature-table primitives, the backward
loop with its writes, and the reading of the two result columns after a call. -/
namespace TV.Hmm
open TV.Viterbi
variable {α : Type}

/-- every column has one cell per observation -/
def Trk.WF (tr : Trk α) : Prop := ∀ c ∈ tr.cols, c.2.length = tr.size

/-! ### the feature table -/

/-- the column of `n` in a list of named columns -/
def colL (cols : List (String × List (Cell α))) (n : String) : Option (List (Cell α)) :=
  (cols.find? (fun c => c.1 == n)).map (·.2)

theorem col?_eq (tr : Trk α) (n : String) : tr.col? n = colL tr.cols n := rfl

theorem colL_cons (c : String × List (Cell α)) (cs : List (String × List (Cell α))) (n : String) :
    colL (c :: cs) n = if c.1 = n then some c.2 else colL cs n := by
  unfold colL
  by_cases h : c.1 = n <;> simp [h]

theorem colL_upd (cols : List (String × List (Cell α))) (name n : String) (f : List (Cell α) → List (Cell α)) :
    colL (cols.map (fun c => if c.1 == name then (c.1, f c.2) else c)) n
      = (colL cols n).map (fun c => if n = name then f c else c) := by
  induction cols with
  | nil => rfl
  | cons c cs ih =>
    rw [List.map_cons, colL_cons, colL_cons, ih]
    by_cases h1 : c.1 = name
    · by_cases h2 : c.1 = n
      · have : n = name := by rw [← h2, h1]
        simp [h1, this]
      · have h3 : ¬ name = n := by rw [← h1]; exact h2
        simp [h1, h3]
    · by_cases h2 : c.1 = n
      · have : ¬ n = name := by rw [← h2]; exact h1
        simp [h2, this]
      · simp [h1, h2]

theorem colL_append_new (cols : List (String × List (Cell α))) (name n : String) (c : List (Cell α)) :
    colL (cols ++ [(name, c)]) n = match colL cols n with
      | some d => some d
      | none => if name = n then some c else none := by
  induction cols with
  | nil => simp [colL]
  | cons d ds ih =>
    rw [List.cons_append, colL_cons, colL_cons, ih]
    by_cases h : d.1 = n <;> simp [h]

theorem has_iff_col? (tr : Trk α) (name : String) : tr.has name = (tr.col? name).isSome := by
  rw [col?_eq]
  unfold Trk.has
  induction tr.cols with
  | nil => rfl
  | cons c cs ih =>
    rw [colL_cons, List.any_cons, ih]
    by_cases h : c.1 = name <;> simp [h]

theorem col?_length (tr : Trk α) (h : tr.WF) (name : String) (c : List (Cell α)) (hc : tr.col? name = some c) :
    c.length = tr.size := by
  unfold Trk.col? at hc
  cases hf : tr.cols.find? (fun c => c.1 == name) with
  | none => simp [hf] at hc
  | some p =>
    simp [hf] at hc
    subst hc
    exact h p (List.mem_of_find?_eq_some hf)

/-- writing one cell: the written cell reads back, every other cell is unchanged -/
theorem setObs_spec (tr : Trk α) (h : tr.WF) (name : String) (i : Nat) (v : Cell α)
    (hn : name ∉ ["x", "y", "z"]) (hhas : tr.has name = true) (hi : i < tr.size) :
    ∃ tr', tr.setObs name i v = .ok tr' ∧ tr'.WF ∧ tr'.size = tr.size ∧ tr'.pos = tr.pos ∧
      (∀ n, tr'.has n = tr.has n) ∧ tr'.get? name i = some v ∧
      (∀ n j, (n ≠ name ∨ j ≠ i) → tr'.get? n j = tr.get? n j) := by
  have key : ∀ n, Trk.col? { tr with cols := tr.cols.map (fun c => if c.1 == name then (c.1, c.2.set i v) else c) } n
      = (tr.col? n).map (fun c => if n = name then c.set i v else c) := by
    intro n
    rw [col?_eq, col?_eq]
    exact colL_upd tr.cols name n (fun c => c.set i v)
  refine ⟨{ tr with cols := tr.cols.map (fun c => if c.1 == name then (c.1, c.2.set i v) else c) }, ?_, ?_, rfl, rfl, ?_, ?_, ?_⟩
  · simp [Trk.setObs, hn, hhas, hi]
  · intro c hc
    simp only [List.mem_map] at hc
    obtain ⟨d, hd, rfl⟩ := hc
    split
    · simpa using h d hd
    · exact h d hd
  · intro n
    rw [has_iff_col?, has_iff_col?, key]
    cases tr.col? n <;> simp
  · have hc := hhas
    rw [has_iff_col?] at hc
    obtain ⟨c, hc⟩ := Option.isSome_iff_exists.mp hc
    have hl := col?_length tr h name c hc
    unfold Trk.get?
    rw [key, hc]
    simp [hl, hi]
  · intro n j hnj
    unfold Trk.get?
    rw [key]
    cases hc : tr.col? n with
    | none => rfl
    | some c =>
      by_cases hnn : n = name
      · have hj : i ≠ j := by
          rcases hnj with h' | h'
          · exact absurd hnn h'
          · exact Ne.symm h'
        simp [hnn, List.getElem?_set_ne hj]
      · simp [hnn]

theorem posStep_WF (tr : Trk α) (h : tr.WF) (mode k s : Nat) : (tr.posStep mode k s).WF := by
  unfold Trk.posStep; split
  · exact h
  · exact h
theorem posStep_size (tr : Trk α) (mode k s : Nat) : (tr.posStep mode k s).size = tr.size := by
  unfold Trk.posStep; split <;> rfl
theorem posStep_has (tr : Trk α) (mode k s : Nat) (n : String) : (tr.posStep mode k s).has n = tr.has n := by
  unfold Trk.posStep; split <;> rfl
theorem posStep_get? (tr : Trk α) (mode k s : Nat) (n : String) (j : Nat) :
    (tr.posStep mode k s).get? n j = tr.get? n j := by
  unfold Trk.posStep; split <;> rfl

theorem getElem?_getD_nat (xs : List Nat) (l : Nat) (h : l < xs.length) : xs[l]? = some (xs.getD l 0) := by
  simp [List.getD_eq_getElem?_getD, List.getElem?_eq_getElem h]

/-- `createAnalyticalFeature(name)`: afterwards the name is there; if it was there before, nothing changed; a cell
of any other name reads as before -/
theorem create_spec (tr : Trk α) (h : tr.WF) (name : String) (init : Cell α) (hn : name ∉ reserved)
    (hs : tr.size ≠ 0) :
    ∃ tr', tr.create name init = .ok tr' ∧ tr'.WF ∧ tr'.size = tr.size ∧ tr'.pos = tr.pos ∧
      tr'.has name = true ∧ (∀ n, tr.has n = true → tr'.has n = true) ∧
      (tr.has name = true → tr' = tr) ∧
      (∀ n j, n ≠ name → tr'.get? n j = tr.get? n j) := by
  by_cases hh : tr.has name = true
  · refine ⟨tr, by simp [Trk.create, hn, hs, hh], h, rfl, rfl, hh, fun _ x => x, fun _ => rfl, fun _ _ _ => rfl⟩
  · refine ⟨{ tr with cols := tr.cols ++ [(name, List.replicate tr.size init)] }, by simp [Trk.create, hn, hs, hh],
      ?_, rfl, rfl, ?_, ?_, fun x => absurd x hh, ?_⟩
    · intro c hc
      rcases List.mem_append.mp hc with hc | hc
      · exact h c hc
      · simp at hc; subst hc; simp
    · simp [Trk.has]
    · intro n hn'
      simp only [Trk.has, List.any_append] at hn' ⊢
      simp [hn']
    · intro n j hne
      unfold Trk.get?
      rw [col?_eq, col?_eq]
      show (colL (tr.cols ++ [(name, List.replicate tr.size init)]) n).bind _ = _
      rw [colL_append_new]
      cases colL tr.cols n with
      | some d => rfl
      | none => simp [Ne.symm hne]

/-! ### the backward loop -/

section
variable [LinearOrder α]

theorem forward_length (t : Tables α) (k : Nat) : (forward t k).length = k + 1 := by
  induction k with
  | zero => rfl
  | succ k ih => rw [forward_succ]; simp [ih]

/-- the writes of the backward loop started at state `l` of epoch `k`: for every epoch `j ≤ k` the STATE object
`STATES[j][back j]` goes to `hmm_inference` and `TAB_VAL[j][back j]` to `hmm_cost`; every other cell (other
names, later epochs) is untouched; no exception. -/
theorem writeBack_forward (mode : Nat) (STATES : List (List Nat)) (t : Tables α) (k : Nat) :
    ∀ (l : Nat) (tr : Trk α), (∀ j, j ≤ k → 0 < t.n j) → l < t.n k →
      (∀ j, j ≤ k → (STATES.getD j []).length = t.n j) →
      tr.WF → tr.has "hmm_inference" = true → tr.has "hmm_cost" = true → k < tr.size →
      ∃ tr', writeBack mode STATES (forward t k) l tr = (tr', none) ∧ tr'.WF ∧ tr'.size = tr.size ∧
        (∀ n, tr'.has n = tr.has n) ∧
        (∀ j, j ≤ k → tr'.get? "hmm_inference" j = some (.st ((STATES.getD j []).getD (back t k l j) 0)) ∧
                       tr'.get? "hmm_cost" j = some (.num (val t j (back t k l j)))) ∧
        (∀ n j, ((n ≠ "hmm_inference" ∧ n ≠ "hmm_cost") ∨ k < j) → tr'.get? n j = tr.get? n j) := by
  induction k with
  | zero =>
    intro l tr hpos hl hS hwf hinf hcost hk
    have h1 : (firstCol t).1[l]? = some (t.obs 0 l) := by simp [firstCol, hl]
    have h2 : (firstCol t).2[l]? = some 0 := by simp [firstCol, hl]
    have h3 := getElem?_getD_nat (STATES.getD 0 []) l (by rw [hS 0 (Nat.le_refl _)]; exact hl)
    obtain ⟨tr1, e1, w1, s1, _, hh1, g1, f1⟩ := setObs_spec tr hwf "hmm_inference" 0
      (.st ((STATES.getD 0 []).getD l 0)) (by decide) hinf hk
    obtain ⟨tr2, e2, w2, s2, _, hh2, g2, f2⟩ := setObs_spec tr1 w1 "hmm_cost" 0 (.num (t.obs 0 l)) (by decide)
      (by rw [hh1]; exact hcost) (by omega)
    refine ⟨tr2.posStep mode 0 ((STATES.getD 0 []).getD l 0), ?_, posStep_WF tr2 w2 _ _ _, ?_, ?_, ?_, ?_⟩
    · simp only [forward, writeBack, h1, h2, h3, List.length_nil, e1, e2]
    · rw [posStep_size, s2, s1]
    · intro n; rw [posStep_has, hh2, hh1]
    · intro j hj
      have : j = 0 := by omega
      subst this
      rw [posStep_get?, posStep_get?, f2 "hmm_inference" 0 (Or.inl (by decide)), g1, g2]
      exact ⟨rfl, rfl⟩
    · intro n j hnj
      rw [posStep_get?]
      rcases hnj with ⟨h1', h2'⟩ | hj
      · rw [f2 n j (Or.inl h2'), f1 n j (Or.inl h1')]
      · rw [f2 n j (Or.inr (by omega)), f1 n j (Or.inr (by omega))]
  | succ k ih =>
    intro l tr hpos hl hS hwf hinf hcost hk
    rw [forward_succ]
    have h1 : (colOf t (k+1)).1[l]? = some (val t (k+1) l) := by simp [colOf, hl]
    have h2 : (colOf t (k+1)).2[l]? = some (mrk t k l) := by simp [colOf, hl]
    have h3 := getElem?_getD_nat (STATES.getD (k+1) []) l (by rw [hS (k+1) (Nat.le_refl _)]; exact hl)
    obtain ⟨tr1, e1, w1, s1, _, hh1, g1, f1⟩ := setObs_spec tr hwf "hmm_inference" (k+1)
      (.st ((STATES.getD (k+1) []).getD l 0)) (by decide) hinf hk
    obtain ⟨tr2, e2, w2, s2, _, hh2, g2, f2⟩ := setObs_spec tr1 w1 "hmm_cost" (k+1) (.num (val t (k+1) l)) (by decide)
      (by rw [hh1]; exact hcost) (by omega)
    have hh3 : ∀ n, (tr2.posStep mode (k+1) ((STATES.getD (k+1) []).getD l 0)).has n = tr.has n := by
      intro n; rw [posStep_has, hh2, hh1]
    obtain ⟨tr', e', w', s', hh', g', f'⟩ := ih (mrk t k l) (tr2.posStep mode (k+1) ((STATES.getD (k+1) []).getD l 0))
      (fun j hj => hpos j (by omega))
      (mrk_lt t k l (hpos k (by omega))) (fun j hj => hS j (by omega)) (posStep_WF tr2 w2 _ _ _)
      (by rw [hh3]; exact hinf) (by rw [hh3]; exact hcost) (by rw [posStep_size]; omega)
    refine ⟨tr', ?_, w', ?_, fun n => by rw [hh' n, hh3 n], ?_, ?_⟩
    · simp only [writeBack, h1, h2, h3, forward_length, e1, e2]
      exact e'
    · rw [s', posStep_size, s2, s1]
    · intro j hj
      by_cases hjk : j = k + 1
      · subst hjk
        rw [f' "hmm_inference" (k+1) (Or.inr (by omega)), f' "hmm_cost" (k+1) (Or.inr (by omega)),
          posStep_get?, posStep_get?,
          f2 "hmm_inference" (k+1) (Or.inl (by decide)), g1, g2, back_self]
        exact ⟨rfl, rfl⟩
      · have hj' : j ≤ k := by omega
        rw [back_lt t k l j (by omega)]
        exact g' j hj'
    · intro n j hnj
      have q : (tr2.posStep mode (k+1) ((STATES.getD (k+1) []).getD l 0)).get? n j = tr.get? n j := by
        rw [posStep_get?]
        rcases hnj with ⟨h1', h2'⟩ | hj
        · rw [f2 n j (Or.inl h2'), f1 n j (Or.inl h1')]
        · rw [f2 n j (Or.inr (by omega)), f1 n j (Or.inr (by omega))]
      rw [← q]
      apply f'
      rcases hnj with h' | hj
      · exact Or.inl h'
      · exact Or.inr (by omega)

theorem states_getD (f : Nat → List Nat) (N k : Nat) (hk : k < N) : ((List.range N).map f).getD k [] = f k := by
  simp [List.getD_eq_getElem?_getD, hk]

/-- **One call of `estimate`, whatever the track carried before.** On a well-formed track of `N+1` epochs whose
observation features can be read and where `S` proposes at least one state per epoch, the call raises nothing,
or-s its `log` argument into the object, and leaves in `hmm_inference` / `hmm_cost` exactly what `decode` returns
on the cost tables of THIS call (`tablesOf`: the object's functions evaluated on the states and observations
compiled from the track as it was when the call was made, converted with the flag of this call): the state OBJECT
`S(track, k)[idx_k]` and the recorded cost, at every epoch — also when the two features existed before (an
earlier decoding, a copy of a decoded track, user features of those names). Every other feature is unchanged. -/
theorem estimate_ok [Add α] [Neg α] (nm : Num α) (h : Obj α) (tr : Trk α) (obs : List String) (log : Bool)
    (mode N : Nat) (hwf : tr.WF) (hsize : tr.size = N + 1) (OBS : List (List (ObsItem α)))
    (hobs : (List.range tr.size).mapM (fun k => getObsK nm tr obs k mode) = .ok OBS)
    (hS : ∀ k, k ≤ N → h.S tr k ≠ []) :
    ∃ r tr', decode (tablesOf nm { h with log := h.log || log } tr ((List.range tr.size).map (h.S tr)) OBS) (N+1) = .ok r ∧
      estimate nm h tr obs log mode = ({ h with log := h.log || log }, tr', none) ∧
      tr'.WF ∧ tr'.size = tr.size ∧ (∀ n, tr.has n = true → tr'.has n = true) ∧
      (∀ k, k ≤ N → tr'.get? "hmm_inference" k = some (.st ((h.S tr k).getD (seqOf r k) 0)) ∧
        ∃ v, costAt r k = some v ∧ tr'.get? "hmm_cost" k = some (.num v)) ∧
      (∀ n j, n ≠ "hmm_inference" → n ≠ "hmm_cost" → tr'.get? n j = tr.get? n j) := by
  generalize ht : tablesOf nm { h with log := h.log || log } tr ((List.range tr.size).map (h.S tr)) OBS = t
  have hn : ∀ k, k ≤ N → t.n k = (h.S tr k).length := by
    intro k hk
    subst ht
    show (((List.range tr.size).map (h.S tr)).getD k []).length = _
    rw [states_getD _ _ _ (by omega)]
  have hpos : ∀ k, k ≤ N → 0 < t.n k := by
    intro k hk
    rw [hn k hk]
    exact List.length_pos_iff.mpr (hS k hk)
  have hSt : ∀ j, j ≤ N → (((List.range tr.size).map (h.S tr)).getD j []).length = t.n j := by
    intro j hj
    rw [hn j hj, states_getD _ _ _ (by omega)]
  obtain ⟨rest, hf⟩ := forward_head t N
  have hne : (colOf t N).1 ≠ [] := by
    rw [colOf_fst]
    intro hc
    have := congrArg List.length hc
    simp at this
    have := hpos N (Nat.le_refl _); omega
  obtain ⟨idk, v, hr, hv, _⟩ := argmin?_spec (colOf t N).1 hne
  rw [colOf_fst] at hv
  have hidk : idk < t.n N := by
    by_cases hlt : idk < t.n N
    · exact hlt
    · simp [hlt] at hv
  obtain ⟨tr1, e1, w1, s1, _, hi1, hk1, _, f1⟩ := create_spec tr hwf "hmm_inference" (.num nm.zero) (by decide) (by omega)
  obtain ⟨tr2, e2, w2, s2, _, hc2, hk2, _, f2⟩ := create_spec tr1 w1 "hmm_cost" (.num nm.zero) (by decide) (by omega)
  obtain ⟨tr', e', w', s', hh', g', f'⟩ := writeBack_forward mode ((List.range tr.size).map (h.S tr)) t N idk tr2
    hpos hidk hSt w2 (hk2 _ hi1) hc2 (by omega)
  have hw := walk_forward t N idk hpos hidk
  refine ⟨(List.range (N+1)).map (fun j => (back t N idk j, val t j (back t N idk j))), tr', ?_, ?_, w', by omega, ?_, ?_, ?_⟩
  · rw [hf] at hw
    simp only [decode, hf, hr, hw]
    rw [← List.map_reverse, List.reverse_reverse]
  · rw [hf] at e'
    unfold estimate
    simp only [hsize] at ht e' hobs
    simp only [hsize, hobs, ht, hf, e1, e2, hr, e']
  · intro n hn'
    rw [hh' n]
    exact hk2 n (hk1 n hn')
  · intro k hk
    have hk' : k < N + 1 := by omega
    obtain ⟨g1, g2⟩ := g' k hk
    refine ⟨?_, val t k (back t N idk k), ?_, g2⟩
    · rw [g1, states_getD _ _ _ (by omega)]
      simp [seqOf, hk']
    · simp [costAt, hk']
  · intro n j h1 h2
    rw [f' n j (Or.inl ⟨h1, h2⟩), f2 n j h2, f1 n j h1]

/-- **An epoch without candidates at the end of the track.** When `S` returns an empty list for the last epoch the
call raises `ValueError` (`numpy.argmin` of an empty sequence) AFTER the two result features have been created:
the track has them (zero-initialised when they were new, otherwise as they were), every other feature is unchanged,
nothing is decoded. (An empty list at an earlier epoch raises `IndexError` in the backward loop, after the later
epochs have been written: `writeBack`.) -/
theorem estimate_last_empty [Add α] [Neg α] (nm : Num α) (h : Obj α) (tr : Trk α) (obs : List String) (log : Bool)
    (mode N : Nat) (hwf : tr.WF) (hsize : tr.size = N + 1) (OBS : List (List (ObsItem α)))
    (hobs : (List.range tr.size).mapM (fun k => getObsK nm tr obs k mode) = .ok OBS)
    (hS : h.S tr N = []) :
    ∃ tr', estimate nm h tr obs log mode = ({ h with log := h.log || log }, tr', some .value) ∧
      tr'.has "hmm_inference" = true ∧ tr'.has "hmm_cost" = true ∧
      (∀ n j, n ≠ "hmm_inference" → n ≠ "hmm_cost" → tr'.get? n j = tr.get? n j) ∧
      (tr.has "hmm_inference" = true → tr.has "hmm_cost" = true → tr' = tr) := by
  generalize ht : tablesOf nm { h with log := h.log || log } tr ((List.range tr.size).map (h.S tr)) OBS = t
  have hn : t.n N = 0 := by
    subst ht
    show (((List.range tr.size).map (h.S tr)).getD N []).length = _
    rw [states_getD _ _ _ (by omega), hS]; rfl
  obtain ⟨rest, hf⟩ := forward_head t N
  have hcol : (colOf t N).1 = [] := by rw [colOf_fst, hn]; rfl
  obtain ⟨tr1, e1, w1, s1, _, hi1, hk1, q1, f1⟩ := create_spec tr hwf "hmm_inference" (.num nm.zero) (by decide) (by omega)
  obtain ⟨tr2, e2, w2, s2, _, hc2, hk2, q2, f2⟩ := create_spec tr1 w1 "hmm_cost" (.num nm.zero) (by decide) (by omega)
  refine ⟨tr2, ?_, hk2 _ hi1, hc2, ?_, ?_⟩
  · unfold estimate
    simp only [hsize] at ht hobs
    simp only [hsize, hobs, ht, hf, e1, e2, hcol, argmin?]
  · intro n j h1 h2
    rw [f2 n j h2, f1 n j h1]
  · intro a b
    have := q1 a
    subst this
    exact q2 b
end
end TV.Hmm
