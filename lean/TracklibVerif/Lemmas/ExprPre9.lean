import TracklibVerif.Lemmas.ExprPre8
/-! # Extension: the bare minus forms `-a…`, `lhs=-a…`, `f{-a…}`, `(-a+b)`

`__unaryOp` inserts a `0` in front of a minus sign that stands at the very start, after `=` or after `(`
(a `{` has become `@(` by then). So typing `P-Q` where `P` is empty or ends with `=`, `(` or `{` is
typing `P0-Q`: when `P0-Q` is the source string of a statement, `preprocess` gives the same result. -/
namespace TV.Expr
open TV.Rpn

/-- the two brace maps of `__specialOpChar` -/
def sp (s : Str) : Str := (s.flatMap (fm '{' ['@', '('])).flatMap (fm '}' [')'])

theorem sp_append (s t : Str) : sp (s ++ t) = sp s ++ sp t := by simp [sp, List.flatMap_append]

theorem sp_cons {c : Char} (h1 : c ≠ '{') (h2 : c ≠ '}') (t : Str) : sp (c :: t) = c :: sp t := by
  simp [sp, List.flatMap_cons, fm_ne _ h1, fm_ne _ h2]

/-- `__specialOpChar` on a chain -/
theorem special_flat (R : Char → Char → Bool) (hb1 : chn R ['*', '*'] = false) (hb2 : chn R ['.', '*'] = false)
    (hb3 : chn R ['>', '>'] = false) (hb4 : chn R ['<', '<'] = false)
    (s : Str) (c0 : chn R s = true) (c1 : chn R (sp s) = true) : specialOpChar s = sp s := by
  simp only [specialOpChar]
  rw [replace_chn ['*', '*'] _ c0 hb1, replace_chn ['.', '*'] _ c0 hb2, replace_one s, replace_one]
  show replace (replace (sp s) ['>', '>'] ['&']) ['<', '<'] ['$'] = sp s
  rw [replace_chn ['>', '>'] _ c1 hb3, replace_chn ['<', '<'] _ c1 hb4]

theorem convertReflex_id' (R : Char → Char → Bool) (hbad : ∀ op ∈ reflexOps, chn R (op ++ ['=']) = false)
    {s : Str} (hs : chn R s = true) : convertReflexOperator s = s := by
  unfold convertReflexOperator
  apply foldl_fix
  intro op hop
  have : contains (op ++ ['=']) s = false := contains_false_of_chn hs (hbad op hop)
  simp only [this, Bool.false_eq_true, if_false]

theorem rep2_chn {R : Char → Char → Bool} {s : Str} (a b : Char) (rep : Str) (hs : chn R s = true)
    (hab : R a b = false) : rep2 a b rep s = s := by
  rw [← replace_two]
  exact replace_chn _ _ hs (by simp [chn, hab])

theorem rep2_cons_ne {a b x : Char} (rep : Str) (h : x ≠ a) (t : Str) : rep2 a b rep (x :: t) = x :: rep2 a b rep t := by
  have := rep2_append a b rep 1 [x] t (by simp) (Or.inl (by simpa using h))
  simpa [rep2] using this

/-- adjacency in `P-Q`: a minus may follow `=` and `{` (and `(`, as in `okp`) -/
def okpB (a b : Char) : Bool := okp a b || (b == '-' && (a == '=' || a == '{'))

theorem okpB_of_okp (a b : Char) (h : okp a b = true) : okpB a b = true := by simp [okpB, h]

theorem chn_tail {R : Char → Char → Bool} {c : Char} {s : Str} (h : chn R (c :: s) = true) : chn R s = true := by
  cases s with
  | nil => rfl
  | cons d r => rw [chn_cons2, Bool.and_eq_true] at h; exact h.2

/-- dropping the `0` of `…c0-…` for `c` among `= ( {` (or at the start) keeps a chain, for the larger relation -/
theorem chn_drop_zero (X Y : Str) (hX : X = [] ∨ ∃ X' c, X = X' ++ [c] ∧ (c = '=' ∨ c = '(' ∨ c = '{'))
    (h : chn okp (X ++ '0' :: '-' :: Y) = true) : chn okpB (X ++ '-' :: Y) = true := by
  rw [chn_append] at h
  simp only [Bool.and_eq_true] at h
  obtain ⟨⟨h1, h2⟩, _⟩ := h
  have h3 : chn okp ('-' :: Y) = true := chn_tail h2
  rw [chn_append, chn_mono okpB_of_okp _ h1, chn_mono okpB_of_okp _ h3]
  rcases hX with rfl | ⟨X', c, rfl, hc⟩
  · rfl
  · rcases hc with rfl | rfl | rfl <;> simp [junc] <;> decide

/-- … and with `(` in front, even for `okp` itself -/
theorem chn_drop_zero_lp (X Y : Str) (h : chn okp ((X ++ ['(']) ++ '0' :: '-' :: Y) = true) :
    chn okp ((X ++ ['(']) ++ '-' :: Y) = true := by
  rw [chn_append] at h
  simp only [Bool.and_eq_true] at h
  obtain ⟨⟨h1, h2⟩, _⟩ := h
  have h3 : chn okp ('-' :: Y) = true := chn_tail h2
  rw [chn_append, h1, h3]
  simp [junc]; decide

/-- the eight replacements of `__unaryOp` -/
def uchain (e : Str) : Str :=
  let e := replace (replace e ['=', '-'] ['=', '0', '-']) ['=', '+'] ['=', '0', '+']
  let e := replace (replace e ['(', '-'] ['(', '0', '-']) ['(', '+'] ['(', '0', '+']
  let e := replace (replace e ['-', '-'] ['+']) ['+', '+'] ['+']
  replace (replace e ['+', '-'] ['-']) ['-', '+'] ['-']

theorem unaryOp_plain {s : Str} {c : Char} (hc : s.head? = some c) (h1 : c ≠ '-') (h2 : c ≠ '+') :
    unaryOp s = .ok (uchain s) := by
  cases s with
  | nil => simp at hc
  | cons d r =>
    simp only [List.head?_cons, Option.some.injEq] at hc
    subst hc
    have hb : (d == '-' || d == '+') = false := by simp [h1, h2]
    simp only [unaryOp, hb, Bool.false_eq_true, if_false, uchain]

theorem unaryOp_minus (s : Str) : unaryOp ('-' :: s) = .ok (uchain ('0' :: '-' :: s)) := by
  simp only [unaryOp, uchain]
  rfl

/-- `__unaryOp` on `P-Q` and on `P0-Q`, after the braces have been rewritten -/
theorem unaryOp_drop_zero (P1 Q1 : Str)
    (hP : P1 = [] ∨ ∃ X c, P1 = X ++ [c] ∧ (c = '=' ∨ c = '('))
    (c1 : chn okp (P1 ++ '0' :: '-' :: Q1) = true)
    (hfirst : ∃ c, (P1 ++ '0' :: '-' :: Q1).head? = some c ∧ c ≠ '-' ∧ c ≠ '+') :
    unaryOp (P1 ++ '-' :: Q1) = unaryOp (P1 ++ '0' :: '-' :: Q1) := by
  obtain ⟨c, hc, hm, hp⟩ := hfirst
  rw [unaryOp_plain hc hm hp]
  rcases hP with rfl | ⟨X, d, rfl, hd⟩
  · exact unaryOp_minus Q1
  · have hc' : ((X ++ [d]) ++ '-' :: Q1).head? = some c := by
      cases X with
      | nil => simpa using hc
      | cons x xs => simpa using hc
    rw [unaryOp_plain hc' hm hp]
    congr 1
    have cX : chn okp X = true := by
      rw [List.append_assoc, chn_append] at c1
      simp only [Bool.and_eq_true] at c1
      exact c1.1.1
    have cQ : chn okp Q1 = true := by
      rw [chn_append] at c1
      simp only [Bool.and_eq_true] at c1
      exact chn_tail (chn_tail c1.1.2)
    rcases hd with rfl | rfl
    · -- after `=`: the first replacement restores the `0`
      have e1 : replace ((X ++ ['=']) ++ '-' :: Q1) ['=', '-'] ['=', '0', '-'] = (X ++ ['=']) ++ '0' :: '-' :: Q1 := by
        rw [replace_two, List.append_assoc, rep2_append _ _ _ X.length X _ (Nat.le_refl _) (Or.inr (by simp)),
          rep2_chn _ _ _ cX (by decide)]
        have : rep2 '=' '-' ['=', '0', '-'] (['='] ++ '-' :: Q1) = ['=', '0', '-'] ++ rep2 '=' '-' ['=', '0', '-'] Q1 := by
          simp [rep2]
        rw [this, rep2_chn _ _ _ cQ (by decide)]
        simp
      have e2 : replace ((X ++ ['=']) ++ '0' :: '-' :: Q1) ['=', '-'] ['=', '0', '-'] = (X ++ ['=']) ++ '0' :: '-' :: Q1 :=
        replace_chn _ _ c1 (by decide)
      simp only [uchain, e1, e2]
    · -- after `(`: the third replacement restores the `0`
      have c1' := chn_drop_zero_lp X Q1 c1
      have r2eq : rep2 '(' '-' ['(', '0', '-'] ((X ++ ['(']) ++ '-' :: Q1)
          = rep2 '(' '-' ['(', '0', '-'] ((X ++ ['(']) ++ '0' :: '-' :: Q1) := by
        rw [List.append_assoc, List.append_assoc,
          rep2_append _ _ _ X.length X _ (Nat.le_refl _) (Or.inr (by simp)),
          rep2_append _ _ _ X.length X _ (Nat.le_refl _) (Or.inr (by simp))]
        congr 1
        have a1 : rep2 '(' '-' ['(', '0', '-'] (['('] ++ '-' :: Q1) = ['(', '0', '-'] ++ rep2 '(' '-' ['(', '0', '-'] Q1 := by
          simp [rep2]
        have a2 : rep2 '(' '-' ['(', '0', '-'] (['('] ++ '0' :: '-' :: Q1)
            = ['(', '0', '-'] ++ rep2 '(' '-' ['(', '0', '-'] Q1 := by
          have h0 : rep2 '(' '-' ['(', '0', '-'] ('(' :: '0' :: '-' :: Q1)
              = '(' :: rep2 '(' '-' ['(', '0', '-'] ('0' :: '-' :: Q1) := by simp [rep2]
          simp only [List.cons_append, List.nil_append]
          rw [h0, rep2_cons_ne _ (by decide), rep2_cons_ne _ (by decide)]
        rw [a1, a2]
      simp only [uchain]
      rw [replace_chn ['=', '-'] _ c1' (by decide), replace_chn ['=', '+'] _ c1' (by decide),
        replace_chn ['=', '-'] _ c1 (by decide), replace_chn ['=', '+'] _ c1 (by decide),
        replace_two ((X ++ ['(']) ++ '-' :: Q1), replace_two ((X ++ ['(']) ++ '0' :: '-' :: Q1), r2eq]

/-- the chain on `P-Q` and on `P0-Q` -/
theorem rewr_drop_zero (P Q : Str)
    (hP : P = [] ∨ ∃ P' c, P = P' ++ [c] ∧ (c = '=' ∨ c = '(' ∨ c = '{'))
    (hsp : ' ' ∉ P ++ '0' :: '-' :: Q)
    (c0 : chn okp (P ++ '0' :: '-' :: Q) = true)
    (c1 : chn okp (sp (P ++ '0' :: '-' :: Q)) = true)
    (hfirst : ∃ c, (sp (P ++ '0' :: '-' :: Q)).head? = some c ∧ c ≠ '-' ∧ c ≠ '+') :
    rewr (P ++ '-' :: Q) = rewr (P ++ '0' :: '-' :: Q) := by
  have eS : sp (P ++ '0' :: '-' :: Q) = sp P ++ '0' :: '-' :: sp Q := by
    rw [sp_append, sp_cons (by decide) (by decide), sp_cons (by decide) (by decide)]
  have eU : sp (P ++ '-' :: Q) = sp P ++ '-' :: sp Q := by
    rw [sp_append, sp_cons (by decide) (by decide)]
  rw [eS] at c1 hfirst
  have hP1 : sp P = [] ∨ ∃ X c, sp P = X ++ [c] ∧ (c = '=' ∨ c = '(') := by
    rcases hP with rfl | ⟨P', c, rfl, hc⟩
    · exact Or.inl rfl
    · right
      rcases hc with rfl | rfl | rfl
      · exact ⟨sp P', '=', by rw [sp_append]; rfl, Or.inl rfl⟩
      · exact ⟨sp P', '(', by rw [sp_append]; rfl, Or.inr rfl⟩
      · exact ⟨sp P' ++ ['@'], '(', by rw [sp_append]; simp [sp, fm], Or.inr rfl⟩
  have hP1B : sp P = [] ∨ ∃ X c, sp P = X ++ [c] ∧ (c = '=' ∨ c = '(' ∨ c = '{') := by
    rcases hP1 with h | ⟨X, c, h, hc⟩
    · exact Or.inl h
    · exact Or.inr ⟨X, c, h, by rcases hc with h | h <;> simp [h]⟩
  have cU0 : chn okpB (P ++ '-' :: Q) = true := chn_drop_zero P Q hP c0
  have cU1 : chn okpB (sp (P ++ '-' :: Q)) = true := by rw [eU]; exact chn_drop_zero (sp P) (sp Q) hP1B c1
  have a1 : replace (P ++ '-' :: Q) [' '] [] = P ++ '-' :: Q := by
    apply replace_absent
    apply contains_single_false
    intro hm
    apply hsp
    simp only [List.mem_append, List.mem_cons] at hm ⊢
    rcases hm with hm | hm | hm
    · exact Or.inl hm
    · exact Or.inr (Or.inr (Or.inl hm))
    · exact Or.inr (Or.inr (Or.inr hm))
  have a2 : specialOpChar (P ++ '-' :: Q) = sp (P ++ '-' :: Q) :=
    special_flat okpB (by decide) (by decide) (by decide) (by decide) _ cU0 cU1
  have a3 : convertReflexOperator (sp (P ++ '-' :: Q)) = sp (P ++ '-' :: Q) :=
    convertReflex_id' okpB (by decide) cU1
  have b1 : replace (P ++ '0' :: '-' :: Q) [' '] [] = P ++ '0' :: '-' :: Q :=
    replace_absent _ _ _ (contains_single_false hsp)
  have c1' : chn okp (sp (P ++ '0' :: '-' :: Q)) = true := by rw [eS]; exact c1
  have b2 : specialOpChar (P ++ '0' :: '-' :: Q) = sp (P ++ '0' :: '-' :: Q) :=
    special_flat okp (by decide) (by decide) (by decide) (by decide) _ c0 c1'
  have b3 : convertReflexOperator (sp (P ++ '0' :: '-' :: Q)) = sp (P ++ '0' :: '-' :: Q) := convertReflex_id c1'
  simp only [rewr, a1, a2, a3, b1, b2, b3]
  rw [eS, eU, unaryOp_drop_zero (sp P) (sp Q) hP1 c1 hfirst]

theorem sp_pre_src (pre : Str) (hp : PreOK pre) (e : Sx) (h : SrcOK e) : sp (pre ++ src e) = pre ++ mid e := by
  unfold sp
  rw [List.flatMap_append, flatMap_fm_absent hp.nolb, src, pr_flatMap '{' _ (Or.inl rfl) _ _ _ (by decide) e h,
    List.flatMap_append, flatMap_fm_absent hp.norb, pr_flatMap '}' _ (Or.inr rfl) _ _ _ (by decide) e h]
  rfl

/-- **bare minus**: if `P0-Q` is the source string of a statement (`pre` is empty or `lhs=`) and `P` is empty or
    ends with `=`, `(` or `{`, then typing `P-Q` gives the same rewritten string -/
theorem preprocess_bare_minus (pre : Str) (hp : PreOK pre) (e : Sx) (h : SrcOK e) (P Q : Str)
    (hS : pre ++ src e = P ++ '0' :: '-' :: Q)
    (hP : P = [] ∨ ∃ P' c, P = P' ++ [c] ∧ (c = '=' ∨ c = '(' ∨ c = '{')) :
    preprocess (P ++ '-' :: Q) = preprocess (pre ++ src e) := by
  have i0 := pr_inv (Or.inl rfl) (Or.inl rfl) (Or.inl rfl) e h
  have i1 := pr_inv (Or.inr rfl) (Or.inr rfl) (Or.inl rfl) e h
  have hr := rewr_src pre hp e h
  have hsp : ' ' ∉ pre ++ src e := by
    simp only [List.mem_append, not_or]
    exact ⟨hp.nosp, src_no_space e h⟩
  have hfirst : ∃ c, (sp (pre ++ src e)).head? = some c ∧ c ≠ '-' ∧ c ≠ '+' := by
    obtain ⟨c, r, hcr, h1, h2⟩ := hp.first _ i1
    exact ⟨c, by rw [sp_pre_src pre hp e h]; show (pre ++ pr ['@', '('] [')'] ['(', '-'] e).head? = some c; rw [hcr]; rfl, h1, h2⟩
  have hd := rewr_drop_zero P Q hP (hS ▸ hsp) (hS ▸ hp.chn _ i0)
    (hS ▸ (by rw [sp_pre_src pre hp e h]; exact hp.chn _ i1)) (hS ▸ hfirst)
  rw [← hS] at hd
  rw [hr] at hd
  rw [preprocess_of_rewr hd, preprocess_of_rewr hr]

variable {α : Type} [Scalar α]

theorem operate_bare_minus (tr : Tr α) (pre : Str) (hp : PreOK pre) (e : Sx) (h : SrcOK e) (P Q : Str)
    (hS : pre ++ src e = P ++ '0' :: '-' :: Q)
    (hP : P = [] ∨ ∃ P' c, P = P' ++ [c] ∧ (c = '=' ∨ c = '(' ∨ c = '{')) :
    operate tr (P ++ '-' :: Q) = operate tr (pre ++ src e) :=
  operate_congr tr (preprocess_bare_minus pre hp e h P Q hS hP)

/-- **`-a…` at the very start** (value form): `-Q` is `0-Q` -/
theorem operate_leading_minus (tr : Tr α) (e : Sx) (v : Val α) (Q : Str) (hS : src e = '0' :: '-' :: Q)
    (h : SrcOK e) (hq : NoQuote (desugar e)) (hw : WFx (desugar e)) (hn : tr.n ≠ 0) (hnt : NoTemps tr)
    (hl : NoLitNames tr) (hd : denoteM tr (desugar e) = .ok v) :
    operate tr ('-' :: Q) = (.ok (some (v.toVec tr.n)), tr) := by
  have := operate_bare_minus tr [] preOK_nil e h [] Q (by simpa using hS) (Or.inl rfl)
  simp only [List.nil_append] at this
  rw [this]
  exact operate_source_value tr e v h hq hw hn hnt hl hd

/-- **`lhs=-a…`**: `lhs=-Q` is `lhs=0-Q` -/
theorem operate_assign_minus (tr : Tr α) (lhs : Str) (e : Sx) (Q : Str) (hS : src e = '0' :: '-' :: Q)
    (hl : NameOK lhs) (hg : GoodTok lhs) (h : SrcOK e) (hq : NoQuote (desugar e)) :
    operate tr (lhs ++ '=' :: '-' :: Q)
      = operateTokens tr (lhs :: (Expr.post (desugar e) ++ [['=']])) true := by
  have := operate_bare_minus tr (lhs ++ ['=']) (preOK_lhs hl) e h (lhs ++ ['=']) Q (by rw [hS])
    (Or.inr ⟨lhs, '=', rfl, Or.inl rfl⟩)
  simp only [List.append_assoc, List.cons_append, List.nil_append] at this
  rw [this]
  exact operate_source_tokens tr lhs e hl hg h hq

/-- `-a+b` is `0-a+b`; `c=-a*b` is `c=0-a*b`; `ABS{-a}` is `ABS{0-a}` -/
example : src (.bin '+' (.bin '-' (.num ['0']) (.var ['a'])) (.var ['b'])) = '0' :: '-' :: "a+b".toList := by
  decide +kernel
example : (preprocess "-a+b".toList).toOption = some ("#output = 0-a+b".toList, false) := by decide +kernel
example : (preprocess "c=-a*b".toList).toOption = some ("c=0-a*b".toList, true) := by decide +kernel
example : (preprocess "ABS{-a}+(-a+b)".toList).toOption = some ("#output = ABS@(0-a)+(0-a+b)".toList, false) := by
  decide +kernel

end TV.Expr
