import TracklibVerif.Lemmas.Expr
/-! The tree semantics `denoteM` (operator classes as coded, with their number∘feature and
feature∘number forms and literal folding) agrees with plain *pointwise* evaluation: every leaf is a
vector (a number is a constant vector) and every operator acts observation by observation. The only
facts about arithmetic used are the two `Laws` below: commutativity of `+` and `*` (the number∘feature forms
`sr+`, `sr*` are bound to the feature∘number operators). Since fix 5676890 the scalar divisions are divisions
(`x / s`, `s / x`), so the two reciprocal laws `x*(1/s) = x/s`, `(1/x)*s = s/x` — false of IEEE doubles — are gone. -/
namespace TV.Expr
open Scalar
set_option linter.unusedSectionVars false
set_option linter.unusedSimpArgs false
variable {α : Type} [Scalar α]

/-- what "ordinary arithmetic" has to satisfy for the scalar forms of the operators to be the
    pointwise ones: `x+s = s+x`, `x*s = s*x` (both hold of IEEE doubles, NaN payloads apart) -/
structure Laws (α : Type) [Scalar α] : Prop where
  add_comm : ∀ x s : α, add x s = add s x
  mul_comm : ∀ x s : α, mul x s = mul s x

/-- every column has one value per observation -/
def WellSized (tr : Tr α) : Prop :=
  tr.xs.length = tr.n ∧ tr.ys.length = tr.n ∧ tr.zs.length = tr.n ∧ tr.ts.length = tr.n ∧
    ∀ s c, lookup s tr.feats = some c → c.length = tr.n

/-- **pointwise semantics**: numbers are constant vectors; `+ - * / ^ < >` act at each observation
    (`/` gives NaN where the denominator is 0, as documented for `Divider`); functions as documented -/
def denote (tr : Tr α) : Ex → Except Err (List α)
  | .num s => match litOf s with
    | some v => .ok (List.replicate tr.n v)
    | none => .error "err:value"
  | .var s => getAF tr s
  | .bin o l r => do
    let a ← denote tr l
    let b ← denote tr r
    vvOp o a b
  | .call f e => do
    let a ← denote tr e
    if isVoidFn f then voidFn f tr.n a
    else if isAggFn f then (aggFn f a).map (fun v => List.replicate tr.n v)
    else .error "err:unsupported"

/-! ### generic facts about the monadic maps -/

theorem zipWithM'_replicate {β γ δ : Type} (f : β → γ → Except Err δ) (x : β) (y : γ) (w : δ) (n : Nat)
    (h : f x y = .ok w) : zipWithM' f (List.replicate n x) (List.replicate n y) = .ok (List.replicate n w) := by
  induction n with
  | zero => rfl
  | succ n ih => simp [List.replicate_succ, zipWithM', h, ih, bind, Except.bind, pure, Except.pure]

theorem zipWithM'_right_const {β γ δ : Type} (f : β → γ → Except Err δ) (s : γ) (a : List β) :
    zipWithM' f a (List.replicate a.length s) = mapM' (fun x => f x s) a := by
  induction a with
  | nil => rfl
  | cons x xs ih => simp [List.replicate_succ, zipWithM', mapM', ih]

theorem zipWithM'_left_const {β γ δ : Type} (f : γ → β → Except Err δ) (s : γ) (a : List β) :
    zipWithM' f (List.replicate a.length s) a = mapM' (fun x => f s x) a := by
  induction a with
  | nil => rfl
  | cons x xs ih => simp [List.replicate_succ, zipWithM', mapM', ih]

theorem mapM'_pure {β γ : Type} (g : β → γ) (a : List β) : mapM' (fun x => (Except.ok (g x) : Except Err γ)) a = .ok (a.map g) := by
  induction a with
  | nil => rfl
  | cons x xs ih => simp [mapM', ih, bind, Except.bind, pure, Except.pure]

theorem mapM'_congr {β γ : Type} (f g : β → Except Err γ) (a : List β) (h : ∀ x ∈ a, f x = g x) : mapM' f a = mapM' g a := by
  induction a with
  | nil => rfl
  | cons x xs ih => simp [mapM', h x (by simp), ih (fun y hy => h y (by simp [hy]))]

theorem mapM'_length {β γ : Type} (f : β → Except Err γ) (a : List β) (c : List γ) (h : mapM' f a = .ok c) : c.length = a.length := by
  induction a generalizing c with
  | nil => simp [mapM'] at h; subst h; rfl
  | cons x xs ih =>
    simp only [mapM'] at h
    obtain ⟨y, hy, h⟩ := bind_ok h
    obtain ⟨ys, hys, h⟩ := bind_ok h
    cases h
    simp [ih ys hys]

theorem zipWithM'_length {β γ δ : Type} (f : β → γ → Except Err δ) (a : List β) (b : List γ) (c : List δ)
    (h : zipWithM' f a b = .ok c) : c.length = min a.length b.length := by
  induction a generalizing b c with
  | nil => simp [zipWithM'] at h; subst h; simp
  | cons x xs ih =>
    cases b with
    | nil => simp [zipWithM'] at h; subst h; simp
    | cons y ys =>
      simp only [zipWithM'] at h
      obtain ⟨z, hz, h⟩ := bind_ok h
      obtain ⟨zs, hzs, h⟩ := bind_ok h
      cases h
      simp [ih ys zs hzs]


/-! ### each dispatch case is pointwise -/

theorem binOps_cases {o : Char} (ho : binOps.contains o = true) :
    o = '+' ∨ o = '-' ∨ o = '*' ∨ o = '/' ∨ o = '^' ∨ o = '>' ∨ o = '<' := by
  simpa [binOps] using ho

/-- number ∘ number, folded by the evaluator = the same operation on constant vectors -/
theorem litlit_pointwise (o : Char) (x y w : α) (n : Nat) (h : litOp o x y = .ok w) :
    vvOp o (List.replicate n x) (List.replicate n y) = .ok (List.replicate n w) := by
  apply zipWithM'_replicate
  unfold litOp at h
  unfold vvAt
  by_cases h1 : o = '+'
  · simpa [h1] using h
  by_cases h2 : o = '-'
  · simpa [h1, h2] using h
  by_cases h3 : o = '*'
  · simpa [h1, h2, h3] using h
  by_cases h4 : o = '/'
  · simp only [h1, h2, h3, h4, if_false, if_true] at h ⊢
    cases hz : isZero y with
    | true => simp [hz] at h
    | false => simpa [hz] using h
  · simpa [h1, h2, h3, h4] using h

/-- feature ∘ number (`s+ s- s* s/ s^ s> s<`) = the operation against the constant vector -/
theorem veclit_pointwise (o : Char) (a c : List α) (s : α) (h : vsOp o a s = .ok c) :
    vvOp o a (List.replicate a.length s) = .ok c := by
  unfold vvOp
  rw [zipWithM'_right_const]
  unfold vsOp at h
  unfold vvAt
  by_cases h1 : o = '+'
  · subst h1; simp only [if_true] at h ⊢; rw [mapM'_pure]; exact h
  by_cases h2 : o = '-'
  · subst h2; simp only [h1, if_false, if_true] at h ⊢; rw [mapM'_pure]; exact h
  by_cases h3 : o = '*'
  · subst h3; simp only [h1, h2, if_false, if_true] at h ⊢; rw [mapM'_pure]; exact h
  by_cases h4 : o = '/'
  · subst h4
    simp only [h1, h2, h3, if_false, if_true] at h ⊢
    cases hz : isZero s with
    | true =>
      cases a with
      | nil => simpa [mapM'] using h
      | cons x xs => simp only [mapM', hz, if_true] at h; cases h
    | false =>
      simp only [hz, Bool.false_eq_true, if_false] at h ⊢
      exact h
  by_cases h5 : o = '^'
  · subst h5; simp only [h1, h2, h3, h4, if_false, if_true] at h ⊢; exact h
  by_cases h6 : o = '>'
  · subst h6; simp only [h1, h2, h3, h4, h5, if_false, if_true] at h ⊢; rw [mapM'_pure]; exact h
  by_cases h7 : o = '<'
  · subst h7; simp only [h1, h2, h3, h4, h5, h6, if_false, if_true] at h ⊢; rw [mapM'_pure]; exact h
  · simp [h1, h2, h3, h4, h5, h6, h7] at h

/-- `number / x` with Python's ZeroDivisionError on a zero value, when it returns, is `Divider`'s NaN-on-zero quotient -/
theorem mapM'_div_ok (s : α) (a c : List α)
    (h : mapM' (fun x => if isZero x then (Except.error "err:zerodiv" : Except Err α) else .ok (div s x)) a = .ok c) :
    mapM' (fun x => (Except.ok (if isZero x then nan else div s x) : Except Err α)) a = .ok c := by
  induction a generalizing c with
  | nil => exact h
  | cons x xs ih =>
    simp only [mapM'] at h ⊢
    obtain ⟨y, hy, h⟩ := bind_ok h
    obtain ⟨ys, hys, h⟩ := bind_ok h
    cases h
    cases hz : isZero x with
    | true => simp [hz] at hy
    | false =>
      simp only [hz, Bool.false_eq_true, if_false, Except.ok.injEq] at hy
      subst hy
      simp [ih ys hys, bind, Except.bind, pure, Except.pure]

/-- number ∘ feature (`sr+ sr- sr* sr/ sr^ sr> sr<`) = the operation with the constant vector on the left -/
theorem litvec_pointwise (L : Laws α) (o : Char) (a c : List α) (s : α) (h : svOp o s a = .ok c) :
    vvOp o (List.replicate a.length s) a = .ok c := by
  unfold vvOp
  rw [zipWithM'_left_const]
  unfold svOp at h
  unfold vvAt
  by_cases h1 : o = '+'
  · subst h1; simp only [if_true] at h ⊢; rw [mapM'_pure, ← h]; congr 1
    apply List.map_congr_left; intro x _; exact (L.add_comm x s).symm
  by_cases h2 : o = '-'
  · subst h2; simp only [h1, if_false, if_true] at h ⊢; rw [mapM'_pure]; exact h
  by_cases h3 : o = '*'
  · subst h3; simp only [h1, h2, if_false, if_true] at h ⊢; rw [mapM'_pure, ← h]; congr 1
    apply List.map_congr_left; intro x _; exact (L.mul_comm x s).symm
  by_cases h4 : o = '/'
  · subst h4
    simp only [h1, h2, h3, if_false, if_true] at h ⊢
    exact mapM'_div_ok s a c h
  by_cases h5 : o = '^'
  · subst h5; simp only [h1, h2, h3, h4, if_false, if_true] at h ⊢; exact h
  by_cases h6 : o = '>'
  · subst h6; simp only [h1, h2, h3, h4, h5, if_false, if_true] at h ⊢; rw [mapM'_pure]; exact h
  by_cases h7 : o = '<'
  · subst h7; simp only [h1, h2, h3, h4, h5, h6, if_false, if_true] at h ⊢; rw [mapM'_pure]; exact h
  · simp [h1, h2, h3, h4, h5, h6, h7] at h


/-! ### lengths -/

theorem getAF_length {tr : Tr α} (hs : WellSized tr) {s : Str} {c : List α} (h : getAF tr s = .ok c) : c.length = tr.n := by
  obtain ⟨hx, hy, hz, ht, hf⟩ := hs
  unfold getAF at h
  repeat' split at h
  all_goals first
    | (cases h; first | exact hx | exact hy | exact hz | exact ht | simp)
    | (rename_i hl; cases h; exact hf _ _ hl)
    | cases h

theorem integAux_length (acc : α) (l : List α) : (integAux acc l).length = l.length := by
  induction l generalizing acc with
  | nil => rfl
  | cons x xs ih => simp [integAux, ih]

theorem diff2Mid_length (l : List α) : (diff2Mid l).length = l.length - 2 := by
  induction l using diff2Mid.induct with
  | case1 a b c rest ih => simp only [diff2Mid, List.length_cons, ih]; omega
  | case2 l h =>
    rw [diff2Mid]
    · match l, h with
      | [], _ => rfl
      | [_], _ => rfl
      | [_, _], _ => rfl
      | a :: b :: c :: rest, h => exact absurd rfl (h a b c rest)
    · exact h

theorem voidFn_length (f : Str) (n : Nat) (a c : List α) (ha : a.length = n) (hn : n ≠ 0)
    (h : voidFn f n a = .ok c) : c.length = n := by
  unfold voidFn at h
  by_cases h0 : f = ['I']
  · rw [if_pos h0] at h
    cases h; simp [integ, integAux_length, ha]; omega
  rw [if_neg h0] at h
  by_cases h1 : f = ['D']
  · rw [if_pos h1] at h
    cases h; simp [diff, ha]; omega
  rw [if_neg h1] at h
  by_cases h2 : f = ['D', '2']
  · rw [if_pos h2] at h
    cases h
    unfold diff2
    split
    · simp; omega
    · simp [diff2Mid_length, ha]; omega
  rw [if_neg h2] at h
  by_cases h3 : f = ['A', 'B', 'S']
  · rw [if_pos h3] at h
    cases h; simp [ha]
  rw [if_neg h3] at h
  by_cases h4 : f = ['S', 'Q', 'R', 'T']
  · rw [if_pos h4] at h
    rw [mapM'_length _ _ _ h, ha]
  rw [if_neg h4] at h
  by_cases h5 : f = logName
  · rw [if_pos h5] at h
    rw [mapM'_length _ _ _ h, ha]
  rw [if_neg h5] at h
  by_cases h6 : f = ['D', 'I', 'O', 'D', 'E']
  · rw [if_pos h6] at h
    cases h; simp [ha]
  rw [if_neg h6] at h
  by_cases h7 : f = ['S', 'I', 'G', 'N']
  · rw [if_pos h7] at h
    cases h; simp [ha]
  rw [if_neg h7] at h
  by_cases h8 : f = ['E', 'X', 'P']
  · rw [if_pos h8] at h
    rw [mapM'_length _ _ _ h, ha]
  rw [if_neg h8] at h
  by_cases h9 : f = ['C', 'O', 'S']
  · rw [if_pos h9] at h
    rw [mapM'_length _ _ _ h, ha]
  rw [if_neg h9] at h
  by_cases h10 : f = ['S', 'I', 'N']
  · rw [if_pos h10] at h
    rw [mapM'_length _ _ _ h, ha]
  rw [if_neg h10] at h
  by_cases h11 : f = ['T', 'A', 'N']
  · rw [if_pos h11] at h
    rw [mapM'_length _ _ _ h, ha]
  rw [if_neg h11] at h
  cases h

theorem vsOp_length (o : Char) (a c : List α) (s : α) (h : vsOp o a s = .ok c) : c.length = a.length := by
  unfold vsOp at h
  repeat' split at h
  all_goals first
    | (cases h; simp; done)
    | exact mapM'_length _ _ _ h
    | cases h

theorem svOp_length (o : Char) (a c : List α) (s : α) (h : svOp o s a = .ok c) : c.length = a.length := by
  unfold svOp at h
  repeat' split at h
  all_goals first
    | (cases h; simp; done)
    | exact mapM'_length _ _ _ h
    | (obtain ⟨inv, hinv, h⟩ := bind_ok h; cases h; simp [mapM'_length _ _ _ hinv]; done)
    | cases h

/-! ### the theorem -/

/-- **tree semantics = pointwise arithmetic.** Whenever the evaluator's semantics of a tree is `v`,
    evaluating the tree observation by observation (numbers as constant vectors) gives `v` broadcast
    to one value per observation. -/
theorem denoteM_pointwise (L : Laws α) (tr : Tr α) (hs : WellSized tr) (hn : tr.n ≠ 0) (e : Ex) :
    ∀ v, denoteM tr e = .ok v → denote tr e = .ok (v.toVec tr.n) ∧ (∀ c, v = .vec c → c.length = tr.n) := by
  induction e with
  | num s =>
    intro v h
    simp only [denoteM] at h
    cases hl : litOf (α := α) s with
    | none => simp [hl] at h
    | some x =>
      simp only [hl, Except.ok.injEq] at h; subst h
      exact ⟨by simp [denote, hl, Val.toVec], by intro c hc; cases hc⟩
  | var s =>
    intro v h
    simp only [denoteM] at h
    cases hg : getAF tr s with
    | error e => simp [hg, Except.map] at h
    | ok c =>
      simp only [hg, Except.map, Except.ok.injEq] at h; subst h
      exact ⟨by simp [denote, hg, Val.toVec], by intro c' hc; cases hc; exact getAF_length hs hg⟩
  | bin o l r ihl ihr =>
    intro v h
    simp only [denoteM] at h
    obtain ⟨a, ha, h⟩ := bind_ok h
    obtain ⟨b, hb, h⟩ := bind_ok h
    obtain ⟨da, la⟩ := ihl a ha
    obtain ⟨db, lb⟩ := ihr b hb
    simp only [denote, da, db, ok_bind]
    cases a with
    | lit x =>
      cases b with
      | lit y =>
        simp only [nodeBin] at h
        cases hc : litOp o x y with
        | error e => simp [hc, Except.map] at h
        | ok w =>
          simp only [hc, Except.map, Except.ok.injEq] at h; subst h
          exact ⟨litlit_pointwise o x y w tr.n hc, by intro c hc'; cases hc'⟩
      | vec y =>
        have hy := lb y rfl
        simp only [nodeBin] at h
        cases hc : svOp o x y with
        | error e => simp [hc, Except.map] at h
        | ok c =>
          simp only [hc, Except.map, Except.ok.injEq] at h; subst h
          refine ⟨?_, by intro c' hc'; cases hc'; rw [svOp_length o y c x hc, hy]⟩
          simp only [Val.toVec]
          rw [← hy]
          exact litvec_pointwise L o y c x hc
    | vec x =>
      have hx := la x rfl
      cases b with
      | lit y =>
        simp only [nodeBin] at h
        cases hc : vsOp o x y with
        | error e => simp [hc, Except.map] at h
        | ok c =>
          simp only [hc, Except.map, Except.ok.injEq] at h; subst h
          refine ⟨?_, by intro c' hc'; cases hc'; rw [vsOp_length o x c y hc, hx]⟩
          simp only [Val.toVec]
          rw [← hx]
          exact veclit_pointwise o x c y hc
      | vec y =>
        have hy := lb y rfl
        simp only [nodeBin] at h
        cases hc : vvOp o x y with
        | error e => simp [hc, Except.map] at h
        | ok c =>
          simp only [hc, Except.map, Except.ok.injEq] at h; subst h
          refine ⟨by simp [Val.toVec, hc], ?_⟩
          intro c' hc'; cases hc'
          rw [vvOp, ] at hc
          rw [zipWithM'_length _ _ _ _ hc, hx, hy]; simp
  | call f e ih =>
    intro v h
    simp only [denoteM] at h
    obtain ⟨a, ha, h⟩ := bind_ok h
    obtain ⟨da, la⟩ := ih a ha
    cases a with
    | lit x => simp [nodeCall] at h
    | vec x =>
      have hx := la x rfl
      simp only [denote, da, ok_bind, Val.toVec]
      simp only [nodeCall] at h
      by_cases hv : isVoidFn f = true
      · simp only [hv, if_true] at h ⊢
        cases hc : voidFn f tr.n x with
        | error e => simp [hc, Except.map] at h
        | ok c =>
          simp only [hc, Except.map, Except.ok.injEq] at h; subst h
          exact ⟨rfl, by intro c' hc'; cases hc'; exact voidFn_length f tr.n x c hx hn hc⟩
      · simp only [hv, if_false, Bool.false_eq_true] at h ⊢
        by_cases hg : isAggFn f = true
        · simp only [hg, if_true] at h ⊢
          cases hc : aggFn f x with
          | error e => simp [hc, Except.map] at h
          | ok w =>
            simp only [hc, Except.map, Except.ok.injEq] at h; subst h
            exact ⟨rfl, by intro c' hc'; cases hc'; simp⟩
        · simp [hg] at h

end TV.Expr
