import TracklibVerif.Lemmas.ExprPre10
/-! # Extension: ANY number of bare minuses and doubled signs in one source string

`Lemmas/ExprPre9.lean` (bare minus) and `Lemmas/ExprPre10.lean` (a sign after a binary sign) compare `P-Q` with `P0-Q`, and
`P s1 s2 Q` with `P o Q`, when the second string is a *printed* source string: one rewriting per application, and the
intermediate string of two rewritings is not a printed tree. Here the two comparisons are proved for strings that already
carry other bare minuses and doubled signs: the eight replacements of `__unaryOp` act locally (a two-character pattern is
found or not according to the characters around it only), so that

* `__unaryOp` on `X c - Q` and on `X c 0 - Q` (`c` one of `=`, `(`) agree for ALL strings `X`, `Q`;
* `__unaryOp` on `A s1 s2 B` and on `A o B` agree as soon as `A` does not end with a sign, `(` or `=` and `B` does not start
  with a sign;

and the earlier stages (blanks, `__specialOpChar`, `__convertReflexOperator`) are the brace map `sp` on every string whose
adjacent characters are related by `okpX` (a printed string's adjacency `okp`, plus a minus after `=` / `{`, plus two signs).
`Sugar u s` is the closure: `u` is obtained from `s` by dropping the `0` of any number of `0-` at the start / after `=`, `(`,
`{`, and by typing any number of binary `+` / `-` as a pair of signs. -/
namespace TV.Expr
open TV.Rpn

/-! ## `rep2`: first and last character -/

theorem rep2_head_ne {a b : Char} (rep : Str) : ∀ (s : Str), s.head? ≠ some a → (rep2 a b rep s).head? = s.head?
  | [], _ => rfl
  | x :: t, h => by
    have hx : x ≠ a := by intro e; apply h; simp [e]
    rw [rep2_cons_ne rep hx t]; rfl

theorem rep2_head_rep {a b : Char} (rep' : Str) : ∀ (s : Str), (rep2 a b (a :: rep') s).head? = s.head?
  | [] => rfl
  | [x] => rfl
  | x :: y :: r => by
    by_cases hm : (a == x && b == y) = true
    · have hx : a = x := by simp only [Bool.and_eq_true, beq_iff_eq] at hm; exact hm.1
      subst hx
      simp only [rep2, hm, if_true, List.cons_append, List.head?_cons]
    · simp only [rep2, hm, Bool.false_eq_true, if_false, List.head?_cons]

theorem rep2_last_ne {a b : Char} (rep : Str) (s : Str) (h : s.getLast? ≠ some b) :
    (rep2 a b rep s).getLast? = s.getLast? := by
  rcases List.eq_nil_or_concat s with rfl | ⟨s', l, rfl⟩
  · rfl
  · rw [List.concat_eq_append] at h ⊢
    have hl : l ≠ b := by intro e; apply h; simp [e]
    have e1 : rep2 a b rep (s' ++ [l]) = rep2 a b rep s' ++ [l] := by
      rw [rep2_append a b rep s'.length s' [l] (Nat.le_refl _) (Or.inr (by simpa using hl))]
      rfl
    rw [e1]; simp

/-- a block of characters none of which starts the pattern goes through unchanged -/
theorem rep2_mid {a b : Char} (rep : Str) : ∀ (m Q : Str), (∀ c ∈ m, c ≠ a) →
    rep2 a b rep (m ++ Q) = m ++ rep2 a b rep Q
  | [], _, _ => rfl
  | c :: m, Q, h => by
    rw [List.cons_append, rep2_cons_ne rep (h c (List.mem_cons_self)) (m ++ Q),
      rep2_mid rep m Q (fun d hd => h d (List.mem_cons_of_mem _ hd))]
    rfl

/-- … also in the middle of a string, when its first character does not end the pattern -/
theorem rep2_pass {a b : Char} (rep : Str) (X Q : Str) (c : Char) (m : Str) (hc : c ≠ b) (hm : ∀ d ∈ c :: m, d ≠ a) :
    rep2 a b rep (X ++ (c :: m) ++ Q) = rep2 a b rep X ++ (c :: m) ++ rep2 a b rep Q := by
  rw [List.append_assoc, rep2_append a b rep X.length X _ (Nat.le_refl _) (Or.inr (by simpa using hc)),
    rep2_mid rep (c :: m) Q hm, List.append_assoc]

/-! ## the eight replacements as `rep2` -/

theorem uchain_eq (e : Str) : uchain e =
    rep2 '-' '+' ['-'] (rep2 '+' '-' ['-'] (rep2 '+' '+' ['+'] (rep2 '-' '-' ['+']
      (rep2 '(' '+' ['(', '0', '+'] (rep2 '(' '-' ['(', '0', '-']
        (rep2 '=' '+' ['=', '0', '+'] (rep2 '=' '-' ['=', '0', '-'] e))))))) := by
  simp only [uchain, replace_two]

/-- the pattern `c -` restores the `0`: after that replacement `X c - Q` and `X c 0 - Q` are the same string -/
theorem rep2_restore (c : Char) (hc : c ≠ '-') (hc0 : c ≠ '0') (X Q : Str) :
    rep2 c '-' [c, '0', '-'] (X ++ c :: '-' :: Q) = rep2 c '-' [c, '0', '-'] (X ++ c :: '0' :: '-' :: Q) := by
  rw [rep2_append c '-' _ X.length X _ (Nat.le_refl _) (Or.inr (by simpa using hc)),
    rep2_append c '-' _ X.length X _ (Nat.le_refl _) (Or.inr (by simpa using hc))]
  congr 1
  have e1 : rep2 c '-' [c, '0', '-'] (c :: '-' :: Q) = [c, '0', '-'] ++ rep2 c '-' [c, '0', '-'] Q := by
    simp [rep2]
  have e2 : rep2 c '-' [c, '0', '-'] (c :: '0' :: '-' :: Q) = c :: rep2 c '-' [c, '0', '-'] ('0' :: '-' :: Q) := by
    simp [rep2]
  rw [e1, e2, rep2_cons_ne _ (Ne.symm hc0), rep2_cons_ne _ (Ne.symm hc)]
  rfl

/-- **`__unaryOp`'s replacements on `X c - Q` and on `X c 0 - Q`, `c` one of `=`, `(`: the same string, for all `X`, `Q`** -/
theorem uchain_drop_zero (X Q : Str) (c : Char) (hc : c = '=' ∨ c = '(') :
    uchain (X ++ c :: '-' :: Q) = uchain (X ++ c :: '0' :: '-' :: Q) := by
  rw [uchain_eq, uchain_eq]
  rcases hc with rfl | rfl
  · rw [rep2_restore '=' (by decide) (by decide)]
  · have p1 : ∀ (b : Char) (rep : Str) (Y Z : Str), b ≠ '(' →
        rep2 '=' b rep (Y ++ '(' :: '-' :: Z) = rep2 '=' b rep Y ++ '(' :: '-' :: rep2 '=' b rep Z := by
      intro b rep Y Z hb
      have := rep2_pass (a := '=') (b := b) rep Y Z '(' ['-'] (Ne.symm hb) (by decide)
      simpa using this
    have p2 : ∀ (b : Char) (rep : Str) (Y Z : Str), b ≠ '(' →
        rep2 '=' b rep (Y ++ '(' :: '0' :: '-' :: Z) = rep2 '=' b rep Y ++ '(' :: '0' :: '-' :: rep2 '=' b rep Z := by
      intro b rep Y Z hb
      have := rep2_pass (a := '=') (b := b) rep Y Z '(' ['0', '-'] (Ne.symm hb) (by decide)
      simpa using this
    rw [p1 '-' _ X Q (by decide), p1 '+' _ _ _ (by decide), p2 '-' _ X Q (by decide), p2 '+' _ _ _ (by decide),
      rep2_restore '(' (by decide) (by decide)]

/-! ## the leading sign -/

/-- what `__unaryOp` puts in front of `X c …`: a `0` when the first character is a sign -/
def pz (X : Str) (c : Char) : Str :=
  match X with
  | [] => if (c == '-' || c == '+') = true then ['0'] else []
  | h :: _ => if (h == '-' || h == '+') = true then '0' :: X else X

theorem unaryOp_pz (X : Str) (c : Char) (t : Str) : unaryOp (X ++ c :: t) = .ok (uchain (pz X c ++ c :: t)) := by
  cases X with
  | nil =>
    cases h : (c == '-' || c == '+') with
    | true => simp only [List.nil_append, unaryOp, uchain, pz, h, if_true, List.cons_append]
    | false => simp only [List.nil_append, unaryOp, uchain, pz, h, Bool.false_eq_true, if_false]
  | cons x xs =>
    cases h : (x == '-' || x == '+') with
    | true => simp only [List.cons_append, unaryOp, uchain, pz, h, if_true]
    | false => simp only [List.cons_append, unaryOp, uchain, pz, h, Bool.false_eq_true, if_false]

/-- **`__unaryOp` on `P-Q` and on `P0-Q`, for ALL strings `Q` and every `P` that is empty or ends with `=` or `(`** -/
theorem unaryOp_drop_zero_all (P1 Q1 : Str) (hP : P1 = [] ∨ ∃ X c, P1 = X ++ [c] ∧ (c = '=' ∨ c = '(')) :
    unaryOp (P1 ++ '-' :: Q1) = unaryOp (P1 ++ '0' :: '-' :: Q1) := by
  rcases hP with rfl | ⟨X, c, rfl, hc⟩
  · rw [List.nil_append, List.nil_append, unaryOp_minus,
      unaryOp_plain (s := '0' :: '-' :: Q1) (c := '0') rfl (by decide) (by decide)]
  · rw [List.append_assoc, List.append_assoc]
    show unaryOp (X ++ c :: '-' :: Q1) = unaryOp (X ++ c :: '0' :: '-' :: Q1)
    rw [unaryOp_pz, unaryOp_pz, uchain_drop_zero _ _ c hc]

/-! ## a pair of signs in a context that may hold other pairs -/

/-- no sign at the end of `A`, no sign at the start of `B` -/
def NoSg (A B : Str) : Prop :=
  (∀ c, isSign c = true → A.getLast? ≠ some c) ∧ (∀ c, isSign c = true → B.head? ≠ some c)

theorem NoSg.step {A B : Str} (h : NoSg A B) (a b : Char) (ha : isSign a = true) (hb : isSign b = true) (rep : Str) :
    NoSg (rep2 a b rep A) (rep2 a b rep B) := by
  refine ⟨fun c hc => ?_, fun c hc => ?_⟩
  · rw [rep2_last_ne rep A (h.1 b hb)]; exact h.1 c hc
  · rw [rep2_head_ne rep B (h.2 a ha)]; exact h.2 c hc

section signstages
variable {A B : Str} (h : NoSg A B)
include h

theorem sY (a b : Char) (ha : isSign a = true) (hb : isSign b = true) (rep : Str) (o : Char) :
    rep2 a b rep (A ++ o :: B) = rep2 a b rep A ++ o :: rep2 a b rep B :=
  rep2_split1 a b rep A B o (Or.inl (h.1 a ha)) (Or.inr (h.2 b hb))

theorem sX (a b : Char) (ha : isSign a = true) (hb : isSign b = true) (rep : Str) (s1 s2 : Char)
    (h1 : ¬ (a = s1 ∧ b = s2)) : rep2 a b rep (A ++ s1 :: s2 :: B) = rep2 a b rep A ++ s1 :: s2 :: rep2 a b rep B :=
  rep2_split2 a b rep A B s1 s2 (Or.inl (h.1 a ha)) h1 (Or.inr (h.2 b hb))

theorem sF (a b : Char) (ha : isSign a = true) (o : Char) :
    rep2 a b [o] (A ++ a :: b :: B) = rep2 a b [o] A ++ o :: rep2 a b [o] B := by
  rw [rep2_fire a b [o] A B (h.1 a ha)]; simp

end signstages

/-- the four sign replacements -/
def g4 (s : Str) : Str := rep2 '-' '+' ['-'] (rep2 '+' '-' ['-'] (rep2 '+' '+' ['+'] (rep2 '-' '-' ['+'] s)))

/-- the four sign replacements turn `A s1 s2 B` and `A o B` into the same string, whatever other pairs `A` and `B` hold -/
theorem signs_merge_all {A B : Str} (h : NoSg A B) (s1 s2 o : Char) (hs : SignPair s1 s2 o) :
    g4 (A ++ s1 :: s2 :: B) = g4 (A ++ o :: B) := by
  have d : ∀ c, c = '-' ∨ c = '+' → isSign c = true := by intro c hc; rcases hc with rfl | rfl <;> decide
  have m : isSign '-' = true := by decide
  have p : isSign '+' = true := by decide
  have n1 := h.step '-' '-' m m ['+']
  have n2 := n1.step '+' '+' p p ['+']
  have n3 := n2.step '+' '-' p m ['-']
  -- the side `A o B`: four times `sY`
  have rhs : g4 (A ++ o :: B) = g4 A ++ o :: g4 B := by
    simp only [g4]
    rw [sY h '-' '-' m m, sY n1 '+' '+' p p, sY n2 '+' '-' p m, sY n3 '-' '+' m p]
  rw [rhs]
  simp only [g4]
  cases hs with
  | mm => rw [sF h '-' '-' m '+', sY n1 '+' '+' p p, sY n2 '+' '-' p m, sY n3 '-' '+' m p]
  | pp => rw [sX h '-' '-' m m _ '+' '+' (by decide), sF n1 '+' '+' p '+', sY n2 '+' '-' p m, sY n3 '-' '+' m p]
  | pm => rw [sX h '-' '-' m m _ '+' '-' (by decide), sX n1 '+' '+' p p _ '+' '-' (by decide), sF n2 '+' '-' p '-',
      sY n3 '-' '+' m p]
  | mp => rw [sX h '-' '-' m m _ '-' '+' (by decide), sX n1 '+' '+' p p _ '-' '+' (by decide),
      sX n2 '+' '-' p m _ '-' '+' (by decide), sF n3 '-' '+' m '-']

/-- the context of a binary sign: `A` ends with `p`, which is neither a sign nor `(` nor `=`; `B` does not start with a sign -/
structure Ctx (A B : Str) : Prop where
  ns : NoSg A B
  nlp : A.getLast? ≠ some '('
  neq : A.getLast? ≠ some '='

theorem Ctx.stage {A B : Str} (h : Ctx A B) (a b : Char) (_ha : a = '=' ∨ a = '(') (hb : isSign b = true) :
    Ctx (rep2 a b [a, '0', b] A) (rep2 a b [a, '0', b] B) := by
  have hl : (rep2 a b [a, '0', b] A).getLast? = A.getLast? := rep2_last_ne _ A (h.ns.1 b hb)
  have hh : (rep2 a b [a, '0', b] B).head? = B.head? := rep2_head_rep _ B
  exact ⟨⟨fun c hc => by rw [hl]; exact h.ns.1 c hc, fun c hc => by rw [hh]; exact h.ns.2 c hc⟩,
    by rw [hl]; exact h.nlp, by rw [hl]; exact h.neq⟩

/-- one of the first four replacements (`=-`, `=+`, `(-`, `(+`) passes over the pair and over the single sign -/
theorem Ctx.pass {A B : Str} (h : Ctx A B) (a b : Char) (ha : a = '=' ∨ a = '(') (rep : Str) (s1 s2 o : Char)
    (hs : SignPair s1 s2 o) :
    rep2 a b rep (A ++ s1 :: s2 :: B) = rep2 a b rep A ++ s1 :: s2 :: rep2 a b rep B
    ∧ rep2 a b rep (A ++ o :: B) = rep2 a b rep A ++ o :: rep2 a b rep B := by
  have hla : A.getLast? ≠ some a := by rcases ha with rfl | rfl; exact h.neq; exact h.nlp
  have hne : s1 ≠ a ∧ s2 ≠ a ∧ o ≠ a := by rcases ha with rfl | rfl <;> cases hs <;> decide
  exact ⟨rep2_split2 a b rep A B s1 s2 (Or.inl hla) (fun hh => hne.1 hh.1.symm) (Or.inl hne.2.1),
    rep2_split1 a b rep A B o (Or.inl hla) (Or.inl hne.2.2)⟩

/-- **`__unaryOp`'s replacements on `A s1 s2 B` and on `A o B`: the same string, whatever else `A` and `B` hold** -/
theorem uchain_sign_pair {A B : Str} (h : Ctx A B) (s1 s2 o : Char) (hs : SignPair s1 s2 o) :
    uchain (A ++ s1 :: s2 :: B) = uchain (A ++ o :: B) := by
  have m : isSign '-' = true := by decide
  have p : isSign '+' = true := by decide
  have c1 := h.stage '=' '-' (Or.inl rfl) m
  have c2 := c1.stage '=' '+' (Or.inl rfl) p
  have c3 := c2.stage '(' '-' (Or.inr rfl) m
  have c4 := c3.stage '(' '+' (Or.inr rfl) p
  rw [uchain_eq, uchain_eq]
  rw [(h.pass '=' '-' (Or.inl rfl) _ s1 s2 o hs).1, (h.pass '=' '-' (Or.inl rfl) _ s1 s2 o hs).2,
    (c1.pass '=' '+' (Or.inl rfl) _ s1 s2 o hs).1, (c1.pass '=' '+' (Or.inl rfl) _ s1 s2 o hs).2,
    (c2.pass '(' '-' (Or.inr rfl) _ s1 s2 o hs).1, (c2.pass '(' '-' (Or.inr rfl) _ s1 s2 o hs).2,
    (c3.pass '(' '+' (Or.inr rfl) _ s1 s2 o hs).1, (c3.pass '(' '+' (Or.inr rfl) _ s1 s2 o hs).2]
  exact signs_merge_all c4.ns s1 s2 o hs

/-- **`__unaryOp` on `X p s1 s2 B` and on `X p o B`** (`p` neither a sign nor `(` nor `=`, `B` not starting with a sign) -/
theorem unaryOp_sign_pair_all (X B : Str) (p : Char) (s1 s2 o : Char) (hs : SignPair s1 s2 o)
    (hp : isSign p = false) (hp1 : p ≠ '(') (hp2 : p ≠ '=') (hB : ∀ c, isSign c = true → B.head? ≠ some c) :
    unaryOp (X ++ p :: s1 :: s2 :: B) = unaryOp (X ++ p :: o :: B) := by
  rw [unaryOp_pz, unaryOp_pz]
  have hc : Ctx (pz X p ++ [p]) B := by
    refine ⟨⟨fun c hc hl => ?_, hB⟩, by simp [hp1], by simp [hp2]⟩
    simp only [List.getLast?_append, List.getLast?_singleton, Option.some_or, Option.some.injEq] at hl
    rw [hl, hc] at hp; cases hp
  have := uchain_sign_pair hc s1 s2 o hs
  simp only [List.append_assoc, List.cons_append, List.nil_append] at this
  rw [this]

/-! ## the stages before `__unaryOp`, on strings with the adjacency `okpX` -/

/-- adjacency in a sugared source string: that of a printed string, plus a minus after `=` / `{`, plus two signs -/
def okpX (a b : Char) : Bool := okp a b || (b == '-' && (a == '=' || a == '{')) || (isSign a && isSign b)

theorem okpX_of_okp (a b : Char) (h : okp a b = true) : okpX a b = true := by simp [okpX, h]

structure InvX (s : Str) : Prop where
  nosp : ' ' ∉ s
  c0 : chn okpX s = true
  c1 : chn okpX (sp s) = true

/-- on such a string the stages before `__unaryOp` are the brace map -/
theorem rewr_of_invX {s : Str} (h : InvX s) : rewr s = (unaryOp (sp s)).bind (fun e => pure (funcAt e)) := by
  have a1 : replace s [' '] [] = s := replace_absent _ _ _ (contains_single_false h.nosp)
  have a2 : specialOpChar s = sp s := special_flat okpX (by decide) (by decide) (by decide) (by decide) _ h.c0 h.c1
  have a3 : convertReflexOperator (sp s) = sp s := convertReflex_id' okpX (by decide) h.c1
  simp only [rewr, a1, a2, a3]
  rfl

theorem chn_drop_zeroX (X Y : Str) (hX : X = [] ∨ ∃ X' c, X = X' ++ [c] ∧ (c = '=' ∨ c = '(' ∨ c = '{'))
    (h : chn okpX (X ++ '0' :: '-' :: Y) = true) : chn okpX (X ++ '-' :: Y) = true := by
  rw [chn_append] at h
  simp only [Bool.and_eq_true] at h
  obtain ⟨⟨h1, h2⟩, _⟩ := h
  have h3 : chn okpX ('-' :: Y) = true := chn_tail h2
  rw [chn_append, h1, h3]
  rcases hX with rfl | ⟨X', c, rfl, hc⟩
  · rfl
  · rcases hc with rfl | rfl | rfl <;> simp [junc] <;> decide

theorem chn_sign_pairX (P Q : Str) (p q s1 s2 o : Char) (hs : SignPair s1 s2 o)
    (h1 : okp p o = true) (h2 : p ≠ '(') (h3 : okp o q = true)
    (c : chn okpX ((P ++ [p]) ++ o :: q :: Q) = true) : chn okpX ((P ++ [p]) ++ s1 :: s2 :: q :: Q) = true := by
  obtain ⟨g1, g2, g3⟩ := hs.signs
  rw [chn_append, chn_cons_junc] at c
  simp only [Bool.and_eq_true] at c
  obtain ⟨⟨c1, c2, _⟩, _⟩ := c
  rw [chn_append, chn_cons_junc, chn_cons_junc, c1, c2]
  have j1 : junc okpX [s2] (q :: Q) = true := by
    simp only [junc, List.getLast?_singleton, List.head?_cons]
    exact okpX_of_okp _ _ (okp_sign_left g3 g2 h3)
  have j2 : junc okpX [s1] (s2 :: q :: Q) = true := by
    simp only [junc, List.getLast?_singleton, List.head?_cons, okpX, g1, g2, Bool.and_self, Bool.or_true]
  have j3 : junc okpX (P ++ [p]) (s1 :: s2 :: q :: Q) = true := by
    simp only [junc, List.getLast?_append, List.getLast?_singleton, Option.some_or, List.head?_cons]
    exact okpX_of_okp _ _ (okp_sign_right g3 g1 h2 h1)
  rw [j1, j2, j3]; rfl

/-! ## the two steps, on strings that may already be sugared -/

theorem rewr_zero_step (P Q : Str) (hP : P = [] ∨ ∃ P' c, P = P' ++ [c] ∧ (c = '=' ∨ c = '(' ∨ c = '{'))
    (h : InvX (P ++ '0' :: '-' :: Q)) :
    rewr (P ++ '-' :: Q) = rewr (P ++ '0' :: '-' :: Q) ∧ InvX (P ++ '-' :: Q) := by
  have eS : sp (P ++ '0' :: '-' :: Q) = sp P ++ '0' :: '-' :: sp Q := by
    rw [sp_append, sp_cons (by decide) (by decide), sp_cons (by decide) (by decide)]
  have eU : sp (P ++ '-' :: Q) = sp P ++ '-' :: sp Q := by
    rw [sp_append, sp_cons (by decide) (by decide)]
  have hP1 : sp P = [] ∨ ∃ X c, sp P = X ++ [c] ∧ (c = '=' ∨ c = '(') := by
    rcases hP with rfl | ⟨P', c, rfl, hc⟩
    · exact Or.inl rfl
    · right
      rcases hc with rfl | rfl | rfl
      · exact ⟨sp P', '=', by rw [sp_append]; rfl, Or.inl rfl⟩
      · exact ⟨sp P', '(', by rw [sp_append]; rfl, Or.inr rfl⟩
      · exact ⟨sp P' ++ ['@'], '(', by rw [sp_append]; simp [sp, fm], Or.inr rfl⟩
  have hP1B : sp P = [] ∨ ∃ X c, sp P = X ++ [c] ∧ (c = '=' ∨ c = '(' ∨ c = '{') := by
    rcases hP1 with h | ⟨X, c, h, hc⟩
    · exact Or.inl h
    · exact Or.inr ⟨X, c, h, by rcases hc with h | h <;> simp [h]⟩
  have hU : InvX (P ++ '-' :: Q) := by
    refine ⟨?_, chn_drop_zeroX P Q hP h.c0, ?_⟩
    · intro hm
      apply h.nosp
      simp only [List.mem_append, List.mem_cons] at hm ⊢
      rcases hm with hm | hm | hm
      · exact Or.inl hm
      · exact Or.inr (Or.inr (Or.inl hm))
      · exact Or.inr (Or.inr (Or.inr hm))
    · rw [eU]; exact chn_drop_zeroX (sp P) (sp Q) hP1B (eS ▸ h.c1)
  refine ⟨?_, hU⟩
  rw [rewr_of_invX hU, rewr_of_invX h, eS, eU, unaryOp_drop_zero_all (sp P) (sp Q) hP1]

theorem rewr_pair_step (P Q : Str) (p q s1 s2 o : Char) (hs : SignPair s1 s2 o)
    (h1 : okp p o = true) (h2 : p ≠ '(') (h3 : okp o q = true)
    (h : InvX ((P ++ [p]) ++ o :: q :: Q)) :
    rewr ((P ++ [p]) ++ s1 :: s2 :: q :: Q) = rewr ((P ++ [p]) ++ o :: q :: Q) ∧ InvX ((P ++ [p]) ++ s1 :: s2 :: q :: Q) := by
  obtain ⟨g1, g2, g3⟩ := hs.signs
  have nb : (s1 ≠ '{' ∧ s1 ≠ '}') ∧ (s2 ≠ '{' ∧ s2 ≠ '}') ∧ (o ≠ '{' ∧ o ≠ '}') ∧ s1 ≠ ' ' ∧ s2 ≠ ' ' := by
    cases hs <;> decide
  -- `p` is not a sign, `=` or a brace-open; `q` is not a sign or a brace
  have hpS : isSign p = false := by
    cases hp : isSign p with
    | false => rfl
    | true => rw [okp_signs hp g3] at h1; cases h1
  have hpe : p ≠ '=' := by intro e; subst e; rcases isSign_cases g3 with rfl | rfl <;> revert h1 <;> decide
  have hplb : p ≠ '{' := by intro e; subst e; rcases isSign_cases g3 with rfl | rfl <;> revert h1 <;> decide
  have hqS : isSign q = false := by
    cases hq : isSign q with
    | false => rfl
    | true => rw [okp_signs g3 hq] at h3; cases h3
  have hqlb : q ≠ '{' := by intro e; subst e; rcases isSign_cases g3 with rfl | rfl <;> revert h3 <;> decide
  have hqrb : q ≠ '}' := by intro e; subst e; rcases isSign_cases g3 with rfl | rfl <;> revert h3 <;> decide
  -- the brace map around the sign
  obtain ⟨p', hp', hp'1, hp'2, hp'3, hp'4⟩ : ∃ p', sp [p] = [p'] ∧ okp p' o = true ∧ p' ≠ '(' ∧ p' ≠ '=' ∧ isSign p' = false := by
    by_cases hrb : p = '}'
    · subst hrb
      refine ⟨')', by decide, ?_, by decide, by decide, by decide⟩
      rcases isSign_cases g3 with rfl | rfl <;> decide
    · exact ⟨p, by rw [sp_cons hplb hrb]; rfl, h1, h2, hpe, hpS⟩
  have eS : sp ((P ++ [p]) ++ o :: q :: Q) = (sp P ++ [p']) ++ o :: q :: sp Q := by
    rw [sp_append, sp_append, hp', sp_cons nb.2.2.1.1 nb.2.2.1.2, sp_cons hqlb hqrb]
  have eU : sp ((P ++ [p]) ++ s1 :: s2 :: q :: Q) = (sp P ++ [p']) ++ s1 :: s2 :: q :: sp Q := by
    rw [sp_append, sp_append, hp', sp_cons nb.1.1 nb.1.2, sp_cons nb.2.1.1 nb.2.1.2, sp_cons hqlb hqrb]
  have hU : InvX ((P ++ [p]) ++ s1 :: s2 :: q :: Q) := by
    refine ⟨?_, chn_sign_pairX P Q p q s1 s2 o hs h1 h2 h3 h.c0, ?_⟩
    · intro hm
      apply h.nosp
      simp only [List.mem_append, List.mem_cons] at hm ⊢
      rcases hm with (hm | hm) | hm | hm | hm | hm
      · exact Or.inl (Or.inl hm)
      · exact Or.inl (Or.inr hm)
      · exact absurd hm.symm nb.2.2.2.1
      · exact absurd hm.symm nb.2.2.2.2
      · exact Or.inr (Or.inr (Or.inl hm))
      · exact Or.inr (Or.inr (Or.inr hm))
    · rw [eU]; exact chn_sign_pairX (sp P) (sp Q) p' q s1 s2 o hs hp'1 hp'2 h3 (eS ▸ h.c1)
  refine ⟨?_, hU⟩
  rw [rewr_of_invX hU, rewr_of_invX h, eS, eU]
  have hB : ∀ c, isSign c = true → (q :: sp Q).head? ≠ some c := by
    intro c hc hh
    simp only [List.head?_cons, Option.some.injEq] at hh
    rw [hh, hc] at hqS; cases hqS
  have e1 : (sp P ++ [p']) ++ s1 :: s2 :: q :: sp Q = sp P ++ p' :: s1 :: s2 :: q :: sp Q := by
    rw [List.append_assoc]; rfl
  have e2 : (sp P ++ [p']) ++ o :: q :: sp Q = sp P ++ p' :: o :: q :: sp Q := by
    rw [List.append_assoc]; rfl
  rw [e1, e2, unaryOp_sign_pair_all (sp P) (q :: sp Q) p' s1 s2 o hs hp'4 hp'2 hp'3 hB]

/-! ## any number of steps -/

/-- `Sugar u s`: `u` is `s` in which the `0` of any number of `0-` standing at the start or after `=`, `(`, `{` has been
dropped, and any number of binary `+` / `-` (between `p` and `q`: `okp p o`, `p ≠ (`, `okp o q`) have been typed as a pair
of signs with that product — in any order, each step applying to the result of the steps before -/
inductive Sugar (s : Str) : Str → Prop
  | refl : Sugar s s
  | zero {P Q : Str} : Sugar s (P ++ '0' :: '-' :: Q) →
      (P = [] ∨ ∃ P' c, P = P' ++ [c] ∧ (c = '=' ∨ c = '(' ∨ c = '{')) → Sugar s (P ++ '-' :: Q)
  | pair {P Q : Str} {p q s1 s2 o : Char} : Sugar s ((P ++ [p]) ++ o :: q :: Q) → SignPair s1 s2 o →
      okp p o = true → p ≠ '(' → okp o q = true → Sugar s ((P ++ [p]) ++ s1 :: s2 :: q :: Q)

theorem rewr_sugar {s u : Str} (h : Sugar s u) (hi : InvX s) : rewr u = rewr s ∧ InvX u := by
  induction h with
  | refl => exact ⟨rfl, hi⟩
  | zero _ hP ih =>
    obtain ⟨e, i⟩ := ih
    obtain ⟨e', i'⟩ := rewr_zero_step _ _ hP i
    exact ⟨e'.trans e, i'⟩
  | pair _ hs h1 h2 h3 ih =>
    obtain ⟨e, i⟩ := ih
    obtain ⟨e', i'⟩ := rewr_pair_step _ _ _ _ _ _ _ hs h1 h2 h3 i
    exact ⟨e'.trans e, i'⟩

/-- a printed source string has the adjacency of a sugared one -/
theorem invX_src (pre : Str) (hp : PreOK pre) (e : Sx) (h : SrcOK e) : InvX (pre ++ src e) := by
  have i0 := pr_inv (Or.inl rfl) (Or.inl rfl) (Or.inl rfl) e h
  have i1 := pr_inv (Or.inr rfl) (Or.inr rfl) (Or.inl rfl) e h
  refine ⟨?_, chn_mono okpX_of_okp _ (hp.chn _ i0), ?_⟩
  · simp only [List.mem_append, not_or]
    exact ⟨hp.nosp, src_no_space e h⟩
  · rw [sp_pre_src pre hp e h]; exact chn_mono okpX_of_okp _ (hp.chn _ i1)

/-- **any number of bare minuses and doubled signs**: a string obtained from the source string of a statement (`pre` empty
or `lhs=`) by any number of the two sugarings is rewritten to the same string -/
theorem preprocess_sugar (pre : Str) (hp : PreOK pre) (e : Sx) (h : SrcOK e) (u : Str) (hu : Sugar (pre ++ src e) u) :
    preprocess u = preprocess (pre ++ src e) := by
  have hr := rewr_src pre hp e h
  have hd := (rewr_sugar hu (invX_src pre hp e h)).1
  rw [hr] at hd
  rw [preprocess_of_rewr hd, preprocess_of_rewr hr]

variable {α : Type} [Scalar α]

theorem operate_sugar (tr : Tr α) (pre : Str) (hp : PreOK pre) (e : Sx) (h : SrcOK e) (u : Str)
    (hu : Sugar (pre ++ src e) u) : operate tr u = operate tr (pre ++ src e) :=
  operate_congr tr (preprocess_sugar pre hp e h u hu)

end TV.Expr
