import TracklibVerif.Lemmas.CinTabHoare
/-! No program of the feature table ever writes a position or a timestamp: for EVERY world (aligned or not,
whatever observations the tracks share, and also when the operation ends in an exception) the positions and
calendar stamps of all observation objects and the reference lists of all tracks are what they were. -/
namespace TV.CinTab
open TV.Features TV.ObsTime

variable {V α β : Type}

/-- position and stamp (the seven calendar fields and `zone`) of every observation object of the heap -/
def geom (w : World V) : List (V × V × V × StampZ × Int) := w.heap.map (fun ob => (ob.x, ob.y, ob.z, ob.t, ob.zone))

/-- positions, stamps, reference lists of the tracks and the focus -/
def frameOf (w : World V) : List (V × V × V × StampZ × Int) × List (List Nat) × Nat := (geom w, w.trks.map (·.ids), w.cur)

/-- `m` leaves positions, stamps and reference lists alone, on every world and on every outcome -/
def Keeps (m : M (World V) α) : Prop := ∀ w, frameOf (m w).2 = frameOf w

theorem keeps_pure (x : α) : Keeps (pure x : M (World V) α) := fun _ => rfl
theorem keeps_throw (e : Err) : Keeps (M.throw e : M (World V) α) := fun _ => rfl
theorem keeps_read {m : M (World V) α} (h : ∀ w, (m w).2 = w) : Keeps m := fun w => by rw [h w]

theorem keeps_bind {m : M (World V) α} {f : α → M (World V) β} (h1 : Keeps m) (h2 : ∀ x, Keeps (f x)) : Keeps (m >>= f) := by
  intro w
  show frameOf (M.bind m f w).2 = _
  unfold M.bind
  have e1 := h1 w
  cases hm : m w with
  | mk r w1 =>
    rw [hm] at e1
    cases r with
    | error e => exact e1
    | ok x => exact (h2 x w1).trans e1

theorem keeps_ite (c : Prop) [Decidable c] {a b : M (World V) α} (ha : Keeps a) (hb : Keeps b) : Keeps (if c then a else b) := by
  split
  · exact ha
  · exact hb

theorem keeps_catchIndex {m : M (World V) α} (d : α) (h : Keeps m) : Keeps (M.catchIndex m d) := by
  intro w
  unfold M.catchIndex
  have e1 := h w
  cases hm : m w with
  | mk r w1 =>
    rw [hm] at e1
    cases r with
    | ok x => exact e1
    | error e => cases e <;> exact e1

theorem keeps_forEach (f : α → M (World V) Unit) (h : ∀ a, Keeps (f a)) : ∀ l : List α, Keeps (M.forEach l f)
  | [] => keeps_pure ()
  | a :: t => by
    unfold M.forEach
    exact keeps_bind (h a) (fun _ => keeps_forEach f h t)

theorem keeps_foldL (f : β → α → M (World V) β) (h : ∀ b a, Keeps (f b a)) : ∀ (l : List α) (b : β), Keeps (M.foldL l b f)
  | [], b => keeps_pure b
  | a :: t, b => by
    unfold M.foldL
    exact keeps_bind (h b a) (fun b' => keeps_foldL f h t b')

theorem keeps_mapL (f : α → M (World V) β) (h : ∀ a, Keeps (f a)) : ∀ l : List α, Keeps (M.mapL l f)
  | [] => keeps_pure []
  | a :: t => by
    unfold M.mapL
    exact keeps_bind (h a) (fun b => keeps_bind (keeps_mapL f h t) (fun bs => keeps_pure _))

/-! ### heap changes that touch `features` only -/

def gOf (ob : WObs V) : V × V × V × StampZ × Int := (ob.x, ob.y, ob.z, ob.t, ob.zone)

theorem map_modify_fix (h : List (WObs V)) (id : Nat) (f : WObs V → WObs V) (hf : ∀ ob, gOf (f ob) = gOf ob) :
    (h.modify id f).map gOf = h.map gOf := by
  apply List.ext_getElem?
  intro j
  rw [List.getElem?_map, List.getElem?_map, List.getElem?_modify]
  cases h[j]? with
  | none => rfl
  | some ob =>
    by_cases hj : id = j
    · simp [hj, hf]
    · simp [hj]

theorem map_set_fix (h : List (WObs V)) (id : Nat) (ob ob' : WObs V) (hob : h[id]? = some ob) (hf : gOf ob' = gOf ob) :
    (h.set id ob').map gOf = h.map gOf := by
  apply List.ext_getElem?
  intro j
  rw [List.getElem?_map, List.getElem?_map, List.getElem?_set]
  by_cases hj : id = j
  · subst hj
    have hlt : id < h.length := by
      rcases Nat.lt_or_ge id h.length with hl | hl
      · exact hl
      · rw [List.getElem?_eq_none hl] at hob; cases hob
    have e : h[id] = ob := by
      have := List.getElem?_eq_getElem hlt
      rw [hob] at this
      exact (Option.some.inj this).symm
    simp [hlt, hf, e]
  · simp [hj]

theorem pushSlot_geom (h : List (WObs V)) (id : Nat) (v : V) : (pushSlot h id v).map gOf = h.map gOf :=
  map_modify_fix h id _ (fun _ => rfl)

theorem appendScalar_geom (v : V) : ∀ (ids : List Nat) (h : List (WObs V)), (appendScalar v ids h).map gOf = h.map gOf
  | [], _ => rfl
  | id :: ids, h => by
    show (appendScalar v ids (pushSlot h id v)).map gOf = _
    rw [appendScalar_geom v ids, pushSlot_geom]

theorem appendVals_geom : ∀ (ids : List Nat) (l : List V) (h : List (WObs V)), (appendVals ids l h).2.map gOf = h.map gOf
  | [], _, _ => rfl
  | _ :: _, [], _ => rfl
  | id :: ids, v :: vs, h => by
    show (appendVals ids vs (pushSlot h id v)).2.map gOf = _
    rw [appendVals_geom ids vs, pushSlot_geom]

theorem writeSlot_geom (h h' : List (WObs V)) (id idx : Nat) (v : V) (hw : writeSlot h id idx v = some h') :
    h'.map gOf = h.map gOf := by
  unfold writeSlot at hw
  cases hob : h[id]? with
  | none => rw [hob] at hw; cases hw
  | some ob =>
    rw [hob] at hw
    simp only at hw
    split at hw
    · cases hw
      exact map_set_fix h id ob _ hob rfl
    · cases hw

theorem writeVals_geom (idx : Nat) : ∀ (ids : List Nat) (l : List V) (h : List (WObs V)), (writeVals idx ids l h).2.map gOf = h.map gOf
  | [], _, _ => rfl
  | _ :: _, [], _ => rfl
  | id :: ids, v :: vs, h => by
    unfold writeVals
    cases hw : writeSlot h id idx v with
    | none => rfl
    | some h' =>
      simp only
      rw [writeVals_geom idx ids vs h', writeSlot_geom h h' id idx v hw]

theorem writeScalar_geom (idx : Nat) (v : V) : ∀ (ids : List Nat) (h : List (WObs V)), (writeScalar idx v ids h).2.map gOf = h.map gOf
  | [], _ => rfl
  | id :: ids, h => by
    unfold writeScalar
    cases hw : writeSlot h id idx v with
    | none => rfl
    | some h' =>
      simp only
      rw [writeScalar_geom idx v ids h', writeSlot_geom h h' id idx v hw]

theorem delSlots_geom (idx : Nat) : ∀ (ids : List Nat) (h : List (WObs V)), (delSlots idx ids h).2.map gOf = h.map gOf
  | [], _ => rfl
  | id :: ids, h => by
    unfold delSlots
    cases hob : h[id]? with
    | none => rfl
    | some ob =>
      simp only
      split
      · exact (delSlots_geom idx ids _).trans (map_set_fix h id ob _ hob rfl)
      · rfl

theorem setDico_frame (w : World V) (d : List (String × Nat)) : frameOf (w.setDico d) = frameOf w := by
  unfold frameOf World.setDico geom
  simp only [Prod.mk.injEq, true_and, and_true]
  apply List.ext_getElem?
  intro j
  rw [List.getElem?_map, List.getElem?_map, List.getElem?_modify]
  cases w.trks[j]? with
  | none => rfl
  | some t => by_cases hj : w.cur = j <;> simp [hj]

theorem heap_frame (w : World V) (h : List (WObs V)) (hg : h.map gOf = w.heap.map gOf) :
    frameOf ({ w with heap := h } : World V) = frameOf w := by
  unfold frameOf geom
  simp only [Prod.mk.injEq, and_true]
  exact hg

/-! ### the Track API of the world -/

variable [AbsTime V]

theorem keeps_size : Keeps (Tbl.size : M (World V) Nat) := keeps_read (fun _ => rfl)
theorem keeps_has (name : String) : Keeps (Tbl.has name : M (World V) Bool) := keeps_read (fun _ => rfl)

theorem keeps_get (o : Ops V) (name : String) : Keeps (Tbl.get o name : M (World V) (List V)) := by
  apply keeps_read
  intro w
  show (getW o name w).2 = w
  unfold getW
  repeat' split
  all_goals rfl

theorem keeps_getObs (o : Ops V) (name : String) (i : Nat) : Keeps (Tbl.getObs o name i : M (World V) V) := by
  apply keeps_read
  intro w
  show (getObsW o name i w).2 = w
  unfold getObsW
  repeat' split
  all_goals rfl

theorem keeps_create (name : String) (init : Init V) : Keeps (Tbl.create name init : M (World V) Unit) := by
  intro w
  show frameOf (createW name init w).2 = _
  unfold createW
  split
  · rfl
  split
  · rfl
  split
  · rfl
  cases init with
  | scalar v =>
    exact (heap_frame (w.setDico _) _ (appendScalar_geom v _ _)).trans (setDico_frame _ _)
  | list l =>
    simp only
    split
    · rfl
    · exact (heap_frame (w.setDico _) _ (appendVals_geom _ _ _)).trans (setDico_frame _ _)

theorem keeps_update (name : String) (init : Init V) : Keeps (Tbl.update name init : M (World V) Unit) := by
  intro w
  show frameOf (updateW name init w).2 = _
  unfold updateW
  split
  · rfl
  split
  · rfl
  split
  · rfl
  · cases init with
    | scalar v => exact heap_frame _ _ (writeScalar_geom _ v _ _)
    | list l => exact heap_frame _ _ (writeVals_geom _ _ l _)

theorem keeps_remove (name : String) : Keeps (Tbl.remove name : M (World V) Unit) := by
  intro w
  show frameOf (removeW name w).2 = _
  unfold removeW
  split
  · rfl
  cases hf : find w.trk.dico name with
  | none => rfl
  | some idx =>
    simp only
    have hg := delSlots_geom idx w.trk.ids w.heap
    cases hd : delSlots idx w.trk.ids w.heap with
    | mk r h =>
      rw [hd] at hg
      cases r with
      | error e => exact heap_frame _ _ hg
      | ok u =>
        exact (setDico_frame _ _).trans (heap_frame _ _ hg)

/-- writing a FEATURE value (any name but `x`, `y`, `z`) -/
theorem keeps_setObs (name : String) (i : Nat) (v : V) (hx : (name == "x") = false) (hy : (name == "y") = false)
    (hz : (name == "z") = false) : Keeps (Tbl.setObs name i v : M (World V) Unit) := by
  intro w
  show frameOf (setObsW name i v w).2 = _
  unfold setObsW
  simp only [hx, hy, hz, Bool.or_false, Bool.false_eq_true, if_false]
  cases hf : find w.trk.dico name with
  | none => rfl
  | some idx =>
    cases hid : w.trk.ids[i]? with
    | none => rfl
    | some id =>
      simp only
      cases hw : writeSlot w.heap id idx v with
      | none => rfl
      | some h => exact heap_frame _ _ (writeSlot_geom _ _ _ _ _ hw)

/-! ### the programs -/

theorem not_xyz {name : String} (hr : reserved name = false) :
    (name == "x") = false ∧ (name == "y") = false ∧ (name == "z") = false := by
  unfold reserved at hr
  simp only [Bool.or_eq_false_iff] at hr
  exact ⟨hr.1.1.1.1.1, hr.1.1.1.1.2, hr.1.1.1.2⟩

theorem keeps_setObs' (name : String) (hr : reserved name = false) (i : Nat) (v : V) :
    Keeps (Tbl.setObs name i v : M (World V) Unit) :=
  keeps_setObs name i v (not_xyz hr).1 (not_xyz hr).2.1 (not_xyz hr).2.2

theorem keeps_addListToAF (name : String) (hr : reserved name = false) (arr : List V) :
    Keeps (addListToAF name arr : M (World V) Unit) := by
  unfold addListToAF
  refine keeps_bind keeps_size (fun n => keeps_forEach _ (fun i => ?_) _)
  split
  · exact keeps_setObs' name hr i _
  · exact keeps_throw _

theorem keeps_setItem (name : String) (init : Init V) : Keeps (setItem name init : M (World V) Unit) := by
  unfold setItem
  refine keeps_bind (keeps_has name) (fun b => ?_)
  split
  · exact keeps_update name init
  · exact keeps_create name init

theorem keeps_unaryTemp (o : Ops V) (k : UOp) (inp : String) (n : Nat) : Keeps (unaryTemp o k inp n : M (World V) (List V)) := by
  cases k with
  | integrator =>
    unfold unaryTemp
    exact keeps_bind (keeps_foldL _ (fun b i => keeps_bind (keeps_getObs o inp i) (fun _ => keeps_pure _)) _ _) (fun _ => keeps_pure _)
  | differentiator =>
    unfold unaryTemp
    refine keeps_bind (keeps_mapL _ (fun i => keeps_bind (keeps_getObs o inp i) (fun _ => keeps_bind (keeps_getObs o inp _) (fun _ => keeps_pure _))) _) (fun _ => ?_)
    split
    · exact keeps_throw _
    · exact keeps_pure _

theorem keeps_unaryVoid (o : Ops V) (k : UOp) (inp out : String) (hr : reserved out = false) :
    Keeps (unaryVoid o k inp out : M (World V) (List V)) := by
  unfold unaryVoid
  exact keeps_bind (keeps_create out _) (fun _ => keeps_bind keeps_size (fun n => keeps_bind (keeps_unaryTemp o k inp n)
    (fun t => keeps_bind (keeps_addListToAF out hr t) (fun _ => keeps_pure _))))

theorem keeps_dist2DT (g : GOps V) (i j : Nat) : Keeps (dist2DT g i j : M (World V) V) := by
  unfold dist2DT
  exact keeps_bind (keeps_getObs _ _ _) (fun _ => keeps_bind (keeps_getObs _ _ _) (fun _ => keeps_bind (keeps_getObs _ _ _)
    (fun _ => keeps_bind (keeps_getObs _ _ _) (fun _ => keeps_pure _))))

theorem keeps_dist3DT (g : GOps V) (i j : Nat) : Keeps (dist3DT g i j : M (World V) V) := by
  unfold dist3DT
  exact keeps_bind (keeps_getObs _ _ _) (fun _ => keeps_bind (keeps_getObs _ _ _) (fun _ => keeps_bind (keeps_getObs _ _ _)
    (fun _ => keeps_bind (keeps_getObs _ _ _) (fun _ => keeps_bind (keeps_getObs _ _ _) (fun _ => keeps_bind (keeps_getObs _ _ _)
    (fun _ => keeps_pure _))))))

theorem keeps_dsAlgT (g : GOps V) (i : Nat) : Keeps (dsAlgT g i : M (World V) V) := by
  unfold dsAlgT
  split
  · exact keeps_pure _
  · exact keeps_dist2DT g _ _

theorem keeps_speedBetweenT (g : GOps V) (a b : Nat) : Keeps (speedBetweenT g a b : M (World V) V) := by
  unfold speedBetweenT
  exact keeps_bind (keeps_dist2DT g a b) (fun _ => keeps_bind (keeps_getObs _ _ _) (fun _ => keeps_bind (keeps_getObs _ _ _)
    (fun _ => keeps_pure _)))

theorem keeps_speedAlgT (g : GOps V) (i : Nat) : Keeps (speedAlgT g i : M (World V) V) := by
  unfold speedAlgT
  split
  · exact keeps_speedBetweenT g _ _
  · refine keeps_bind keeps_size (fun n => ?_)
    split
    · exact keeps_speedBetweenT g _ _
    · exact keeps_speedBetweenT g _ _

theorem keeps_addAFfn (o : Ops V) (alg : Nat → M (World V) V) (halg : ∀ i, Keeps (alg i)) (name : String) :
    Keeps (addAFfn o alg name : M (World V) (List V)) := by
  unfold addAFfn
  cases hr : reserved name with
  | true => exact keeps_throw _
  | false =>
    simp only [Bool.false_eq_true, if_false]
    refine keeps_bind (keeps_has name) (fun b => keeps_bind ?_ (fun _ => keeps_bind keeps_size (fun n => keeps_bind ?_ (fun _ => keeps_get o name))))
    · split
      · exact keeps_create name _
      · exact keeps_pure _
    · unfold afLoop
      exact keeps_forEach _ (fun i => keeps_bind (keeps_catchIndex _ (halg i)) (fun v => keeps_setObs' name hr i v)) _

theorem keeps_computeAbsCurvT (g : GOps V) : Keeps (computeAbsCurvT g : M (World V) (List V)) := by
  unfold computeAbsCurvT ensureDsT ensureAbsCurvT
  refine keeps_bind (keeps_bind (keeps_has _) (fun b => ?_)) (fun _ => keeps_bind (keeps_bind (keeps_has _) (fun b => ?_))
    (fun _ => keeps_bind (keeps_remove _) (fun _ => keeps_get _ _)))
  · split
    · exact keeps_bind (keeps_addAFfn _ _ (keeps_dsAlgT g) _) (fun _ => keeps_pure _)
    · exact keeps_pure _
  · split
    · exact keeps_bind (keeps_unaryVoid _ _ _ _ (by decide)) (fun _ => keeps_pure _)
    · exact keeps_pure _

theorem keeps_estimateSpeedT (g : GOps V) : Keeps (estimateSpeedT g : M (World V) (List V)) := by
  unfold estimateSpeedT
  refine keeps_bind (keeps_has _) (fun b => ?_)
  split
  · exact keeps_get _ _
  · exact keeps_addAFfn _ _ (keeps_speedAlgT g) _

theorem keeps_lengthT (g : GOps V) : Keeps (lengthT g : M (World V) V) := by
  unfold lengthT
  exact keeps_bind keeps_size (fun n => keeps_foldL _ (fun s i => keeps_bind (keeps_dist3DT g _ _) (fun _ => keeps_pure _)) _ _)

theorem keeps_curvAbsT (g : GOps V) : Keeps (curvAbsT g : M (World V) V) := by
  unfold curvAbsT
  exact keeps_bind keeps_size (fun n => keeps_foldL _ (fun s i => keeps_bind (keeps_dist2DT g _ _) (fun _ => keeps_pure _)) _ _)

theorem keeps_isSortedT (g : GOps V) : Keeps (isSortedT g : M (World V) Bool) := by
  unfold isSortedT
  refine keeps_bind keeps_size (fun n => keeps_foldL _ (fun acc i => ?_) _ _)
  split
  · exact keeps_pure _
  · exact keeps_bind (keeps_getObs _ _ _) (fun _ => keeps_bind (keeps_getObs _ _ _) (fun _ => keeps_pure _))

theorem keeps_durationT (g : GOps V) : Keeps (durationT g : M (World V) V) := by
  unfold durationT
  refine keeps_bind keeps_size (fun n => ?_)
  split
  · exact keeps_throw _
  · exact keeps_bind (keeps_getObs _ _ _) (fun _ => keeps_bind (keeps_getObs _ _ _) (fun _ => keeps_pure _))

omit [AbsTime V] in
theorem keeps_tryFinally {m : M (World V) α} {fin : M (World V) Unit} (h1 : Keeps m) (h2 : Keeps fin) : Keeps (M.tryFinally m fin) := by
  intro w
  unfold M.tryFinally
  have e1 := h1 w
  cases hm : m w with
  | mk r w1 =>
    rw [hm] at e1
    have e2 := h2 w1
    cases hf : fin w1 with
    | mk r2 w2 =>
      rw [hf] at e2
      simp only [hf]
      cases r2 <;> exact e2.trans e1

theorem keeps_names : Keeps (Tbl.names : M (World V) (List String)) := keeps_read (fun _ => rfl)

theorem keeps_purge : Keeps (purge : M (World V) Unit) := by
  unfold purge
  refine keeps_bind keeps_names (fun l => keeps_forEach _ (fun af => ?_) _)
  split
  · exact keeps_remove af
  · exact keeps_pure _

/-- the assignment `abs_curv = #0` of the expression evaluator: read, remove, create — features only -/
theorem keeps_assign_abs_curv (o : Ops V) : Keeps (assignOp o (.tok "abs_curv") (.tok "#0") : M (World V) Unit) := by
  unfold assignOp hasSV
  refine keeps_bind (keeps_has _) (fun b => ?_)
  split
  · refine keeps_bind (keeps_has _) (fun b2 => ?_)
    split
    · have : ("abs_curv" == "x" || "abs_curv" == "y" || "abs_curv" == "z" || "abs_curv" == "t") = false := by decide
      simp only [this, Bool.false_eq_true, if_false]
      exact keeps_bind (keeps_get o _) (fun _ => keeps_bind (keeps_remove _) (fun _ => keeps_create _ _))
    · exact keeps_bind (keeps_get o _) (fun _ => keeps_create _ _)
  · have : coordTarget (SV.tok "abs_curv" : SV V) = none := by simp [coordTarget]
    simp only [this]
    refine keeps_bind (keeps_has _) (fun b2 => ?_)
    split
    · refine keeps_bind ?_ (fun v => keeps_update _ _)
      unfold toFloat
      repeat' split
      all_goals first | exact keeps_pure _ | exact keeps_throw _
    · refine keeps_bind ?_ (fun v => keeps_create _ _)
      unfold toFloat
      repeat' split
      all_goals first | exact keeps_pure _ | exact keeps_throw _

theorem keeps_integExprT (g : GOps V) : Keeps (integExprT g : M (World V) Unit) := by
  unfold integExprT
  exact keeps_tryFinally (keeps_bind (keeps_unaryVoid _ _ _ _ (by decide)) (fun _ => keeps_assign_abs_curv _)) keeps_purge

/-- the operations of a history that compute, read, remove or write FEATURES (not the in-place edits of positions /
stamps and not the operations that make new tracks) -/
def WOp.onFeatures : WOp V → Bool
  | .absCurv _ | .speed _ | .speedAF _ | .dsAF _ | .integ _ | .integExpr _ | .diff _ | .length _ | .curvAbs _ | .read _ _
  | .remove _ _ | .write _ _ _ | .sorted _ | .duration _ | .times _ | .speedMethod _ => true
  | _ => false

/-- positions, stamps and reference lists after an operation on features are those before it -/
theorem stepW_frame (g : GOps V) (op : WOp V) (hop : op.onFeatures = true) (w : World V) :
    geom (stepW g op w).2 = geom w ∧ (stepW g op w).2.trks.map (·.ids) = w.trks.map (·.ids) := by
  have key : ∀ {α : Type} (m : M (World V) α), Keeps m → ∀ (f : Except Err α → Except Err (WRet V)),
      geom ((match m { w with cur := op.track } with | (r, w') => (f r, w')) : Except Err (WRet V) × World V).2 = geom w ∧
      ((match m { w with cur := op.track } with | (r, w') => (f r, w')) : Except Err (WRet V) × World V).2.trks.map (·.ids) = w.trks.map (·.ids) := by
    intro α m hm f
    have := hm { w with cur := op.track }
    unfold frameOf at this
    simp only [Prod.mk.injEq] at this
    exact ⟨this.1, this.2.1⟩
  unfold stepW
  split
  · exact ⟨rfl, rfl⟩
  · cases op with
    | absCurv k => exact key _ (keeps_computeAbsCurvT g) _
    | speed k => exact key _ (keeps_estimateSpeedT g) _
    | speedMethod k => exact key _ (keeps_estimateSpeedT g) _
    | setZone _ _ => cases hop
    | speedAF k => exact key _ (keeps_addAFfn _ _ (keeps_speedAlgT g) _) _
    | dsAF k => exact key _ (keeps_addAFfn _ _ (keeps_dsAlgT g) _) _
    | integ k => exact key _ (keeps_unaryVoid _ _ _ _ (by decide)) _
    | integExpr k => exact key _ (keeps_integExprT g) _
    | diff k => exact key _ (keeps_unaryVoid _ _ _ _ (by decide)) _
    | length k => exact key _ (keeps_lengthT g) _
    | curvAbs k => exact key _ (keeps_curvAbsT g) _
    | read k name => exact key (Tbl.get g.toOps name) (keeps_get g.toOps name) _
    | remove k name => exact key _ (keeps_remove name) _
    | write k name vals => exact key _ (keeps_setItem name _) _
    | sorted k => exact key _ (keeps_isSortedT g) _
    | duration k => exact key _ (keeps_durationT g) _
    | times k => exact key (Tbl.get g.toOps "t") (keeps_get g.toOps "t") _
    | add _ _ => cases hop
    | extract _ _ _ => cases hop
    | slice _ _ _ => cases hop
    | copy _ => cases hop
    | setPos _ _ _ _ => cases hop
    | setTime _ _ _ _ => cases hop

end TV.CinTab
