import TracklibVerif.Lemmas.GraphPath
/-! Lemmas for C07: `run_routing_backward` on a state satisfying the invariants returns a route:
a walk from the source along the recorded edges, with the edges' polylines chained along the travel. -/
set_option linter.unusedSectionVars false
namespace TV.Graph
variable {W : Type} [LinearOrder W] [Add W] [Zero W] [WalkAdd W] {P : Type}

/-- edge ids are unique (`EDGES` is a dict keyed by edge id) -/
def UniqueIds (net : Net W) : Prop := ∀ e ∈ net.edges, ∀ e' ∈ net.edges, e.id = e'.id → e = e'

theorem findEdge_of_mem (net : Net W) (hu : UniqueIds net) (e : Edge W) (he : e ∈ net.edges) :
    findEdge net e.id = some e := by
  unfold findEdge
  cases h : net.edges.find? (fun e' => e'.id == e.id) with
  | none =>
    have := List.find?_eq_none.mp h e he
    simp at this
  | some e' =>
    have hm := List.mem_of_find?_eq_some h
    have hp := List.find?_some h
    simp only [beq_iff_eq] at hp
    rw [hu e' hm e he hp]

/-- `Route net geo s l g g' v y`: `l ++ [v]` are the nodes of a walk from `s` to `v` whose consecutive nodes are joined
by an existing edge travelled in a direction its orientation permits; `y` is the sum of the weights of those edges;
`g` is the concatenation of those edges' polylines, each oriented along the direction of travel and each without its
last vertex (which is the first vertex of the next one, or the position of `v` for the last one); `g'` is the same
concatenation with each polyline deprived of its first vertex instead (the form of the property's statement:
`pos s` followed by `g'`). `g` is what the code builds; `Route.geom_eq` shows the two coincide. -/
inductive Route (net : Net W) (geo : Geo P) (s : Nat) : List Nat → List P → List P → Nat → W → Prop
  | nil : Route net geo s [] [] [] s 0
  | snoc {l : List Nat} {g g' : List P} {a : Nat} {x : W} {v : Nat} (e : Edge W) (line : List P) :
      Route net geo s l g g' a x → e ∈ net.edges →
      ((0 ≤ e.ori ∧ e.src = a ∧ e.tgt = v ∧ line = geo.line e.id) ∨
       (e.ori ≤ 0 ∧ e.tgt = a ∧ e.src = v ∧ line = (geo.line e.id).reverse)) →
      Route net geo s (l ++ [a]) (g ++ line.dropLast) (g' ++ line.drop 1) v (x + e.w)

theorem Route.walk {net : Net W} {geo : Geo P} {s : Nat} {l : List Nat} {g g' : List P} {v : Nat} {y : W}
    (h : Route net geo s l g g' v y) : Walk net s v y := by
  induction h with
  | nil => exact Walk.nil
  | snoc e line _ he hdir ih =>
    refine Walk.snoc ih ⟨e, he, rfl, ?_⟩
    rcases hdir with ⟨a, b, c, _⟩ | ⟨a, b, c, _⟩
    · exact Or.inl ⟨a, b, c⟩
    · exact Or.inr ⟨a, b, c⟩

theorem Route.nodes_head {net : Net W} {geo : Geo P} {s : Nat} {l : List Nat} {g g' : List P} {v : Nat} {y : W}
    (h : Route net geo s l g g' v y) : (l ++ [v]).head? = some s := by
  induction h with
  | nil => rfl
  | @snoc l g g' a x v e line _ he hdir ih =>
    cases l with
    | nil => simpa using ih
    | cons b l => simpa using ih

/-- every edge polyline starts at its source's position and ends at its target's -/
def GeoOK (net : Net W) (geo : Geo P) : Prop :=
  ∀ e ∈ net.edges, (geo.line e.id).head? = some (geo.pos e.src) ∧ (geo.line e.id).getLast? = some (geo.pos e.tgt)

theorem dropLast_append_of_getLast? (l : List P) (q : P) (h : l.getLast? = some q) : l.dropLast ++ [q] = l := by
  have hne : l ≠ [] := by intro h'; rw [h'] at h; cases h
  have h1 := List.dropLast_concat_getLast hne
  rw [List.getLast?_eq_some_getLast hne] at h
  cases h
  exact h1

theorem Route.geom_head {net : Net W} {geo : Geo P} (hgeo : GeoOK net geo) {s : Nat} {l : List Nat} {g g' : List P}
    {v : Nat} {y : W} (h : Route net geo s l g g' v y) : (g ++ [geo.pos v]).head? = some (geo.pos s) := by
  induction h with
  | nil => rfl
  | @snoc l g g' a x v e line _ he hdir ih =>
    cases g with
    | cons p g => simpa using ih
    | nil =>
      have hpa : geo.pos a = geo.pos s := by simpa using ih
      obtain ⟨h1, h2⟩ := hgeo e he
      have hl : line.head? = some (geo.pos a) ∧ line.getLast? = some (geo.pos v) := by
        rcases hdir with ⟨_, b, c, d⟩ | ⟨_, b, c, d⟩
        · rw [d, ← b, ← c]; exact ⟨h1, h2⟩
        · rw [d, ← b, ← c, List.head?_reverse, List.getLast?_reverse]; exact ⟨h2, h1⟩
      have : line.dropLast ++ [geo.pos v] = line := dropLast_append_of_getLast? _ _ hl.2
      rw [List.nil_append, this, hl.1, hpa]

/-- the geometry the code builds (`g` closed by the position of `v`) is the position of `s` followed by the travel-oriented
polylines, each without its first vertex — the junction vertices appear once -/
theorem Route.geom_eq {net : Net W} {geo : Geo P} (hgeo : GeoOK net geo) {s : Nat} {l : List Nat} {g g' : List P}
    {v : Nat} {y : W} (h : Route net geo s l g g' v y) : g ++ [geo.pos v] = geo.pos s :: g' := by
  induction h with
  | nil => rfl
  | @snoc l g g' a x v e line _ he hdir ih =>
    obtain ⟨h1, h2⟩ := hgeo e he
    have hl : line.head? = some (geo.pos a) ∧ line.getLast? = some (geo.pos v) := by
      rcases hdir with ⟨_, b, c, d⟩ | ⟨_, b, c, d⟩
      · rw [d, ← b, ← c]; exact ⟨h1, h2⟩
      · rw [d, ← b, ← c, List.head?_reverse, List.getLast?_reverse]; exact ⟨h2, h1⟩
    have e1 : line.dropLast ++ [geo.pos v] = line := dropLast_append_of_getLast? _ _ hl.2
    have e2 : line = geo.pos a :: line.drop 1 := by
      cases line with
      | nil => simp at hl
      | cons p r => simp only [List.head?_cons, Option.some.injEq] at hl; rw [hl.1]; rfl
    calc (g ++ line.dropLast) ++ [geo.pos v] = g ++ (line.dropLast ++ [geo.pos v]) := by rw [List.append_assoc]
      _ = g ++ line := by rw [e1]
      _ = g ++ (geo.pos a :: line.drop 1) := by rw [← e2]
      _ = (g ++ [geo.pos a]) ++ line.drop 1 := by simp
      _ = geo.pos s :: (g' ++ line.drop 1) := by rw [ih]; rfl

theorem reverse_drop_one (l : List P) : (l.drop 1).reverse = l.reverse.dropLast := by
  cases l with
  | nil => rfl
  | cons x xs => simp

/-- one iteration of the backward loop at a node `v` whose predecessor is `a`, given what the loop does from `a` -/
theorem backAux_step (net : Net W) (hu : UniqueIds net) (geo : Geo P) (s : Nat) (st : St W) (rk : Nat → Nat) (K : Nat)
    (hp : PInv net s st rk K) (f v : Nat) (nodes : List Nat) (track : List P) (a i : Nat)
    (hpv : st.pred v = some (a, i))
    (hrec : ∀ nodes' track', ∃ l g g' x, st.d a = some x ∧ Route net geo s l g g' a x ∧
        backAux net geo st f a nodes' track' = .path (l ++ nodes'.reverse) (g ++ track'.reverse)) :
    ∃ l g g' y, st.d v = some y ∧ Route net geo s l g g' v y ∧
      backAux net geo st (f+1) v nodes track = .path (l ++ nodes.reverse) (g ++ track.reverse) := by
  obtain ⟨hav, _, e, he, hid, hoth, x, hda, hdv⟩ := hp.p2 v a i hpv
  have hmem : e ∈ net.edges := by simp only [nextEdges, List.mem_filter] at he; exact he.1
  have hfind : findEdge net i = some e := by rw [← hid]; exact findEdge_of_mem net hu e hmem
  let g1 : List P := if e.src ≠ v then (geo.line i).reverse else geo.line i
  obtain ⟨l, g, g', x', hx', hroute, hback⟩ := hrec (nodes ++ [a]) (track ++ g1.drop 1)
  rw [hda] at hx'
  have hxx : x' = x := (Option.some.inj hx').symm
  subst hxx
  have hdir : (0 ≤ e.ori ∧ e.src = a ∧ e.tgt = v ∧ g1.reverse = geo.line e.id) ∨
      (e.ori ≤ 0 ∧ e.tgt = a ∧ e.src = v ∧ g1.reverse = (geo.line e.id).reverse) := by
    simp only [nextEdges, List.mem_filter, Bool.or_eq_true, Bool.and_eq_true, decide_eq_true_eq] at he
    unfold other at hoth
    rcases he.2 with ⟨h1, h2⟩ | ⟨h1, h2⟩
    · left
      by_cases ht : e.tgt = a
      · rw [if_pos ht] at hoth
        exact absurd (h2.symm.trans hoth) hav
      · rw [if_neg ht] at hoth
        have hsv : e.src ≠ v := by rw [h2]; exact hav
        refine ⟨h1, h2, hoth, ?_⟩
        simp only [g1, hsv, ne_eq, not_false_eq_true, if_true, List.reverse_reverse, hid]
    · right
      rw [if_pos h2] at hoth
      refine ⟨h1, h2, hoth, ?_⟩
      simp only [g1, hoth, ne_eq, not_true_eq_false, if_false, hid]
  refine ⟨l ++ [a], g ++ g1.reverse.dropLast, g' ++ g1.reverse.drop 1, x' + e.w, hdv, Route.snoc e g1.reverse hroute hmem hdir, ?_⟩
  conv => lhs; unfold backAux
  simp only [hpv, hfind]
  rw [hback]
  simp

/-- the backward loop from a settled node reaches the source within `rk v + 1` iterations -/
theorem backAux_spec (net : Net W) (hu : UniqueIds net) (geo : Geo P) (s : Nat) (st : St W) (rk : Nat → Nat) (K : Nat)
    (hinv : Inv net s st) (hp : PInv net s st rk K) (f v : Nat) (nodes : List Nat) (track : List P)
    (hv : st.vis v = true) (hf : rk v < f) :
    ∃ l g g' y, st.d v = some y ∧ Route net geo s l g g' v y ∧
      backAux net geo st f v nodes track = .path (l ++ nodes.reverse) (g ++ track.reverse) := by
  induction f generalizing v nodes track with
  | zero => omega
  | succ f ih =>
    cases hpv : st.pred v with
    | none =>
      have hvs : v = s := by
        by_contra hne
        obtain ⟨x, hx⟩ := hinv.j5 v hv
        have := hp.p3 v x hne hx
        rw [hpv] at this; cases this
      subst hvs
      refine ⟨[], [], [], 0, hinv.j1, Route.nil, ?_⟩
      unfold backAux
      simp [hpv]
    | some p =>
      obtain ⟨a, i⟩ := p
      obtain ⟨_, hva, _⟩ := hp.p2 v a i hpv
      have hlt := hp.p5 v a i hpv hv
      exact backAux_step net hu geo s st rk K hp f v nodes track a i hpv
        (fun nodes' track' => ih a nodes' track' hva (by omega))

/-- `run_routing_backward(t)` on any state reached by the forward loop -/
theorem runBackward_spec (net : Net W) (hu : UniqueIds net) (geo : Geo P) (s : Nat) (st : St W)
    (hg : Good net s st) (t : Nat) :
    (st.pred t = none → runBackward net geo st t = .none) ∧
    (∀ p, st.pred t = some p → ∃ l g g' y, st.d t = some y ∧ Route net geo s l g g' t y ∧
        runBackward net geo st t = .path (l ++ [t]) (g ++ [geo.pos t])) := by
  obtain ⟨hinv, rk, K, hp⟩ := hg
  constructor
  · intro h; unfold runBackward; rw [h]
  · intro p hpt
    obtain ⟨a, i⟩ := p
    obtain ⟨_, hva, _⟩ := hp.p2 t a i hpt
    have hK : rk a < net.n := by
      have := hp.p4 a hva
      have := hp.p6
      omega
    obtain ⟨l, g, g', y, h1, h2, h3⟩ := backAux_step net hu geo s st rk K hp net.n t [t] [geo.pos t] a i hpt
      (fun nodes' track' => backAux_spec net hu geo s st rk K hinv hp net.n a nodes' track' hva hK)
    refine ⟨l, g, g', y, h1, h2, ?_⟩
    unfold runBackward
    rw [hpt]
    simpa using h3
end TV.Graph
