import TracklibVerif.Lemmas.GeoLambert
import Mathlib.Analysis.Calculus.MeanValue
import Mathlib.Analysis.SpecialFunctions.Trigonometric.ArctanDeriv
import Mathlib.Analysis.SpecialFunctions.Log.Deriv
import Mathlib.Analysis.SpecialFunctions.Trigonometric.Deriv
/-! Helper lemmas for C14, convergence of the fixed-point loop of `__projFromLambert93`: the loop body is
`φ ↦ gd (U φ + L)` with `gd x = 2 atan(exp x) − π/2` (1-Lipschitz, mean value theorem) and
`U φ = (E/2) log((1 + E sin φ)/(1 − E sin φ))` (Lipschitz with constant `E²/(1 − E²)`), hence a contraction;
the true latitude is its fixed point and the start value is within `E²/(1 − E²) · |φ|` of it. -/
namespace TV.Geo
open Real


/-- Gudermannian-like map of the loop body: `x ↦ 2 atan(exp x) − π/2` -/
noncomputable def gd (x : ℝ) : ℝ := 2 * Real.arctan (Real.exp x) - π / 2

theorem gd_hasDeriv (x : ℝ) : HasDerivAt gd (2 * (1 / (1 + Real.exp x ^ 2) * Real.exp x)) x := by
  unfold gd
  exact (((Real.hasDerivAt_exp x).arctan).const_mul 2).sub_const _

theorem gd_lipschitz (x y : ℝ) : |gd y - gd x| ≤ |y - x| := by
  have h := Convex.norm_image_sub_le_of_norm_deriv_le (f := gd) (s := Set.univ) (C := 1)
    (fun z _ => (gd_hasDeriv z).differentiableAt)
    (fun z _ => by
      rw [(gd_hasDeriv z).deriv, Real.norm_eq_abs]
      have ht := Real.exp_pos z
      set t := Real.exp z
      rw [abs_of_nonneg (by positivity)]
      rw [show 2 * (1 / (1 + t ^ 2) * t) = 2 * t / (1 + t ^ 2) by ring, div_le_one (by positivity)]
      nlinarith [sq_nonneg (t - 1)])
    convex_univ (Set.mem_univ x) (Set.mem_univ y)
  simpa [Real.norm_eq_abs] using h

theorem lambE_pos : (0 : ℝ) < lambE := by rw [lambE_val]; norm_num
theorem lambE_lt : (lambE : ℝ) < 1 / 10 := by rw [lambE_val]; norm_num

theorem one_add_Es_pos (φ : ℝ) : 0 < 1 + lambE * Real.sin φ := by
  have := lambE_pos; have := lambE_lt; have := Real.neg_one_le_sin φ; have := Real.sin_le_one φ; nlinarith
theorem one_sub_Es_pos (φ : ℝ) : 0 < 1 - lambE * Real.sin φ := by
  have := lambE_pos; have := lambE_lt; have := Real.neg_one_le_sin φ; have := Real.sin_le_one φ; nlinarith

/-- log of the eccentricity factor of the loop body -/
noncomputable def lambU (φ : ℝ) : ℝ :=
  (lambE : ℝ) / 2 * (Real.log (1 + lambE * Real.sin φ) - Real.log (1 - lambE * Real.sin φ))

/-- contraction factor `E² / (1 − E²)` -/
noncomputable def lambK : ℝ := (lambE : ℝ) ^ 2 / (1 - (lambE : ℝ) ^ 2)

theorem lambU_hasDeriv (φ : ℝ) :
    HasDerivAt lambU ((lambE : ℝ) / 2 * ((lambE * Real.cos φ) / (1 + lambE * Real.sin φ)
      - (-(lambE * Real.cos φ)) / (1 - lambE * Real.sin φ))) φ := by
  unfold lambU
  have h1 : HasDerivAt (fun φ => 1 + (lambE : ℝ) * Real.sin φ) (lambE * Real.cos φ) φ :=
    ((Real.hasDerivAt_sin φ).const_mul _).const_add 1
  have h2 : HasDerivAt (fun φ => 1 - (lambE : ℝ) * Real.sin φ) (-(lambE * Real.cos φ)) φ :=
    ((Real.hasDerivAt_sin φ).const_mul _).const_sub 1
  exact ((h1.log (ne_of_gt (one_add_Es_pos φ))).sub (h2.log (ne_of_gt (one_sub_Es_pos φ)))).const_mul _

theorem lambK_nonneg : 0 ≤ lambK := by
  unfold lambK; have := lambE_pos; have := lambE_lt
  apply div_nonneg (sq_nonneg _); nlinarith

theorem lambU_lipschitz (x y : ℝ) : |lambU y - lambU x| ≤ lambK * |y - x| := by
  have h := Convex.norm_image_sub_le_of_norm_deriv_le (f := lambU) (s := Set.univ) (C := lambK)
    (fun z _ => (lambU_hasDeriv z).differentiableAt)
    (fun z _ => by
      rw [(lambU_hasDeriv z).deriv, Real.norm_eq_abs]
      have hp := one_add_Es_pos z
      have hm := one_sub_Es_pos z
      have hE0 := lambE_pos
      have hE1 := lambE_lt
      have hc := Real.abs_cos_le_one z
      have hs := Real.sin_sq_le_one z
      set E : ℝ := lambE
      set s := Real.sin z
      set c := Real.cos z
      have hden : 0 < 1 - E ^ 2 := by nlinarith
      have hden2 : 1 - E ^ 2 ≤ (1 + E * s) * (1 - E * s) := by nlinarith
      have heq : E / 2 * (E * c / (1 + E * s) - -(E * c) / (1 - E * s)) = E ^ 2 * c / ((1 + E * s) * (1 - E * s)) := by
        field_simp; ring
      rw [heq, abs_div, abs_mul, abs_of_nonneg (sq_nonneg E), abs_of_pos (mul_pos hp hm)]
      unfold lambK
      rw [div_le_div_iff₀ (mul_pos hp hm) hden]
      have h1 : E ^ 2 * |c| ≤ E ^ 2 := by nlinarith [sq_nonneg E]
      nlinarith [mul_le_mul h1 hden2 (le_of_lt hden) (sq_nonneg E), sq_nonneg E, abs_nonneg c])
    convex_univ (Set.mem_univ x) (Set.mem_univ y)
  simpa [Real.norm_eq_abs] using h

/-- the loop body of `__projFromLambert93` is `gd (lambU φ + L)` -/
theorem lambStep_eq (L φ : ℝ) : lambStep realTrig L φ = gd (lambU φ + L) := by
  simp only [lambStep, rt_atan, rt_exp, rt_sin, rt_pi, rt_pow, lit1, lit2]
  unfold gd lambU
  have hp := one_add_Es_pos φ
  have hm := one_sub_Es_pos φ
  rw [Real.rpow_def_of_pos (div_pos hp hm), Real.log_div (ne_of_gt hp) (ne_of_gt hm), ← Real.exp_add]
  congr 3
  ring_nf

/-- the loop body is a contraction with factor `lambK` -/
theorem lambStep_contraction (L x y : ℝ) :
    |lambStep realTrig L y - lambStep realTrig L x| ≤ lambK * |y - x| := by
  rw [lambStep_eq, lambStep_eq]
  calc |gd (lambU y + L) - gd (lambU x + L)| ≤ |(lambU y + L) - (lambU x + L)| := gd_lipschitz _ _
    _ = |lambU y - lambU x| := by congr 1; ring
    _ ≤ lambK * |y - x| := lambU_lipschitz x y

theorem iter_contraction (L fix : ℝ) (hfix : lambStep realTrig L fix = fix) (k : Nat) (x : ℝ) :
    |iter (lambStep realTrig L) k x - fix| ≤ lambK ^ k * |x - fix| := by
  induction k generalizing x with
  | zero => simp [iter]
  | succ k ih =>
    rw [iter]
    calc |iter (lambStep realTrig L) k (lambStep realTrig L x) - fix|
        ≤ lambK ^ k * |lambStep realTrig L x - fix| := ih _
      _ = lambK ^ k * |lambStep realTrig L x - lambStep realTrig L fix| := by rw [hfix]
      _ ≤ lambK ^ k * (lambK * |x - fix|) :=
          mul_le_mul_of_nonneg_left (lambStep_contraction L fix x) (pow_nonneg lambK_nonneg k)
      _ = lambK ^ (k + 1) * |x - fix| := by ring

theorem lambU_zero : lambU 0 = 0 := by unfold lambU; simp

/-- the start value `2 atan(exp L) − π/2` of the loop is within `lambK · |φ|` of the true latitude -/
theorem lamb_start_close (φ : ℝ) (h1 : -(π / 2) < φ) (h2 : φ < π / 2) :
    |(2 * Real.arctan (Real.exp (lambLatIso φ)) - π / 2) - φ| ≤ lambK * |φ| := by
  have hfix := lambert_fixed_point' φ h1 h2
  rw [lambStep_eq] at hfix
  have h0 : 2 * Real.arctan (Real.exp (lambLatIso φ)) - π / 2 = gd (lambLatIso φ) := rfl
  rw [h0]
  calc |gd (lambLatIso φ) - φ| = |gd (lambLatIso φ) - gd (lambU φ + lambLatIso φ)| := by rw [hfix]
    _ ≤ |lambLatIso φ - (lambU φ + lambLatIso φ)| := gd_lipschitz _ _
    _ = |lambU φ - lambU 0| := by rw [lambU_zero, ← abs_neg]; congr 1; ring
    _ ≤ lambK * |φ - 0| := lambU_lipschitz 0 φ
    _ = lambK * |φ| := by rw [sub_zero]

theorem lambK_le : lambK ≤ 7 / 1000 := by
  unfold lambK
  rw [lambE_val, div_le_iff₀ (by norm_num)]
  norm_num

/-- the 10 passes converge: the latitude returned by the inverse is within `lambK¹¹ |lat|` of the input latitude -/
theorem lambert_lat_converges' (g : V3 ℝ) (h1 : -90 < g.y) (h2 : g.y < 90) :
    |(fromLambert93 realTrig (toLambert93 realTrig g)).y - g.y| ≤ lambK ^ 11 * |g.y| := by
  rw [lambert_lat_loop' g]
  set φ := g.y * π / 180 with hφ
  have hφ1 : -(π / 2) < φ := by rw [hφ]; nlinarith [Real.pi_pos]
  have hφ2 : φ < π / 2 := by rw [hφ]; nlinarith [Real.pi_pos]
  have hfix := lambert_fixed_point' φ hφ1 hφ2
  have hit := iter_contraction (lambLatIso φ) φ hfix 10 (2 * Real.arctan (Real.exp (lambLatIso φ)) - π / 2)
  have hst := lamb_start_close φ hφ1 hφ2
  have hk := pow_nonneg lambK_nonneg 10
  have hrad : |iter (lambStep realTrig (lambLatIso φ)) 10 (2 * Real.arctan (Real.exp (lambLatIso φ)) - π / 2) - φ|
      ≤ lambK ^ 11 * |φ| := by
    calc _ ≤ lambK ^ 10 * |2 * Real.arctan (Real.exp (lambLatIso φ)) - π / 2 - φ| := hit
      _ ≤ lambK ^ 10 * (lambK * |φ|) := mul_le_mul_of_nonneg_left hst hk
      _ = lambK ^ 11 * |φ| := by ring
  have hpi := Real.pi_pos
  have hgy : g.y = φ * 180 / π := by rw [hφ]; field_simp
  set r := iter (lambStep realTrig (lambLatIso φ)) 10 (2 * Real.arctan (Real.exp (lambLatIso φ)) - π / 2)
  rw [hgy, show r * 180 / π - φ * 180 / π = (r - φ) * (180 / π) by ring, abs_mul,
    show φ * 180 / π = φ * (180 / π) by ring, abs_mul, ← mul_assoc]
  exact mul_le_mul_of_nonneg_right hrad (abs_nonneg _)

/-- in numbers: less than 1e-20 degree -/
theorem lambert_lat_bound' (g : V3 ℝ) (h1 : -90 < g.y) (h2 : g.y < 90) :
    |(fromLambert93 realTrig (toLambert93 realTrig g)).y - g.y| ≤ 1 / 10 ^ 20 := by
  have h := lambert_lat_converges' g h1 h2
  have hk : lambK ^ 11 ≤ (7 / 1000) ^ 11 := pow_le_pow_left₀ lambK_nonneg lambK_le 11
  have ha : |g.y| ≤ 90 := abs_le.mpr ⟨by linarith, by linarith⟩
  calc _ ≤ lambK ^ 11 * |g.y| := h
    _ ≤ (7 / 1000) ^ 11 * 90 := mul_le_mul hk ha (abs_nonneg _) (by norm_num)
    _ ≤ 1 / 10 ^ 20 := by norm_num
end TV.Geo
