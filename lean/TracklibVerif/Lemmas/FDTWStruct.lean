import TracklibVerif.Lemmas.FDTW
/-! `_fdtw` returns a coupling whose accumulated cost is the reported score **for any accumulation** — no monotonicity, no inflation,
nothing asked of the point distances: only that `big` (the 1e300 placeholder priority of `_update_node`) is above the accumulated
cost of every partial coupling, so that the first candidate cost of a node is always recorded together with its antecedent.
(The score is then not the optimum in general: that is `fdtw_spec`.) The invariant (`SInv`) is the structural half of `InvR`: it speaks
of the cells of the cost table `T` of the state instead of the optimal table. -/
set_option linter.unusedSimpArgs false
namespace TV.DTW

section sinv
variable {α : Type} [LinearOrder α]

omit [LinearOrder α] in
theorem coupling_step {w : α → α → α} {z : α} {D : Nat → Nat → α} {y v : Nat × Nat} {c : α}
    (h : IsStep y v) (hc : Coupling w z D v.1 v.2 c) : Coupling w z D y.1 y.2 (w c (D y.1 y.2)) := by
  obtain ⟨y1, y2⟩ := y
  obtain ⟨v1, v2⟩ := v
  unfold IsStep at h
  simp only at h hc ⊢
  rcases h with ⟨a, b⟩ | ⟨a, b⟩ | ⟨a, b⟩ <;> subst a <;> subst b
  · exact Coupling.down hc
  · exact Coupling.right hc
  · exact Coupling.diag hc

/-- the structural invariant of `_fdtw`. `R v y` = the edge `v → y` out of a visited node has not been relaxed yet. -/
structure SInv (w : α → α → α) (z : α) (D : Nat → Nat → α) (n1 n2 : Nat)
    (R : Nat × Nat → Nat × Nat → Prop) (st : FState α) : Prop where
  origin : (0, 0) ∈ st.V
  vis : ∀ v ∈ st.V, Inb n1 n2 v ∧ ∃ c, st.T.get? v = some c ∧ Coupling w z D v.1 v.2 c
  fr : ∀ y c, st.F.get? y = some c → Inb n1 n2 y ∧ y ∉ st.V ∧ st.T.get? y = some c ∧
        ∃ v ∈ st.V, IsStep y v ∧ st.A.get? y = some v ∧ ∃ tv, st.T.get? v = some tv ∧ c = w tv (D y.1 y.2)
  edge : ∀ v ∈ st.V, ∀ y, Inb n1 n2 y → IsStep y v → R v y ∨ y ∈ st.V ∨ ∃ c, st.F.get? y = some c
  back : ∀ y ∈ st.V, y ≠ (0, 0) → ∃ v ∈ st.V, IsStep y v ∧ st.A.get? y = some v ∧
        ∃ ty tv, st.T.get? y = some ty ∧ st.T.get? v = some tv ∧ ty = w tv (D y.1 y.2)
  t00 : st.T.get? (0, 0) = some (w z (D 0 0))
  nodupV : st.V.Nodup
  nodupF : (st.F.map (·.1)).Nodup

omit [LinearOrder α] in
theorem SInv.weaken {w : α → α → α} {z : α} {D : Nat → Nat → α} {n1 n2 : Nat}
    {R R' : Nat × Nat → Nat × Nat → Prop} {st : FState α} (h : SInv w z D n1 n2 R st)
    (hR : ∀ v ∈ st.V, ∀ y, Inb n1 n2 y → IsStep y v → R v y → R' v y) : SInv w z D n1 n2 R' st :=
  { origin := h.origin, vis := h.vis, fr := h.fr, back := h.back, t00 := h.t00, nodupV := h.nodupV, nodupF := h.nodupF,
    edge := fun v hv y hy hs => by
      rcases h.edge v hv y hy hs with h1 | h1 | h1
      · exact Or.inl (hR v hv y hy hs h1)
      · exact Or.inr (Or.inl h1)
      · exact Or.inr (Or.inr h1) }

omit [LinearOrder α] in
/-- the state after `F[y] = c; A[y] = x; T[y] = c` for an unvisited `y`, `c = w(T[x], D[y])` -/
theorem sinv_put {w : α → α → α} {z : α} {D : Nat → Nat → α} {n1 n2 : Nat}
    {R : Nat × Nat → Nat × Nat → Prop} {st st' : FState α} (h : SInv w z D n1 n2 R st)
    (x y : Nat × Nat) (tx : α) (hx : x ∈ st.V) (htx : st.T.get? x = some tx) (hy : Inb n1 n2 y) (hs : IsStep y x) (hyV : y ∉ st.V)
    (hV : st'.V = st.V) (hT : st'.T = st.T.put y (w tx (D y.1 y.2))) (hA : st'.A = st.A.put y x)
    (hF : ∀ k, st'.F.get? k = if k = y then some (w tx (D y.1 y.2)) else st.F.get? k)
    (hn : (st'.F.map (·.1)).Nodup) :
    SInv w z D n1 n2 (fun v' y' => R v' y' ∧ ¬ (v' = x ∧ y' = y)) st' := by
  have hTv : ∀ v ∈ st.V, st'.T.get? v = st.T.get? v := by
    intro v hv
    have hne : v ≠ y := fun e => hyV (e ▸ hv)
    rw [hT, get?_put]; simp only [hne, if_false]
  have hAv : ∀ v ∈ st.V, st'.A.get? v = st.A.get? v := by
    intro v hv
    have hne : v ≠ y := fun e => hyV (e ▸ hv)
    rw [hA, get?_put]; simp only [hne, if_false]
  refine { origin := hV ▸ h.origin, vis := ?_, fr := ?_, edge := ?_, back := ?_, t00 := ?_,
           nodupV := hV ▸ h.nodupV, nodupF := hn }
  · intro v' hv'
    rw [hV] at hv'
    rw [hTv v' hv']
    exact h.vis v' hv'
  · intro y' c' hc'
    rw [hF] at hc'
    by_cases hyy : y' = y
    · subst hyy
      simp only [if_true, Option.some.injEq] at hc'
      subst hc'
      refine ⟨hy, hV ▸ hyV, ?_, x, hV ▸ hx, hs, ?_, tx, ?_, rfl⟩
      · rw [hT, get?_put]; simp
      · rw [hA, get?_put]; simp
      · rw [hTv x hx]; exact htx
    · simp only [hyy, if_false] at hc'
      obtain ⟨a1, a2, a3, v0, a4, a5, a6, tv, a7, a8⟩ := h.fr y' c' hc'
      refine ⟨a1, hV ▸ a2, ?_, v0, hV ▸ a4, a5, ?_, tv, ?_, a8⟩
      · rw [hT, get?_put]; simp only [hyy, if_false]; exact a3
      · rw [hA, get?_put]; simp only [hyy, if_false]; exact a6
      · rw [hTv v0 a4]; exact a7
  · intro v' hv' y' hy' hs'
    rw [hV] at hv'
    rcases h.edge v' hv' y' hy' hs' with h1 | h1 | ⟨c0, h1⟩
    · by_cases he : v' = x ∧ y' = y
      · obtain ⟨_, e2⟩ := he
        subst e2
        exact Or.inr (Or.inr ⟨w tx (D y'.1 y'.2), by rw [hF]; simp⟩)
      · exact Or.inl ⟨h1, he⟩
    · exact Or.inr (Or.inl (hV ▸ h1))
    · by_cases hyy : y' = y
      · subst hyy
        exact Or.inr (Or.inr ⟨w tx (D y'.1 y'.2), by rw [hF]; simp⟩)
      · refine Or.inr (Or.inr ⟨c0, ?_⟩)
        rw [hF]; simp only [hyy, if_false]; exact h1
  · intro y' hy' hne0
    rw [hV] at hy'
    obtain ⟨v0, a1, a2, a3, ty, tv, a4, a5, a6⟩ := h.back y' hy' hne0
    refine ⟨v0, hV ▸ a1, a2, ?_, ty, tv, ?_, ?_, a6⟩
    · rw [hAv y' hy']; exact a3
    · rw [hTv y' hy']; exact a4
    · rw [hTv v0 a1]; exact a5
  · rw [hTv (0, 0) h.origin]; exact h.t00

/-- `_update_node` for the edge `x → y` keeps the invariant, marks the edge as relaxed and leaves the cells of visited nodes alone -/
theorem s_updateNode_inv {w : α → α → α} {z : α} {D : Nat → Nat → α} {n1 n2 : Nat}
    {R : Nat × Nat → Nat × Nat → Prop} {st : FState α} (big : α) (h : SInv w z D n1 n2 R st)
    (x y : Nat × Nat) (tx : α) (hx : x ∈ st.V) (htx : st.T.get? x = some tx) (hy : Inb n1 n2 y) (hs : IsStep y x)
    (hbig : w tx (D y.1 y.2) < big) :
    SInv w z D n1 n2 (fun v' y' => R v' y' ∧ ¬ (v' = x ∧ y' = y)) (updateNode big st y (w tx (D y.1 y.2)) x) ∧
    (updateNode big st y (w tx (D y.1 y.2)) x).V = st.V ∧
    (updateNode big st y (w tx (D y.1 y.2)) x).T.get? x = some tx := by
  unfold updateNode
  by_cases hyV : y ∈ st.V
  · have : st.V.contains y = true := by simpa using hyV
    simp only [this, if_true]
    refine ⟨{ origin := h.origin, vis := h.vis, fr := h.fr, back := h.back, t00 := h.t00, nodupV := h.nodupV,
              nodupF := h.nodupF, edge := ?_ }, trivial, htx⟩
    intro v' hv' y' hy' hs'
    rcases h.edge v' hv' y' hy' hs' with h1 | h1 | h1
    · by_cases he : v' = x ∧ y' = y
      · exact Or.inr (Or.inl (he.2 ▸ hyV))
      · exact Or.inl ⟨h1, he⟩
    · exact Or.inr (Or.inl h1)
    · exact Or.inr (Or.inr h1)
  · have hc : st.V.contains y = false := by simpa using hyV
    have hxy : x ≠ y := fun e => hyV (e ▸ hx)
    simp only [hc, Bool.false_eq_true, if_false]
    cases hF : st.F.get? y with
    | none =>
      simp only [Option.getD_none, Option.isSome_none, Bool.false_eq_true, if_false, hbig, if_true]
      refine ⟨sinv_put h x y tx hx htx hy hs hyV rfl rfl rfl ?_ (keys_put _ (keys_put _ h.nodupF _ _) _ _), trivial, ?_⟩
      · intro k
        simp only [get?_put]
        by_cases hk : k = y <;> simp [hk]
      · simp only [get?_put, hxy, if_false]; exact htx
    | some cur =>
      simp only [Option.getD_some, Option.isSome_some, if_true]
      by_cases hlt : w tx (D y.1 y.2) < cur
      · simp only [hlt, if_true]
        refine ⟨sinv_put h x y tx hx htx hy hs hyV rfl rfl rfl ?_ (keys_put _ h.nodupF _ _), trivial, ?_⟩
        · intro k; simp only [get?_put]
        · simp only [get?_put, hxy, if_false]; exact htx
      · simp only [hlt, if_false]
        refine ⟨{ origin := h.origin, vis := h.vis, fr := h.fr, back := h.back, t00 := h.t00, nodupV := h.nodupV,
                  nodupF := h.nodupF, edge := ?_ }, trivial, htx⟩
        intro v' hv' y' hy' hs'
        rcases h.edge v' hv' y' hy' hs' with h1 | h1 | h1
        · by_cases he : v' = x ∧ y' = y
          · obtain ⟨_, e2⟩ := he
            subst e2
            exact Or.inr (Or.inr ⟨cur, hF⟩)
          · exact Or.inl ⟨h1, he⟩
        · exact Or.inr (Or.inl h1)
        · exact Or.inr (Or.inr h1)

omit [LinearOrder α] in
/-- from an unvisited cell, walking back towards `(0,0)` reaches the frontier: an unvisited cell with a visited lattice predecessor -/
theorem s_exists_frontier (n1 n2 : Nat) (V : List (Nat × Nat)) (h0 : (0, 0) ∈ V) :
    ∀ n (x : Nat × Nat), x.1 + x.2 = n → Inb n1 n2 x → x ∉ V →
      ∃ y v, y ∉ V ∧ Inb n1 n2 y ∧ v ∈ V ∧ IsStep y v := by
  intro n
  induction n using Nat.strongRecOn with
  | _ n ih =>
    intro x hn hx hxV
    obtain ⟨i, j⟩ := x
    have hpos : 0 < i ∨ 0 < j := by
      by_cases h : 0 < i ∨ 0 < j
      · exact h
      · have hi : i = 0 := by omega
        have hj : j = 0 := by omega
        subst hi; subst hj; exact absurd h0 hxV
    unfold Inb at hx
    simp only at hx hn
    by_cases hi : 0 < i
    · by_cases hp : (i - 1, j) ∈ V
      · exact ⟨(i, j), (i - 1, j), hxV, hx, hp, Or.inl ⟨by simp only; omega, rfl⟩⟩
      · exact ih (i - 1 + j) (by omega) (i - 1, j) rfl (by unfold Inb; simp only; omega) hp
    · have hj : 0 < j := by omega
      by_cases hp : (i, j - 1) ∈ V
      · exact ⟨(i, j), (i, j - 1), hxV, hx, hp, Or.inr (Or.inl ⟨rfl, by simp only; omega⟩)⟩
      · exact ih (i + (j - 1)) (by omega) (i, j - 1) rfl (by unfold Inb; simp only; omega) hp

/-- popping the least entry: it joins the visited set -/
theorem s_pop_inv {w : α → α → α} {z : α} {D : Nat → Nat → α} {n1 n2 : Nat} {st : FState α}
    (h : SInv w z D n1 n2 (fun _ _ => False) st) (x : Nat × Nat) (c : α) (hpop : popSmallest st.F = some (x, c)) :
    x ∉ st.V ∧ Inb n1 n2 x ∧ st.T.get? x = some c ∧
    SInv w z D n1 n2 (fun v _ => v = x) { st with F := st.F.filter (fun e => !(e.1 == x)), V := x :: st.V } := by
  obtain ⟨hmem, _⟩ := popSmallest_spec st.F (x, c) hpop
  have hget := get?_of_mem st.F h.nodupF x c hmem
  obtain ⟨hxin, hxV, hxT, v, hvV, hvs, hvA, tv, hvT, hvc⟩ := h.fr x c hget
  refine ⟨hxV, hxin, hxT, ?_⟩
  refine { origin := List.mem_cons_of_mem _ h.origin, vis := ?_, fr := ?_, edge := ?_, back := ?_, t00 := h.t00,
           nodupV := List.nodup_cons.mpr ⟨hxV, h.nodupV⟩, nodupF := keys_erase _ h.nodupF _ }
  · intro v' hv'
    rcases List.mem_cons.mp hv' with e | hv'
    · subst e
      obtain ⟨_, tv', e1, e2⟩ := h.vis v hvV
      rw [hvT] at e1
      cases e1
      exact ⟨hxin, c, hxT, hvc ▸ coupling_step hvs e2⟩
    · exact h.vis v' hv'
  · intro y' c' hc'
    simp only [get?_erase] at hc'
    by_cases hyx : y' = x
    · simp [hyx] at hc'
    · simp only [hyx, if_false] at hc'
      obtain ⟨b1, b2, b3, v0, b4, b5, b6, b7⟩ := h.fr y' c' hc'
      refine ⟨b1, ?_, b3, v0, List.mem_cons_of_mem _ b4, b5, b6, b7⟩
      intro hm
      rcases List.mem_cons.mp hm with e | hm
      · exact hyx e
      · exact b2 hm
  · intro v' hv' y' hy' hs'
    rcases List.mem_cons.mp hv' with e | hv'
    · exact Or.inl e
    · rcases h.edge v' hv' y' hy' hs' with h1 | h1 | ⟨c0, h1⟩
      · exact absurd h1 id
      · exact Or.inr (Or.inl (List.mem_cons_of_mem _ h1))
      · by_cases hyx : y' = x
        · exact Or.inr (Or.inl (hyx ▸ List.mem_cons_self))
        · refine Or.inr (Or.inr ⟨c0, ?_⟩)
          simp only [get?_erase, hyx, if_false]; exact h1
  · intro y' hy' hne0
    rcases List.mem_cons.mp hy' with e | hy'
    · subst e
      exact ⟨v, List.mem_cons_of_mem _ hvV, hvs, hvA, c, tv, hxT, hvT, hvc⟩
    · obtain ⟨v0, b1, b2, b3, b4⟩ := h.back y' hy' hne0
      exact ⟨v0, List.mem_cons_of_mem _ b1, b2, b3, b4⟩

/-- a guarded `_update_node` call for the successor `y` of the node `x` just visited -/
theorem s_relax_inv {w : α → α → α} {z : α} {D : Nat → Nat → α} {n1 n2 : Nat}
    {R : Nat × Nat → Nat × Nat → Prop} {st : FState α} (big : α) (Dopt : Nat → Nat → Option α)
    (hD : ∀ i j, i < n2 → j < n1 → Dopt i j = some (D i j))
    (hbig : ∀ i j c, i < n2 → j < n1 → Coupling w z D i j c → c < big)
    (h : SInv w z D n1 n2 R st) (x y : Nat × Nat) (tx : α) (hx : x ∈ st.V) (htx : st.T.get? x = some tx) (cond : Bool)
    (hc : cond = true → Inb n1 n2 y ∧ IsStep y x) :
    ∃ st', relax big w Dopt x tx cond y st = some st' ∧ st'.V = st.V ∧ st'.T.get? x = some tx ∧
      SInv w z D n1 n2 (fun v' y' => R v' y' ∧ ¬ (cond = true ∧ v' = x ∧ y' = y)) st' := by
  unfold relax
  cases cond with
  | false =>
    refine ⟨st, by simp, rfl, htx, h.weaken ?_⟩
    intro v _ y' _ _ hr
    exact ⟨hr, by simp⟩
  | true =>
    obtain ⟨hy, hs⟩ := hc rfl
    simp only [if_true, hD y.1 y.2 hy.1 hy.2, Option.map_some]
    obtain ⟨_, tx', e1, e2⟩ := h.vis x hx
    rw [htx] at e1
    cases e1
    obtain ⟨hi, hv, ht⟩ := s_updateNode_inv big h x y tx hx htx hy hs (hbig y.1 y.2 _ hy.1 hy.2 (coupling_step hs e2))
    refine ⟨_, rfl, hv, ht, hi.weaken ?_⟩
    intro v _ y' _ _ hr
    exact ⟨hr.1, fun hh => hr.2 ⟨hh.2.1, hh.2.2⟩⟩

end sinv

section sloop
variable {α : Type} [LinearOrder α] [OfNat α 0]

/-- the loop has ended: the last pair is visited and the invariant holds -/
def SFinal (w : α → α → α) (z : α) (D : Nat → Nat → α) (n1 n2 : Nat) (st : FState α) : Prop :=
  (n2 - 1, n1 - 1) ∈ st.V ∧ ∃ R, SInv w z D n1 n2 R st

theorem s_afterPop_spec {w : α → α → α} {z : α} {D : Nat → Nat → α} {n1 n2 : Nat} (big : α)
    (Dopt : Nat → Nat → Option α) (hD : ∀ i j, i < n2 → j < n1 → Dopt i j = some (D i j))
    (hbig : ∀ i j c, i < n2 → j < n1 → Coupling w z D i j c → c < big)
    (fuel : Nat) (x : Nat × Nat) (st : FState α)
    (h : SInv w z D n1 n2 (fun v _ => v = x) st) (hx : x ∈ st.V)
    (hlast : x ≠ (n2 - 1, n1 - 1) → (n2 - 1, n1 - 1) ∉ st.V)
    (IH : ∀ st', SInv w z D n1 n2 (fun _ _ => False) st' → (n2 - 1, n1 - 1) ∉ st'.V → st'.V = st.V →
      ∃ st'', fdtwLoop big w Dopt n1 n2 fuel st' = some st'' ∧ SFinal w z D n1 n2 st'') :
    ∃ st'', afterPop big w Dopt n1 n2 fuel x st = some st'' ∧ SFinal w z D n1 n2 st'' := by
  unfold afterPop
  by_cases hl : x.1 = n2 - 1 ∧ x.2 = n1 - 1
  · simp only [hl, and_self, if_true]
    refine ⟨st, rfl, ?_, _, h⟩
    have : x = (n2 - 1, n1 - 1) := Prod.ext hl.1 hl.2
    exact this ▸ hx
  · simp only [hl, if_false]
    have hxne : x ≠ (n2 - 1, n1 - 1) := fun e => hl (by rw [e]; exact ⟨rfl, rfl⟩)
    obtain ⟨hxin, tx, htx, _⟩ := h.vis x hx
    have ht : (st.T.get? x).getD 0 = tx := by rw [htx]; rfl
    rw [ht]
    unfold Inb at hxin
    obtain ⟨s1, e1, v1, t1, i1⟩ := s_relax_inv big Dopt hD hbig h x (x.1+1, x.2+1) tx hx htx
      (decide (x.1 < n2 - 1 ∧ x.2 < n1 - 1))
      (fun hc => by
        have hc' := of_decide_eq_true hc
        exact ⟨by unfold Inb; simp only; omega, Or.inr (Or.inr ⟨rfl, rfl⟩)⟩)
    obtain ⟨s2, e2, v2, t2, i2⟩ := s_relax_inv big Dopt hD hbig i1 x (x.1, x.2+1) tx (v1 ▸ hx) t1
      (decide (x.2 < n1 - 1))
      (fun hc => by
        have hc' := of_decide_eq_true hc
        exact ⟨by unfold Inb; simp only; omega, Or.inr (Or.inl ⟨rfl, rfl⟩)⟩)
    obtain ⟨s3, e3, v3, _, i3⟩ := s_relax_inv big Dopt hD hbig i2 x (x.1+1, x.2) tx (v2 ▸ v1 ▸ hx) t2
      (decide (x.1 < n2 - 1))
      (fun hc => by
        have hc' := of_decide_eq_true hc
        exact ⟨by unfold Inb; simp only; omega, Or.inl ⟨rfl, rfl⟩⟩)
    rw [e1]; simp only [Option.bind_some]
    rw [e2]; simp only [Option.bind_some]
    rw [e3]; simp only [Option.bind_some]
    have hV3 : s3.V = st.V := by rw [v3, v2, v1]
    apply IH s3 _ (hV3 ▸ hlast hxne) hV3
    apply i3.weaken
    intro v _ y hy hs hr
    obtain ⟨⟨⟨hvx, r1⟩, r2⟩, r3⟩ := hr
    subst hvx
    obtain ⟨y1, y2⟩ := y
    unfold Inb at hy
    unfold IsStep at hs
    simp only at hy hs
    rcases hs with ⟨a, b⟩ | ⟨a, b⟩ | ⟨a, b⟩
    · apply r3
      refine ⟨decide_eq_true (by omega), rfl, ?_⟩
      rw [a, b]
    · apply r2
      refine ⟨decide_eq_true (by omega), rfl, ?_⟩
      rw [a, b]
    · apply r1
      refine ⟨decide_eq_true (by omega), rfl, ?_⟩
      rw [a, b]

/-- the `while(1)` loop of `_fdtw`, started on a state that satisfies the structural invariant with enough fuel, ends with the last
pair visited -/
theorem s_loop_spec {w : α → α → α} {z : α} {D : Nat → Nat → α} {n1 n2 : Nat} (big : α)
    (Dopt : Nat → Nat → Option α) (hD : ∀ i j, i < n2 → j < n1 → Dopt i j = some (D i j))
    (hbig : ∀ i j c, i < n2 → j < n1 → Coupling w z D i j c → c < big)
    (h1 : 0 < n1) (h2 : 0 < n2) :
    ∀ fuel (st : FState α), SInv w z D n1 n2 (fun _ _ => False) st → (n2 - 1, n1 - 1) ∉ st.V →
      n1 * n2 < st.V.length + fuel →
      ∃ st', fdtwLoop big w Dopt n1 n2 fuel st = some st' ∧ SFinal w z D n1 n2 st' := by
  intro fuel
  induction fuel with
  | zero =>
    intro st h _ hc
    have := length_le_of_inb n1 n2 st.V h.nodupV (fun v hv => (h.vis v hv).1)
    omega
  | succ fuel ih =>
    intro st h hl hc
    rw [fdtwLoop_succ]
    cases hp : popSmallest st.F with
    | none =>
      exfalso
      have hF : st.F = [] := (popSmallest_none st.F).mp hp
      have hin : Inb n1 n2 (n2 - 1, n1 - 1) := by unfold Inb; simp only; omega
      obtain ⟨y, v, a1, a2, a3, a4⟩ := s_exists_frontier n1 n2 st.V h.origin _ (n2 - 1, n1 - 1) rfl hin hl
      rcases h.edge v a3 y a2 a4 with e | e | ⟨c, e⟩
      · exact e
      · exact a1 e
      · rw [hF] at e; simp [NodeMap.get?] at e
    | some e =>
      obtain ⟨x, c⟩ := e
      simp only
      obtain ⟨hxV, _, _, hi⟩ := s_pop_inv h x c hp
      apply s_afterPop_spec big Dopt hD hbig fuel x _ hi List.mem_cons_self
      · intro hne hm
        rcases List.mem_cons.mp hm with e | hm
        · exact hne e.symm
        · exact hl hm
      · intro st' hi' hl' hV'
        apply ih st' hi' hl'
        rw [hV']
        simp only [List.length_cons]
        omega

omit [LinearOrder α] [OfNat α 0] in
/-- the backward step of `_fdtw`: following `A` from a visited node gives a coupling whose accumulated cost is the cell of that node -/
theorem s_walkA_spec {w : α → α → α} {z : α} {D : Nat → Nat → α} {n1 n2 : Nat}
    {R : Nat × Nat → Nat × Nat → Prop} {st : FState α} (h : SInv w z D n1 n2 R st) :
    ∀ fuel (y : Nat × Nat), y ∈ st.V → y.1 + y.2 ≤ fuel →
      BackPath (walk (fun i j => st.A.get? (i, j)) fuel y) ∧
      (walk (fun i j => st.A.get? (i, j)) fuel y).head? = some y ∧
      st.T.get? y = some (costBack w z D (walk (fun i j => st.A.get? (i, j)) fuel y)) := by
  intro fuel
  induction fuel with
  | zero =>
    intro y _ hf
    obtain ⟨i, j⟩ := y
    simp only at hf
    have hi : i = 0 := by omega
    have hj : j = 0 := by omega
    subst hi; subst hj
    simp [walk, BackPath, costBack, h.t00]
  | succ fuel ih =>
    intro y hy hf
    obtain ⟨i, j⟩ := y
    by_cases hpos : 0 < i ∨ 0 < j
    · have hne : (i, j) ≠ (0, 0) := by
        intro e; cases e; omega
      obtain ⟨v, hv, hs, hA, ty, tv, hTy, hTv, hT⟩ := h.back (i, j) hy hne
      have hlt : v.1 + v.2 ≤ fuel := by
        unfold IsStep at hs; simp only at hs hf; omega
      obtain ⟨b1, b2, b3⟩ := ih v hv hlt
      simp only [walk, hpos, if_true, hA]
      generalize hg : walk (fun i j => st.A.get? (i, j)) fuel v = l at b1 b2 b3
      cases l with
      | nil => simp at b2
      | cons b rest =>
        simp only [List.head?_cons, Option.some.injEq] at b2
        subst b2
        refine ⟨⟨hs, b1⟩, rfl, ?_⟩
        rw [hTv] at b3
        simp only [costBack] at b3 ⊢
        rw [hTy, hT, Option.some.inj b3]
    · have hi : i = 0 := by omega
      have hj : j = 0 := by omega
      subst hi; subst hj
      simp [walk, BackPath, costBack, h.t00]

end sloop

section swhole
variable {α : Type} [Add α] [Sub α] [Mul α] [LinearOrder α] [OfNat α 0]

/-- **`_fdtw` for any accumulation**: on two non-empty tracks, when `big` (1e300) is above the accumulated cost of every partial
coupling, the search succeeds, `S` is a monotone unit-step coupling from the last pair to `(0,0)`, **the reported score is the accumulated
cost of `S`**, and `_fillAF_dtw` turns `S` into the `pair` lists — whatever `w` and the point distance are (a callable `p`, negative
distances, `B**p` wrapped in int64, …). That the score is the optimum needs monotonicity and inflation (`fdtw_spec`). -/
theorem fdtw_struct (dist : Pt α → Pt α → α) (big : α) (w : α → α → α) (t1 t2 : List (Pt α))
    (h1 : 0 < t1.length) (h2 : 0 < t2.length)
    (hbig : ∀ i j c, i < t2.length → j < t1.length → Coupling w 0 (Dmat dist t1 t2) i j c → c < big) :
    ∃ S rows, fdtw dist big w t1 t2 = some
        { score := costBack w 0 (Dmat dist t1 t2) S, S := S, rows := rows, nbLinks := S.length } ∧
      BackPath S ∧ S.head? = some (t2.length - 1, t1.length - 1) ∧
      rows.length = t1.length ∧
      ∀ j, j < t1.length → (rows[j]?).map (·.pair) = some (partners S.reverse j) := by
  let D := Dmat dist t1 t2
  let n1 := t1.length
  let n2 := t2.length
  have hD : ∀ i j, i < n2 → j < n1 → cellAt (dcols D n1 n2) i j = some (D i j) := cellAt_dcols D n1 n2
  let stp : FState α := { T := [((0, 0), w 0 (D 0 0))], F := [], V := [(0, 0)], A := [((0, 0), (0, 0))] }
  have hstp : SInv w 0 D n1 n2 (fun v _ => v = (0, 0)) stp := by
    refine { origin := List.mem_singleton.mpr rfl, vis := ?_, fr := ?_, edge := ?_, back := ?_, t00 := ?_,
             nodupV := List.nodup_singleton _, nodupF := List.nodup_nil }
    · intro v hv
      have := List.mem_singleton.mp hv
      subst this
      exact ⟨⟨h2, h1⟩, _, by simp [stp, NodeMap.get?], Coupling.base⟩
    · intro y c hc; simp [stp, NodeMap.get?] at hc
    · intro v hv y _ _
      exact Or.inl (List.mem_singleton.mp hv)
    · intro y hy hne
      exact absurd (List.mem_singleton.mp hy) hne
    · simp [stp, NodeMap.get?]
  have hloop : ∃ st', fdtwLoop big w (cellAt (dcols D n1 n2)) n1 n2 (n1 * n2 + 1)
      { T := [((0, 0), w 0 (D 0 0))], F := [((0, 0), 0)], V := [], A := [((0, 0), (0, 0))] } = some st' ∧
      SFinal w 0 D n1 n2 st' := by
    rw [fdtwLoop_succ]
    have hp : popSmallest ([((0, 0), 0)] : NodeMap α) = some ((0, 0), 0) := by simp [popSmallest]
    simp only [hp]
    have hf : ([((0, 0), 0)] : NodeMap α).filter (fun e => !(e.1 == ((0, 0) : Nat × Nat))) = [] := by simp
    rw [hf]
    apply s_afterPop_spec big _ hD hbig (n1 * n2) (0, 0) stp hstp (List.mem_singleton.mpr rfl)
    · intro hne hm
      exact hne (List.mem_singleton.mp hm).symm
    · intro st' hi hl hV
      apply s_loop_spec big _ hD hbig h1 h2 (n1 * n2) st' hi hl
      rw [hV]; simp only [stp, List.length_singleton, n1, n2]; omega
  obtain ⟨st', hrun, hlast, R, hinv⟩ := hloop
  obtain ⟨bp, hd, hcost⟩ := s_walkA_spec hinv (n1 + n2) (n2 - 1, n1 - 1) hlast (by simp only; omega)
  have hb := backPath_bounds _ _ _ bp hd
  obtain ⟨rows, he, hl, hp⟩ := fillAF_spec dist t1 t2
    (walk (fun i j => st'.A.get? (i, j)) (n1 + n2) (n2 - 1, n1 - 1))
    (costBack w 0 D (walk (fun i j => st'.A.get? (i, j)) (n1 + n2) (n2 - 1, n1 - 1)))
    (fun s hs => by have := hb s hs; omega)
  refine ⟨_, rows, ?_, bp, hd, hl, hp⟩
  unfold fdtw fdtwOn
  rw [distCols_eq]
  simp only [Option.bind_eq_bind]
  rw [hD 0 0 h2 h1]
  simp only [Option.bind_some]
  rw [hrun]
  simp only [Option.bind_some]
  rw [hcost]
  exact he

end swhole
end TV.DTW
