import TracklibVerif.Lemmas.DTWTable
import Mathlib.Data.List.Nodup
import Mathlib.Data.List.ProdSigma
/-! `_fdtw` (best-first search on the coupling lattice) reports the table value of `_dtw`:
Dijkstra's invariant for an accumulation that is monotone and inflationary. -/
set_option linter.unusedSimpArgs false
namespace TV.DTW

/-! ### node maps -/
section maps
variable {β : Type}

theorem find?_filter_ne (m : NodeMap β) (k k' : Nat × Nat) (h : k' ≠ k) :
    (m.filter (fun e => !(e.1 == k))).find? (·.1 == k') = m.find? (·.1 == k') := by
  rw [List.find?_filter]
  congr 1
  funext e
  by_cases he : e.1 = k'
  · have : e.1 ≠ k := fun h' => h (he ▸ h')
    simp [he, this]
    exact fun h' => h h'
  · simp [he]

theorem get?_put (m : NodeMap β) (k k' : Nat × Nat) (v : β) :
    (m.put k v).get? k' = if k' = k then some v else m.get? k' := by
  unfold NodeMap.put NodeMap.get?
  by_cases h : k' = k
  · subst h; simp [List.find?_cons]
  · have : (k == k') = false := by simp [Ne.symm h]
    simp only [List.find?_cons, this, h, if_false]
    rw [find?_filter_ne m k k' h]

theorem get?_erase (m : NodeMap β) (k k' : Nat × Nat) :
    (NodeMap.get? (m.filter (fun e => !(e.1 == k))) k') = if k' = k then none else m.get? k' := by
  unfold NodeMap.get?
  by_cases h : k' = k
  · subst h
    simp only [if_true, Option.map_eq_none_iff, List.find?_eq_none, List.mem_filter]
    intro e he; simp at he ⊢; exact he.2
  · simp only [h, if_false]; rw [find?_filter_ne m k k' h]

theorem get?_of_mem (m : NodeMap β) (hn : (m.map (·.1)).Nodup) (k : Nat × Nat) (v : β) (h : (k, v) ∈ m) :
    m.get? k = some v := by
  unfold NodeMap.get?
  induction m with
  | nil => simp at h
  | cons e es ih =>
    simp only [List.map_cons, List.nodup_cons] at hn
    rcases List.mem_cons.mp h with h | h
    · subst h; simp [List.find?_cons]
    · have hne : e.1 ≠ k := by
        intro he; apply hn.1; rw [he]; exact List.mem_map.mpr ⟨(k, v), h, rfl⟩
      simp only [List.find?_cons, beq_iff_eq, hne, if_false]
      have : (e.1 == k) = false := by simp [hne]
      simp only [this]
      exact ih hn.2 h

theorem mem_of_get? (m : NodeMap β) (k : Nat × Nat) (v : β) (h : m.get? k = some v) : (k, v) ∈ m := by
  unfold NodeMap.get? at h
  simp only [Option.map_eq_some_iff] at h
  obtain ⟨e, he, hv⟩ := h
  have h1 := List.mem_of_find?_eq_some he
  have h2 := List.find?_some he
  simp only [beq_iff_eq] at h2
  obtain ⟨a, b⟩ := e
  simp only at h2 hv
  subst h2; subst hv; exact h1

theorem keys_put (m : NodeMap β) (hn : (m.map (·.1)).Nodup) (k : Nat × Nat) (v : β) :
    ((m.put k v).map (·.1)).Nodup := by
  unfold NodeMap.put
  simp only [List.map_cons, List.nodup_cons, List.mem_map, List.mem_filter]
  constructor
  · rintro ⟨e, ⟨_, he⟩, hk⟩; simp [hk] at he
  · exact (hn.sublist (List.Sublist.map _ List.filter_sublist))

theorem keys_erase (m : NodeMap β) (hn : (m.map (·.1)).Nodup) (k : Nat × Nat) :
    ((m.filter (fun e => !(e.1 == k))).map (·.1)).Nodup :=
  hn.sublist (List.Sublist.map _ List.filter_sublist)

end maps

/-! ### `pop_smallest` -/
section pop
variable {α : Type} [LinearOrder α]

theorem popSmallest_none (m : NodeMap α) : popSmallest m = none ↔ m = [] := by
  cases m with
  | nil => simp [popSmallest]
  | cons e es =>
    simp only [popSmallest]
    cases h : popSmallest es with
    | none => simp
    | some b => simp only; split <;> simp

theorem popSmallest_spec : ∀ (m : NodeMap α) (e : (Nat × Nat) × α), popSmallest m = some e →
    e ∈ m ∧ ∀ e' ∈ m, e.2 ≤ e'.2
  | [], e, h => by simp [popSmallest] at h
  | x :: xs, e, h => by
    simp only [popSmallest] at h
    cases hb : popSmallest xs with
    | none =>
      rw [hb] at h
      simp only [Option.some.injEq] at h
      subst h
      have : xs = [] := (popSmallest_none xs).mp hb
      subst this
      exact ⟨List.mem_cons_self, fun e' he' => by simp at he'; rw [he']⟩
    | some b =>
      rw [hb] at h
      have ih := popSmallest_spec xs b hb
      simp only at h
      split at h
      · rename_i hbetter
        simp only [Option.some.injEq] at h
        subst h
        have hle : x.2 ≤ b.2 := by
          rcases hbetter with h1 | ⟨h1, _⟩
          · exact le_of_lt h1
          · exact not_lt.mp h1
        refine ⟨List.mem_cons_self, fun e' he' => ?_⟩
        rcases List.mem_cons.mp he' with he' | he'
        · rw [he']
        · exact le_trans hle (ih.2 e' he')
      · rename_i hbetter
        simp only [Option.some.injEq] at h
        subst h
        have hle : b.2 ≤ x.2 := by
          by_cases h1 : x.2 < b.2
          · exact absurd (Or.inl h1) hbetter
          · exact not_lt.mp h1
        refine ⟨List.mem_cons_of_mem _ ih.1, fun e' he' => ?_⟩
        rcases List.mem_cons.mp he' with he' | he'
        · rw [he']; exact hle
        · exact ih.2 e' he'

end pop
end TV.DTW

namespace TV.DTW
section inv
variable {α : Type} [LinearOrder α]

/-- inside the `n2 × n1` lattice -/
def Inb (n1 n2 : Nat) (x : Nat × Nat) : Prop := x.1 < n2 ∧ x.2 < n1

/-- every cell but `(0,0)` is `w` of its designated predecessor (boundary cells included) -/
theorem T_pred_all (w : α → α → α) (z : α) (D : Nat → Nat → α) (i j : Nat) (h : 0 < i ∨ 0 < j) :
    T w z D i j = w (T w z D (pred w z D i j).1 (pred w z D i j).2) (D i j) := by
  match i, j with
  | 0, 0 => omega
  | i+1, 0 => simp only [T, pred]
  | 0, j+1 => simp only [T, pred]
  | i+1, j+1 => exact T_pred w z D i j

/-- the table value is below the value obtained through any lattice predecessor -/
theorem T_le_step (w : α → α → α) (z : α) (D : Nat → Nat → α) (hw : ∀ a b d, a ≤ b → w a d ≤ w b d)
    (y v : Nat × Nat) (h : IsStep y v) : T w z D y.1 y.2 ≤ w (T w z D v.1 v.2) (D y.1 y.2) := by
  obtain ⟨y1, y2⟩ := y
  obtain ⟨v1, v2⟩ := v
  have hc := T_coupling w z D (v1 + v2) v1 v2 rfl
  unfold IsStep at h
  simp only at h ⊢
  rcases h with ⟨h1, h2⟩ | ⟨h1, h2⟩ | ⟨h1, h2⟩ <;> subst h1 <;> subst h2
  · exact T_le w z D hw _ _ _ (Coupling.down hc)
  · exact T_le w z D hw _ _ _ (Coupling.right hc)
  · exact T_le w z D hw _ _ _ (Coupling.diag hc)

/-- Dijkstra's invariant for `_fdtw`. `R v y` = the edge `v → y` out of a visited node has not been relaxed yet. -/
structure InvR (w : α → α → α) (z : α) (D : Nat → Nat → α) (n1 n2 : Nat)
    (R : Nat × Nat → Nat × Nat → Prop) (st : FState α) : Prop where
  origin : (0, 0) ∈ st.V
  vis : ∀ v ∈ st.V, Inb n1 n2 v ∧ st.T.get? v = some (T w z D v.1 v.2)
  fr : ∀ y c, st.F.get? y = some c → Inb n1 n2 y ∧ y ∉ st.V ∧ st.T.get? y = some c ∧
        ∃ v ∈ st.V, IsStep y v ∧ st.A.get? y = some v ∧ c = w (T w z D v.1 v.2) (D y.1 y.2)
  edge : ∀ v ∈ st.V, ∀ y, Inb n1 n2 y → IsStep y v →
        R v y ∨ y ∈ st.V ∨ ∃ c, st.F.get? y = some c ∧ c ≤ w (T w z D v.1 v.2) (D y.1 y.2)
  back : ∀ y ∈ st.V, y ≠ (0, 0) → ∃ v ∈ st.V, IsStep y v ∧ st.A.get? y = some v ∧
        T w z D y.1 y.2 = w (T w z D v.1 v.2) (D y.1 y.2)
  nodupV : st.V.Nodup
  nodupF : (st.F.map (·.1)).Nodup

theorem InvR.weaken {w : α → α → α} {z : α} {D : Nat → Nat → α} {n1 n2 : Nat}
    {R R' : Nat × Nat → Nat × Nat → Prop} {st : FState α} (h : InvR w z D n1 n2 R st)
    (hR : ∀ v ∈ st.V, ∀ y, Inb n1 n2 y → IsStep y v → R v y → R' v y) : InvR w z D n1 n2 R' st :=
  { origin := h.origin, vis := h.vis, fr := h.fr, back := h.back, nodupV := h.nodupV, nodupF := h.nodupF,
    edge := fun v hv y hy hs => by
      rcases h.edge v hv y hy hs with h1 | h1 | h1
      · exact Or.inl (hR v hv y hy hs h1)
      · exact Or.inr (Or.inl h1)
      · exact Or.inr (Or.inr h1) }

/-- the state after `F[y] = c; A[y] = v; T[y] = c` for an unvisited `y`, `c = w(T[v], D[y])` not above the old priority -/
theorem inv_put {w : α → α → α} {z : α} {D : Nat → Nat → α} {n1 n2 : Nat}
    {R : Nat × Nat → Nat × Nat → Prop} {st st' : FState α} (h : InvR w z D n1 n2 R st)
    (v y : Nat × Nat) (hv : v ∈ st.V) (hy : Inb n1 n2 y) (hs : IsStep y v) (hyV : y ∉ st.V)
    (hV : st'.V = st.V) (hT : st'.T = st.T.put y (w (T w z D v.1 v.2) (D y.1 y.2))) (hA : st'.A = st.A.put y v)
    (hF : ∀ k, st'.F.get? k = if k = y then some (w (T w z D v.1 v.2) (D y.1 y.2)) else st.F.get? k)
    (hn : (st'.F.map (·.1)).Nodup)
    (hle : ∀ c0, st.F.get? y = some c0 → w (T w z D v.1 v.2) (D y.1 y.2) ≤ c0) :
    InvR w z D n1 n2 (fun v' y' => R v' y' ∧ ¬ (v' = v ∧ y' = y)) st' := by
  refine { origin := hV ▸ h.origin, vis := ?_, fr := ?_, edge := ?_, back := ?_, nodupV := hV ▸ h.nodupV, nodupF := hn }
  · intro v' hv'
    rw [hV] at hv'
    have hne : v' ≠ y := fun e => hyV (e ▸ hv')
    rw [hT, get?_put]
    simp only [hne, if_false]
    exact h.vis v' hv'
  · intro y' c' hc'
    rw [hF] at hc'
    by_cases hyy : y' = y
    · subst hyy
      simp only [if_true, Option.some.injEq] at hc'
      subst hc'
      refine ⟨hy, hV ▸ hyV, ?_, v, hV ▸ hv, hs, ?_, rfl⟩
      · rw [hT, get?_put]; simp
      · rw [hA, get?_put]; simp
    · simp only [hyy, if_false] at hc'
      obtain ⟨a1, a2, a3, v0, a4, a5, a6, a7⟩ := h.fr y' c' hc'
      refine ⟨a1, hV ▸ a2, ?_, v0, hV ▸ a4, a5, ?_, a7⟩
      · rw [hT, get?_put]; simp only [hyy, if_false]; exact a3
      · rw [hA, get?_put]; simp only [hyy, if_false]; exact a6
  · intro v' hv' y' hy' hs'
    rw [hV] at hv'
    rcases h.edge v' hv' y' hy' hs' with h1 | h1 | ⟨c0, h1, h2⟩
    · by_cases he : v' = v ∧ y' = y
      · obtain ⟨e1, e2⟩ := he
        subst e1; subst e2
        refine Or.inr (Or.inr ⟨_, ?_, le_rfl⟩)
        rw [hF]; simp
      · exact Or.inl ⟨h1, he⟩
    · exact Or.inr (Or.inl (hV ▸ h1))
    · by_cases hyy : y' = y
      · subst hyy
        refine Or.inr (Or.inr ⟨_, ?_, le_trans (hle c0 h1) h2⟩)
        rw [hF]; simp
      · refine Or.inr (Or.inr ⟨c0, ?_, h2⟩)
        rw [hF]; simp only [hyy, if_false]; exact h1
  · intro y' hy' hne0
    rw [hV] at hy'
    have hne : y' ≠ y := fun e => hyV (e ▸ hy')
    obtain ⟨v0, a1, a2, a3, a4⟩ := h.back y' hy' hne0
    refine ⟨v0, hV ▸ a1, a2, ?_, a4⟩
    rw [hA, get?_put]; simp only [hne, if_false]; exact a3

/-- `_update_node` for the edge `v → y` keeps the invariant and marks the edge as relaxed -/
theorem updateNode_inv {w : α → α → α} {z : α} {D : Nat → Nat → α} {n1 n2 : Nat}
    {R : Nat × Nat → Nat × Nat → Prop} {st : FState α} (big : α) (h : InvR w z D n1 n2 R st)
    (v y : Nat × Nat) (hv : v ∈ st.V) (hy : Inb n1 n2 y) (hs : IsStep y v)
    (hbig : w (T w z D v.1 v.2) (D y.1 y.2) < big) :
    InvR w z D n1 n2 (fun v' y' => R v' y' ∧ ¬ (v' = v ∧ y' = y))
      (updateNode big st y (w (T w z D v.1 v.2) (D y.1 y.2)) v) ∧
    (updateNode big st y (w (T w z D v.1 v.2) (D y.1 y.2)) v).V = st.V := by
  unfold updateNode
  by_cases hyV : y ∈ st.V
  · have : st.V.contains y = true := by simpa using hyV
    simp only [this, if_true]
    refine ⟨{ origin := h.origin, vis := h.vis, fr := h.fr, back := h.back, nodupV := h.nodupV, nodupF := h.nodupF,
              edge := ?_ }, trivial⟩
    intro v' hv' y' hy' hs'
    rcases h.edge v' hv' y' hy' hs' with h1 | h1 | h1
    · by_cases he : v' = v ∧ y' = y
      · exact Or.inr (Or.inl (he.2 ▸ hyV))
      · exact Or.inl ⟨h1, he⟩
    · exact Or.inr (Or.inl h1)
    · exact Or.inr (Or.inr h1)
  · have hc : st.V.contains y = false := by simpa using hyV
    simp only [hc, Bool.false_eq_true, if_false]
    cases hF : st.F.get? y with
    | none =>
      simp only [Option.getD_none, Option.isSome_none, Bool.false_eq_true, if_false, hbig, if_true]
      refine ⟨inv_put h v y hv hy hs hyV rfl rfl rfl ?_ (keys_put _ (keys_put _ h.nodupF _ _) _ _) ?_, trivial⟩
      · intro k
        simp only [get?_put]
        by_cases hk : k = y <;> simp [hk]
      · intro c0 h0; rw [hF] at h0; cases h0
    | some cur =>
      simp only [Option.getD_some, Option.isSome_some, if_true]
      by_cases hlt : w (T w z D v.1 v.2) (D y.1 y.2) < cur
      · simp only [hlt, if_true]
        refine ⟨inv_put h v y hv hy hs hyV rfl rfl rfl ?_ (keys_put _ h.nodupF _ _) ?_, trivial⟩
        · intro k; simp only [get?_put]
        · intro c0 h0; rw [hF] at h0; cases h0; exact le_of_lt hlt
      · simp only [hlt, if_false]
        refine ⟨{ origin := h.origin, vis := h.vis, fr := h.fr, back := h.back, nodupV := h.nodupV, nodupF := h.nodupF,
                  edge := ?_ }, trivial⟩
        intro v' hv' y' hy' hs'
        rcases h.edge v' hv' y' hy' hs' with h1 | h1 | h1
        · by_cases he : v' = v ∧ y' = y
          · obtain ⟨e1, e2⟩ := he
            subst e1; subst e2
            exact Or.inr (Or.inr ⟨cur, hF, not_lt.mp hlt⟩)
          · exact Or.inl ⟨h1, he⟩
        · exact Or.inr (Or.inl h1)
        · exact Or.inr (Or.inr h1)
end inv
end TV.DTW

namespace TV.DTW
section search
variable {α : Type} [LinearOrder α]

/-- from an unvisited cell, walking back along the designated predecessors reaches the frontier: an unvisited cell
whose predecessor is visited, with a table value not above that of the start (inflationary accumulation) -/
theorem exists_frontier (w : α → α → α) (z : α) (D : Nat → Nat → α) (n1 n2 : Nat)
    (hinf : ∀ a i j, i < n2 → j < n1 → a ≤ w a (D i j)) (V : List (Nat × Nat)) (h0 : (0, 0) ∈ V) :
    ∀ n (x : Nat × Nat), x.1 + x.2 = n → Inb n1 n2 x → x ∉ V →
      ∃ y, y ∉ V ∧ Inb n1 n2 y ∧ (0 < y.1 ∨ 0 < y.2) ∧ pred w z D y.1 y.2 ∈ V ∧ T w z D y.1 y.2 ≤ T w z D x.1 x.2 := by
  intro n
  induction n using Nat.strongRecOn with
  | _ n ih =>
    intro x hn hx hxV
    obtain ⟨i, j⟩ := x
    have hpos : 0 < i ∨ 0 < j := by
      by_cases h : 0 < i ∨ 0 < j
      · exact h
      · have hi : i = 0 := by omega
        have hj : j = 0 := by omega
        subst hi; subst hj; exact absurd h0 hxV
    by_cases hp : pred w z D i j ∈ V
    · exact ⟨(i, j), hxV, hx, hpos, hp, le_rfl⟩
    · have hle := pred_le w z D i j
      have hpin : Inb n1 n2 (pred w z D i j) := by
        unfold Inb at hx ⊢; simp only at hx; omega
      obtain ⟨y, a1, a2, a3, a4, a5⟩ := ih ((pred w z D i j).1 + (pred w z D i j).2)
        (by have := hle.2.2 hpos; simp only at hn; omega) (pred w z D i j) rfl hpin hp
      refine ⟨y, a1, a2, a3, a4, le_trans a5 ?_⟩
      simp only
      rw [T_pred_all w z D i j hpos]
      exact hinf _ i j hx.1 hx.2

/-- popping the least entry: its priority is the table value, and it joins the visited set -/
theorem pop_inv {w : α → α → α} {z : α} {D : Nat → Nat → α} {n1 n2 : Nat} {st : FState α}
    (hw : ∀ a b d, a ≤ b → w a d ≤ w b d) (hinf : ∀ a i j, i < n2 → j < n1 → a ≤ w a (D i j))
    (h : InvR w z D n1 n2 (fun _ _ => False) st) (x : Nat × Nat) (c : α) (hpop : popSmallest st.F = some (x, c)) :
    x ∉ st.V ∧ Inb n1 n2 x ∧
    InvR w z D n1 n2 (fun v _ => v = x) { st with F := st.F.filter (fun e => !(e.1 == x)), V := x :: st.V } := by
  obtain ⟨hmem, hmin⟩ := popSmallest_spec st.F (x, c) hpop
  have hget := get?_of_mem st.F h.nodupF x c hmem
  obtain ⟨hxin, hxV, hxT, v, hvV, hvs, hvA, hvc⟩ := h.fr x c hget
  have hlow : T w z D x.1 x.2 ≤ c := hvc ▸ T_le_step w z D hw x v hvs
  obtain ⟨y, a1, a2, a3, a4, a5⟩ := exists_frontier w z D n1 n2 hinf st.V h.origin (x.1 + x.2) x rfl hxin hxV
  have hc : c = T w z D x.1 x.2 := by
    rcases h.edge _ a4 y a2 (pred_isStep w z D y.1 y.2 a3) with h1 | h1 | ⟨c', h1, h2⟩
    · exact absurd h1 id
    · exact absurd h1 a1
    · have hm := hmin (y, c') (mem_of_get? _ _ _ h1)
      simp only at hm
      rw [← T_pred_all w z D y.1 y.2 a3] at h2
      exact le_antisymm (le_trans hm (le_trans h2 a5)) hlow
  refine ⟨hxV, hxin, ?_⟩
  refine { origin := List.mem_cons_of_mem _ h.origin, vis := ?_, fr := ?_, edge := ?_, back := ?_,
           nodupV := List.nodup_cons.mpr ⟨hxV, h.nodupV⟩, nodupF := keys_erase _ h.nodupF _ }
  · intro v' hv'
    rcases List.mem_cons.mp hv' with e | hv'
    · subst e; exact ⟨hxin, hc ▸ hxT⟩
    · exact h.vis v' hv'
  · intro y' c' hc'
    simp only [get?_erase] at hc'
    by_cases hyx : y' = x
    · simp [hyx] at hc'
    · simp only [hyx, if_false] at hc'
      obtain ⟨b1, b2, b3, v0, b4, b5, b6, b7⟩ := h.fr y' c' hc'
      refine ⟨b1, ?_, b3, v0, List.mem_cons_of_mem _ b4, b5, b6, b7⟩
      intro hm
      rcases List.mem_cons.mp hm with e | hm
      · exact hyx e
      · exact b2 hm
  · intro v' hv' y' hy' hs'
    rcases List.mem_cons.mp hv' with e | hv'
    · exact Or.inl e
    · rcases h.edge v' hv' y' hy' hs' with h1 | h1 | ⟨c0, h1, h2⟩
      · exact absurd h1 id
      · exact Or.inr (Or.inl (List.mem_cons_of_mem _ h1))
      · by_cases hyx : y' = x
        · exact Or.inr (Or.inl (hyx ▸ List.mem_cons_self))
        · refine Or.inr (Or.inr ⟨c0, ?_, h2⟩)
          simp only [get?_erase, hyx, if_false]; exact h1
  · intro y' hy' hne0
    rcases List.mem_cons.mp hy' with e | hy'
    · subst e
      exact ⟨v, List.mem_cons_of_mem _ hvV, hvs, hvA, hc ▸ hvc⟩
    · obtain ⟨v0, b1, b2, b3, b4⟩ := h.back y' hy' hne0
      exact ⟨v0, List.mem_cons_of_mem _ b1, b2, b3, b4⟩

/-- a guarded `_update_node` call for the successor `y` of the node `x` just visited -/
theorem relax_inv {w : α → α → α} {z : α} {D : Nat → Nat → α} {n1 n2 : Nat}
    {R : Nat × Nat → Nat × Nat → Prop} {st : FState α} (big : α) (Dopt : Nat → Nat → Option α)
    (hD : ∀ i j, i < n2 → j < n1 → Dopt i j = some (D i j))
    (hbig : ∀ v y, Inb n1 n2 v → Inb n1 n2 y → w (T w z D v.1 v.2) (D y.1 y.2) < big)
    (h : InvR w z D n1 n2 R st) (x y : Nat × Nat) (hx : x ∈ st.V) (cond : Bool)
    (hc : cond = true → Inb n1 n2 y ∧ IsStep y x) :
    ∃ st', relax big w Dopt x (T w z D x.1 x.2) cond y st = some st' ∧ st'.V = st.V ∧
      InvR w z D n1 n2 (fun v' y' => R v' y' ∧ ¬ (cond = true ∧ v' = x ∧ y' = y)) st' := by
  unfold relax
  cases cond with
  | false =>
    refine ⟨st, by simp, rfl, h.weaken ?_⟩
    intro v _ y' _ _ hr
    exact ⟨hr, by simp⟩
  | true =>
    obtain ⟨hy, hs⟩ := hc rfl
    simp only [if_true, hD y.1 y.2 hy.1 hy.2, Option.map_some]
    obtain ⟨hi, hv⟩ := updateNode_inv big h x y hx hy hs (hbig x y (h.vis x hx).1 hy)
    refine ⟨_, rfl, hv, hi.weaken ?_⟩
    intro v _ y' _ _ hr
    exact ⟨hr.1, fun hh => hr.2 ⟨hh.2.1, hh.2.2⟩⟩

end search
end TV.DTW

namespace TV.DTW
section loop
variable {α : Type} [LinearOrder α] [OfNat α 0]

theorem length_le_of_inb (n1 n2 : Nat) (V : List (Nat × Nat)) (hn : V.Nodup) (hb : ∀ v ∈ V, Inb n1 n2 v) :
    V.length ≤ n1 * n2 := by
  have hsub : V ⊆ (List.range n2 ×ˢ List.range n1) := by
    intro v hv
    obtain ⟨a, b⟩ := v
    have := hb _ hv
    unfold Inb at this
    simp only [List.mem_product, List.mem_range]
    exact this
  have := hn.length_le_of_subset hsub
  rw [List.length_product, List.length_range, List.length_range, Nat.mul_comm] at this
  exact this

/-- the part of the loop body that follows `pop_smallest` -/
def afterPop (big : α) (w : α → α → α) (Dopt : Nat → Nat → Option α) (n1 n2 fuel : Nat) (x : Nat × Nat)
    (st : FState α) : Option (FState α) :=
  if x.1 = n2 - 1 ∧ x.2 = n1 - 1 then some st else
  let tij := (st.T.get? x).getD 0
  (relax big w Dopt x tij (decide (x.1 < n2 - 1 ∧ x.2 < n1 - 1)) (x.1+1, x.2+1) st).bind fun st =>
  (relax big w Dopt x tij (decide (x.2 < n1 - 1)) (x.1, x.2+1) st).bind fun st =>
  (relax big w Dopt x tij (decide (x.1 < n2 - 1)) (x.1+1, x.2) st).bind fun st =>
  fdtwLoop big w Dopt n1 n2 fuel st

theorem fdtwLoop_succ (big : α) (w : α → α → α) (Dopt : Nat → Nat → Option α) (n1 n2 fuel : Nat) (st : FState α) :
    fdtwLoop big w Dopt n1 n2 (fuel+1) st =
      match popSmallest st.F with
      | none => none
      | some (x, _) => afterPop big w Dopt n1 n2 fuel x
          { st with F := st.F.filter (fun e => !(e.1 == x)), V := x :: st.V } := by
  rw [fdtwLoop]
  cases popSmallest st.F with
  | none => rfl
  | some e =>
    obtain ⟨x, c⟩ := e
    simp only [afterPop]

/-- the loop has ended: the last pair is visited and the invariant holds -/
def Final (w : α → α → α) (z : α) (D : Nat → Nat → α) (n1 n2 : Nat) (st : FState α) : Prop :=
  (n2 - 1, n1 - 1) ∈ st.V ∧ ∃ R, InvR w z D n1 n2 R st

end loop
end TV.DTW

namespace TV.DTW
section loop2
variable {α : Type} [LinearOrder α] [OfNat α 0]

theorem afterPop_spec {w : α → α → α} {z : α} {D : Nat → Nat → α} {n1 n2 : Nat} (big : α)
    (Dopt : Nat → Nat → Option α) (hD : ∀ i j, i < n2 → j < n1 → Dopt i j = some (D i j))
    (hbig : ∀ v y, Inb n1 n2 v → Inb n1 n2 y → w (T w z D v.1 v.2) (D y.1 y.2) < big)
    (fuel : Nat) (x : Nat × Nat) (st : FState α)
    (h : InvR w z D n1 n2 (fun v _ => v = x) st) (hx : x ∈ st.V)
    (hlast : x ≠ (n2 - 1, n1 - 1) → (n2 - 1, n1 - 1) ∉ st.V)
    (IH : ∀ st', InvR w z D n1 n2 (fun _ _ => False) st' → (n2 - 1, n1 - 1) ∉ st'.V → st'.V = st.V →
      ∃ st'', fdtwLoop big w Dopt n1 n2 fuel st' = some st'' ∧ Final w z D n1 n2 st'') :
    ∃ st'', afterPop big w Dopt n1 n2 fuel x st = some st'' ∧ Final w z D n1 n2 st'' := by
  unfold afterPop
  by_cases hl : x.1 = n2 - 1 ∧ x.2 = n1 - 1
  · simp only [hl, and_self, if_true]
    refine ⟨st, rfl, ?_, _, h⟩
    have : x = (n2 - 1, n1 - 1) := Prod.ext hl.1 hl.2
    exact this ▸ hx
  · simp only [hl, if_false]
    have hxne : x ≠ (n2 - 1, n1 - 1) := fun e => hl (by rw [e]; exact ⟨rfl, rfl⟩)
    have ht : (st.T.get? x).getD 0 = T w z D x.1 x.2 := by rw [(h.vis x hx).2]; rfl
    rw [ht]
    have hxin := (h.vis x hx).1
    unfold Inb at hxin
    obtain ⟨s1, e1, v1, i1⟩ := relax_inv big Dopt hD hbig h x (x.1+1, x.2+1) hx
      (decide (x.1 < n2 - 1 ∧ x.2 < n1 - 1))
      (fun hc => by
        have hc' := of_decide_eq_true hc
        exact ⟨by unfold Inb; simp only; omega, Or.inr (Or.inr ⟨rfl, rfl⟩)⟩)
    obtain ⟨s2, e2, v2, i2⟩ := relax_inv big Dopt hD hbig i1 x (x.1, x.2+1) (v1 ▸ hx)
      (decide (x.2 < n1 - 1))
      (fun hc => by
        have hc' := of_decide_eq_true hc
        exact ⟨by unfold Inb; simp only; omega, Or.inr (Or.inl ⟨rfl, rfl⟩)⟩)
    obtain ⟨s3, e3, v3, i3⟩ := relax_inv big Dopt hD hbig i2 x (x.1+1, x.2) (v2 ▸ v1 ▸ hx)
      (decide (x.1 < n2 - 1))
      (fun hc => by
        have hc' := of_decide_eq_true hc
        exact ⟨by unfold Inb; simp only; omega, Or.inl ⟨rfl, rfl⟩⟩)
    rw [e1]; simp only [Option.bind_some]
    rw [e2]; simp only [Option.bind_some]
    rw [e3]; simp only [Option.bind_some]
    have hV3 : s3.V = st.V := by rw [v3, v2, v1]
    apply IH s3 _ (hV3 ▸ hlast hxne) hV3
    apply i3.weaken
    intro v _ y hy hs hr
    obtain ⟨⟨⟨hvx, r1⟩, r2⟩, r3⟩ := hr
    subst hvx
    obtain ⟨y1, y2⟩ := y
    unfold Inb at hy
    unfold IsStep at hs
    simp only at hy hs
    rcases hs with ⟨a, b⟩ | ⟨a, b⟩ | ⟨a, b⟩
    · apply r3
      refine ⟨decide_eq_true (by omega), rfl, ?_⟩
      rw [a, b]
    · apply r2
      refine ⟨decide_eq_true (by omega), rfl, ?_⟩
      rw [a, b]
    · apply r1
      refine ⟨decide_eq_true (by omega), rfl, ?_⟩
      rw [a, b]

/-- the `while(1)` loop of `_fdtw`, started on a state that satisfies the invariant with enough fuel, ends with
the last pair visited -/
theorem loop_spec {w : α → α → α} {z : α} {D : Nat → Nat → α} {n1 n2 : Nat} (big : α)
    (hw : ∀ a b d, a ≤ b → w a d ≤ w b d) (hinf : ∀ a i j, i < n2 → j < n1 → a ≤ w a (D i j))
    (Dopt : Nat → Nat → Option α) (hD : ∀ i j, i < n2 → j < n1 → Dopt i j = some (D i j))
    (hbig : ∀ v y, Inb n1 n2 v → Inb n1 n2 y → w (T w z D v.1 v.2) (D y.1 y.2) < big)
    (h1 : 0 < n1) (h2 : 0 < n2) :
    ∀ fuel (st : FState α), InvR w z D n1 n2 (fun _ _ => False) st → (n2 - 1, n1 - 1) ∉ st.V →
      n1 * n2 < st.V.length + fuel →
      ∃ st', fdtwLoop big w Dopt n1 n2 fuel st = some st' ∧ Final w z D n1 n2 st' := by
  intro fuel
  induction fuel with
  | zero =>
    intro st h _ hc
    have := length_le_of_inb n1 n2 st.V h.nodupV (fun v hv => (h.vis v hv).1)
    omega
  | succ fuel ih =>
    intro st h hl hc
    rw [fdtwLoop_succ]
    cases hp : popSmallest st.F with
    | none =>
      exfalso
      have hF : st.F = [] := (popSmallest_none st.F).mp hp
      have hin : Inb n1 n2 (n2 - 1, n1 - 1) := by unfold Inb; simp only; omega
      obtain ⟨y, a1, a2, a3, a4, _⟩ := exists_frontier w z D n1 n2 hinf st.V h.origin _ (n2 - 1, n1 - 1) rfl hin hl
      rcases h.edge _ a4 y a2 (pred_isStep w z D y.1 y.2 a3) with e | e | ⟨c, e, _⟩
      · exact e
      · exact a1 e
      · rw [hF] at e; simp [NodeMap.get?] at e
    | some e =>
      obtain ⟨x, c⟩ := e
      simp only
      obtain ⟨hxV, _, hi⟩ := pop_inv hw hinf h x c hp
      apply afterPop_spec big Dopt hD hbig fuel x _ hi List.mem_cons_self
      · intro hne hm
        rcases List.mem_cons.mp hm with e | hm
        · exact hne e.symm
        · exact hl hm
      · intro st' hi' hl' hV'
        apply ih st' hi' hl'
        rw [hV']
        simp only [List.length_cons]
        omega

end loop2
end TV.DTW

namespace TV.DTW
section final
variable {α : Type} [LinearOrder α]

omit [LinearOrder α] in
theorem cellAt_dcols (D : Nat → Nat → α) (n1 n2 i j : Nat) (hi : i < n2) (hj : j < n1) :
    cellAt (dcols D n1 n2) i j = some (D i j) := by
  unfold cellAt dcols
  simp [hi, hj]

/-- the backward step of `_fdtw`: following `A` from a visited node gives a coupling whose cost is the table value -/
theorem walkA_spec {w : α → α → α} {z : α} {D : Nat → Nat → α} {n1 n2 : Nat}
    {R : Nat × Nat → Nat × Nat → Prop} {st : FState α} (h : InvR w z D n1 n2 R st) :
    ∀ fuel (y : Nat × Nat), y ∈ st.V → y.1 + y.2 ≤ fuel →
      BackPath (walk (fun i j => st.A.get? (i, j)) fuel y) ∧
      (walk (fun i j => st.A.get? (i, j)) fuel y).head? = some y ∧
      costBack w z D (walk (fun i j => st.A.get? (i, j)) fuel y) = T w z D y.1 y.2 := by
  intro fuel
  induction fuel with
  | zero =>
    intro y _ hf
    obtain ⟨i, j⟩ := y
    simp only at hf
    have hi : i = 0 := by omega
    have hj : j = 0 := by omega
    subst hi; subst hj
    simp [walk, BackPath, costBack, T]
  | succ fuel ih =>
    intro y hy hf
    obtain ⟨i, j⟩ := y
    by_cases hpos : 0 < i ∨ 0 < j
    · have hne : (i, j) ≠ (0, 0) := by
        intro e; cases e; omega
      obtain ⟨v, hv, hs, hA, hT⟩ := h.back (i, j) hy hne
      have hlt : v.1 + v.2 ≤ fuel := by
        unfold IsStep at hs; simp only at hs hf; omega
      obtain ⟨b1, b2, b3⟩ := ih v hv hlt
      simp only [walk, hpos, if_true, hA]
      generalize hg : walk (fun i j => st.A.get? (i, j)) fuel v = l at b1 b2 b3
      cases l with
      | nil => simp at b2
      | cons b rest =>
        simp only [List.head?_cons, Option.some.injEq] at b2
        subst b2
        refine ⟨⟨hs, b1⟩, rfl, ?_⟩
        simp only [costBack] at b3 ⊢
        rw [b3, hT]
    · have hi : i = 0 := by omega
      have hj : j = 0 := by omega
      subst hi; subst hj
      simp [walk, BackPath, costBack, T]

end final

section whole
variable {α : Type} [Add α] [Sub α] [Mul α] [LinearOrder α] [OfNat α 0]

/-- `_fdtw` on two non-empty tracks, for an accumulation that is monotone and inflationary on the distances at hand,
and a placeholder priority `big` (1e300) above every candidate cost: it succeeds, the score is the table value of
`_dtw` at the last pair, `S` is a monotone unit-step coupling from the last pair to `(0,0)` whose accumulated cost is
the score, and `_fillAF_dtw` turns `S` into the `pair` lists -/
theorem fdtw_spec (dist : Pt α → Pt α → α) (big : α) (w : α → α → α) (t1 t2 : List (Pt α))
    (h1 : 0 < t1.length) (h2 : 0 < t2.length)
    (hw : ∀ a b d, a ≤ b → w a d ≤ w b d)
    (hinf : ∀ a i j, i < t2.length → j < t1.length → a ≤ w a (Dmat dist t1 t2 i j))
    (hbig : ∀ i j i' j', i < t2.length → j < t1.length → i' < t2.length → j' < t1.length →
      w (T w 0 (Dmat dist t1 t2) i j) (Dmat dist t1 t2 i' j') < big) :
    ∃ S rows, fdtw dist big w t1 t2 = some
        { score := T w 0 (Dmat dist t1 t2) (t2.length - 1) (t1.length - 1), S := S, rows := rows,
          nbLinks := S.length } ∧
      BackPath S ∧ S.head? = some (t2.length - 1, t1.length - 1) ∧
      costBack w 0 (Dmat dist t1 t2) S = T w 0 (Dmat dist t1 t2) (t2.length - 1) (t1.length - 1) ∧
      rows.length = t1.length ∧
      ∀ j, j < t1.length → (rows[j]?).map (·.pair) = some (partners S.reverse j) := by
  let D := Dmat dist t1 t2
  let n1 := t1.length
  let n2 := t2.length
  have hD : ∀ i j, i < n2 → j < n1 → cellAt (dcols D n1 n2) i j = some (D i j) := cellAt_dcols D n1 n2
  have hbig' : ∀ v y, Inb n1 n2 v → Inb n1 n2 y → w (T w 0 D v.1 v.2) (D y.1 y.2) < big :=
    fun v y hv hy => hbig v.1 v.2 y.1 y.2 hv.1 hv.2 hy.1 hy.2
  -- the state after the first `pop_smallest`
  let stp : FState α := { T := [((0, 0), w 0 (D 0 0))], F := [], V := [(0, 0)], A := [((0, 0), (0, 0))] }
  have hstp : InvR w 0 D n1 n2 (fun v _ => v = (0, 0)) stp := by
    refine { origin := List.mem_singleton.mpr rfl, vis := ?_, fr := ?_, edge := ?_, back := ?_,
             nodupV := List.nodup_singleton _, nodupF := List.nodup_nil }
    · intro v hv
      have := List.mem_singleton.mp hv
      subst this
      exact ⟨⟨h2, h1⟩, by simp [stp, NodeMap.get?, T]⟩
    · intro y c hc; simp [stp, NodeMap.get?] at hc
    · intro v hv y _ _
      exact Or.inl (List.mem_singleton.mp hv)
    · intro y hy hne
      exact absurd (List.mem_singleton.mp hy) hne
  have hloop : ∃ st', fdtwLoop big w (cellAt (dcols D n1 n2)) n1 n2 (n1 * n2 + 1)
      { T := [((0, 0), w 0 (D 0 0))], F := [((0, 0), 0)], V := [], A := [((0, 0), (0, 0))] } = some st' ∧
      Final w 0 D n1 n2 st' := by
    rw [fdtwLoop_succ]
    have hp : popSmallest ([((0, 0), 0)] : NodeMap α) = some ((0, 0), 0) := by simp [popSmallest]
    simp only [hp]
    have hf : ([((0, 0), 0)] : NodeMap α).filter (fun e => !(e.1 == ((0, 0) : Nat × Nat))) = [] := by simp
    rw [hf]
    apply afterPop_spec big _ hD hbig' (n1 * n2) (0, 0) stp hstp (List.mem_singleton.mpr rfl)
    · intro hne hm
      exact hne (List.mem_singleton.mp hm).symm
    · intro st' hi hl hV
      apply loop_spec big hw hinf _ hD hbig' h1 h2 (n1 * n2) st' hi hl
      rw [hV]; simp only [stp, List.length_singleton, n1, n2]; omega
  obtain ⟨st', hrun, hlast, R, hinv⟩ := hloop
  obtain ⟨bp, hd, hcost⟩ := walkA_spec hinv (n1 + n2) (n2 - 1, n1 - 1) hlast (by simp only; omega)
  have hb := backPath_bounds _ _ _ bp hd
  obtain ⟨rows, he, hl, hp⟩ := fillAF_spec dist t1 t2
    (walk (fun i j => st'.A.get? (i, j)) (n1 + n2) (n2 - 1, n1 - 1)) (T w 0 D (n2 - 1) (n1 - 1))
    (fun s hs => by have := hb s hs; omega)
  refine ⟨_, rows, ?_, bp, hd, hcost, hl, hp⟩
  unfold fdtw fdtwOn
  rw [distCols_eq]
  simp only [Option.bind_eq_bind]
  rw [hD 0 0 h2 h1]
  simp only [Option.bind_some]
  rw [hrun]
  simp only [Option.bind_some]
  rw [(hinv.vis _ hlast).2]
  exact he

end whole
end TV.DTW
