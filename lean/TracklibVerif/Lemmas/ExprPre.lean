import TracklibVerif.Model.Expr
/-! # Fuel-free characterisations of the Python string primitives of `Model/Expr.lean`

`replace s pat rep` when `pat` does not occur, for a one-character pattern (a `flatMap`), for a
two-character pattern (`rep2`, structural); adjacency chains (`chn`) as the tool that shows that a
pattern does not occur. Core Lean only. -/
namespace TV.Expr

/-! ## `contains` -/

theorem contains_decomp {pat : Str} : ∀ {s : Str}, contains pat s = true → ∃ p q, s = p ++ pat ++ q
  | [], h => by
    simp only [contains, List.isEmpty_iff] at h
    exact ⟨[], [], by simp [h]⟩
  | c :: cs, h => by
    simp only [contains, Bool.or_eq_true] at h
    rcases h with h | h
    · obtain ⟨t, ht⟩ := List.isPrefixOf_iff_prefix.mp h
      exact ⟨[], t, by simp [ht]⟩
    · obtain ⟨p, q, hpq⟩ := contains_decomp h
      exact ⟨c :: p, q, by simp [hpq]⟩

theorem contains_single_true {c : Char} : ∀ {s : Str}, c ∈ s → contains [c] s = true
  | [], h => by simp at h
  | d :: ds, h => by
    simp only [contains, Bool.or_eq_true]
    by_cases hd : c = d
    · left; subst hd; simp [List.isPrefixOf]
    · right
      have : c ∈ ds := by
        rcases List.mem_cons.mp h with h | h
        · exact absurd h hd
        · exact h
      exact contains_single_true this

theorem contains_single_false {c : Char} {s : Str} (h : c ∉ s) : contains [c] s = false := by
  cases hc : contains [c] s with
  | false => rfl
  | true =>
    obtain ⟨p, q, hpq⟩ := contains_decomp hc
    exact absurd (by simp [hpq]) h

/-! ## `replace` when the pattern does not occur -/

theorem replaceAux_nil (pat rep : Str) (f : Nat) : replaceAux pat rep f [] = [] := by
  cases f <;> rfl

theorem replaceAux_absent (pat rep : Str) : ∀ (s : Str), contains pat s = false → ∀ f, replaceAux pat rep f s = s
  | [], _, f => replaceAux_nil pat rep f
  | c :: cs, h, f => by
    simp only [contains, Bool.or_eq_false_iff] at h
    cases f with
    | zero => rfl
    | succ f =>
      simp only [replaceAux, h.1, Bool.false_eq_true, if_false]
      rw [replaceAux_absent pat rep cs h.2 f]

theorem replace_absent (s pat rep : Str) (h : contains pat s = false) : replace s pat rep = s := by
  unfold replace
  split
  · rfl
  · exact replaceAux_absent pat rep s h _

/-! ## one-character pattern -/

/-- the character map of `s.replace(c, rep)` -/
def fm (c : Char) (rep : Str) : Char → Str := fun d => if d = c then rep else [d]

theorem fm_self (c : Char) (rep : Str) : fm c rep c = rep := by simp [fm]
theorem fm_ne {c d : Char} (rep : Str) (h : d ≠ c) : fm c rep d = [d] := by simp [fm, h]

theorem replaceAux_one (c : Char) (rep : Str) : ∀ (f : Nat) (s : Str), s.length < f →
    replaceAux [c] rep f s = s.flatMap (fm c rep)
  | 0, _, h => by omega
  | f+1, [], _ => rfl
  | f+1, d :: ds, h => by
    have hl : ds.length < f := by simp at h; omega
    have ih := replaceAux_one c rep f ds hl
    by_cases hd : d = c
    ·       simp only [replaceAux, List.flatMap_cons, List.isPrefixOf, hd, beq_self_eq_true, Bool.and_true, if_true,
        List.length_singleton, List.drop_succ_cons, List.drop_zero, ih, fm_self]
    · have hb : (c == d) = false := by simpa using fun h => hd h.symm
      simp only [replaceAux, List.flatMap_cons, List.isPrefixOf, hb, Bool.false_and, Bool.false_eq_true, if_false, ih,
        fm_ne rep hd, List.cons_append, List.nil_append]

theorem replace_one (s : Str) (c : Char) (rep : Str) : replace s [c] rep = s.flatMap (fm c rep) := by
  unfold replace
  simp only [List.isEmpty_cons, Bool.false_eq_true, if_false]
  exact replaceAux_one c rep _ s (by omega)

theorem flatMap_fm_absent {c : Char} {rep : Str} : ∀ {s : Str}, c ∉ s → s.flatMap (fm c rep) = s
  | [], _ => rfl
  | d :: ds, h => by
    have hd : d ≠ c := fun e => h (by simp [e])
    have hds : c ∉ ds := fun e => h (by simp [e])
    simp only [List.flatMap_cons, fm_ne rep hd, flatMap_fm_absent hds, List.cons_append, List.nil_append]

/-! ## two-character pattern -/

/-- `s.replace(a+b, rep)`, left to right, non-overlapping; structural -/
def rep2 (a b : Char) (rep : Str) : Str → Str
  | [] => []
  | [x] => [x]
  | x :: y :: rest => if (a == x && b == y) = true then rep ++ rep2 a b rep rest else x :: rep2 a b rep (y :: rest)

theorem replaceAux_two (a b : Char) (rep : Str) : ∀ (f : Nat) (s : Str), s.length < f →
    replaceAux [a, b] rep f s = rep2 a b rep s
  | 0, _, h => by omega
  | f+1, [], _ => rfl
  | f+1, [x], _ => by
    simp only [replaceAux, List.isPrefixOf, Bool.and_false, Bool.false_eq_true, if_false, replaceAux_nil, rep2]
  | f+1, x :: y :: r, h => by
    have h1 : (y :: r).length < f := by simp at h ⊢; omega
    have h2 : r.length < f := by simp at h; omega
    simp only [replaceAux, List.isPrefixOf, Bool.and_true, rep2]
    split
    · simp only [List.length_cons, List.length_nil, List.drop_succ_cons, List.drop_zero]
      rw [replaceAux_two a b rep f r h2]
    · rw [replaceAux_two a b rep f (y :: r) h1]

theorem replace_two (s : Str) (a b : Char) (rep : Str) : replace s [a, b] rep = rep2 a b rep s := by
  unfold replace
  simp only [List.isEmpty_cons, Bool.false_eq_true, if_false]
  exact replaceAux_two a b rep _ s (by omega)

theorem rep2_absent_left {a b : Char} {rep : Str} : ∀ {s : Str}, a ∉ s → rep2 a b rep s = s
  | [], _ => rfl
  | [x], _ => rfl
  | x :: y :: r, h => by
    have hx : (a == x) = false := by simpa using fun e => h (by simp [e])
    have : a ∉ y :: r := fun e => h (List.mem_cons_of_mem _ e)
    simp only [rep2, hx, Bool.false_and, Bool.false_eq_true, if_false]
    rw [rep2_absent_left this]

/-- `rep2` is compositional as long as the cut does not fall inside an occurrence -/
theorem rep2_append (a b : Char) (rep : Str) : ∀ (n : Nat) (s t : Str), s.length ≤ n →
    (s.getLast? ≠ some a ∨ t.head? ≠ some b) → rep2 a b rep (s ++ t) = rep2 a b rep s ++ rep2 a b rep t
  | _, [], t, _, _ => rfl
  | _, [x], [], _, _ => rfl
  | _, [x], y :: t, _, hj => by
    have : ¬ ((a == x && b == y) = true) := by
      intro h
      simp only [Bool.and_eq_true, beq_iff_eq] at h
      rcases hj with hj | hj
      · exact hj (by simp [h.1])
      · exact hj (by simp [h.2])
    have hb : (a == x && b == y) = false := by simpa using this
    simp only [List.cons_append, List.nil_append, rep2, hb, Bool.false_eq_true, if_false]
  | 0, x :: y :: r, t, h, _ => by simp at h
  | n+1, x :: y :: r, t, h, hj => by
    have h1 : (y :: r).length ≤ n := by simp at h ⊢; omega
    have h2 : r.length ≤ n := by simp at h; omega
    simp only [List.cons_append, rep2]
    split
    · have hj' : r.getLast? ≠ some a ∨ t.head? ≠ some b := by
        cases r with
        | nil => left; simp
        | cons z r' => simpa using hj
      rw [rep2_append a b rep n r t h2 hj', List.append_assoc]
    · have hj' : (y :: r).getLast? ≠ some a ∨ t.head? ≠ some b := by simpa using hj
      have := rep2_append a b rep n (y :: r) t h1 hj'
      simp only [List.cons_append] at this
      rw [this]; rfl

/-! ## adjacency chains -/

/-- every pair of adjacent characters is related by `R` -/
def chn (R : Char → Char → Bool) : Str → Bool
  | [] => true
  | a :: cs => (match cs with | [] => true | b :: _ => R a b) && chn R cs

/-- the pair at the junction of two strings -/
def junc (R : Char → Char → Bool) (s t : Str) : Bool :=
  match s.getLast?, t.head? with
  | some x, some y => R x y
  | _, _ => true

theorem chn_append (R : Char → Char → Bool) : ∀ (s t : Str), chn R (s ++ t) = (chn R s && chn R t && junc R s t)
  | [], t => by simp [chn, junc]
  | [a], t => by cases t <;> simp [chn, junc, Bool.and_comm]
  | a :: b :: r, t => by
    have ih := chn_append R (b :: r) t
    have hj : junc R (a :: b :: r) t = junc R (b :: r) t := by simp [junc]
    simp only [List.cons_append] at ih ⊢
    rw [hj]
    simp only [chn] at ih ⊢
    rw [ih]
    simp [Bool.and_assoc]

theorem chn_mid {R : Char → Char → Bool} {p m q : Str} (h : chn R (p ++ m ++ q) = true) : chn R m = true := by
  rw [chn_append, chn_append] at h
  simp only [Bool.and_eq_true] at h
  exact h.1.1.1.2

/-- a pattern with a forbidden adjacent pair occurs in no chain -/
theorem contains_false_of_chn {R : Char → Char → Bool} {s pat : Str} (hs : chn R s = true) (hp : chn R pat = false) :
    contains pat s = false := by
  cases hc : contains pat s with
  | false => rfl
  | true =>
    obtain ⟨p, q, hpq⟩ := contains_decomp hc
    rw [hpq] at hs
    rw [chn_mid hs] at hp
    cases hp

theorem replace_chn {R : Char → Char → Bool} {s : Str} (pat rep : Str) (hs : chn R s = true) (hp : chn R pat = false) :
    replace s pat rep = s :=
  replace_absent s pat rep (contains_false_of_chn hs hp)

end TV.Expr
