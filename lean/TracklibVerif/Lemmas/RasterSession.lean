import TracklibVerif.Model.RasterSession
import TracklibVerif.Lemmas.Raster
/-! Helper lemmas for the state machine of the `Raster` object (C19; model: `Model/RasterSession.lean`). -/
namespace TV.Raster
set_option linter.unusedSectionVars false

section structural
variable {α : Type} [Field α] [LinearOrder α] [IsStrictOrderedRing α] [FloorRing α]

theorem addBand_g (s : RState α) (name : List String) (init : Option (List (List (Option α)))) :
    (addBand s name init).1.g = s.g ∧ (addBand s name init).1.values = s.values := by
  unfold addBand
  split
  · exact ⟨rfl, rfl⟩
  · split
    · exact ⟨rfl, rfl⟩
    · split
      · exact ⟨rfl, rfl⟩
      · exact ⟨rfl, rfl⟩
      · split <;> exact ⟨rfl, rfl⟩

theorem addColl_g (floor : α → Int) (s : RState α) (afo : List String) (T : List (Trk α)) :
    (addColl floor s afo T).1.g = s.g ∧ (addColl floor s afo T).1.bands = s.bands := by
  unfold addColl
  split
  · exact ⟨rfl, rfl⟩
  · split <;> exact ⟨rfl, rfl⟩

theorem step_g (floor : α → Int) (s : RState α) (c : Cmd α) : (step floor s c).1.g = s.g := by
  cases c with
  | band name init => exact (addBand_g s name init).1
  | add afo T => exact (addColl_g floor s afo T).1
  | compute => rfl
  | setNoData v => rfl

theorem step_values (floor : α → Int) (s : RState α) (c : Cmd α) (h : c.isAdd = false) :
    (step floor s c).1.values = s.values := by
  cases c with
  | band name init => exact (addBand_g s name init).2
  | add afo T => simp [Cmd.isAdd] at h
  | compute => rfl
  | setNoData v => rfl

theorem run_nil (floor : α → Int) (s : RState α) : run floor s [] = (s, []) := rfl

theorem run_cons (floor : α → Int) (s : RState α) (c : Cmd α) (rest : List (Cmd α)) :
    run floor s (c :: rest)
      = ((run floor (step floor s c).1 rest).1, (step floor s c).2 :: (run floor (step floor s c).1 rest).2) := rfl

theorem run_append (floor : α → Int) : ∀ (a b : List (Cmd α)) (s : RState α),
    run floor s (a ++ b)
      = ((run floor (run floor s a).1 b).1, (run floor s a).2 ++ (run floor (run floor s a).1 b).2) := by
  intro a
  induction a with
  | nil => intro b s; simp [run_nil]
  | cons c rest ih => intro b s; simp only [List.cons_append, run_cons, ih]

theorem run_g (floor : α → Int) : ∀ (cmds : List (Cmd α)) (s : RState α), (run floor s cmds).1.g = s.g := by
  intro cmds
  induction cmds with
  | nil => intro s; rfl
  | cons c rest ih => intro s; rw [run_cons]; simp only; rw [ih, step_g]

theorem run_values (floor : α → Int) : ∀ (cmds : List (Cmd α)) (s : RState α),
    (∀ c ∈ cmds, c.isAdd = false) → (run floor s cmds).1.values = s.values := by
  intro cmds
  induction cmds with
  | nil => intro s _; rfl
  | cons c rest ih =>
    intro s h
    rw [run_cons]; simp only
    rw [ih _ (fun c' hc' => h c' (List.mem_cons_of_mem _ hc')), step_values _ _ _ (h c List.mem_cons_self)]

theorem run_length (floor : α → Int) : ∀ (cmds : List (Cmd α)) (s : RState α),
    (run floor s cmds).2.length = cmds.length := by
  intro cmds
  induction cmds with
  | nil => intro s; rfl
  | cons c rest ih => intro s; rw [run_cons]; simp [ih]

end structural

section scatterP
variable {α V : Type} [Sub α] [Div α] [IntCast α] [LT α] [DecidableLT α] [BEq α]

/-- when the scatter loop does not raise, the version that keeps the partial state agrees with it -/
theorem scatterP_of_scatter (floor : α → Int) (g : Grid α) : ∀ (obs : List (α × α × V)) (c c' : Cells V),
    scatter floor g c obs = some c' → scatterP floor g c obs = (c', none) := by
  intro obs
  induction obs with
  | nil => intro c c' h; simp only [scatter, Option.some.injEq] at h; simp [scatterP, h]
  | cons o rest ih =>
    intro c c' h
    obtain ⟨x, y, v⟩ := o
    simp only [scatter] at h
    simp only [scatterP]
    cases hc : getCell floor g x y with
    | none => rw [hc] at h; simp at h
    | some p =>
      obtain ⟨column, line⟩ := p
      rw [hc] at h
      simp only at h ⊢
      cases hp : put c line column v with
      | none => rw [hp] at h; simp at h
      | some c1 => rw [hp] at h; simp only at h ⊢; exact ih c1 c' h

/-- the scatter loop over `pre ++ rest` when it does not raise on `pre`: it goes on over `rest` from the cells reached -/
theorem scatterP_append_of_scatter (floor : α → Int) (g : Grid α) (rest : List (α × α × V)) :
    ∀ (pre : List (α × α × V)) (c c' : Cells V),
    scatter floor g c pre = some c' → scatterP floor g c (pre ++ rest) = scatterP floor g c' rest := by
  intro pre
  induction pre with
  | nil => intro c c' h; simp only [scatter, Option.some.injEq] at h; simp [h]
  | cons o pre ih =>
    intro c c' h
    obtain ⟨x, y, v⟩ := o
    simp only [scatter] at h
    simp only [List.cons_append, scatterP]
    cases hc : getCell floor g x y with
    | none => rw [hc] at h; simp at h
    | some p =>
      obtain ⟨column, line⟩ := p
      rw [hc] at h
      simp only at h ⊢
      cases hp : put c line column v with
      | none => rw [hp] at h; simp at h
      | some c1 => rw [hp] at h; simp only at h ⊢; exact ih c1 c' h
end scatterP

section add
variable {α : Type} [Field α] [LinearOrder α] [IsStrictOrderedRing α] [FloorRing α]

theorem located_append {O W : Type} (cell : O → Option (Int × Int)) (val : O → W) (j i : Nat) (a b : List O) :
    located cell val j i (a ++ b) = located cell val j i a ++ located cell val j i b := by
  unfold located; rw [List.filterMap_append]

/-- every observation handed to the scatter for a track is one of its positions -/
theorem obsOf_mem (t : Trk α) (af : String) : ∀ o ∈ obsOf t af, (o.1, o.2.1) ∈ t.pts := by
  intro o ho
  unfold obsOf at ho
  cases h : featVals t af with
  | none => rw [h] at ho; simp at ho
  | some vs =>
    rw [h] at ho
    simp only [List.mem_map] at ho
    obtain ⟨pv, hpv, rfl⟩ := ho
    have := (List.of_mem_zip hpv).1
    simpa using this

theorem growE_key (floor : α → Int) (g : Grid α) (t : Trk α) (e : String × Cells (Option α)) :
    (growE floor g t e).1.1 = e.1 := by
  unfold growE
  cases featVals t e.1 <;> rfl

def InExtent (g : Grid α) (t : Trk α) : Prop :=
  ∀ p ∈ t.pts, (g.xmin ≤ p.1 ∧ p.1 ≤ g.xmax) ∧ (g.ymin ≤ p.2 ∧ p.2 ≤ g.ymax)

/-- one (track, feature) pass on a rectangular grid of cells, the track inside the extent and having the feature:
    no exception, the grid stays rectangular, every cell gains exactly the values of the track's observations
    located in it, in order -/
theorem growE_ok (g : Grid α) (hg : WF g) (t : Trk α) (e : String × Cells (Option α))
    (hR : Rect e.2 g.nrow.toNat g.ncol.toNat) (hf : (featVals t e.1).isSome = true) (hin : InExtent g t) :
    (growE Int.floor g t e).2 = none ∧ Rect (growE Int.floor g t e).1.2 g.nrow.toNat g.ncol.toNat
    ∧ ∀ i j, cellAt (growE Int.floor g t e).1.2 i j
        = cellAt e.2 i j ++ located (fun o : α × α × Option α => getCell Int.floor g o.1 o.2.1) (fun o => o.2.2) j i (obsOf t e.1) := by
  have hrange : ∀ o ∈ obsOf t e.1, ∃ col line : Int, getCell Int.floor g o.1 o.2.1 = some (col, line)
      ∧ 0 ≤ col ∧ col < (g.ncol.toNat : ℤ) ∧ 0 ≤ line ∧ line < (g.nrow.toNat : ℤ) := by
    intro o ho
    have hp := hin _ (obsOf_mem t e.1 o ho)
    obtain ⟨c, r, h, c0, c1, r0, r1, _⟩ := getCell_footprint g hg o.1 o.2.1 hp.1 hp.2
    refine ⟨c, r, h, c0, ?_, r0, ?_⟩
    · rw [Int.toNat_of_nonneg hg.ncol_pos.le]; exact c1
    · rw [Int.toNat_of_nonneg hg.nrow_pos.le]; exact r1
  obtain ⟨c', hsc, hR', hcells⟩ := scatterBy_spec (fun o : α × α × Option α => getCell Int.floor g o.1 o.2.1)
    (fun o => o.2.2) g.nrow.toNat g.ncol.toNat (obsOf t e.1) e.2 hR hrange
  rw [← scatter_eq_scatterBy] at hsc
  have hP := scatterP_of_scatter Int.floor g (obsOf t e.1) e.2 c' hsc
  obtain ⟨vs, hvs⟩ := Option.isSome_iff_exists.1 hf
  have hgrow : growE Int.floor g t e = ((e.1, c'), none) := by
    unfold growE
    rw [hvs]
    simp only [hP]
  rw [hgrow]
  exact ⟨rfl, hR', hcells⟩

/-- without exception the inner loop over the features is a map over the dictionary -/
theorem addTrack_ok (floor : α → Int) (g : Grid α) (t : Trk α) : ∀ V : Vals α,
    (∀ e ∈ V, (growE floor g t e).2 = none) → addTrack floor g t V = (V.map (fun e => (growE floor g t e).1), none) := by
  intro V
  induction V with
  | nil => intro _; rfl
  | cons e rest ih =>
    intro h
    have he := h e List.mem_cons_self
    have ih' := ih (fun e' he' => h e' (List.mem_cons_of_mem _ he'))
    have hpair : growE floor g t e = ((growE floor g t e).1, none) := by rw [← he]
    simp only [addTrack]
    rw [hpair]
    simp only [ih', List.map_cons]

/-- the entry of a feature after all the tracks of a collection -/
def growAll (floor : α → Int) (g : Grid α) (ts : List (Trk α)) (e : String × Cells (Option α)) : String × Cells (Option α) :=
  ts.foldl (fun e t => (growE floor g t e).1) e

theorem growAll_key (floor : α → Int) (g : Grid α) : ∀ (ts : List (Trk α)) (e : String × Cells (Option α)),
    (growAll floor g ts e).1 = e.1 := by
  intro ts
  induction ts with
  | nil => intro e; rfl
  | cons t rest ih => intro e; unfold growAll; simp only [List.foldl_cons]; exact (ih _).trans (growE_key floor g t e)

theorem growAll_spec (g : Grid α) (hg : WF g) : ∀ (ts : List (Trk α)) (e : String × Cells (Option α)),
    Rect e.2 g.nrow.toNat g.ncol.toNat → (∀ t ∈ ts, (featVals t e.1).isSome = true ∧ InExtent g t) →
    Rect (growAll Int.floor g ts e).2 g.nrow.toNat g.ncol.toNat
    ∧ ∀ i j, cellAt (growAll Int.floor g ts e).2 i j
        = cellAt e.2 i j ++ located (fun o : α × α × Option α => getCell Int.floor g o.1 o.2.1) (fun o => o.2.2) j i
            (ts.flatMap (fun t => obsOf t e.1)) := by
  intro ts
  induction ts with
  | nil => intro e hR _; exact ⟨hR, fun i j => by simp [growAll, located]⟩
  | cons t rest ih =>
    intro e hR h
    obtain ⟨hf, hin⟩ := h t List.mem_cons_self
    obtain ⟨_, hR1, hc1⟩ := growE_ok g hg t e hR hf hin
    have hk := growE_key Int.floor g t e
    obtain ⟨hR2, hc2⟩ := ih (growE Int.floor g t e).1 hR1
      (fun t' ht' => by rw [hk]; exact h t' (List.mem_cons_of_mem _ ht'))
    have e1 : growAll Int.floor g (t :: rest) e = growAll Int.floor g rest (growE Int.floor g t e).1 := rfl
    rw [e1]
    refine ⟨hR2, fun i j => ?_⟩
    rw [hc2 i j, hc1 i j, hk, List.flatMap_cons, located_append, List.append_assoc]

/-- without exception the loop over the tracks maps every entry of the dictionary independently -/
theorem addTracks_ok (g : Grid α) (hg : WF g) : ∀ (ts : List (Trk α)) (V : Vals α),
    (∀ e ∈ V, Rect e.2 g.nrow.toNat g.ncol.toNat ∧ ∀ t ∈ ts, (featVals t e.1).isSome = true) →
    (∀ t ∈ ts, InExtent g t) →
    addTracks Int.floor g ts V = (V.map (growAll Int.floor g ts), none) := by
  intro ts
  induction ts with
  | nil =>
    intro V _ _
    have : (growAll Int.floor g ([] : List (Trk α))) = id := rfl
    simp [addTracks, this]
  | cons t rest ih =>
    intro V hV hin
    have h1 : ∀ e ∈ V, (growE Int.floor g t e).2 = none := fun e he =>
      (growE_ok g hg t e (hV e he).1 ((hV e he).2 t List.mem_cons_self) (hin t List.mem_cons_self)).1
    have hstep := addTrack_ok Int.floor g t V h1
    simp only [addTracks]
    rw [hstep]
    simp only
    rw [ih (V.map (fun e => (growE Int.floor g t e).1)) ?_ (fun t' ht' => hin t' (List.mem_cons_of_mem _ ht'))]
    · rw [List.map_map]; rfl
    · intro e' he'
      obtain ⟨e, he, rfl⟩ := List.mem_map.1 he'
      refine ⟨(growE_ok g hg t e (hV e he).1 ((hV e he).2 t List.mem_cons_self) (hin t List.mem_cons_self)).2.1, ?_⟩
      intro t' ht'
      rw [growE_key]
      exact (hV e he).2 t' (List.mem_cons_of_mem _ ht')

theorem lookup_map_key {C : Type} (f : String → String × C) (hf : ∀ a, (f a).1 = a) : ∀ (l : List String) (a : String),
    a ∈ l → (l.map f).lookup a = some (f a).2 := by
  intro l
  induction l with
  | nil => intro a h; simp at h
  | cons k rest ih =>
    intro a h
    rw [List.map_cons]
    have hk : f k = ((f k).1, (f k).2) := rfl
    rw [hk, List.lookup_cons, hf k]
    by_cases e : a = k
    · subst e; simp
    · have : (a == k) = false := by simpa using e
      rw [this]
      rcases List.mem_cons.1 h with h | h
      · exact absurd h e
      · exact ih a h

theorem lookup_map_none {C : Type} (f : String → String × C) (hf : ∀ a, (f a).1 = a) : ∀ (l : List String) (a : String),
    a ∉ l → (l.map f).lookup a = none := by
  intro l
  induction l with
  | nil => intro a _; rfl
  | cons k rest ih =>
    intro a h
    rw [List.map_cons]
    have hk : f k = ((f k).1, (f k).2) := rfl
    rw [hk, List.lookup_cons, hf k]
    have e : ¬ a = k := fun e => h (e ▸ List.mem_cons_self)
    have : (a == k) = false := by simpa using e
    rw [this]
    exact ih a (fun h' => h (List.mem_cons_of_mem _ h'))

/-- the values a collection leaves on the raster: per feature, the grid obtained from EMPTY cells — nothing of what
    the raster held before enters -/
def valsOf (g : Grid α) (afo : List String) (T : List (Trk α)) : Vals α :=
  afo.map (fun af => growAll Int.floor g T (af, emptyCells g.nrow.toNat g.ncol.toNat))

/-- `addCollectionToRaster` of a collection inside the extent whose tracks have every feature: no exception, the
    bands and the geometry are untouched, and the values are `valsOf` — whatever the raster held before -/
theorem addColl_ok (s : RState α) (hg : WF s.g) (afo : List String) (T : List (Trk α))
    (hperm : afo.isPerm (afsOf s.bands) = true)
    (hfeat : ∀ t ∈ T, ∀ af ∈ afo, (featVals t af).isSome = true) (hin : ∀ t ∈ T, InExtent s.g t) :
    addColl Int.floor s afo T = ({ s with values := some (valsOf s.g afo T) }, none) := by
  unfold addColl
  have h1 : (!(afo.isPerm (afsOf s.bands))) = false := by rw [hperm]; rfl
  have h2 : (T.any (fun t => afo.any (fun af => (featVals t af).isNone))) = false := by
    rw [List.any_eq_false]
    intro t ht
    rw [Bool.not_eq_true, List.any_eq_false]
    intro af haf
    have := hfeat t ht af haf
    cases hfv : featVals t af with
    | none => rw [hfv] at this; simp at this
    | some v => simp
  rw [h1, h2]
  simp only [Bool.false_eq_true, ↓reduceIte]
  rw [addTracks_ok s.g hg T _ ?_ hin]
  · simp only [valsOf, List.map_map]; rfl
  · intro e he
    obtain ⟨af, haf, rfl⟩ := List.mem_map.1 he
    exact ⟨rect_empty _ _, fun t ht => hfeat t ht af haf⟩

/-- content of `valsOf`: exactly the features of `afo`; the cell (line `i`, column `j`) of feature `af` holds the
    values of `af` of the observations of the collection that `getCell` locates there, in track order -/
theorem valsOf_spec (g : Grid α) (hg : WF g) (afo : List String) (T : List (Trk α))
    (hfeat : ∀ t ∈ T, ∀ af ∈ afo, (featVals t af).isSome = true) (hin : ∀ t ∈ T, InExtent g t) (af : String) :
    (af ∉ afo → (valsOf g afo T).lookup af = none) ∧
    (af ∈ afo → ∃ c, (valsOf g afo T).lookup af = some c ∧ Rect c g.nrow.toNat g.ncol.toNat
      ∧ ∀ i j, cellAt c i j = located (fun o : α × α × Option α => getCell Int.floor g o.1 o.2.1) (fun o => o.2.2) j i
          (T.flatMap (fun t => obsOf t af))) := by
  have hkey : ∀ a, (growAll Int.floor g T (a, emptyCells g.nrow.toNat g.ncol.toNat)).1 = a := fun a => growAll_key _ _ _ _
  constructor
  · intro h; exact lookup_map_none _ hkey afo af h
  · intro h
    refine ⟨_, lookup_map_key _ hkey afo af h, ?_⟩
    obtain ⟨hR, hc⟩ := growAll_spec g hg T (af, emptyCells g.nrow.toNat g.ncol.toNat) (rect_empty _ _)
      (fun t ht => ⟨hfeat t ht af h, hin t ht⟩)
    refine ⟨hR, fun i j => ?_⟩
    rw [hc i j, cellAt_empty]; simp

/-- `(x, y)` lies in the extent of the grid -/
def Inside (g : Grid α) (x y : α) : Prop := (g.xmin ≤ x ∧ x ≤ g.xmax) ∧ (g.ymin ≤ y ∧ y ≤ g.ymax)

theorem getCell_outside (g : Grid α) (x y : α) (h : ¬ Inside g x y) : getCell Int.floor g x y = none := by
  unfold getCell
  by_cases h1 : x < g.xmin ∨ g.xmax < x
  · simp [h1]
  · by_cases h2 : y < g.ymin ∨ g.ymax < y
    · simp [h1, h2]
    · exfalso
      apply h
      push Not at h1 h2
      exact ⟨h1, h2⟩

/-- the scatter over observations one of which lies outside the extent raises `TypeError` (the ones before it, inside
    the extent, are put in their cells without `IndexError`) -/
theorem scatterP_outside {W : Type} (g : Grid α) (hg : WF g) : ∀ (obs : List (α × α × W)) (c : Cells W),
    Rect c g.nrow.toNat g.ncol.toNat → (∃ o ∈ obs, ¬ Inside g o.1 o.2.1) →
    (scatterP Int.floor g c obs).2 = some .type := by
  intro obs
  induction obs with
  | nil => intro c _ h; obtain ⟨o, ho, _⟩ := h; simp at ho
  | cons o rest ih =>
    intro c hR h
    obtain ⟨x, y, v⟩ := o
    by_cases hin : Inside g x y
    · obtain ⟨cc, r, hcell, c0, c1, r0, r1, _⟩ := getCell_footprint g hg x y hin.1 hin.2
      have c1' : cc < (g.ncol.toNat : ℤ) := by rw [Int.toNat_of_nonneg hg.ncol_pos.le]; exact c1
      have r1' : r < (g.nrow.toNat : ℤ) := by rw [Int.toNat_of_nonneg hg.nrow_pos.le]; exact r1
      obtain ⟨c', hput, hR', _⟩ := put_spec c g.nrow.toNat g.ncol.toNat hR r cc r0 r1' c0 c1' v
      simp only [scatterP, hcell, hput]
      apply ih c' hR'
      obtain ⟨o', ho', hout⟩ := h
      rcases List.mem_cons.1 ho' with e | e
      · subst e; exact absurd hin hout
      · exact ⟨o', e, hout⟩
    · simp only [scatterP, getCell_outside g x y hin]

theorem obsOf_points (t : Trk α) (af : String) (vs : List (Option α)) (h : featVals t af = some vs) (hl : vs.length = t.pts.length) :
    (obsOf t af).map (fun o => (o.1, o.2.1)) = t.pts := by
  unfold obsOf
  rw [h]
  simp only [List.map_map]
  have : ((fun o : α × α × Option α => (o.1, o.2.1)) ∘ fun pv : (α × α) × Option α => (pv.1.1, pv.1.2, pv.2)) = Prod.fst := by
    funext pv; rfl
  rw [this, List.map_fst_zip]
  omega

/-- a track has the feature, with one value per observation -/
def HasFeat (t : Trk α) (af : String) : Prop := ∃ vs, featVals t af = some vs ∧ vs.length = t.pts.length

theorem growE_outside (g : Grid α) (hg : WF g) (t : Trk α) (e : String × Cells (Option α))
    (hR : Rect e.2 g.nrow.toNat g.ncol.toNat) (hf : HasFeat t e.1) (hout : ∃ p ∈ t.pts, ¬ Inside g p.1 p.2) :
    (growE Int.floor g t e).2 = some .type := by
  obtain ⟨vs, hvs, hl⟩ := hf
  obtain ⟨p, hp, hpo⟩ := hout
  have hex : ∃ o ∈ obsOf t e.1, ¬ Inside g o.1 o.2.1 := by
    rw [← obsOf_points t e.1 vs hvs hl] at hp
    obtain ⟨o, ho, rfl⟩ := List.mem_map.1 hp
    exact ⟨o, ho, hpo⟩
  unfold growE
  rw [hvs]
  exact scatterP_outside g hg _ _ hR hex

theorem addTrack_outside (g : Grid α) (hg : WF g) (t : Trk α) (V : Vals α) (hne : V ≠ [])
    (hV : ∀ e ∈ V, Rect e.2 g.nrow.toNat g.ncol.toNat ∧ HasFeat t e.1) (hout : ∃ p ∈ t.pts, ¬ Inside g p.1 p.2) :
    (addTrack Int.floor g t V).2 = some .type := by
  cases V with
  | nil => exact absurd rfl hne
  | cons e rest =>
    have he := growE_outside g hg t e (hV e List.mem_cons_self).1 (hV e List.mem_cons_self).2 hout
    have hpair : growE Int.floor g t e = ((growE Int.floor g t e).1, some .type) := by rw [← he]
    simp only [addTrack]
    rw [hpair]

/-- the loop over the tracks of a collection one of whose observations lies outside the extent raises `TypeError` -/
theorem addTracks_outside (g : Grid α) (hg : WF g) : ∀ (ts : List (Trk α)) (V : Vals α), V ≠ [] →
    (∀ e ∈ V, Rect e.2 g.nrow.toNat g.ncol.toNat ∧ ∀ t ∈ ts, HasFeat t e.1) →
    (∃ t ∈ ts, ∃ p ∈ t.pts, ¬ Inside g p.1 p.2) →
    (addTracks Int.floor g ts V).2 = some .type := by
  intro ts
  induction ts with
  | nil => intro V _ _ h; obtain ⟨t, ht, _⟩ := h; simp at ht
  | cons t rest ih =>
    intro V hne hV h
    by_cases hin : ∀ p ∈ t.pts, Inside g p.1 p.2
    · have hsome : ∀ e ∈ V, (featVals t e.1).isSome = true := fun e he => by
        obtain ⟨vs, hvs, _⟩ := (hV e he).2 t List.mem_cons_self
        rw [hvs]; rfl
      have h1 : ∀ e ∈ V, (growE Int.floor g t e).2 = none := fun e he =>
        (growE_ok g hg t e (hV e he).1 (hsome e he) hin).1
      simp only [addTracks]
      rw [addTrack_ok Int.floor g t V h1]
      simp only
      apply ih
      · intro e; exact hne (List.map_eq_nil_iff.1 e)
      · intro e' he'
        obtain ⟨e, he, rfl⟩ := List.mem_map.1 he'
        refine ⟨(growE_ok g hg t e (hV e he).1 (hsome e he) hin).2.1, ?_⟩
        intro t' ht'
        rw [growE_key]
        exact (hV e he).2 t' (List.mem_cons_of_mem _ ht')
      · obtain ⟨t', ht', hp⟩ := h
        rcases List.mem_cons.1 ht' with e | e
        · subst e
          obtain ⟨p, hp1, hp2⟩ := hp
          exact absurd (hin p hp1) hp2
        · exact ⟨t', e, hp⟩
    · push Not at hin
      obtain ⟨p, hp1, hp2⟩ := hin
      have hT := addTrack_outside g hg t V hne
        (fun e he => ⟨(hV e he).1, (hV e he).2 t List.mem_cons_self⟩) ⟨p, hp1, hp2⟩
      have hpair : addTrack Int.floor g t V = ((addTrack Int.floor g t V).1, some .type) := by rw [← hT]
      simp only [addTracks]
      rw [hpair]

end add

section compute
variable {α : Type} [Field α] [LinearOrder α] [IsStrictOrderedRing α] [FloorRing α]

theorem computeBand_name (wr : Option α) (V : Option (Vals α)) (b : Band α) : (computeBand wr V b).1.name = b.name := by
  unfold computeBand
  split
  · split
    · rfl
    · split
      · rfl
      · split <;> rfl
  · rfl

/-- a band `<feature>#<operator>…` whose feature is among the values and whose operator is one of the six: the grid is
    rewritten with the aggregates of that feature's cells, whatever the band held before -/
theorem computeBand_ok (wr : Option α) (V : Vals α) (b : Band α) (af opn : String) (rest : List String) (op : Op)
    (c : Cells (Option α)) (hn : b.name = af :: opn :: rest) (hl : V.lookup af = some c) (ho : opOf opn = some op) :
    computeBand wr (some V) b = ({ b with grid := some (aggregatesN wr op c) }, none) := by
  unfold computeBand
  rw [hn]
  simp only [hl, ho]

theorem computeAll_ok (wr : Option α) (V : Option (Vals α)) : ∀ bands : List (Band α),
    (∀ b ∈ bands, (computeBand wr V b).2 = none) →
    computeAll wr V bands = (bands.map (fun b => (computeBand wr V b).1), none) := by
  intro bands
  induction bands with
  | nil => intro _; rfl
  | cons b rest ih =>
    intro h
    have hb := h b List.mem_cons_self
    have ih' := ih (fun b' hb' => h b' (List.mem_cons_of_mem _ hb'))
    have hpair : computeBand wr V b = ((computeBand wr V b).1, none) := by rw [← hb]
    simp only [computeAll]
    rw [hpair]
    simp only [ih', List.map_cons]

/-- a failing `computeAggregates`: the bands before the first band that raises have been rewritten, that band and the
    following ones are as they were; the exception is that band's -/
theorem computeAll_fail (wr : Option α) (V : Option (Vals α)) : ∀ (bands bands' : List (Band α)) (e : Err),
    computeAll wr V bands = (bands', some e) →
    ∃ (pre : List (Band α)) (b : Band α) (post : List (Band α)), bands = pre ++ b :: post
      ∧ (∀ p ∈ pre, (computeBand wr V p).2 = none) ∧ computeBand wr V b = (b, some e)
      ∧ bands' = pre.map (fun p => (computeBand wr V p).1) ++ b :: post := by
  intro bands
  induction bands with
  | nil => intro bands' e h; simp [computeAll] at h
  | cons b rest ih =>
    intro bands' e h
    simp only [computeAll] at h
    cases hb : (computeBand wr V b).2 with
    | some x =>
      have hpair : computeBand wr V b = ((computeBand wr V b).1, some x) := by rw [← hb]
      rw [hpair] at h
      simp only [Prod.mk.injEq, Option.some.injEq] at h
      have hsame : (computeBand wr V b).1 = b := by
        unfold computeBand at hb ⊢
        split <;> try rfl
        split <;> try rfl
        split <;> try rfl
        split <;> try rfl
        simp_all
      refine ⟨[], b, rest, rfl, by simp, ?_, ?_⟩
      · rw [hpair, hsame, h.2]
      · rw [← h.1, hsame]; rfl
    | none =>
      have hpair : computeBand wr V b = ((computeBand wr V b).1, none) := by rw [← hb]
      rw [hpair] at h
      simp only [Prod.mk.injEq] at h
      have hrest : computeAll wr V rest = ((computeAll wr V rest).1, some e) := by rw [← h.2]
      obtain ⟨pre, b0, post, h1, h2, h3, h4⟩ := ih _ e hrest
      refine ⟨b :: pre, b0, post, by rw [h1]; rfl, ?_, h3, ?_⟩
      · intro p hp
        rcases List.mem_cons.1 hp with e' | e'
        · rw [e']; exact hb
        · exact h2 p e'
      · rw [← h.1, h4]; rfl

/-- the state reached by any sequence of calls `pre` on a new raster, then a well-formed `addCollectionToRaster` -/
def afterAdd (g : Grid α) (nd : Option α) (pre : List (Cmd α)) (afo : List String) (T : List (Trk α)) : RState α :=
  { (run Int.floor (initState g nd) pre).1 with values := some (valsOf g afo T) }

/-- Any calls `pre`, then a collection inside the extent whose tracks have every feature, then any calls `post` other than
    `addCollectionToRaster`, then `computeAggregates` with every band of the form `<feature>#<operator>`: the outcome
    list and the final state, explicitly. -/
theorem session_core (g : Grid α) (hg : WF g) (nd : Option α) (pre post : List (Cmd α)) (afo : List String) (T : List (Trk α))
    (hpost : ∀ c ∈ post, c.isAdd = false)
    (hperm : afo.isPerm (afsOf (run Int.floor (initState g nd) pre).1.bands) = true)
    (hfeat : ∀ t ∈ T, ∀ af ∈ afo, (featVals t af).isSome = true) (hin : ∀ t ∈ T, InExtent g t)
    (hbands : ∀ b ∈ (run Int.floor (afterAdd g nd pre afo T) post).1.bands,
        ∃ af opn rest, b.name = af :: opn :: rest ∧ af ∈ afo ∧ (opOf opn).isSome = true) :
    run Int.floor (initState g nd) (pre ++ [.add afo T] ++ post ++ [.compute])
      = ({ (run Int.floor (afterAdd g nd pre afo T) post).1 with
            bands := (run Int.floor (afterAdd g nd pre afo T) post).1.bands.map
              (fun b => (computeBand (run Int.floor (afterAdd g nd pre afo T) post).1.noData (some (valsOf g afo T)) b).1) },
         (run Int.floor (initState g nd) pre).2 ++ [none] ++ (run Int.floor (afterAdd g nd pre afo T) post).2 ++ [none]) := by
  have hg1 : (run Int.floor (initState g nd) pre).1.g = g := run_g _ _ _
  have hadd : addColl Int.floor (run Int.floor (initState g nd) pre).1 afo T = (afterAdd g nd pre afo T, none) := by
    rw [addColl_ok _ (by rw [hg1]; exact hg) afo T hperm hfeat (by rw [hg1]; exact hin)]
    unfold afterAdd
    simp only [hg1]
  have hvals : (run Int.floor (afterAdd g nd pre afo T) post).1.values = some (valsOf g afo T) :=
    run_values _ post _ hpost
  have hall : ∀ b ∈ (run Int.floor (afterAdd g nd pre afo T) post).1.bands,
      (computeBand (run Int.floor (afterAdd g nd pre afo T) post).1.noData (some (valsOf g afo T)) b).2 = none := by
    intro b hb
    obtain ⟨af, opn, rest, hn, haf, hop⟩ := hbands b hb
    obtain ⟨op, hop⟩ := Option.isSome_iff_exists.1 hop
    obtain ⟨c, hl, _⟩ := (valsOf_spec g hg afo T hfeat hin af).2 haf
    rw [computeBand_ok _ _ b af opn rest op c hn hl hop]
  rw [run_append, run_append, run_append]
  simp only [run_cons, run_nil, step, hadd, hvals, computeAll_ok _ _ _ hall, List.append_assoc]

/-- the same run seen from the start: the state before the last `computeAggregates` is the one reached from `afterAdd` -/
theorem run_through_add (g : Grid α) (hg : WF g) (nd : Option α) (pre post : List (Cmd α)) (afo : List String) (T : List (Trk α))
    (hperm : afo.isPerm (afsOf (run Int.floor (initState g nd) pre).1.bands) = true)
    (hfeat : ∀ t ∈ T, ∀ af ∈ afo, (featVals t af).isSome = true) (hin : ∀ t ∈ T, InExtent g t) :
    (run Int.floor (initState g nd) (pre ++ [.add afo T] ++ post)).1 = (run Int.floor (afterAdd g nd pre afo T) post).1 := by
  have hg1 : (run Int.floor (initState g nd) pre).1.g = g := run_g _ _ _
  have hadd : addColl Int.floor (run Int.floor (initState g nd) pre).1 afo T = (afterAdd g nd pre afo T, none) := by
    rw [addColl_ok _ (by rw [hg1]; exact hg) afo T hperm hfeat (by rw [hg1]; exact hin)]
    unfold afterAdd
    simp only [hg1]
  rw [run_append, run_append]
  simp only [run_cons, run_nil, step, hadd]

/-- `addAFMap` of new, distinct, non-empty names without grid: all accepted, appended in order -/
theorem run_bands (floor : α → Int) : ∀ (names : List (List String)) (s : RState α),
    names.Nodup → (∀ n ∈ names, n ≠ [""] ∧ ∀ b ∈ s.bands, b.name ≠ n) →
    run floor s (names.map (fun n => Cmd.band n none))
      = ({ s with bands := s.bands ++ names.map (fun n => (⟨n, none⟩ : Band α)) }, names.map (fun _ => none)) := by
  intro names
  induction names with
  | nil => intro s _ _; simp [run_nil]
  | cons n rest ih =>
    intro s hnd h
    obtain ⟨hn1, hn2⟩ := h n List.mem_cons_self
    have hany : (s.bands.any (fun b => b.name == n)) = false := by
      rw [List.any_eq_false]
      intro b hb
      simpa using hn2 b hb
    have hstep : addBand s n none = ({ s with bands := s.bands ++ [⟨n, none⟩] }, none) := by
      unfold addBand
      simp [hn1, hany]
    rw [List.map_cons, run_cons]
    simp only [step, hstep]
    rw [ih _ (List.nodup_cons.1 hnd).2 ?_]
    · simp
    · intro m hm
      refine ⟨(h m (List.mem_cons_of_mem _ hm)).1, ?_⟩
      intro b hb
      simp only [List.mem_append, List.mem_singleton] at hb
      rcases hb with hb | hb
      · exact (h m (List.mem_cons_of_mem _ hm)).2 b hb
      · rw [hb]
        intro e
        have e' : n = m := e
        exact (List.nodup_cons.1 hnd).1 (e' ▸ hm)

end compute

/-! what the calls other than `computeAggregates` leave of the bands (`setNoDataValue`, `addAFMap`, `addCollectionToRaster`) -/
section keep
variable {α : Type} [Field α] [LinearOrder α] [IsStrictOrderedRing α] [FloorRing α]

theorem fresh_band (s : RState α) (name : List String) (g : Option (List (List (Option α))))
    (hany : s.bands.any (fun b => b.name == name) = false) :
    ∀ b ∈ [(⟨name, g⟩ : Band α)], ∀ b' ∈ s.bands, b.name ≠ b'.name := by
  intro b hb b' hb' e
  rw [List.any_eq_false] at hany
  simp only [List.mem_singleton] at hb
  subst hb
  have e' : b'.name = name := e.symm
  exact hany b' hb' (by simp [e'])

theorem addBand_bands (s : RState α) (name : List String) (init : Option (List (List (Option α)))) :
    (addBand s name init).1.noData = s.noData ∧
    ∃ extra, (addBand s name init).1.bands = s.bands ++ extra ∧ ∀ b ∈ extra, ∀ b' ∈ s.bands, b.name ≠ b'.name := by
  unfold addBand
  split
  · exact ⟨rfl, [], by simp, by simp⟩
  · split
    · exact ⟨rfl, [], by simp, by simp⟩
    · rename_i _ hany
      have hany' : s.bands.any (fun b => b.name == name) = false := by simpa using hany
      split
      · exact ⟨rfl, [⟨name, none⟩], rfl, fresh_band s name none hany'⟩
      · exact ⟨rfl, [], by simp, by simp⟩
      · split
        · exact ⟨rfl, [], by simp, by simp⟩
        · rename_i r0 rest _
          exact ⟨rfl, [⟨name, some (r0 :: rest)⟩], rfl, fresh_band s name _ hany'⟩

/-- a call other than `computeAggregates` keeps every band as it is (name and grid), in place; `addAFMap` appends a band
    whose name is not taken -/
theorem step_keeps_bands (floor : α → Int) (s : RState α) (c : Cmd α) (h : c.isCompute = false) :
    ∃ extra, (step floor s c).1.bands = s.bands ++ extra ∧ ∀ b ∈ extra, ∀ b' ∈ s.bands, b.name ≠ b'.name := by
  cases c with
  | band name init => exact (addBand_bands s name init).2
  | add afo T => exact ⟨[], by simp [step, (addColl_g floor s afo T).2], by simp⟩
  | compute => simp [Cmd.isCompute] at h
  | setNoData v => exact ⟨[], by simp [step], by simp⟩

theorem run_keeps_bands (floor : α → Int) : ∀ (cmds : List (Cmd α)) (s : RState α), (∀ c ∈ cmds, c.isCompute = false) →
    ∃ extra, (run floor s cmds).1.bands = s.bands ++ extra ∧ ∀ b ∈ extra, ∀ b' ∈ s.bands, b.name ≠ b'.name := by
  intro cmds
  induction cmds with
  | nil => intro s _; exact ⟨[], by simp [run_nil], by simp⟩
  | cons c rest ih =>
    intro s h
    obtain ⟨e1, h1, n1⟩ := step_keeps_bands floor s c (h c List.mem_cons_self)
    obtain ⟨e2, h2, n2⟩ := ih (step floor s c).1 (fun c' hc' => h c' (List.mem_cons_of_mem _ hc'))
    refine ⟨e1 ++ e2, ?_, ?_⟩
    · rw [run_cons]; simp only; rw [h2, h1, List.append_assoc]
    · intro b hb b' hb'
      rcases List.mem_append.1 hb with hb | hb
      · exact n1 b hb b' hb'
      · exact n2 b hb b' (by rw [h1]; exact List.mem_append_left _ hb')

theorem getBand_append (s s' : RState α) (extra : List (Band α)) (h : s'.bands = s.bands ++ extra) (name : List String) (b : Band α)
    (hb : getBand s name = some b) : getBand s' name = some b := by
  unfold getBand at *
  rw [h, List.find?_append, hb]; rfl

/-- the last `setNoDataValue` of a sequence of calls decides the raster's no-data value -/
theorem run_setNoData_last (floor : α → Int) (cmds : List (Cmd α)) (s : RState α) (v : Option α) :
    (run floor s (cmds ++ [.setNoData v])).1.noData = v := by
  rw [run_append]; rfl

end keep
end TV.Raster
