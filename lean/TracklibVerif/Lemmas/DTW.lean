import TracklibVerif.Model.DTW
import Mathlib.Order.Basic
import Mathlib.Order.Defs.LinearOrder
namespace TV.DTW
variable {α : Type} [LinearOrder α]

/-- monotone couplings from (0,0) to (i,j) with their folded cost -/
inductive Coupling (w : α → α → α) (z : α) (D : Nat → Nat → α) : Nat → Nat → α → Prop
  | base : Coupling w z D 0 0 (w z (D 0 0))
  | down {i j c} : Coupling w z D i j c → Coupling w z D (i+1) j (w c (D (i+1) j))
  | right {i j c} : Coupling w z D i j c → Coupling w z D i (j+1) (w c (D i (j+1)))
  | diag {i j c} : Coupling w z D i j c → Coupling w z D (i+1) (j+1) (w c (D (i+1) (j+1)))

theorem min3_le (a b c : α) : min3 a b c ≤ a ∧ min3 a b c ≤ b ∧ min3 a b c ≤ c := by
  unfold min3
  split <;> split <;> refine ⟨?_, ?_, ?_⟩ <;> first | exact le_refl _ | (rename_i h1 h2; first | exact h1 | exact h2 | exact le_of_lt (lt_of_not_ge h2) | exact le_of_lt (lt_of_not_ge h1) | exact le_trans (le_of_lt (lt_of_not_ge h2)) h1 | exact le_trans h2 (le_of_lt (lt_of_not_ge h1)) | exact le_trans (le_of_lt (lt_of_not_ge h2)) (le_of_lt (lt_of_not_ge h1)) | exact le_trans h1 h2)

theorem min3_mem (a b c : α) : min3 a b c = a ∨ min3 a b c = b ∨ min3 a b c = c := by
  unfold min3; split <;> split <;> simp

/-- T1 (lower bound): the table value is below the cost of every coupling -/
theorem T_le (w : α → α → α) (z : α) (D : Nat → Nat → α)
    (hw : ∀ a b d, a ≤ b → w a d ≤ w b d) :
    ∀ i j c, Coupling w z D i j c → T w z D i j ≤ c := by
  intro i j c h
  induction h with
  | base => simp [T]
  | @down i j c h ih =>
    cases j with
    | zero => simp only [T]; exact hw _ _ _ ih
    | succ j => simp only [T]; exact hw _ _ _ (le_trans (min3_le _ _ _).2.1 ih)
  | @right i j c h ih =>
    cases i with
    | zero => simp only [T]; exact hw _ _ _ ih
    | succ i => simp only [T]; exact hw _ _ _ (le_trans (min3_le _ _ _).2.2 ih)
  | @diag i j c h ih => simp only [T]; exact hw _ _ _ (le_trans (min3_le _ _ _).1 ih)

/-- T1 (achievability): some coupling realises the table value -/
theorem T_coupling (w : α → α → α) (z : α) (D : Nat → Nat → α) :
    ∀ n i j, i + j = n → Coupling w z D i j (T w z D i j) := by
  intro n
  induction n using Nat.strongRecOn with
  | _ n ih =>
    intro i j hij
    match i, j with
    | 0, 0 => simp only [T]; exact Coupling.base
    | i+1, 0 => simp only [T]; exact Coupling.down (ih (i + 0) (by omega) i 0 rfl)
    | 0, j+1 => simp only [T]; exact Coupling.right (ih (0 + j) (by omega) 0 j rfl)
    | i+1, j+1 =>
      simp only [T]
      rcases min3_mem (T w z D i j) (T w z D i (j+1)) (T w z D (i+1) j) with h | h | h
      · rw [h]; exact Coupling.diag (ih (i + j) (by omega) i j rfl)
      · rw [h]; exact Coupling.down (ih (i + (j+1)) (by omega) i (j+1) rfl)
      · rw [h]; exact Coupling.right (ih ((i+1) + j) (by omega) (i+1) j rfl)

/-- the (repaired) predecessor is a minimal one: the value at a cell is `w (T pred) D` -/
theorem T_pred (w : α → α → α) (z : α) (D : Nat → Nat → α) (i j : Nat) :
    T w z D (i+1) (j+1) = w (T w z D (pred w z D (i+1) (j+1)).1 (pred w z D (i+1) (j+1)).2) (D (i+1) (j+1)) := by
  simp only [T, pred]
  congr 1
  by_cases h1 : T w z D i j ≤ T w z D i (j+1) ∧ T w z D i j ≤ T w z D (i+1) j
  · simp only [h1, and_self, if_true]
    unfold min3; simp [h1.1, h1.2]
  · simp only [h1, if_false]
    by_cases h2 : T w z D i (j+1) < T w z D (i+1) j
    · simp only [h2, if_true]
      unfold min3
      have h3 : T w z D i (j+1) ≤ T w z D (i+1) j := le_of_lt h2
      by_cases h4 : T w z D i j ≤ T w z D i (j+1)
      · have : ¬ T w z D i j ≤ T w z D (i+1) j := fun h => h1 ⟨h4, h⟩
        exact absurd (le_trans h4 h3) this
      · simp [h4, h3]
    · simp only [h2, if_false]
      unfold min3
      have h3 : T w z D (i+1) j ≤ T w z D i (j+1) := not_lt.mp h2
      by_cases h4 : T w z D i j ≤ T w z D i (j+1)
      · have h5 : ¬ T w z D i j ≤ T w z D (i+1) j := fun h => h1 ⟨h4, h⟩
        simp [h4, h5]
      · by_cases h6 : T w z D i (j+1) ≤ T w z D (i+1) j
        · have : T w z D i (j+1) = T w z D (i+1) j := le_antisymm h6 h3
          simp only [h4, if_false, this]
          split
          · rename_i h; exact absurd (by rw [this]; exact h) h4
          · simp
        · simp [h4, h6]
end TV.DTW
