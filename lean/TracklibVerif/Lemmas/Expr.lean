import TracklibVerif.Model.Expr
import Std.Data.String.ToNat
/-! Helper lemmas for C02: the stack machine `evalRPN` on the postfix form of a tree computes the
tree semantics `denoteM`, creating exactly the temporaries `#k … #(k+ops-1)`. -/
namespace TV.Expr
open Scalar
set_option linter.unusedSectionVars false
variable {α : Type} [Scalar α]

/-! ### temporaries' names -/

theorem isTemp_tmpName (k : Nat) : isTemp (tmpName k) = true := by simp [isTemp, tmpName]

theorem parseLit_tmpName (k : Nat) : parseLit (tmpName k) = none := by
  have h1 : ('#' : Char).toLower = '#' := by decide
  simp [parseLit, tmpName, wordLit, h1]

theorem litOf_tmpName (k : Nat) : litOf (α := α) (tmpName k) = none := by simp [litOf, parseLit_tmpName]

theorem tmpName_inj {a b : Nat} (h : tmpName a = tmpName b) : a = b := by
  simp only [tmpName, List.cons.injEq, true_and] at h
  have h2 : toString a = toString b := String.toList_inj.mp h
  rw [Nat.toString_eq_repr, Nat.toString_eq_repr] at h2
  exact Nat.repr_inj.mp h2

theorem tmpName_ne_output (k : Nat) : tmpName k ≠ outputName := by
  intro h
  simp only [tmpName, outputName, List.cons.injEq, true_and] at h
  have hm : 'o' ∈ (toString k).toList := by rw [h]; simp
  rw [Nat.toString_eq_repr, Nat.toList_repr] at hm
  have := Nat.isDigit_of_mem_toDigits (by decide) (by decide) hm
  exact absurd this (by decide)

theorem isReserved_of_isTemp {s : Str} (h : isTemp s = true) : isReserved s = false := by
  cases s with
  | nil => simp [isTemp] at h
  | cons c cs =>
    simp only [isTemp, List.head?_cons, beq_iff_eq, Option.some.injEq] at h
    subst h
    simp [isReserved, reservedNames]

theorem isReserved_tmpName (k : Nat) : isReserved (tmpName k) = false := isReserved_of_isTemp (isTemp_tmpName k)


/-! ### the feature table -/

theorem lookup_append (s : Str) (l1 l2 : List (Str × List α)) :
    lookup s (l1 ++ l2) = match lookup s l1 with | some v => some v | none => lookup s l2 := by
  induction l1 with
  | nil => simp [lookup]
  | cons p l ih =>
    obtain ⟨k, v⟩ := p
    simp only [List.cons_append, lookup]
    split <;> simp_all

theorem lookup_none_of_keys (s : Str) (l : List (Str × List α)) (h : ∀ p ∈ l, p.1 ≠ s) : lookup s l = none := by
  induction l with
  | nil => rfl
  | cons p l ih =>
    obtain ⟨k, v⟩ := p
    have hk : k ≠ s := h (k, v) (by simp)
    simp only [lookup, hk, if_false]
    exact ih (fun p hp => h p (by simp [hp]))

theorem setKey_append_none (s : Str) (c : List α) (l1 l2 : List (Str × List α)) (h : lookup s l1 = none) :
    setKey s c (l1 ++ l2) = l1 ++ setKey s c l2 := by
  induction l1 with
  | nil => rfl
  | cons p l ih =>
    obtain ⟨k, v⟩ := p
    simp only [lookup] at h
    split at h
    · simp at h
    · rename_i hk
      simp only [List.cons_append, setKey, hk, if_false, ih h]

theorem eraseKey_append_none (s : Str) (l1 l2 : List (Str × List α)) (h : lookup s l1 = none) :
    eraseKey s (l1 ++ l2) = l1 ++ eraseKey s l2 := by
  induction l1 with
  | nil => rfl
  | cons p l ih =>
    obtain ⟨k, v⟩ := p
    simp only [lookup] at h
    split at h
    · simp at h
    · rename_i hk
      simp only [List.cons_append, eraseKey, hk, if_false, ih h]

theorem eraseKey_append_some (s : Str) (l1 l2 : List (Str × List α)) (h : (lookup s l1).isSome) :
    eraseKey s (l1 ++ l2) = eraseKey s l1 ++ l2 := by
  induction l1 with
  | nil => simp [lookup] at h
  | cons p l ih =>
    obtain ⟨k, v⟩ := p
    simp only [lookup] at h
    by_cases hk : k = s
    · simp [eraseKey, hk]
    · simp only [hk, if_false] at h
      simp only [List.cons_append, eraseKey, hk, if_false, ih h]

/-- the track with more columns appended to the table -/
def ext (tr : Tr α) (added : List (Str × List α)) : Tr α := { tr with feats := tr.feats ++ added }

@[simp] theorem ext_n (tr : Tr α) (a) : (ext tr a).n = tr.n := rfl
@[simp] theorem ext_feats (tr : Tr α) (a) : (ext tr a).feats = tr.feats ++ a := rfl
@[simp] theorem ext_nil (tr : Tr α) : ext tr [] = tr := by cases tr; simp [ext]
theorem ext_ext (tr : Tr α) (a b) : ext (ext tr a) b = ext tr (a ++ b) := by simp [ext, List.append_assoc]

theorem getAF_ext {tr : Tr α} {s : Str} {c : List α} (added) (h : getAF tr s = .ok c) :
    getAF (ext tr added) s = .ok c := by
  unfold getAF at h ⊢
  cases hl : lookup s tr.feats with
  | some c' =>
    simp only [hl, ext, lookup_append] at h ⊢
    exact h
  | none =>
    simp only [hl] at h
    simp only [ext]
    repeat' split at h
    all_goals simp_all

theorem hasAF_of_getAF {tr : Tr α} {s : Str} {c : List α} (h : getAF tr s = .ok c) : hasAF tr s = true := by
  unfold getAF at h
  unfold hasAF
  repeat' split at h
  all_goals first | (simp_all [isReserved, reservedNames]; done) | skip

/-- `tr'` is `tr` plus temporaries numbered `k … k'-1`, appended to the table; nothing else differs -/
def Step (tr tr' : Tr α) (k k' : Nat) : Prop :=
  ∃ added, tr' = ext tr added ∧ ∀ p ∈ added, ∃ j, k ≤ j ∧ j < k' ∧ p.1 = tmpName j

theorem Step.refl (tr : Tr α) (k : Nat) : Step tr tr k k := ⟨[], by simp, by simp⟩

theorem Step.trans {a b c : Tr α} {k k' k'' : Nat} (h1 : Step a b k k') (h2 : Step b c k' k'')
    (hk : k ≤ k') (hk' : k' ≤ k'') : Step a c k k'' := by
  obtain ⟨ad1, rfl, p1⟩ := h1
  obtain ⟨ad2, rfl, p2⟩ := h2
  refine ⟨ad1 ++ ad2, ext_ext _ _ _, ?_⟩
  intro p hp
  rcases List.mem_append.mp hp with hp | hp
  · obtain ⟨j, h1, h2, h3⟩ := p1 p hp; exact ⟨j, h1, by omega, h3⟩
  · obtain ⟨j, h1, h2, h3⟩ := p2 p hp; exact ⟨j, by omega, h2, h3⟩

/-- no temporary numbered `k` or more is in the table -/
def Fresh (tr : Tr α) (k : Nat) : Prop := ∀ j, k ≤ j → lookup (tmpName j) tr.feats = none

/-- no column is named like a number (Python would then treat the literal as a feature) -/
def NoLitNames (tr : Tr α) : Prop := ∀ s, (parseLit s).isSome → lookup s tr.feats = none

theorem Fresh.step {tr tr' : Tr α} {k k' : Nat} (hf : Fresh tr k) (hs : Step tr tr' k k') (hk : k ≤ k') :
    Fresh tr' k' := by
  obtain ⟨ad, rfl, p⟩ := hs
  intro j hj
  simp only [ext_feats, lookup_append, hf j (by omega)]
  apply lookup_none_of_keys
  intro q hq heq
  obtain ⟨j', _, h2, h3⟩ := p q hq
  have := tmpName_inj (h3.symm.trans heq)
  omega

theorem NoLitNames.step {tr tr' : Tr α} {k k' : Nat} (hf : NoLitNames tr) (hs : Step tr tr' k k') :
    NoLitNames tr' := by
  obtain ⟨ad, rfl, p⟩ := hs
  intro s hs
  simp only [ext_feats, lookup_append, hf s hs]
  apply lookup_none_of_keys
  intro q hq heq
  obtain ⟨j', _, _, h3⟩ := p q hq
  rw [← heq, h3, parseLit_tmpName] at hs
  simp at hs


/-! ### values of stack items -/

/-- the value an item of the Python stack stands for -/
def itemVal (tr : Tr α) : Item α → Option (Val α)
  | .tok s => match litOf s with
    | some v => some (.lit v)
    | none => match getAF tr s with
      | .ok c => some (.vec c)
      | .error _ => none
  | .num v => some (.lit v)
  | .unit => none

theorem itemVal_ext {tr : Tr α} {it : Item α} {v : Val α} (added) (h : itemVal tr it = some v) :
    itemVal (ext tr added) it = some v := by
  cases it with
  | tok s =>
    simp only [itemVal] at h ⊢
    cases hl : litOf (α := α) s with
    | some a => simpa [hl] using h
    | none =>
      simp only [hl] at h ⊢
      cases hg : getAF tr s with
      | ok c => simp only [hg] at h; simp only [getAF_ext added hg]; exact h
      | error e => simp [hg] at h
  | num a => exact h
  | unit => exact h

theorem itemVal_lit {tr : Tr α} {it : Item α} {a : α} (h : itemVal tr it = some (.lit a)) :
    isFloat it = .ok (some a) ∧ toFloat it = .ok a ∧ (∀ s, it = .tok s → (parseLit s).isSome) := by
  cases it with
  | tok s =>
    simp only [itemVal] at h
    cases hl : litOf (α := α) s with
    | some b =>
      simp only [hl, Option.some.injEq, Val.lit.injEq] at h
      subst h
      refine ⟨by simp [isFloat, hl], by simp [toFloat, hl], ?_⟩
      intro s' hs'
      cases hs'
      simp only [litOf, Option.map_eq_some_iff] at hl
      obtain ⟨p, hp, _⟩ := hl
      simp [hp]
    | none =>
      simp only [hl] at h
      split at h <;> simp at h
  | num b =>
    simp only [itemVal, Option.some.injEq, Val.lit.injEq] at h
    subst h
    exact ⟨rfl, rfl, by intro s hs; cases hs⟩
  | unit => simp [itemVal] at h

theorem itemVal_vec {tr : Tr α} {it : Item α} {c : List α} (h : itemVal tr it = some (.vec c)) :
    ∃ s, it = .tok s ∧ litOf (α := α) s = none ∧ getAF tr s = .ok c := by
  cases it with
  | tok s =>
    simp only [itemVal] at h
    cases hl : litOf (α := α) s with
    | some b => simp [hl] at h
    | none =>
      simp only [hl] at h
      cases hg : getAF tr s with
      | ok c' => simp only [hg, Option.some.injEq, Val.vec.injEq] at h; subst h; exact ⟨s, rfl, hl, hg⟩
      | error e => simp [hg] at h
  | num b => simp [itemVal] at h
  | unit => simp [itemVal] at h

theorem getAF_tmp_new (tr : Tr α) (k : Nat) (c : List α) (hf : lookup (tmpName k) tr.feats = none) :
    getAF (ext tr [(tmpName k, c)]) (tmpName k) = .ok c := by
  have h1 : lookup (tmpName k) (tr.feats ++ [(tmpName k, c)]) = some c := by simp [lookup_append, hf, lookup]
  unfold getAF
  simp only [ext_feats, h1]
  simp [tmpName]

theorem itemVal_tmp_new (tr : Tr α) (k : Nat) (c : List α) (hf : lookup (tmpName k) tr.feats = none) :
    itemVal (ext tr [(tmpName k, c)]) (.tok (tmpName k)) = some (.vec c) := by
  simp [itemVal, litOf_tmpName, getAF_tmp_new tr k c hf]

theorem step_one (tr : Tr α) (k : Nat) (c : List α) : Step tr (ext tr [(tmpName k, c)]) k (k + 1) :=
  ⟨_, rfl, by intro p hp; simp at hp; exact ⟨k, by omega, by omega, by simp [hp]⟩⟩

/-! ### one operation of the stack machine -/

theorem createAF_fresh (tr : Tr α) (k : Nat) (hn : tr.n ≠ 0) (hf : lookup (tmpName k) tr.feats = none) :
    createAF tr (tmpName k) (konst tr zero) = .ok (ext tr [(tmpName k, konst tr zero)]) := by
  simp [createAF, isReserved_tmpName, hn, hf, ext]

theorem writeAF_fresh (tr : Tr α) (k : Nat) (c : List α) (hn : tr.n ≠ 0) (hf : lookup (tmpName k) tr.feats = none) :
    writeAF (ext tr [(tmpName k, konst tr zero)]) (tmpName k) c = .ok (ext tr [(tmpName k, c)]) := by
  have h1 : lookup (tmpName k) (tr.feats ++ [(tmpName k, konst tr zero)]) = some (konst tr zero) := by
    simp [lookup_append, hf, lookup]
  have h2 : setKey (tmpName k) c (tr.feats ++ [(tmpName k, konst tr zero)]) = tr.feats ++ [(tmpName k, c)] := by
    rw [setKey_append_none _ _ _ _ hf]; simp [setKey]
  unfold writeAF
  simp only [ext_n, hn, if_false, ext_feats, h1, Option.isSome_some, if_true, h2]
  simp [tmpName, ext]

theorem runVoid_fresh (tr : Tr α) (k : Nat) (compute : Tr α → Except Err (List α)) (c : List α)
    (hn : tr.n ≠ 0) (hf : lookup (tmpName k) tr.feats = none)
    (hc : compute (ext tr [(tmpName k, konst tr zero)]) = .ok c) :
    runVoid tr (tmpName k) compute = (.ok c, ext tr [(tmpName k, c)]) := by
  simp only [runVoid, createAF_fresh tr k hn hf, hc, writeAF_fresh tr k c hn hf]

/-- feature ∘ number through the operator object, writing to the fresh temporary `#k` -/
theorem opScal_fresh (tr : Tr α) (o : Char) (s1 : Str) (k : Nat) (a c : List α) (b : α)
    (hn : tr.n ≠ 0) (hf : lookup (tmpName k) tr.feats = none) (g1 : getAF tr s1 = .ok a) (hv : vsOp o a b = .ok c) :
    opScal tr o s1 b (tmpName k) = (.ok c, ext tr [(tmpName k, c)]) :=
  runVoid_fresh tr k _ c hn hf (by simp only [getAF_ext _ g1]; exact hv)

/-- number ∘ feature through the operator object, writing to the fresh temporary `#k` -/
theorem opScalRev_fresh (tr : Tr α) (o : Char) (s2 : Str) (k : Nat) (a c : List α) (b : α)
    (hn : tr.n ≠ 0) (hf : lookup (tmpName k) tr.feats = none) (g2 : getAF tr s2 = .ok a) (hv : svOp o b a = .ok c) :
    opScalRev tr o s2 b (tmpName k) = (.ok c, ext tr [(tmpName k, c)]) :=
  runVoid_fresh tr k _ c hn hf (by simp only [getAF_ext _ g2]; exact hv)

/-- the input column of a void function on a track that has gained features: the column itself -/
theorem voidCompute_ext (tr : Tr α) (f s : Str) (x : List α) (ad : List (Str × List α)) (gs : getAF tr s = .ok x) :
    voidCompute f s (ext tr ad) = voidFn f tr.n x := by
  simp only [voidCompute, voidInput, getAF_ext _ gs, ext_n]
  split <;> rfl

theorem voidCompute_self (tr : Tr α) (f s : Str) (x : List α) (gs : getAF tr s = .ok x) :
    voidCompute f s tr = voidFn f tr.n x := by
  simp only [voidCompute, voidInput, gs]
  split <;> rfl

/-- `Log` storing into a new (non-reserved) name: the column is appended -/
theorem opLog_new (tr : Tr α) (inp out : Str) (c : List α)
    (hn : tr.n ≠ 0) (hr : isReserved out = false) (hlk : lookup out tr.feats = none)
    (hc : voidCompute logName inp tr = .ok c) : opLog tr inp out = (.ok c, ext tr [(out, c)]) := by
  have hh : hasAF tr out = false := by simp [hasAF, hlk, hr]
  have hcr : createAF tr out c = .ok (ext tr [(out, c)]) := by simp [createAF, hr, hn, hlk, ext]
  simp only [opLog, hc, hh, hcr, Bool.false_eq_true, if_false]

theorem opLog_new_err (tr : Tr α) (inp out : Str) (e : Err)
    (hc : voidCompute logName inp tr = .error e) : opLog tr inp out = (.error e, tr) := by
  simp only [opLog, hc]

/-- a void function writing to the fresh temporary `#k`: the computed column is appended under `#k` -/
theorem opVoidFn_fresh (tr : Tr α) (f s : Str) (k : Nat) (x c : List α)
    (hn : tr.n ≠ 0) (hf : lookup (tmpName k) tr.feats = none)
    (gs : getAF tr s = .ok x) (hc : voidFn f tr.n x = .ok c) :
    opVoidFn tr f s (tmpName k) = (.ok c, ext tr [(tmpName k, c)]) := by
  unfold opVoidFn
  by_cases hlog : f = logName
  · subst hlog
    simp only [if_true]
    exact opLog_new tr s (tmpName k) c hn (isReserved_tmpName k) hf (by rw [voidCompute_self tr _ s x gs]; exact hc)
  · simp only [hlog, if_false]
    exact runVoid_fresh tr k (voidCompute f s) c hn hf (by rw [voidCompute_ext tr f s x _ gs]; exact hc)

theorem binOps_ne {o : Char} (ho : binOps.contains o = true) : o ≠ '=' ∧ o ≠ '@' := by
  constructor <;> (intro h; subst h; revert ho; decide)

theorem reserved_not_lit : ∀ r ∈ reservedNames, parseLit r = none := by decide +kernel

theorem not_reserved_of_lit {s : Str} (h : (parseLit s).isSome) : isReserved s = false := by
  cases hr : isReserved s with
  | false => rfl
  | true =>
    exfalso
    have hm : s ∈ reservedNames := by simpa [isReserved] using hr
    rw [reserved_not_lit s hm] at h
    cases h

theorem hasAF_lit_false {tr : Tr α} (hl : NoLitNames tr) {s : Str} (h : (parseLit s).isSome) : hasAF tr s = false := by
  simp [hasAF, hl s h, not_reserved_of_lit h]

/-- literal ∘ literal: folded on the spot, nothing is created -/
theorem applyOp_litlit (tr : Tr α) (i1 i2 : Item α) (o : Char) (k : Nat) (a b w : α)
    (ho : binOps.contains o = true)
    (h1 : itemVal tr i1 = some (.lit a)) (h2 : itemVal tr i2 = some (.lit b)) (hv : litOp o a b = .ok w) :
    applyOperation tr i1 i2 o k = (.ok (.num w), tr) := by
  obtain ⟨f1, _, _⟩ := itemVal_lit h1
  obtain ⟨f2, _, _⟩ := itemVal_lit h2
  unfold applyOperation
  simp only [(binOps_ne ho).1, if_false, f1, f2, ho, if_true, hv]

/-- feature ∘ feature -/
theorem applyOp_vecvec (tr : Tr α) (i1 i2 : Item α) (o : Char) (k : Nat) (a b c : List α)
    (ho : binOps.contains o = true) (hn : tr.n ≠ 0) (hf : Fresh tr k)
    (h1 : itemVal tr i1 = some (.vec a)) (h2 : itemVal tr i2 = some (.vec b)) (hv : vvOp o a b = .ok c) :
    applyOperation tr i1 i2 o k = (.ok (.tok (tmpName k)), ext tr [(tmpName k, c)]) := by
  obtain ⟨s1, rfl, l1, g1⟩ := itemVal_vec h1
  obtain ⟨s2, rfl, l2, g2⟩ := itemVal_vec h2
  have hr := runVoid_fresh tr k (fun t => do let a ← getAF t s1; let b ← getAF t s2; vvOp o a b) c hn (hf k (Nat.le_refl k))
    (by simp only [getAF_ext _ g1, getAF_ext _ g2]; exact hv)
  unfold applyOperation
  simp only [(binOps_ne ho).1, (binOps_ne ho).2, if_false, isFloat, l1, ho, itemHasAF, hasAF_of_getAF g1, hasAF_of_getAF g2,
    opBin, hr, Bool.not_true, Bool.false_eq_true]


theorem itemHasAF_lit {tr : Tr α} (hl : NoLitNames tr) {it : Item α} {b : α} (h : itemVal tr it = some (.lit b)) :
    itemHasAF tr it = false := by
  cases it with
  | tok s => exact hasAF_lit_false hl ((itemVal_lit h).2.2 s rfl)
  | num v => rfl
  | unit => rfl

/-- feature ∘ number (`s+`, `s-`, …) -/
theorem applyOp_veclit (tr : Tr α) (i1 i2 : Item α) (o : Char) (k : Nat) (a c : List α) (b : α)
    (ho : binOps.contains o = true) (hn : tr.n ≠ 0) (hf : Fresh tr k) (hl : NoLitNames tr)
    (h1 : itemVal tr i1 = some (.vec a)) (h2 : itemVal tr i2 = some (.lit b)) (hv : vsOp o a b = .ok c) :
    applyOperation tr i1 i2 o k = (.ok (.tok (tmpName k)), ext tr [(tmpName k, c)]) := by
  obtain ⟨s1, rfl, l1, g1⟩ := itemVal_vec h1
  obtain ⟨_, t2, _⟩ := itemVal_lit h2
  have hA2 := itemHasAF_lit hl h2
  have hr := opScal_fresh tr o s1 k a c b hn (hf k (Nat.le_refl k)) g1 hv
  unfold applyOperation
  cases i2 with
  | tok s2 =>
    have hA2' : hasAF tr s2 = false := by simpa [itemHasAF] using hA2
    simp only [(binOps_ne ho).1, (binOps_ne ho).2, if_false, isFloat, l1, ho, itemHasAF, hasAF_of_getAF g1, hA2',
      hr, Bool.not_true, Bool.false_eq_true, t2]
  | num v =>
    simp only [(binOps_ne ho).1, (binOps_ne ho).2, if_false, isFloat, l1, ho, itemHasAF, hasAF_of_getAF g1,
      hr, Bool.not_true, Bool.false_eq_true, t2]
  | unit => simp [itemVal] at h2

/-- number ∘ feature (`sr+`, `sr-`, …) -/
theorem applyOp_litvec (tr : Tr α) (i1 i2 : Item α) (o : Char) (k : Nat) (a c : List α) (b : α)
    (ho : binOps.contains o = true) (hn : tr.n ≠ 0) (hf : Fresh tr k) (hl : NoLitNames tr)
    (h1 : itemVal tr i1 = some (.lit b)) (h2 : itemVal tr i2 = some (.vec a)) (hv : svOp o b a = .ok c) :
    applyOperation tr i1 i2 o k = (.ok (.tok (tmpName k)), ext tr [(tmpName k, c)]) := by
  obtain ⟨s2, rfl, l2, g2⟩ := itemVal_vec h2
  obtain ⟨f1, t1, _⟩ := itemVal_lit h1
  have hA1 := itemHasAF_lit hl h1
  have hr := opScalRev_fresh tr o s2 k a c b hn (hf k (Nat.le_refl k)) g2 hv
  unfold applyOperation
  cases i1 with
  | tok s1 =>
    have hA1' : hasAF tr s1 = false := by simpa [itemHasAF] using hA1
    have l1 : litOf (α := α) s1 = some b := by simpa [isFloat] using f1
    simp only [(binOps_ne ho).1, (binOps_ne ho).2, if_false, isFloat, l1, l2, ho, itemHasAF, hasAF_of_getAF g2, hA1',
      hr, Bool.not_true, Bool.false_eq_true, t1]
  | num v =>
    simp only [(binOps_ne ho).1, (binOps_ne ho).2, if_false, f1, isFloat, l2, ho, itemHasAF, hasAF_of_getAF g2,
      hr, Bool.not_true, Bool.false_eq_true, t1]
  | unit => simp [itemVal] at h1


/-- function call `f@(…)` on a feature -/
theorem applyOp_call (tr : Tr α) (f : Str) (i : Item α) (k : Nat) (a : List α) (v : Val α)
    (hfl : litOf (α := α) f = none) (hn : tr.n ≠ 0) (hf : Fresh tr k)
    (h : itemVal tr i = some (.vec a)) (hv : nodeCall tr.n f (.vec a) = .ok v) :
    ∃ c, v = .vec c ∧ applyOperation tr (.tok f) i '@' k = (.ok (.tok (tmpName k)), ext tr [(tmpName k, c)]) := by
  obtain ⟨s, rfl, ls, gs⟩ := itemVal_vec h
  have hfr := hf k (Nat.le_refl k)
  have h0 : ('@' : Char) ≠ '=' := by decide
  unfold applyOperation
  simp only [h0, if_false, isFloat, hfl, if_true]
  unfold applyCall
  simp only [nodeCall] at hv
  by_cases hvf : isVoidFn f = true
  · simp only [hvf, if_true] at hv ⊢
    cases hc : voidFn f tr.n a with
    | error e => simp [hc, Except.map] at hv
    | ok c =>
      simp only [hc, Except.map] at hv
      refine ⟨c, by cases hv; rfl, ?_⟩
      have hr := opVoidFn_fresh tr f s k a c hn hfr gs hc
      simp only [hr]
  · simp only [hvf, if_false, Bool.false_eq_true] at hv ⊢
    by_cases haf : isAggFn f = true
    · simp only [haf, if_true] at hv ⊢
      cases hc : aggFn f a with
      | error e => simp [hc, Except.map] at hv
      | ok w =>
        simp only [hc, Except.map] at hv
        refine ⟨List.replicate tr.n w, by cases hv; rfl, ?_⟩
        have hcr : createAF tr (tmpName k) (konst tr w) = .ok (ext tr [(tmpName k, konst tr w)]) := by
          simp [createAF, isReserved_tmpName, hn, hfr, ext]
        have hag : opAgg tr f s = .ok w := by simp only [opAgg, gs]; exact hc
        simp only [hag, hcr]
        rfl
    · simp [haf] at hv


/-- a binary operator of the machine computes `nodeBin` of the operands' values; it creates the
    temporary `#k` unless both operands are numbers -/
theorem applyOp_bin (tr : Tr α) (i1 i2 : Item α) (o : Char) (k : Nat) (a b v : Val α)
    (ho : binOps.contains o = true) (hn : tr.n ≠ 0) (hf : Fresh tr k) (hl : NoLitNames tr)
    (h1 : itemVal tr i1 = some a) (h2 : itemVal tr i2 = some b) (hv : nodeBin o a b = .ok v) :
    ∃ tr' it, applyOperation tr i1 i2 o k = (.ok it, tr') ∧ Step tr tr' k (k + 1) ∧ itemVal tr' it = some v := by
  have hfr := hf k (Nat.le_refl k)
  cases a with
  | lit x =>
    cases b with
    | lit y =>
      simp only [nodeBin] at hv
      cases hc : litOp o x y with
      | error e => simp [hc, Except.map] at hv
      | ok w =>
        simp only [hc, Except.map] at hv
        cases hv
        exact ⟨tr, .num w, applyOp_litlit tr i1 i2 o k x y w ho h1 h2 hc, Step.refl tr _ |> fun h => by
          obtain ⟨ad, e, p⟩ := h; exact ⟨ad, e, fun q hq => by obtain ⟨j, a, b, c⟩ := p q hq; exact ⟨j, a, by omega, c⟩⟩, rfl⟩
    | vec y =>
      simp only [nodeBin] at hv
      cases hc : svOp o x y with
      | error e => simp [hc, Except.map] at hv
      | ok c =>
        simp only [hc, Except.map] at hv
        cases hv
        exact ⟨_, _, applyOp_litvec tr i1 i2 o k y c x ho hn hf hl h1 h2 hc, step_one tr k c, itemVal_tmp_new tr k c hfr⟩
  | vec x =>
    cases b with
    | lit y =>
      simp only [nodeBin] at hv
      cases hc : vsOp o x y with
      | error e => simp [hc, Except.map] at hv
      | ok c =>
        simp only [hc, Except.map] at hv
        cases hv
        exact ⟨_, _, applyOp_veclit tr i1 i2 o k x c y ho hn hf hl h1 h2 hc, step_one tr k c, itemVal_tmp_new tr k c hfr⟩
    | vec y =>
      simp only [nodeBin] at hv
      cases hc : vvOp o x y with
      | error e => simp [hc, Except.map] at hv
      | ok c =>
        simp only [hc, Except.map] at hv
        cases hv
        exact ⟨_, _, applyOp_vecvec tr i1 i2 o k x y c ho hn hf h1 h2 hc, step_one tr k c, itemVal_tmp_new tr k c hfr⟩

/-! ### the induction on the tree -/

/-- number of operations (= of machine steps that bump the temporaries' counter) -/
def nops : Ex → Nat
  | .num _ => 0
  | .var _ => 0
  | .bin _ l r => nops l + nops r + 1
  | .call _ e => nops e + 1

/-- trees of the supported grammar: numbers are decimal literals, names and function names are not
    (and none of them is a one-character operator), operators are `+ - * / ^ < >` -/
def WFx : Ex → Prop
  | .num s => (parseLit s).isSome ∧ isOperatorTok s = none
  | .var s => parseLit s = none ∧ isOperatorTok s = none
  | .bin o l r => binOps.contains o = true ∧ WFx l ∧ WFx r
  | .call f e => parseLit f = none ∧ isOperatorTok f = none ∧ WFx e

theorem bind_ok {β γ : Type} {x : Except Err β} {f : β → Except Err γ} {v : γ} (h : (x >>= f) = .ok v) :
    ∃ a, x = .ok a ∧ f a = .ok v := by
  cases x with
  | error e => simp [bind, Except.bind] at h
  | ok a => exact ⟨a, rfl, h⟩

theorem denoteM_ext {tr : Tr α} (added) (e : Ex) : ∀ v, denoteM tr e = .ok v → denoteM (ext tr added) e = .ok v := by
  induction e with
  | num s => intro v h; simpa [denoteM] using h
  | var s =>
    intro v h
    simp only [denoteM] at h ⊢
    cases hg : getAF tr s with
    | error e => simp [hg, Except.map] at h
    | ok c => rw [getAF_ext added hg]; rw [hg] at h; exact h
  | bin o l r ihl ihr =>
    intro v h
    simp only [denoteM] at h ⊢
    obtain ⟨a, ha, h⟩ := bind_ok h
    obtain ⟨b, hb, h⟩ := bind_ok h
    rw [ihl a ha, ihr b hb]
    exact h
  | call f e ih =>
    intro v h
    simp only [denoteM] at h ⊢
    obtain ⟨a, ha, h⟩ := bind_ok h
    rw [ih a ha]
    exact h

theorem isOperatorTok_bin {o : Char} (ho : binOps.contains o = true) : isOperatorTok [o] = some o := by
  simp only [binOps, List.contains_cons, List.contains_nil, Bool.or_false, Bool.or_eq_true, beq_iff_eq] at ho
  rcases ho with h | h | h | h | h | h | h <;> (subst h; rfl)

/-- **compiler correctness of the stack machine.** Running `evalRPN` on the postfix form of a
    well-formed tree whose tree semantics is `v` (then whatever follows) is the same as continuing
    with one more stack item that stands for `v`, the counter advanced by the number of operations,
    and a track that differs only by appended temporaries numbered from the old counter on. -/
theorem evalRPN_post (e : Ex) : ∀ (tr : Tr α) (st : List (Item α)) (k : Nat) (rest : List Str) (v : Val α),
    WFx e → tr.n ≠ 0 → Fresh tr k → NoLitNames tr → denoteM tr e = .ok v →
    ∃ tr' it, evalRPN tr (post e ++ rest) st k = evalRPN tr' rest (it :: st) (k + nops e)
      ∧ Step tr tr' k (k + nops e) ∧ itemVal tr' it = some v := by
  induction e with
  | num s =>
    intro tr st k rest v hw hn hf hl hd
    obtain ⟨hp, hop⟩ := hw
    refine ⟨tr, .tok s, by simp [post, evalRPN, hop, nops], Step.refl tr k, ?_⟩
    simp only [denoteM] at hd
    cases hls : litOf (α := α) s with
    | none => simp [hls] at hd
    | some x => simp only [hls, Except.ok.injEq] at hd; subst hd; simp [itemVal, hls]
  | var s =>
    intro tr st k rest v hw hn hf hl hd
    obtain ⟨hp, hop⟩ := hw
    refine ⟨tr, .tok s, by simp [post, evalRPN, hop, nops], Step.refl tr k, ?_⟩
    simp only [denoteM] at hd
    cases hg : getAF tr s with
    | error e => simp [hg, Except.map] at hd
    | ok c =>
      simp only [hg, Except.map, Except.ok.injEq] at hd
      subst hd
      simp [itemVal, litOf, hp, hg]
  | bin o l r ihl ihr =>
    intro tr st k rest v hw hn hf hl hd
    obtain ⟨ho, hwl, hwr⟩ := hw
    simp only [denoteM] at hd
    obtain ⟨a, ha, hd⟩ := bind_ok hd
    obtain ⟨b, hb, hd⟩ := bind_ok hd
    obtain ⟨tr1, it1, e1, s1, v1⟩ := ihl tr st k (post r ++ [[o]] ++ rest) a hwl hn hf hl ha
    obtain ⟨ad1, rfl, p1⟩ := id s1
    have hf1 := hf.step s1 (by omega)
    have hl1 := hl.step s1
    obtain ⟨tr2, it2, e2, s2, v2⟩ := ihr (ext tr ad1) (it1 :: st) (k + nops l) ([[o]] ++ rest) b hwr hn hf1 hl1
      (denoteM_ext ad1 r b hb)
    obtain ⟨ad2, rfl, p2⟩ := id s2
    have hf2 := hf1.step s2 (by omega)
    have hl2 := hl1.step s2
    have v1' := itemVal_ext ad2 v1
    obtain ⟨tr3, it3, e3, s3, v3⟩ := applyOp_bin (ext (ext tr ad1) ad2) it1 it2 o (k + nops l + nops r) a b v ho hn hf2 hl2 v1' v2 hd
    refine ⟨tr3, it3, ?_, ?_, v3⟩
    · have hassoc : post (.bin o l r) ++ rest = post l ++ (post r ++ [[o]] ++ rest) := by simp [post, List.append_assoc]
      rw [hassoc, e1]
      have hassoc2 : post r ++ [[o]] ++ rest = post r ++ ([[o]] ++ rest) := by simp [List.append_assoc]
      rw [hassoc2, e2]
      simp only [List.singleton_append, evalRPN, isOperatorTok_bin ho, e3]
      simp [nops, Nat.add_assoc]
    · have := (s1.trans s2 (by omega) (by omega)).trans s3 (by omega) (by omega)
      simpa [nops, Nat.add_assoc] using this
  | call f e ih =>
    intro tr st k rest v hw hn hf hl hd
    obtain ⟨hpf, hopf, hwe⟩ := hw
    simp only [denoteM] at hd
    obtain ⟨a, ha, hd⟩ := bind_ok hd
    obtain ⟨tr1, it1, e1, s1, v1⟩ := ih tr (.tok f :: st) k ([['@']] ++ rest) a hwe hn hf hl ha
    obtain ⟨ad1, rfl, p1⟩ := id s1
    have hf1 := hf.step s1 (by omega)
    cases a with
    | lit x => simp [nodeCall] at hd
    | vec x =>
      obtain ⟨c, rfl, e3⟩ := applyOp_call (ext tr ad1) f it1 (k + nops e) x v (by simp [litOf, hpf]) hn hf1 v1 hd
      refine ⟨_, _, ?_, ?_, itemVal_tmp_new _ _ c (hf1 _ (Nat.le_refl _))⟩
      · have hassoc : post (.call f e) ++ rest = f :: (post e ++ ([['@']] ++ rest)) := by simp [post, List.append_assoc]
        rw [hassoc]
        simp only [evalRPN, hopf]
        rw [e1]
        have hat : isOperatorTok ['@'] = some '@' := rfl
        simp only [List.singleton_append, evalRPN, hat, e3]
        simp [nops, Nat.add_assoc]
      · have := s1.trans (step_one (ext tr ad1) (k + nops e) c) (by omega) (by omega)
        simpa [nops, Nat.add_assoc] using this


/-! ### a whole expression: `lhs = e` / `#output = e`, then the purge -/

/-- no listed name starts with `#` (a track as the user sees it) -/
def NoTemps (tr : Tr α) : Prop := ∀ p ∈ tr.feats, isTemp p.1 = false

theorem lookup_temp_none {tr : Tr α} (h : NoTemps tr) {s : Str} (hs : isTemp s = true) : lookup s tr.feats = none := by
  apply lookup_none_of_keys
  intro p hp heq
  have := h p hp
  rw [heq, hs] at this
  cases this

theorem NoTemps.fresh {tr : Tr α} (h : NoTemps tr) (k : Nat) : Fresh tr k :=
  fun j _ => lookup_temp_none h (isTemp_tmpName j)

theorem filter_nontemp_self {l : List (Str × List α)} (h : ∀ p ∈ l, isTemp p.1 = false) :
    l.filter (fun p => !isTemp p.1) = l := by
  apply List.filter_eq_self.mpr
  intro p hp
  simp [h p hp]

theorem filter_temp_nil {l : List (Str × List α)} (h : ∀ p ∈ l, isTemp p.1 = true) :
    l.filter (fun p => !isTemp p.1) = [] := by
  apply List.filter_eq_nil_iff.mpr
  intro p hp
  simp [h p hp]

/-- the purge removes exactly the appended temporaries (`extra` = what an assignment stored) -/
theorem purge_ext {tr : Tr α} (hnt : NoTemps tr) (ad extra : List (Str × List α))
    (had : ∀ p ∈ ad, isTemp p.1 = true) (hex : ∀ p ∈ extra, isTemp p.1 = false) :
    purge (ext (ext tr ad) extra) = ext tr extra := by
  simp only [purge, ext, List.filter_append, filter_nontemp_self hnt, filter_temp_nil had, filter_nontemp_self hex,
    List.append_nil]

theorem applyOperation_assign (tr : Tr α) (op1 op2 : Item α) (k : Nat) :
    applyOperation tr op1 op2 '=' k =
      ((assign tr op1 op2).1.map (fun _ => Item.unit), (assign tr op1 op2).2) := by
  unfold applyOperation
  simp only [if_true]
  rcases assign tr op1 op2 with ⟨r, t⟩
  cases r <;> rfl

/-- everything before the final `=`: the name is pushed, the right-hand side is evaluated -/
theorem evalRPN_before_assign (tr : Tr α) (lhs : Str) (e : Ex) (v : Val α)
    (hop : isOperatorTok lhs = none) (hw : WFx e) (hn : tr.n ≠ 0) (hnt : NoTemps tr) (hl : NoLitNames tr)
    (hd : denoteM tr e = .ok v) :
    ∃ ad it, (∀ p ∈ ad, ∃ j, p.1 = tmpName j) ∧ itemVal (ext tr ad) it = some v ∧
      evalRPN tr (lhs :: (post e ++ [['=']])) [] 0 =
        ((assign (ext tr ad) (.tok lhs) it).1.map (fun _ => [Item.unit]), (assign (ext tr ad) (.tok lhs) it).2) := by
  obtain ⟨tr1, it, e1, s1, v1⟩ := evalRPN_post e tr [.tok lhs] 0 [['=']] v hw hn (hnt.fresh 0) hl hd
  obtain ⟨ad, rfl, p⟩ := s1
  refine ⟨ad, it, fun q hq => by obtain ⟨j, _, _, h⟩ := p q hq; exact ⟨j, h⟩, v1, ?_⟩
  have heq : isOperatorTok ['='] = some '=' := rfl
  simp only [evalRPN, hop, e1, heq, applyOperation_assign]
  rcases assign (ext tr ad) (.tok lhs) it with ⟨r, t⟩
  cases r <;> simp [Except.map]

theorem temp_of_added {ad : List (Str × List α)} (h : ∀ p ∈ ad, ∃ j, p.1 = tmpName j) : ∀ p ∈ ad, isTemp p.1 = true := by
  intro p hp
  obtain ⟨j, hj⟩ := h p hp
  rw [hj]
  exact isTemp_tmpName j

theorem not_xyz_of_not_reserved {out : Str} (hr : isReserved out = false) : out ≠ ['x'] ∧ out ≠ ['y'] ∧ out ≠ ['z'] := by
  refine ⟨?_, ?_, ?_⟩ <;> (intro h; subst h; revert hr; decide)

/-- assignment to a name that is not in the table: the column is created -/
theorem assign_new (tr : Tr α) (lhs : Str) (it : Item α) (v : Val α) (hn : tr.n ≠ 0) (hl : NoLitNames tr)
    (hr : isReserved lhs = false) (hlk : lookup lhs tr.feats = none) (hv : itemVal tr it = some v) :
    assign tr (.tok lhs) it = (.ok (), ext tr [(lhs, v.toVec tr.n)]) := by
  have hh : hasAF tr lhs = false := by simp [hasAF, hlk, hr]
  obtain ⟨hx, hy, hz⟩ := not_xyz_of_not_reserved hr
  cases v with
  | lit x =>
    obtain ⟨_, tf, _⟩ := itemVal_lit hv
    have hA := itemHasAF_lit hl hv
    simp [assign, hA, tf, hh, createAF, hr, hn, hlk, konst, ext, Val.toVec, hx, hy, hz]
  | vec c =>
    obtain ⟨s, rfl, _, g⟩ := itemVal_vec hv
    simp [assign, itemHasAF, hasAF_of_getAF g, hh, g, createAF, hr, hn, hlk, ext, Val.toVec]


theorem NoLitNames.ext {tr : Tr α} (h : NoLitNames tr) {ad : List (Str × List α)} (had : ∀ p ∈ ad, ∃ j, p.1 = tmpName j) :
    NoLitNames (ext tr ad) := by
  intro s hs
  simp only [ext_feats, lookup_append, h s hs]
  apply lookup_none_of_keys
  intro q hq heq
  obtain ⟨j, hj⟩ := had q hq
  rw [← heq, hj, parseLit_tmpName] at hs
  simp at hs

theorem lookup_ext_none {tr : Tr α} {ad : List (Str × List α)} {s : Str} (h1 : lookup s tr.feats = none)
    (h2 : ∀ p ∈ ad, p.1 ≠ s) : lookup s (ext tr ad).feats = none := by
  simp only [ext_feats, lookup_append, h1]
  exact lookup_none_of_keys s ad h2

theorem getAF_output_new (T : Tr α) (c : List α) (h : lookup outputName T.feats = none) :
    getAF (ext T [(outputName, c)]) outputName = .ok c := by
  have h1 : lookup outputName (T.feats ++ [(outputName, c)]) = some c := by simp [lookup_append, h, lookup]
  unfold getAF
  simp only [ext_feats, h1]
  simp [outputName]

theorem removeAF_output_new (T : Tr α) (c : List α) (h : lookup outputName T.feats = none) :
    removeAF (ext T [(outputName, c)]) outputName = .ok T := by
  have h1 : lookup outputName (T.feats ++ [(outputName, c)]) = some c := by simp [lookup_append, h, lookup]
  have h2 : eraseKey outputName (T.feats ++ [(outputName, c)]) = T.feats := by
    rw [eraseKey_append_none _ _ _ h]; simp [eraseKey]
  cases T
  simp only [removeAF, hasAF, ext] at h1 h2 ⊢
  simp [h1, h2]

/-- **no `=`**: `operate` on `#output = e` returns the tree semantics of `e`, one value per
    observation, and leaves the track exactly as it was. -/
theorem operateTokens_value (tr : Tr α) (e : Ex) (v : Val α)
    (hw : WFx e) (hn : tr.n ≠ 0) (hnt : NoTemps tr) (hl : NoLitNames tr) (hd : denoteM tr e = .ok v) :
    operateTokens tr (outputName :: (post e ++ [['=']])) false = (.ok (some (v.toVec tr.n)), tr) := by
  obtain ⟨ad, it, had, hv, he⟩ := evalRPN_before_assign tr outputName e v rfl hw hn hnt hl hd
  have hlk : lookup outputName (ext tr ad).feats = none :=
    lookup_ext_none (lookup_temp_none hnt rfl) (fun p hp heq => by
      obtain ⟨j, hj⟩ := had p hp
      exact tmpName_ne_output j (hj.symm.trans heq))
  have ha := assign_new (ext tr ad) outputName it v hn (hl.ext had) rfl hlk hv
  have hg := getAF_output_new (ext tr ad) (v.toVec tr.n) hlk
  have hrm := removeAF_output_new (ext tr ad) (v.toVec tr.n) hlk
  simp only [operateTokens, evalTokens, he, ha, ext_n, Except.map, hg, hrm, Bool.false_eq_true, if_false]
  have := purge_ext hnt ad [] (temp_of_added had) (by simp)
  simpa using this

/-- **`lhs = e` with a new name**: nothing is returned, the value of `e` is stored under `lhs`
    (appended to the table), nothing else changes and no temporary survives. -/
theorem operateTokens_assign_new (tr : Tr α) (lhs : Str) (e : Ex) (v : Val α)
    (hop : isOperatorTok lhs = none) (hr : isReserved lhs = false) (ht : isTemp lhs = false)
    (hlk : lookup lhs tr.feats = none)
    (hw : WFx e) (hn : tr.n ≠ 0) (hnt : NoTemps tr) (hl : NoLitNames tr) (hd : denoteM tr e = .ok v) :
    operateTokens tr (lhs :: (post e ++ [['=']])) true = (.ok none, ext tr [(lhs, v.toVec tr.n)]) := by
  obtain ⟨ad, it, had, hv, he⟩ := evalRPN_before_assign tr lhs e v hop hw hn hnt hl hd
  have hlk' : lookup lhs (ext tr ad).feats = none :=
    lookup_ext_none hlk (fun p hp heq => by
      obtain ⟨j, hj⟩ := had p hp
      have := isTemp_tmpName j
      rw [← hj, heq, ht] at this
      cases this)
  have ha := assign_new (ext tr ad) lhs it v hn (hl.ext had) hr hlk' hv
  simp only [operateTokens, evalTokens, he, ha, ext_n, Except.map, if_true]
  exact congrArg _ (purge_ext hnt ad [(lhs, v.toVec tr.n)] (temp_of_added had) (by simp [ht]))


theorem setKey_append_some (s : Str) (c : List α) (l1 l2 : List (Str × List α)) (h : (lookup s l1).isSome) :
    setKey s c (l1 ++ l2) = setKey s c l1 ++ l2 := by
  induction l1 with
  | nil => simp [lookup] at h
  | cons p l ih =>
    obtain ⟨k, v⟩ := p
    simp only [lookup] at h
    by_cases hk : k = s
    · simp [setKey, hk]
    · simp only [hk, if_false] at h
      simp only [List.cons_append, setKey, hk, if_false, ih h]

theorem mem_eraseKey {s : Str} {l : List (Str × List α)} {p : Str × List α} (h : p ∈ eraseKey s l) : p ∈ l := by
  induction l with
  | nil => simp [eraseKey] at h
  | cons q l ih =>
    obtain ⟨k, v⟩ := q
    simp only [eraseKey] at h
    split at h
    · exact List.mem_cons_of_mem _ h
    · rcases List.mem_cons.mp h with h | h
      · rw [h]; exact List.mem_cons_self
      · exact List.mem_cons_of_mem _ (ih h)

theorem keys_setKey (s : Str) (c : List α) (l : List (Str × List α)) : (setKey s c l).map Prod.fst = l.map Prod.fst := by
  induction l with
  | nil => rfl
  | cons q l ih =>
    obtain ⟨k, v⟩ := q
    simp only [setKey]
    split <;> simp [ih]

/-- **`lhs = e` with an existing feature name and a vector value**: the old column is removed and the
    new one appended; nothing else changes and no temporary survives. -/
theorem operateTokens_assign_existing_vec (tr : Tr α) (lhs : Str) (e : Ex) (c : List α)
    (hop : isOperatorTok lhs = none) (hr : isReserved lhs = false) (ht : isTemp lhs = false)
    (hlk : (lookup lhs tr.feats).isSome) (hone : lookup lhs (eraseKey lhs tr.feats) = none)
    (hw : WFx e) (hn : tr.n ≠ 0) (hnt : NoTemps tr) (hl : NoLitNames tr) (hd : denoteM tr e = .ok (.vec c)) :
    operateTokens tr (lhs :: (post e ++ [['=']])) true =
      (.ok none, { tr with feats := eraseKey lhs tr.feats ++ [(lhs, c)] }) := by
  obtain ⟨ad, it, had, hv, he⟩ := evalRPN_before_assign tr lhs e (.vec c) hop hw hn hnt hl hd
  obtain ⟨s, rfl, _, g⟩ := itemVal_vec hv
  have hne : ∀ p ∈ ad, p.1 ≠ lhs := fun p hp heq => by
    obtain ⟨j, hj⟩ := had p hp
    have := isTemp_tmpName j
    rw [← hj, heq, ht] at this
    cases this
  have hlk' : (lookup lhs (tr.feats ++ ad)).isSome := by
    rw [lookup_append]; cases h : lookup lhs tr.feats with
    | none => simp [h] at hlk
    | some x => simp
  have hx : lhs ≠ ['x'] := by intro h; subst h; revert hr; decide
  have hy : lhs ≠ ['y'] := by intro h; subst h; revert hr; decide
  have hz : lhs ≠ ['z'] := by intro h; subst h; revert hr; decide
  have htt : lhs ≠ ['t'] := by intro h; subst h; revert hr; decide
  have her : eraseKey lhs (tr.feats ++ ad) = eraseKey lhs tr.feats ++ ad := eraseKey_append_some _ _ _ hlk
  have hl2 : lookup lhs (eraseKey lhs tr.feats ++ ad) = none := by
    rw [lookup_append, hone]; exact lookup_none_of_keys _ _ hne
  have ha : assign (ext tr ad) (.tok lhs) (.tok s) =
      (.ok (), ext (ext { tr with feats := eraseKey lhs tr.feats } ad) [(lhs, c)]) := by
    simp only [assign, itemHasAF, hasAF_of_getAF g, if_true, g]
    simp only [hasAF, ext_feats, hlk', Bool.true_or, if_true, Bool.or_eq_true, decide_eq_true_eq, hx, hy, hz, htt, or_self,
      if_false, removeAF, Bool.not_true, Bool.false_eq_true, her, createAF, hr, ext_n, hn, hl2, Option.isSome_none]
    simp [ext]
  simp only [operateTokens, evalTokens, he, ha, Except.map, if_true]
  have hnt0 : NoTemps ({ tr with feats := eraseKey lhs tr.feats } : Tr α) := fun p hp => hnt p (mem_eraseKey hp)
  exact congrArg _ (purge_ext hnt0 ad [(lhs, c)] (temp_of_added had) (by simp [ht]))

/-- **`lhs = e` with an existing feature name and a number** (`a=3`, fix 79feaf2): the column is
    overwritten in place. -/
theorem operateTokens_assign_existing_lit (tr : Tr α) (lhs : Str) (e : Ex) (x : α)
    (hop : isOperatorTok lhs = none) (hr : isReserved lhs = false) (hlk : (lookup lhs tr.feats).isSome)
    (hw : WFx e) (hn : tr.n ≠ 0) (hnt : NoTemps tr) (hl : NoLitNames tr) (hd : denoteM tr e = .ok (.lit x)) :
    operateTokens tr (lhs :: (post e ++ [['=']])) true =
      (.ok none, { tr with feats := setKey lhs (List.replicate tr.n x) tr.feats }) := by
  obtain ⟨ad, it, had, hv, he⟩ := evalRPN_before_assign tr lhs e (.lit x) hop hw hn hnt hl hd
  obtain ⟨_, tf, _⟩ := itemVal_lit hv
  have hA := itemHasAF_lit (hl.ext had) hv
  have hlk' : (lookup lhs (tr.feats ++ ad)).isSome := by
    rw [lookup_append]; cases h : lookup lhs tr.feats with
    | none => simp [h] at hlk
    | some x => simp
  obtain ⟨hx, hy, hz⟩ := not_xyz_of_not_reserved hr
  have ha : assign (ext tr ad) (.tok lhs) it =
      (.ok (), ext ({ tr with feats := setKey lhs (List.replicate tr.n x) tr.feats }) ad) := by
    simp only [assign, hA, Bool.false_eq_true, if_false, tf, hx, hy, hz, decide_false, Bool.or_self]
    simp only [hasAF, ext_feats, hlk', Bool.true_or, if_true, updateAF, Bool.not_true, Bool.false_eq_true, if_false,
      ext_n, hn, konst, setKey_append_some _ _ _ _ hlk]
    simp [ext]
  simp only [operateTokens, evalTokens, he, ha, Except.map, if_true]
  have hnt0 : NoTemps ({ tr with feats := setKey lhs (List.replicate tr.n x) tr.feats } : Tr α) := by
    intro p hp
    have hk : p.1 ∈ (setKey lhs (List.replicate tr.n x) tr.feats).map Prod.fst := List.mem_map_of_mem hp
    rw [keys_setKey] at hk
    obtain ⟨q, hq, hqe⟩ := List.mem_map.mp hk
    rw [← hqe]; exact hnt q hq
  have := purge_ext hnt0 ad [] (temp_of_added had) (by simp)
  simp only [ext_nil] at this
  exact congrArg _ this


theorem lookup_of_getAF_temp {T : Tr α} {s : Str} {c : List α} (ht : isTemp s = true) (g : getAF T s = .ok c) :
    lookup s T.feats = some c := by
  cases s with
  | nil => simp [isTemp] at ht
  | cons ch cs =>
    simp only [isTemp, List.head?_cons, beq_iff_eq, Option.some.injEq] at ht
    subst ht
    unfold getAF at g
    simp only [List.cons.injEq, Char.reduceEq, false_and, if_false] at g
    cases h : lookup ('#' :: cs) T.feats with
    | none => simp [h] at g
    | some c' => simp only [h, Except.ok.injEq] at g; rw [g]

/-- **`x = e`, `y = e`, `z = e`**: the coordinate is overwritten with the value of `e` — a vector, or
    a number written at every observation (fix 144a468) —; the table of features is unchanged
    (fix 3613032) and no temporary survives. -/
theorem operateTokens_assign_coord (tr : Tr α) (lhs : Str) (e : Ex) (v : Val α)
    (hc : lhs = ['x'] ∨ lhs = ['y'] ∨ lhs = ['z'])
    (hw : WFx e) (hn : tr.n ≠ 0) (hnt : NoTemps tr) (hl : NoLitNames tr) (hd : denoteM tr e = .ok v) :
    operateTokens tr (lhs :: (post e ++ [['=']])) true = (.ok none, setCoord tr lhs (v.toVec tr.n)) := by
  have hop : isOperatorTok lhs = none := by rcases hc with rfl | rfl | rfl <;> rfl
  obtain ⟨ad, it, had, hv, he⟩ := evalRPN_before_assign tr lhs e v hop hw hn hnt hl hd
  have hres : isReserved lhs = true := by rcases hc with rfl | rfl | rfl <;> rfl
  have hcb : (decide (lhs = ['x']) || decide (lhs = ['y']) || decide (lhs = ['z'])) = true := by
    rcases hc with rfl | rfl | rfl <;> rfl
  have hfe : ∀ c, (setCoord (ext tr ad) lhs c).feats = tr.feats ++ ad := by
    intro c; unfold setCoord; split <;> (try split) <;> rfl
  have hpu : ∀ c l', (∀ p ∈ l', isTemp p.1 = true) →
      purge { setCoord (ext tr ad) lhs c with feats := tr.feats ++ l' } = setCoord tr lhs c := by
    intro c l' hl'
    unfold setCoord
    split <;> (try split) <;>
      simp [purge, ext, List.filter_append, filter_nontemp_self hnt, filter_temp_nil hl']
  have hself : ∀ c, ({ setCoord (ext tr ad) lhs c with feats := tr.feats ++ ad } : Tr α) = setCoord (ext tr ad) lhs c := by
    intro c; unfold setCoord; split <;> (try split) <;> rfl
  have hhl : hasAF (ext tr ad) lhs = true := by simp [hasAF, hres]
  cases v with
  | lit x =>
    obtain ⟨_, tf, _⟩ := itemVal_lit hv
    have hA := itemHasAF_lit (hl.ext had) hv
    have ha : assign (ext tr ad) (.tok lhs) it = (.ok (), setCoord (ext tr ad) lhs (List.replicate tr.n x)) := by
      simp only [assign, hA, Bool.false_eq_true, if_false, hcb, if_true, ext_n, hn, tf, konst]
    simp only [operateTokens, evalTokens, he, ha, Except.map, if_true, Val.toVec]
    have := hpu (List.replicate tr.n x) ad (temp_of_added had)
    rw [hself] at this
    exact congrArg _ this
  | vec c =>
    obtain ⟨s, rfl, _, g⟩ := itemVal_vec hv
    simp only [Val.toVec]
    by_cases hts : isTemp s = true
    · have hlks := lookup_of_getAF_temp hts g
      have hnone : lookup s tr.feats = none := lookup_temp_none hnt hts
      have hrm : removeAF (setCoord (ext tr ad) lhs c) s =
          .ok { setCoord (ext tr ad) lhs c with feats := tr.feats ++ eraseKey s ad } := by
        simp only [removeAF, hasAF, hfe]
        simp only [ext_feats] at hlks
        simp [hlks, eraseKey_append_none _ _ _ hnone]
      have ha : assign (ext tr ad) (.tok lhs) (.tok s) =
          (.ok (), { setCoord (ext tr ad) lhs c with feats := tr.feats ++ eraseKey s ad }) := by
        simp only [assign, itemHasAF, hasAF_of_getAF g, hhl, if_true, g, hcb, hts, hrm]
      simp only [operateTokens, evalTokens, he, ha, Except.map, if_true]
      exact congrArg _ (hpu c _ (fun p hp => temp_of_added had p (mem_eraseKey hp)))
    · have ha : assign (ext tr ad) (.tok lhs) (.tok s) = (.ok (), setCoord (ext tr ad) lhs c) := by
        simp only [assign, itemHasAF, hasAF_of_getAF g, hhl, if_true, g, hcb, hts, if_false, Bool.false_eq_true]
      simp only [operateTokens, evalTokens, he, ha, Except.map, if_true]
      have := hpu c ad (temp_of_added had)
      rw [hself] at this
      exact congrArg _ this


/-! ### operator objects applied directly (`Track.operate(Operator.X, …)`) -/

theorem ok_bind {β γ : Type} (a : β) (f : β → Except Err γ) : ((Except.ok a : Except Err β) >>= f) = f a := rfl

/-- a void operator writing to a new feature name returns what it computes -/
theorem runVoid_new_fst (tr : Tr α) (out : Str) (compute : Tr α → Except Err (List α))
    (hn : tr.n ≠ 0) (hr : isReserved out = false) (hlk : lookup out tr.feats = none) :
    (runVoid tr out compute).1 = compute (ext tr [(out, konst tr zero)]) := by
  have hcr : createAF tr out (konst tr zero) = .ok (ext tr [(out, konst tr zero)]) := by
    simp [createAF, hr, hn, hlk, ext]
  obtain ⟨hx, hy, hz⟩ := not_xyz_of_not_reserved hr
  simp only [runVoid, hcr]
  cases hc : compute (ext tr [(out, konst tr zero)]) with
  | error e => rfl
  | ok c =>
    have h1 : lookup out (tr.feats ++ [(out, konst tr zero)]) = some (konst tr zero) := by
      simp [lookup_append, hlk, lookup]
    have hw : ∃ t, writeAF (ext tr [(out, konst tr zero)]) out c = .ok t := by
      unfold writeAF
      simp [hn, hx, hy, hz, h1]
    obtain ⟨t, ht⟩ := hw
    simp only [ht]

theorem opBin_denote (tr : Tr α) (o : Char) (a b out : Str) (ca cb : List α)
    (ga : getAF tr a = .ok ca) (gb : getAF tr b = .ok cb)
    (hn : tr.n ≠ 0) (hr : isReserved out = false) (hlk : lookup out tr.feats = none) :
    (opBin tr o a b out).1.map Val.vec = denoteM tr (.bin o (.var a) (.var b)) := by
  rw [opBin, runVoid_new_fst tr out _ hn hr hlk]
  simp only [getAF_ext _ ga, getAF_ext _ gb, denoteM, ga, gb, Except.map, ok_bind, nodeBin]

theorem opScal_denote (tr : Tr α) (o : Char) (a lit out : Str) (ca : List α) (s : α)
    (ga : getAF tr a = .ok ca) (hs : litOf lit = some s)
    (hn : tr.n ≠ 0) (hr : isReserved out = false) (hlk : lookup out tr.feats = none) :
    (opScal tr o a s out).1.map Val.vec = denoteM tr (.bin o (.var a) (.num lit)) := by
  simp only [denoteM, ga, hs, Except.map, ok_bind, nodeBin]
  rw [opScal, runVoid_new_fst tr out _ hn hr hlk]
  simp only [getAF_ext _ ga, ok_bind]

theorem opScalRev_denote (tr : Tr α) (o : Char) (a lit out : Str) (ca : List α) (s : α)
    (ga : getAF tr a = .ok ca) (hs : litOf lit = some s)
    (hn : tr.n ≠ 0) (hr : isReserved out = false) (hlk : lookup out tr.feats = none) :
    (opScalRev tr o a s out).1.map Val.vec = denoteM tr (.bin o (.num lit) (.var a)) := by
  simp only [denoteM, ga, hs, Except.map, ok_bind, nodeBin]
  rw [opScalRev, runVoid_new_fst tr out _ hn hr hlk]
  simp only [getAF_ext _ ga, ok_bind]

theorem opVoidFn_denote (tr : Tr α) (f a out : Str) (ca : List α)
    (ga : getAF tr a = .ok ca) (hf : isVoidFn f = true)
    (hn : tr.n ≠ 0) (hr : isReserved out = false) (hlk : lookup out tr.feats = none) :
    (opVoidFn tr f a out).1.map Val.vec = denoteM tr (.call f (.var a)) := by
  simp only [denoteM, ga, Except.map, ok_bind, nodeCall, hf, if_true]
  unfold opVoidFn
  by_cases hlog : f = logName
  · subst hlog
    simp only [if_true]
    cases hc : voidFn logName tr.n ca with
    | error e => rw [opLog_new_err tr a out e (by rw [voidCompute_self tr _ a ca ga]; exact hc)]
    | ok c => rw [opLog_new tr a out c hn hr hlk (by rw [voidCompute_self tr _ a ca ga]; exact hc)]
  · simp only [hlog, if_false]
    rw [runVoid_new_fst tr out _ hn hr hlk, voidCompute_ext tr f a ca _ ga]

theorem opAgg_denote (tr : Tr α) (f a : Str) (ca : List α)
    (ga : getAF tr a = .ok ca) (hf : isVoidFn f = false) (hg : isAggFn f = true) :
    (opAgg tr f a).map (fun v => Val.vec (List.replicate tr.n v)) = denoteM tr (.call f (.var a)) := by
  simp only [denoteM, ga, Except.map, ok_bind, nodeCall, hf, hg, if_true, if_false, Bool.false_eq_true, opAgg]

end TV.Expr
