import TracklibVerif.Model.MapMatchNet
import TracklibVerif.Lemmas.MapMatchSound
/-! Helper lemmas for C10, second part: the `abs_curv` column as lengths of prefixes of the geometry, `__distToNode` as
along-edge distances to the two ends, the network construction (`addNode` / `addEdge` store geometries as given), the
candidate loop on a network, the front end. -/
namespace TV.MapMatch
open TV.Proj
variable {α : Type} [Field α] [LinearOrder α] [IsStrictOrderedRing α]

/-! ### lengths -/

theorem polyLengthFrom_acc (sqrt : α → α) (l : List (α × α)) :
    ∀ (acc : α) (prev : α × α), polyLengthFrom sqrt acc prev l = acc + polyLengthFrom sqrt 0 prev l := by
  induction l with
  | nil => intro acc prev; simp [polyLengthFrom]
  | cons q rest ih =>
    intro acc prev
    simp only [polyLengthFrom]
    rw [ih (acc + dist2D sqrt q prev) q, ih (0 + dist2D sqrt q prev) q]
    ring

/-- `abs_curv[i]` is the length of the geometry up to vertex `i` (running form) -/
theorem curvFrom_take (sqrt : α → α) (l : List (α × α)) :
    ∀ (acc : α) (prev : α × α) (i : Nat), i ≤ l.length →
      (acc :: curvFrom sqrt acc prev l)[i]? = some (polyLengthFrom sqrt acc prev (l.take i)) := by
  induction l with
  | nil => intro acc prev i hi; simp at hi; subst hi; simp [polyLengthFrom]
  | cons q rest ih =>
    intro acc prev i hi
    cases i with
    | zero => simp [polyLengthFrom]
    | succ i =>
      simp only [List.getElem?_cons_succ, curvFrom, List.take_succ_cons, polyLengthFrom]
      exact ih _ q i (by simpa using hi)

/-- `abs_curv[i]` = length of the first `i` segments of the geometry -/
theorem absCurv_take (sqrt : α → α) (g : List (α × α)) (i : Nat) (hi : i < g.length) :
    (absCurv sqrt g)[i]? = some (polyLength sqrt (g.take (i + 1))) := by
  cases g with
  | nil => simp at hi
  | cons p rest =>
    simp only [absCurv, List.take_succ_cons, polyLength]
    exact curvFrom_take sqrt rest 0 p i (by simpa using Nat.lt_succ_iff.mp hi)

/-- the last `abs_curv` value is the length of the geometry -/
theorem absCurv_last (sqrt : α → α) (g : List (α × α)) (hg : g ≠ []) :
    (absCurv sqrt g)[g.length - 1]? = some (polyLength sqrt g) := by
  have h := absCurv_take sqrt g (g.length - 1) (by
    cases g with
    | nil => exact absurd rfl hg
    | cons p rest => simp)
  rw [h]
  congr 2
  cases g with
  | nil => exact absurd rfl hg
  | cons p rest => simp

/-- the length of a geometry splits at any vertex `k`: first `k` segments + the rest -/
theorem polyLength_split (sqrt : α → α) (g : List (α × α)) (k : Nat) (hk : k < g.length) :
    polyLength sqrt g = polyLength sqrt (g.take (k + 1)) + polyLength sqrt (g.drop k) := by
  cases g with
  | nil => simp at hk
  | cons p rest =>
    simp only [polyLength, List.take_succ_cons]
    clear hk
    induction rest generalizing p k with
    | nil =>
      cases k <;> simp [polyLengthFrom, polyLength]
    | cons q rest ih =>
      cases k with
      | zero => simp [polyLengthFrom, polyLength]
      | succ k =>
        simp only [List.take_succ_cons, polyLengthFrom, List.drop_succ_cons]
        rw [polyLengthFrom_acc sqrt rest (0 + dist2D sqrt q p) q,
          polyLengthFrom_acc sqrt (rest.take k) (0 + dist2D sqrt q p) q, ih (p := q) (k := k)]
        ring

/-! ### `__distToNode` -/

theorem lt_of_getElem?_some {β : Type} (l : List β) (i : Nat) (b : β) (h : l[i]? = some b) : i < l.length := by
  rcases Nat.lt_or_ge i l.length with hi | hi
  · exact hi
  · rw [List.getElem?_eq_none hi] at h; cases h

/-- on an edge whose `abs_curv` column is the one `computeAbsCurv` makes, the two `__distToNode` values of a point `p`
attached to segment `i` are: length of the geometry up to vertex `i` + `|V_i p|`, and length of the geometry from vertex
`i+1` on + `|V_{i+1} p|` — distances to the two end nodes measured ALONG the edge -/
theorem distToNode_values (sqrt : α → α) (e : Edge α) (p : α × α) (i : Nat) (a b : α) (p1 p2 : α × α)
    (g1 : e.geom[i]? = some p1) (g2 : e.geom[i + 1]? = some p2)
    (ha : distToNode sqrt e p i 0 = some a) (hb : distToNode sqrt e p i 1 = some b)
    (hc : e.curv = absCurv sqrt e.geom) :
    a = polyLength sqrt (e.geom.take (i + 1)) + dist2D sqrt p1 p ∧
    b = polyLength sqrt (e.geom.drop (i + 1)) + dist2D sqrt p2 p := by
  have hi1 : i + 1 < e.geom.length := lt_of_getElem?_some _ _ _ g2
  have hne : e.geom ≠ [] := by intro h; rw [h] at hi1; simp at hi1
  have c1 := absCurv_take sqrt e.geom i (by omega)
  have c2 := absCurv_take sqrt e.geom (i + 1) hi1
  have c3 := absCurv_last sqrt e.geom hne
  unfold distToNode at ha hb
  rw [hc] at ha hb
  simp only [c1, c2, g1, ↓reduceIte, Option.some.injEq] at ha
  simp only [c1, c2, c3, g2, Nat.succ_ne_zero, one_ne_zero, ↓reduceIte, Option.some.injEq] at hb
  refine ⟨ha.symm, ?_⟩
  rw [← hb, polyLength_split sqrt e.geom (i + 1) hi1]
  ring

/-- what the property says of a matched observation, on the geometry `geom` of the edge its state names: the assigned point
lies on a segment of `geom`, at a distance `d < radius` of the observed position, and the two distances of the state are the
lengths of the two parts of `geom` on either side of the point (measured along the edge), which add up to the length of
`geom` -/
def SoundOn (sqrt : α → α) (radius : α) (geom : List (α × α)) (pos : α × α) (s : State α) : Prop :=
  ∃ (i : Nat) (p1 p2 : α × α) (d : α),
    geom[i]? = some p1 ∧ geom[i + 1]? = some p2 ∧ OnSeg p1.1 p1.2 p2.1 p2.2 s.p.1 s.p.2 ∧
    0 ≤ d ∧ d * d = d2 pos.1 pos.2 s.p.1 s.p.2 ∧ d < radius ∧
    s.d0 = polyLength sqrt (geom.take (i + 1)) + dist2D sqrt p1 s.p ∧
    s.d1 = polyLength sqrt (geom.drop (i + 1)) + dist2D sqrt p2 s.p ∧
    s.d0 + s.d1 = polyLength sqrt geom

/-- a matched state on a list of edges: an existing edge number, and `SoundOn` that edge's geometry -/
def Matched (sqrt : α → α) (radius : α) (edges : List (Edge α)) (pos : α × α) (s : State α) : Prop :=
  ∃ (elem : Nat) (eg : Edge α), s.edge = (elem : Int) ∧ edges[elem]? = some eg ∧ SoundOn sqrt radius eg.geom pos s

/-- `Sound` (Lemmas/MapMatchSound) on edges whose `abs_curv` column is the computed one gives `Matched`: the candidate
loop's states carry the along-edge distances -/
theorem candLoop_matched {sqrt : α → α} (hs : SqrtSpec sqrt) (eps radius : α) (edges : List (Edge α))
    (hcurv : ∀ eg ∈ edges, eg.curv = absCurv sqrt eg.geom) (pos : α × α)
    (E : List Nat) : ∀ (acc res : List (State α)), (∀ s ∈ acc, Matched sqrt radius edges pos s) →
      candLoop sqrt eps radius edges pos E acc = .ok res → ∀ s ∈ res, Matched sqrt radius edges pos s := by
  induction E with
  | nil =>
    intro acc res hacc h
    simp only [candLoop] at h; injection h with h; subst h; exact hacc
  | cons elem rest ih =>
    intro acc res hacc h
    rw [candLoop] at h
    cases he : edges[elem]? with
    | none => rw [he] at h; cases h
    | some eg =>
      rw [he] at h
      simp only at h
      cases hp : projOnTrack sqrt eps eg.geom pos.1 pos.2 with
      | error e => rw [hp] at h; cases h
      | ok r =>
        rw [hp] at h
        simp only at h
        obtain ⟨⟨px, py⟩, d, i⟩ := r
        simp only at h
        split at h
        · rename_i hlt
          cases ha : distToNode sqrt eg (px, py) i 0 with
          | none => rw [ha] at h; cases h
          | some a =>
            cases hb : distToNode sqrt eg (px, py) i 1 with
            | none => rw [ha, hb] at h; cases h
            | some b =>
              rw [ha, hb] at h
              simp only at h
              refine ih _ res ?_ h
              intro s hsm
              rcases List.mem_append.mp hsm with hm | hm
              · exact hacc s hm
              · simp only [List.mem_singleton] at hm
                subst hm
                have hc := hcurv eg (List.mem_of_getElem? he)
                have hpoly := (TV.C20.projOnTrack_spec sqrt eps eg.geom pos.1 pos.2 d px py i).mp hp
                obtain ⟨d0, dd, p1, g1, hseg, _⟩ := TV.C20.proj_polyline_on hs eps eg.geom pos.1 pos.2 d px py i hpoly
                obtain ⟨p2, g2, hon⟩ := hseg (distToNode_one_geom sqrt eg (px, py) i b hb)
                obtain ⟨va, vb⟩ := distToNode_values sqrt eg (px, py) i a b p1 p2 g1 g2 ha hb hc
                obtain ⟨len, hlen, hsum⟩ := distToNode_sum hs eg (px, py) i a b p1 p2 g1 g2 hon ha hb hc
                have hne : eg.geom ≠ [] := by
                  intro hnil; rw [hnil] at g1; simp at g1
                have hl := absCurv_last sqrt eg.geom hne
                rw [hc, hl] at hlen
                injection hlen with hlen
                exact ⟨elem, eg, rfl, he, i, p1, p2, d, g1, g2, hon, d0, dd, hlt, va, vb, by rw [hsum, hlen]⟩
        · exact ih _ res hacc h

/-- `STATES[i]` on edges with computed `abs_curv` columns: never empty; the flag state alone, or matched states only -/
theorem obsStates_matched {sqrt : α → α} (hs : SqrtSpec sqrt) (eps radius : α) (edges : List (Edge α))
    (hcurv : ∀ eg ∈ edges, eg.curv = absCurv sqrt eg.geom) (pos : α × α)
    (cand : Option (List Nat)) (l : List (State α)) (h : obsStates sqrt eps radius edges pos cand = .ok l) :
    l = [flag pos] ∨ (l ≠ [] ∧ ∀ s ∈ l, Matched sqrt radius edges pos s) := by
  unfold obsStates at h
  cases cand with
  | none => simp only at h; injection h with h; exact Or.inl h.symm
  | some E =>
    simp only at h
    cases hl : candLoop sqrt eps radius edges pos E [] with
    | error e => rw [hl] at h; cases h
    | ok r =>
      rw [hl] at h
      have snd := candLoop_matched hs eps radius edges hcurv pos E [] r (fun s hm => by simp at hm) hl
      cases r with
      | nil => simp only at h; injection h with h; exact Or.inl h.symm
      | cons s ss =>
        simp only at h; injection h with h; subst h
        exact Or.inr ⟨by simp, snd⟩

/-! ### network construction -/

theorem addNode_frame (net : Net α) (n : Node α) :
    (addNode net n).edges = net.edges ∧ (addNode net n).idx = net.idx ∧ (addNode net n).index = net.index := by
  unfold addNode; split <;> simp

/-- `addNode` never changes a registered node: the first `Node` registered under an id stays, with its coordinates -/
theorem addNode_keeps (net : Net α) (n : Node α) (i : Nat) (m : Node α) (h : lookupNode net i = some m) :
    lookupNode (addNode net n) i = some m := by
  unfold addNode; split
  · exact h
  · unfold lookupNode at h ⊢
    simp only [List.find?_append, h, Option.some_or]

/-- … and registers an unknown id with the coordinates it is given -/
theorem addNode_new (net : Net α) (n : Node α) (h : lookupNode net n.id = none) :
    lookupNode (addNode net n) n.id = some n := by
  unfold lookupNode at h
  have hany : net.nodes.any (fun x => x.id == n.id) = false := by
    rw [List.any_eq_false]
    intro x hx hxe
    have := List.find?_eq_none.mp h x hx
    exact this hxe
  unfold addNode lookupNode
  simp [hany, List.find?_append, h]

theorem lookup_setEdge_same (l : List (NEdge α)) (ne : NEdge α) : lookupEdge (setEdge l ne) ne.e.id = some ne := by
  unfold setEdge lookupEdge
  split
  · rename_i hany
    induction l with
    | nil => simp at hany
    | cons x rest ih =>
      simp only [List.map_cons]
      by_cases hx : (x.e.id == ne.e.id) = true
      · simp [hx]
      · simp only [hx, Bool.false_eq_true, ↓reduceIte]
        rw [List.find?_cons]
        simp only [hx]
        apply ih
        simpa [hx] using hany
  · rename_i hany
    have hnone : l.find? (fun x => x.e.id == ne.e.id) = none := by
      rw [List.find?_eq_none]
      intro x hx hxe
      exact hany (List.any_eq_true.mpr ⟨x, hx, hxe⟩)
    simp [List.find?_append, hnone]

theorem find_replace_other (l : List (NEdge α)) (ne : NEdge α) (i : Nat) (hi : i ≠ ne.e.id) :
    List.find? (fun x => x.e.id == i) (l.map (fun x => if (x.e.id == ne.e.id) = true then ne else x)) =
      List.find? (fun x => x.e.id == i) l := by
  induction l with
  | nil => simp
  | cons x rest ih =>
    simp only [List.map_cons]
    by_cases hx : (x.e.id == ne.e.id) = true
    · have hxi : (x.e.id == i) = false := by
        have : x.e.id = ne.e.id := by simpa using hx
        simp [this]; exact fun h => hi h.symm
      have hni : (ne.e.id == i) = false := by simp; exact fun h => hi h.symm
      simp only [hx, ↓reduceIte, List.find?_cons, hni, hxi]
      exact ih
    · simp only [hx, Bool.false_eq_true, ↓reduceIte, List.find?_cons]
      split
      · rfl
      · exact ih

theorem lookup_setEdge_other (l : List (NEdge α)) (ne : NEdge α) (i : Nat) (hi : i ≠ ne.e.id) :
    lookupEdge (setEdge l ne) i = lookupEdge l i := by
  unfold setEdge lookupEdge
  split
  · exact find_replace_other l ne i hi
  · have hni : (ne.e.id == i) = false := by simp; exact fun h => hi h.symm
    simp [List.find?_append, hni]

theorem addEdge_spec (fl : α → Int) (net net' : Net α) (e : EdgeIn α) (s t : Node α)
    (h : addEdge fl net e s t = .ok net') :
    net'.edges = setEdge net.edges ⟨e, s.id, t.id⟩ ∧ net'.idx = net.idx ++ [e.id] ∧
    net'.nodes = (addNode (addNode net s) t).nodes := by
  unfold addEdge at h
  obtain ⟨e1, i1, _⟩ := addNode_frame net s
  obtain ⟨e2, i2, _⟩ := addNode_frame (addNode net s) t
  simp only at h
  split at h
  · injection h with h; subst h; simp [e1, e2, i1, i2]
  · split at h
    · cases h
    · injection h with h; subst h; simp [e1, e2, i1, i2]

/-- one `Network.addEdge`: the edge is stored under its id with the geometry and the `abs_curv` column AS GIVEN (nothing is
recomputed, no vertex is moved), every edge stored under another id is untouched, the nodes already registered keep their
coordinates -/
theorem addEdge_frame (fl : α → Int) (net net' : Net α) (e : EdgeIn α) (s t : Node α)
    (h : addEdge fl net e s t = .ok net') :
    lookupEdge net'.edges e.id = some ⟨e, s.id, t.id⟩ ∧
    (∀ i, i ≠ e.id → lookupEdge net'.edges i = lookupEdge net.edges i) ∧
    (∀ i m, lookupNode net i = some m → lookupNode net' i = some m) := by
  obtain ⟨he, _, hn⟩ := addEdge_spec fl net net' e s t h
  refine ⟨?_, ?_, ?_⟩
  · rw [he]; exact lookup_setEdge_same net.edges ⟨e, s.id, t.id⟩
  · intro i hi; rw [he]; exact lookup_setEdge_other net.edges ⟨e, s.id, t.id⟩ i hi
  · intro i m hm
    have := addNode_keeps (addNode net s) t i m (addNode_keeps net s i m hm)
    unfold lookupNode at this ⊢
    rw [hn]; exact this

/-- the stored form of an `addEdge` argument triple -/
def stored (x : EdgeIn α × Node α × Node α) : NEdge α := ⟨x.1, x.2.1.id, x.2.2.id⟩

/-- a sequence of `addEdge` calls with edge ids that are new and pairwise different appends the edges, in order -/
theorem addEdges_spec (fl : α → Int) (es : List (EdgeIn α × Node α × Node α)) :
    ∀ (net net' : Net α), addEdges fl net es = .ok net' →
      (net.edges.map (fun x => x.e.id) ++ es.map (fun x => x.1.id)).Nodup →
      net'.edges = net.edges ++ es.map stored ∧ net'.idx = net.idx ++ es.map (fun x => x.1.id) := by
  induction es with
  | nil => intro net net' h _; simp only [addEdges] at h; injection h with h; subst h; simp
  | cons x rest ih =>
    intro net net' h hnd
    obtain ⟨e, s, t⟩ := x
    simp only [addEdges] at h
    cases h1 : addEdge fl net e s t with
    | error er => rw [h1] at h; cases h
    | ok net1 =>
      rw [h1] at h
      simp only at h
      obtain ⟨he, hi, _⟩ := addEdge_spec fl net net1 e s t h1
      have hfresh : net.edges.any (fun x => x.e.id == e.id) = false := by
        rw [List.any_eq_false]
        intro x hx hxe
        have hxe' : x.e.id = e.id := by simpa using hxe
        simp only [List.map_cons] at hnd
        have := (List.nodup_append.mp hnd).2.2 (x.e.id) (List.mem_map.mpr ⟨x, hx, rfl⟩) e.id (by simp)
        exact this hxe'
      have he' : net1.edges = net.edges ++ [⟨e, s.id, t.id⟩] := by
        rw [he]; unfold setEdge; simp [hfresh]
      obtain ⟨r1, r2⟩ := ih net1 net' h (by
        rw [he']
        simpa [List.map_append, List.append_assoc] using hnd)
      refine ⟨?_, ?_⟩
      · rw [r1, he']; simp [stored]
      · rw [r2, hi]; simp

theorem attachIndex_frame (fl : α → Int) (net net' : Net α) (res : Option (α × α)) (margin : α)
    (h : attachIndex fl net res margin = .ok net') :
    net'.edges = net.edges ∧ net'.idx = net.idx ∧ net'.nodes = net.nodes := by
  unfold attachIndex at h
  split at h
  · cases h
  · injection h with h; subst h; simp

/-- in a dict-like edge list with pairwise different ids every stored edge is found under its id -/
theorem lookup_of_nodup (l : List (NEdge α)) (hnd : (l.map (fun x => x.e.id)).Nodup) :
    ∀ x ∈ l, lookupEdge l x.e.id = some x := by
  induction l with
  | nil => intro x hx; simp at hx
  | cons a rest ih =>
    intro x hx
    simp only [List.map_cons, List.nodup_cons] at hnd
    unfold lookupEdge
    rcases List.mem_cons.mp hx with rfl | hx
    · simp
    · have hne : (a.e.id == x.e.id) = false := by
        simp only [beq_eq_false_iff_ne, ne_eq]
        intro heq
        exact hnd.1 (heq ▸ List.mem_map.mpr ⟨x, hx, rfl⟩)
      rw [List.find?_cons]; simp only [hne]
      exact ih hnd.2 x hx

/-- when `__idx_edges` lists the ids of `EDGES` in order and the ids are pairwise different, edge NUMBER `n` is the `n`-th
edge stored -/
theorem netEdges_of_nodup (net : Net α) (hidx : net.idx = net.edges.map (fun x => x.e.id))
    (hnd : (net.edges.map (fun x => x.e.id)).Nodup) :
    netEdges net = net.edges.map (fun ne => (⟨ne.e.geom, ne.e.curv⟩ : Edge α)) := by
  unfold netEdges
  rw [hidx, List.filterMap_map]
  have hl := lookup_of_nodup net.edges hnd
  rw [← List.filterMap_eq_map]
  apply List.filterMap_congr
  intro x hx
  simp [Function.comp, hl x hx]

/-- the whole construction (`buildNet`: `addEdge` for every edge, the index attached before the last `late` ones) with
pairwise different edge ids: edge number `n` of the network carries the geometry and the `abs_curv` column of the `n`-th
edge handed to `addEdge`, unchanged -/
theorem buildNet_edges (fl : α → Int) (es : List (EdgeIn α × Node α × Node α)) (late : Nat) (res : Option (α × α))
    (margin : α) (net : Net α) (hnd : (es.map (fun x => x.1.id)).Nodup) (h : buildNet fl es late res margin = .ok net) :
    netEdges net = es.map (fun x => (⟨x.1.geom, x.1.curv⟩ : Edge α)) := by
  unfold buildNet at h
  simp only at h
  cases h1 : addEdges fl Net.empty (es.take (es.length - late)) with
  | error er => rw [h1] at h; cases h
  | ok net1 =>
    rw [h1] at h
    simp only at h
    cases h2 : attachIndex fl net1 res margin with
    | error er => rw [h2] at h; cases h
    | ok net2 =>
      rw [h2] at h
      simp only at h
      have hsplit : es.map (fun x => x.1.id) =
          (es.take (es.length - late)).map (fun x => x.1.id) ++ (es.drop (es.length - late)).map (fun x => x.1.id) := by
        rw [← List.map_append, List.take_append_drop]
      obtain ⟨a1, a2⟩ := addEdges_spec fl _ Net.empty net1 h1 (by
        simp only [Net.empty, List.map_nil, List.nil_append]
        rw [hsplit] at hnd
        exact (List.nodup_append.mp hnd).1)
      obtain ⟨b1, b2, _⟩ := attachIndex_frame fl net1 net2 res margin h2
      simp only [Net.empty, List.nil_append] at a1 a2
      obtain ⟨c1, c2⟩ := addEdges_spec fl _ net2 net h (by
        rw [b1, a1, List.map_map]
        have : (fun x => x.e.id) ∘ (stored (α := α)) = fun x => x.1.id := by funext x; rfl
        rw [this, ← hsplit]; exact hnd)
      have hedges : net.edges = es.map stored := by
        rw [c1, b1, a1, ← List.map_append, List.take_append_drop]
      have hidx : net.idx = net.edges.map (fun x => x.e.id) := by
        rw [c2, b2, a2, hedges, ← List.map_append, List.take_append_drop, List.map_map]
        rfl
      rw [netEdges_of_nodup net hidx (by
        rw [hedges, List.map_map]
        have : (fun x => x.e.id) ∘ (stored (α := α)) = fun x => x.1.id := by funext x; rfl
        rw [this]; exact hnd), hedges, List.map_map]
      rfl

/-! ### candidates from the network's own index, front end -/

/-- `STATES` prepared on a network (whatever its spatial index answers): one list per observation, in order, each the flag
state alone or a non-empty list of matched states -/
theorem allStatesNet_matched {sqrt : α → α} (hs : SqrtSpec sqrt) (fl : α → Int) (eps radius : α) (net : Net α)
    (hcurv : ∀ eg ∈ netEdges net, eg.curv = absCurv sqrt eg.geom) :
    ∀ (track : List (Obs α)) (ss : List (List (State α))), allStatesNet sqrt fl eps radius net track = .ok ss →
      ss.length = track.length ∧
      ∀ (k : Nat) (o : Obs α) (l : List (State α)), track[k]? = some o → ss[k]? = some l →
        l = [flag o.pos] ∨ (l ≠ [] ∧ ∀ s ∈ l, Matched sqrt radius (netEdges net) o.pos s) := by
  intro track
  induction track with
  | nil =>
    intro ss h
    simp only [allStatesNet] at h; injection h with h; subst h
    exact ⟨rfl, fun k o l hk => by simp at hk⟩
  | cons o os ih =>
    intro ss h
    rw [allStatesNet] at h
    cases h1 : obsStatesNet sqrt fl eps radius net o.pos with
    | error e => rw [h1] at h; cases h
    | ok s0 =>
      rw [h1] at h
      simp only at h
      cases h2 : allStatesNet sqrt fl eps radius net os with
      | error e => rw [h2] at h; cases h
      | ok rest =>
        rw [h2] at h
        injection h with h; subst h
        obtain ⟨len, f⟩ := ih _ h2
        refine ⟨by simp [len], ?_⟩
        intro k o' l hk hl
        cases k with
        | zero =>
          simp only [List.getElem?_cons_zero, Option.some.injEq] at hk hl
          subst hk hl
          unfold obsStatesNet at h1
          cases hc : candidatesOf fl radius net o.pos with
          | error e => rw [hc] at h1; cases h1
          | ok cand =>
            rw [hc] at h1
            simp only at h1
            cases ho : obsStates sqrt eps radius (netEdges net) o.pos cand with
            | error e => rw [ho] at h1; cases h1
            | ok l' =>
              rw [ho] at h1
              injection h1 with h1; subst h1
              exact obsStates_matched hs eps radius (netEdges net) hcurv o.pos cand _ ho
        | succ k =>
          simp only [List.getElem?_cons_succ] at hk hl
          exact f k o' l hk hl

/-- what `__mapOnNetwork` leaves on one track -/
theorem matchOne_spec {sqrt : α → α} (hs : SqrtSpec sqrt) (fl : α → Int) (eps : α) (net : Net α)
    (hcurv : ∀ eg ∈ netEdges net, eg.curv = absCurv sqrt eg.geom) (dec : Decoder α) (a : Args α) (t : TrackS α)
    (r : ResultN α) (h : matchOne sqrt fl eps net dec a t = .ok r) :
    r.track.obs = t.obs ∧ r.inference.length = t.obs.length ∧
    (∀ (k : Nat) (o : Obs α) (st : State α), t.obs[k]? = some o → r.inference[k]? = some st →
      (∃ l, r.states[k]? = some l ∧ st ∈ l) ∧
      (st = flag o.pos ∨ Matched sqrt a.searchRadius (netEdges net) o.pos st)) ∧
    r.track.names = addName (addName (addName t.names "obs_noise") "hmm_inference") "hmm_cost" ∧
    r.track.noise = (if t.names.contains "obs_noise" then t.noise else t.obs.map (fun _ => a.gpsNoise)) := by
  unfold matchOne at h
  split at h
  · cases h
  · simp only at h
    split at h
    · cases h
    · rename_i states hst
      split at h
      · cases h
      · rename_i inf hinf
        injection h with h; subst h
        have hobs : (if t.names.contains "obs_noise" = true then t
            else { t with names := t.names ++ ["obs_noise"], noise := t.obs.map (fun _ => a.gpsNoise) }).obs = t.obs := by
          split <;> rfl
        rw [hobs] at hst
        obtain ⟨len, f⟩ := allStatesNet_matched hs fl eps a.searchRadius net hcurv t.obs states hst
        obtain ⟨len2, g⟩ := inferAll_mem states _ _ hinf
        refine ⟨?_, by rw [len2, len], ?_, ?_, ?_⟩
        · simp only [hobs]
          exact newPositions_id 1 (by decide) t.obs inf
        · intro k o st hk hst'
          obtain ⟨l, hl, hm⟩ := g k st hst'
          refine ⟨⟨l, hl, hm⟩, ?_⟩
          rcases f k o l hk hl with hfl | ⟨_, hall⟩
          · rw [hfl] at hm; simp only [List.mem_singleton] at hm; exact Or.inl hm
          · exact Or.inr (hall st hm)
        · simp only
          by_cases hc : t.names.contains "obs_noise" = true
          · simp only [hc, ↓reduceIte]
            have : addName t.names "obs_noise" = t.names := by simp only [addName, hc, ↓reduceIte]
            rw [this]
          · simp only [hc, Bool.false_eq_true, ↓reduceIte]
            have : addName t.names "obs_noise" = t.names ++ ["obs_noise"] := by
              simp only [addName, hc, Bool.false_eq_true, ↓reduceIte]
            rw [this]
        · simp only
          split <;> rfl

/-- the loop of the front end: the result at position `j` is the result of `__mapOnNetwork` on the `j`-th track ALONE
(nothing is carried from one track to the next: `STATES` is rebuilt for each) -/
theorem matchLoop_spec (sqrt : α → α) (fl : α → Int) (eps : α) (net : Net α) (dec : Decoder α) (a : Args α) :
    ∀ (ts : List (TrackS α)) (j : Nat) (r : ResultN α), (matchLoop sqrt fl eps net dec a ts).1[j]? = some r →
      ∃ t, ts[j]? = some t ∧ matchOne sqrt fl eps net dec a t = .ok r := by
  intro ts
  induction ts with
  | nil => intro j r h; simp [matchLoop] at h
  | cons t rest ih =>
    intro j r h
    rw [matchLoop] at h
    cases h1 : matchOne sqrt fl eps net dec a t with
    | error e => rw [h1] at h; simp at h
    | ok r0 =>
      rw [h1] at h
      simp only at h
      cases j with
      | zero =>
        simp only [List.getElem?_cons_zero, Option.some.injEq] at h
        subst h
        exact ⟨t, by simp, h1⟩
      | succ j =>
        simp only [List.getElem?_cons_succ] at h ⊢
        exact ih j r h

/-- no exception: every track of the call has its result -/
theorem matchLoop_complete (sqrt : α → α) (fl : α → Int) (eps : α) (net : Net α) (dec : Decoder α) (a : Args α) :
    ∀ (ts : List (TrackS α)), (matchLoop sqrt fl eps net dec a ts).2 = none →
      (matchLoop sqrt fl eps net dec a ts).1.length = ts.length := by
  intro ts
  induction ts with
  | nil => intro _; simp [matchLoop]
  | cons t rest ih =>
    intro h
    rw [matchLoop] at h ⊢
    cases h1 : matchOne sqrt fl eps net dec a t with
    | error e => (try rw [h1] at h); simp at h
    | ok r0 =>
      (try rw [h1] at h)
      simp only at h ⊢
      simp [ih h]

end TV.MapMatch
