import TracklibVerif.Lemmas.MapMatchNet
/-! Helper lemmas for C10: the time stamps of the observations are never read by `mapOnNetwork` (no chronological order is
required, none is established): the preparation of `STATES` reads the positions only, and with a decoder that reads positions,
feature names and the `obs_noise` column (what `HMM.estimate` is given through `__obs_log` / `__tst_log`) everything the call
produces is the same for two tracks that differ by their time stamps only. -/
namespace TV.MapMatch
open TV.Proj
variable {α : Type} [Field α] [LinearOrder α] [IsStrictOrderedRing α]

/-- `STATES` of a track is a function of the list of its positions -/
theorem allStatesNet_pos_only (sqrt : α → α) (fl : α → Int) (eps radius : α) (net : Net α) :
    ∀ (o o' : List (Obs α)), o.map (·.pos) = o'.map (·.pos) →
      allStatesNet sqrt fl eps radius net o = allStatesNet sqrt fl eps radius net o' := by
  intro o
  induction o with
  | nil =>
    intro o' h
    cases o' with
    | nil => rfl
    | cons b bs => simp at h
  | cons a as ih =>
    intro o' h
    cases o' with
    | nil => simp at h
    | cons b bs =>
      simp only [List.map_cons, List.cons.injEq] at h
      simp only [allStatesNet, h.1, ih bs h.2]

/-- what a call leaves besides the observations themselves: `STATES`, the `hmm_inference` column, the feature names and the
`obs_noise` column -/
def ResultN.view (r : ResultN α) : List (List (State α)) × List (State α) × List String × List α :=
  (r.states, r.inference, r.track.names, r.track.noise)

/-- a decoder that reads, of the track, the positions, the feature names and the `obs_noise` column only -/
def Decoder.TimeBlind (dec : Decoder α) : Prop :=
  ∀ (net : Net α) (u u' : TrackS α) (st : List (List (State α))),
    u.obs.map (·.pos) = u'.obs.map (·.pos) → u.names = u'.names → u.noise = u'.noise → dec net u st = dec net u' st

theorem matchOne_time_blind (sqrt : α → α) (fl : α → Int) (eps : α) (net : Net α) (dec : Decoder α)
    (hdec : Decoder.TimeBlind dec) (a : Args α) (t t' : TrackS α)
    (hpos : t.obs.map (·.pos) = t'.obs.map (·.pos)) (hn : t.names = t'.names) (hz : t.noise = t'.noise) :
    (matchOne sqrt fl eps net dec a t).map ResultN.view = (matchOne sqrt fl eps net dec a t').map ResultN.view := by
  have hlen : t.obs.length = t'.obs.length := by
    have := congrArg List.length hpos
    simpa using this
  have hemp : t.obs.isEmpty = t'.obs.isEmpty := by
    cases h1 : t.obs <;> cases h2 : t'.obs <;> simp_all
  have hconst : t.obs.map (fun _ => a.gpsNoise) = t'.obs.map (fun _ => a.gpsNoise) := by
    rw [List.map_const', List.map_const', hlen]
  unfold matchOne
  rw [← hemp]
  by_cases he : t.obs.isEmpty = true
  · simp only [he, if_true]
  · simp only [he]
    rw [← hn]
    by_cases hc : t.names.contains "obs_noise" = true
    · simp only [hc, if_true, Bool.false_eq_true, if_false]
      rw [allStatesNet_pos_only sqrt fl eps a.searchRadius net t.obs t'.obs hpos]
      cases allStatesNet sqrt fl eps a.searchRadius net t'.obs with
      | error e => rfl
      | ok states =>
        simp only
        rw [hdec net t t' states hpos hn hz]
        cases inferAll states (dec net t' states) with
        | error e => rfl
        | ok inf => simp only [Except.map, ResultN.view, hn, hz]
    · simp only [hc, Bool.false_eq_true, if_false]
      rw [allStatesNet_pos_only sqrt fl eps a.searchRadius net t.obs t'.obs hpos]
      cases allStatesNet sqrt fl eps a.searchRadius net t'.obs with
      | error e => rfl
      | ok states =>
        simp only
        rw [hdec net { t with names := t.names ++ ["obs_noise"], noise := t.obs.map (fun _ => a.gpsNoise) }
          { t' with names := t.names ++ ["obs_noise"], noise := t'.obs.map (fun _ => a.gpsNoise) } states hpos rfl hconst]
        cases inferAll states (dec net _ states) with
        | error e => rfl
        | ok inf => simp only [Except.map, ResultN.view, hconst]

/-- `__mapOnNetwork` leaves the list of observations as it is (order, positions, time stamps), whatever the network, the
decoder and the time stamps -/
theorem matchOne_obs (sqrt : α → α) (fl : α → Int) (eps : α) (net : Net α) (dec : Decoder α) (a : Args α) (t : TrackS α)
    (r : ResultN α) (h : matchOne sqrt fl eps net dec a t = .ok r) : r.track.obs = t.obs := by
  unfold matchOne at h
  split at h
  · cases h
  · simp only at h
    split at h
    · cases h
    · split at h
      · cases h
      · rename_i inf _
        injection h with h; subst h
        have hobs : (if t.names.contains "obs_noise" = true then t
            else { t with names := t.names ++ ["obs_noise"], noise := t.obs.map (fun _ => a.gpsNoise) }).obs = t.obs := by
          split <;> rfl
        simp only [hobs]
        exact newPositions_id 1 (by decide) t.obs inf

end TV.MapMatch
