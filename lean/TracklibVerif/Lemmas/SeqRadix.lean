import TracklibVerif.Model.SeqOps
import TracklibVerif.Lemmas.Seq
/-! Helper lemmas for C04, part 3: `sortRadix` (least-significant-digit bucket sort). Core Lean only. -/
namespace TV.Seq

/-- lexicographic order of positions by a list of key functions (most significant first), ties broken
by the base relation `B` -/
def LexLe (B : Nat → Nat → Prop) : List (Nat → Int) → Nat → Nat → Prop
  | [], i, j => B i j
  | f :: fs, i, j => f i < f j ∨ (f i = f j ∧ LexLe B fs i j)

/-! ### one pass -/

theorem bucketOf_inRange (nb : Nat) (k : Int) (h0 : 0 ≤ k) (h1 : k < nb) : bucketOf nb k = some k.toNat := by
  have : k.toNat < nb := by omega
  simp [bucketOf, h0, this]

/-- reading out the buckets of a list of distinct labels that contains every key: a permutation -/
theorem flatMap_filter_perm (f : Nat → Nat) : ∀ (ids bs : List Nat), bs.Nodup → (∀ i ∈ ids, f i ∈ bs) →
    (bs.flatMap (fun b => ids.filter (fun i => f i == b))).Perm ids
  | [], bs, _, _ => by
    have : bs.flatMap (fun b => ([] : List Nat).filter (fun i => f i == b)) = [] := by
      induction bs with
      | nil => rfl
      | cons c cs ih => simp
    rw [this]
  | x :: xs, bs, hnd, hall => by
    have ih := flatMap_filter_perm f xs bs hnd (fun i hi => hall i (List.mem_cons_of_mem _ hi))
    refine List.Perm.trans ?_ (List.Perm.cons x ih)
    -- moving `x` out of its bucket
    have key : ∀ (cs : List Nat), cs.Nodup → f x ∈ cs →
        (cs.flatMap (fun b => (x :: xs).filter (fun i => f i == b))).Perm
          (x :: cs.flatMap (fun b => xs.filter (fun i => f i == b))) := by
      intro cs
      induction cs with
      | nil => intro _ h; simp at h
      | cons c cs ihc =>
        intro hn hx
        have hn' := List.nodup_cons.mp hn
        simp only [List.flatMap_cons]
        by_cases hc : f x = c
        · have h1 : (x :: xs).filter (fun i => f i == c) = x :: xs.filter (fun i => f i == c) := by
            simp [hc]
          have h2 : cs.flatMap (fun b => (x :: xs).filter (fun i => f i == b)) =
              cs.flatMap (fun b => xs.filter (fun i => f i == b)) := by
            have hxcs : f x ∉ cs := by rw [hc]; exact hn'.1
            clear ihc hn hx hn'
            induction cs with
            | nil => rfl
            | cons d ds ihd =>
              have hd : ¬ (f x = d) := by intro h; exact hxcs (by simp [h])
              have hhead : (x :: xs).filter (fun i => f i == d) = xs.filter (fun i => f i == d) := by
                simp [hd]
              simp only [List.flatMap_cons]
              rw [hhead, ihd (by intro h; exact hxcs (List.mem_cons_of_mem _ h))]
          rw [h1, h2]; exact List.Perm.refl _
        · have h1 : (x :: xs).filter (fun i => f i == c) = xs.filter (fun i => f i == c) := by
            simp [hc]
          have hx' : f x ∈ cs := by
            rcases List.mem_cons.mp hx with h | h
            · exact absurd h hc
            · exact h
          rw [h1]
          exact List.Perm.trans (List.Perm.append_left _ (ihc hn'.2 hx')) List.perm_middle
    exact key bs hnd (hall x (by simp))

/-- reading out the buckets in increasing order sorts by the key and keeps the previous order inside a bucket -/
theorem flatMap_filter_sorted (f : Nat → Nat) (R : Nat → Nat → Prop) (nb : Nat) (ids : List Nat)
    (h : ids.Pairwise R) :
    ((List.range nb).flatMap (fun b => ids.filter (fun i => f i == b))).Pairwise
      (fun i j => f i < f j ∨ (f i = f j ∧ R i j)) := by
  rw [List.pairwise_flatMap]
  constructor
  · intro b _
    have := List.Pairwise.filter (fun i => f i == b) h
    refine List.Pairwise.imp_of_mem ?_ this
    intro i j hi hj hr
    have ei : f i = b := by simpa using (List.mem_filter.mp hi).2
    have ej : f j = b := by simpa using (List.mem_filter.mp hj).2
    exact Or.inr ⟨by omega, hr⟩
  · refine List.Pairwise.imp ?_ (List.pairwise_lt_range (n := nb))
    intro b1 b2 hlt x hx y hy
    have ex : f x = b1 := by simpa using (List.mem_filter.mp hx).2
    have ey : f y = b2 := by simpa using (List.mem_filter.mp hy).2
    exact Or.inl (by omega)

/-- one pass of `sortRadix` with every key inside the buckets: no `IndexError`, a permutation, sorted by
the key, stable -/
theorem bucketPass_spec (nb : Nat) (key : Nat → Int) (R : Nat → Nat → Prop) (ids : List Nat)
    (hk : ∀ i ∈ ids, 0 ≤ key i ∧ key i < nb) (h : ids.Pairwise R) :
    ∃ out, bucketPass nb key ids = some out ∧ out.Perm ids ∧
      out.Pairwise (fun i j => key i < key j ∨ (key i = key j ∧ R i j)) := by
  have hall : ids.all (fun i => (bucketOf nb (key i)).isSome) = true := by
    rw [List.all_eq_true]
    intro i hi
    rw [bucketOf_inRange nb (key i) (hk i hi).1 (hk i hi).2]; rfl
  have hfilt : ∀ b, ids.filter (fun i => bucketOf nb (key i) == some b) =
      ids.filter (fun i => (key i).toNat == b) := by
    intro b
    apply List.filter_congr
    intro i hi
    rw [bucketOf_inRange nb (key i) (hk i hi).1 (hk i hi).2]
    simp
  refine ⟨(List.range nb).flatMap (fun b => ids.filter (fun i => (key i).toNat == b)), ?_, ?_, ?_⟩
  · simp only [bucketPass, hall, if_true, hfilt]
  · apply flatMap_filter_perm (fun i => (key i).toNat) ids (List.range nb) List.nodup_range
    intro i hi
    have := hk i hi
    exact List.mem_range.mpr (by omega)
  · have hs := flatMap_filter_sorted (fun i => (key i).toNat) R nb ids h
    have hp := flatMap_filter_perm (fun i => (key i).toNat) ids (List.range nb) List.nodup_range
      (by intro i hi; have := hk i hi; exact List.mem_range.mpr (by omega))
    refine List.Pairwise.imp_of_mem ?_ hs
    intro i j hi hj hr
    have h1 := hk i (hp.mem_iff.mp hi)
    have h2 := hk j (hp.mem_iff.mp hj)
    rcases hr with hr | ⟨he, hr⟩
    · exact Or.inl (by omega)
    · exact Or.inr ⟨by omega, hr⟩

/-! ### all the passes -/

/-- the passes of `runPasses` (least significant first), every key inside its buckets: no `IndexError`, the
result is a permutation of the input, ordered lexicographically by the keys from the LAST pass to the first,
then by the order `B` the input was in (stable). -/
theorem runPasses_spec (B : Nat → Nat → Prop) : ∀ (passes : List (Nat × (Nat → Int))) (acc : List (Nat → Int)) (ids : List Nat),
    (∀ p ∈ passes, ∀ i ∈ ids, 0 ≤ p.2 i ∧ p.2 i < p.1) → ids.Pairwise (LexLe B acc) →
    ∃ out, runPasses passes ids = some out ∧ out.Perm ids ∧
      out.Pairwise (LexLe B ((passes.map (·.2)).reverse ++ acc))
  | [], acc, ids, _, h => ⟨ids, rfl, List.Perm.refl _, by simpa using h⟩
  | (nb, key) :: rest, acc, ids, hk, h => by
    obtain ⟨o1, e1, p1, s1⟩ := bucketPass_spec nb key (LexLe B acc) ids (fun i hi => hk (nb, key) (by simp) i hi) h
    have hk' : ∀ p ∈ rest, ∀ i ∈ o1, 0 ≤ p.2 i ∧ p.2 i < p.1 := by
      intro p hp i hi
      exact hk p (List.mem_cons_of_mem _ hp) i (p1.mem_iff.mp hi)
    obtain ⟨o2, e2, p2, s2⟩ := runPasses_spec B rest (key :: acc) o1 hk' s1
    refine ⟨o2, ?_, p2.trans p1, ?_⟩
    · simp only [runPasses, e1, e2]
    · simpa [List.map_cons, List.reverse_cons, List.append_assoc] using s2

end TV.Seq

namespace TV.Seq

/-! ### the year pass: buckets from the earliest to the latest year of the track -/

theorem foldl_min_le : ∀ (xs : List Int) (a : Int), xs.foldl min a ≤ a ∧ ∀ x ∈ xs, xs.foldl min a ≤ x
  | [], a => ⟨by simp, by simp⟩
  | y :: ys, a => by
    obtain ⟨h1, h2⟩ := foldl_min_le ys (min a y)
    simp only [List.foldl_cons]
    refine ⟨by omega, ?_⟩
    intro x hx
    rcases List.mem_cons.mp hx with e | hx
    · subst e; omega
    · exact h2 x hx

theorem le_foldl_max : ∀ (xs : List Int) (a : Int), a ≤ xs.foldl max a ∧ ∀ x ∈ xs, x ≤ xs.foldl max a
  | [], a => ⟨by simp, by simp⟩
  | y :: ys, a => by
    obtain ⟨h1, h2⟩ := le_foldl_max ys (max a y)
    simp only [List.foldl_cons]
    refine ⟨by omega, ?_⟩
    intro x hx
    rcases List.mem_cons.mp hx with e | hx
    · subst e; omega
    · exact h2 x hx

theorem minD_le (l : List Int) (d x : Int) (hx : x ∈ l) : minD l d ≤ x := by
  cases l with
  | nil => simp at hx
  | cons y ys =>
    obtain ⟨h1, h2⟩ := foldl_min_le ys y
    rcases List.mem_cons.mp hx with e | hx
    · subst e; exact h1
    · exact h2 x hx

theorem le_maxD (l : List Int) (d x : Int) (hx : x ∈ l) : x ≤ maxD l d := by
  cases l with
  | nil => simp at hx
  | cons y ys =>
    obtain ⟨h1, h2⟩ := le_foldl_max ys y
    rcases List.mem_cons.mp hx with e | hx
    · subst e; exact h1
    · exact h2 x hx

/-- every year of the track has its bucket in the last pass, whatever the years are -/
theorem yearPass_inRange (digits : Nat → List Int) (n i : Nat) (hi : i < n) :
    0 ≤ (yearPass digits n).2 i ∧ (yearPass digits n).2 i < ((yearPass digits n).1 : Int) := by
  have hm : yearDigit digits i ∈ (List.range n).map (yearDigit digits) :=
    List.mem_map.mpr ⟨i, List.mem_range.mpr hi, rfl⟩
  have h1 := minD_le _ 0 _ hm
  have h2 := le_maxD _ (-1) _ hm
  simp only [yearPass]
  omega

/-- the order by `year - ymin` is the order by `year` -/
theorem lexLe_shift (B : Nat → Nat → Prop) (f : Nat → Int) (c : Int) (fs : List (Nat → Int)) (i j : Nat) :
    LexLe B ((fun id => f id - c) :: fs) i j ↔ LexLe B (f :: fs) i j := by
  simp only [LexLe]
  constructor
  · rintro (h | ⟨h, r⟩)
    · exact Or.inl (by omega)
    · exact Or.inr ⟨by omega, r⟩
  · rintro (h | ⟨h, r⟩)
    · exact Or.inl (by omega)
    · exact Or.inr ⟨by omega, r⟩

end TV.Seq
