import TracklibVerif.Model.Features
/-! Simulation between ANY two implementations of the Track API (`Tbl σ V`, `Tbl τ V`), generic in the invariant `I` of
the first and the abstraction `ab : σ → τ`: the closure of `GSim` under the control structures of the monad `M`
(the statements and proofs of `Lemmas/FeaturesSim.lean`, which is the instance `σ = St V`, `τ = ATab V`, `I = Inv n`,
`ab = abs`, kept as it is), and the class `PrimSim` = "the nine primitives are simulated". `Lemmas/FeaturesGSimOps.lean`
and `Lemmas/FeaturesGSimEval.lean` lift `PrimSim` to every program written against the API, up to one API call `step`. -/
set_option linter.unusedSectionVars false
namespace TV.Features
variable {V : Type} {σ τ : Type}

/-- `m` (on `σ`) and `ma` (on `τ`) do the same thing on every state satisfying `I`: `I` is preserved, outcome and returned
value are equal, the resulting states correspond through `ab`; `P` is a guaranteed property of the returned value. -/
def GSim {α : Type} (I : σ → Prop) (ab : σ → τ) (P : α → Prop) (m : M σ α) (ma : M τ α) : Prop :=
  ∀ st, I st → I (m st).2 ∧ ma (ab st) = ((m st).1, ab (m st).2) ∧ ∀ x, (m st).1 = .ok x → P x

variable {I : σ → Prop} {ab : σ → τ}

section combinators
variable {α β : Type}

theorem gsim_pure {P : α → Prop} (x : α) (hx : P x) :
    GSim I ab P (pure x) (pure x) := by
  intro st hinv
  exact ⟨hinv, rfl, fun y hy => by cases hy; exact hx⟩

theorem gsim_throw {P : α → Prop} (e : Err) : GSim I ab P (M.throw e) (M.throw e) := by
  intro st hinv
  exact ⟨hinv, rfl, fun y hy => by cases hy⟩

theorem gsim_ofExcept {P : α → Prop} (r : Except Err α) (h : ∀ x, r = .ok x → P x) :
    GSim I ab P (M.ofExcept r) (M.ofExcept r) := by
  intro st hinv
  exact ⟨hinv, rfl, fun y hy => h y hy⟩

theorem gsim_weaken {P Q : α → Prop} {m : M σ α} {ma : M τ α}
    (h : GSim I ab P m ma) (hpq : ∀ x, P x → Q x) : GSim I ab Q m ma := by
  intro st hinv
  obtain ⟨a, b, c⟩ := h st hinv
  exact ⟨a, b, fun x hx => hpq x (c x hx)⟩

theorem gsim_bind {P : α → Prop} {Q : β → Prop} {m : M σ α} {ma : M τ α}
    {f : α → M σ β} {fa : α → M τ β}
    (h1 : GSim I ab P m ma) (h2 : ∀ x, P x → GSim I ab Q (f x) (fa x)) : GSim I ab Q (m >>= f) (ma >>= fa) := by
  intro st hinv
  obtain ⟨i1, e1, p1⟩ := h1 st hinv
  show I (M.bind m f st).2 ∧ M.bind ma fa (ab st) = ((M.bind m f st).1, ab (M.bind m f st).2)
      ∧ ∀ x, (M.bind m f st).1 = .ok x → Q x
  unfold M.bind
  rw [e1]
  cases hm : m st with
  | mk r st1 =>
    rw [hm] at i1 p1
    cases r with
    | error e => exact ⟨i1, rfl, fun x hx => by cases hx⟩
    | ok x => exact h2 x (p1 x rfl) st1 i1

theorem gsim_ite {P : α → Prop} (c : Prop) [Decidable c] {a b : M σ α} {aa ba : M τ α}
    (h1 : GSim I ab P a aa) (h2 : GSim I ab P b ba) :
    GSim I ab P (if c then a else b) (if c then aa else ba) := by
  split <;> assumption

theorem gsim_tryFinally {P : α → Prop} {m : M σ α} {ma : M τ α}
    {fin : M σ Unit} {fina : M τ Unit}
    (h1 : GSim I ab P m ma) (h2 : GSim I ab (fun _ => True) fin fina) :
    GSim I ab P (M.tryFinally m fin) (M.tryFinally ma fina) := by
  intro st hinv
  obtain ⟨i1, e1, p1⟩ := h1 st hinv
  unfold M.tryFinally
  rw [e1]
  cases hm : m st with
  | mk r st1 =>
    rw [hm] at i1 p1
    obtain ⟨i2, e2, _⟩ := h2 st1 i1
    simp only
    rw [e2]
    cases hf : fin st1 with
    | mk r2 st2 =>
      rw [hf] at i2
      cases r2 with
      | error e =>
        refine ⟨i2, rfl, fun x hx => ?_⟩
        cases r with
        | ok y => cases hx
        | error e' => cases e' <;> cases hx
      | ok u => exact ⟨i2, rfl, fun x hx => p1 x hx⟩

theorem gsim_catchIndex {P : α → Prop} {m : M σ α} {ma : M τ α} (d : α)
    (h1 : GSim I ab P m ma) (hd : P d) : GSim I ab P (M.catchIndex m d) (M.catchIndex ma d) := by
  intro st hinv
  obtain ⟨i1, e1, p1⟩ := h1 st hinv
  unfold M.catchIndex
  rw [e1]
  cases hm : m st with
  | mk r st1 =>
    rw [hm] at i1 p1
    cases r with
    | ok x => exact ⟨i1, rfl, fun y hy => p1 y hy⟩
    | error e =>
      cases e <;> first
        | exact ⟨i1, rfl, fun y hy => by cases hy; exact hd⟩
        | exact ⟨i1, rfl, fun y hy => by cases hy⟩

theorem gsim_forEach (l : List α) {f : α → M σ Unit} {fa : α → M τ Unit}
    (h : ∀ a, a ∈ l → GSim I ab (fun _ => True) (f a) (fa a)) :
    GSim I ab (fun _ => True) (M.forEach l f) (M.forEach l fa) := by
  induction l with
  | nil => exact gsim_pure () trivial
  | cons a t ih =>
    unfold M.forEach
    exact gsim_bind (h a (by simp)) (fun _ _ => ih (fun b hb => h b (by simp [hb])))

theorem gsim_mapL (l : List α) {Q : β → Prop} {f : α → M σ β} {fa : α → M τ β}
    (h : ∀ a, a ∈ l → GSim I ab Q (f a) (fa a)) :
    GSim I ab (fun r => r.length = l.length) (M.mapL l f) (M.mapL l fa) := by
  induction l with
  | nil => exact gsim_pure [] rfl
  | cons a t ih =>
    unfold M.mapL
    refine gsim_bind (h a (by simp)) (fun b _ => ?_)
    refine gsim_bind (ih (fun c hc => h c (by simp [hc]))) (fun bs hbs => ?_)
    exact gsim_pure _ (by simp [hbs])

theorem gsim_foldL (l : List α) {f : β → α → M σ β} {fa : β → α → M τ β}
    (init : β) (h : ∀ b a, a ∈ l → GSim I ab (fun _ => True) (f b a) (fa b a)) :
    GSim I ab (fun _ => True) (M.foldL l init f) (M.foldL l init fa) := by
  induction l generalizing init with
  | nil => exact gsim_pure init trivial
  | cons a t ih =>
    unfold M.foldL
    exact gsim_bind (h init a (by simp)) (fun b _ => ih b (fun b' c hc => h b' c (by simp [hc])))

end combinators

/-- the nine primitives of the Track API are simulated -/
class PrimSim [Tbl σ V] [Tbl τ V] (I : σ → Prop) (ab : σ → τ) : Prop where
  size : GSim I ab (fun _ => True) (Tbl.size : M σ Nat) (Tbl.size : M τ Nat)
  has : ∀ name, GSim I ab (fun _ => True) (Tbl.has name : M σ Bool) (Tbl.has name : M τ Bool)
  names : GSim I ab (fun _ => True) (Tbl.names : M σ (List String)) (Tbl.names : M τ (List String))
  get : ∀ (o : Ops V) name, GSim I ab (fun _ => True) (Tbl.get o name : M σ (List V)) (Tbl.get o name : M τ (List V))
  getObs : ∀ (o : Ops V) name i, GSim I ab (fun _ => True) (Tbl.getObs o name i : M σ V) (Tbl.getObs o name i : M τ V)
  setObs : ∀ name i (v : V), GSim I ab (fun _ => True) (Tbl.setObs name i v : M σ Unit) (Tbl.setObs name i v : M τ Unit)
  create : ∀ name (init : Init V), GSim I ab (fun _ => True) (Tbl.create name init : M σ Unit) (Tbl.create name init : M τ Unit)
  update : ∀ name (init : Init V), GSim I ab (fun _ => True) (Tbl.update name init : M σ Unit) (Tbl.update name init : M τ Unit)
  remove : ∀ name, GSim I ab (fun _ => True) (Tbl.remove name : M σ Unit) (Tbl.remove name : M τ Unit)

end TV.Features
