import TracklibVerif.Lemmas.Graph
/-! A small non-associative instance of `WalkAdd` (the algebra the C06 theorems need), used by the non-vacuity
examples of `Props/C06.lean`: it shows that the theorems do not rest on associativity — the one law IEEE-754
addition lacks among those a reader might expect. -/
namespace TV.C06
open TV.Graph

/-- natural numbers where a sum above 2 is rounded up to the next multiple of 4 -/
def R4 : Type := Nat
instance : LinearOrder R4 := inferInstanceAs (LinearOrder Nat)
instance : Zero R4 := ⟨(0 : Nat)⟩
def R4.add (a b : Nat) : Nat := if a + b ≤ 2 then a + b else 4 * ((a + b + 3) / 4)
instance : Add R4 := ⟨R4.add⟩
def R4.of (n : Nat) : R4 := n

theorem R4.le_add (a w : Nat) : a ≤ R4.add a w := by unfold R4.add; split <;> omega
theorem R4.add_mono (a b w : Nat) (h : a ≤ b) : R4.add a w ≤ R4.add b w := by
  unfold R4.add; split <;> split <;> omega

instance : WalkAdd R4 where
  le_add_right := fun a w _ => R4.le_add a w
  add_le_add := fun a b w h => R4.add_mono a b w h

end TV.C06
