import TracklibVerif.Lemmas.MapMatchCompose
import TracklibVerif.Props.C08Search
/-! Helper lemmas for C10, completeness of the candidates: the unit `__mapOnNetwork` derives
(`math.ceil(search_radius / min(csize, lsize))`, `csize` / `lsize` the NUMBERS of cells) characterised as a ceiling, and what
`neighborhood(p, unit=newunit)` is then complete for, through the registered theorems of C08 only
(`TV.C08.neighborhood_unit_complete`, `TV.C08.built_index_good`, `TV.Grid.build_registers`). -/
namespace TV.MapMatch
open TV.Grid
variable {α : Type} [Field α] [LinearOrder α] [IsStrictOrderedRing α]

/-- `newunit = math.ceil(search_radius / min(csize, lsize))` on an index with at least one column and one row: it does not
raise and is THE integer `U` with `(U - 1) · min(csize, lsize) < search_radius ≤ U · min(csize, lsize)`; `U ≥ 0` for a
radius `≥ 0`. -/
theorem searchUnit_spec {fl : α → Int} (hf : IsFloor fl) (ix : Index α) (hc : 1 ≤ ix.csize) (hl : 1 ≤ ix.lsize)
    (radius : α) :
    ∃ U : Int, searchUnit fl radius ix = .ok U ∧
      radius ≤ ((U : Int) : α) * ((min ix.csize ix.lsize : Int) : α) ∧
      (((U : Int) : α) - 1) * ((min ix.csize ix.lsize : Int) : α) < radius ∧ (0 ≤ radius → 0 ≤ U) := by
  have hmin : (if ix.lsize < ix.csize then ix.lsize else ix.csize) = min ix.csize ix.lsize := by
    simp only [min_def]; split_ifs <;> omega
  have hpos : (1 : Int) ≤ min ix.csize ix.lsize := le_min hc hl
  have hposα : (0 : α) < ((min ix.csize ix.lsize : Int) : α) := by
    exact_mod_cast (by omega : (0 : Int) < min ix.csize ix.lsize)
  obtain ⟨h1, h2⟩ := hf (-(radius / ((min ix.csize ix.lsize : Int) : α)))
  refine ⟨-(fl (-(radius / ((min ix.csize ix.lsize : Int) : α)))), ?_, ?_, ?_, ?_⟩
  · unfold searchUnit
    simp only [hmin]
    have hne : (min ix.csize ix.lsize == 0) = false := by
      simp only [beq_eq_false_iff_ne, ne_eq]; omega
    simp only [hne, Bool.false_eq_true, if_false]
  · rw [Int.cast_neg]
    have : radius / ((min ix.csize ix.lsize : Int) : α) ≤ -((fl (-(radius / ((min ix.csize ix.lsize : Int) : α))) : Int) : α) := by
      linarith
    exact (div_le_iff₀ hposα).mp this
  · rw [Int.cast_neg]
    have : -((fl (-(radius / ((min ix.csize ix.lsize : Int) : α))) : Int) : α) - 1 < radius / ((min ix.csize ix.lsize : Int) : α) := by
      linarith
    exact (lt_div_iff₀ hposα).mp this
  · intro hr
    have hq : (0 : α) ≤ radius / ((min ix.csize ix.lsize : Int) : α) := div_nonneg hr (le_of_lt hposα)
    have : (0 : α) ≤ ((-(fl (-(radius / ((min ix.csize ix.lsize : Int) : α)))) : Int) : α) := by
      rw [Int.cast_neg]; linarith
    exact_mod_cast this

/-- the candidates of an observation `q` of the closed extent on a network whose index is `Good` (a built index, also after
later `addEdge`s inside the extent), radius `≥ 0`: the call returns a list, and with `U` the unit derived by the code it
contains every number registered in the cell of a point `P` of the extent within `U · min(dX, dY)` of `q`. -/
theorem candidates_cover_unit_reach {fl : α → Int} (hf : IsFloor fl) (net : Net α) (ix : Index α) (hg : Good ix)
    (hix : net.index = some ix) (radius : α) (hr : 0 ≤ radius) (q cq : α × α) (hq : getCell ix q = some cq) :
    ∃ (U : Int) (l : List Nat), searchUnit fl radius ix = .ok U ∧ 0 ≤ U ∧
      radius ≤ ((U : Int) : α) * ((min ix.csize ix.lsize : Int) : α) ∧
      (((U : Int) : α) - 1) * ((min ix.csize ix.lsize : Int) : α) < radius ∧
      candidatesOf fl radius net q = .ok (some l) ∧
      ∀ (k : Nat) (P cP : α × α), getCell ix P = some cP → Holds ix.grid (cellOf fl ix cP).1 (cellOf fl ix cP).2 k →
        (q.1 - P.1) ^ 2 + (q.2 - P.2) ^ 2 ≤ (((U : Int) : α) * min ix.dX ix.dY) ^ 2 → k ∈ l := by
  obtain ⟨U, hU, hle, hlt, h0⟩ := searchUnit_spec hf ix hg.2.1 hg.2.2.1 radius
  obtain ⟨l, hl, hall⟩ := TV.C08.neighborhood_unit_complete hf ix hg q cq hq U (h0 hr)
  refine ⟨U, l, hU, h0 hr, hle, hlt, ?_, hall⟩
  unfold candidatesOf
  simp only [hix, hU, hl]

end TV.MapMatch
