import TracklibVerif.Model.CinematicsCoords
import TracklibVerif.Lemmas.Cinematics
import TracklibVerif.Lemmas.Geo
/-! Helper lemmas for the per-coordinate-class model of C17 (`Model/CinematicsCoords.lean`). -/
namespace TV.CinCoords
open TV.Cinematics
open TV.Geo (Trig V3 geoToEnu geoToEcef ecefToEnu Pyth)
variable {α : Type}

/-! ### the feature table: writing a name twice -/

theorem set_new (t : Track α) (n : String) (c : Col α) (h : t.has n = false) :
    t.set n c = { t with feats := t.feats ++ [(n, c)] } := by
  unfold Track.set; simp [h]

theorem set_set_new (t : Track α) (n : String) (a b : Col α) (h : t.has n = false) : (t.set n a).set n b = t.set n b := by
  have h' := (has_eq_false_iff t n).1 h
  have e1 : t.set n a = { t with feats := t.feats ++ [(n, a)] } := by unfold Track.set; simp [h]
  have e2 : t.set n b = { t with feats := t.feats ++ [(n, b)] } := by unfold Track.set; simp [h]
  have hs : ({ t with feats := t.feats ++ [(n, a)] } : Track α).has n = true := by unfold Track.has; simp
  have hm : t.feats.map (fun p => if (p.1 == n) = true then (p.1, b) else p) = t.feats := by
    conv_rhs => rw [← List.map_id t.feats]
    apply List.map_congr_left
    intro p hp
    have : (p.1 == n) = false := by simpa using h' p hp
    simp [this]
  rw [e1, e2]
  unfold Track.set
  simp only [hs, if_true, List.map_append, List.map_cons, List.map_nil, beq_self_eq_true, hm]

/-! ### the loop of addAnalyticalFeature -/

theorem afVals_ok (alg : Nat → Except GErr (Option α)) (f : Nat → Option α) :
    ∀ l : List Nat, (∀ i ∈ l, alg i = .ok (f i)) → afVals alg l = (.ok (), l.map f)
  | [], _ => rfl
  | i :: is, h => by
    have hi := h i (List.mem_cons_self)
    have ih := afVals_ok alg f is (fun j hj => h j (List.mem_cons_of_mem _ hj))
    simp [afVals, hi, ih]

section progs
variable [Add α] [Sub α] [Mul α] [Div α] [Neg α] [OfScientific α] [OfNat α 0] [BEq α]
variable (T : Trig α)

/-- `addAnalyticalFeature` of an algorithm that raises nothing, on a track that does not list the name: the column of
its values is returned and stored (appended) -/
theorem addAFC_fresh_ok (alg : Nat → Except GErr (Option α)) (f : Nat → Option α) (name : String) (t : Track α)
    (hn : t.has name = false) (h : ∀ i, i < t.xy.length → alg i = .ok (f i)) :
    addAFC alg name t = (.ok ((List.range t.xy.length).map f), t.set name ((List.range t.xy.length).map f)) := by
  have hv := afVals_ok alg f (List.range t.xy.length) (fun i hi => h i (List.mem_range.1 hi))
  unfold addAFC
  simp only [hn, Bool.false_eq_true, if_false, hv, get_set_self, Option.getD_some, List.length_map, List.length_range,
    List.drop_replicate, Nat.sub_self, List.replicate_zero, List.append_nil, set_set_new t name _ _ hn]
  rfl

/-! ### positions -/

theorem pt_of_lt (t : CTrack α) (hz : t.zs.length = t.tr.xy.length) (i : Nat) (hi : i < t.tr.xy.length) :
    t.pt i = some ⟨(t.tr.xy[i]).1, (t.tr.xy[i]).2, t.zs[i]'(hz ▸ hi)⟩ := by
  unfold CTrack.pt
  rw [List.getElem?_eq_getElem hi, List.getElem?_eq_getElem (hz ▸ hi)]

/-- the leg the class defines from fix `i` back to fix `i - 1` (0 outside the track) -/
def legC (t : CTrack α) (i : Nat) : α :=
  match t.pt i, t.pt (i - 1) with
  | some p, some q => dist2C T t.cls p q
  | _, _ => 0

/-- the `ds` value the loop writes at index `i` for a class that defines a distance -/
def dsValC (t : CTrack α) (i : Nat) : Option α := if i = 0 then some 0 else some (legC T t i)

theorem abscC_succ (t : CTrack α) (i : Nat) : abscC T t (i + 1) = abscC T t i + legC T t (i + 1) := by
  simp only [abscC, legC, Nat.add_sub_cancel]
  rfl

theorem dsAlgC_ok (t : CTrack α) (hc : t.cls ≠ .ecef) (hz : t.zs.length = t.tr.xy.length) (i : Nat)
    (hi : i < t.tr.xy.length) : dsAlgC T t i = .ok (dsValC T t i) := by
  unfold dsAlgC dsValC
  by_cases h0 : i = 0
  · simp [h0]
  · have hi' : i - 1 < t.tr.xy.length := by omega
    simp only [h0, if_false, legC, pt_of_lt t hz i hi, pt_of_lt t hz (i - 1) hi']
    cases hcl : t.cls with
    | ecef => exact absurd hcl hc
    | enu => simp [obsDist2D, posDist2D, Except.map]
    | geo => simp [obsDist2D, posDist2D, Except.map]

/-- the integrator on a column `0, leg 1, leg 2, …` returns the prefix sums -/
theorem integLoop_legs (leg S : Nat → α) (hS : ∀ i, S (i + 1) = S i + leg (i + 1)) :
    ∀ m s, integLoop (some (S s)) ((List.range' (s + 1) m).map (fun i => some (leg i)))
        = (List.range' (s + 1) m).map (fun i => some (S i)) := by
  intro m
  induction m with
  | zero => intro s; simp [integLoop]
  | succ m ih =>
    intro s
    simp only [List.range'_succ, List.map_cons, integLoop, oadd]
    rw [← hS s]
    congr 1
    exact ih (s + 1)

theorem integrator_dsValC (t : CTrack α) (n : Nat) :
    integrator ((List.range n).map (dsValC T t)) = (List.range n).map (fun i => some (abscC T t i)) := by
  cases n with
  | zero => simp [integrator]
  | succ k =>
    rw [List.range_eq_range', List.range'_succ]
    simp only [List.map_cons, integrator]
    congr 1
    have h := integLoop_legs (legC T t) (abscC T t) (abscC_succ T t) k 0
    have e : (List.range' (0 + 1) k).map (dsValC T t) = (List.range' (0 + 1) k).map (fun i => some (legC T t i)) := by
      apply List.map_congr_left
      intro i hi
      have : i ≠ 0 := by
        have := (List.mem_range'_1.1 hi).1
        omega
      simp [dsValC, this]
    simpa [e, abscC] using h

/-- `computeAbsCurv` on a track of a class that defines a distance, listing neither `ds` nor `abs_curv` -/
theorem computeAbsCurvC_fresh (t : CTrack α) (hc : t.cls ≠ .ecef) (hz : t.zs.length = t.tr.xy.length)
    (hds : t.tr.has "ds" = false) (hac : t.tr.has "abs_curv" = false) :
    computeAbsCurvC T t
      = (.ok (some ((List.range t.tr.xy.length).map (fun i => some (abscC T t i)))),
         { t with tr := t.tr.set "abs_curv" ((List.range t.tr.xy.length).map (fun i => some (abscC T t i))) }) := by
  have hne : ("ds" : String) ≠ "abs_curv" := by decide
  have hadd := addAFC_fresh_ok (dsAlgC T t) (dsValC T t) "ds" t.tr hds (fun i hi => dsAlgC_ok T t hc hz i hi)
  have h1 : (t.tr.set "ds" ((List.range t.tr.xy.length).map (dsValC T t))).has "abs_curv" = false := by
    rw [has_set_other _ _ _ _ hne]; exact hac
  unfold computeAbsCurvC
  simp only [hds, Bool.false_eq_true, if_false, hadd, Except.map, h1, get_set_self, Option.getD_some, integrator_dsValC]
  -- set abs_curv after set ds, then remove ds  =  set abs_curv
  have hrm : ∀ c : Col α, ((t.tr.set "ds" ((List.range t.tr.xy.length).map (dsValC T t))).set "abs_curv" c).remove "ds"
      = t.tr.set "abs_curv" c := by
    intro c
    have hds' := (has_eq_false_iff t.tr "ds").1 hds
    have hf : t.tr.feats.filter (fun p => !(p.1 == "ds")) = t.tr.feats := by
      rw [List.filter_eq_self]; intro p hp; simpa using hds' p hp
    have e2 : (t.tr.set "ds" ((List.range t.tr.xy.length).map (dsValC T t))).set "abs_curv" c
        = { t.tr with feats := t.tr.feats ++ [("ds", (List.range t.tr.xy.length).map (dsValC T t))] ++ [("abs_curv", c)] } := by
      rw [set_new _ _ _ h1, set_new _ _ _ hds]
    have e3 : t.tr.set "abs_curv" c = { t.tr with feats := t.tr.feats ++ [("abs_curv", c)] } := set_new _ _ _ hac
    rw [e2, e3]
    unfold Track.remove
    simp [List.filter_append, hf]
  rw [hrm, get_set_self]

/-! ### the ENU class is the model of `Model/Cinematics.lean` -/

theorem dsAlgC_enu (zs : List α) (tr : Track α) (hz : zs.length = tr.xy.length) (i : Nat) (hi : i < tr.xy.length) :
    dsAlgC T ⟨.enu, zs, tr⟩ i = .ok (dsAt T.sqrt tr.xy i) := by
  unfold dsAlgC dsAt
  by_cases h0 : i = 0
  · simp [h0]
  · have hi' : i - 1 < tr.xy.length := by omega
    have p1 := pt_of_lt ⟨.enu, zs, tr⟩ hz i hi
    have p0 := pt_of_lt ⟨.enu, zs, tr⟩ hz (i - 1) hi'
    simp only [h0, if_false, p1, p0, List.getElem?_eq_getElem hi, List.getElem?_eq_getElem hi']
    simp [obsDist2D, posDist2D, dist2C, enuDist2D, Except.map]

theorem speedBetweenC_enu (zs : List α) (tr : Track α) (hz : zs.length = tr.xy.length) (a b : Nat) :
    speedBetweenC T ⟨.enu, zs, tr⟩ a b = .ok (speedBetween T.sqrt tr.xy tr.ts a b) := by
  unfold speedBetweenC speedBetween CTrack.pt
  by_cases ha : a < tr.xy.length
  · by_cases hb : b < tr.xy.length
    · have ha' : a < zs.length := hz ▸ ha
      have hb' : b < zs.length := hz ▸ hb
      simp only [List.getElem?_eq_getElem ha, List.getElem?_eq_getElem hb, List.getElem?_eq_getElem ha',
        List.getElem?_eq_getElem hb', posDist2D, dist2C, enuDist2D]
      cases tr.ts[a]? <;> cases tr.ts[b]? <;> rfl
    · have hb' : ¬ b < zs.length := hz ▸ hb
      simp [List.getElem?_eq_none (Nat.le_of_not_lt hb), List.getElem?_eq_none (Nat.le_of_not_lt hb')]
  · have ha' : ¬ a < zs.length := hz ▸ ha
    simp [List.getElem?_eq_none (Nat.le_of_not_lt ha), List.getElem?_eq_none (Nat.le_of_not_lt ha')]

theorem speedAlgC_enu (zs : List α) (tr : Track α) (hz : zs.length = tr.xy.length) (i : Nat) :
    speedAlgC T ⟨.enu, zs, tr⟩ i = .ok (speedAt T.sqrt tr.xy tr.ts i) := by
  unfold speedAlgC speedAt
  simp only [speedBetweenC_enu T zs tr hz]
  split
  · rfl
  · split <;> rfl

theorem computeAbsCurvC_enu (zs : List α) (tr : Track α) (hz : zs.length = tr.xy.length) :
    computeAbsCurvC T ⟨.enu, zs, tr⟩ = (.ok (computeAbsCurv T.sqrt tr).2, ⟨.enu, zs, (computeAbsCurv T.sqrt tr).1⟩) := by
  unfold computeAbsCurvC computeAbsCurv
  by_cases hds : tr.has "ds" = true
  · simp [hds]
  · have hds' : tr.has "ds" = false := by simpa using hds
    have hadd := addAFC_fresh_ok (dsAlgC T ⟨.enu, zs, tr⟩) (dsAt T.sqrt tr.xy) "ds" tr hds'
      (fun i hi => dsAlgC_enu T zs tr hz i hi)
    simp only [hds', Bool.false_eq_true, if_false, hadd, Except.map, dsCol]

theorem estimateSpeedC_enu (zs : List α) (tr : Track α) (hz : zs.length = tr.xy.length) :
    estimateSpeedC T ⟨.enu, zs, tr⟩ = (.ok (estimateSpeed T.sqrt tr).2, ⟨.enu, zs, (estimateSpeed T.sqrt tr).1⟩) := by
  unfold estimateSpeedC estimateSpeed
  by_cases hsp : tr.has "speed" = true
  · simp [hsp]
  · have hsp' : tr.has "speed" = false := by simpa using hsp
    have hadd := addAFC_fresh_ok (speedAlgC T ⟨.enu, zs, tr⟩) (speedAt T.sqrt tr.xy tr.ts) "speed" tr hsp'
      (fun i _ => speedAlgC_enu T zs tr hz i)
    simp only [hsp', Bool.false_eq_true, if_false, hadd, Except.map, speedCol, get_set_self]

/-! ### speed for a class that defines a distance -/

/-- the speed between a later fix `a` and an earlier fix `b` as a value -/
def betweenValC (t : CTrack α) (a b : Nat) : Option α :=
  match t.pt a, t.pt b, t.tr.ts[a]?, t.tr.ts[b]? with
  | some pa, some pb, some ta, some tb => quot (dist2C T t.cls pa pb) (ta - tb)
  | _, _, _, _ => none

/-- the value `analytics.speed(track, i)` returns -/
def speedValC (t : CTrack α) (i : Nat) : Option α :=
  let n := t.tr.xy.length
  if i = 0 then betweenValC T t 1 0
  else if i = n - 1 then betweenValC T t (n - 1) (n - 2)
  else betweenValC T t (i + 1) (i - 1)

theorem speedBetweenC_ok (t : CTrack α) (hc : t.cls ≠ .ecef) (a b : Nat) :
    speedBetweenC T t a b = .ok (betweenValC T t a b) := by
  unfold speedBetweenC betweenValC
  cases t.pt a with
  | none => rfl
  | some pa =>
    cases t.pt b with
    | none => rfl
    | some pb =>
      cases hcl : t.cls with
      | ecef => exact absurd hcl hc
      | enu => simp only [posDist2D]; cases t.tr.ts[a]? <;> cases t.tr.ts[b]? <;> rfl
      | geo => simp only [posDist2D]; cases t.tr.ts[a]? <;> cases t.tr.ts[b]? <;> rfl

theorem speedAlgC_ok (t : CTrack α) (hc : t.cls ≠ .ecef) (i : Nat) : speedAlgC T t i = .ok (speedValC T t i) := by
  unfold speedAlgC speedValC
  simp only [speedBetweenC_ok T t hc]
  split
  · rfl
  · split <;> rfl

theorem estimateSpeedC_fresh (t : CTrack α) (hc : t.cls ≠ .ecef) (hsp : t.tr.has "speed" = false) :
    estimateSpeedC T t
      = (.ok (some ((List.range t.tr.xy.length).map (speedValC T t))),
         { t with tr := t.tr.set "speed" ((List.range t.tr.xy.length).map (speedValC T t)) }) := by
  have hadd := addAFC_fresh_ok (speedAlgC T t) (speedValC T t) "speed" t.tr hsp (fun i _ => speedAlgC_ok T t hc i)
  unfold estimateSpeedC
  simp only [hsp, Bool.false_eq_true, if_false, hadd, Except.map]

theorem betweenValC_eq (t : CTrack α) (a b : Nat) (pa pb : V3 α) (hpa : t.pt a = some pa) (hpb : t.pt b = some pb)
    (ha : a < t.tr.ts.length) (hb : b < t.tr.ts.length) :
    betweenValC T t a b = quot (dist2C T t.cls pa pb) (t.tr.ts[a] - t.tr.ts[b]) := by
  unfold betweenValC
  rw [hpa, hpb, List.getElem?_eq_getElem ha, List.getElem?_eq_getElem hb]

/-! ### ECEF tracks: the computation is refused, a column of zeros stays behind -/

theorem range_two (k : Nat) : List.range (k + 2) = 0 :: 1 :: (List.range' 2 k) := by
  rw [List.range_eq_range', List.range'_succ, List.range'_succ]

theorem computeAbsCurvC_ecef (t : CTrack α) (hc : t.cls = .ecef) (hz : t.zs.length = t.tr.xy.length)
    (h2 : 2 ≤ t.tr.xy.length) (hds : t.tr.has "ds" = false) :
    computeAbsCurvC T t
      = (.error .refused, { t with tr := t.tr.set "ds" (List.replicate t.tr.xy.length (some 0)) }) := by
  obtain ⟨k, hk⟩ : ∃ k, t.tr.xy.length = k + 2 := ⟨t.tr.xy.length - 2, by omega⟩
  have a0 : dsAlgC T t 0 = .ok (some 0) := by simp [dsAlgC]
  have a1 : dsAlgC T t 1 = .error .refused := by
    unfold dsAlgC
    simp only [Nat.one_ne_zero, if_false, Nat.sub_self, pt_of_lt t hz 1 (by omega), pt_of_lt t hz 0 (by omega), hc]
    rfl
  have hv : afVals (dsAlgC T t) (List.range (k + 2)) = (.error .refused, [some 0]) := by
    rw [range_two]; simp [afVals, a0, a1]
  unfold computeAbsCurvC addAFC
  simp only [hds, Bool.false_eq_true, if_false, hk, hv, get_set_self, Option.getD_some, Except.map]
  rw [← hk, set_set_new _ _ _ _ hds]
  congr 3
  rw [hk]
  simp [List.replicate_succ]

theorem estimateSpeedC_ecef (t : CTrack α) (hc : t.cls = .ecef) (hz : t.zs.length = t.tr.xy.length)
    (h2 : 2 ≤ t.tr.xy.length) (hsp : t.tr.has "speed" = false) :
    estimateSpeedC T t
      = (.error .attr, { t with tr := t.tr.set "speed" (List.replicate t.tr.xy.length (some 0)) }) := by
  obtain ⟨k, hk⟩ : ∃ k, t.tr.xy.length = k + 2 := ⟨t.tr.xy.length - 2, by omega⟩
  have a0 : speedAlgC T t 0 = .error .attr := by
    unfold speedAlgC speedBetweenC
    simp only [if_true, pt_of_lt t hz 1 (by omega), pt_of_lt t hz 0 (by omega), hc]
    rfl
  have hv : afVals (speedAlgC T t) (List.range (k + 2)) = (.error .attr, []) := by
    rw [range_two]; simp [afVals, a0]
  unfold estimateSpeedC addAFC
  simp only [hsp, Bool.false_eq_true, if_false, hk, hv, get_set_self, Option.getD_some, Except.map]
  rw [← hk, set_set_new _ _ _ _ hsp]
  simp

theorem curvAbsC_ecef (t : CTrack α) (hc : t.cls = .ecef) (hz : t.zs.length = t.tr.xy.length)
    (h2 : 2 ≤ t.tr.xy.length) : curvAbsC T t = .error .attr := by
  obtain ⟨k, hk⟩ : ∃ k, t.tr.xy.length = k + 2 := ⟨t.tr.xy.length - 2, by omega⟩
  unfold curvAbsC
  rw [hk, show k + 2 - 1 = k + 1 by omega, List.range_succ_eq_map]
  simp only [curvLoopC, pt_of_lt t hz 0 (by omega), pt_of_lt t hz 1 (by omega), hc]
  rfl

/-! ### purity -/

theorem addAFC_frame (alg : Nat → Except GErr (Option α)) (name : String) (t : Track α) :
    (addAFC alg name t).2.xy = t.xy ∧ (addAFC alg name t).2.ts = t.ts
      ∧ ∀ m, m ≠ name → (addAFC alg name t).2.get m = t.get m := by
  unfold addAFC
  refine ⟨?_, ?_, ?_⟩
  · simp only [(set_xy _ _ _).1]; split <;> simp [(set_xy _ _ _).1]
  · simp only [(set_xy _ _ _).2]; split <;> simp [(set_xy _ _ _).2]
  · intro m hm
    simp only
    rw [get_set_other _ _ _ _ (fun e => hm e.symm)]
    split
    · rfl
    · rw [get_set_other _ _ _ _ (fun e => hm e.symm)]

theorem computeAbsCurvC_frame (t : CTrack α) :
    (computeAbsCurvC T t).2.cls = t.cls ∧ (computeAbsCurvC T t).2.zs = t.zs
      ∧ (computeAbsCurvC T t).2.tr.xy = t.tr.xy ∧ (computeAbsCurvC T t).2.tr.ts = t.tr.ts
      ∧ ∀ m, m ≠ "ds" → m ≠ "abs_curv" → (computeAbsCurvC T t).2.tr.get m = t.tr.get m := by
  have hf := addAFC_frame (dsAlgC T t) "ds" t.tr
  unfold computeAbsCurvC
  by_cases hds : t.tr.has "ds" = true
  · simp only [hds, if_true]
    refine ⟨by first | rfl | trivial, by first | rfl | trivial, ?_, ?_, ?_⟩
    · simp only [Track.remove]; split <;> simp [(set_xy _ _ _).1]
    · simp only [Track.remove]; split <;> simp [(set_xy _ _ _).2]
    · intro m h1 h2
      rw [get_remove_other _ _ _ (fun e => h1 e.symm)]
      split
      · rfl
      · rw [get_set_other _ _ _ _ (fun e => h2 e.symm)]
  · simp only [hds, Bool.false_eq_true, if_false]
    cases hr : (addAFC (dsAlgC T t) "ds" t.tr).1 with
    | error e =>
      simp only [Except.map]
      exact ⟨by first | rfl | trivial, by first | rfl | trivial, hf.1, hf.2.1, fun m h1 _ => hf.2.2 m h1⟩
    | ok c =>
      simp only [Except.map]
      refine ⟨by first | rfl | trivial, by first | rfl | trivial, ?_, ?_, ?_⟩
      · simp only [Track.remove]; split <;> simp [(set_xy _ _ _).1, hf.1]
      · simp only [Track.remove]; split <;> simp [(set_xy _ _ _).2, hf.2.1]
      · intro m h1 h2
        rw [get_remove_other _ _ _ (fun e => h1 e.symm)]
        split
        · exact hf.2.2 m h1
        · rw [get_set_other _ _ _ _ (fun e => h2 e.symm)]; exact hf.2.2 m h1

theorem estimateSpeedC_frame (t : CTrack α) :
    (estimateSpeedC T t).2.cls = t.cls ∧ (estimateSpeedC T t).2.zs = t.zs
      ∧ (estimateSpeedC T t).2.tr.xy = t.tr.xy ∧ (estimateSpeedC T t).2.tr.ts = t.tr.ts
      ∧ ∀ m, m ≠ "speed" → (estimateSpeedC T t).2.tr.get m = t.tr.get m := by
  have hf := addAFC_frame (speedAlgC T t) "speed" t.tr
  unfold estimateSpeedC
  split
  · exact ⟨rfl, rfl, rfl, rfl, fun _ _ => rfl⟩
  · exact ⟨rfl, rfl, hf.1, hf.2.1, hf.2.2⟩

end progs

/-! ### the Geo distance over the reals -/
section real
open Real

/-- the rotation into the local frame preserves the length of the chord -/
theorem ecefToEnu_norm (T : Trig ℝ) (hT : Pyth T) (p : V3 ℝ) (b : TV.Geo.Base ℝ) :
    (ecefToEnu T p b).x ^ 2 + (ecefToEnu T p b).y ^ 2 + (ecefToEnu T p b).z ^ 2
      = (p.x - (b.toEcef T).x) ^ 2 + (p.y - (b.toEcef T).y) ^ 2 + (p.z - (b.toEcef T).z) ^ 2 := by
  have h1 := hT ((TV.Geo.ecefToGeo T (b.toEcef T)).x * T.pi / 180.0)
  have h2 := hT ((TV.Geo.ecefToGeo T (b.toEcef T)).y * T.pi / 180.0)
  simp only [ecefToEnu]
  linear_combination
    (((p.x - (b.toEcef T).x) * T.cos ((TV.Geo.ecefToGeo T (b.toEcef T)).x * T.pi / 180.0)
        + (p.y - (b.toEcef T).y) * T.sin ((TV.Geo.ecefToGeo T (b.toEcef T)).x * T.pi / 180.0)) ^ 2
      + (p.z - (b.toEcef T).z) ^ 2) * h2
    + ((p.x - (b.toEcef T).x) ^ 2 + (p.y - (b.toEcef T).y) ^ 2) * h1

end real
end TV.CinCoords
