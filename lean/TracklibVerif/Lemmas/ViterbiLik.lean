import TracklibVerif.Lemmas.ViterbiTable
import Mathlib.Analysis.SpecialFunctions.Log.Basic
/-! Likelihood form of the Viterbi cost (C09-T4), over the reals: with the tables `HMM.estimate` builds from
likelihoods, `cost = -log (joint likelihood)`, so a minimal cost is a maximal joint likelihood. -/
namespace TV.Viterbi

/-- the cost tables of `HMM.estimate` for user functions `P`, `Q` read from `p`, `q`: entries are
`costOf log eps isLog v`, i.e. `-(log (v + eps))` (`eps` = the `1e-300` guard), or `-v` when `log=True` -/
noncomputable def likTables (n : Nat → Nat) (p : Nat → Nat → ℝ) (q : Nat → Nat → Nat → ℝ)
    (eps big : ℝ) (isLog : Bool) : Tables ℝ :=
  { n := n
    obs := fun k l => costOf Real.log eps isLog (p k l)
    trans := fun k m l => costOf Real.log eps isLog (q k m l)
    add := (· + ·)
    big := big }

/-- joint likelihood of the sequence `σ` up to epoch `k` (each factor with the guard `eps` added, as the
code does; `eps = 0` gives the plain product `P₀ · Π Q_k · P_{k+1}`) -/
noncomputable def lik (p : Nat → Nat → ℝ) (q : Nat → Nat → Nat → ℝ) (eps : ℝ) (σ : Nat → Nat) : Nat → ℝ
  | 0 => p 0 (σ 0) + eps
  | k+1 => (q k (σ k) (σ (k+1)) + eps) * lik p q eps σ k * (p (k+1) (σ (k+1)) + eps)

variable (n : Nat → Nat) (p : Nat → Nat → ℝ) (q : Nat → Nat → Nat → ℝ) (eps big : ℝ) (N : Nat)

theorem lik_pos (hp : ∀ k l, k ≤ N → l < n k → 0 < p k l + eps)
    (hq : ∀ k m l, k < N → m < n k → l < n (k+1) → 0 < q k m l + eps)
    (σ : Nat → Nat) (hσ : ∀ k, k ≤ N → σ k < n k) : ∀ k, k ≤ N → 0 < lik p q eps σ k := by
  intro k
  induction k with
  | zero => intro hk; exact hp 0 (σ 0) hk (hσ 0 hk)
  | succ k ih =>
    intro hk
    simp only [lik]
    exact mul_pos (mul_pos (hq k (σ k) (σ (k+1)) (by omega) (hσ k (by omega)) (hσ (k+1) hk)) (ih (by omega)))
      (hp (k+1) (σ (k+1)) hk (hσ (k+1) hk))

theorem cost_eq_neg_log (hp : ∀ k l, k ≤ N → l < n k → 0 < p k l + eps)
    (hq : ∀ k m l, k < N → m < n k → l < n (k+1) → 0 < q k m l + eps)
    (σ : Nat → Nat) (hσ : ∀ k, k ≤ N → σ k < n k) :
    ∀ k, k ≤ N → cost (likTables n p q eps big false) σ k = - Real.log (lik p q eps σ k) := by
  intro k
  induction k with
  | zero => intro _; simp [cost, likTables, costOf, lik]
  | succ k ih =>
    intro hk
    have h1 := hq k (σ k) (σ (k+1)) (by omega) (hσ k (by omega)) (hσ (k+1) hk)
    have h2 := lik_pos n p q eps N hp hq σ hσ k (by omega)
    have h3 := hp (k+1) (σ (k+1)) hk (hσ (k+1) hk)
    simp only [cost, lik]
    rw [ih (by omega), Real.log_mul (ne_of_gt (mul_pos h1 h2)) (ne_of_gt h3),
      Real.log_mul (ne_of_gt h1) (ne_of_gt h2)]
    simp only [likTables, costOf]
    simp
    ring

/-- for two candidate sequences: smaller cost ⇔ larger joint likelihood -/
theorem cost_le_iff_lik_ge (hp : ∀ k l, k ≤ N → l < n k → 0 < p k l + eps)
    (hq : ∀ k m l, k < N → m < n k → l < n (k+1) → 0 < q k m l + eps)
    (σ τ : Nat → Nat) (hσ : ∀ k, k ≤ N → σ k < n k) (hτ : ∀ k, k ≤ N → τ k < n k) :
    cost (likTables n p q eps big false) σ N ≤ cost (likTables n p q eps big false) τ N
      ↔ lik p q eps τ N ≤ lik p q eps σ N := by
  rw [cost_eq_neg_log n p q eps big N hp hq σ hσ N (Nat.le_refl _),
    cost_eq_neg_log n p q eps big N hp hq τ hτ N (Nat.le_refl _), neg_le_neg_iff]
  exact Real.log_le_log_iff (lik_pos n p q eps N hp hq τ hτ N (Nat.le_refl _))
    (lik_pos n p q eps N hp hq σ hσ N (Nat.le_refl _))

/-- a user who passes `log (v + eps)` and declares `log=True` gives `estimate` exactly the same cost tables -/
theorem likTables_log (eps' : ℝ) :
    likTables n (fun k l => Real.log (p k l + eps)) (fun k m l => Real.log (q k m l + eps)) eps' big true
      = likTables n p q eps big false := by
  simp [likTables, costOf]
end TV.Viterbi
