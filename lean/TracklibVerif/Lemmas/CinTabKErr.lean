import TracklibVerif.Lemmas.CinTabK
/-! A class of position objects WITHOUT a planimetric distance (`ECEFCoords`) on the feature table: the exception path
of `addAnalyticalFeature` through the Track API, from the laws of a feature table. `Obs.distance2DTo` refuses at fix 1
(fix 0 needs no distance: `ds(track, 0) = 0`), the exception is not an `IndexError`, so the loop ends there: the column
`ds` created before the loop stays listed, its first value is the `0` written at fix 0, nothing else changed. -/
namespace TV.CinTabK
open TV.Features TV.CinTab

variable {σ V : Type} [Tbl σ V]
variable {I : σ → Prop} {n : σ → Nat} {rd : σ → String → Option (List V)} {co : σ → Coord → List V}

theorem catchIndex_err {α : Type} {m : M σ α} {d : α} {s s' : σ} {e : Err} (h : m s = (.error e, s')) (hne : e ≠ .index) :
    (M.catchIndex m d) s = (.error e, s') := by
  unfold M.catchIndex
  rw [h]
  cases e <;> first | rfl | exact absurd rfl hne

theorem range_two (k : Nat) : List.range (k + 2) = 0 :: 1 :: (List.range k).map (· + 2) := by
  rw [List.range_succ_eq_map, List.range_succ_eq_map]
  simp [List.map_map, Function.comp_def]

/-- `addAnalyticalFeature(ds, "ds")` on a track of `≥ 2` fixes whose class is refused by `Obs.distance2DTo`
(`K.refuse = some e`, `e` not an `IndexError`) and that does not list `ds`: the call ends in `e`; afterwards `ds` IS
listed (created before the loop), its value at fix 0 is the `0` computed there, every other name, the coordinates, the
times, the number of fixes and the invariant are unchanged. -/
theorem dsFeatureK_refused (L : Laws I n rd co) (g : GOps V) (K : Kernel V) (e : Err) (he : K.refuse = some e)
    (hne : e ≠ .index) (s : σ) (hI : I s) (hN : 2 ≤ n s) (hds : rd s "ds" = none) :
    ∃ s' col, (addAFfn g.toOps (dsAlgK g K) "ds" : M σ (List V)) s = (.error e, s') ∧ I s' ∧ n s' = n s ∧ co s' = co s
      ∧ rd s' "ds" = some col ∧ col[0]? = some g.zero ∧ ∀ m, m ≠ "ds" → rd s' m = rd s m := by
  have rds : reserved "ds" = false := by decide
  obtain ⟨s1, col, e1, hI1, hrd1, hn1, hoth1, hco1⟩ := L.create_new s "ds" g.zero hI rds hds (by omega)
  have hlen : col.length = n s1 := L.rd_len s1 "ds" col hI1 hrd1
  obtain ⟨s2, e2, hI2, hrd2, hn2, hoth2, hco2⟩ := L.setObs s1 "ds" col 0 g.zero hI1 rds hrd1 (by omega)
  refine ⟨s2, col.set 0 g.zero, ?_, hI2, by rw [hn2, hn1], by rw [hco2, hco1], hrd2, ?_,
    fun m hm => by rw [hoth2 m hm, hoth1 m hm]⟩
  · unfold addAFfn
    simp only [rds, Bool.false_eq_true, if_false]
    rw [bind_ok_eq (L.has s "ds" hI rds), hds]
    simp only [Option.isSome_none, Bool.not_false, if_true]
    rw [bind_ok_eq e1, bind_ok_eq (L.size s1)]
    apply bind_err_eq
    unfold afLoop
    obtain ⟨k, hk⟩ : ∃ k, n s1 = k + 2 := ⟨n s1 - 2, by omega⟩
    rw [hk, range_two]
    unfold M.forEach
    -- fix 0: `ds(track, 0) = 0` is written
    have h0 : (M.catchIndex (dsAlgK g K 0) g.toOps.nan >>= fun v => (Tbl.setObs "ds" 0 v : M σ Unit)) s1 = (.ok (), s2) := by
      have : (M.catchIndex (dsAlgK g K 0 : M σ V) g.toOps.nan) s1 = (.ok g.zero, s1) := rfl
      rw [bind_ok_eq this]
      exact e2
    rw [bind_ok_eq h0]
    -- fix 1: refused
    unfold M.forEach
    apply bind_err_eq
    apply bind_err_eq
    apply catchIndex_err _ hne
    have h1 : (1 : Nat) < n s2 := by rw [hn2]; omega
    have h0' : (0 : Nat) < n s2 := by omega
    show (obsDistT g K 1 (1 - 1) : M σ V) s2 = _
    obtain ⟨p, hp, _⟩ := fetch2_read L g s2 hI2 1 0 h1 h0'
    rw [show (1 : Nat) - 1 = 0 from rfl, obsDistT_read L g K s2 hI2 1 0 h1 h0']
    unfold obsF Kernel.obs
    rw [hp, he]
  · have : 0 < col.length := by omega
    simp [this]

/-- `computeAbsCurv` on such a track (no `ds` listed): it ends in the refusal before anything else is done — same final
table as `dsFeatureK_refused`: a `ds` column stays on the track, no `abs_curv` is created. -/
theorem computeAbsCurvK_refused (L : Laws I n rd co) (g : GOps V) (K : Kernel V) (e : Err) (he : K.refuse = some e)
    (hne : e ≠ .index) (s : σ) (hI : I s) (hN : 2 ≤ n s) (hds : rd s "ds" = none) :
    ∃ s' col, (computeAbsCurvK g K : M σ (List V)) s = (.error e, s') ∧ I s' ∧ n s' = n s ∧ co s' = co s
      ∧ rd s' "ds" = some col ∧ col[0]? = some g.zero ∧ ∀ m, m ≠ "ds" → rd s' m = rd s m := by
  have rds : reserved "ds" = false := by decide
  obtain ⟨s', col, e1, h⟩ := dsFeatureK_refused L g K e he hne s hI hN hds
  refine ⟨s', col, ?_, h⟩
  unfold computeAbsCurvK computeAbsCurvG
  apply bind_err_eq
  unfold ensureDsG
  rw [bind_ok_eq (L.has s "ds" hI rds), hds]
  simp only [Option.isSome_none, Bool.not_false, if_true]
  exact bind_err_eq e1

/-- `estimate_speed` on a track of `≥ 2` fixes whose class has no `distance2DTo` (`K.pos` raises `e`, not an
`IndexError`) and that does not list `speed`: the call ends in `e` at fix 0; a `speed` column (whatever `create` put
there) stays listed, nothing else changed. -/
theorem estimateSpeedK_attr (L : Laws I n rd co) (g : GOps V) (K : Kernel V) (e : Err)
    (he : ∀ a b c d x y, K.pos a b c d x y = .error e) (hne : e ≠ .index) (s : σ) (hI : I s) (hN : 2 ≤ n s)
    (hsp : rd s "speed" = none) :
    ∃ s' col, (estimateSpeedK g K : M σ (List V)) s = (.error e, s') ∧ I s' ∧ n s' = n s ∧ co s' = co s
      ∧ rd s' "speed" = some col ∧ ∀ m, m ≠ "speed" → rd s' m = rd s m := by
  have rsp : reserved "speed" = false := by decide
  obtain ⟨s1, col, e1, hI1, hrd1, hn1, hoth1, hco1⟩ := L.create_new s "speed" g.zero hI rsp hsp (by omega)
  refine ⟨s1, col, ?_, hI1, hn1, hco1, hrd1, hoth1⟩
  unfold estimateSpeedK estimateSpeedG
  rw [bind_ok_eq (L.has s "speed" hI rsp), hsp]
  simp only [Option.isSome_none, Bool.false_eq_true, if_false]
  unfold addAFfn
  simp only [rsp, Bool.false_eq_true, if_false]
  rw [bind_ok_eq (L.has s "speed" hI rsp), hsp]
  simp only [Option.isSome_none, Bool.not_false, if_true]
  rw [bind_ok_eq e1, bind_ok_eq (L.size s1)]
  apply bind_err_eq
  unfold afLoop
  obtain ⟨k, hk⟩ : ∃ k, n s1 = k + 2 := ⟨n s1 - 2, by omega⟩
  rw [hk, range_two]
  unfold M.forEach
  apply bind_err_eq
  apply bind_err_eq
  apply catchIndex_err _ hne
  have h1 : (1 : Nat) < n s1 := by omega
  have h0' : (0 : Nat) < n s1 := by omega
  show (speedBetweenK g K 1 0 : M σ V) s1 = _
  unfold speedBetweenK
  apply bind_err_eq
  obtain ⟨p, hp, _⟩ := fetch2_read L g s1 hI1 1 0 h1 h0'
  rw [posDistT_read L g K s1 hI1 1 0 h1 h0']
  unfold posF
  rw [hp]
  simp only [he]

end TV.CinTabK
