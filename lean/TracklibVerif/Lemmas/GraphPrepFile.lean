import TracklibVerif.Model.GraphPrepFile
/-! `save_prep` / `load_prep`: the two methods agree on the path; a file keeps the table it was written with; the round trip. -/
namespace TV.Graph
variable {W : Type}

theorem lastFour_append_npy (f : List Char) : lastFour (f ++ npy) = npy := by
  unfold lastFour
  have h : (f ++ npy).length - 4 = f.length := by simp [npy]
  rw [h]
  exact List.drop_left' rfl

theorem lastFour_short (f : List Char) (h : f.length < 4) : lastFour f ≠ npy := by
  intro e
  have hl := congrArg List.length e
  simp only [lastFour, List.length_drop, npy, List.length_cons, List.length_nil] at hl
  omega

/-- `load_prep` reads the very path `np.save` wrote, for every file name (with or without the extension, shorter than four
characters, `".npy"` itself, …) -/
theorem loadName_eq_saveName (f : List Char) : loadName f = saveName f := by
  unfold loadName saveName
  by_cases h : f.length < 4
  · simp only [h, if_true, lastFour_append_npy, ne_eq, not_true_eq_false, if_false, lastFour_short f h]
  · simp only [h, if_false]
    by_cases e : lastFour f = npy
    · simp [e]
    · simp [e]

/-- a saved name is stable: saving under `saveName f` writes the same path -/
theorem saveName_idem (f : List Char) : saveName (saveName f) = saveName f := by
  unfold saveName
  by_cases e : lastFour f = npy
  · simp [e]
  · simp [e, lastFour_append_npy]

variable [LT W] [DecidableLT W] [Add W] [OfNat W 0]

/-- the ops of a program that leave the file `name` alone -/
def keepsFile (name : List Char) : FOp W → Prop
  | .save g => saveName g ≠ name
  | _ => True

theorem execF_findFile (x : SessF W) (op : FOp W) (name : List Char) (h : keepsFile name op) :
    findFile (execF x op).1.files name = findFile x.files name := by
  cases op with
  | call op => rfl
  | save g =>
    simp only [execF]
    cases x.sess.prep with
    | none => rfl
    | some tb =>
      simp only [findFile]
      rw [if_neg h]
  | load g =>
    simp only [execF]
    cases findFile x.files (loadName g) <;> rfl

theorem afterF_findFile (x : SessF W) (ops : List (FOp W)) (name : List Char) (h : ∀ op ∈ ops, keepsFile name op) :
    findFile (afterF x ops).files name = findFile x.files name := by
  induction ops generalizing x with
  | nil => rfl
  | cons op rest ih =>
    simp only [afterF]
    rw [ih (execF x op).1 (fun o ho => h o (List.mem_cons_of_mem _ ho))]
    exact execF_findFile x op name (h op List.mem_cons_self)

/-- `save_prep(f)` on an object that has a table: the table goes to the file, the object is unchanged -/
theorem execF_save (x : SessF W) (f : List Char) (tb : Table W) (h : x.sess.prep = some tb) :
    execF x (.save f) = ({ x with files := (saveName f, tb) :: x.files }, .unit) := by
  simp only [execF, h]

/-- **round trip.** `save_prep(f)` in a state with `DISTANCES = tb`, then any calls (searches, `prepare` with other cut-offs, new
edges, `load_prep` of other files, `save_prep` to other paths), then `load_prep(f')` with a name that designates the same path
(`f' = f`, or one of them without the `.npy`): `DISTANCES` is `tb` again, whatever it was in between. -/
theorem load_restores (x : SessF W) (f f' : List Char) (tb : Table W) (h : x.sess.prep = some tb) (ops : List (FOp W))
    (hk : ∀ op ∈ ops, keepsFile (saveName f) op) (hf : saveName f' = saveName f) :
    let y := afterF (execF x (.save f)).1 ops
    execF y (.load f') = ({ y with sess := { y.sess with prep := some tb } }, .unit) := by
  intro y
  have hfind : findFile y.files (loadName f') = some tb := by
    rw [loadName_eq_saveName, hf]
    show findFile (afterF (execF x (.save f)).1 ops).files (saveName f) = some tb
    rw [afterF_findFile _ ops _ hk, execF_save x f tb h]
    simp [findFile]
  simp only [execF, hfind]

/-- … in particular `save_prep(f); load_prep(f)` is the identity on the object (the model `Op.saveLoad` of the world and family
streams), and `prepared_shortest_distance` / `has_prepared_shortest_distance` answer after it as before, for every pair -/
theorem save_load_identity (x : SessF W) (f : List Char) (tb : Table W) (h : x.sess.prep = some tb) :
    (execF (execF x (.save f)).1 (.load f)).1.sess = x.sess ∧
    (execF (execF x (.save f)).1 (.load f)).2 = .unit ∧ (execF x (.save f)).2 = .unit ∧
    (exec x.sess .saveLoad) = (x.sess, .unit) := by
  have e := load_restores x f f tb h [] (by intro op ho; cases ho) rfl
  simp only [afterF] at e
  refine ⟨?_, ?_, ?_, ?_⟩
  · rw [e, execF_save x f tb h]
    obtain ⟨σ, fs⟩ := x
    obtain ⟨a, b, c, d, u⟩ := σ
    simp only at h
    subst h
    rfl
  · rw [e]
  · rw [execF_save x f tb h]
  · simp only [exec, h]
end TV.Graph
