import TracklibVerif.Lemmas.SimplifyGeom
import TracklibVerif.Lemmas.SimplifyDepth
/-! The witness of the finding `dp-recursion-depth`, as a family of tracks over a linearly ordered field with an exact square root:
`n` fixes on the y-axis, `y_j = (−1)^j · (n − j)` (a collinear oscillation around the origin with linearly decreasing amplitude).
At every level of `douglas_peucker` the farthest fix from the chord is `L[1]` (all later fixes lie inside the chord or nearer to its
second end), it is at least `1` away, and the split `L[0:1] / L[1:n]` peels one fix: `PeelOne`, hence the recursion is exactly
`n − 2` levels deep for every tolerance `0 < eps <= 1`. -/
namespace TV.Simplify
set_option linter.unusedSectionVars false
set_option linter.unusedVariables false
variable {α : Type} [Field α] [LinearOrder α] [IsStrictOrderedRing α]

/-- the oscillation: `m` fixes on the y-axis, tags `k, k+1, …`, ordinates `s·m, −s·(m−1), s·(m−2), …, ±s·1` -/
def osc (s : α) : Nat → Nat → List (Fix α)
  | 0, _ => []
  | m + 1, k => ⟨k, 0, s * ((m + 1 : Nat) : α)⟩ :: osc (-s) m (k + 1)

theorem osc_length (s : α) (m k : Nat) : (osc s m k).length = m := by
  induction m generalizing s k with
  | zero => rfl
  | succ m ih => simp only [osc, List.length_cons, ih]

/-- every fix of the oscillation is on the y-axis, its ordinate within the first amplitude -/
theorem osc_bound (s : α) (hs : s * s = 1) (m k : Nat) :
    ∀ x ∈ osc s m k, x.x = 0 ∧ -(m : α) ≤ s * x.y ∧ s * x.y ≤ (m : α) := by
  induction m generalizing s k with
  | zero => intro x hx; simp [osc] at hx
  | succ m ih =>
    intro x hx
    simp only [osc, List.mem_cons] at hx
    have hm : (0 : α) ≤ (m : α) := Nat.cast_nonneg m
    rcases hx with rfl | hx
    · refine ⟨rfl, ?_, ?_⟩
      · simp only
        have : s * (s * ((m + 1 : Nat) : α)) = ((m + 1 : Nat) : α) := by rw [← mul_assoc, hs, one_mul]
        rw [this]; push_cast; linarith
      · simp only
        have : s * (s * ((m + 1 : Nat) : α)) = ((m + 1 : Nat) : α) := by rw [← mul_assoc, hs, one_mul]
        rw [this]
    · obtain ⟨a, b, c⟩ := ih (-s) (by rw [neg_mul_neg]; exact hs) (k + 1) x hx
      refine ⟨a, ?_, ?_⟩
      · push_cast; have : s * x.y = -(-s * x.y) := by ring
        linarith
      · push_cast; have : s * x.y = -(-s * x.y) := by ring
        linarith

theorem q2_axis (s : α) (hs : s * s = 1) (y0 y1 y2 t : α) :
    q2 0 y0 0 y1 0 y2 t = (s * y0 - (s * y1 + t * (s * y2 - s * y1))) * (s * y0 - (s * y1 + t * (s * y2 - s * y1))) := by
  unfold q2
  linear_combination (-((y0 - (y1 + t * (y2 - y1))) * (y0 - (y1 + t * (y2 - y1))))) * hs

/-- a point of the axis beyond the chord's second end (seen along the direction `s`) is at least that far from the chord -/
theorem axis_core (sqrt : α → α) (hq : SqrtOK sqrt) (s : α) (hs : s * s = 1) (ya yb y1 : α)
    (h1 : s * y1 ≤ s * yb) (h2 : s * yb ≤ s * ya) :
    s * yb - s * y1 ≤ distanceToSegment sqrt 0 y1 0 ya 0 yb := by
  obtain ⟨h0, ⟨t, ht0, ht1, he⟩, _⟩ := dist_seg_spec sqrt hq 0 y1 0 ya 0 yb
  rw [q2_axis s hs] at he
  generalize distanceToSegment sqrt 0 y1 0 ya 0 yb = d at h0 he ⊢
  have hw : s * yb - s * y1 ≤ (s * ya + t * (s * yb - s * ya)) - s * y1 := by
    nlinarith [mul_nonneg (sub_nonneg.mpr ht1) (sub_nonneg.mpr h2)]
  by_contra hlt
  replace hlt := not_le.mp hlt
  have hc0 : 0 ≤ s * yb - s * y1 := by linarith
  have l1 := mul_self_lt_mul_self h0 hlt
  have l2 := mul_self_le_mul_self hc0 hw
  have e2 : (s * y1 - (s * ya + t * (s * yb - s * ya))) * (s * y1 - (s * ya + t * (s * yb - s * ya))) =
      ((s * ya + t * (s * yb - s * ya)) - s * y1) * ((s * ya + t * (s * yb - s * ya)) - s * y1) := by ring
  linarith

/-- … and no point of the axis between it and the chord's first end is farther -/
theorem axis_le (sqrt : α → α) (hq : SqrtOK sqrt) (s : α) (hs : s * s = 1) (ya yb y1 yx : α)
    (h1 : s * y1 ≤ s * yb) (hlt : s * yb < s * ya) (h3 : s * y1 ≤ s * yx) (h4 : s * yx ≤ s * ya) :
    distanceToSegment sqrt 0 yx 0 ya 0 yb ≤ distanceToSegment sqrt 0 y1 0 ya 0 yb := by
  have hc := axis_core sqrt hq s hs ya yb y1 h1 hlt.le
  obtain ⟨hd1, _, _⟩ := dist_seg_spec sqrt hq 0 y1 0 ya 0 yb
  obtain ⟨hx0, _, hmin⟩ := dist_seg_spec sqrt hq 0 yx 0 ya 0 yb
  generalize distanceToSegment sqrt 0 y1 0 ya 0 yb = d1 at hc hd1 ⊢
  generalize distanceToSegment sqrt 0 yx 0 ya 0 yb = dx at hx0 hmin ⊢
  by_cases hin : s * yb ≤ s * yx
  · have hd : 0 < s * ya - s * yb := by linarith
    have ht0 : 0 ≤ (s * ya - s * yx) / (s * ya - s * yb) := div_nonneg (by linarith) hd.le
    have ht1 : (s * ya - s * yx) / (s * ya - s * yb) ≤ 1 := (div_le_one hd).mpr (by linarith)
    have hm := hmin _ ht0 ht1
    rw [q2_axis s hs] at hm
    have hcancel : (s * ya - s * yx) / (s * ya - s * yb) * (s * ya - s * yb) = s * ya - s * yx := div_mul_cancel₀ _ hd.ne'
    have hz : s * yx - (s * ya + (s * ya - s * yx) / (s * ya - s * yb) * (s * yb - s * ya)) = 0 := by
      linear_combination hcancel
    rw [hz, mul_zero] at hm
    have : dx = 0 := mul_self_eq_zero.mp (le_antisymm hm (mul_self_nonneg _))
    rw [this]; exact hd1
  · replace hin := not_le.mp hin
    have hm := hmin 1 zero_le_one le_rfl
    rw [q2_axis s hs] at hm
    by_contra hgt
    replace hgt := not_le.mp hgt
    have l1 := mul_self_lt_mul_self hd1 hgt
    have hc' : s * yb - s * yx ≤ d1 := by linarith
    have l2 := mul_self_le_mul_self (by linarith : 0 ≤ s * yb - s * yx) hc'
    have e2 : (s * yx - (s * ya + 1 * (s * yb - s * ya))) * (s * yx - (s * ya + 1 * (s * yb - s * ya))) =
        (s * yb - s * yx) * (s * yb - s * yx) := by ring
    linarith

/-- the oscillation peels one fix per level, for every tolerance `0 < eps <= 1` -/
theorem osc_peel (sqrt : α → α) (hq : SqrtOK sqrt) (eps : α) (heps1 : eps ≤ 1) (m : Nat) :
    ∀ (s : α) (k : Nat), s * s = 1 → PeelOne sqrt eps (osc s m k) := by
  induction m with
  | zero => intro s k _; simp [osc, PeelOne]
  | succ m ih =>
    intro s k hs
    cases m with
    | zero => simp [osc, PeelOne]
    | succ m =>
      cases m with
      | zero => simp [osc, PeelOne]
      | succ m =>
        have hs' : -s * -s = 1 := by rw [neg_mul_neg]; exact hs
        have hT := osc_bound (- -s) (by rw [neg_neg]; exact hs) (m + 1) (k + 1 + 1)
        have hne : osc (- -s) (m + 1) (k + 1 + 1) ≠ [] := by simp [osc]
        obtain ⟨q, rest, hqr⟩ := List.exists_cons_of_ne_nil hne
        have hL : osc s (m + 1 + 1 + 1) k =
            ⟨k, 0, s * ((m + 1 + 1 + 1 : Nat) : α)⟩ :: ⟨k + 1, 0, -s * ((m + 1 + 1 : Nat) : α)⟩ :: q :: rest := by
          rw [← hqr]; rfl
        have hP := ih (-s) (k + 1) hs'
        have hL' : osc (-s) (m + 1 + 1) (k + 1) = ⟨k + 1, 0, -s * ((m + 1 + 1 : Nat) : α)⟩ :: q :: rest := by
          rw [← hqr]; rfl
        rw [hL'] at hP
        rw [hL, PeelOne]
        refine ⟨?_, hP⟩
        rw [hqr] at hT
        simp only [neg_neg] at hT
        have hm : (0 : α) ≤ (m : α) := Nat.cast_nonneg m
        obtain ⟨bx, bl, bu⟩ := hT _ (chordEnd_mem q rest)
        generalize chordEnd q rest = b at bx bl bu ⊢
        have ea : s * (s * ((m + 1 + 1 + 1 : Nat) : α)) = (m : α) + 3 := by
          rw [← mul_assoc, hs, one_mul]; push_cast; ring
        have ep : s * (-s * ((m + 1 + 1 : Nat) : α)) = -((m : α) + 2) := by
          have : s * (-s * ((m + 1 + 1 : Nat) : α)) = -((s * s) * ((m + 1 + 1 : Nat) : α)) := by ring
          rw [this, hs, one_mul]; push_cast; ring
        push_cast at bl bu
        have hcore := axis_core sqrt hq s hs (s * ((m + 1 + 1 + 1 : Nat) : α)) b.y (-s * ((m + 1 + 1 : Nat) : α))
          (by rw [ep]; linarith) (by rw [ea]; linarith)
        rw [ep] at hcore
        have hfar := farthest_second sqrt ⟨k, 0, s * ((m + 1 + 1 + 1 : Nat) : α)⟩ b ⟨k + 1, 0, -s * ((m + 1 + 1 : Nat) : α)⟩ (q :: rest)
          (by rw [distFix_self sqrt hq]; exact lt_irrefl 0)
          (by
            show (0 : α) < distanceToSegment sqrt 0 _ 0 _ b.x b.y
            rw [bx]; linarith)
          (by
            intro x hx
            obtain ⟨xx, xl, xu⟩ := hT x hx
            push_cast at xl xu
            apply not_lt.mpr
            show distanceToSegment sqrt x.x x.y 0 _ b.x b.y ≤ distanceToSegment sqrt 0 _ 0 _ b.x b.y
            rw [bx, xx]
            exact axis_le sqrt hq s hs _ _ _ _ (by rw [ep]; linarith) (by rw [ea]; linarith) (by rw [ep]; linarith)
              (by rw [ea]; linarith))
        rw [hfar]
        refine ⟨?_, rfl⟩
        show ¬ distanceToSegment sqrt 0 _ 0 _ b.x b.y < eps
        rw [bx]
        apply not_lt.mpr
        linarith

end TV.Simplify
