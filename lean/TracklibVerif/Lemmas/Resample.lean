import TracklibVerif.Model.Resample
import Mathlib.Algebra.Order.Field.Basic
import Mathlib.Tactic.Ring
import Mathlib.Tactic.Linarith
import Mathlib.Tactic.FieldSimp
/-! Helper lemmas for C05 (linear resampling): the `running_id` scan, the bracket it designates, the
temporal and spatial loops in function form, the arithmetic progression of `prepareTimeSampling`. -/
set_option linter.unusedSectionVars false
namespace TV.Resample

/-! ### the scan `while V[running_id] < v: running_id += 1` -/
section Scan
variable {α : Type} [LinearOrder α]

/-- specification of the scan: number of leading elements `< v`, i.e. the first index whose element is `≥ v` -/
def firstGE (v : α) : List α → Nat
  | [] => 0
  | w :: ws => if w < v then firstGE v ws + 1 else 0

theorem firstGE_le_length (v : α) (l : List α) : firstGE v l ≤ l.length := by
  induction l with
  | nil => simp [firstGE]
  | cons w ws ih => simp only [firstGE, List.length_cons]; split <;> omega

theorem lt_of_lt_firstGE (v : α) (l : List α) (j : Nat) (hj : j < firstGE v l)
    (hjl : j < l.length) : l[j] < v := by
  induction l generalizing j with
  | nil => simp at hjl
  | cons w ws ih =>
    simp only [firstGE] at hj
    split at hj
    · cases j with
      | zero => simpa
      | succ j => simp only [List.getElem_cons_succ]; exact ih j (by omega) _
    · omega

theorem firstGE_spec (v : α) (l : List α) (h : firstGE v l < l.length) : v ≤ l[firstGE v l] := by
  induction l with
  | nil => simp at h
  | cons w ws ih =>
    simp only [firstGE] at h ⊢
    split
    · rename_i hw
      simp only [hw, if_true, List.length_cons] at h
      simp only [List.getElem_cons_succ]
      exact ih (by omega)
    · rename_i hw
      simpa using le_of_not_gt hw

theorem le_firstGE (v : α) (l : List α) (k : Nat) (hk : k ≤ l.length)
    (h : ∀ j (hj : j < l.length), j < k → l[j] < v) : k ≤ firstGE v l := by
  induction l generalizing k with
  | nil => simp at hk; omega
  | cons w ws ih =>
    cases k with
    | zero => omega
    | succ k =>
      have h0 : w < v := h 0 (by simp) (by omega)
      simp only [firstGE, h0, if_true]
      have := ih k (by simpa using hk) (fun j hj hjk => by
        have := h (j + 1) (by simpa using hj) (by omega)
        simpa using this)
      omega

theorem firstGE_mono (l : List α) {v v' : α} (h : v ≤ v') : firstGE v l ≤ firstGE v' l :=
  le_firstGE v' l _ (firstGE_le_length v l) (fun j hj hjk => lt_of_lt_of_le (lt_of_lt_firstGE v l j hjk hj) h)

/-- characterisation: the index `k` with everything before `< v` and `v ≤ l[k]` is `firstGE` -/
theorem firstGE_eq (v : α) (l : List α) (k : Nat) (hk : k < l.length)
    (h : ∀ j (hj : j < l.length), j < k → l[j] < v) (hge : v ≤ l[k]) : firstGE v l = k := by
  have h1 := le_firstGE v l k (le_of_lt hk) h
  rcases Nat.lt_or_ge k (firstGE v l) with h2 | h2
  · exact absurd (lt_of_lt_firstGE v l k h2 hk) (not_lt_of_ge hge)
  · omega

theorem firstGE_drop (v : α) (l : List α) (rid : Nat) (h : rid ≤ firstGE v l) :
    firstGE v (l.drop rid) + rid = firstGE v l := by
  induction l generalizing rid with
  | nil => simp [firstGE] at h ⊢; omega
  | cons w ws ih =>
    cases rid with
    | zero => simp
    | succ r =>
      simp only [firstGE] at h ⊢
      split at h
      · rename_i hw
        simp only [List.drop_succ_cons, hw, if_true]
        have := ih r (by omega)
        omega
      · omega

theorem scan_eq (v : α) (l : List α) (i : Nat) :
    scan v l i = if firstGE v l < l.length then some (i + firstGE v l) else none := by
  induction l generalizing i with
  | nil => simp [scan, firstGE]
  | cons w ws ih =>
    simp only [scan, firstGE, List.length_cons]
    by_cases hw : w < v
    · simp only [hw, if_true, ih]
      by_cases h : firstGE v ws < ws.length
      · simp only [h, if_true, Nat.add_lt_add_iff_right]; congr 1; omega
      · simp only [h, if_false, Nat.add_lt_add_iff_right]
    · simp [hw]

/-- from any `running_id` not beyond the target, the scan stops exactly at `firstGE` -/
theorem advance_eq (V : List α) (v : α) (rid : Nat) (h1 : rid ≤ firstGE v V)
    (h2 : firstGE v V < V.length) : advance V v rid = some (firstGE v V) := by
  unfold advance
  rw [scan_eq]
  have hd := firstGE_drop v V rid h1
  have hl : (V.drop rid).length = V.length - rid := by simp
  rw [if_pos (by omega)]
  congr 1; omega

/-- …and past the last element it is an IndexError -/
theorem advance_none (V : List α) (v : α) (rid : Nat) (h1 : rid ≤ firstGE v V)
    (h2 : firstGE v V = V.length) : advance V v rid = none := by
  unfold advance
  rw [scan_eq]
  have hd := firstGE_drop v V rid h1
  have hl : (V.drop rid).length = V.length - rid := by simp
  rw [if_neg (by omega)]

/-- the bounded scan of the spatial loop agrees with the plain one whenever the plain one stays in the table -/
theorem scanB_eq (v : α) (l : List α) (i : Nat) (h : firstGE v l < l.length) :
    scanB v l i = some (i + firstGE v l) := by
  induction l generalizing i with
  | nil => simp at h
  | cons w ws ih =>
    cases ws with
    | nil =>
      simp only [firstGE, List.length_cons, List.length_nil] at h
      split at h
      · omega
      · rename_i hw; simp [scanB, firstGE, hw]
    | cons w' ws =>
      simp only [scanB]
      by_cases hw : w < v
      · simp only [hw, if_true]
        have h' : firstGE v (w' :: ws) < (w' :: ws).length := by
          have := h; simp only [firstGE, hw, if_true, List.length_cons] at this ⊢; omega
        rw [ih (i + 1) h']
        simp only [firstGE, hw, if_true]
        congr 1; omega
      · simp [hw, firstGE]

theorem advanceB_eq (V : List α) (v : α) (rid : Nat) (h1 : rid ≤ firstGE v V)
    (h2 : firstGE v V < V.length) : advanceB V v rid = some (firstGE v V) := by
  unfold advanceB
  have hd := firstGE_drop v V rid h1
  have hl : (V.drop rid).length = V.length - rid := by simp
  rw [scanB_eq _ _ _ (by omega)]
  congr 1; omega

/-- the rewind keeps the scan's precondition when it held before (requests in chronological order) -/
theorem rewind_of_le (T : List α) (t : α) (rid : Nat) (h : rid ≤ firstGE t T) :
    ∃ r0, rewind T t rid = some r0 ∧ r0 ≤ firstGE t T := by
  unfold rewind
  by_cases h0 : rid = 0
  · exact ⟨0, by simp [h0], Nat.zero_le _⟩
  · rw [if_neg h0]
    have hl := firstGE_le_length t T
    have hlt : rid - 1 < T.length := by omega
    rw [List.getElem?_eq_getElem hlt]
    by_cases hv : t ≤ T[rid - 1]
    · exact ⟨0, by simp [hv], Nat.zero_le _⟩
    · exact ⟨rid, by simp [hv], h⟩

/-- …and establishes it from any earlier position when the table is non-decreasing (requests in any order) -/
theorem rewind_of_sorted (T : List α) (hT : T.Pairwise (· ≤ ·)) (t : α) (rid : Nat) (h : rid ≤ T.length) :
    ∃ r0, rewind T t rid = some r0 ∧ r0 ≤ firstGE t T := by
  unfold rewind
  by_cases h0 : rid = 0
  · exact ⟨0, by simp [h0], Nat.zero_le _⟩
  · rw [if_neg h0]
    have hlt : rid - 1 < T.length := by omega
    rw [List.getElem?_eq_getElem hlt]
    by_cases hv : t ≤ T[rid - 1]
    · exact ⟨0, by simp [hv], Nat.zero_le _⟩
    · refine ⟨rid, by simp [hv], le_firstGE t T rid h (fun j hj hjr => ?_)⟩
      have hv' : T[rid - 1] < t := lt_of_not_ge hv
      rcases Nat.lt_or_ge j (rid - 1) with hjl | hjl
      · exact lt_of_le_of_lt (List.pairwise_iff_getElem.mp hT j (rid - 1) hj hlt hjl) hv'
      · have : j = rid - 1 := by omega
        subst this; exact hv'

theorem pmin_eq_left (a b : α) (h : a ≤ b) : pmin a b = a := by
  unfold pmin; rw [if_neg (not_lt_of_ge h)]

end Scan

/-! ### brackets and samples over an ordered field -/
section Field
variable {α : Type} [Field α] [LinearOrder α] [IsStrictOrderedRing α]

def zeroFix : Fix α := ⟨0, 0, 0, 0⟩
/-- total indexing (the default is never reached in the theorems) -/
def fixAt (P : List (Fix α)) (i : Nat) : Fix α := P.getD i zeroFix

/-- the point of the segment `a → b` at fraction `f` (in x, y, z), stamped `t` -/
def lerpFix (a b : Fix α) (f t : α) : Fix α :=
  ⟨a.x + f * (b.x - a.x), a.y + f * (b.y - a.y), a.z + f * (b.z - a.z), t⟩

theorem fixAt_eq (P : List (Fix α)) (i : Nat) (h : i < P.length) : fixAt P i = P[i] := by
  simp [fixAt, h]

theorem getD0_eq (S : List α) (i : Nat) (h : i < S.length) : S.getD i 0 = S[i] := by
  simp [h]

theorem weights_ok (vb vf v : α) (h : vb < vf) :
    weights vb vf v = .ok ((vf - v) / (vf - vb), (v - vb) / (vf - vb)) := by
  have : 0 < vf - vb := sub_pos.mpr h
  simp [weights, this]

theorem bracket_ok (P : List (Fix α)) (V : List α) (v : α) (r : Nat) (hr : 1 ≤ r)
    (hrP : r < P.length) (hrV : r < V.length) (hlt : V[r - 1]'(by omega) < V[r]) :
    bracket P V v r = .ok (P[r - 1]'(by omega), P[r], (V[r] - v) / (V[r] - V[r - 1]'(by omega)),
      (v - V[r - 1]'(by omega)) / (V[r] - V[r - 1]'(by omega))) := by
  have hb1 : bwdIdx r P.length = r - 1 := by simp [bwdIdx]; omega
  have hb2 : bwdIdx r V.length = r - 1 := by simp [bwdIdx]; omega
  have e1 : P[r - 1]? = some (P[r - 1]'(by omega)) := List.getElem?_eq_getElem _
  have e2 : P[r]? = some P[r] := List.getElem?_eq_getElem _
  have e3 : V[r - 1]? = some (V[r - 1]'(by omega)) := List.getElem?_eq_getElem _
  have e4 : V[r]? = some V[r] := List.getElem?_eq_getElem _
  unfold bracket
  rw [hb1, hb2, e1, e2, e3, e4]
  simp only [weights_ok _ _ v hlt]

/-- `wbwd·a + wfwd·b` is the point at fraction `wfwd = (v − vb)/(vf − vb)` of the segment -/
theorem combine_eq (vb vf v a b : α) (h : vb < vf) :
    (vf - v) / (vf - vb) * a + (v - vb) / (vf - vb) * b = a + (v - vb) / (vf - vb) * (b - a) := by
  have : vf - vb ≠ 0 := ne_of_gt (sub_pos.mpr h)
  field_simp
  ring

/-- what the scan designates when `V[0] < v ≤ V[last]`: a leg `r ≥ 1` with `V[r−1] < v ≤ V[r]` -/
theorem firstGE_bracket (V : List α) (v : α) (hn : 0 < V.length) (h0 : V[0] < v)
    (hl : v ≤ V[V.length - 1]) :
    1 ≤ firstGE v V ∧ ∃ h : firstGE v V < V.length,
      V[firstGE v V - 1]'(by omega) < v ∧ v ≤ V[firstGE v V] := by
  have h1 : 1 ≤ firstGE v V := le_firstGE v V 1 (by omega) (fun j hj hj1 => by
    have : j = 0 := by omega
    subst this; exact h0)
  have h2 : firstGE v V < V.length := by
    rcases Nat.lt_or_ge (firstGE v V) V.length with h | h
    · exact h
    · exact absurd (lt_of_lt_firstGE v V (V.length - 1) (by omega) (by omega)) (not_lt_of_ge hl)
  exact ⟨h1, h2, lt_of_lt_firstGE v V _ (by omega) (by omega), firstGE_spec v V h2⟩


/-! ### the temporal loop in function form -/

/-- the sample the property demands at instant `t`: on the leg `r = firstGE t T` (so `T[r−1] < t ≤ T[r]`),
at fraction `(t − T[r−1])/(T[r] − T[r−1])`, stamped `t` -/
def sampleT (P : List (Fix α)) (t : α) : Fix α :=
  let r := firstGE t (P.map (·.t))
  let pb := fixAt P (r - 1)
  let pf := fixAt P r
  lerpFix pb pf ((t - pb.t) / (pf.t - pb.t)) t

/-- is the instant inside `(tini, tfin]`? -/
def inRange (tini tfin t : α) : Bool := decide (tini < t) && decide (t ≤ tfin)

theorem temporalLoop_eq (P : List (Fix α)) (tini tfin : α) (hn : 0 < P.length)
    (hini : (P.map (·.t))[0]'(by simpa using hn) = tini)
    (hfin : (P.map (·.t))[(P.map (·.t)).length - 1]'(by simp; omega) = tfin)
    (ref : List α) (rid : Nat) (href : ref.Pairwise (· ≤ ·))
    (inv : ∀ t ∈ ref, tini < t → rid ≤ firstGE t (P.map (·.t))) :
    temporalLoop P (P.map (·.t)) tini tfin ref rid
      = .ok ((ref.filter (inRange tini tfin)).map (sampleT P)) := by
  induction ref generalizing rid with
  | nil => simp [temporalLoop]
  | cons t rest ih =>
    rw [List.pairwise_cons] at href
    obtain ⟨hle, hrest⟩ := href
    unfold temporalLoop
    by_cases h1 : t ≤ tini
    · rw [if_pos h1]
      rw [ih rid hrest (fun t' ht' => inv t' (List.mem_cons_of_mem _ ht'))]
      have : inRange tini tfin t = false := by simp [inRange, not_lt_of_ge h1]
      simp [this]
    · rw [if_neg h1]
      have h1' : tini < t := lt_of_not_ge h1
      by_cases h2 : tfin < t
      · rw [if_pos h2]
        rw [ih rid hrest (fun t' ht' => inv t' (List.mem_cons_of_mem _ ht'))]
        have : inRange tini tfin t = false := by simp [inRange, not_le_of_gt h2]
        simp [this]
      · rw [if_neg h2]
        have h2' : t ≤ tfin := le_of_not_gt h2
        have hlen : 0 < (P.map (·.t)).length := by simpa using hn
        obtain ⟨hr1, hrlt, hlo, hhi⟩ := firstGE_bracket (P.map (·.t)) t hlen (by rw [hini]; exact h1')
          (by rw [hfin]; exact h2')
        obtain ⟨r0, hrw, hr0⟩ := rewind_of_le (P.map (·.t)) t rid (inv t List.mem_cons_self h1')
        rw [hrw]
        have hadv := advance_eq (P.map (·.t)) t r0 hr0 hrlt
        have hrP : firstGE t (P.map (·.t)) < P.length := by simpa using hrlt
        have hbr := bracket_ok P (P.map (·.t)) t (firstGE t (P.map (·.t))) hr1 hrP hrlt
          (lt_of_lt_of_le hlo hhi)
        have hrec := ih (firstGE t (P.map (·.t))) hrest
          (fun t' ht' _ => firstGE_mono _ (hle t' ht'))
        simp only [hadv, hbr, hrec]
        have hin : inRange tini tfin t = true := by simp [inRange, h1', h2']
        simp only [List.filter_cons, hin, if_true, List.map_cons]
        congr 2
        have hb := lt_of_lt_of_le hlo hhi
        simp only [List.getElem_map] at hb ⊢
        simp only [sampleT, lerpFix, fixAt_eq P _ hrP, fixAt_eq P (firstGE t (P.map (·.t)) - 1) (by omega)]
        rw [combine_eq _ _ t _ _ hb, combine_eq _ _ t _ _ hb, combine_eq _ _ t _ _ hb]


/-- requests in ANY order, on a track whose stamps never decrease: one sample per instant of `(tini, tfin]` -/
theorem temporalLoop_eq_any (P : List (Fix α)) (tini tfin : α) (hn : 0 < P.length)
    (hini : (P.map (·.t))[0]'(by simpa using hn) = tini)
    (hfin : (P.map (·.t))[(P.map (·.t)).length - 1]'(by simp; omega) = tfin)
    (hT : (P.map (·.t)).Pairwise (· ≤ ·))
    (ref : List α) (rid : Nat) (hrid : rid ≤ P.length) :
    temporalLoop P (P.map (·.t)) tini tfin ref rid
      = .ok ((ref.filter (inRange tini tfin)).map (sampleT P)) := by
  induction ref generalizing rid with
  | nil => simp [temporalLoop]
  | cons t rest ih =>
    unfold temporalLoop
    by_cases h1 : t ≤ tini
    · rw [if_pos h1, ih rid hrid]
      have : inRange tini tfin t = false := by simp [inRange, not_lt_of_ge h1]
      simp [this]
    · rw [if_neg h1]
      have h1' : tini < t := lt_of_not_ge h1
      by_cases h2 : tfin < t
      · rw [if_pos h2, ih rid hrid]
        have : inRange tini tfin t = false := by simp [inRange, not_le_of_gt h2]
        simp [this]
      · rw [if_neg h2]
        have h2' : t ≤ tfin := le_of_not_gt h2
        have hlen : 0 < (P.map (·.t)).length := by simpa using hn
        obtain ⟨hr1, hrlt, hlo, hhi⟩ := firstGE_bracket (P.map (·.t)) t hlen (by rw [hini]; exact h1')
          (by rw [hfin]; exact h2')
        obtain ⟨r0, hrw, hr0⟩ := rewind_of_sorted (P.map (·.t)) hT t rid (by simpa using hrid)
        rw [hrw]
        have hadv := advance_eq (P.map (·.t)) t r0 hr0 hrlt
        have hrP : firstGE t (P.map (·.t)) < P.length := by simpa using hrlt
        have hbr := bracket_ok P (P.map (·.t)) t (firstGE t (P.map (·.t))) hr1 hrP hrlt
          (lt_of_lt_of_le hlo hhi)
        have hrec := ih (firstGE t (P.map (·.t))) (le_of_lt hrP)
        simp only [hadv, hbr, hrec]
        have hin : inRange tini tfin t = true := by simp [inRange, h1', h2']
        simp only [List.filter_cons, hin, if_true, List.map_cons]
        congr 2
        have hb := lt_of_lt_of_le hlo hhi
        simp only [List.getElem_map] at hb ⊢
        simp only [sampleT, lerpFix, fixAt_eq P _ hrP, fixAt_eq P (firstGE t (P.map (·.t)) - 1) (by omega)]
        rw [combine_eq _ _ t _ _ hb, combine_eq _ _ t _ _ hb, combine_eq _ _ t _ _ hb]

/-- with non-decreasing abscissas the bracket is unique: any leg `k` with `V[k−1] < v ≤ V[k]` is the one
the scan designates -/
theorem firstGE_unique (V : List α) (hV : V.Pairwise (· ≤ ·)) (v : α) (k : Nat) (hk1 : 1 ≤ k)
    (hk : k < V.length) (hlo : V[k - 1]'(by omega) < v) (hhi : v ≤ V[k]) : firstGE v V = k := by
  apply firstGE_eq v V k hk _ hhi
  intro j hj hjk
  rcases Nat.lt_or_ge j (k - 1) with h | h
  · exact lt_of_le_of_lt (List.pairwise_iff_getElem.mp hV j (k - 1) hj (by omega) h) hlo
  · have : j = k - 1 := by omega
    subst this; exact hlo

/-! ### cumulated abscissas -/

theorem cumFrom_length (s : α) (l : List α) : (cumFrom s l).length = l.length + 1 := by
  induction l generalizing s with
  | nil => simp [cumFrom]
  | cons a l ih => simp [cumFrom, ih]

theorem cumFrom_head (s : α) (l : List α) : (cumFrom s l)[0]'(by rw [cumFrom_length]; omega) = s := by
  cases l <;> simp [cumFrom]

theorem cumFrom_ge (s : α) (l : List α) (h : ∀ x ∈ l, 0 ≤ x) : ∀ y ∈ cumFrom s l, s ≤ y := by
  induction l generalizing s with
  | nil => intro y hy; simp [cumFrom] at hy; rw [hy]
  | cons a l ih =>
    intro y hy
    simp only [cumFrom, List.mem_cons] at hy
    rcases hy with hy | hy
    · rw [hy]
    · have ha : 0 ≤ a := h a List.mem_cons_self
      have := ih (s + a) (fun x hx => h x (List.mem_cons_of_mem _ hx)) y hy
      linarith

theorem cumFrom_pairwise (s : α) (l : List α) (h : ∀ x ∈ l, 0 ≤ x) : (cumFrom s l).Pairwise (· ≤ ·) := by
  induction l generalizing s with
  | nil => simp [cumFrom]
  | cons a l ih =>
    simp only [cumFrom, List.pairwise_cons]
    have ha : 0 ≤ a := h a List.mem_cons_self
    have hl : ∀ x ∈ l, 0 ≤ x := fun x hx => h x (List.mem_cons_of_mem _ hx)
    refine ⟨fun y hy => ?_, ih (s + a) hl⟩
    have := cumFrom_ge (s + a) l hl y hy
    linarith

/-- consecutive abscissas differ by the leg length -/
theorem cumFrom_succ (s : α) (l : List α) (i : Nat) (hi : i < l.length) :
    (cumFrom s l)[i + 1]'(by rw [cumFrom_length]; omega)
      = (cumFrom s l)[i]'(by rw [cumFrom_length]; omega) + l[i] := by
  induction l generalizing s i with
  | nil => simp at hi
  | cons a l ih =>
    cases i with
    | zero =>
      simp only [cumFrom, List.getElem_cons_succ, List.getElem_cons_zero]
      exact cumFrom_head (s + a) l
    | succ i =>
      simp only [cumFrom, List.getElem_cons_succ]
      exact ih (s + a) i (by simpa using hi)

/-! ### fractions, and monotonicity of the interpolated time -/

theorem frac_bounds (sb sf s : α) (h1 : sb < s) (h2 : s ≤ sf) :
    0 < (s - sb) / (sf - sb) ∧ (s - sb) / (sf - sb) ≤ 1 := by
  have hd : 0 < sf - sb := by linarith
  exact ⟨div_pos (by linarith) hd, (div_le_one hd).mpr (by linarith)⟩

theorem lerp_bounds (tb tf f : α) (h : tb ≤ tf) (h0 : 0 ≤ f) (h1 : f ≤ 1) :
    tb ≤ tb + f * (tf - tb) ∧ tb + f * (tf - tb) ≤ tf := by
  have hd : 0 ≤ tf - tb := by linarith
  constructor
  · have := mul_nonneg h0 hd; linarith
  · have := mul_le_mul_of_nonneg_right h1 hd; linarith

theorem times_mono (P : List (Fix α)) (hT : (P.map (·.t)).Pairwise (· ≤ ·)) (i j : Nat) (hij : i ≤ j)
    (hj : j < P.length) : (P[i]'(by omega)).t ≤ P[j].t := by
  rcases Nat.eq_or_lt_of_le hij with h | h
  · subst h; exact le_refl _
  · have := List.pairwise_iff_getElem.mp hT i j (by simp; omega) (by simpa using hj) h
    simpa using this

/-- the clamp of the fix commit 20ed89f changes nothing when the value already lies between the two stamps -/
theorem clampT_noop (T tb tf : α) (h1 : tb ≤ T) (h2 : T ≤ tf) : clampT T tb tf = T := by
  unfold clampT pmax pmin
  rw [if_neg (not_lt_of_ge h1), if_neg (not_lt_of_ge h2)]

/-- in exact arithmetic the weighted mean of two stamps `tb ≤ tf` lies between them: the clamp is a no-op -/
theorem clampT_combine (vb vf v tb tf : α) (h1 : vb < v) (h2 : v ≤ vf) (ht : tb ≤ tf) :
    clampT ((vf - v) / (vf - vb) * tb + (v - vb) / (vf - vb) * tf) tb tf
      = tb + (v - vb) / (vf - vb) * (tf - tb) := by
  rw [combine_eq _ _ _ _ _ (lt_of_lt_of_le h1 h2)]
  obtain ⟨f0, f1⟩ := frac_bounds vb vf v h1 h2
  obtain ⟨l0, l1⟩ := lerp_bounds tb tf _ ht (le_of_lt f0) f1
  exact clampT_noop _ _ _ l0 l1

/-! ### the spatial loop in function form -/

/-- the sample the property demands at curvilinear abscissa `s`: on the leg `r = firstGE s S`
(`S[r−1] < s ≤ S[r]`) at fraction `(s − S[r−1])/(S[r] − S[r−1])`, height and time interpolated likewise -/
def sampleS (P : List (Fix α)) (S : List α) (s : α) : Fix α :=
  let r := firstGE s S
  let pb := fixAt P (r - 1)
  let pf := fixAt P r
  let f := (s - S.getD (r - 1) 0) / (S.getD r 0 - S.getD (r - 1) 0)
  lerpFix pb pf f (pb.t + f * (pf.t - pb.t))

theorem spatialLoop_eq (P : List (Fix α)) (S : List α) (sini ds : α) (hlen : S.length = P.length)
    (hn : 0 < S.length) (hT : (P.map (·.t)).Pairwise (· ≤ ·)) (hds : 0 ≤ ds) (n k rid : Nat)
    (hlo : ∀ j, k ≤ j → S[0] < (j : α) * ds + sini)
    (hhi : ∀ j, j < k + n → (j : α) * ds + sini ≤ S[S.length - 1])
    (inv : rid ≤ firstGE ((k : α) * ds + sini) S) :
    spatialLoop P S sini (S[S.length - 1]) ds n k rid
      = .ok ((List.range n).map (fun j => sampleS P S (((k + j : Nat) : α) * ds + sini))) := by
  induction n generalizing k rid with
  | zero => simp [spatialLoop]
  | succ n ih =>
    unfold spatialLoop
    rw [pmin_eq_left _ _ (hhi k (by omega))]
    obtain ⟨hr1, hrlt, hb1, hb2⟩ := firstGE_bracket S ((k : α) * ds + sini) hn (hlo k (le_refl _))
      (hhi k (by omega))
    have hadv := advanceB_eq S _ rid inv hrlt
    have hrP : firstGE ((k : α) * ds + sini) S < P.length := by omega
    have hlt := lt_of_lt_of_le hb1 hb2
    have hbr := bracket_ok P S ((k : α) * ds + sini) _ hr1 hrP hrlt hlt
    have hmono : (k : α) * ds + sini ≤ ((k + 1 : Nat) : α) * ds + sini := by
      push_cast; nlinarith
    have hrec := ih (k + 1) (firstGE ((k : α) * ds + sini) S)
      (fun j hj => hlo j (by omega)) (fun j hj => hhi j (by omega)) (firstGE_mono S hmono)
    simp only [hadv, hbr, hrec]
    rw [List.range_succ_eq_map]
    simp only [List.map_cons, List.map_map, Nat.add_zero]
    congr 2
    · simp only [sampleS, lerpFix, fixAt_eq P _ hrP,
        fixAt_eq P (firstGE ((k : α) * ds + sini) S - 1) (by omega),
        getD0_eq S _ hrlt,
        getD0_eq S (firstGE ((k : α) * ds + sini) S - 1) (by omega)]
      rw [clampT_combine _ _ _ _ _ hb1 hb2 (times_mono P hT _ _ (by omega) hrP),
        combine_eq _ _ _ _ _ hlt, combine_eq _ _ _ _ _ hlt, combine_eq _ _ _ _ _ hlt]
    · apply List.map_congr_left
      intro j _
      simp only [Function.comp, Nat.succ_eq_add_one]
      have : k + (j + 1) = k + 1 + j := by omega
      rw [this]


/-! ### monotonicity of the interpolated time -/

/-- the sample at abscissa `s` with `S[0] < s ≤ S[last]`: its leg, and its time between the leg's end times -/
theorem sampleS_t_bounds (P : List (Fix α)) (S : List α) (hlen : S.length = P.length) (hn : 0 < S.length)
    (hT : (P.map (·.t)).Pairwise (· ≤ ·)) (s : α) (h0 : S[0] < s) (h1 : s ≤ S[S.length - 1]) :
    ∃ (_ : 1 ≤ firstGE s S) (hr : firstGE s S < P.length),
      (P[firstGE s S - 1]'(by omega)).t ≤ (sampleS P S s).t ∧ (sampleS P S s).t ≤ P[firstGE s S].t := by
  obtain ⟨hr1, hrlt, hb1, hb2⟩ := firstGE_bracket S s hn h0 h1
  have hrP : firstGE s S < P.length := by omega
  refine ⟨hr1, hrP, ?_⟩
  obtain ⟨f0, f1⟩ := frac_bounds _ _ s hb1 hb2
  have ht := times_mono P hT (firstGE s S - 1) (firstGE s S) (by omega) hrP
  have := lerp_bounds _ _ _ ht (le_of_lt f0) f1
  simp only [sampleS, lerpFix, fixAt_eq P _ hrP, fixAt_eq P (firstGE s S - 1) (by omega),
    getD0_eq S _ hrlt, getD0_eq S (firstGE s S - 1) (by omega)]
  exact this

/-- interpolated time is a non-decreasing function of the abscissa -/
theorem sampleS_t_mono (P : List (Fix α)) (S : List α) (hlen : S.length = P.length) (hn : 0 < S.length)
    (hT : (P.map (·.t)).Pairwise (· ≤ ·)) (s s' : α) (h0 : S[0] < s) (hss : s ≤ s')
    (h1 : s' ≤ S[S.length - 1]) : (sampleS P S s).t ≤ (sampleS P S s').t := by
  obtain ⟨hr1, hrlt, hb1, hb2⟩ := firstGE_bracket S s hn h0 (le_trans hss h1)
  obtain ⟨hr1', hrlt', hb1', hb2'⟩ := firstGE_bracket S s' hn (lt_of_lt_of_le h0 hss) h1
  have hmono := firstGE_mono S hss
  rcases Nat.eq_or_lt_of_le hmono with heq | hlt
  · -- same leg
    have hrP : firstGE s S < P.length := by omega
    have ht := times_mono P hT (firstGE s S - 1) (firstGE s S) (by omega) hrP
    have hd : 0 < S[firstGE s S] - S[firstGE s S - 1]'(by omega) := by linarith
    have hf : (s - S[firstGE s S - 1]'(by omega)) / (S[firstGE s S] - S[firstGE s S - 1]'(by omega))
        ≤ (s' - S[firstGE s S - 1]'(by omega)) / (S[firstGE s S] - S[firstGE s S - 1]'(by omega)) :=
      div_le_div_of_nonneg_right (by linarith) (le_of_lt hd)
    have := mul_le_mul_of_nonneg_right hf (show 0 ≤ P[firstGE s S].t - (P[firstGE s S - 1]'(by omega)).t by linarith)
    simp only [sampleS, lerpFix, ← heq, fixAt_eq P _ hrP, fixAt_eq P (firstGE s S - 1) (by omega),
      getD0_eq S _ hrlt, getD0_eq S (firstGE s S - 1) (by omega)]
    linarith
  · obtain ⟨_, hrP, _, hup⟩ := sampleS_t_bounds P S hlen hn hT s h0 (le_trans hss h1)
    obtain ⟨_, hrP', hlow, _⟩ := sampleS_t_bounds P S hlen hn hT s' (lt_of_lt_of_le h0 hss) h1
    have := times_mono P hT (firstGE s S) (firstGE s' S - 1) (by omega) (by omega)
    linarith

/-! ### the arithmetic progression of `prepareTimeSampling` -/

theorem prepareNumber_eq (δ tfin : α) (hδ : 0 < δ) (m fuel : Nat) (time : α) (hf : m + 1 ≤ fuel)
    (h1 : time + (m : α) * δ ≤ tfin) (h2 : tfin < time + ((m : α) + 1) * δ) :
    prepareNumber δ tfin fuel time = some ((List.range (m + 1)).map (fun (k : Nat) => time + (k : α) * δ)) := by
  induction m generalizing fuel time with
  | zero =>
    cases fuel with
    | zero => omega
    | succ f =>
      have : tfin < time + δ := by simpa using h2
      simp [prepareNumber, this]
  | succ m ih =>
    cases fuel with
    | zero => omega
    | succ f =>
      have hm : (0 : α) ≤ (m : α) := Nat.cast_nonneg m
      have hno : ¬ tfin < time + δ := by
        push_cast at h1
        have := mul_nonneg hm (le_of_lt hδ)
        apply not_lt_of_ge; nlinarith
      have hrec := ih f (time + δ) (by omega) (by push_cast at h1; linarith) (by push_cast at h2; linarith)
      unfold prepareNumber
      rw [if_neg hno, hrec]
      rw [List.range_succ_eq_map (n := m + 1)]
      simp only [List.map_cons, List.map_map, Nat.cast_zero, zero_mul, add_zero]
      congr 2
      apply List.map_congr_left
      intro k _
      simp only [Function.comp, Nat.succ_eq_add_one]
      push_cast; ring


/-! ### contracts of the parameters, and the top-level functions -/

/-- contract of Python's `int()` on non-negative reals, as the model uses it (`(trunc x).toNat`) -/
def TruncSpec (trunc : α → Int) : Prop :=
  ∀ x : α, 0 ≤ x → (((trunc x).toNat : Nat) : α) ≤ x ∧ x < (((trunc x).toNat : Nat) : α) + 1

/-- contract of `math.sqrt` on non-negative reals -/
def SqrtSpec (sqrt : α → α) : Prop := ∀ x : α, 0 ≤ x → 0 ≤ sqrt x ∧ sqrt x * sqrt x = x

theorem head?_times (P : List (Fix α)) (hn : 0 < P.length) : (P.map (·.t)).head? = some (P[0]).t := by
  cases P with
  | nil => simp at hn
  | cons a l => simp

theorem getLast?_times (P : List (Fix α)) (hn : 0 < P.length) :
    (P.map (·.t)).getLast? = some (P[P.length - 1]).t := by
  rw [List.getLast?_eq_getElem?]
  simp only [List.length_map]
  rw [List.getElem?_eq_getElem (by simp; omega)]
  simp

theorem resampleTemporal_instants (trunc : α → Int) (P : List (Fix α)) (hn : 0 < P.length) (ref : List α)
    (href : ref.Pairwise (· ≤ ·)) :
    resampleTemporal trunc P (.instants ref)
      = .ok ((ref.filter (inRange (P[0]).t (P[P.length - 1]).t)).map (sampleT P)) := by
  unfold resampleTemporal
  simp only [head?_times P hn, getLast?_times P hn, prepareTimes]
  exact temporalLoop_eq P _ _ hn (by simp) (by simp) ref 0 href (fun _ _ _ => Nat.zero_le _)

theorem resampleTemporal_instants_any (trunc : α → Int) (P : List (Fix α)) (hn : 0 < P.length)
    (hT : (P.map (·.t)).Pairwise (· ≤ ·)) (ref : List α) :
    resampleTemporal trunc P (.instants ref)
      = .ok ((ref.filter (inRange (P[0]).t (P[P.length - 1]).t)).map (sampleT P)) := by
  unfold resampleTemporal
  simp only [head?_times P hn, getLast?_times P hn, prepareTimes]
  exact temporalLoop_eq_any P _ _ hn (by simp) (by simp) hT ref 0 (Nat.zero_le _)

/-- the instants requested by a numeric step that fall in `(tini, tfin]` are `tini + δ, …, tini + Kδ` -/
theorem filter_progression (tini tfin δ : α) (hδ : 0 < δ) (K : Nat) (hK : tini + (K : α) * δ ≤ tfin) :
    ((List.range (K + 1)).map (fun (k : Nat) => tini + (k : α) * δ)).filter (inRange tini tfin)
      = (List.range K).map (fun (k : Nat) => tini + ((k + 1 : Nat) : α) * δ) := by
  rw [List.range_succ_eq_map]
  simp only [List.map_cons, List.map_map, Nat.cast_zero, zero_mul, add_zero]
  have h0 : inRange tini tfin tini = false := by simp [inRange]
  rw [List.filter_cons, h0]
  simp only [Bool.false_eq_true, if_false]
  rw [List.filter_eq_self.mpr]
  · apply List.map_congr_left
    intro k _
    simp [Function.comp]
  · intro a ha
    obtain ⟨k, hk, rfl⟩ := List.mem_map.mp ha
    have hk : k < K := List.mem_range.mp hk
    simp only [Function.comp, Nat.succ_eq_add_one, inRange, Bool.and_eq_true, decide_eq_true_eq]
    have h1 : (0 : α) < ((k + 1 : Nat) : α) := by exact_mod_cast Nat.succ_pos k
    have h2 : ((k + 1 : Nat) : α) ≤ (K : α) := by exact_mod_cast hk
    constructor
    · have := mul_pos h1 hδ; linarith
    · have := mul_le_mul_of_nonneg_right h2 (le_of_lt hδ); linarith

theorem progression_sorted (tini δ : α) (hδ : 0 < δ) (n : Nat) :
    ((List.range n).map (fun (k : Nat) => tini + (k : α) * δ)).Pairwise (· ≤ ·) := by
  rw [List.pairwise_map]
  refine List.Pairwise.imp ?_ List.pairwise_lt_range
  intro a b hab
  have : (a : α) ≤ (b : α) := by exact_mod_cast le_of_lt hab
  have := mul_le_mul_of_nonneg_right this (le_of_lt hδ)
  linarith

theorem resampleTemporal_number (trunc : α → Int) (htr : TruncSpec trunc) (P : List (Fix α))
    (hn : 0 < P.length) (hdur : (P[0]).t ≤ (P[P.length - 1]).t) (δ : α) (hδ : 0 < δ) :
    resampleTemporal trunc P (.number δ)
      = .ok ((List.range (trunc (((P[P.length - 1]).t - (P[0]).t) / δ)).toNat).map
          (fun (k : Nat) => sampleT P ((P[0]).t + ((k + 1 : Nat) : α) * δ))) := by
  obtain ⟨hK1, hK2⟩ := htr (((P[P.length - 1]).t - (P[0]).t) / δ) (div_nonneg (by linarith) (le_of_lt hδ))
  have hne : δ ≠ 0 := ne_of_gt hδ
  have h1 : (P[0]).t + (((trunc (((P[P.length - 1]).t - (P[0]).t) / δ)).toNat : Nat) : α) * δ
      ≤ (P[P.length - 1]).t := by
    have := mul_le_mul_of_nonneg_right hK1 (le_of_lt hδ)
    rw [div_mul_cancel₀ _ hne] at this
    linarith
  have h2 : (P[P.length - 1]).t
      < (P[0]).t + ((((trunc (((P[P.length - 1]).t - (P[0]).t) / δ)).toNat : Nat) : α) + 1) * δ := by
    have := mul_lt_mul_of_pos_right hK2 hδ
    rw [div_mul_cancel₀ _ hne] at this
    linarith
  unfold resampleTemporal
  simp only [head?_times P hn, getLast?_times P hn, prepareTimes, if_pos hδ]
  rw [prepareNumber_eq δ _ hδ _ _ _ (by omega) h1 h2]
  simp only []
  rw [temporalLoop_eq P _ _ hn (by simp) (by simp) _ 0 (progression_sorted _ δ hδ _)
    (fun _ _ _ => Nat.zero_le _)]
  rw [filter_progression _ _ δ hδ _ h1, List.map_map]
  rfl


/-- total 2D length of the polyline = last cumulated abscissa -/
def polyLen (legs : List α) : α := (cum legs).getD legs.length 0

theorem cum_length (legs : List α) : (cum legs).length = legs.length + 1 := cumFrom_length 0 legs

theorem cum_succ (legs : List α) (i : Nat) (hi : i < legs.length) :
    (cum legs)[i + 1]'(by rw [cum_length]; omega) = (cum legs)[i]'(by rw [cum_length]; omega) + legs[i] :=
  cumFrom_succ 0 legs i hi

theorem polyLen_eq (legs : List α) :
    polyLen legs = (cum legs)[(cum legs).length - 1]'(by rw [cum_length]; omega) := by
  unfold polyLen
  rw [getD0_eq _ _ (by rw [cum_length]; omega)]
  congr 1
  rw [cum_length]; omega

theorem polyLen_nonneg (legs : List α) (h : ∀ x ∈ legs, 0 ≤ x) : 0 ≤ polyLen legs := by
  rw [polyLen_eq]
  exact cumFrom_ge 0 legs h _ (List.getElem_mem _)

theorem resampleSpatialLegs_eq (trunc : α → Int) (htr : TruncSpec trunc) (P : List (Fix α))
    (legs : List α) (hlen : legs.length + 1 = P.length) (hlegs : ∀ x ∈ legs, 0 ≤ x)
    (hT : (P.map (·.t)).Pairwise (· ≤ ·)) (ds : α) (hds : 0 < ds) :
    resampleSpatialLegs trunc P legs ds
      = .ok (P[0]'(by omega) :: (List.range (trunc (polyLen legs / ds)).toNat).map
          (fun (j : Nat) => sampleS P (cum legs) (((j + 1 : Nat) : α) * ds))) := by
  have hSlen := cum_length legs
  have hL0 := polyLen_nonneg legs hlegs
  obtain ⟨hN1, _⟩ := htr (polyLen legs / ds) (div_nonneg hL0 (le_of_lt hds))
  have hne : ds ≠ 0 := ne_of_gt hds
  have hN : (((trunc (polyLen legs / ds)).toNat : Nat) : α) * ds ≤ polyLen legs := by
    have := mul_le_mul_of_nonneg_right hN1 (le_of_lt hds)
    rwa [div_mul_cancel₀ _ hne] at this
  have hhead : (cum legs).head? = some 0 := by
    unfold cum; cases legs <;> simp [cumFrom]
  have hlast : (cum legs).getLast? = some (polyLen legs) := by
    rw [List.getLast?_eq_getElem?, List.getElem?_eq_getElem (by rw [cum_length]; omega), polyLen_eq]
  have hPhead : P.head? = some (P[0]'(by omega)) := by
    cases P with
    | nil => simp at hlen
    | cons a l => simp
  have hS0 : (cum legs)[0]'(by omega) = 0 := cumFrom_head 0 legs
  unfold resampleSpatialLegs
  simp only [hhead, hlast, hPhead, sub_zero, if_pos (Or.inr hds)]
  rw [show spatialLoop P (cum legs) 0 (polyLen legs) ds = spatialLoop P (cum legs) 0
    ((cum legs)[(cum legs).length - 1]'(by rw [cum_length]; omega)) ds from by rw [← polyLen_eq]]
  rw [spatialLoop_eq P (cum legs) 0 ds (by omega) (by omega) hT (le_of_lt hds) _ 1 0 ?_ ?_ (Nat.zero_le _)]
  · simp only []
    congr 2
    apply List.map_congr_left
    intro j _
    rw [add_zero, Nat.add_comm]
  · intro j hj
    rw [hS0, add_zero]
    have : (0 : α) < (j : α) := by exact_mod_cast hj
    exact mul_pos this hds
  · intro j hj
    rw [add_zero, ← polyLen_eq]
    have : (j : α) ≤ (((trunc (polyLen legs / ds)).toNat : Nat) : α) := by exact_mod_cast (show j ≤ _ by omega)
    have := mul_le_mul_of_nonneg_right this (le_of_lt hds)
    linarith

/-- where the sample at abscissa `s ∈ (0, L]` lies -/
theorem sampleS_on_leg (P : List (Fix α)) (legs : List α) (hlen : legs.length + 1 = P.length)
    (hlegs : ∀ x ∈ legs, 0 ≤ x) (s : α) (h0 : 0 < s) (h1 : s ≤ polyLen legs) :
    ∃ (r : Nat) (_ : 1 ≤ r) (hr : r < P.length),
      (cum legs).getD (r - 1) 0 < s ∧ s ≤ (cum legs).getD r 0 ∧
      (cum legs).getD r 0 - (cum legs).getD (r - 1) 0 = legs[r - 1]'(by omega) ∧
      0 < legs[r - 1]'(by omega) ∧
      0 < (s - (cum legs).getD (r - 1) 0) / legs[r - 1]'(by omega) ∧
      (s - (cum legs).getD (r - 1) 0) / legs[r - 1]'(by omega) ≤ 1 ∧
      (cum legs).getD (r - 1) 0 + (s - (cum legs).getD (r - 1) 0) / legs[r - 1]'(by omega) * legs[r - 1]'(by omega) = s ∧
      sampleS P (cum legs) s = lerpFix (P[r - 1]'(by omega)) P[r] ((s - (cum legs).getD (r - 1) 0) / legs[r - 1]'(by omega))
        ((P[r - 1]'(by omega)).t + (s - (cum legs).getD (r - 1) 0) / legs[r - 1]'(by omega) * (P[r].t - (P[r - 1]'(by omega)).t)) ∧
      (∀ k, 1 ≤ k → k < P.length → (cum legs).getD (k - 1) 0 < s → s ≤ (cum legs).getD k 0 → k = r) := by
  have hSlen := cum_length legs
  have hS0 : (cum legs)[0]'(by omega) = 0 := cumFrom_head 0 legs
  obtain ⟨hr1, hrlt, hb1, hb2⟩ := firstGE_bracket (cum legs) s (by omega) (by rw [hS0]; exact h0)
    (by rw [← polyLen_eq]; exact h1)
  have hrP : firstGE s (cum legs) < P.length := by omega
  have hsucc := cum_succ legs (firstGE s (cum legs) - 1) (by omega)
  have hidx : firstGE s (cum legs) - 1 + 1 = firstGE s (cum legs) := by omega
  simp only [hidx] at hsucc
  have hleg : (cum legs)[firstGE s (cum legs)] - (cum legs)[firstGE s (cum legs) - 1]'(by omega)
      = legs[firstGE s (cum legs) - 1]'(by omega) := by
    rw [hsucc]; ring
  have hpos : 0 < legs[firstGE s (cum legs) - 1]'(by omega) := by rw [← hleg]; linarith
  obtain ⟨f0, f1⟩ := frac_bounds _ _ s hb1 hb2
  rw [hleg] at f0 f1
  refine ⟨firstGE s (cum legs), hr1, hrP, ?_⟩
  rw [getD0_eq _ _ hrlt, getD0_eq _ (firstGE s (cum legs) - 1) (by omega)]
  refine ⟨hb1, hb2, hleg, hpos, f0, f1, ?_, ?_, ?_⟩
  · rw [div_mul_cancel₀ _ (ne_of_gt hpos)]; ring
  · simp only [sampleS, fixAt_eq P _ hrP, fixAt_eq P (firstGE s (cum legs) - 1) (by omega),
      getD0_eq _ _ hrlt, getD0_eq _ (firstGE s (cum legs) - 1) (show _ < (cum legs).length by omega), hleg]
  · intro k hk1 hk hlo hhi
    rw [getD0_eq _ _ (by omega)] at hlo hhi
    exact (firstGE_unique (cum legs) (cumFrom_pairwise 0 legs hlegs) s k hk1 (by omega) hlo hhi).symm

/-! ### degenerate requests -/

/-- instants that are all outside `(tini, tfin]` are skipped without reading the track: nothing comes out, whatever
the track, whatever `running_id` -/
theorem temporalLoop_outside (P : List (Fix α)) (T : List α) (tini tfin : α) (ref : List α) (rid : Nat)
    (h : ∀ t ∈ ref, t ≤ tini ∨ tfin < t) : temporalLoop P T tini tfin ref rid = .ok [] := by
  induction ref with
  | nil => simp [temporalLoop]
  | cons t rest ih =>
    have ih' := ih (fun t' ht' => h t' (List.mem_cons_of_mem _ ht'))
    unfold temporalLoop
    by_cases h1 : t ≤ tini
    · rw [if_pos h1]; exact ih'
    · rw [if_neg h1]
      rcases h t List.mem_cons_self with h2 | h2
      · exact absurd h2 h1
      · rw [if_pos h2]; exact ih'

theorem resampleTemporal_outside (trunc : α → Int) (P : List (Fix α)) (hn : 0 < P.length) (ref : List α)
    (h : ∀ t ∈ ref, t ≤ (P[0]).t ∨ (P[P.length - 1]).t < t) :
    resampleTemporal trunc P (.instants ref) = .ok [] := by
  unfold resampleTemporal
  simp only [head?_times P hn, getLast?_times P hn, prepareTimes]
  exact temporalLoop_outside P _ _ _ ref 0 h

/-- a reference track is read through its stamps only -/
theorem resampleTemporal_track (trunc : α → Int) (P Q : List (Fix α)) :
    resampleTemporal trunc P (.track Q) = resampleTemporal trunc P (.instants (Q.map (·.t))) := by
  unfold resampleTemporal
  cases (P.map (·.t)).head? <;> cases (P.map (·.t)).getLast? <;> simp [prepareTimes]

theorem resampleTemporal_other (trunc : α → Int) (P : List (Fix α)) :
    resampleTemporal trunc P .other = resampleTemporal trunc P (.instants []) := by
  unfold resampleTemporal
  cases (P.map (·.t)).head? <;> cases (P.map (·.t)).getLast? <;> simp [prepareTimes]

/-! ### the request list of `synchronize` -/

theorem mem_insertAsc (v x : α) (l : List α) : x ∈ insertAsc v l ↔ x = v ∨ x ∈ l := by
  induction l with
  | nil => simp [insertAsc]
  | cons w ws ih =>
    simp only [insertAsc]
    split
    · simp
    · simp only [List.mem_cons, ih]; tauto

theorem mem_sortAsc (x : α) (l : List α) : x ∈ sortAsc l ↔ x ∈ l := by
  induction l with
  | nil => simp [sortAsc]
  | cons w ws ih =>
    have : sortAsc (w :: ws) = insertAsc w (sortAsc ws) := rfl
    rw [this, mem_insertAsc, ih]; simp

theorem insertAsc_sorted (v : α) (l : List α) (h : l.Pairwise (· ≤ ·)) : (insertAsc v l).Pairwise (· ≤ ·) := by
  induction l with
  | nil => simp [insertAsc]
  | cons w ws ih =>
    rw [List.pairwise_cons] at h
    simp only [insertAsc]
    split
    · rename_i hv
      refine List.pairwise_cons.mpr ⟨fun y hy => ?_, List.pairwise_cons.mpr h⟩
      rcases List.mem_cons.mp hy with rfl | hy
      · exact le_of_lt hv
      · exact le_trans (le_of_lt hv) (h.1 y hy)
    · rename_i hv
      refine List.pairwise_cons.mpr ⟨fun y hy => ?_, ih h.2⟩
      rcases (mem_insertAsc v y ws).mp hy with rfl | hy
      · exact le_of_not_gt hv
      · exact h.1 y hy

theorem sortAsc_sorted (l : List α) : (sortAsc l).Pairwise (· ≤ ·) := by
  induction l with
  | nil => simp [sortAsc]
  | cons w ws ih => exact insertAsc_sorted w _ ih

theorem dedupFrom_sublist (p : α) (l : List α) : (dedupFrom p l).Sublist l := by
  induction l generalizing p with
  | nil => simp [dedupFrom]
  | cons w ws ih =>
    simp only [dedupFrom]
    split
    · exact (ih w).cons_cons w
    · exact (ih w).cons w

theorem mem_dedupFrom (p x : α) (l : List α) (h : x ∈ l) : x = p ∨ x ∈ dedupFrom p l := by
  induction l generalizing p with
  | nil => simp at h
  | cons w ws ih =>
    have hw : w = p ∨ w ∈ dedupFrom p (w :: ws) := by
      simp only [dedupFrom]
      by_cases hc : w < p ∨ p < w
      · right; rw [if_pos hc]; exact List.mem_cons_self
      · left
        have hc' := not_or.mp hc
        exact le_antisymm (le_of_not_gt hc'.2) (le_of_not_gt hc'.1)
    rcases List.mem_cons.mp h with rfl | hx
    · exact hw
    · rcases ih w hx with rfl | hx'
      · exact hw
      · right
        simp only [dedupFrom]
        split
        · exact List.mem_cons_of_mem _ hx'
        · exact hx'

theorem syncDedup_sublist (l : List α) : (syncDedup l).Sublist l := by
  match l with
  | [] => simp [syncDedup]
  | [a] => simp [syncDedup]
  | a :: b :: rest => exact ((dedupFrom_sublist b rest).cons_cons b).cons_cons a

theorem mem_syncDedup (x : α) (l : List α) : x ∈ syncDedup l ↔ x ∈ l := by
  refine ⟨fun h => (syncDedup_sublist l).subset h, fun h => ?_⟩
  match l, h with
  | [a], h => simpa [syncDedup] using h
  | a :: b :: rest, h =>
    simp only [syncDedup, List.mem_cons] at h ⊢
    rcases h with h | h | h
    · exact Or.inl h
    · exact Or.inr (Or.inl h)
    · rcases mem_dedupFrom b x rest h with h' | h'
      · exact Or.inr (Or.inl h')
      · exact Or.inr (Or.inr h')

theorem syncRequest_sorted (T1 T2 : List α) (tini tfin : α) : (syncRequest T1 T2 tini tfin).Pairwise (· ≤ ·) :=
  ((sortAsc_sorted (T1 ++ T2)).sublist List.filter_sublist).sublist (syncDedup_sublist _)

theorem mem_syncRequest (T1 T2 : List α) (tini tfin x : α) :
    x ∈ syncRequest T1 T2 tini tfin ↔ (x ∈ T1 ∨ x ∈ T2) ∧ tini < x ∧ x < tfin := by
  unfold syncRequest
  rw [mem_syncDedup, List.mem_filter, mem_sortAsc, List.mem_append]
  simp

theorem pmax_eq (a b : α) : pmax a b = max a b := by
  unfold pmax
  split
  · rename_i h; exact (max_eq_right (le_of_lt h)).symm
  · rename_i h; exact (max_eq_left (le_of_not_gt h)).symm

theorem pmin_eq (a b : α) : pmin a b = min a b := by
  unfold pmin
  split
  · rename_i h; exact (min_eq_right (le_of_lt h)).symm
  · rename_i h; exact (min_eq_left (le_of_not_gt h)).symm

end Field

/-! ### the clamp of the interpolated time (fix commit 20ed89f), WITHOUT exact arithmetic

`β` carries a linear order and four arbitrary binary operations: nothing is assumed of `+ − × ÷` (they may round, as
IEEE doubles do — the doubles without NaN are linearly ordered). What the clamp guarantees holds for every value the
weighted mean may take. -/
section AnyArith
variable {β : Type} [LinearOrder β] [Add β] [Sub β] [Mul β] [Div β] [OfNat β 0] [NatCast β]

theorem pmax_eq' (a b : β) : pmax a b = max a b := by
  unfold pmax
  split
  · rename_i h; exact (max_eq_right (le_of_lt h)).symm
  · rename_i h; exact (max_eq_left (le_of_not_gt h)).symm

theorem pmin_eq' (a b : β) : pmin a b = min a b := by
  unfold pmin
  split
  · rename_i h; exact (min_eq_right (le_of_lt h)).symm
  · rename_i h; exact (min_eq_left (le_of_not_gt h)).symm

/-- whatever `T` is, `min(max(T, tb), tf)` lies in `[tb, tf]` when `tb ≤ tf` -/
theorem clampT_mem (T tb tf : β) (h : tb ≤ tf) : tb ≤ clampT T tb tf ∧ clampT T tb tf ≤ tf := by
  unfold clampT
  rw [pmin_eq', pmax_eq']
  exact ⟨le_min (le_max_right _ _) h, min_le_right _ _⟩

/-- … and is `tf` when `tf ≤ tb` (in particular `t` on a leg travelled in no time, `tb = tf = t`) -/
theorem clampT_rev (T tb tf : β) (h : tf ≤ tb) : clampT T tb tf = tf := by
  unfold clampT
  rw [pmin_eq', pmax_eq']
  exact min_eq_right (le_trans h (le_max_right _ _))

theorem scanB_ge (v : β) : ∀ (l : List β) (i r : Nat), scanB v l i = some r → i ≤ r
  | [], _, _, h => by simp [scanB] at h
  | [_], i, r, h => by simp only [scanB, Option.some.injEq] at h; omega
  | w :: w' :: ws, i, r, h => by
    unfold scanB at h
    split at h
    · have := scanB_ge v (w' :: ws) (i + 1) r h; omega
    · simp only [Option.some.injEq] at h; omega

theorem advanceB_ge (V : List β) (v : β) (rid r : Nat) (h : advanceB V v rid = some r) : rid ≤ r :=
  scanB_ge v _ _ _ h

theorem bracket_inv {P : List (Fix β)} {V : List β} {v : β} {r : Nat} {pb pf : Fix β} {wb wf : β}
    (h : bracket P V v r = .ok (pb, pf, wb, wf)) : P[bwdIdx r P.length]? = some pb ∧ P[r]? = some pf := by
  unfold bracket at h
  split at h
  · rename_i a b c d e1 e2 e3 e4
    split at h
    · simp only [Except.ok.injEq, Prod.mk.injEq] at h
      exact ⟨by rw [e1, h.1], by rw [e2, h.2.1]⟩
    · exact absurd h (by simp)
  · exact absurd h (by simp)

theorem times_le (P : List (Fix β)) (hT : (P.map (·.t)).Pairwise (· ≤ ·)) {i j : Nat} {a b : Fix β}
    (ha : P[i]? = some a) (hb : P[j]? = some b) (hij : i ≤ j) : a.t ≤ b.t := by
  obtain ⟨hi, rfl⟩ := List.getElem?_eq_some_iff.mp ha
  obtain ⟨hj, rfl⟩ := List.getElem?_eq_some_iff.mp hb
  rcases Nat.eq_or_lt_of_le hij with h | h
  · subst h; exact le_refl _
  · have := List.pairwise_iff_getElem.mp hT i j (by simpa using hi) (by simpa using hj) h
    simpa using this

/-- the time of the output `o` lies between the stamps of the two fixes of the leg `r` (for `r = 0`, which Python reads
as the pair (last fix, first fix), the clamp returns the first stamp: both bounds are `P[0]`) -/
def OnLeg (P : List (Fix β)) (r : Nat) (o : Fix β) : Prop :=
  ∃ pb pf, P[r - 1]? = some pb ∧ P[r]? = some pf ∧ pb.t ≤ o.t ∧ o.t ≤ pf.t

/-- the spatial loop, any arithmetic: with stamps that never decrease, every output's time lies between the two stamps of
its leg, and the legs used never go backwards (`running_id` only advances) -/
theorem spatialLoop_any (P : List (Fix β)) (hT : (P.map (·.t)).Pairwise (· ≤ ·)) (S : List β) (sini sfin ds : β) :
    ∀ (n k rid : Nat) (out : List (Fix β)), spatialLoop P S sini sfin ds n k rid = .ok out →
      ∃ legs : List Nat, List.Forall₂ (OnLeg P) legs out ∧ (∀ r ∈ legs, rid ≤ r) ∧ legs.Pairwise (· ≤ ·)
  | 0, _, _, out, h => by
    simp only [spatialLoop, Except.ok.injEq] at h
    subst h
    exact ⟨[], List.Forall₂.nil, by simp, List.Pairwise.nil⟩
  | n + 1, k, rid, out, h => by
    unfold spatialLoop at h
    simp only [] at h
    split at h
    · exact absurd h (by simp)
    · rename_i r hadv
      split at h
      · exact absurd h (by simp)
      · rename_i pb pf wb wf hbr
        split at h
        · exact absurd h (by simp)
        · rename_i out' hrec
          simp only [Except.ok.injEq] at h
          subst h
          obtain ⟨legs, hF, hge, hpw⟩ := spatialLoop_any P hT S sini sfin ds n (k + 1) r out' hrec
          obtain ⟨e1, e2⟩ := bracket_inv hbr
          have hrid := advanceB_ge S _ rid r hadv
          refine ⟨r :: legs, List.Forall₂.cons ?_ hF, ?_, List.pairwise_cons.mpr ⟨hge, hpw⟩⟩
          · by_cases hr0 : r = 0
            · subst hr0
              have hlen : 0 < P.length := (List.getElem?_eq_some_iff.mp e2).1
              have hb : bwdIdx 0 P.length = P.length - 1 := by simp [bwdIdx]
              rw [hb] at e1
              have hle : pf.t ≤ pb.t := times_le P hT e2 e1 (Nat.zero_le _)
              refine ⟨pf, pf, e2, e2, ?_, ?_⟩ <;> simp only [clampT_rev _ _ _ hle] <;> exact le_refl _
            · have hb : bwdIdx r P.length = r - 1 := by simp [bwdIdx, hr0]
              rw [hb] at e1
              have hle : pb.t ≤ pf.t := times_le P hT e1 e2 (Nat.sub_le _ _)
              obtain ⟨c1, c2⟩ := clampT_mem (wb * pb.t + wf * pf.t) pb.t pf.t hle
              exact ⟨pb, pf, e1, e2, c1, c2⟩
          · intro x hx
            rcases List.mem_cons.mp hx with h | h
            · omega
            · have := hge x h; omega

/-- consequence: two outputs on different legs `r < r'` are in chronological order; so are two outputs of a leg travelled
in no time (both carry its stamp) -/
theorem onLeg_le (P : List (Fix β)) (hT : (P.map (·.t)).Pairwise (· ≤ ·)) {r r' : Nat} {o o' : Fix β}
    (h : OnLeg P r o) (h' : OnLeg P r' o') (hrr : r < r') : o.t ≤ o'.t := by
  obtain ⟨_, pf, _, e2, _, c2⟩ := h
  obtain ⟨pb', _, e1', _, c1', _⟩ := h'
  exact le_trans c2 (le_trans (times_le P hT e2 e1' (by omega)) c1')

theorem onLeg_eq (P : List (Fix β)) {r : Nat} {o : Fix β} (h : OnLeg P r o)
    (heq : ∀ pb pf, P[r - 1]? = some pb → P[r]? = some pf → pb.t = pf.t) :
    ∀ pf, P[r]? = some pf → o.t = pf.t := by
  obtain ⟨pb, pf, e1, e2, c1, c2⟩ := h
  intro pf' e2'
  rw [e2] at e2'
  cases e2'
  have := heq pb pf e1 e2
  exact le_antisymm c2 (this ▸ c1)

end AnyArith

end TV.Resample
