import TracklibVerif.Lemmas.FeaturesResult
/-! Two more facts about the tables: a track that is handed a table (`mkSt`: what `copy`, `extract`, a slice, `+`
build) is aligned and abstracts to that table; and the per-observation read path agrees with the column read. -/
set_option linter.unusedSectionVars false
namespace TV.Features
variable {V : Type} [Inhabited V]

theorem colAt_mkRows (cols : List (String × List V)) (k : Nat) (hlen : ∀ p ∈ cols, p.2.length = k)
    (j : Nat) (hj : j < cols.length) :
    colAt ((List.range k).map (fun i => cols.map (fun p => p.2.getD i default))) j = (cols[j]).2 := by
  have hl := hlen cols[j] (List.getElem_mem hj)
  apply List.ext_getElem
  · simp [colAt, hl]
  · intro i h1 h2
    simp only [colAt, List.getElem_map, List.getElem_range]
    have hi : i < k := by simpa [colAt] using h1
    simp [List.getD_eq_getElem?_getD, hj, hl, hi]

theorem abs_mkSt (cols : List (String × List V)) (xs ys zs ts : List V)
    (hlen : ∀ p ∈ cols, p.2.length = xs.length) :
    abs (mkSt cols xs ys zs ts) = { cols := cols, xs := xs, ys := ys, zs := zs, ts := ts } := by
  unfold abs mkSt
  simp only
  congr 1
  apply List.ext_getElem?
  intro j
  simp only [List.getElem?_map, List.getElem?_zipIdx, Nat.zero_add]
  cases hj : cols[j]? with
  | none => simp
  | some p =>
    have hlt : j < cols.length := (List.getElem?_eq_some_iff.mp hj).1
    have hp : cols[j] = p := (List.getElem?_eq_some_iff.mp hj).2
    simp only [Option.map_some]
    rw [colAt_mkRows cols xs.length hlen j hlt, hp]

/-- a track handed a table with distinct names and one value per observation in every column is aligned -/
theorem inv_mkSt (cols : List (String × List V)) (xs ys zs ts : List V)
    (hnd : (cols.map Prod.fst).Nodup) (hy : ys.length = xs.length) (hz : zs.length = xs.length)
    (ht : ts.length = xs.length) : Inv xs.length (mkSt cols xs ys zs ts) := by
  have hn : names (mkSt cols xs ys zs ts) = cols.map Prod.fst := by
    simp [names, mkSt, List.zipIdx_map_fst]
  refine ⟨by rw [hn]; rfl, by rw [hn]; exact hnd, ?_, by simp [mkSt], rfl, hy, hz, ht⟩
  intro r hr
  simp only [mkSt, List.mem_map, List.mem_range] at hr
  obtain ⟨i, _, rfl⟩ := hr
  simp [mkSt]

/-- on the specification table, reading one cell returns the element of the column -/
theorem acell_agrees (o : Ops V) (a : ATab V) (m : String) (col : List V) (hc : (getA o m a).1 = .ok col)
    (i : Nat) (hi : i < col.length) : getObsA o m i a = (.ok (col[i]'hi), a) := by
  unfold getA at hc
  unfold getObsA
  cases hco : coord? m with
  | some c =>
    simp only [hco] at hc ⊢
    have : a.coord c = col := by injection hc
    subst this
    simp [hi]
  | none =>
    simp only [hco] at hc ⊢
    by_cases h1 : (m == "timestamp") = true
    · simp [h1] at hc
    · simp only [h1, Bool.false_eq_true, if_false] at hc ⊢
      by_cases h2 : (m == "idx") = true
      · simp only [h2, if_true] at hc ⊢
        have : (List.range a.size).map o.ofNat = col := by injection hc
        subst this
        simp
      · simp only [h2, Bool.false_eq_true, if_false] at hc ⊢
        cases hl : lookup a.cols m with
        | none => simp [hl] at hc
        | some c' =>
          simp only [hl] at hc ⊢
          have : c' = col := by injection hc
          subst this
          simp [hi]

theorem getObsC_state (o : Ops V) (m : String) (i : Nat) (st : St V) : (getObsC o m i st).2 = st := by
  unfold getObsC
  split
  · split <;> rfl
  · split
    · rfl
    · split
      · rfl
      · split
        · rfl
        · split
          · rfl
          · split <;> rfl

end TV.Features
