import TracklibVerif.Lemmas.ViterbiLik
/-! The sentinel hypothesis `PathsBelow` from a bound on the table entries (C09): when no entry of the cost tables
exceeds `B ≥ 0`, the running cost of a candidate sequence at the moment it is compared with `best_val` at epoch
`k+1` is at most `(2k+2)·B`; so `(2N)·B < 1e300` suffices. For likelihood tables of non-negative likelihoods
`B = -log eps` (690.78 for the code's guard): the hypothesis holds for every track of fewer than `7·10^296` epochs. -/
namespace TV.Viterbi
variable {α : Type} [LinearOrder α] [AddCommMonoid α] [IsOrderedAddMonoid α]

theorem cost_le_nsmul (t : Tables α) (hadd : t.add = (· + ·)) (B : α) (N : Nat)
    (hobs : ∀ k l, k ≤ N → l < t.n k → t.obs k l ≤ B)
    (htr : ∀ k m l, k < N → m < t.n k → l < t.n (k+1) → t.trans k m l ≤ B)
    (σ : Nat → Nat) (hσ : ∀ k, k ≤ N → σ k < t.n k) :
    ∀ k, k ≤ N → cost t σ k ≤ (2 * k + 1) • B := by
  intro k
  induction k with
  | zero => intro hk; simpa [cost] using hobs 0 (σ 0) hk (hσ 0 hk)
  | succ k ih =>
    intro hk
    have h1 := htr k (σ k) (σ (k+1)) (by omega) (hσ k (by omega)) (hσ (k+1) hk)
    have h2 := ih (by omega)
    have h3 := hobs (k+1) (σ (k+1)) hk (hσ (k+1) hk)
    simp only [cost, hadd]
    have e : (2 * (k + 1) + 1) • B = (B + (2 * k + 1) • B) + B := by
      rw [show 2 * (k + 1) + 1 = (2 * k + 1) + 1 + 1 by ring]
      simp only [succ_nsmul]
      abel
    rw [e]
    exact add_le_add (add_le_add h1 h2) h3

/-- **bounded entries ⇒ the sentinel is never reached** -/
theorem pathsBelow_of_bounded (t : Tables α) (hadd : t.add = (· + ·)) (B : α) (hB : 0 ≤ B) (N : Nat)
    (hobs : ∀ k l, k ≤ N → l < t.n k → t.obs k l ≤ B)
    (htr : ∀ k m l, k < N → m < t.n k → l < t.n (k+1) → t.trans k m l ≤ B)
    (hbig : (2 * N) • B < t.big) : PathsBelow t N := by
  intro σ hσ k hk
  have h1 := htr k (σ k) (σ (k+1)) hk (hσ k (by omega)) (hσ (k+1) (by omega))
  have h2 := cost_le_nsmul t hadd B N hobs htr σ hσ k (by omega)
  rw [hadd]
  have e : B + (2 * k + 1) • B = (2 * k + 2) • B := by
    rw [show 2 * k + 2 = (2 * k + 1) + 1 by ring]
    simp only [succ_nsmul]
    abel
  refine lt_of_le_of_lt (le_trans (add_le_add h1 h2) ?_) hbig
  rw [e]
  exact nsmul_le_nsmul_left hB (by omega)

/-- likelihood tables of NON-NEGATIVE likelihoods with a guard `0 < eps ≤ 1`: every cost is at most `-log eps` -/
theorem likTables_pathsBelow (n : Nat → Nat) (p : Nat → Nat → ℝ) (q : Nat → Nat → Nat → ℝ) (eps big : ℝ) (N : Nat)
    (he : 0 < eps) (he1 : eps ≤ 1)
    (hp : ∀ k l, k ≤ N → l < n k → 0 ≤ p k l)
    (hq : ∀ k m l, k < N → m < n k → l < n (k+1) → 0 ≤ q k m l)
    (hbig : (2 * N : ℝ) * (- Real.log eps) < big) : PathsBelow (likTables n p q eps big false) N := by
  have key : ∀ v : ℝ, 0 ≤ v → - Real.log (v + eps) ≤ - Real.log eps := by
    intro v hv
    exact neg_le_neg (Real.log_le_log he (by linarith))
  apply pathsBelow_of_bounded (likTables n p q eps big false) rfl (- Real.log eps)
    (by have := Real.log_nonpos (le_of_lt he) he1; linarith) N
  · intro k l hk hl
    simpa [likTables, costOf] using key _ (hp k l hk hl)
  · intro k m l hk hm hl
    simpa [likTables, costOf] using key _ (hq k m l hk hm hl)
  · simpa [likTables, nsmul_eq_mul] using hbig
end TV.Viterbi
