import TracklibVerif.Lemmas.MapMatch
import TracklibVerif.Props.C20
/-! Helper lemmas for C10 that rest on the C20 theorems: soundness of the candidate loop, the inference
column, positions. -/
namespace TV.MapMatch
open TV.Proj
variable {α : Type} [Field α] [LinearOrder α] [IsStrictOrderedRing α]

/-- the flag state `(position, -1, -1, -1)` -/
def IsFlag (pos : α × α) (s : State α) : Prop := s.p = pos ∧ s.edge = -1 ∧ s.d0 = -1 ∧ s.d1 = -1

/-- a sound candidate for an observation at `pos`: an existing edge number, a point on a segment of that edge's
geometry, strictly within the radius, and — when the edge's `abs_curv` column is the one `computeAbsCurv`
makes — distances to the two end nodes that add up to the edge length (last `abs_curv` value) -/
def Sound (sqrt : α → α) (radius : α) (edges : List (Edge α)) (pos : α × α) (s : State α) : Prop :=
  ∃ (elem : Nat) (eg : Edge α) (i : Nat) (p1 p2 : α × α) (d : α),
    s.edge = (elem : Int) ∧ edges[elem]? = some eg ∧ eg.geom[i]? = some p1 ∧ eg.geom[i + 1]? = some p2 ∧
    OnSeg p1.1 p1.2 p2.1 p2.2 s.p.1 s.p.2 ∧ 0 ≤ d ∧ d * d = d2 pos.1 pos.2 s.p.1 s.p.2 ∧ d < radius ∧
    (eg.curv = absCurv sqrt eg.geom → ∃ len, eg.curv[eg.geom.length - 1]? = some len ∧ s.d0 + s.d1 = len)

/-- `__distToNode(track, coord, i, 1)` reads `track[i + 1]`: when it returns, the geometry has at least two vertices
(so that the segment the projection reports exists — also when every segment of the geometry is skipped and the
projection answers with the first vertex, index 0) -/
theorem distToNode_one_geom (sqrt : α → α) (e : Edge α) (coord : α × α) (i : Nat) (b : α)
    (h : distToNode sqrt e coord i 1 = some b) : 2 ≤ e.geom.length := by
  unfold distToNode at h
  split at h
  · simp only [Nat.succ_ne_zero, ↓reduceIte, OfNat.ofNat_ne_zero, one_ne_zero] at h
    split at h
    · rename_i hg
      have := (List.getElem?_eq_some_iff.mp hg).1
      omega
    · cases h
  · cases h

theorem candLoop_sound {sqrt : α → α} (hs : SqrtSpec sqrt) (eps radius : α) (edges : List (Edge α)) (pos : α × α)
    (E : List Nat) : ∀ (acc res : List (State α)), (∀ s ∈ acc, Sound sqrt radius edges pos s) →
      candLoop sqrt eps radius edges pos E acc = .ok res → ∀ s ∈ res, Sound sqrt radius edges pos s := by
  induction E with
  | nil =>
    intro acc res hacc h
    simp only [candLoop] at h; injection h with h; subst h; exact hacc
  | cons elem rest ih =>
    intro acc res hacc h
    rw [candLoop] at h
    cases he : edges[elem]? with
    | none => rw [he] at h; cases h
    | some eg =>
      rw [he] at h
      simp only at h
      cases hp : projOnTrack sqrt eps eg.geom pos.1 pos.2 with
      | error e => rw [hp] at h; cases h
      | ok r =>
        rw [hp] at h
        simp only at h
        obtain ⟨⟨px, py⟩, d, i⟩ := r
        simp only at h
        split at h
        · rename_i hlt
          cases ha : distToNode sqrt eg (px, py) i 0 with
          | none => rw [ha] at h; cases h
          | some a =>
            cases hb : distToNode sqrt eg (px, py) i 1 with
            | none => rw [ha, hb] at h; cases h
            | some b =>
              rw [ha, hb] at h
              simp only at h
              refine ih _ res ?_ h
              intro s hsm
              rcases List.mem_append.mp hsm with hm | hm
              · exact hacc s hm
              · simp only [List.mem_singleton] at hm
                subst hm
                have hpoly := (TV.C20.projOnTrack_spec sqrt eps eg.geom pos.1 pos.2 d px py i).mp hp
                obtain ⟨d0, dd, p1, g1, hseg, _⟩ := TV.C20.proj_polyline_on hs eps eg.geom pos.1 pos.2 d px py i hpoly
                obtain ⟨p2, g2, hon⟩ := hseg (distToNode_one_geom sqrt eg (px, py) i b hb)
                exact ⟨elem, eg, i, p1, p2, d, rfl, he, g1, g2, hon, d0, dd, hlt,
                  fun hc => distToNode_sum hs eg (px, py) i a b p1 p2 g1 g2 hon ha hb hc⟩
        · exact ih _ res hacc h

/-- the inference column: one state per epoch, each taken from that epoch's candidate list -/
theorem inferAll_mem (ss : List (List (State α))) :
    ∀ (idx : List Nat) (inf : List (State α)), inferAll ss idx = .ok inf →
      inf.length = ss.length ∧ ∀ (k : Nat) (st : State α), inf[k]? = some st → ∃ l, ss[k]? = some l ∧ st ∈ l := by
  induction ss with
  | nil =>
    intro idx inf h
    simp only [inferAll] at h; injection h with h; subst h
    exact ⟨rfl, fun k st hk => by simp at hk⟩
  | cons s rest ih =>
    intro idx inf h
    rw [inferAll] at h
    cases h1 : s[idx.head?.getD 0]? with
    | none => rw [h1] at h; cases h
    | some st0 =>
      rw [h1] at h
      simp only at h
      cases h2 : inferAll rest idx.tail with
      | error e => rw [h2] at h; cases h
      | ok r =>
        rw [h2] at h
        injection h with h; subst h
        obtain ⟨l, f⟩ := ih _ _ h2
        refine ⟨by simp [l], ?_⟩
        intro k st hk
        cases k with
        | zero =>
          simp only [List.getElem?_cons_zero, Option.some.injEq] at hk
          subst hk
          exact ⟨s, by simp, List.mem_of_getElem? h1⟩
        | succ k =>
          simp only [List.getElem?_cons_succ] at hk ⊢
          exact f k st hk

/-- any in-range index list is accepted by the backward step (no `IndexError`) -/
theorem inferAll_total (ss : List (List (State α))) :
    ∀ (idx : List Nat), (∀ (k : Nat) (l : List (State α)), ss[k]? = some l → idx[k]?.getD 0 < l.length) →
      ∃ inf, inferAll ss idx = .ok inf := by
  induction ss with
  | nil => intro idx _; exact ⟨[], by simp only [inferAll]⟩
  | cons s rest ih =>
    intro idx h
    have h0 := h 0 s (by simp)
    have e0 : idx[0]?.getD 0 = idx.head?.getD 0 := by cases idx <;> simp
    rw [e0] at h0
    obtain ⟨r, hr⟩ := ih idx.tail (fun k l hk => by
      have := h (k + 1) l (by simpa using hk)
      have e : idx[k + 1]? = idx.tail[k]? := by cases idx <;> simp
      rw [e] at this; exact this)
    rw [inferAll]
    have : s[idx.head?.getD 0]? = some (s[idx.head?.getD 0]'h0) := List.getElem?_eq_getElem h0
    rw [this, hr]
    exact ⟨_, rfl⟩

theorem newPositions_id (mode : Nat) (hm : writesPositions mode = false) :
    ∀ (track : List (Obs α)) (inf : List (State α)), newPositions mode track inf = track := by
  intro track
  induction track with
  | nil => intro inf; cases inf <;> simp [newPositions]
  | cons o os ih =>
    intro inf
    cases inf with
    | nil => simp [newPositions]
    | cons s ss => simp [newPositions, hm, ih]

/-- whatever the mode, the count and the timestamps are kept -/
theorem newPositions_times (mode : Nat) :
    ∀ (track : List (Obs α)) (inf : List (State α)),
      (newPositions mode track inf).map (·.t) = track.map (·.t) := by
  intro track
  induction track with
  | nil => intro inf; cases inf <;> simp [newPositions]
  | cons o os ih =>
    intro inf
    cases inf with
    | nil => simp [newPositions]
    | cons s ss =>
      simp only [newPositions, List.map_cons, ih]
      split <;> rfl

end TV.MapMatch
