import TracklibVerif.Model.GeoNum
import TracklibVerif.Lemmas.Geo
/-! Over exact arithmetic the conversions do not depend on the number types of the coordinates: `float(·)` commutes with
every operation of `Num ℝ`, hence with every formula of `Model/Geo.lean` instantiated at `Num ℝ`. -/
namespace TV.GeoNum
open TV.Geo

/-- `float(q)` over the reals: the number itself -/
noncomputable instance : OfRat ℝ := ⟨fun q => (q : ℝ)⟩

@[simp] theorem toF_flt (f : ℝ) : (Num.flt f).toF = f := rfl
@[simp] theorem toF_exact (q : Rat) : (Num.exact q : Num ℝ).toF = (q : ℝ) := rfl

@[simp] theorem toF_add (a b : Num ℝ) : (a + b).toF = a.toF + b.toF := by
  show (Num.add a b).toF = _
  cases a <;> cases b <;> simp [Num.add]

@[simp] theorem toF_sub (a b : Num ℝ) : (a - b).toF = a.toF - b.toF := by
  show (Num.sub a b).toF = _
  cases a <;> cases b <;> simp [Num.sub]

@[simp] theorem toF_mul (a b : Num ℝ) : (a * b).toF = a.toF * b.toF := by
  show (Num.mul a b).toF = _
  cases a <;> cases b <;> simp [Num.mul]

@[simp] theorem toF_div (a b : Num ℝ) : (a / b).toF = a.toF / b.toF := rfl

@[simp] theorem toF_neg (a : Num ℝ) : (-a).toF = -a.toF := by
  show (Num.neg a).toF = _
  cases a <;> simp [Num.neg]

@[simp] theorem toF_lit (m : Nat) (s : Bool) (e : Nat) :
    (OfScientific.ofScientific m s e : Num ℝ).toF = OfScientific.ofScientific m s e := rfl

variable (T : Trig ℝ)

@[simp] theorem toF_pi : (trig T).pi.toF = T.pi := rfl
@[simp] theorem toF_sin (x : Num ℝ) : ((trig T).sin x).toF = T.sin x.toF := rfl
@[simp] theorem toF_cos (x : Num ℝ) : ((trig T).cos x).toF = T.cos x.toF := rfl
@[simp] theorem toF_tan (x : Num ℝ) : ((trig T).tan x).toF = T.tan x.toF := rfl
@[simp] theorem toF_atan (x : Num ℝ) : ((trig T).atan x).toF = T.atan x.toF := rfl
@[simp] theorem toF_atan2 (y x : Num ℝ) : ((trig T).atan2 y x).toF = T.atan2 y.toF x.toF := rfl
@[simp] theorem toF_sqrt (x : Num ℝ) : ((trig T).sqrt x).toF = T.sqrt x.toF := rfl
@[simp] theorem toF_log (x : Num ℝ) : ((trig T).log x).toF = T.log x.toF := rfl
@[simp] theorem toF_exp (x : Num ℝ) : ((trig T).exp x).toF = T.exp x.toF := rfl
@[simp] theorem toF_pow (x y : Num ℝ) : ((trig T).pow x y).toF = T.pow x.toF y.toF := rfl

theorem geoToEcef_num (g : V3 (Num ℝ)) : v3F (geoToEcef (trig T) g) = geoToEcef T (v3F g) := by
  simp [geoToEcef, v3F, Re, Fe]

theorem ecefToGeo_num (p : V3 (Num ℝ)) : v3F (ecefToGeo (trig T) p) = ecefToGeo T (v3F p) := by
  simp [ecefToGeo, v3F, Re, Fe]

theorem toEcef_num (b : Base (Num ℝ)) : v3F (b.toEcef (trig T)) = (baseF b).toEcef T := by
  cases b <;> simp [Base.toEcef, baseF, geoToEcef_num]

theorem toGeo_num (b : Base (Num ℝ)) : v3F (b.toGeo (trig T)) = (baseF b).toGeo T := by
  cases b <;> simp [Base.toGeo, baseF, ecefToGeo_num]

theorem baseF_ecef (c : V3 (Num ℝ)) : baseF (Base.ecef c) = Base.ecef (v3F c) := rfl

section
variable (b : Base (Num ℝ))
theorem toEcef_x : (b.toEcef (trig T)).x.toF = ((baseF b).toEcef T).x := congrArg V3.x (toEcef_num T b)
theorem toEcef_y : (b.toEcef (trig T)).y.toF = ((baseF b).toEcef T).y := congrArg V3.y (toEcef_num T b)
theorem toEcef_z : (b.toEcef (trig T)).z.toF = ((baseF b).toEcef T).z := congrArg V3.z (toEcef_num T b)
theorem frame_x : (ecefToGeo (trig T) (b.toEcef (trig T))).x.toF = (ecefToGeo T ((baseF b).toEcef T)).x := by
  have h := congrArg V3.x (ecefToGeo_num T (b.toEcef (trig T)))
  rw [toEcef_num] at h
  exact h
theorem frame_y : (ecefToGeo (trig T) (b.toEcef (trig T))).y.toF = (ecefToGeo T ((baseF b).toEcef T)).y := by
  have h := congrArg V3.y (ecefToGeo_num T (b.toEcef (trig T)))
  rw [toEcef_num] at h
  exact h
end

theorem ecefToEnu_num (p : V3 (Num ℝ)) (b : Base (Num ℝ)) :
    v3F (ecefToEnu (trig T) p b) = ecefToEnu T (v3F p) (baseF b) := by
  simp [ecefToEnu, v3F, toEcef_x, toEcef_y, toEcef_z, frame_x, frame_y]

theorem enuToEcef_num (q : V3 (Num ℝ)) (b : Base (Num ℝ)) :
    v3F (enuToEcef (trig T) q b) = enuToEcef T (v3F q) (baseF b) := by
  simp [enuToEcef, v3F, toEcef_x, toEcef_y, toEcef_z, frame_x, frame_y]

theorem geoToEnu_num (g : V3 (Num ℝ)) (b : Base (Num ℝ)) :
    v3F (geoToEnu (trig T) g b) = geoToEnu T (v3F g) (baseF b) := by
  simp only [geoToEnu, ecefToEnu_num, baseF_ecef, geoToEcef_num, toEcef_num]

theorem enuToGeo_num (q : V3 (Num ℝ)) (b : Base (Num ℝ)) :
    v3F (enuToGeo (trig T) q b) = enuToGeo T (v3F q) (baseF b) := by
  simp only [enuToGeo, ecefToGeo_num, enuToEcef_num, baseF_ecef, toEcef_num]

theorem enuToEnu_num (q : V3 (Num ℝ)) (b1 b2 : Base (Num ℝ)) :
    v3F (enuToEnu (trig T) q b1 b2) = enuToEnu T (v3F q) (baseF b1) (baseF b2) := by
  simp only [enuToEnu, ecefToEnu_num, enuToEcef_num, baseF_ecef, toEcef_num]

theorem toLambert93_num (c : V3 (Num ℝ)) : v3F (toLambert93 (trig T) c) = toLambert93 T (v3F c) := by
  simp [toLambert93, v3F, lambE, lambXp, lambYp, lambN, lambC, lambLambda0]

end TV.GeoNum
