import TracklibVerif.Lemmas.GraphStop
/-! Lemmas for C06: the specification `IsDist`, the label of the target under target stop + cut-off,
and the `{(source, node): distance}` table built by `all_shortest_distances` / `prepare`. -/
namespace TV.Graph
variable {W : Type} [LinearOrder W] [Add W] [Zero W] [WalkAdd W]

/-- `y` is the minimum total weight over all walks of permitted arcs from `s` to `v` -/
def IsDist (net : Net W) (s v : Nat) (y : W) : Prop := Walk net s v y ∧ ∀ c, Walk net s v c → y ≤ c

/-- some walk of permitted arcs leads from `s` to `v` -/
def Reachable (net : Net W) (s v : Nat) : Prop := ∃ c, Walk net s v c

theorem IsDist.unique {net : Net W} {s v : Nat} {y y' : W} (h : IsDist net s v y) (h' : IsDist net s v y') : y = y' :=
  le_antisymm (h.2 y' h'.1) (h'.2 y h.1)

/-- the labels of the complete plain run are the distances -/
theorem run_isDist (net : Net W) (hnet : WFNet net) (s : Nat) (hs : s < net.n) (v : Nat) (y : W) :
    (run net net.n (St.init s)).d v = some y ↔ IsDist net s v y := by
  obtain ⟨h1, h2, _⟩ := forward_correct net hnet s hs
  constructor
  · intro h
    refine ⟨h2 v y h, fun c hc => ?_⟩
    obtain ⟨y', hy', hle⟩ := h1 v c hc
    rw [h] at hy'; cases hy'; exact hle
  · rintro ⟨hw, hmin⟩
    obtain ⟨y', hy', hle⟩ := h1 v y hw
    have := hmin y' (h2 v y' hy')
    rw [hy']; congr 1; exact le_antisymm hle this

theorem run_none (net : Net W) (hnet : WFNet net) (s : Nat) (hs : s < net.n) (v : Nat) :
    (run net net.n (St.init s)).d v = none ↔ ¬ Reachable net s v :=
  (forward_correct net hnet s hs).2.2 v

/-- the run stopped at the target leaves the target with its true distance -/
theorem shortestDistance_spec (net : Net W) (hnet : WFNet net) (s t : Nat) (hs : s < net.n) :
    (∀ y, shortestDistance net s t none = some y ↔ IsDist net s t y) ∧
    (shortestDistance net s t none = none ↔ ¬ Reachable net s t) := by
  unfold shortestDistance runForward
  rw [forward_target]
  exact ⟨run_isDist net hnet s hs t, run_none net hnet s hs t⟩

/-- anything preserved by one iteration holds in the state left by the coded loop -/
theorem forward_preserves (net : Net W) (Q : St W → Prop)
    (hQ : ∀ st u du, Q st → popMinAux st net.n = some (u, du) → Q (settle net st u du))
    (tgt : Option Nat) (cut : Option W) (f : Nat) (st : St W) (out : List (Nat × W)) (h : Q st) :
    Q (forward net tgt cut f st out).1 := by
  induction f generalizing st out with
  | zero => exact h
  | succ f ih =>
    unfold forward
    cases hp : popMinAux st net.n with
    | none => exact h
    | some p =>
      obtain ⟨u, du⟩ := p
      simp only []
      split
      · exact h
      · exact ih _ _ (hQ st u du h hp)

theorem forward_inv (net : Net W) (hnet : WFNet net) (s : Nat) (tgt : Option Nat) (cut : Option W)
    (f : Nat) (st : St W) (out : List (Nat × W)) (h : Inv net s st) : Inv net s (forward net tgt cut f st out).1 :=
  forward_preserves net (Inv net s) (fun st u du hi hp => settle_inv net hnet s st hi u du hp) tgt cut f st out h

/-- T4 with a cut-off: if the final label of `t` does not exceed the cut-off, the run stopped at the target
or by the cut-off leaves `t` with that label -/
theorem forward_label (net : Net W) (hnet : WFNet net) (s t : Nat) (cut : Option W) (y : W) (hw : Within cut y)
    (f : Nat) (st : St W) (out : List (Nat × W)) (hinv : Inv net s st)
    (hy : (run net f st).d t = some y) : (forward net (some t) cut f st out).1.d t = some y := by
  induction f generalizing st out with
  | zero => exact hy
  | succ f ih =>
    cases hp : popMinAux st net.n with
    | none =>
      have hr : run net (f+1) st = st := by unfold run; rw [step_eq, hp]; rfl
      have hfw : forward net (some t) cut (f+1) st out = (st, out) := by unfold forward; rw [hp]
      rw [hfw]; rw [hr] at hy; exact hy
    | some p =>
      obtain ⟨u, du⟩ := p
      obtain ⟨_, _, hud, hmin⟩ := popMin_facts hp
      by_cases hstop : stops (some t) cut u du = true
      · have hfw : forward net (some t) cut (f+1) st out = (st, out) := by
          unfold forward; rw [hp]; simp only [hstop, if_true]
        rw [hfw]
        by_cases hut : u = t
        · subst hut
          rw [run_popped net (f+1) st u du hp] at hy
          rw [← hy]; exact hud
        · obtain ⟨c, hc, hlt⟩ : ∃ c, cut = some c ∧ c < du := by
            cases hcc : cut with
            | none => simp [stops, hcc, hut] at hstop
            | some c => refine ⟨c, rfl, ?_⟩; simpa [stops, hcc, hut] using hstop
          cases hv : st.vis t with
          | true => rw [(run_stable net (f+1) st t hv).1] at hy; exact hy
          | false =>
            have hLB : LB st du := fun v y' hvv hdv => hmin v y' (hinv.j6 v y' hdv) hvv hdv
            have h1 : du ≤ y := run_LB net hnet du (f+1) st hLB t y hv hy
            exact absurd (lt_of_lt_of_le hlt (le_trans h1 (hw c hc))) (lt_irrefl _)
      · have hfw : forward net (some t) cut (f+1) st out
            = forward net (some t) cut f (settle net st u du) (out ++ [(u, du)]) := by
          conv => lhs; unfold forward
          rw [hp]; simp only [hstop, Bool.false_eq_true, if_false]
        have hr : run net (f+1) st = run net f (settle net st u du) := by
          conv => lhs; unfold run
          rw [step_eq, hp]; rfl
        rw [hfw]; rw [hr] at hy
        exact ih _ _ (settle_inv net hnet s st hinv u du hp) hy

/-! ### the table -/

theorem record_spec (tb : Table W) (s : Nat) (out : List (Nat × W)) :
    (∀ s' v y, record tb s out (s', v) = some y → (s' = s ∧ (v, y) ∈ out) ∨ tb (s', v) = some y) ∧
    (∀ s' v, s' ≠ s → record tb s out (s', v) = tb (s', v)) ∧
    (∀ v, (record tb s out (s, v) = tb (s, v)) ∨ ∃ y, record tb s out (s, v) = some y ∧ (v, y) ∈ out) ∧
    (∀ v y, (v, y) ∈ out → ∃ y', record tb s out (s, v) = some y' ∧ (v, y') ∈ out) := by
  induction out generalizing tb with
  | nil =>
    refine ⟨fun s' v y h => Or.inr h, fun _ _ _ => rfl, fun v => Or.inl rfl, fun v y h => by simp at h⟩
  | cons p out ih =>
    obtain ⟨i1, i2, i3, i4⟩ := ih (tb.set (s, p.1) p.2)
    have hrec : record tb s (p :: out) = record (tb.set (s, p.1) p.2) s out := by
      simp [record, List.foldl_cons]
    rw [hrec]
    refine ⟨?_, ?_, ?_, ?_⟩
    · intro s' v y h
      rcases i1 s' v y h with ⟨a, b⟩ | h'
      · exact Or.inl ⟨a, List.mem_cons_of_mem _ b⟩
      · simp only [Table.set] at h'
        split at h'
        · rename_i heq
          simp only [Prod.mk.injEq] at heq
          obtain ⟨rfl, rfl⟩ := heq
          cases h'
          exact Or.inl ⟨rfl, List.mem_cons_self⟩
        · exact Or.inr h'
    · intro s' v hne
      rw [i2 s' v hne]
      simp only [Table.set]
      split
      · rename_i heq
        simp only [Prod.mk.injEq] at heq
        exact absurd heq.1 hne
      · rfl
    · intro v
      rcases i3 v with h | ⟨y, h, hm⟩
      · by_cases hv : v = p.1
        · right
          refine ⟨p.2, ?_, by rw [hv]; exact List.mem_cons_self⟩
          rw [h]; simp [Table.set, hv]
        · left
          rw [h]; simp [Table.set, hv]
      · exact Or.inr ⟨y, h, List.mem_cons_of_mem _ hm⟩
    · intro v y hm
      rcases List.mem_cons.mp hm with h | h
      · rcases i3 v with h3 | ⟨y', h3, hm'⟩
        · refine ⟨y, ?_, hm⟩
          rw [h3, ← h]; simp [Table.set]
        · exact ⟨y', h3, List.mem_cons_of_mem _ hm'⟩
      · obtain ⟨y', a, b⟩ := i4 v y h
        exact ⟨y', a, List.mem_cons_of_mem _ b⟩

/-- the table after folding `record` over the sources of `order`, for any per-source entry lists `F` -/
theorem fold_record_sound (F : Nat → List (Nat × W)) (order : List Nat) (tb : Table W) (s v : Nat) (y : W)
    (h : (order.foldl (fun tb s => record tb s (F s)) tb) (s, v) = some y) :
    (s ∈ order ∧ (v, y) ∈ F s) ∨ tb (s, v) = some y := by
  induction order generalizing tb with
  | nil => exact Or.inr h
  | cons s0 rest ih =>
    simp only [List.foldl_cons] at h
    rcases ih _ h with ⟨a, b⟩ | h'
    · exact Or.inl ⟨List.mem_cons_of_mem _ a, b⟩
    · rcases (record_spec tb s0 (F s0)).1 s v y h' with ⟨rfl, b⟩ | h''
      · exact Or.inl ⟨List.mem_cons_self, b⟩
      · exact Or.inr h''

/-- an entry satisfying `A` stays an entry satisfying `A` when every entry recorded for that key satisfies `A` -/
theorem fold_record_good (F : Nat → List (Nat × W)) (s v : Nat) (A : W → Prop)
    (hA : ∀ y, (v, y) ∈ F s → A y) (order : List Nat) (tb : Table W)
    (h : ∃ y, tb (s, v) = some y ∧ A y) :
    ∃ y, (order.foldl (fun tb s => record tb s (F s)) tb) (s, v) = some y ∧ A y := by
  induction order generalizing tb with
  | nil => exact h
  | cons s0 rest ih =>
    simp only [List.foldl_cons]
    apply ih
    obtain ⟨y, hy, ha⟩ := h
    by_cases hs : s = s0
    · subst hs
      rcases (record_spec tb s (F s)).2.2.1 v with h3 | ⟨y', h3, hm⟩
      · exact ⟨y, by rw [h3]; exact hy, ha⟩
      · exact ⟨y', h3, hA y' hm⟩
    · exact ⟨y, by rw [(record_spec tb s0 (F s0)).2.1 s v hs]; exact hy, ha⟩

theorem fold_record_complete (F : Nat → List (Nat × W)) (s v : Nat) (A : W → Prop)
    (hA : ∀ y, (v, y) ∈ F s → A y) (order : List Nat) (tb : Table W) (hs : s ∈ order)
    (y : W) (hm : (v, y) ∈ F s) :
    ∃ y', (order.foldl (fun tb s => record tb s (F s)) tb) (s, v) = some y' ∧ A y' := by
  induction order generalizing tb with
  | nil => simp at hs
  | cons s0 rest ih =>
    simp only [List.foldl_cons]
    by_cases h0 : s = s0
    · subst h0
      apply fold_record_good F s v A hA
      obtain ⟨y', a, b⟩ := (record_spec tb s (F s)).2.2.2 v y hm
      exact ⟨y', a, hA y' b⟩
    · rcases List.mem_cons.mp hs with h | h
      · exact absurd h h0
      · exact ih _ h
end TV.Graph
