import TracklibVerif.Lemmas.GraphPD
import TracklibVerif.Lemmas.GraphSessionQ
import TracklibVerif.Model.GraphShared
/-! Lemmas for C06 about `Network` objects that share their `Node` objects (`Model/GraphShared.lean`).

`run_routing_forward` as coded (`routeOnPD`: reset of this network's nodes, explicit `priority_dict`) started on a store
of flags in *any* state reads and writes only the flags of its own network's nodes, and on those it computes what the
pure search `runForward` computes (`routeOnPD_obs`). Hence a family of networks on one pool of `Node` objects answers,
call by call, as the same networks with `Node` objects of their own (`execFam_step`). -/
set_option linter.unusedSectionVars false
namespace TV.Graph
open TV.PDict
variable {W : Type} [LinearOrder W] [Add W] [Zero W] [WalkAdd W]

/-- the two labellings carry the same flags on the nodes of `order` -/
def AgreeOn (order : List Nat) (a b : St W) : Prop :=
  ∀ v ∈ order, a.d v = b.d v ∧ a.vis v = b.vis v ∧ a.pred v = b.pred v

/-- the two labellings carry the same flags on the nodes that are not in `order` -/
def SameOutside (order : List Nat) (a b : St W) : Prop :=
  ∀ v, v ∉ order → a.d v = b.d v ∧ a.vis v = b.vis v ∧ a.pred v = b.pred v

theorem SameOutside.trans {order : List Nat} {a b c : St W} (h1 : SameOutside order a b) (h2 : SameOutside order b c) :
    SameOutside order a c := by
  intro v hv
  obtain ⟨a1, a2, a3⟩ := h1 v hv
  obtain ⟨b1, b2, b3⟩ := h2 v hv
  exact ⟨a1.trans b1, a2.trans b2, a3.trans b3⟩

/-- every key of the queue is a node of `order` -/
def KeysIn (order : List Nat) (pd : PD W) : Prop := ∀ p ∈ pd.dict, p.1 ∈ order

theorem mem_dictSet (l : List (Nat × W)) (k : Nat) (v : W) (p : Nat × W) (h : p ∈ dictSet l k v) :
    p.1 = k ∨ p ∈ l := by
  induction l with
  | nil =>
    simp only [dictSet, List.mem_singleton] at h
    left; rw [h]
  | cons q r ih =>
    obtain ⟨k', v'⟩ := q
    simp only [dictSet] at h
    split at h
    · rename_i hk
      simp only [List.mem_cons] at h
      rcases h with h | h
      · left; rw [h]; exact hk
      · right; exact List.mem_cons_of_mem _ h
    · simp only [List.mem_cons] at h
      rcases h with h | h
      · right; rw [h]; exact List.mem_cons_self
      · rcases ih h with h' | h'
        · left; exact h'
        · right; exact List.mem_cons_of_mem _ h'

theorem keysIn_setitem (order : List Nat) (pd : PD W) (k : Nat) (v : W) (h : KeysIn order pd) (hk : k ∈ order) :
    KeysIn order (setitem pd k v) := by
  intro p hp
  have hp' : p ∈ dictSet pd.dict k v := by
    unfold setitem at hp
    simp only [] at hp
    split at hp <;> exact hp
  rcases mem_dictSet _ _ _ _ hp' with h' | h'
  · rw [h']; exact hk
  · exact h p h'

theorem popLoop_key (dict : List (Nat × W)) (f : Nat) (heap : List (W × Nat)) (k : Nat) (rest : List (W × Nat))
    (h : popLoop dict f heap = some (k, rest)) : ∃ v, lookup dict k = some v := by
  induction f generalizing heap with
  | zero => simp [popLoop] at h
  | succ f ih =>
    unfold popLoop at h
    cases hp : Heapq.heappop tlt heap with
    | none => rw [hp] at h; cases h
    | some mr =>
      obtain ⟨m, r⟩ := mr
      rw [hp] at h
      simp only [] at h
      by_cases hc : current dict m.2 m.1 = true
      · simp only [hc, if_true, Option.some.injEq, Prod.mk.injEq] at h
        obtain ⟨rfl, _⟩ := h
        exact ⟨m.1, (current_iff dict m.2 m.1).1 hc⟩
      · simp only [hc] at h
        exact ih r h

theorem popSmallest_key (order : List Nat) (pd : PD W) (h : KeysIn order pd) (u : Nat) (pd' : PD W)
    (hp : popSmallest pd = some (u, pd')) : u ∈ order ∧ KeysIn order pd' := by
  unfold popSmallest at hp
  cases hl : popLoop pd.dict (pd.heap.length + 1) pd.heap with
  | none => rw [hl] at hp; cases hp
  | some kr =>
    obtain ⟨k, heap⟩ := kr
    rw [hl] at hp
    simp only [Option.some.injEq, Prod.mk.injEq] at hp
    obtain ⟨rfl, rfl⟩ := hp
    obtain ⟨v, hv⟩ := popLoop_key _ _ _ _ _ hl
    refine ⟨h _ (lookup_mem _ _ _ hv), ?_⟩
    intro p hp
    simp only [List.mem_filter] at hp
    exact h p hp.1

/-! ### the loop touches the flags of its own network's nodes only -/

theorem relaxOnePD_sim (order : List Nat) (u : Nat) (du : W) (st st' : St W) (pd : PD W) (e : Edge W)
    (hv : other e u ∈ order) (ha : AgreeOn order st st') (hk : KeysIn order pd) :
    (relaxOnePD u du (st, pd) e).2 = (relaxOnePD u du (st', pd) e).2 ∧
    AgreeOn order (relaxOnePD u du (st, pd) e).1 (relaxOnePD u du (st', pd) e).1 ∧
    SameOutside order (relaxOnePD u du (st, pd) e).1 st ∧
    KeysIn order (relaxOnePD u du (st, pd) e).2 := by
  obtain ⟨h1, h2, _⟩ := ha _ hv
  have updA : AgreeOn order
      { st with d := fun z => if z = other e u then some (du + e.w) else st.d z,
                pred := fun z => if z = other e u then some (u, e.id) else st.pred z }
      { st' with d := fun z => if z = other e u then some (du + e.w) else st'.d z,
                 pred := fun z => if z = other e u then some (u, e.id) else st'.pred z } := by
    intro z hz
    obtain ⟨a, b, c⟩ := ha z hz
    refine ⟨?_, b, ?_⟩
    · simp only []; split
      · rfl
      · exact a
    · simp only []; split
      · rfl
      · exact c
  have updO : SameOutside order
      { st with d := fun z => if z = other e u then some (du + e.w) else st.d z,
                pred := fun z => if z = other e u then some (u, e.id) else st.pred z } st := by
    intro z hz
    have hne : z ≠ other e u := fun h => hz (h ▸ hv)
    exact ⟨by simp [hne], rfl, by simp [hne]⟩
  have sameO : SameOutside order st st := fun _ _ => ⟨rfl, rfl, rfl⟩
  unfold relaxOnePD
  simp only []
  rw [← h2, ← h1]
  by_cases hvis : st.vis (other e u) = true
  · simp only [hvis, if_true]
    exact ⟨trivial, ha, sameO, hk⟩
  · have hvis' : st.vis (other e u) = false := by cases h : st.vis (other e u) <;> simp_all
    simp only [hvis', Bool.false_eq_true, if_false]
    cases hd : st.d (other e u) with
    | none => exact ⟨rfl, updA, updO, keysIn_setitem order pd _ _ hk hv⟩
    | some y =>
      simp only []
      by_cases hl : du + e.w < y
      · simp only [hl, if_true]
        exact ⟨trivial, updA, updO, keysIn_setitem order pd _ _ hk hv⟩
      · simp only [hl, if_false]
        exact ⟨trivial, ha, sameO, hk⟩

theorem relaxAllPD_sim (order : List Nat) (u : Nat) (du : W) (es : List (Edge W)) (hes : ∀ e ∈ es, other e u ∈ order)
    (st st' : St W) (pd : PD W) (ha : AgreeOn order st st') (hk : KeysIn order pd) :
    (es.foldl (relaxOnePD u du) (st, pd)).2 = (es.foldl (relaxOnePD u du) (st', pd)).2 ∧
    AgreeOn order (es.foldl (relaxOnePD u du) (st, pd)).1 (es.foldl (relaxOnePD u du) (st', pd)).1 ∧
    SameOutside order (es.foldl (relaxOnePD u du) (st, pd)).1 st ∧
    KeysIn order (es.foldl (relaxOnePD u du) (st, pd)).2 := by
  induction es generalizing st st' pd with
  | nil => exact ⟨rfl, ha, fun _ _ => ⟨rfl, rfl, rfl⟩, hk⟩
  | cons e es ih =>
    simp only [List.foldl_cons]
    obtain ⟨a, b, c, d⟩ := relaxOnePD_sim order u du st st' pd e (hes e List.mem_cons_self) ha hk
    have hx : relaxOnePD u du (st, pd) e = ((relaxOnePD u du (st, pd) e).1, (relaxOnePD u du (st, pd) e).2) := rfl
    have hx' : relaxOnePD u du (st', pd) e = ((relaxOnePD u du (st', pd) e).1, (relaxOnePD u du (st, pd) e).2) := by
      rw [a]
    rw [hx, hx']
    obtain ⟨a2, b2, c2, d2⟩ := ih (fun e' he' => hes e' (List.mem_cons_of_mem _ he')) _ _ _ b d
    exact ⟨a2, b2, c2.trans c, d2⟩

theorem other_mem_of_next (net : Net W) (order : List Nat) (hends : ∀ e ∈ net.edges, e.src ∈ order ∧ e.tgt ∈ order)
    (u : Nat) (e : Edge W) (he : e ∈ nextEdges net u) : other e u ∈ order := by
  have hm : e ∈ net.edges := by simp only [nextEdges, List.mem_filter] at he; exact he.1
  unfold other
  split
  · exact (hends e hm).1
  · exact (hends e hm).2

/-- the `while len(fil) != 0` loop, run on two stores that agree on the nodes of `order` (a set of nodes closed under
the network's edges that holds every queued node): same recorded entries, results that agree on `order`, and no flag
outside `order` is written -/
theorem forwardPD_sim (net : Net W) (order : List Nat) (hends : ∀ e ∈ net.edges, e.src ∈ order ∧ e.tgt ∈ order)
    (tgt : Option Nat) (cut : Option W) (f : Nat) (st st' : St W) (pd : PD W) (out : List (Nat × W))
    (ha : AgreeOn order st st') (hk : KeysIn order pd) :
    (forwardPD net tgt cut f st pd out).2 = (forwardPD net tgt cut f st' pd out).2 ∧
    AgreeOn order (forwardPD net tgt cut f st pd out).1 (forwardPD net tgt cut f st' pd out).1 ∧
    SameOutside order (forwardPD net tgt cut f st pd out).1 st := by
  have sameO : ∀ x : St W, SameOutside order x x := fun _ _ _ => ⟨rfl, rfl, rfl⟩
  induction f generalizing st st' pd out with
  | zero => exact ⟨rfl, ha, sameO st⟩
  | succ f ih =>
    unfold forwardPD
    by_cases hlen : len pd = 0
    · simp only [hlen, if_true]; exact ⟨trivial, ha, sameO st⟩
    · simp only [hlen, if_false]
      cases hp : popSmallest pd with
      | none => exact ⟨rfl, ha, sameO st⟩
      | some q =>
        obtain ⟨u, pd'⟩ := q
        obtain ⟨hu, hk'⟩ := popSmallest_key order pd hk u pd' hp
        obtain ⟨h1, h2, h3⟩ := ha u hu
        simp only []
        rw [← h1]
        cases hd : st.d u with
        | none => exact ⟨rfl, ha, sameO st⟩
        | some du =>
          simp only []
          by_cases hs : stops tgt cut u du = true
          · simp only [hs, if_true]; exact ⟨trivial, ha, sameO st⟩
          · simp only [hs]
            have ha1 : AgreeOn order { st with vis := fun z => if z = u then true else st.vis z }
                { st' with vis := fun z => if z = u then true else st'.vis z } := by
              intro z hz
              obtain ⟨a, b, c⟩ := ha z hz
              refine ⟨a, ?_, c⟩
              simp only []; split
              · rfl
              · exact b
            have ho1 : SameOutside order { st with vis := fun z => if z = u then true else st.vis z } st := by
              intro z hz
              have hne : z ≠ u := fun h => hz (h ▸ hu)
              exact ⟨rfl, by simp [hne], rfl⟩
            obtain ⟨a, b, c, d⟩ := relaxAllPD_sim order u du (nextEdges net u)
              (fun e he => other_mem_of_next net order hends u e he) _ _ pd' ha1 hk'
            rw [← a]
            obtain ⟨a2, b2, c2⟩ := ih _ _ _ (out ++ [(u, du)]) b d
            exact ⟨a2, b2, c2.trans (c.trans ho1)⟩

theorem keysIn_init (order : List Nat) (s : Nat) (hs : s ∈ order) : KeysIn order (ofDict [(s, (0 : W))]) := by
  intro p hp
  simp only [ofDict, List.mem_singleton] at hp
  rw [hp]; exact hs

theorem agree_start (order : List Nat) (st : St W) (s : Nat) :
    AgreeOn order (startFlags order st s) (St.init s) ∧
    (s ∈ order → SameOutside order (startFlags order st s) st) := by
  obtain ⟨a, b, c⟩ := resetFlags_spec order st
  constructor
  · intro v hv
    refine ⟨?_, ?_, ?_⟩
    · simp only [startFlags, St.init]
      by_cases hz : v = s
      · simp [hz]
      · simp only [hz, if_false]; rw [a v]; simp [hv]
    · simp only [startFlags, St.init]; rw [b v]; simp [hv]
    · simp only [startFlags, St.init]; rw [c v]; simp [hv]
  · intro hs v hv
    have hne : v ≠ s := fun h => hv (h ▸ hs)
    refine ⟨?_, ?_, ?_⟩
    · simp only [startFlags, hne, if_false]; rw [a v]; simp [hv]
    · simp only [startFlags]; rw [b v]; simp [hv]
    · simp only [startFlags]; rw [c v]; simp [hv]

/-- **a search on `Node` objects that carry any flags** (left by this network, or by another network that holds the same
objects): the entries recorded in `output_dict` and the flags left on this network's own nodes are those of the pure
search on its graph; the flags of all other nodes are left as they were. -/
theorem routeOnPD_obs (net : Net W) (hnet : WFNet net) (order : List Nat) (hnodes : ∀ v ∈ order, v < net.n)
    (hends : ∀ e ∈ net.edges, e.src ∈ order ∧ e.tgt ∈ order) (st : St W) (s : Nat) (hs : s ∈ order)
    (tgt : Option Nat) (cut : Option W) :
    (routeOnPD net order st s tgt cut).2 = (runForward net s tgt cut).2 ∧
    AgreeOn order (routeOnPD net order st s tgt cut).1 (runForward net s tgt cut).1 ∧
    SameOutside order (routeOnPD net order st s tgt cut).1 st := by
  obtain ⟨g1, g2⟩ := agree_start order st s
  obtain ⟨a, b, c⟩ := forwardPD_sim net order hends tgt cut net.n (startFlags order st s) (St.init s)
    (ofDict [(s, (0 : W))]) [] g1 (keysIn_init order s hs)
  have e : forwardPD net tgt cut net.n (St.init s) (ofDict [(s, (0 : W))]) [] = runForward net s tgt cut :=
    runForwardPD_eq net hnet s (hnodes s hs) tgt cut
  rw [e] at a b
  exact ⟨a, b, c.trans (g2 hs)⟩

/-! ### a call answers the same whichever of two observationally equal searches it uses -/

/-- `R` started on flags satisfying `P` and `R'` started on any flags: same recorded entries, same flags on the nodes
of `order` afterwards, and `R` re-establishes `P` -/
def ObsEq (P : St W → Prop) (R R' : Router W) (net : Net W) (order : List Nat) : Prop :=
  ∀ f f' s tgt cut, P f → s ∈ order →
    (R net order f s tgt cut).2 = (R' net order f' s tgt cut).2 ∧
    AgreeOn order (R net order f s tgt cut).1 (R' net order f' s tgt cut).1 ∧ P (R net order f s tgt cut).1

/-- the same object up to the flags on its nodes -/
def SameCore (σ σ' : Sess W) : Prop :=
  σ.net = σ'.net ∧ σ.order = σ'.order ∧ σ.prep = σ'.prep ∧ σ.udict = σ'.udict

theorem allOnG_congr (P : St W → Prop) (R R' : Router W) (net : Net W) (order : List Nat) (h : ObsEq P R R' net order)
    (cut : Option W) (f f' : St W) (tb : Table W) (hP : P f) :
    (allOnG R net order cut (f, tb)).2 = (allOnG R' net order cut (f', tb)).2 ∧ P (allOnG R net order cut (f, tb)).1 := by
  unfold allOnG
  have key : ∀ (l : List Nat), (∀ s ∈ l, s ∈ order) → ∀ (f f' : St W) (tb : Table W), P f →
      (l.foldl (fun x s => let r := R net order x.1 s none cut; (r.1, record x.2 s r.2)) (f, tb)).2 =
      (l.foldl (fun x s => let r := R' net order x.1 s none cut; (r.1, record x.2 s r.2)) (f', tb)).2 ∧
      P (l.foldl (fun x s => let r := R net order x.1 s none cut; (r.1, record x.2 s r.2)) (f, tb)).1 := by
    intro l
    induction l with
    | nil => intro _ f f' tb hP; exact ⟨rfl, hP⟩
    | cons s0 r ih =>
      intro hl f f' tb hP
      simp only [List.foldl_cons]
      obtain ⟨e1, _, e3⟩ := h f f' s0 none cut hP (hl s0 List.mem_cons_self)
      rw [e1]
      exact ih (fun s hs => hl s (List.mem_cons_of_mem _ hs)) _ _ _ e3
  exact key order (fun s hs => hs) f f' tb hP

theorem map_agree (order : List Nat) (a b : St W) (h : AgreeOn order a b) :
    order.map a.d = order.map b.d ∧ order.map a.vis = order.map b.vis := by
  constructor
  · apply List.map_congr_left; intro v hv; exact (h v hv).1
  · apply List.map_congr_left; intro v hv; exact (h v hv).2.1

theorem subEdges_agree (net : Net W) (order : List Nat) (hends : ∀ e ∈ net.edges, e.src ∈ order ∧ e.tgt ∈ order)
    (a b : St W) (h : AgreeOn order a b) : subEdges net a = subEdges net b := by
  unfold subEdges
  apply List.filter_congr
  intro e he
  rw [(h _ (hends e he).1).2.1, (h _ (hends e he).2).2.1]

/-- one call, with `R` on an object whose flags satisfy `P` and with `R'` on the same object carrying any flags: same
answer, same object afterwards up to the flags, and `P` holds again -/
theorem execG_congr (P : St W → Prop) (R R' : Router W) (σ σ' : Sess W) (hc : SameCore σ σ')
    (hends : ∀ e ∈ σ.net.edges, e.src ∈ σ.order ∧ e.tgt ∈ σ.order)
    (hobs : ObsEq P R R' σ.net σ.order) (hP : P σ.flags) (op : Op W) :
    (execG R σ op).2 = (execG R' σ' op).2 ∧ SameCore (execG R σ op).1 (execG R' σ' op).1 ∧
    ((execG R σ op).1.net = σ.net → (execG R σ op).1.order = σ.order → P (execG R σ op).1.flags) := by
  obtain ⟨net, order, flags, prep, udict⟩ := σ
  obtain ⟨net', order', flags', prep', udict'⟩ := σ'
  obtain ⟨c1, c2, c3, c4⟩ := hc
  simp only at c1 c2 c3 c4 hends hobs hP
  subst c1 c2 c3 c4
  cases op with
  | addNode v =>
    simp only [execG]
    split
    · exact ⟨rfl, ⟨rfl, rfl, rfl, rfl⟩, fun _ _ => hP⟩
    · exact ⟨rfl, ⟨rfl, rfl, rfl, rfl⟩, fun _ _ => hP⟩
  | addEdge e =>
    simp only [execG]
    split
    · exact ⟨rfl, ⟨rfl, rfl, rfl, rfl⟩, fun _ _ => hP⟩
    · exact ⟨rfl, ⟨rfl, rfl, rfl, rfl⟩, fun _ _ => hP⟩
  | route s t cut ud =>
    have main : order.contains s = true →
        (Out.flags (order.map (R net order flags s t cut).1.d) (order.map (R net order flags s t cut).1.vis) =
          Out.flags (order.map (R' net order flags' s t cut).1.d) (order.map (R' net order flags' s t cut).1.vis)) ∧
        (if ud then record udict s (R net order flags s t cut).2 else udict) =
          (if ud then record udict s (R' net order flags' s t cut).2 else udict) ∧
        P (R net order flags s t cut).1 := by
      intro hcnd
      obtain ⟨e1, e2, e3⟩ := hobs flags flags' s t cut hP ((contains_iff _ _).1 hcnd)
      obtain ⟨m1, m2⟩ := map_agree order _ _ e2
      exact ⟨by rw [m1, m2], by rw [e1], e3⟩
    cases t with
    | none =>
      simp only [execG, Bool.and_true]
      split
      · rename_i hcnd
        obtain ⟨m1, m2, m3⟩ := main hcnd
        exact ⟨m1, ⟨rfl, rfl, rfl, m2⟩, fun _ _ => m3⟩
      · exact ⟨rfl, ⟨rfl, rfl, rfl, rfl⟩, fun _ _ => hP⟩
    | some t =>
      simp only [execG]
      split
      · rename_i hcnd
        simp only [Bool.and_eq_true] at hcnd
        obtain ⟨m1, m2, m3⟩ := main hcnd.1
        exact ⟨m1, ⟨rfl, rfl, rfl, m2⟩, fun _ _ => m3⟩
      · exact ⟨rfl, ⟨rfl, rfl, rfl, rfl⟩, fun _ _ => hP⟩
  | dist s t cut ud =>
    simp only [execG]
    split
    · rename_i hcnd
      simp only [Bool.and_eq_true, contains_iff] at hcnd
      obtain ⟨e1, e2, e3⟩ := hobs flags flags' s (some t) cut hP hcnd.1
      refine ⟨by rw [(e2 t hcnd.2).1], ⟨rfl, rfl, rfl, ?_⟩, fun _ _ => e3⟩
      simp only [e1]
    · exact ⟨rfl, ⟨rfl, rfl, rfl, rfl⟩, fun _ _ => hP⟩
  | distList s cut ud =>
    simp only [execG]
    split
    · rename_i hcnd
      simp only [contains_iff] at hcnd
      obtain ⟨e1, e2, e3⟩ := hobs flags flags' s none cut hP hcnd
      refine ⟨by rw [(map_agree order _ _ e2).1], ⟨rfl, rfl, rfl, ?_⟩, fun _ _ => e3⟩
      simp only [e1]
    · exact ⟨rfl, ⟨rfl, rfl, rfl, rfl⟩, fun _ _ => hP⟩
  | all cut ud =>
    simp only [execG]
    obtain ⟨e1, e3⟩ := allOnG_congr P R R' net order hobs cut flags flags' (if ud then udict else Table.empty) hP
    refine ⟨by rw [e1], ⟨rfl, rfl, rfl, ?_⟩, fun _ _ => e3⟩
    simp only [e1]
  | prepare cut =>
    simp only [execG]
    obtain ⟨e1, e3⟩ := allOnG_congr P R R' net order hobs cut flags flags' (prep.getD Table.empty) hP
    exact ⟨trivial, ⟨rfl, rfl, by simp only [e1], rfl⟩, fun _ _ => e3⟩
  | prepared s t =>
    simp only [execG]
    split
    · exact ⟨rfl, ⟨rfl, rfl, rfl, rfl⟩, fun _ _ => hP⟩
    · exact ⟨rfl, ⟨rfl, rfl, rfl, rfl⟩, fun _ _ => hP⟩
  | hasPrepared s t =>
    simp only [execG]
    split
    · exact ⟨rfl, ⟨rfl, rfl, rfl, rfl⟩, fun _ _ => hP⟩
    · exact ⟨rfl, ⟨rfl, rfl, rfl, rfl⟩, fun _ _ => hP⟩
  | sub s cut =>
    simp only [execG]
    split
    · rename_i hcnd
      simp only [contains_iff] at hcnd
      obtain ⟨e1, e2, e3⟩ := hobs flags flags' s none cut hP hcnd
      rw [subEdges_agree net order hends _ _ e2]
      exact ⟨rfl, ⟨rfl, rfl, rfl, rfl⟩, fun _ _ => e3⟩
    · exact ⟨rfl, ⟨rfl, rfl, rfl, rfl⟩, fun _ _ => hP⟩
  | saveLoad =>
    simp only [execG]
    split
    · exact ⟨rfl, ⟨rfl, rfl, rfl, rfl⟩, fun _ _ => hP⟩
    · exact ⟨rfl, ⟨rfl, rfl, rfl, rfl⟩, fun _ _ => hP⟩

/-- `exec` of `Model/GraphSession.lean` is `execG` with the search `routeOn` -/
theorem exec_eq_execG (σ : Sess W) (op : Op W) : exec σ op = execG routeOn σ op := by
  cases op <;> rfl

/-- the search as coded on shared `Node` objects vs the pure search: indistinguishable whatever the flags -/
theorem obsEq_shared (net : Net W) (hnet : WFNet net) (order : List Nat) (hnodes : ∀ v ∈ order, v < net.n)
    (hends : ∀ e ∈ net.edges, e.src ∈ order ∧ e.tgt ∈ order) :
    ObsEq (fun _ => True) (routeOnPD (W := W)) pureRoute net order := by
  intro f f' s tgt cut _ hs
  obtain ⟨a, b, _⟩ := routeOnPD_obs net hnet order hnodes hends f s hs tgt cut
  exact ⟨a, b, trivial⟩

/-- the search of the one-object model (abstract queue) on flags that are clean outside `NODES` vs the pure search -/
theorem obsEq_own (net : Net W) (hnet : WFNet net) (order : List Nat) (hnodes : ∀ v ∈ order, v < net.n)
    (hends : ∀ e ∈ net.edges, e.src ∈ order ∧ e.tgt ∈ order) :
    ObsEq (CleanOutside order) (routeOn (W := W)) pureRoute net order := by
  intro f f' s tgt cut hf hs
  obtain ⟨a, b⟩ := routeOn_eq net hnet order hnodes hends f hf s hs tgt cut
  rw [a]
  exact ⟨rfl, fun _ _ => ⟨rfl, rfl, rfl⟩, b⟩

/-- **one call, shared vs own `Node` objects.** A network whose nodes carry any flags `f` (the code as it runs:
`execSh`) and the same network with flags of its own that satisfy the session invariant (`exec`): the same answer, the
same object afterwards up to the flags. -/
theorem execSh_eq_exec (σ σ' : Sess W) (hc : SameCore σ σ') (h : SessOK σ') (op : Op W) :
    (execSh σ op).2 = (exec σ' op).2 ∧ SameCore (execSh σ op).1 (exec σ' op).1 := by
  obtain ⟨c1, c2, c3, c4⟩ := hc
  have hends : ∀ e ∈ σ.net.edges, e.src ∈ σ.order ∧ e.tgt ∈ σ.order := by rw [c1, c2]; exact h.ends
  have hwf : WFNet σ.net := by rw [c1]; exact h.wf
  have hnodes : ∀ v ∈ σ.order, v < σ.net.n := by rw [c1, c2]; exact h.nodes
  obtain ⟨a1, a2, _⟩ := execG_congr (fun _ => True) routeOnPD pureRoute σ σ' ⟨c1, c2, c3, c4⟩ hends
    (obsEq_shared σ.net hwf σ.order hnodes hends) trivial op
  obtain ⟨b1, b2, _⟩ := execG_congr (CleanOutside σ'.order) routeOn pureRoute σ' σ' ⟨rfl, rfl, rfl, rfl⟩ h.ends
    (obsEq_own σ'.net h.wf σ'.order h.nodes h.ends) h.clean op
  unfold execSh
  rw [exec_eq_execG]
  refine ⟨a1.trans b1.symm, ?_⟩
  obtain ⟨x1, x2, x3, x4⟩ := a2
  obtain ⟨y1, y2, y3, y4⟩ := b2
  exact ⟨x1.trans y1.symm, x2.trans y2.symm, x3.trans y3.symm, x4.trans y4.symm⟩

/-! ### families -/

theorem mem_foldNodes (es : List (Edge W)) (o : List Nat) (v : Nat) :
    v ∈ es.foldl (fun o e => addNodeTo (addNodeTo o e.src) e.tgt) o ↔ (v ∈ o ∨ ∃ e ∈ es, v = e.src ∨ v = e.tgt) := by
  induction es generalizing o with
  | nil => simp
  | cons e es ih =>
    simp only [List.foldl_cons]
    rw [ih]
    simp only [mem_addNodeTo, List.mem_cons]
    constructor
    · rintro (((h | h) | h) | ⟨e', he', h⟩)
      · exact Or.inl h
      · exact Or.inr ⟨e, Or.inl rfl, Or.inl h⟩
      · exact Or.inr ⟨e, Or.inl rfl, Or.inr h⟩
      · exact Or.inr ⟨e', Or.inr he', h⟩
    · rintro (h | ⟨e', he' | he', h⟩)
      · exact Or.inl (Or.inl (Or.inl h))
      · subst he'
        rcases h with h | h
        · exact Or.inl (Or.inl (Or.inr h))
        · exact Or.inl (Or.inr h)
      · exact Or.inr ⟨e', he', h⟩

/-- the network `sub_network` returns satisfies the session invariant (with `Node` objects of its own) -/
theorem subSess_ok (σ : Sess W) (h : SessOK σ) (st : St W) : SessOK (subSess σ (subEdges σ.net st)) := by
  have hsub : ∀ e ∈ subEdges σ.net st, e ∈ σ.net.edges := by
    intro e he; simp only [subEdges, List.mem_filter] at he; exact he.1
  refine ⟨?_, ?_, ?_, ?_⟩
  · intro e he; exact h.wf e (hsub e he)
  · intro v hv
    simp only [subSess] at hv
    rcases (mem_foldNodes _ _ _).1 hv with hv | ⟨e, he, hv⟩
    · cases hv
    · obtain ⟨a, b, _⟩ := h.wf e (hsub e he)
      rcases hv with hv | hv <;> rw [hv] <;> assumption
  · intro e he
    simp only [subSess] at he ⊢
    exact ⟨(mem_foldNodes _ _ _).2 (Or.inr ⟨e, he, Or.inl rfl⟩), (mem_foldNodes _ _ _).2 (Or.inr ⟨e, he, Or.inr rfl⟩)⟩
  · intro v _; simp [subSess, St.clean]

/-- the shared family and the family with private `Node` objects hold the same networks up to the flags, and the
private ones satisfy the session invariant -/
def FamRel (F : Fam W) (nets : List (Sess W)) : Prop :=
  F.nets.length = nets.length ∧
  ∀ (k : Nat) (σ σ' : Sess W), F.nets[k]? = some σ → nets[k]? = some σ' → SameCore σ σ' ∧ SessOK σ'

theorem famRel_none {F : Fam W} {nets : List (Sess W)} (h : FamRel F nets) (k : Nat) :
    F.nets[k]? = none ↔ nets[k]? = none := by
  rw [List.getElem?_eq_none_iff, List.getElem?_eq_none_iff, h.1]

theorem famRel_append (n : Nat) (fl : St W) (l l' : List (Sess W)) (a b : Sess W) (hab : SameCore a b ∧ SessOK b)
    (hlen : l.length = l'.length)
    (hl2 : ∀ (k : Nat) (σ σ' : Sess W), l[k]? = some σ → l'[k]? = some σ' → SameCore σ σ' ∧ SessOK σ') :
    FamRel { n := n, flags := fl, nets := l ++ [a] } (l' ++ [b]) := by
  refine ⟨by simp [hlen], ?_⟩
  intro k σ σ' h1 h2
  simp only at h1
  by_cases hk : k < l.length
  · rw [List.getElem?_append_left hk] at h1
    rw [List.getElem?_append_left (by rw [← hlen]; exact hk)] at h2
    exact hl2 k σ σ' h1 h2
  · have hk' : l.length ≤ k := Nat.le_of_not_lt hk
    rw [List.getElem?_append_right hk'] at h1
    rw [List.getElem?_append_right (by rw [← hlen]; exact hk')] at h2
    rw [← hlen] at h2
    cases hj : k - l.length with
    | zero =>
      rw [hj] at h1 h2
      simp only [List.getElem?_cons_zero, Option.some.injEq] at h1 h2
      subst h1 h2; exact hab
    | succ j =>
      rw [hj] at h1
      simp at h1

theorem setW_ok (eid : Nat) (w : W) (hw : 0 ≤ w) (σ : Sess W) (h : SessOK σ) : SessOK (setW eid w σ) := by
  refine ⟨?_, h.nodes, ?_, h.clean⟩
  · intro e he
    simp only [setW, List.mem_map] at he
    obtain ⟨e0, he0, rfl⟩ := he
    obtain ⟨a, b, c⟩ := h.wf e0 he0
    split
    · exact ⟨a, b, hw⟩
    · exact ⟨a, b, c⟩
  · intro e he
    simp only [setW, List.mem_map] at he
    obtain ⟨e0, he0, rfl⟩ := he
    split
    · exact h.ends e0 he0
    · exact h.ends e0 he0

theorem setW_core (eid : Nat) (w : W) (σ σ' : Sess W) (h : SameCore σ σ') : SameCore (setW eid w σ) (setW eid w σ') := by
  obtain ⟨c1, c2, c3, c4⟩ := h
  exact ⟨by simp only [setW, c1], c2, c3, c4⟩

/-- **one step of a program, shared vs private `Node` objects**: same answer, and the two families stay related -/
theorem execFam_step (F : Fam W) (nets : List (Sess W)) (h : FamRel F nets) (op : FamOp W) :
    (execFam F op).2 = (execFamU F.n nets op).2 ∧ FamRel (execFam F op).1 (execFamU F.n nets op).1 ∧
    (execFam F op).1.n = F.n := by
  cases op with
  | create =>
    refine ⟨rfl, ?_, rfl⟩
    simp only [execFam, execFamU]
    exact famRel_append F.n F.flags F.nets nets _ _ ⟨⟨rfl, rfl, rfl, rfl⟩, new_ok F.n⟩ h.1 h.2
  | on k op =>
    simp only [execFam, execFamU]
    cases h1 : F.nets[k]? with
    | none =>
      rw [(famRel_none h k).1 h1]
      exact ⟨rfl, h, rfl⟩
    | some σ =>
      cases h2 : nets[k]? with
      | none => rw [(famRel_none h k).2 h2] at h1; cases h1
      | some σ' =>
        obtain ⟨hc, hok⟩ := h.2 k σ σ' h1 h2
        obtain ⟨a, b⟩ := execSh_eq_exec { σ with flags := F.flags } σ' hc hok op
        refine ⟨a, ⟨by simp [h.1], ?_⟩, rfl⟩
        intro j τ τ' g1 g2
        simp only at g1
        by_cases hj : k = j
        · subst hj
          have hk1 : k < F.nets.length := by
            rcases Nat.lt_or_ge k F.nets.length with hlt | hge
            · exact hlt
            · rw [List.getElem?_eq_none_iff.2 hge] at h1; cases h1
          rw [List.getElem?_set_self hk1] at g1
          rw [List.getElem?_set_self (by rw [← h.1]; exact hk1)] at g2
          simp only [Option.some.injEq] at g1 g2
          subst g1 g2
          exact ⟨b, exec_ok σ' hok op⟩
        · rw [List.getElem?_set_ne hj] at g1
          rw [List.getElem?_set_ne hj] at g2
          exact h.2 j τ τ' g1 g2
  | extract k s cut =>
    simp only [execFam, execFamU]
    cases h1 : F.nets[k]? with
    | none =>
      rw [(famRel_none h k).1 h1]
      exact ⟨rfl, h, rfl⟩
    | some σ =>
      cases h2 : nets[k]? with
      | none => rw [(famRel_none h k).2 h2] at h1; cases h1
      | some σ' =>
        obtain ⟨hc, hok⟩ := h.2 k σ σ' h1 h2
        obtain ⟨c1, c2, c3, c4⟩ := hc
        simp only []
        rw [c2]
        by_cases hs : σ'.order.contains s = true
        · simp only [hs, if_true]
          have hs' : s ∈ σ'.order := (contains_iff _ _).1 hs
          obtain ⟨p1, p2, _⟩ := routeOnPD_obs σ'.net hok.wf σ'.order hok.nodes hok.ends F.flags s hs' none cut
          obtain ⟨q1, q2⟩ := routeOn_eq σ'.net hok.wf σ'.order hok.nodes hok.ends σ'.flags hok.clean s hs' none cut
          have es : subEdges σ.net (routeOnPD σ.net σ'.order F.flags s none cut).1 =
              subEdges σ'.net (routeOn σ'.net σ'.order σ'.flags s none cut).1 := by
            rw [c1, q1]
            exact subEdges_agree σ'.net σ'.order hok.ends _ _ p2
          have esub : subSess σ (subEdges σ.net (routeOnPD σ.net σ'.order F.flags s none cut).1) =
              subSess σ' (subEdges σ'.net (routeOn σ'.net σ'.order σ'.flags s none cut).1) := by
            rw [es]; simp only [subSess, c1]
          rw [esub]
          refine ⟨rfl, ?_, trivial⟩
          have hk1 : k < nets.length := by
            rcases Nat.lt_or_ge k nets.length with hlt | hge
            · exact hlt
            · rw [List.getElem?_eq_none_iff.2 hge] at h2; cases h2
          apply famRel_append F.n _ F.nets _ _ _ ⟨⟨rfl, rfl, rfl, rfl⟩, subSess_ok σ' hok _⟩ (by simp [h.1])
          intro j τ τ' g1 g2
          by_cases hj : k = j
          · subst hj
            rw [List.getElem?_set_self hk1] at g2
            rw [h1] at g1
            simp only [Option.some.injEq] at g1 g2
            subst g1 g2
            refine ⟨⟨c1, c2, c3, c4⟩, hok.wf, hok.nodes, hok.ends, ?_⟩
            simp only []
            rw [q1]; exact q2
          · rw [List.getElem?_set_ne hj] at g2
            exact h.2 j τ τ' g1 g2
        · simp only [hs]
          exact ⟨rfl, h, rfl⟩
  | setWeight eid w =>
    simp only [execFam, execFamU]
    by_cases hw : w < 0
    · simp only [hw, if_true]; exact ⟨trivial, h, trivial⟩
    · simp only [hw, if_false]
      refine ⟨trivial, ⟨by simp [h.1], ?_⟩, trivial⟩
      intro k τ τ' g1 g2
      simp only [List.getElem?_map, Option.map_eq_some_iff] at g1 g2
      obtain ⟨σ, g1, rfl⟩ := g1
      obtain ⟨σ', g2, rfl⟩ := g2
      obtain ⟨hc, hok⟩ := h.2 k σ σ' g1 g2
      exact ⟨setW_core eid w σ σ' hc, setW_ok eid w (not_lt.mp hw) σ' hok⟩

theorem famRel_new (n : Nat) : FamRel (Fam.new n : Fam W) [] := by
  refine ⟨rfl, ?_⟩
  intro k σ σ' h1 _
  simp [Fam.new] at h1

/-- any program: the family that shares its `Node` objects returns what the family with private `Node` objects returns -/
theorem runFam_eq (F : Fam W) (nets : List (Sess W)) (h : FamRel F nets) (ops : List (FamOp W)) :
    runFam F ops = runFamU F.n nets ops ∧ FamRel (famAfter F ops) (famAfterU F.n nets ops) := by
  induction ops generalizing F nets with
  | nil => exact ⟨rfl, h⟩
  | cons op rest ih =>
    obtain ⟨a, b, c⟩ := execFam_step F nets h op
    obtain ⟨i1, i2⟩ := ih _ _ b
    simp only [runFam, runFamU, famAfter, famAfterU]
    rw [c] at i1 i2
    exact ⟨by rw [a, i1], i2⟩
end TV.Graph
