import TracklibVerif.Lemmas.SimplifyVw
import TracklibVerif.Lemmas.SimplifyTrack
import Mathlib.Algebra.Order.Field.Basic
/-! Visvalingam's threshold over a linearly ordered scalar type **with arbitrary arithmetic** (nothing is assumed about
`+ − × ÷`: they may round; only `<` is a linear order): `Operator.ARGMIN` designates a smallest entry of the column, so when
the loop stops by `break` every remaining interior fix spans with its neighbours a triangle of *computed* area `> eps²`. -/
namespace TV.Simplify
set_option linter.unusedSectionVars false
variable {α : Type} [Add α] [Sub α] [Mul α] [Div α] [Neg α] [BEq α] [OfNat α 0] [OfNat α 1] [OfNat α 2] [LinearOrder α]

/-- the strict scan (ARGMIN once an index is recorded, and ARGMIN itself on a column of numbers below its start value:
`argmin_eq_strict`; strict `<`, first minimum, NaN skipped): either no entry is a number below the initial minimum and the
initial index is returned, or the index returned holds a number below it that no other number of the column undercuts -/
theorem argminLoopS_min (col : List (Option α)) (i : Nat) (m : α) (id0 : Nat) :
    (argminLoopS col i m id0 = id0 ∧ ∀ (j : Nat) (v : α), col[j]? = some (some v) → m ≤ v) ∨
    (∃ (j0 : Nat) (w : α), argminLoopS col i m id0 = i + j0 ∧ col[j0]? = some (some w) ∧ w < m ∧
      ∀ (j : Nat) (v : α), col[j]? = some (some v) → w ≤ v) := by
  induction col generalizing i m id0 with
  | nil => left; exact ⟨rfl, fun j v h => by simp at h⟩
  | cons c rest ih =>
    cases c with
    | none =>
      rw [argminLoopS]
      rcases ih (i + 1) m id0 with ⟨e, h⟩ | ⟨j0, w, e, hw, hlt, h⟩
      · left
        refine ⟨e, fun j v hj => ?_⟩
        cases j with
        | zero => simp at hj
        | succ j => exact h j v (by simpa using hj)
      · right
        refine ⟨j0 + 1, w, by omega, by simpa using hw, hlt, fun j v hj => ?_⟩
        cases j with
        | zero => simp at hj
        | succ j => exact h j v (by simpa using hj)
    | some x =>
      rw [argminLoopS]
      by_cases hx : x < m
      · simp only [hx, ↓reduceIte]
        right
        rcases ih (i + 1) x i with ⟨e, h⟩ | ⟨j0, w, e, hw, hlt, h⟩
        · refine ⟨0, x, by omega, by simp, hx, fun j v hj => ?_⟩
          cases j with
          | zero => simp at hj; exact le_of_eq hj
          | succ j => exact h j v (by simpa using hj)
        · refine ⟨j0 + 1, w, by omega, by simpa using hw, lt_trans hlt hx, fun j v hj => ?_⟩
          cases j with
          | zero => simp at hj; exact hj ▸ le_of_lt hlt
          | succ j => exact h j v (by simpa using hj)
      · simp only [hx, ↓reduceIte]
        have hmx : m ≤ x := not_lt.mp hx
        rcases ih (i + 1) m id0 with ⟨e, h⟩ | ⟨j0, w, e, hw, hlt, h⟩
        · left
          refine ⟨e, fun j v hj => ?_⟩
          cases j with
          | zero => simp at hj; exact hj ▸ hmx
          | succ j => exact h j v (by simpa using hj)
        · right
          refine ⟨j0 + 1, w, by omega, by simpa using hw, hlt, fun j v hj => ?_⟩
          cases j with
          | zero => simp at hj; exact hj ▸ le_of_lt (lt_of_lt_of_le hlt hmx)
          | succ j => exact h j v (by simpa using hj)

theorem stopOf_true (eps2 : α) (x : Option (Option α)) (h : stopOf eps2 x = true) : ∃ w, x = some (some w) ∧ eps2 < w := by
  match x, h with
  | some (some w), h => exact ⟨w, rfl, by simpa [stopOf] using h⟩

/-- when the loop has stopped (`vwStep = none`) on a consistent column, every interior fix of the state spans with its
two neighbours a triangle of area `> eps2` -/
theorem vwStop_above (big eps2 : α) (L : List (Fix α)) (S : VState α) (hv : VInv big L S) (hc : VCons S)
    (hstop : vwStep big eps2 S = none) (i : Nat) (p0 p1 p2 : Fix α) (h0 : 0 < i)
    (e0 : (S.map (·.1))[i - 1]? = some p0) (e1 : (S.map (·.1))[i]? = some p1) (e2 : (S.map (·.1))[i + 1]? = some p2) :
    eps2 < areaFix p0 p1 p2 := by
  have hi1 : i + 1 < S.length := by
    have := (List.getElem?_eq_some_iff.mp e2).1
    simpa using this
  obtain ⟨q0, c0, q1, q2, c2, f0, f1, f2⟩ := hc i h0 hi1
  have g0 : q0 = p0 := by rw [List.getElem?_map, f0] at e0; simpa using e0
  have g1 : q1 = p1 := by rw [List.getElem?_map, f1] at e1; simpa using e1
  have g2 : q2 = p2 := by rw [List.getElem?_map, f2] at e2; simpa using e2
  subst g0 g1 g2
  rw [vwStep_eq] at hstop
  have hl : S.length > 2 := by omega
  simp only [hl, ↓reduceIte] at hstop
  have hst : stopOf eps2 ((S[argmin big (S.map (·.2))]?).map (·.2)) = true := by
    by_contra hne
    simp only [hne] at hstop
    cases hstop
  obtain ⟨w, hw, hlt⟩ := stopOf_true eps2 _ hst
  have hcol : (S.map (·.2))[argmin big (S.map (·.2))]? = some (some w) := by rw [List.getElem?_map]; exact hw
  have hci : (S.map (·.2))[i]? = some (some (areaFix q0 q1 q2)) := by rw [List.getElem?_map, f1]; rfl
  have hlt' : ∀ (j : Nat) (v : α), (S.map (·.2))[j]? = some (some v) → v < big := by
    intro j v hj
    rw [List.getElem?_map] at hj
    cases hx : S[j]? with
    | none => rw [hx] at hj; cases hj
    | some e =>
      obtain ⟨p, c⟩ := e
      rw [hx] at hj
      simp only [Option.map_some, Option.some.injEq] at hj
      subst hj
      have hjl : j < S.length := (List.getElem?_eq_some_iff.mp hx).1
      have hj0 : 0 < j := by
        cases j with
        | zero => obtain ⟨q, hq⟩ := hv.first; rw [hq] at hx; simp at hx
        | succ j => omega
      have hj1 : j + 1 < S.length := by
        by_cases hc : j = S.length - 1
        · obtain ⟨q, hq⟩ := hv.last; rw [← hc] at hq; rw [hq] at hx; simp at hx
        · omega
      obtain ⟨p', v', e', hv'⟩ := hv.mid j hj0 hj1
      rw [hx] at e'
      simp only [Option.some.injEq, Prod.mk.injEq] at e'
      rw [e'.2]; exact hv'
  rw [argmin_eq_strict big _ hlt'] at hcol
  rcases argminLoopS_min (S.map (·.2)) 0 big 0 with ⟨e, _⟩ | ⟨j0, w', e, hw', _, hmin⟩
  · rw [e, List.getElem?_map] at hcol
    obtain ⟨p, hp⟩ := hv.first
    rw [hp] at hcol
    simp at hcol
  · rw [e, Nat.zero_add, hw'] at hcol
    have : w' = w := by simpa using hcol
    subst this
    exact lt_of_lt_of_le hlt (hmin i _ hci)

end TV.Simplify
