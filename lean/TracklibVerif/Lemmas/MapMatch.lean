import TracklibVerif.Model.MapMatch
import TracklibVerif.Lemmas.Proj
/-! Helper lemmas for C10: `abs_curv` as prefix sums, additivity of distances along a segment,
`__distToNode`, the candidate loop. -/
namespace TV.MapMatch
open TV.Proj
variable {α : Type} [Field α] [LinearOrder α] [IsStrictOrderedRing α]

/-- the `sqrt` parameter is determined on squares -/
theorem sqrt_eq {sqrt : α → α} (hs : SqrtSpec sqrt) (v a : α) (ha : 0 ≤ a) (h : a * a = v) : sqrt v = a := by
  have hv : 0 ≤ v := by rw [← h]; exact mul_self_nonneg a
  obtain ⟨s0, ss⟩ := hs v hv
  have e : (sqrt v - a) * (sqrt v + a) = 0 := by
    have : sqrt v * sqrt v = a * a := by rw [ss, h]
    linear_combination this
  rcases mul_eq_zero.mp e with e1 | e2
  · linarith
  · have : sqrt v = 0 := by linarith
    have : a = 0 := by linarith
    linarith

theorem dist2D_eq (sqrt : α → α) (a c : α × α) :
    dist2D sqrt a c = sqrt (d2 c.1 c.2 a.1 a.2) := rfl

/-- distances from a point of a segment to its two ends add up to the segment's length -/
theorem dist_on_seg {sqrt : α → α} (hs : SqrtSpec sqrt) (p1 p2 p : α × α)
    (h : OnSeg p1.1 p1.2 p2.1 p2.2 p.1 p.2) :
    dist2D sqrt p1 p + dist2D sqrt p2 p = dist2D sqrt p2 p1 := by
  obtain ⟨t, t0, t1, e1, e2⟩ := h
  have hN : 0 ≤ (p1.1 - p2.1) * (p1.1 - p2.1) + (p1.2 - p2.2) * (p1.2 - p2.2) :=
    add_nonneg (mul_self_nonneg _) (mul_self_nonneg _)
  obtain ⟨l0, ll⟩ := hs _ hN
  unfold dist2D
  rw [e1, e2]
  generalize hL : sqrt ((p1.1 - p2.1) * (p1.1 - p2.1) + (p1.2 - p2.2) * (p1.2 - p2.2)) = L at *
  have a1 : sqrt ((p1.1 + t * (p2.1 - p1.1) - p1.1) * (p1.1 + t * (p2.1 - p1.1) - p1.1) +
      (p1.2 + t * (p2.2 - p1.2) - p1.2) * (p1.2 + t * (p2.2 - p1.2) - p1.2)) = t * L :=
    sqrt_eq hs _ _ (mul_nonneg t0 l0) (by
      have : t * L * (t * L) = t * t * (L * L) := by ring
      rw [this, ll]; ring)
  have a2 : sqrt ((p1.1 + t * (p2.1 - p1.1) - p2.1) * (p1.1 + t * (p2.1 - p1.1) - p2.1) +
      (p1.2 + t * (p2.2 - p1.2) - p2.2) * (p1.2 + t * (p2.2 - p1.2) - p2.2)) = (1 - t) * L :=
    sqrt_eq hs _ _ (mul_nonneg (by linarith) l0) (by
      have : (1 - t) * L * ((1 - t) * L) = (1 - t) * (1 - t) * (L * L) := by ring
      rw [this, ll]; ring)
  rw [a1, a2]; ring

/-- `abs_curv[i+1] = abs_curv[i] + |P_i P_{i+1}|` (prefix sums), for the running form of the integrator -/
theorem curvFrom_succ (sqrt : α → α) (l : List (α × α)) :
    ∀ (acc : α) (prev : α × α) (i : Nat) (c : α) (p q : α × α),
      (acc :: curvFrom sqrt acc prev l)[i]? = some c → (prev :: l)[i]? = some p → (prev :: l)[i + 1]? = some q →
      (acc :: curvFrom sqrt acc prev l)[i + 1]? = some (c + dist2D sqrt q p) := by
  induction l with
  | nil => intro acc prev i c p q _ _ h3; simp at h3
  | cons x rest ih =>
    intro acc prev i c p q h1 h2 h3
    cases i with
    | zero =>
      simp only [List.getElem?_cons_zero, Option.some.injEq] at h1 h2
      simp only [Nat.zero_add, List.getElem?_cons_succ, List.getElem?_cons_zero, Option.some.injEq] at h3
      subst h1 h2 h3
      simp [curvFrom]
    | succ i =>
      simp only [List.getElem?_cons_succ] at h1 h2 h3 ⊢
      rw [curvFrom] at h1 ⊢
      exact ih _ x i c p q h1 h2 h3

theorem absCurv_succ (sqrt : α → α) (g : List (α × α)) (i : Nat) (c : α) (p q : α × α)
    (h1 : (absCurv sqrt g)[i]? = some c) (h2 : g[i]? = some p) (h3 : g[i + 1]? = some q) :
    (absCurv sqrt g)[i + 1]? = some (c + dist2D sqrt q p) := by
  cases g with
  | nil => simp at h2
  | cons a rest => exact curvFrom_succ sqrt rest 0 a i c p q h1 h2 h3

/-- the two `__distToNode` values of a point lying on segment `i` of an edge whose `abs_curv` column is the
one `computeAbsCurv` makes add up to the last `abs_curv` value, i.e. the length of the edge -/
theorem distToNode_sum {sqrt : α → α} (hs : SqrtSpec sqrt) (e : Edge α) (p : α × α) (i : Nat) (a b : α) (p1 p2 : α × α)
    (g1 : e.geom[i]? = some p1) (g2 : e.geom[i + 1]? = some p2)
    (hon : OnSeg p1.1 p1.2 p2.1 p2.2 p.1 p.2)
    (ha : distToNode sqrt e p i 0 = some a) (hb : distToNode sqrt e p i 1 = some b)
    (hc : e.curv = absCurv sqrt e.geom) :
    ∃ len, e.curv[e.geom.length - 1]? = some len ∧ a + b = len := by
  unfold distToNode at ha hb
  cases h1 : e.curv[i]? with
  | none => simp [h1] at ha
  | some si1 =>
    cases h2 : e.curv[i + 1]? with
    | none => simp [h1, h2] at ha
    | some si2 =>
      simp only [h1, h2, g1, ↓reduceIte, Option.some.injEq] at ha
      simp only [h1, h2, g2, Nat.succ_ne_zero, one_ne_zero, ↓reduceIte] at hb
      cases h3 : e.curv[e.geom.length - 1]? with
      | none => simp [h3] at hb
      | some sl =>
        simp only [h3, Option.some.injEq] at hb
        refine ⟨sl, rfl, ?_⟩
        rw [hc] at h1 h2
        have := absCurv_succ sqrt e.geom i si1 p1 p2 h1 g1 g2
        rw [h2] at this
        injection this with this
        have hd := dist_on_seg hs p1 p2 p hon
        rw [← ha, ← hb, this]
        linear_combination hd

end TV.MapMatch
