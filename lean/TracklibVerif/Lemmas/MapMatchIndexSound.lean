import TracklibVerif.Lemmas.MapMatchTotal
/-! Helper lemmas for C10, sixth part: the spatial index of a network built by `addEdge` calls only ever answers NUMBERS OF
REGISTERED EDGES (every value stored in a cell of the grid is a feature number handed to `addFeature`, all of them smaller than
the number of edges), so that the `EDGES[getEdgeId(elem)]` of the candidate loop never raises `KeyError` / `IndexError`. With
`Lemmas/MapMatchTotal` this gives: on a built network whose geometries are regular the preparation of `STATES` can only be
stopped by an exception of the index query itself (C08's subject). -/
namespace TV.MapMatch
open TV.Proj
variable {α : Type} [Field α] [LinearOrder α] [IsStrictOrderedRing α]

/-- every value stored in the grid is smaller than `N` -/
def CellsBelow (g : Grid.Cells) (N : Nat) : Prop := ∀ row ∈ g, ∀ c ∈ row, ∀ v ∈ c, v < N

theorem CellsBelow.mono {g : Grid.Cells} {N M : Nat} (h : CellsBelow g N) (hnm : N ≤ M) : CellsBelow g M :=
  fun row hr c hc v hv => Nat.lt_of_lt_of_le (h row hr c hc v hv) hnm

theorem cellGet_below (g : Grid.Cells) (N : Nat) (h : CellsBelow g N) (i j : Int) (c : List Nat)
    (hc : Grid.cellGet g i j = .ok c) : ∀ v ∈ c, v < N := by
  unfold Grid.cellGet at hc
  split at hc
  · cases hc
  · rename_i a _
    split at hc
    · cases hc
    · rename_i row hrow
      split at hc
      · cases hc
      · rename_i b _
        split at hc
        · cases hc
        · rename_i c' hc'
          injection hc with hc; subst hc
          exact h row (List.mem_of_getElem? hrow) c' (List.mem_of_getElem? hc')

theorem cellAppend_below (g g' : Grid.Cells) (N : Nat) (h : CellsBelow g N) (i j : Int) (d : Nat) (hd : d < N)
    (hg : Grid.cellAppend g i j d = .ok g') : CellsBelow g' N := by
  unfold Grid.cellAppend at hg
  split at hg
  · cases hg
  · rename_i a _
    split at hg
    · cases hg
    · rename_i row hrow
      split at hg
      · cases hg
      · rename_i b _
        split at hg
        · cases hg
        · rename_i c hc
          injection hg with hg; subst hg
          intro row' hr' c' hc' v hv
          rcases List.mem_or_eq_of_mem_set hr' with hin | heq
          · exact h row' hin c' hc' v hv
          · subst heq
            rcases List.mem_or_eq_of_mem_set hc' with hin | heq
            · exact h row (List.mem_of_getElem? hrow) c' hin v hv
            · subst heq
              rcases List.mem_append.mp hv with hv | hv
              · exact h row (List.mem_of_getElem? hrow) c (List.mem_of_getElem? hc) v hv
              · simp only [List.mem_singleton] at hv; subst hv; exact hd

theorem registerCell_below (ix ix' : Grid.Index α) (N : Nat) (h : CellsBelow ix.grid N) (d : Nat) (hd : d < N)
    (cell : Int × Int) (hr : Grid.registerCell ix d cell = .ok ix') : CellsBelow ix'.grid N := by
  unfold Grid.registerCell at hr
  simp only at hr
  split at hr
  · cases hr
  · split at hr
    · cases hr
    · split at hr
      · cases hr
      · split at hr
        · injection hr with hr; subst hr; exact h
        · split at hr
          · injection hr with hr; subst hr; exact h
          · split at hr
            · cases hr
            · rename_i g hg
              injection hr with hr; subst hr
              exact cellAppend_below ix.grid g N h _ _ d hd hg

theorem registerCells_below (d : Nat) (N : Nat) (hd : d < N) (cells : List (Int × Int)) :
    ∀ (ix ix' : Grid.Index α), CellsBelow ix.grid N → Grid.registerCells ix d cells = .ok ix' → CellsBelow ix'.grid N := by
  induction cells with
  | nil => intro ix ix' h hr; simp only [Grid.registerCells] at hr; injection hr with hr; subst hr; exact h
  | cons cell rest ih =>
    intro ix ix' h hr
    rw [Grid.registerCells] at hr
    cases h1 : Grid.registerCell ix d cell with
    | error e => rw [h1] at hr; cases hr
    | ok ix1 =>
      rw [h1] at hr
      exact ih ix1 ix' (registerCell_below ix ix1 N h d hd cell h1) hr

theorem addFeatureLoop_below (fl : α → Int) (num N : Nat) (hd : num < N) (track : List (α × α)) :
    ∀ (ix ix' : Grid.Index α) (c1 : Option (α × α)), CellsBelow ix.grid N →
      Grid.addFeatureLoop fl num ix c1 track = .ok ix' → CellsBelow ix'.grid N := by
  induction track with
  | nil => intro ix ix' c1 h hr; simp only [Grid.addFeatureLoop] at hr; injection hr with hr; subst hr; exact h
  | cons c2 rest ih =>
    intro ix ix' c1 h hr
    cases c1 with
    | none => rw [Grid.addFeatureLoop] at hr; exact ih ix ix' _ h hr
    | some p =>
      rw [Grid.addFeatureLoop] at hr
      split at hr
      · cases hr
      · split at hr
        · cases hr
        · split at hr
          · rename_i p1 p2
            split at hr
            · cases hr
            · rename_i ix1 h1
              refine ih ix1 ix' _ ?_ hr
              exact registerCells_below num N hd _ ix ix1 h h1
          · exact ih ix ix' _ h hr

theorem addFeature_below (fl : α → Int) (ix ix' : Grid.Index α) (track : List (α × α)) (num N : Nat) (hd : num < N)
    (h : CellsBelow ix.grid N) (hr : Grid.addFeature fl ix track num = .ok ix') : CellsBelow ix'.grid N :=
  addFeatureLoop_below fl num N hd track ix ix' none h hr

theorem addFeatures_below (fl : α → Int) (N : Nat) (feats : List (List (α × α))) :
    ∀ (ix ix' : Grid.Index α) (num : Nat), num + feats.length ≤ N → CellsBelow ix.grid N →
      Grid.addFeatures fl ix num feats = .ok ix' → CellsBelow ix'.grid N := by
  induction feats with
  | nil => intro ix ix' num _ h hr; simp only [Grid.addFeatures] at hr; injection hr with hr; subst hr; exact h
  | cons t rest ih =>
    intro ix ix' num hn h hr
    rw [Grid.addFeatures] at hr
    simp only [List.length_cons] at hn
    cases h1 : Grid.addFeature fl ix t num with
    | error e => rw [h1] at hr; cases hr
    | ok ix1 =>
      rw [h1] at hr
      exact ih ix1 ix' (num + 1) (by omega) (addFeature_below fl ix ix1 t num N (by omega) h h1) hr

/-- the index built by the constructor on `feats` only holds numbers `< len(feats)` -/
theorem build_below (fl : α → Int) (feats : List (List (α × α))) (res : Option (α × α)) (margin : α) (ix : Grid.Index α)
    (hb : Grid.build fl feats res margin = .ok ix) : CellsBelow ix.grid feats.length := by
  unfold Grid.build at hb
  split at hb
  · cases hb
  · split at hb
    · cases hb
    · rename_i ix0 hmk
      refine addFeatures_below fl feats.length feats ix0 ix 0 (by omega) ?_ hb
      unfold Grid.mkIndex at hmk
      simp only at hmk
      split at hmk
      · cases hmk
      · split at hmk
        · cases hmk
        · injection hmk with hmk; subst hmk
          intro row hr c hc v hv
          simp only [List.mem_replicate] at hr
          rw [hr.2] at hc
          simp only [List.mem_replicate] at hc
          rw [hc.2] at hv
          simp at hv

theorem addNew_mem (l : List Nat) (x v : Nat) (h : v ∈ Grid.addNew l x) : v ∈ l ∨ v = x := by
  unfold Grid.addNew at h
  split at h
  · exact Or.inl h
  · rcases List.mem_append.mp h with h | h
    · exact Or.inl h
    · simp only [List.mem_singleton] at h; exact Or.inr h

theorem addAll_below (N : Nat) (values : List Nat) : ∀ (tab : List Nat), (∀ v ∈ tab, v < N) → (∀ v ∈ values, v < N) →
    ∀ v ∈ Grid.addAll tab values, v < N := by
  induction values with
  | nil => intro tab ht _ v hv; exact ht v hv
  | cons x rest ih =>
    intro tab ht hvs v hv
    unfold Grid.addAll at hv
    simp only [List.foldl_cons] at hv
    refine ih (Grid.addNew tab x) ?_ (fun w hw => hvs w (List.mem_cons_of_mem _ hw)) v hv
    intro w hw
    rcases addNew_mem tab x w hw with h | h
    · exact ht w h
    · subst h; exact hvs w (by simp)

theorem collectCells_below (ix : Grid.Index α) (N : Nat) (h : CellsBelow ix.grid N) (cells : List (Int × Int)) :
    ∀ (tab res : List Nat), (∀ v ∈ tab, v < N) → Grid.collectCells ix tab cells = .ok res → ∀ v ∈ res, v < N := by
  induction cells with
  | nil => intro tab res ht hr; simp only [Grid.collectCells] at hr; injection hr with hr; subst hr; exact ht
  | cons cell rest ih =>
    intro tab res ht hr
    rw [Grid.collectCells] at hr
    cases h1 : Grid.requestCell ix cell.1 cell.2 with
    | error e => rw [h1] at hr; cases hr
    | ok values =>
      rw [h1] at hr
      exact ih _ res (addAll_below N values tab ht (cellGet_below ix.grid N h _ _ values h1)) hr

theorem searchCellLoop_below (ix : Grid.Index α) (N : Nat) (h : CellsBelow ix.grid N) (i j : Int) (fuel : Nat) :
    ∀ (u : Int) (tab : List Nat) (found : Bool) (res : List Nat), (∀ v ∈ tab, v < N) →
      Grid.searchCellLoop ix i j fuel u tab found = .ok res → ∀ v ∈ res, v < N := by
  induction fuel with
  | zero => intro u tab found res ht hr; simp only [Grid.searchCellLoop] at hr; injection hr with hr; subst hr; exact ht
  | succ fuel ih =>
    intro u tab found res ht hr
    rw [Grid.searchCellLoop] at hr
    split at hr
    · split at hr
      · cases hr
      · rename_i tab' h1
        have ht' := collectCells_below ix N h _ tab tab' ht h1
        split at hr
        · injection hr with hr; subst hr; exact ht'
        · exact ih _ tab' _ res ht' hr
    · injection hr with hr; subst hr; exact ht

/-- `neighborhood(coord, unit)` only answers numbers stored in the grid -/
theorem neighborhoodPoint_below (fl : α → Int) (ix : Grid.Index α) (N : Nat) (h : CellsBelow ix.grid N) (p : α × α)
    (u : Int) (l : List Nat) (hr : Grid.neighborhoodPoint fl ix p u = .ok (some l)) : ∀ v ∈ l, v < N := by
  unfold Grid.neighborhoodPoint at hr
  split at hr
  · cases hr
  · cases hr
  · rename_i c _
    split at hr
    · cases hr
    · rename_i l' h1
      injection hr with hr
      injection hr with hr; subst hr
      unfold Grid.neighborhoodCell at h1
      split at h1
      · exact collectCells_below ix N h _ [] l' (fun v hv => by simp at hv) h1
      · exact searchCellLoop_below ix N h _ _ _ _ [] false l' (fun v hv => by simp at hv) h1

/-! ### the index of a built network -/

theorem setEdge_length (l : List (NEdge α)) (ne : NEdge α) : (setEdge l ne).length ≤ l.length + 1 := by
  unfold setEdge; split <;> simp

theorem netFeatures_length (net : Net α) : (netFeatures net).length ≤ net.edges.length := by
  unfold netFeatures
  exact le_trans (List.length_filterMap_le _ _) (by simp)

/-- `addEdge` calls keep every number stored in the attached index below any `K` that bounds the number of edges -/
theorem addEdges_below (fl : α → Int) (K : Nat) (es : List (EdgeIn α × Node α × Node α)) :
    ∀ (net net' : Net α), addEdges fl net es = .ok net' → net.edges.length + es.length ≤ K →
      (∀ ix, net.index = some ix → CellsBelow ix.grid K) →
      (∀ ix, net'.index = some ix → CellsBelow ix.grid K) ∧ net'.edges.length ≤ net.edges.length + es.length := by
  induction es with
  | nil => intro net net' h _ hinv; simp only [addEdges] at h; injection h with h; subst h; exact ⟨hinv, by simp⟩
  | cons x rest ih =>
    intro net net' h hK hinv
    obtain ⟨e, s, t⟩ := x
    simp only [addEdges] at h
    simp only [List.length_cons] at hK
    cases h1 : addEdge fl net e s t with
    | error er => rw [h1] at h; cases h
    | ok net1 =>
      rw [h1] at h
      simp only at h
      obtain ⟨he, _, _⟩ := addEdge_spec fl net net1 e s t h1
      have hlen : net1.edges.length ≤ net.edges.length + 1 := by rw [he]; exact setEdge_length _ _
      have hinv1 : ∀ ix, net1.index = some ix → CellsBelow ix.grid K := by
        intro ix hix
        unfold addEdge at h1
        obtain ⟨e1, _, x1⟩ := addNode_frame net s
        obtain ⟨e2, _, x2⟩ := addNode_frame (addNode net s) t
        simp only at h1
        split at h1
        · rename_i hnone
          injection h1 with h1; subst h1
          simp only at hix hnone
          rw [hnone] at hix; cases hix
        · rename_i ix0 hsome
          split at h1
          · cases h1
          · rename_i ix1 hadd
            injection h1 with h1; subst h1
            simp only [Option.some.injEq] at hix
            subst hix
            rw [x2, x1] at hsome
            refine addFeature_below fl ix0 ix1 e.geom _ K ?_ (hinv ix0 hsome) hadd
            have : (setEdge (addNode (addNode net s) t).edges ⟨e, s.id, t.id⟩).length ≤ net.edges.length + 1 := by
              rw [e2, e1]; exact setEdge_length _ _
            have hpos : 0 < (setEdge (addNode (addNode net s) t).edges ⟨e, s.id, t.id⟩).length := by
              unfold setEdge; split
              · rename_i hany
                simp only [List.length_map]
                rcases List.any_eq_true.mp hany with ⟨y, hy, _⟩
                exact List.length_pos_of_mem hy
              · simp
            omega
      obtain ⟨r1, r2⟩ := ih net1 net' h (by omega) hinv1
      exact ⟨r1, by simp only [List.length_cons]; omega⟩

/-- the index of a built network (constructor before or after the last edges) only holds numbers of edges handed over -/
theorem buildNet_index_below (fl : α → Int) (es : List (EdgeIn α × Node α × Node α)) (late : Nat) (res : Option (α × α))
    (margin : α) (net : Net α) (h : buildNet fl es late res margin = .ok net) :
    ∀ ix, net.index = some ix → CellsBelow ix.grid es.length := by
  unfold buildNet at h
  simp only at h
  cases h1 : addEdges fl Net.empty (es.take (es.length - late)) with
  | error er => rw [h1] at h; cases h
  | ok net1 =>
    rw [h1] at h
    simp only at h
    cases h2 : attachIndex fl net1 res margin with
    | error er => rw [h2] at h; cases h
    | ok net2 =>
      rw [h2] at h
      simp only at h
      have hm : (es.take (es.length - late)).length + (es.drop (es.length - late)).length = es.length := by
        rw [← List.length_append, List.take_append_drop]
      obtain ⟨_, l1⟩ := addEdges_below fl es.length _ Net.empty net1 h1 (by simp only [Net.empty, List.length_nil]; omega)
        (fun ix hix => by simp [Net.empty] at hix)
      simp only [Net.empty, List.length_nil, Nat.zero_add] at l1
      obtain ⟨b1, _, _⟩ := attachIndex_frame fl net1 net2 res margin h2
      have hinv2 : ∀ ix, net2.index = some ix → CellsBelow ix.grid es.length := by
        intro ix hix
        unfold attachIndex at h2
        split at h2
        · cases h2
        · rename_i ix0 hb
          injection h2 with h2; subst h2
          simp only [Option.some.injEq] at hix; subst hix
          exact (build_below fl _ res margin ix0 hb).mono (le_trans (netFeatures_length net1) (by omega))
      exact (addEdges_below fl es.length _ net2 net h (by rw [b1]; omega) hinv2).1

/-- on a built network (pairwise different edge ids) the candidates of any observation are numbers of existing edges -/
theorem candidates_exist (fl : α → Int) (es : List (EdgeIn α × Node α × Node α)) (late : Nat) (res : Option (α × α))
    (margin : α) (net : Net α) (hnd : (es.map (fun x => x.1.id)).Nodup) (h : buildNet fl es late res margin = .ok net)
    (radius : α) (pos : α × α) (E : List Nat) (hc : candidatesOf fl radius net pos = .ok (some E)) :
    ∀ n ∈ E, n < (netEdges net).length := by
  rw [buildNet_edges fl es late res margin net hnd h, List.length_map]
  unfold candidatesOf at hc
  split at hc
  · cases hc
  · rename_i ix hix
    split at hc
    · cases hc
    · split at hc
      · cases hc
      · rename_i c hnb
        injection hc with hc; subst hc
        exact neighborhoodPoint_below fl ix es.length (buildNet_index_below fl es late res margin net h ix hix) pos _ E hnb

/-- on a built network with regular geometries the preparation of `STATES` is stopped by nothing but an exception of the
index query itself -/
theorem allStatesNet_total {sqrt : α → α} (hs : SqrtSpec sqrt) (fl : α → Int) (eps radius : α)
    (es : List (EdgeIn α × Node α × Node α)) (late : Nat) (res : Option (α × α)) (margin : α) (net : Net α)
    (hnd : (es.map (fun x => x.1.id)).Nodup) (hmade : ∀ x ∈ es, x.1.curv = absCurv sqrt x.1.geom)
    (hgood : ∀ x ∈ es, GoodGeom eps x.1.geom) (hb : buildNet fl es late res margin = .ok net) :
    ∀ (track : List (Obs α)), (∀ o ∈ track, ∃ c, candidatesOf fl radius net o.pos = .ok c) →
      ∃ ss, allStatesNet sqrt fl eps radius net track = .ok ss := by
  have hne := buildNet_edges fl es late res margin net hnd hb
  have hcurv : ∀ eg ∈ netEdges net, eg.curv = absCurv sqrt eg.geom := by
    intro eg heg; rw [hne] at heg
    obtain ⟨x, hx, rfl⟩ := List.mem_map.mp heg
    exact hmade x hx
  have hg : ∀ eg ∈ netEdges net, GoodGeom eps eg.geom := by
    intro eg heg; rw [hne] at heg
    obtain ⟨x, hx, rfl⟩ := List.mem_map.mp heg
    exact hgood x hx
  intro track
  induction track with
  | nil => intro _; exact ⟨[], rfl⟩
  | cons o os ih =>
    intro hidx
    obtain ⟨c, hc⟩ := hidx o (by simp)
    obtain ⟨l, hl⟩ := obsStates_total hs eps radius (netEdges net) hcurv hg o.pos c
      (fun E hE => by subst hE; exact candidates_exist fl es late res margin net hnd hb radius o.pos E hc)
    obtain ⟨ss, hss⟩ := ih (fun o' ho' => hidx o' (List.mem_cons_of_mem _ ho'))
    rw [allStatesNet]
    unfold obsStatesNet
    simp only [hc, hl, hss]
    exact ⟨_, rfl⟩

end TV.MapMatch
