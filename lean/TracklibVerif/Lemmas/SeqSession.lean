import TracklibVerif.Lemmas.SeqFeat
/-! Helper lemmas for C04, part 5: the invariant of a session (operators applied in sequence): every
observation of every track of the pool reads, under every name its track lists, its own value. Core Lean only. -/
namespace TV.Seq

/-- `own tag nm` = the value the observation `tag` holds for the feature `nm`. A track is good when its
table is well-formed and every one of its observations reads its own value under every listed name. -/
def Good (own : Nat → String → Int) (tr : Track) : Prop :=
  WF tr.table ∧ ∀ o ∈ tr.pts, ∀ nm ∈ tr.names, o.read tr.table nm = .val (own o.tag nm)

variable {own : Nat → String → Int}

theorem good_of_sub {r s : Track} (hs : Good own s) (ht : r.table = s.table) (hm : ∀ o ∈ r.pts, o ∈ s.pts) :
    Good own r := by
  refine ⟨ht ▸ hs.1, ?_⟩
  intro o ho nm hnm
  rw [ht]
  exact hs.2 o (hm o ho) nm (by simpa [Track.names, ht] using hnm)

theorem good_concat {t1 t2 : Track} (h1 : Good own t1) (h2 : Good own t2) : Good own (concat t1 t2) := by
  unfold concat
  by_cases hn : t1.names = t2.names
  · have hs : sameNames t1.names t2.names = true := (sameNames_iff _ _).mpr hn
    have h12 : t1.table = t2.table := wf_eq_of_names h1.1 h2.1 hn
    simp only [hs, if_true]
    refine ⟨h1.1, ?_⟩
    intro o ho nm hnm
    rcases List.mem_append.mp ho with ho | ho
    · exact h1.2 o ho nm hnm
    · show o.read t1.table nm = _
      rw [h12]
      exact h2.2 o ho nm (by simpa [Track.names, h12] using hnm)
  · have hs : sameNames t1.names t2.names = false := by
      cases h : sameNames t1.names t2.names with
      | false => rfl
      | true => exact absurd ((sameNames_iff _ _).mp h) hn
    simp only [hs, Bool.false_eq_true, if_false]
    exact ⟨wf_nil, fun o _ nm hnm => by simp [Track.names] at hnm⟩

theorem good_insert {tr r : Track} {o : Obs} (hg : Good own tr)
    (ho : ∀ nm ∈ tr.names, o.read tr.table nm = .val (own o.tag nm))
    (ht : r.table = tr.table) (hm : ∀ x ∈ r.pts, x = o ∨ x ∈ tr.pts) : Good own r := by
  refine ⟨ht ▸ hg.1, ?_⟩
  intro x hx nm hnm
  have hnm' : nm ∈ tr.names := by simpa [Track.names, ht] using hnm
  rw [ht]
  rcases hm x hx with e | hx'
  · subst e; exact ho nm hnm'
  · exact hg.2 x hx' nm hnm'

/-- in a table whose columns are `k0, k0+1, …` and whose names are distinct, the column of the `k`-th name -/
theorem colOf_pos : ∀ (tb : Table) (k0 k : Nat) (nm : String), (tb.map (·.1)).Nodup →
    tb.map (·.2) = List.range' k0 tb.length → (tb.map (·.1))[k]? = some nm → colOf tb nm = some (k0 + k)
  | [], _, _, _, _, _, h => by simp at h
  | (n1, c1) :: rest, k0, k, nm, hn, hc, hk => by
    simp only [List.map_cons, List.length_cons, List.range'_succ, List.cons.injEq] at hc
    rw [List.map_cons] at hn
    have hn' := List.nodup_cons.mp hn
    cases k with
    | zero =>
      simp only [List.map_cons, List.getElem?_cons_zero, Option.some.injEq] at hk
      simp [colOf, hk, hc.1]
    | succ k' =>
      simp only [List.map_cons, List.getElem?_cons_succ] at hk
      have hne : ¬ (n1 = nm) := by
        intro e
        apply hn'.1
        rw [e]
        exact List.mem_of_getElem? hk
      have ih := colOf_pos rest (k0 + 1) k' nm hn'.2 hc.2 hk
      have hb : ((n1, c1).1 == nm) = false := by simp [hne]
      have : colOf ((n1, c1) :: rest) nm = colOf rest nm := by
        simp only [colOf, List.find?_cons, hb]
      rw [this, ih]
      congr 1; omega

/-- the observation `mkObs` builds for a track with a well-formed table reads, under every name of the track,
the value given for that name -/
theorem mkObs_reads (tr : Track) (hwf : WF tr.table) (tag : Nat) (time : Int) (vals : List (String × Int)) (o : Obs)
    (h : mkObs tr tag time vals = some o) (hv : ∀ nm v, lookVal vals nm = some v → v = own tag nm) :
    o.tag = tag ∧ ∀ nm ∈ tr.names, o.read tr.table nm = .val (own o.tag nm) := by
  unfold mkObs at h
  split at h
  · rename_i hall
    cases h
    refine ⟨rfl, ?_⟩
    intro nm hnm
    obtain ⟨k, hk⟩ := List.mem_iff_getElem?.mp hnm
    have hcols : tr.table.map (·.2) = List.range' 0 tr.table.length := by
      rw [hwf.2, List.range_eq_range']
    have hcol := colOf_pos tr.table 0 k nm hwf.1 hcols hk
    rw [Nat.zero_add] at hcol
    have hsome : (lookVal vals nm).isSome = true := (List.all_eq_true.mp hall) nm hnm
    obtain ⟨v, hvv⟩ := Option.isSome_iff_exists.mp hsome
    have hfeat : (tr.names.map (fun nm => (lookVal vals nm).getD 0))[k]? = some v := by
      rw [List.getElem?_map]
      have : tr.names[k]? = some nm := hk
      rw [this]; simp [hvv]
    simp only [Obs.read, hcol, hfeat]
    rw [hv nm v hvv]
  · cases h

end TV.Seq
