import TracklibVerif.Lemmas.ExprPre7
/-! # Extension: reflexive assignments `lhs op= e` (`__convertReflexOperator`)

`a+=e` is rewritten to `a=a+(e)`: `preprocess (lhs ++ op :: '=' :: src e)` is `preprocess` of the source
string of the statement `lhs = lhs op (e)`. -/
namespace TV.Expr
open TV.Rpn

/-! ## `contains`, `split` -/

theorem contains_of_decomp (pat : Str) : ∀ (p q : Str), contains pat (p ++ pat ++ q) = true
  | [], q => by
    cases hpq : pat ++ q with
    | nil =>
      obtain ⟨h1, h2⟩ := List.append_eq_nil_iff.mp hpq
      subst h1 h2
      rfl
    | cons c cs =>
      have : pat.isPrefixOf (c :: cs) = true := by
        rw [← hpq]; exact List.isPrefixOf_iff_prefix.mpr (List.prefix_append _ _)
      simp only [List.nil_append, hpq, contains, this, Bool.true_or]
  | x :: p, q => by
    simp only [List.cons_append, contains, contains_of_decomp pat p q, Bool.or_true]

theorem splitAux_absent (sep : Str) : ∀ (s : Str), contains sep s = false → ∀ (f : Nat) (acc : Str),
    splitAux sep f acc s = [acc.reverse ++ s]
  | [], _, f, acc => by cases f <;> simp [splitAux]
  | c :: cs, h, f, acc => by
    simp only [contains, Bool.or_eq_false_iff] at h
    cases f with
    | zero => rfl
    | succ f =>
      simp only [splitAux, h.1, Bool.false_eq_true, if_false]
      rw [splitAux_absent sep cs h.2 f (c :: acc)]
      simp

theorem splitAux_once (a b : Char) (x : Str) (hx : contains [a, b] x = false) : ∀ (l : Str), a ∉ l →
    ∀ (f : Nat) (acc : Str), l.length < f → splitAux [a, b] f acc (l ++ a :: b :: x) = [acc.reverse ++ l, x]
  | [], _, f, acc, hf => by
    obtain ⟨f', rfl⟩ : ∃ f', f = f' + 1 := ⟨f - 1, by simp at hf; omega⟩
    simp only [List.nil_append, splitAux, List.isPrefixOf, beq_self_eq_true, Bool.and_self, if_true,
      List.length_cons, List.length_nil, List.drop_succ_cons, List.drop_zero, List.append_nil]
    rw [splitAux_absent _ x hx]
    rfl
  | c :: l, ha, f, acc, hf => by
    obtain ⟨f', rfl⟩ : ∃ f', f = f' + 1 := ⟨f - 1, by simp at hf; omega⟩
    have hc : (a == c) = false := by simpa using fun e => ha (by simp [e])
    have hl : a ∉ l := fun e => ha (List.mem_cons_of_mem _ e)
    simp only [List.cons_append, splitAux, List.isPrefixOf, hc, Bool.false_and, Bool.false_eq_true, if_false]
    rw [splitAux_once a b x hx l hl f' (c :: acc) (by simp at hf; omega)]
    simp

theorem splitOn_once (a b : Char) (l x : Str) (ha : a ∉ l) (hx : contains [a, b] x = false) :
    splitOn (l ++ a :: b :: x) [a, b] = [l, x] := by
  unfold splitOn
  rw [splitAux_once a b x hx l ha _ [] (by simp; omega)]
  rfl

/-! ## chains under a larger relation -/

theorem chn_cons2 (R : Char → Char → Bool) (a b : Char) (r : Str) : chn R (a :: b :: r) = (R a b && chn R (b :: r)) := rfl

theorem chn_mono {R R' : Char → Char → Bool} (h : ∀ a b, R a b = true → R' a b = true) :
    ∀ (s : Str), chn R s = true → chn R' s = true
  | [], _ => rfl
  | [_], _ => rfl
  | a :: b :: r, hs => by
    rw [chn_cons2, Bool.and_eq_true] at hs ⊢
    exact ⟨h _ _ hs.1, chn_mono h (b :: r) hs.2⟩

/-- adjacency in `lhs op= …`: additionally, `op` may be followed by `=` -/
def okpR (op : Char) (a b : Char) : Bool := okp a b || (a == op && b == '=')

theorem okpR_of_okp (op : Char) (a b : Char) (h : okp a b = true) : okpR op a b = true := by simp [okpR, h]

/-- the chain of `lhs op= X` -/
theorem chn_reflex {lhs : Str} {op : Char} {X : Str} (hl : NameOK lhs) (hd : lhs.getLast? ≠ some '.')
    (hop : pyLvl op < 9) (hX : Inv X) : chn (okpR op) (lhs ++ op :: '=' :: X) = true := by
  obtain ⟨a, z, hs, _, hz⟩ := inv_name hl hd
  obtain ⟨ax, zx, hx, hax, _⟩ := hX
  have s1 : Seg (lhs ++ [op]) a op := Seg.snoc hs (okp_end_op hz (cls_op hop))
  have s2 : Seg ('=' :: X) '=' zx := Seg.cons hx (okp_op_start (by decide) hax)
  have : lhs ++ op :: '=' :: X = (lhs ++ [op]) ++ ('=' :: X) := by simp
  rw [this, chn_append, chn_mono (okpR_of_okp op) _ s1.1, chn_mono (okpR_of_okp op) _ s2.1]
  simp [junc, s1.2.2, okpR]

/-! ## the steps -/

theorem special_src' (R : Char → Char → Bool) (hb1 : chn R ['*', '*'] = false) (hb2 : chn R ['.', '*'] = false)
    (hb3 : chn R ['>', '>'] = false) (hb4 : chn R ['<', '<'] = false)
    (pre : Str) (nolb : '{' ∉ pre) (norb : '}' ∉ pre) (e : Sx) (h : SrcOK e)
    (c0 : chn R (pre ++ src e) = true) (c1 : chn R (pre ++ mid e) = true) :
    specialOpChar (pre ++ src e) = pre ++ mid e := by
  have f1 : (pre ++ src e).flatMap (fm '{' ['@', '(']) = pre ++ pr ['@', '('] ['}'] ['(', '-'] e := by
    rw [List.flatMap_append, flatMap_fm_absent nolb, src, pr_flatMap '{' _ (Or.inl rfl) _ _ _ (by decide) e h]
    rfl
  have f2 : (pre ++ pr ['@', '('] ['}'] ['(', '-'] e).flatMap (fm '}' [')']) = pre ++ mid e := by
    rw [List.flatMap_append, flatMap_fm_absent norb, pr_flatMap '}' _ (Or.inr rfl) _ _ _ (by decide) e h]
    rfl
  simp only [specialOpChar]
  rw [replace_chn ['*', '*'] _ c0 hb1, replace_chn ['.', '*'] _ c0 hb2, replace_one (pre ++ src e), f1,
    replace_one, f2, replace_chn ['>', '>'] _ c1 hb3, replace_chn ['<', '<'] _ c1 hb4]

/-- one pass of `__convertReflexOperator` when exactly the operator `op` is followed by `=` -/
theorem convertReflex_at (op : Char) (before after : List Str) (hsplit : reflexOps = before ++ [op] :: after)
    (M N : Str) (hb : ∀ p ∈ before, contains (p ++ ['=']) M = false) (hat : contains [op, '='] M = true)
    (hN : (let splt := splitOn M [op, '=']
           splt.getD 0 [] ++ ['='] ++ splt.getD 0 [] ++ [op] ++ ['('] ++ splt.getD 1 [] ++ [')']) = N)
    (ha : ∀ p ∈ after, contains (p ++ ['=']) N = false) : convertReflexOperator M = N := by
  unfold convertReflexOperator
  rw [hsplit, List.foldl_append, List.foldl_cons]
  rw [foldl_fix _ M before (fun p hp => by simp only [hb p hp, Bool.false_eq_true, if_false])]
  have : [op] ++ ['='] = [op, '='] := rfl
  simp only [this, hat, if_true]
  simp only [] at hN
  rw [hN]
  exact foldl_fix _ N after (fun p hp => by simp only [ha p hp, Bool.false_eq_true, if_false])

/-- `lhs=lhs op` in front of a printed expression -/
theorem preOK_reflex {lhs : Str} {op : Char} (hl : NameOK lhs) (hd : lhs.getLast? ≠ some '.') (hop : pyLvl op < 9)
    (ha : achar op = false) : PreOK (lhs ++ ['='] ++ lhs ++ [op]) where
  chn := fun X h => by
    obtain ⟨a, z, hs, _, hz⟩ := inv_name hl hd
    obtain ⟨ax, zx, hx, hax, _⟩ := h
    have hzA : cls z = .A := by
      rcases hz with ⟨h, _⟩ | h | h
      · exact h
      · exact absurd h (by
          have := (seg_atom lhs hl.1 (fun c hc => cls_achar (hl.2 c hc)))
          obtain ⟨_, z', hs', _, hz'⟩ := this
          have : z' = z := Option.some.inj (hs'.2.2.symm.trans hs.2.2)
          subst this; rw [hz']; decide)
      · exact absurd h (by
          have := (seg_atom lhs hl.1 (fun c hc => cls_achar (hl.2 c hc)))
          obtain ⟨_, z', hs', _, hz'⟩ := this
          have : z' = z := Option.some.inj (hs'.2.2.symm.trans hs.2.2)
          subst this; rw [hz']; decide)
    have hstartA : startC a := by
      obtain ⟨a', _, hs', ha', _⟩ := seg_atom lhs hl.1 (fun c hc => cls_achar (hl.2 c hc))
      have : a' = a := Option.some.inj (hs'.2.1.symm.trans hs.2.1)
      subst this; exact Or.inl ha'
    have s1 : Seg (lhs ++ [op]) a op := Seg.snoc hs (okp_end_op hz (cls_op hop))
    have s2 : Seg ((lhs ++ [op]) ++ X) a zx := Seg.append s1 hx (okp_op_start (cls_op hop) hax)
    have s3 : Seg (['='] ++ ((lhs ++ [op]) ++ X)) '=' zx := Seg.append (Seg.one _) s2 (okp_op_start (by decide) hstartA)
    have s4 := Seg.append hs s3 (okp_A_eq hzA)
    have : lhs ++ ['='] ++ lhs ++ [op] ++ X = lhs ++ (['='] ++ ((lhs ++ [op]) ++ X)) := by simp
    rw [this]; exact s4.1
  nosp := by
    have : ' ' ≠ op := by intro e; subst e; revert hop; decide
    simp only [List.mem_append, List.mem_singleton, not_or]
    exact ⟨⟨⟨name_not_mem hl (by decide), by decide⟩, name_not_mem hl (by decide)⟩, this⟩
  nolb := by
    have : '{' ≠ op := by intro e; subst e; revert hop; decide
    simp only [List.mem_append, List.mem_singleton, not_or]
    exact ⟨⟨⟨name_not_mem hl (by decide), by decide⟩, name_not_mem hl (by decide)⟩, this⟩
  norb := by
    have : '}' ≠ op := by intro e; subst e; revert hop; decide
    simp only [List.mem_append, List.mem_singleton, not_or]
    exact ⟨⟨⟨name_not_mem hl (by decide), by decide⟩, name_not_mem hl (by decide)⟩, this⟩
  nolp := by
    have : '(' ≠ op := by intro e; subst e; revert hop; decide
    simp only [List.mem_append, List.mem_singleton, not_or]
    exact ⟨⟨⟨name_not_mem hl (by decide), by decide⟩, name_not_mem hl (by decide)⟩, this⟩
  first := fun X _ => by
    cases lhs with
    | nil => exact absurd rfl hl.1
    | cons c r =>
      refine ⟨c, r ++ ['='] ++ (c :: r) ++ [op] ++ X, by simp, ?_⟩
      exact startC_ne (Or.inl (cls_achar (hl.2 c (by simp))))

theorem mid_no_eq (e : Sx) (h : SrcOK e) : '=' ∉ mid e := by
  intro hm
  refine pr_all (fun c => c ≠ '=') ⟨by decide, by decide⟩ (by decide) (by decide) (by decide) ?_ ?_ e h '=' hm rfl
  · intro c hc e; subst e; revert hc; decide
  · intro o _ ho; exact ho

/-- the single-character reflexive operators -/
def rops : List Char := ['+', '-', '*', '/', '^', '%', '!']

theorem reflex_core (op : Char) (before after : List Str) (hsplit : reflexOps = before ++ [op] :: after)
    (hop : pyLvl op < 9) (hach : achar op = false)
    (hb1 : chn (okpR op) ['*', '*'] = false) (hb2 : chn (okpR op) ['.', '*'] = false)
    (hb3 : chn (okpR op) ['>', '>'] = false) (hb4 : chn (okpR op) ['<', '<'] = false)
    (hbef : ∀ p ∈ before, chn (okpR op) (p ++ ['=']) = false)
    (lhs : Str) (e : Sx) (hl : NameOK lhs) (hd : lhs.getLast? ≠ some '.') (h : SrcOK e) :
    rewr (lhs ++ op :: '=' :: src e) = .ok (lhs ++ ['='] ++ lhs ++ [op] ++ tgt (.par e)) := by
  have hpre := preOK_reflex hl hd hop hach
  have i0 : Inv (src e) := pr_inv (Or.inl rfl) (Or.inl rfl) (Or.inl rfl) e h
  have i1 : Inv (mid e) := pr_inv (Or.inr rfl) (Or.inr rfl) (Or.inl rfl) e h
  have ip1 : Inv (mid (.par e)) := pr_inv (Or.inr rfl) (Or.inr rfl) (Or.inl rfl) (.par e) h
  have ip2 : Inv (tgt (.par e)) := pr_inv (Or.inr rfl) (Or.inr rfl) (Or.inr rfl) (.par e) h
  have e0 : lhs ++ op :: '=' :: src e = (lhs ++ [op, '=']) ++ src e := by simp
  have e1 : lhs ++ op :: '=' :: mid e = (lhs ++ [op, '=']) ++ mid e := by simp
  have c0 : chn (okpR op) ((lhs ++ [op, '=']) ++ src e) = true := by rw [← e0]; exact chn_reflex hl hd hop i0
  have c1 : chn (okpR op) ((lhs ++ [op, '=']) ++ mid e) = true := by rw [← e1]; exact chn_reflex hl hd hop i1
  have cN : chn okp (lhs ++ ['='] ++ lhs ++ [op] ++ mid (.par e)) = true := hpre.chn _ ip1
  have cT : chn okp (lhs ++ ['='] ++ lhs ++ [op] ++ tgt (.par e)) = true := hpre.chn _ ip2
  have hopl : op ∉ lhs := name_not_mem hl hach
  have hsp : ' ' ≠ op := by intro e; subst e; revert hop; decide
  have hlbc : '{' ≠ op := by intro e; subst e; revert hop; decide
  have hrbc : '}' ≠ op := by intro e; subst e; revert hop; decide
  have s1 : replace ((lhs ++ [op, '=']) ++ src e) [' '] [] = (lhs ++ [op, '=']) ++ src e := by
    apply replace_absent
    apply contains_single_false
    simp only [List.mem_append, List.mem_cons, List.mem_nil_iff, or_false, not_or]
    exact ⟨⟨name_not_mem hl (by decide), hsp, by decide⟩, src_no_space e h⟩
  have s2 : specialOpChar ((lhs ++ [op, '=']) ++ src e) = (lhs ++ [op, '=']) ++ mid e := by
    apply special_src' (okpR op) hb1 hb2 hb3 hb4 _ _ _ e h c0 c1
    · simp only [List.mem_append, List.mem_cons, List.mem_nil_iff, or_false, not_or]
      exact ⟨name_not_mem hl (by decide), hlbc, by decide⟩
    · simp only [List.mem_append, List.mem_cons, List.mem_nil_iff, or_false, not_or]
      exact ⟨name_not_mem hl (by decide), hrbc, by decide⟩
  have hx : contains [op, '='] (mid e) = false := by
    cases hc : contains [op, '='] (mid e) with
    | false => rfl
    | true =>
      obtain ⟨p, q, hpq⟩ := contains_decomp hc
      exact absurd (by rw [hpq]; simp) (mid_no_eq e h)
  have s3 : convertReflexOperator ((lhs ++ [op, '=']) ++ mid e) = lhs ++ ['='] ++ lhs ++ [op] ++ mid (.par e) := by
    apply convertReflex_at op before after hsplit
    · intro p hp; exact contains_false_of_chn c1 (hbef p hp)
    · have := contains_of_decomp [op, '='] lhs (mid e)
      simpa using this
    · rw [← e1, splitOn_once op '=' lhs (mid e) hopl hx]
      simp [mid, pr]
    · intro p hp
      exact contains_false_of_chn cN (reflex_bad p (by rw [hsplit]; simp [hp]))
  have s4 := unary_mid _ hpre (.par e) h
  rw [e0]
  simp only [rewr, s1, s2, s3, s4, bind, Except.bind, funcAt_id cT, pure, Except.pure]

theorem tgt_reflex (lhs : Str) (op : Char) (e : Sx) (hop : pyLvl op < 9) :
    tgt (.bin op (.var lhs) (.par e)) = lhs ++ op :: tgt (.par e) := by
  have h1 : decide (slv (Sx.var lhs) < pyLvl op) = false := decide_eq_false (by show ¬ (9 < pyLvl op); omega)
  have h2 : decide (slv (Sx.par e) ≤ pyLvl op) = false := decide_eq_false (by show ¬ (9 ≤ pyLvl op); omega)
  simp only [tgt, pr, h1, h2, wrapS, Bool.false_eq_true, if_false]

theorem srcOK_reflex {lhs : Str} {op : Char} {e : Sx} (hl : NameOK lhs) (hd : lhs.getLast? ≠ some '.')
    (hop : pyLvl op < 9) (hne : op ≠ '=') (h : SrcOK e) : SrcOK (.bin op (.var lhs) (.par e)) :=
  ⟨⟨hop, hne⟩, ⟨hl, hd⟩, h⟩

/-- **`lhs op= e`**: the chain gives what it gives for `lhs=lhs op (e)` -/
theorem rewr_reflex (lhs : Str) (op : Char) (e : Sx) (hop : op ∈ rops) (hl : NameOK lhs)
    (hd : lhs.getLast? ≠ some '.') (h : SrcOK e) :
    rewr (lhs ++ op :: '=' :: src e) = .ok (lhs ++ ['='] ++ tgt (.bin op (.var lhs) (.par e))) := by
  have key : rewr (lhs ++ op :: '=' :: src e) = .ok (lhs ++ ['='] ++ lhs ++ [op] ++ tgt (.par e)) ∧ pyLvl op < 9 := by
    simp only [rops, List.mem_cons, List.mem_nil_iff, or_false] at hop
    rcases hop with rfl | rfl | rfl | rfl | rfl | rfl | rfl
    · exact ⟨reflex_core _ (reflexOps.take 0) (reflexOps.drop 1) (by decide) (by decide) (by decide) (by decide)
        (by decide) (by decide) (by decide) (by decide) lhs e hl hd h, by decide⟩
    · exact ⟨reflex_core _ (reflexOps.take 1) (reflexOps.drop 2) (by decide) (by decide) (by decide) (by decide)
        (by decide) (by decide) (by decide) (by decide) lhs e hl hd h, by decide⟩
    · exact ⟨reflex_core _ (reflexOps.take 2) (reflexOps.drop 3) (by decide) (by decide) (by decide) (by decide)
        (by decide) (by decide) (by decide) (by decide) lhs e hl hd h, by decide⟩
    · exact ⟨reflex_core _ (reflexOps.take 3) (reflexOps.drop 4) (by decide) (by decide) (by decide) (by decide)
        (by decide) (by decide) (by decide) (by decide) lhs e hl hd h, by decide⟩
    · exact ⟨reflex_core _ (reflexOps.take 4) (reflexOps.drop 5) (by decide) (by decide) (by decide) (by decide)
        (by decide) (by decide) (by decide) (by decide) lhs e hl hd h, by decide⟩
    · exact ⟨reflex_core _ (reflexOps.take 7) (reflexOps.drop 8) (by decide) (by decide) (by decide) (by decide)
        (by decide) (by decide) (by decide) (by decide) lhs e hl hd h, by decide⟩
    · exact ⟨reflex_core _ (reflexOps.take 8) (reflexOps.drop 9) (by decide) (by decide) (by decide) (by decide)
        (by decide) (by decide) (by decide) (by decide) lhs e hl hd h, by decide⟩
  rw [key.1, tgt_reflex lhs op e key.2]
  simp

theorem rops_facts {op : Char} (hop : op ∈ rops) : pyLvl op < 9 ∧ op ≠ '=' := by
  simp only [rops, List.mem_cons, List.mem_nil_iff, or_false] at hop
  rcases hop with rfl | rfl | rfl | rfl | rfl | rfl | rfl <;> decide

/-- **`lhs op= e` is `lhs = lhs op (e)`** for `op` among `+ - * / ^ % !` -/
theorem preprocess_reflex (lhs : Str) (op : Char) (e : Sx) (hop : op ∈ rops) (hl : NameOK lhs)
    (hd : lhs.getLast? ≠ some '.') (h : SrcOK e) :
    preprocess (lhs ++ op :: '=' :: src e) = preprocess (lhs ++ '=' :: src (.bin op (.var lhs) (.par e))) := by
  have h1 := rewr_reflex lhs op e hop hl hd h
  have h2 := rewr_src (lhs ++ ['=']) (preOK_lhs hl) (.bin op (.var lhs) (.par e))
    (srcOK_reflex hl hd (rops_facts hop).1 (rops_facts hop).2 h)
  have e2 : lhs ++ '=' :: src (.bin op (.var lhs) (.par e)) = lhs ++ ['='] ++ src (.bin op (.var lhs) (.par e)) := by simp
  rw [e2, preprocess_of_rewr h1, preprocess_of_rewr h2]

/-- the rewritten string of `lhs op= e`, explicitly -/
theorem preprocess_reflex_eq (lhs : Str) (op : Char) (e : Sx) (hop : op ∈ rops) (hl : NameOK lhs)
    (hd : lhs.getLast? ≠ some '.') (h : SrcOK e) :
    preprocess (lhs ++ op :: '=' :: src e)
      = .ok (flat (shw pyLvl 9 (.bin '=' (.atom (String.ofList lhs))
          (.bin op (.atom (String.ofList lhs)) (.par (toE' e))))), true) := by
  rw [preprocess_reflex lhs op e hop hl hd h]
  exact preprocess_assign lhs _ hl (srcOK_reflex hl hd (rops_facts hop).1 (rops_facts hop).2 h)

variable {α : Type} [Scalar α]

/-- `operate` on `lhs op= e` is `operate` on `lhs=lhs op (e)` -/
theorem operate_reflex (tr : Tr α) (lhs : Str) (op : Char) (e : Sx) (hop : op ∈ rops) (hl : NameOK lhs)
    (hd : lhs.getLast? ≠ some '.') (h : SrcOK e) :
    operate tr (lhs ++ op :: '=' :: src e) = operate tr (lhs ++ '=' :: src (.bin op (.var lhs) (.par e))) :=
  operate_congr tr (preprocess_reflex lhs op e hop hl hd h)

/-- … hence on the postfix tokens `lhs, lhs, postfix(e), op, =` -/
theorem operate_source_tokens_reflex (tr : Tr α) (lhs : Str) (op : Char) (e : Sx) (hop : op ∈ rops)
    (hl : NameOK lhs) (hd : lhs.getLast? ≠ some '.') (hg : GoodTok lhs) (h : SrcOK e) (hq : NoQuote (desugar e)) :
    operate tr (lhs ++ op :: '=' :: src e)
      = operateTokens tr (lhs :: (Expr.post (.bin op (.var lhs) (desugar e)) ++ [['=']])) true := by
  rw [operate_reflex tr lhs op e hop hl hd h]
  exact operate_source_tokens tr lhs _ hl hg (srcOK_reflex hl hd (rops_facts hop).1 (rops_facts hop).2 h) ⟨hg, hq⟩

example : (preprocess "a+=b*SUM{(-a)}".toList).toOption = some ("a=a+(b*SUM@((0-a)))".toList, true) := by decide +kernel
example : (preprocess "a*=b+1".toList).toOption = some ("a=a*(b+1)".toList, true) := by decide +kernel

end TV.Expr
