import TracklibVerif.Lemmas.PartitionFront
import Mathlib.Algebra.Order.Ring.Defs
import Mathlib.Tactic.Linarith
import Mathlib.Tactic.Ring
set_option linter.unusedSectionVars false
/-! Stop detection read from a track (`stopPredTrack`, `stopKeepTrack`, `findStopsGlobalPy`): planimetric geometry of the
`break` shortcut — two points of a disc are at most a diameter apart — and independence of the altitude. -/
namespace TV.Partition

section flat
variable {α : Type} [Add α] [LT α] [DecidableLT α] [Sub α] [Mul α]

/-- `dist2D2` reads `x` and `y` only -/
theorem dist2D2_flat (p q p' q' : Fix α) (hp : p.flat = p'.flat) (hq : q.flat = q'.flat) : dist2D2 p q = dist2D2 p' q' := by
  simp only [Fix.flat, Prod.mk.injEq] at hp hq
  simp only [dist2D2, hp.1, hp.2.1, hq.1, hq.2.1]

theorem getFix_flat (zero : α) (l l' : List (Fix α)) (h : l.map Fix.flat = l'.map Fix.flat) (i : Nat) :
    (getFix zero l i).flat = (getFix zero l' i).flat := by
  have := congrArg (fun m => m[i]?) h
  simp only [List.getElem?_map] at this
  unfold getFix
  rw [List.getD_eq_getElem?_getD, List.getD_eq_getElem?_getD]
  cases h1 : l[i]? <;> cases h2 : l'[i]? <;> simp [h1, h2] at this ⊢
  exact this

/-- the three tests and the final filter depend on the planimetric positions and the times only -/
theorem stopPredTrack_flat (zero : α) (tr tr' : Nat → Fix α) (h : ∀ i, (tr i).flat = (tr' i).flat)
    (circ2 : Nat → Nat → Option α) (diameter duration : α) :
    stopPredTrack zero tr circ2 diameter duration = stopPredTrack zero tr' circ2 diameter duration := by
  have ht : ∀ i, (tr i).t = (tr' i).t := fun i => by
    have := h i; simp only [Fix.flat, Prod.mk.injEq] at this; exact this.2.2
  have hd : ∀ i e, dist2D2 (tr i) (tr e) = dist2D2 (tr' i) (tr' e) := fun i e => dist2D2_flat _ _ _ _ (h i) (h e)
  unfold stopPredTrack stopPredGlobal
  simp only [ht, hd]

theorem stopKeepTrack_flat (zero : α) (tr tr' : Nat → Fix α) (h : ∀ i, (tr i).flat = (tr' i).flat)
    (circA : Nat → Nat → Option α) (diameter duration : α) :
    stopKeepTrack zero tr circA diameter duration = stopKeepTrack zero tr' circA diameter duration := by
  have ht : ∀ i, (tr i).t = (tr' i).t := fun i => by
    have := h i; simp only [Fix.flat, Prod.mk.injEq] at this; exact this.2.2
  funext a e
  unfold stopKeepTrack
  simp only [ht]
end flat

section ring
variable {K : Type} [CommRing K] [LinearOrder K] [IsStrictOrderedRing K]

/-- the observations `i … e` of the track lie in the closed disc of centre `(cx, cy)` and squared radius `r2` -/
def Enclosed (tr : Nat → Fix K) (cx cy r2 : K) (i e : Nat) : Prop :=
  ∀ k, i ≤ k → k ≤ e → ((tr k).x - cx) * ((tr k).x - cx) + ((tr k).y - cy) * ((tr k).y - cy) ≤ r2

/-- two points of a disc are at most one diameter apart (squared: `4 r²`) -/
theorem dist2D2_le_of_disc (p q : Fix K) (cx cy r2 : K)
    (hp : (p.x - cx) * (p.x - cx) + (p.y - cy) * (p.y - cy) ≤ r2)
    (hq : (q.x - cx) * (q.x - cx) + (q.y - cy) * (q.y - cy) ≤ r2) : dist2D2 p q ≤ 4 * r2 := by
  unfold dist2D2
  have h1 := mul_self_nonneg ((q.x - cx) + (p.x - cx))
  have h2 := mul_self_nonneg ((q.y - cy) + (p.y - cy))
  have e : (q.x - p.x) * (q.x - p.x) + (q.y - p.y) * (q.y - p.y) =
      2 * ((p.x - cx) * (p.x - cx) + (p.y - cy) * (p.y - cy)) + 2 * ((q.x - cx) * (q.x - cx) + (q.y - cy) * (q.y - cy))
        - ((q.x - cx) + (p.x - cx)) * ((q.x - cx) + (p.x - cx)) - ((q.y - cy) + (p.y - cy)) * ((q.y - cy) + (p.y - cy)) := by ring
  rw [e]
  linarith

theorem enclosed_mono (tr : Nat → Fix K) (cx cy r2 : K) (i e i' e' : Nat) (h : Enclosed tr cx cy r2 i e) (hi : i ≤ i') (he : e' ≤ e) :
    Enclosed tr cx cy r2 i' e' := fun k h1 h2 => h k (by omega) (by omega)
end ring
end TV.Partition
