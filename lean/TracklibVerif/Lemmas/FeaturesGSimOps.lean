import TracklibVerif.Lemmas.FeaturesGSim
/-! `Lemmas/FeaturesOps.lean` for any two implementations of the Track API whose primitives are simulated (`PrimSim`): everything that goes
through the API (addListToAF, operator objects, bracket assignment, addAnalyticalFeature, the helpers) is simulated too.
Generated from that file by renaming (`Sim n` ↦ `GSim I ab`, the primitives' lemmas ↦ the fields of `PrimSim`); the original is kept. -/
set_option linter.unusedSectionVars false
namespace TV.Features
variable {V : Type} {σ τ : Type} [Tbl σ V] [Tbl τ V] {I : σ → Prop} {ab : σ → τ} [PrimSim I ab]
open Tbl

/-- leaves of the structural proofs; extended by `macro_rules` as lemmas become available -/
syntax "gsim_leaf" : tactic
macro_rules | `(tactic| gsim_leaf) => `(tactic| first
  | exact gsim_pure _ trivial
  | exact gsim_throw _
  | exact gsim_ofExcept _ (fun _ _ => trivial)
  | exact PrimSim.size
  | exact PrimSim.has _
  | exact PrimSim.names
  | exact PrimSim.get _ _
  | exact PrimSim.getObs _ _ _
  | exact PrimSim.setObs _ _ _
  | exact PrimSim.update _ _
  | exact PrimSim.remove _
  | exact PrimSim.create _ _)

/-- structural descent through bind / if / loops -/
macro "gsim_auto" : tactic => `(tactic| repeat (first
  | gsim_leaf
  | refine gsim_bind (P := fun _ => True) ?_ (fun _ _ => ?_)
  | refine gsim_ite _ ?_ ?_
  | refine gsim_forEach _ (fun _ _ => ?_)
  | refine gsim_weaken (gsim_mapL (Q := fun _ => True) _ (fun _ _ => ?_)) (fun _ _ => trivial)
  | refine gsim_foldL _ _ (fun _ _ _ => ?_)
  | refine gsim_catchIndex _ ?_ trivial
  | refine gsim_tryFinally ?_ ?_))

theorem gsim_addListToAF (name : String) (arr : List V) :
    GSim I ab (fun _ => True) (addListToAF (σ := σ) name arr) (addListToAF (σ := τ) name arr) := by
  unfold addListToAF
  refine gsim_bind PrimSim.size (fun k _ => ?_)
  refine gsim_forEach _ (fun i _ => ?_)
  cases arr[i]? <;> gsim_auto
macro_rules | `(tactic| gsim_leaf) => `(tactic| exact gsim_addListToAF _ _)

theorem gsim_setItem (name : String) (init : Init V) :
    GSim I ab (fun _ => True) (setItem (σ := σ) name init) (setItem (σ := τ) name init) := by
  unfold setItem
  refine gsim_bind (PrimSim.has name) (fun b _ => ?_)
  exact gsim_ite _ (PrimSim.update name init) (PrimSim.create name init)

theorem gsim_setCoordFromAF (o : Ops V) (c name : String) :
    GSim I ab (fun _ => True) (setCoordFromAF (σ := σ) o c name) (setCoordFromAF (σ := τ) o c name) := by
  unfold setCoordFromAF
  gsim_auto
macro_rules | `(tactic| gsim_leaf) => `(tactic| exact gsim_setCoordFromAF _ _ _)

theorem gsim_dist2D (o : Ops V) (i j : Nat) :
    GSim I ab (fun _ => True) (dist2DOp (σ := σ) o i j) (dist2DOp (σ := τ) o i j) := by
  unfold dist2DOp
  gsim_auto
macro_rules | `(tactic| gsim_leaf) => `(tactic| exact gsim_dist2D _ _ _)

theorem gsim_speedBetween (o : Ops V) (i j : Nat) :
    GSim I ab (fun _ => True) (speedBetweenOp (σ := σ) o i j) (speedBetweenOp (σ := τ) o i j) := by
  unfold speedBetweenOp
  gsim_auto
macro_rules | `(tactic| gsim_leaf) => `(tactic| exact gsim_speedBetween _ _ _)

theorem gsim_evalAlgo (o : Ops V) (alg : Algo V) (i : Nat) :
    GSim I ab (fun _ => True) (evalAlgo (σ := σ) o alg i) (evalAlgo (σ := τ) o alg i) := by
  cases alg <;> (unfold evalAlgo; gsim_auto)
macro_rules | `(tactic| gsim_leaf) => `(tactic| exact gsim_evalAlgo _ _ _)

theorem gsim_addAF (o : Ops V) (alg : Algo V) (name : String) :
    GSim I ab (fun _ => True) (addAF (σ := σ) o alg name) (addAF (σ := τ) o alg name) := by
  unfold addAF
  gsim_auto

macro_rules | `(tactic| gsim_leaf) => `(tactic| exact gsim_addAF _ _ _)

theorem gsim_unaryTemp (o : Ops V) (k : UOp) (inp : String) (m : Nat) :
    GSim I ab (fun _ => True) (unaryTemp (σ := σ) o k inp m) (unaryTemp (σ := τ) o k inp m) := by
  cases k <;> (unfold unaryTemp; gsim_auto)
macro_rules | `(tactic| gsim_leaf) => `(tactic| exact gsim_unaryTemp _ _ _ _)

theorem gsim_unaryVoid (o : Ops V) (k : UOp) (inp out : String) :
    GSim I ab (fun _ => True) (unaryVoid (σ := σ) o k inp out) (unaryVoid (σ := τ) o k inp out) := by
  unfold unaryVoid
  gsim_auto

macro_rules | `(tactic| gsim_leaf) => `(tactic| exact gsim_unaryVoid _ _ _ _)

theorem gsim_binaryVoid (o : Ops V) (k : BOp) (in1 in2 out : String) :
    GSim I ab (fun _ => True) (binaryVoid (σ := σ) o k in1 in2 out) (binaryVoid (σ := τ) o k in1 in2 out) := by
  unfold binaryVoid
  gsim_auto
macro_rules | `(tactic| gsim_leaf) => `(tactic| exact gsim_binaryVoid _ _ _ _ _)

theorem gsim_scalarVoid (o : Ops V) (k : SOp) (inp : String) (arg : V) (out : String) :
    GSim I ab (fun _ => True) (scalarVoid (σ := σ) o k inp arg out) (scalarVoid (σ := τ) o k inp arg out) := by
  unfold scalarVoid
  gsim_auto
macro_rules | `(tactic| gsim_leaf) => `(tactic| exact gsim_scalarVoid _ _ _ _ _)

theorem gsim_applyVoid (o : Ops V) (f : V → Except Err V) (inp out : String) :
    GSim I ab (fun _ => True) (applyVoid (σ := σ) o f inp out) (applyVoid (σ := τ) o f inp out) := by
  unfold applyVoid
  gsim_auto
macro_rules | `(tactic| gsim_leaf) => `(tactic| exact gsim_applyVoid _ _ _ _)

theorem gsim_scalarDivider (o : Ops V) (inp : String) (arg : V) (out : String) :
    GSim I ab (fun _ => True) (scalarDivider (σ := σ) o inp arg out) (scalarDivider (σ := τ) o inp arg out) := by
  unfold scalarDivider
  exact gsim_applyVoid o _ inp out

theorem gsim_scalarRevDivider (o : Ops V) (inp : String) (arg : V) (out : String) :
    GSim I ab (fun _ => True) (scalarRevDivider (σ := σ) o inp arg out) (scalarRevDivider (σ := τ) o inp arg out) := by
  unfold scalarRevDivider
  exact gsim_applyVoid o _ inp out

theorem gsim_shiftCircular (o : Ops V) (inp : String) (arg : V) (out : String) :
    GSim I ab (fun _ => True) (shiftCircular (σ := σ) o inp arg out) (shiftCircular (σ := τ) o inp arg out) := by
  unfold shiftCircular
  gsim_auto

theorem gsim_scalarKind (o : Ops V) (k : SKind) (inp : String) (arg : V) (out : String) :
    GSim I ab (fun _ => True) (scalarKind (σ := σ) o k inp arg out) (scalarKind (σ := τ) o k inp arg out) := by
  cases k with
  | plain s => exact gsim_scalarVoid o s inp arg out
  | divider => exact gsim_scalarDivider o inp arg out
  | revDivider => exact gsim_scalarRevDivider o inp arg out
  | shift => exact gsim_shiftCircular o inp arg out
  | shiftRev => exact gsim_shiftCircular o inp _ out
macro_rules | `(tactic| gsim_leaf) => `(tactic| exact gsim_scalarKind _ _ _ _ _)

theorem gsim_aggOp (o : Ops V) (f inp : String) :
    GSim I ab (fun _ => True) (aggOp (σ := σ) o f inp) (aggOp (σ := τ) o f inp) := by
  unfold aggOp
  gsim_auto
macro_rules | `(tactic| gsim_leaf) => `(tactic| exact gsim_aggOp _ _ _)

theorem gsim_sumOp (o : Ops V) (inp : String) :
    GSim I ab (fun _ => True) (sumOp (σ := σ) o inp) (sumOp (σ := τ) o inp) := by
  unfold sumOp
  gsim_auto

theorem gsim_readAll (o : Ops V) (cols cells : List String) :
    GSim I ab (fun _ => True) (readAll (σ := σ) o cols cells) (readAll (σ := τ) o cols cells) := by
  unfold readAll
  gsim_auto
macro_rules | `(tactic| gsim_leaf) => `(tactic| exact gsim_readAll _ _ _)

theorem gsim_opaqueVoid (o : Ops V) (cols cells : List String) (out : String) (vals : List V) :
    GSim I ab (fun _ => True) (opaqueVoid (σ := σ) o cols cells out vals) (opaqueVoid (σ := τ) o cols cells out vals) := by
  unfold opaqueVoid
  gsim_auto

theorem gsim_reverser (o : Ops V) (inp out : String) :
    GSim I ab (fun _ => True) (reverser (σ := σ) o inp out) (reverser (σ := τ) o inp out) := by
  unfold reverser
  refine gsim_bind PrimSim.size (fun k hk => ?_)
  refine gsim_bind (gsim_mapL (Q := fun _ => True) _ (fun i _ => PrimSim.getObs o inp _)) (fun temp ht => ?_)
  exact gsim_setItem out (.list temp)

theorem gsim_logVoid (o : Ops V) (inp out : String) :
    GSim I ab (fun _ => True) (logVoid (σ := σ) o inp out) (logVoid (σ := τ) o inp out) := by
  unfold logVoid
  refine gsim_bind PrimSim.size (fun k hk => ?_)
  refine gsim_bind (gsim_mapL (Q := fun _ => True) _ (fun i _ => ?_)) (fun temp ht => ?_)
  · gsim_auto
  exact gsim_setItem out (.list temp)

theorem gsim_runVFn (o : Ops V) (f : VFn) (inp out : String) :
    GSim I ab (fun _ => True) (runVFn (σ := σ) o f inp out) (runVFn (σ := τ) o f inp out) := by
  cases f with
  | integrator => unfold runVFn; exact gsim_bind (gsim_unaryVoid o _ inp out) (fun _ _ => gsim_pure _ trivial)
  | differentiator => unfold runVFn; exact gsim_bind (gsim_unaryVoid o _ inp out) (fun _ _ => gsim_pure _ trivial)
  | log => unfold runVFn; exact gsim_bind (gsim_logVoid o inp out) (fun _ _ => gsim_pure _ trivial)
  | apply name => unfold runVFn; gsim_auto
macro_rules | `(tactic| gsim_leaf) => `(tactic| exact gsim_runVFn _ _ _ _)

theorem gsim_absCurvOp (o : Ops V) :
    GSim I ab (fun _ => True) (absCurvOp (σ := σ) o) (absCurvOp (σ := τ) o) := by
  unfold absCurvOp
  gsim_auto

theorem gsim_estSpeedOp (o : Ops V) :
    GSim I ab (fun _ => True) (estSpeedOp (σ := σ) o) (estSpeedOp (σ := τ) o) := by
  unfold estSpeedOp
  gsim_auto

theorem gsim_segmentOp (o : Ops V) (inp out : String) (thr : V) :
    GSim I ab (fun _ => True) (segmentOp (σ := σ) o inp out thr) (segmentOp (σ := τ) o inp out thr) := by
  unfold segmentOp
  gsim_auto

theorem gsim_hasSV (sv : SV V) : GSim I ab (fun _ => True) (hasSV (σ := σ) sv) (hasSV (σ := τ) sv) := by
  cases sv <;> (unfold hasSV; gsim_auto)
macro_rules | `(tactic| gsim_leaf) => `(tactic| exact gsim_hasSV _)

theorem gsim_toFloat (o : Ops V) (sv : SV V) :
    GSim I ab (fun _ => True) (toFloat (σ := σ) o sv) (toFloat (σ := τ) o sv) := by
  cases sv with
  | tok s => unfold toFloat; simp only; cases o.parse s <;> gsim_auto
  | num v => unfold toFloat; gsim_auto
  | none => unfold toFloat; gsim_auto
macro_rules | `(tactic| gsim_leaf) => `(tactic| exact gsim_toFloat _ _)

theorem gsim_isFloat (o : Ops V) (sv : SV V) :
    GSim I ab (fun _ => True) (isFloat (σ := σ) o sv) (isFloat (σ := τ) o sv) := by
  cases sv <;> (unfold isFloat; gsim_auto)
macro_rules | `(tactic| gsim_leaf) => `(tactic| exact gsim_isFloat _ _)

end TV.Features
