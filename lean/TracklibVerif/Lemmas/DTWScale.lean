import TracklibVerif.Lemmas.DTWTable
import Mathlib.Algebra.Order.Field.Basic
import Mathlib.Tactic.Ring
/-! Change of unit: what `_dtw` returns when every accumulated cost is transported by a strictly increasing map `φ`
(`T_pred_hom`, `dtw_hom`) — same predecessors, hence same coupling, score transported — and its instance "all coordinates
multiplied by `c > 0`" (`distance_scale`, `weight_unit`): metres, kilometres or degrees give the same matching. -/
set_option linter.unusedSectionVars false
namespace TV.DTW

section hom
variable {α : Type} [LinearOrder α]

theorem min3_hom (φ : α → α) (hφ : ∀ a b, φ a ≤ φ b ↔ a ≤ b) (a b c : α) :
    min3 (φ a) (φ b) (φ c) = φ (min3 a b c) := by
  unfold min3
  simp only [hφ]
  by_cases h1 : a ≤ b <;> by_cases h2 : a ≤ c <;> by_cases h3 : b ≤ c <;> simp [h1, h2, h3]

/-- a strictly increasing transport of the accumulated costs (`w' (φ a) D'[i,j] = φ (w a D[i,j])`) transports the whole
table and leaves every back-pointer where it is -/
theorem T_pred_hom (w w' : α → α → α) (z z' : α) (D D' : Nat → Nat → α) (φ : α → α)
    (hφ : ∀ a b, φ a ≤ φ b ↔ a ≤ b)
    (hz : w' z' (D' 0 0) = φ (w z (D 0 0)))
    (hstep : ∀ a i j, w' (φ a) (D' i j) = φ (w a (D i j))) :
    ∀ n i j, i + j = n → T w' z' D' i j = φ (T w z D i j) ∧ pred w' z' D' i j = pred w z D i j := by
  have hlt : ∀ a b, φ a < φ b ↔ a < b := fun a b => by rw [lt_iff_not_ge, lt_iff_not_ge, hφ]
  intro n
  induction n using Nat.strongRecOn with
  | _ n ih =>
    intro i j hij
    match i, j with
    | 0, 0 => exact ⟨by simp only [T]; exact hz, by simp [pred]⟩
    | i+1, 0 =>
      have a := (ih (i + 0) (by omega) i 0 rfl).1
      exact ⟨by simp only [T]; rw [a]; exact hstep _ _ _, by simp [pred]⟩
    | 0, j+1 =>
      have a := (ih (0 + j) (by omega) 0 j rfl).1
      exact ⟨by simp only [T]; rw [a]; exact hstep _ _ _, by simp [pred]⟩
    | i+1, j+1 =>
      have a := (ih (i + j) (by omega) i j rfl).1
      have b := (ih (i + (j+1)) (by omega) i (j+1) rfl).1
      have c := (ih ((i+1) + j) (by omega) (i+1) j rfl).1
      refine ⟨?_, ?_⟩
      · simp only [T]
        rw [a, b, c, min3_hom φ hφ]
        exact hstep _ _ _
      · simp only [pred]
        rw [a, b, c]
        simp only [hφ, hlt]

end hom

section whole
variable {α : Type} [Add α] [Sub α] [Mul α] [Div α] [LinearOrder α] [OfNat α 0]

/-- `_dtw` on two pairs of tracks of the same sizes whose accumulated costs correspond through a strictly increasing `φ`:
same coupling `S`, same `nb_links`, same `pair` lists, score transported by `φ` -/
theorem dtw_hom (dist dist' : Pt α → Pt α → α) (w w' : α → α → α) (φ : α → α) (hφ : ∀ a b, φ a ≤ φ b ↔ a ≤ b)
    (t1 t2 t1' t2' : List (Pt α)) (hl1 : t1'.length = t1.length) (hl2 : t2'.length = t2.length)
    (h1 : 0 < t1.length) (h2 : 0 < t2.length)
    (hz : w' 0 (Dmat dist' t1' t2' 0 0) = φ (w 0 (Dmat dist t1 t2 0 0)))
    (hstep : ∀ a i j, w' (φ a) (Dmat dist' t1' t2' i j) = φ (w a (Dmat dist t1 t2 i j))) :
    ∃ o o', dtw dist w t1 t2 = some o ∧ dtw dist' w' t1' t2' = some o' ∧
      o'.S = o.S ∧ o'.score = φ o.score ∧ o'.nbLinks = o.nbLinks ∧
      ∀ j : Nat, (o'.rows[j]?).map (fun r : Row α => r.pair) = (o.rows[j]?).map (fun r : Row α => r.pair) := by
  obtain ⟨rows, he, hl, hp⟩ := dtw_spec dist w t1 t2 h1 h2
  obtain ⟨rows', he', hl', hp'⟩ := dtw_spec dist' w' t1' t2' (by omega) (by omega)
  have hT : ∀ i j, T w' 0 (Dmat dist' t1' t2') i j = φ (T w 0 (Dmat dist t1 t2) i j) :=
    fun i j => (T_pred_hom w w' 0 0 _ _ φ hφ hz hstep (i + j) i j rfl).1
  have hP : pred w' 0 (Dmat dist' t1' t2') = pred w 0 (Dmat dist t1 t2) := by
    funext i j
    exact (T_pred_hom w w' 0 0 _ _ φ hφ hz hstep (i + j) i j rfl).2
  have hW : walkF w' 0 (Dmat dist' t1' t2') = walkF w 0 (Dmat dist t1 t2) := by
    unfold walkF
    rw [hP]
  refine ⟨_, _, he, he', ?_, ?_, ?_, ?_⟩
  · simp only [hl1, hl2, hW]
  · simp only [hl1, hl2]
    exact hT _ _
  · simp only [hl1, hl2, hW]
  · intro j
    by_cases hj : j < t1.length
    · have e1 := hp' j (by omega)
      have e2 := hp j hj
      rw [e1, e2, hl1, hl2, hW]
    · have n1 : rows'[j]? = none := List.getElem?_eq_none (by omega)
      have n2 : rows[j]? = none := List.getElem?_eq_none (by omega)
      simp only [n1, n2]

end whole

section field
variable {α : Type} [Field α] [LinearOrder α] [IsStrictOrderedRing α]

/-- every coordinate of the position multiplied by `c` -/
def Pt.scale (c : α) (p : Pt α) : Pt α := ⟨c * p.x, c * p.y, c * p.z⟩

/-- the factor by which a change of unit `c` multiplies the accumulated costs: `c**k` for `p = k`, `c` for `p = inf` -/
def unitFactor (c : α) : PNorm → α
  | .nat k => npow c k
  | .inf => c

theorem npow_pos (c : α) (hc : 0 < c) : ∀ k, 0 < npow c k
  | 0 => zero_lt_one
  | 1 => hc
  | k+2 => mul_pos (npow_pos c hc (k+1)) hc

theorem npow_mul (c d : α) : ∀ k, npow (c * d) (k+1) = npow c (k+1) * npow d (k+1)
  | 0 => rfl
  | k+1 => by
    show npow (c * d) (k+1) * (c * d) = (npow c (k+1) * c) * (npow d (k+1) * d)
    rw [npow_mul c d k]
    ring

theorem unitFactor_pos (c : α) (hc : 0 < c) (p : PNorm) : 0 < unitFactor c p := by
  cases p with
  | nat k => exact npow_pos c hc k
  | inf => exact hc

theorem mul_le_mul_pos_iff (f : α) (hf : 0 < f) (a b : α) : f * a ≤ f * b ↔ a ≤ b :=
  ⟨fun h => not_lt.mp (fun hlt => absurd (mul_lt_mul_of_pos_left hlt hf) (not_lt.mpr h)),
   fun h => mul_le_mul_of_nonneg_left h (le_of_lt hf)⟩

/-- `_distance` on `ENUCoords` is homogeneous: coordinates multiplied by `c > 0` give distances multiplied by `c`, provided
`sqrt` is (`sqrt(c²x) = c·sqrt(x)` on non-negative `x`: true of the real square root) -/
theorem distance_scale (sqrt : α → α) (c : α) (hc : 0 < c) (hs : ∀ x, 0 ≤ x → sqrt (c * c * x) = c * sqrt x) (d : Nat)
    (p q : Pt α) : distance sqrt d (Pt.scale c p) (Pt.scale c q) = c * distance sqrt d p q := by
  unfold distance Pt.scale
  by_cases h1 : d = 1
  · simp only [h1, if_true]
    have e : c * p.z - c * q.z = c * (p.z - q.z) := by ring
    rw [e]
    by_cases h : p.z - q.z < 0
    · have h' : c * (p.z - q.z) < 0 := mul_neg_of_pos_of_neg hc h
      simp only [h, h', if_true]
      ring
    · have h' : ¬ c * (p.z - q.z) < 0 := not_lt.mpr (mul_nonneg (le_of_lt hc) (not_lt.mp h))
      simp only [h, h', if_false]
  · simp only [h1, if_false]
    by_cases h2 : d = 2
    · simp only [h2, if_true]
      have e : (c * q.x - c * p.x) * (c * q.x - c * p.x) + (c * q.y - c * p.y) * (c * q.y - c * p.y)
          = c * c * ((q.x - p.x) * (q.x - p.x) + (q.y - p.y) * (q.y - p.y)) := by ring
      rw [e, hs _ (add_nonneg (mul_self_nonneg _) (mul_self_nonneg _))]
    · simp only [h2, if_false]
      have e : (c * q.x - c * p.x) * (c * q.x - c * p.x) + (c * q.y - c * p.y) * (c * q.y - c * p.y)
            + (c * q.z - c * p.z) * (c * q.z - c * p.z)
          = c * c * ((q.x - p.x) * (q.x - p.x) + (q.y - p.y) * (q.y - p.y) + (q.z - p.z) * (q.z - p.z)) := by ring
      rw [e, hs _ (add_nonneg (add_nonneg (mul_self_nonneg _) (mul_self_nonneg _)) (mul_self_nonneg _))]

/-- `_p2weight(p)` under a change of unit: distances multiplied by `c`, accumulated costs by `unitFactor c p` -/
theorem weight_unit (c : α) (hc : 0 < c) (p : PNorm) (a d : α) :
    weight p (unitFactor c p * a) (c * d) = unitFactor c p * weight p a d := by
  cases p with
  | nat k =>
    cases k with
    | zero =>
      simp only [weight, unitFactor, npow, one_mul]
      rcases lt_trichotomy d 0 with h | h | h
      · have h' : c * d < 0 := mul_neg_of_pos_of_neg hc h
        simp [h, h']
      · subst h
        simp
      · have h' : 0 < c * d := mul_pos hc h
        simp [h, h']
    | succ k =>
      simp only [weight, unitFactor]
      rw [npow_mul c d k]
      ring
  | inf =>
    simp only [weight, unitFactor, pmax]
    by_cases h : a < d
    · have h' : c * a < c * d := mul_lt_mul_of_pos_left h hc
      simp only [h, h', if_true]
    · have h' : ¬ c * a < c * d := not_lt.mpr (mul_le_mul_of_nonneg_left (not_lt.mp h) (le_of_lt hc))
      simp only [h, h', if_false]

theorem Dmat_scale (sqrt : α → α) (c : α) (hc : 0 < c) (hs : ∀ x, 0 ≤ x → sqrt (c * c * x) = c * sqrt x) (d : Nat)
    (t1 t2 : List (Pt α)) (i j : Nat) :
    Dmat (distance sqrt d) (t1.map (Pt.scale c)) (t2.map (Pt.scale c)) i j = c * Dmat (distance sqrt d) t1 t2 i j := by
  have h0 : Pt.scale c (⟨0, 0, 0⟩ : Pt α) = ⟨0, 0, 0⟩ := by simp [Pt.scale]
  have hg : ∀ (t : List (Pt α)) (k : Nat), ((t.map (Pt.scale c))[k]?).getD ⟨0, 0, 0⟩ = Pt.scale c ((t[k]?).getD ⟨0, 0, 0⟩) := by
    intro t k
    rw [List.getElem?_map]
    cases t[k]? with
    | none => simp [h0]
    | some v => simp
  unfold Dmat
  rw [hg, hg, distance_scale sqrt c hc hs]

end field
end TV.DTW
