import TracklibVerif.Lemmas.FeaturesOps
/-! Simulation, continued: the expression evaluator (`__applyOperation`, `__evaluateRPN`, `__evaluate`,
`operate(str)` with its purge) and the dispatch of one API call. -/
set_option linter.unusedSectionVars false
namespace TV.Features
variable {V : Type} [Inhabited V] {n : Nat}
open Tbl

theorem sim_assignOp (o : Ops V) (op1 op2 : SV V) :
    Sim n (fun _ => True) (assignOp (σ := St V) o op1 op2) (assignOp (σ := ATab V) o op1 op2) := by
  unfold assignOp
  refine sim_bind (sim_hasSV op2) (fun b2 _ => ?_)
  refine sim_ite _ ?_ ?_
  · cases op2 with
    | tok s2 =>
      simp only
      refine sim_bind (sim_hasSV op1) (fun b1 _ => ?_)
      refine sim_ite _ ?_ ?_
      · cases op1 with
        | tok s1 =>
          simp only
          refine sim_ite _ ?_ ?_
          · sim_auto
          · refine sim_bind (sim_get o s2) (fun af haf => ?_)
            refine sim_bind (sim_remove s1) (fun _ _ => ?_)
            exact sim_create s1 (.list af)
        | num v => sim_auto
        | none => sim_auto
      · refine sim_bind (sim_get o s2) (fun af haf => ?_)
        cases op1 with
        | tok s1 => exact sim_create s1 (.list af)
        | num v => sim_auto
        | none => sim_auto
    | num v => sim_auto
    | none => sim_auto
  · cases coordTarget op1 with
    | some c => simp only; sim_auto
    | none =>
      simp only
      refine sim_bind (sim_hasSV op1) (fun b1 _ => ?_)
      refine sim_ite _ ?_ ?_
      · refine sim_bind (sim_toFloat o op2) (fun v _ => ?_)
        cases op1 <;> sim_auto
      · refine sim_bind (sim_toFloat o op2) (fun v _ => ?_)
        cases op1 <;> sim_auto
macro_rules | `(tactic| sim_leaf) => `(tactic| exact sim_assignOp _ _ _)

theorem sim_fnVoidOp (o : Ops V) (f inp out : String) :
    Sim n (fun _ => True) (fnVoidOp (σ := St V) o f inp out) (fnVoidOp (σ := ATab V) o f inp out) := by
  unfold fnVoidOp
  cases vfn? f <;> simp only <;> sim_auto

theorem sim_funcOp (o : Ops V) (op1 op2 : SV V) (out : String) :
    Sim n (fun _ => True) (funcOp (σ := St V) o op1 op2 out) (funcOp (σ := ATab V) o op1 op2 out) := by
  unfold funcOp
  cases op1 with
  | tok f =>
    simp only
    cases vfn? f with
    | some vf => cases op2 <;> simp only <;> sim_auto
    | none =>
      simp only
      refine sim_ite _ ?_ ?_
      · cases op2 with
        | tok s2 =>
          simp only
          refine sim_bind (sim_aggOp o f s2) (fun v _ => ?_)
          refine sim_bind sim_size (fun k hk => ?_)
          exact sim_bind (sim_create out (.list (List.replicate k v))) (fun _ _ => sim_pure _ trivial)
        | num v => sim_auto
        | none => sim_auto
      · sim_auto
  | num v => sim_auto
  | none => sim_auto
macro_rules | `(tactic| sim_leaf) => `(tactic| exact sim_funcOp _ _ _ _)

theorem sim_dispatchOp (o : Ops V) (op1 op2 : SV V) (operator : String) (k : Nat) :
    Sim n (fun _ => True) (dispatchOp (σ := St V) o op1 op2 operator k) (dispatchOp (σ := ATab V) o op1 op2 operator k) := by
  unfold dispatchOp
  refine sim_ite _ ?_ ?_
  · sim_auto
  refine sim_bind (sim_hasSV op1) (fun a1 _ => ?_)
  refine sim_bind (sim_hasSV op2) (fun a2 _ => ?_)
  cases a1 <;> cases a2 <;> cases op1 <;> cases op2 <;> simp only <;>
    first
    | sim_leaf
    | (cases bKind? operator with
       | none => sim_auto
       | some b => cases b <;> simp only <;> sim_auto)
    | (cases sKind? operator <;> simp only <;> sim_auto)
    | (cases srKind? operator <;> simp only <;> sim_auto)
macro_rules | `(tactic| sim_leaf) => `(tactic| exact sim_dispatchOp _ _ _ _ _)

theorem sim_arithOp (o : Ops V) (operator : String) (op1 op2 : SV V) (k : Nat) :
    Sim n (fun _ => True) (arithOp (σ := St V) o operator op1 op2 k) (arithOp (σ := ATab V) o operator op1 op2 k) := by
  unfold arithOp
  refine sim_bind (sim_isFloat o op1) (fun f1 _ => ?_)
  refine sim_bind (P := fun _ => True) ?_ (fun f2 _ => ?_)
  · sim_auto
  refine sim_ite _ ?_ ?_
  · refine sim_bind (sim_toFloat o op1) (fun a _ => ?_)
    refine sim_bind (sim_toFloat o op2) (fun c _ => ?_)
    cases litOp o operator a c <;> simp only <;> sim_auto
  · sim_auto
macro_rules | `(tactic| sim_leaf) => `(tactic| exact sim_arithOp _ _ _ _ _)

theorem sim_applyOperation (o : Ops V) (op1 op2 : SV V) (operator : String) (k : Nat) :
    Sim n (fun _ => True) (applyOperation (σ := St V) o op1 op2 operator k)
      (applyOperation (σ := ATab V) o op1 op2 operator k) := by
  unfold applyOperation
  refine sim_ite _ ?_ ?_
  · sim_auto
  · sim_auto
macro_rules | `(tactic| sim_leaf) => `(tactic| exact sim_applyOperation _ _ _ _ _)

theorem sim_evaluateRPN (o : Ops V) (rpn : List String) (stack : List (SV V)) (k : Nat) :
    Sim n (fun _ => True) (evaluateRPN (σ := St V) o rpn stack k) (evaluateRPN (σ := ATab V) o rpn stack k) := by
  induction rpn generalizing stack k with
  | nil => unfold evaluateRPN; sim_auto
  | cons e rest ih =>
    unfold evaluateRPN
    refine sim_ite _ ?_ (ih _ _)
    match stack with
    | [] => sim_auto
    | [_] => sim_auto
    | op2 :: op1 :: stack' =>
      simp only
      exact sim_bind (sim_applyOperation o op1 op2 e k) (fun r _ => ih _ _)
macro_rules | `(tactic| sim_leaf) => `(tactic| exact sim_evaluateRPN _ _ _ _)

theorem sim_evaluate (o : Ops V) (rpn : List String) :
    Sim n (fun _ => True) (evaluate (σ := St V) o rpn) (evaluate (σ := ATab V) o rpn) := by
  unfold evaluate
  sim_auto

theorem sim_purge : Sim n (fun _ => True) (purge (σ := St V)) (purge (σ := ATab V)) := by
  unfold purge
  sim_auto

theorem sim_operateStr (o : Ops V) (rpn : List String) :
    Sim n (fun _ => True) (operateStr (σ := St V) o rpn) (operateStr (σ := ATab V) o rpn) := by
  unfold operateStr
  exact sim_tryFinally (sim_evaluate o rpn) sim_purge


/-- one API call: the code's table and the specification table do the same thing -/
theorem sim_step (o : Ops V) (op : Op V) :
    Sim n (fun _ => True) (step (σ := St V) o op) (step (σ := ATab V) o op) := by
  cases op with
  | create nm init => unfold step; exact sim_bind (sim_create nm init) (fun _ _ => sim_pure _ trivial)
  | setItem nm init => unfold step; exact sim_bind (sim_setItem nm init) (fun _ _ => sim_pure _ trivial)
  | update nm init => unfold step; sim_auto
  | remove nm => unfold step; sim_auto
  | setObs nm i v => unfold step; sim_auto
  | addAF alg nm => unfold step; exact sim_bind (sim_addAF o alg nm) (fun _ _ => sim_pure _ trivial)
  | unaryVoid k inp out => unfold step; exact sim_bind (sim_unaryVoid o k inp _) (fun _ _ => sim_pure _ trivial)
  | binaryVoid k in1 in2 out => unfold step; sim_auto
  | scalarVoid k inp arg out => unfold step; sim_auto
  | sum inp => unfold step; exact sim_bind (sim_sumOp o inp) (fun _ _ => sim_pure _ trivial)
  | opaqueVoid cols cells out vals =>
    unfold step; exact sim_bind (sim_opaqueVoid o cols cells out vals) (fun _ _ => sim_pure _ trivial)
  | reverser inp out => unfold step; exact sim_bind (sim_reverser o inp _) (fun _ _ => sim_pure _ trivial)
  | probe cols cells => unfold step; sim_auto
  | fnVoid f inp out => unfold step; exact sim_fnVoidOp o f inp _
  | scalarK k inp arg out => unfold step; sim_auto
  | aggFn f inp => unfold step; sim_auto
  | absCurv => unfold step; exact sim_bind (sim_absCurvOp o) (fun _ _ => sim_pure _ trivial)
  | estSpeed => unfold step; exact sim_bind (sim_estSpeedOp o) (fun _ _ => sim_pure _ trivial)
  | segment inp out thr => unfold step; exact sim_bind (sim_segmentOp o inp out thr) (fun _ _ => sim_pure _ trivial)
  | expr rpn => unfold step; exact sim_operateStr o rpn

end TV.Features
