import TracklibVerif.Model.Split
namespace TV.Split
variable {β : Type}

theorem go_spec (obs : List (β × Bool)) (cur : List β) (acc : List (List β)) (started : Bool) :
    let r := go obs cur acc started
    -- coverage: emitted pieces ++ current piece = everything seen
    (r.1.flatten ++ r.2.1 = acc.flatten ++ cur ++ obs.map Prod.fst) ∧
    -- started flag
    (r.2.2 = (started || obs.any Prod.snd)) := by
  induction obs generalizing cur acc started with
  | nil => simp [go]
  | cons p rest ih =>
    obtain ⟨o, m⟩ := p
    cases m with
    | true =>
      simp only [go, if_true]
      obtain ⟨h1, h2⟩ := ih [] (acc ++ [cur ++ [o]]) true
      refine ⟨?_, ?_⟩
      · rw [h1]; simp
      · rw [h2]; simp
    | false =>
      simp only [go, Bool.false_eq_true, if_false]
      obtain ⟨h1, h2⟩ := ih (cur ++ [o]) acc started
      refine ⟨?_, ?_⟩
      · rw [h1]; simp
      · rw [h2]; simp

/-- C11-T1: with at least one marker the pieces, in order, are exactly the track -/
theorem split_partition (obs : List (β × Bool)) (h : obs.any Prod.snd = true) :
    (split obs).flatten = obs.map Prod.fst := by
  unfold split
  obtain ⟨h1, h2⟩ := go_spec obs [] [] false
  revert h1 h2
  generalize go obs [] [] false = r
  obtain ⟨acc, cur, started⟩ := r
  intro h1 h2
  simp only [Bool.false_or] at h2
  simp only at h1 h2 ⊢
  rw [h2, h]
  simp only [if_true, List.flatten_append, List.flatten_cons, List.flatten_nil, List.append_nil]
  simpa using h1

/-- C11-T3: without any marker the result is empty -/
theorem split_none (obs : List (β × Bool)) (h : obs.any Prod.snd = false) : split obs = [] := by
  unfold split
  obtain ⟨_, h2⟩ := go_spec obs [] [] false
  have hacc : ∀ (obs : List (β × Bool)) cur acc st, obs.any Prod.snd = false → (go obs cur acc st).1 = acc := by
    intro obs
    induction obs with
    | nil => intro cur acc st _; rfl
    | cons p rest ih =>
      intro cur acc st hh
      obtain ⟨o, m⟩ := p
      simp only [List.any_cons, Bool.or_eq_false_iff] at hh
      have hm : m = false := hh.1
      subst hm
      simp only [go, Bool.false_eq_true, if_false]
      exact ih _ _ _ hh.2
  revert h2
  have := hacc obs [] [] false h
  revert this
  generalize go obs [] [] false = r
  obtain ⟨acc, cur, started⟩ := r
  intro h1 h2
  simp only [Bool.false_or] at h2
  simp only at h1 h2 ⊢
  rw [h2, h, h1]; simp
end TV.Split
