import TracklibVerif.Model.Split
namespace TV.Split
variable {β : Type}

theorem go_spec (obs : List (β × Bool)) (cur : List β) (acc : List (List β)) (started : Bool) :
    let r := go obs cur acc started
    -- coverage: emitted pieces ++ current piece = everything seen
    (r.1.flatten ++ r.2.1 = acc.flatten ++ cur ++ obs.map Prod.fst) ∧
    -- started flag
    (r.2.2 = (started || obs.any Prod.snd)) := by
  induction obs generalizing cur acc started with
  | nil => simp [go]
  | cons p rest ih =>
    obtain ⟨o, m⟩ := p
    cases m with
    | true =>
      simp only [go, if_true]
      obtain ⟨h1, h2⟩ := ih [] (acc ++ [cur ++ [o]]) true
      refine ⟨?_, ?_⟩
      · rw [h1]; simp
      · rw [h2]; simp
    | false =>
      simp only [go, Bool.false_eq_true, if_false]
      obtain ⟨h1, h2⟩ := ih (cur ++ [o]) acc started
      refine ⟨?_, ?_⟩
      · rw [h1]; simp
      · rw [h2]; simp

/-- C11-T1: with at least one marker the pieces, in order, are exactly the track -/
theorem split_partition (obs : List (β × Bool)) (h : obs.any Prod.snd = true) :
    (split obs).flatten = obs.map Prod.fst := by
  unfold split
  obtain ⟨h1, h2⟩ := go_spec obs [] [] false
  revert h1 h2
  generalize go obs [] [] false = r
  obtain ⟨acc, cur, started⟩ := r
  intro h1 h2
  simp only [Bool.false_or] at h2
  simp only at h1 h2 ⊢
  rw [h2, h]
  simp only [if_true, List.flatten_append, List.flatten_cons, List.flatten_nil, List.append_nil]
  simpa using h1

/-- C11-T3: without any marker the result is empty -/
theorem split_none (obs : List (β × Bool)) (h : obs.any Prod.snd = false) : split obs = [] := by
  unfold split
  obtain ⟨_, h2⟩ := go_spec obs [] [] false
  have hacc : ∀ (obs : List (β × Bool)) cur acc st, obs.any Prod.snd = false → (go obs cur acc st).1 = acc := by
    intro obs
    induction obs with
    | nil => intro cur acc st _; rfl
    | cons p rest ih =>
      intro cur acc st hh
      obtain ⟨o, m⟩ := p
      simp only [List.any_cons, Bool.or_eq_false_iff] at hh
      have hm : m = false := hh.1
      subst hm
      simp only [go, Bool.false_eq_true, if_false]
      exact ih _ _ _ hh.2
  revert h2
  have := hacc obs [] [] false h
  revert this
  generalize go obs [] [] false = r
  obtain ⟨acc, cur, started⟩ := r
  intro h1 h2
  simp only [Bool.false_or] at h2
  simp only at h1 h2 ⊢
  rw [h2, h, h1]; simp
end TV.Split

namespace TV.Split
variable {β : Type}

/-- a piece that ends at a marked observation and contains no other marked one (in particular it is not empty) -/
def EndsMarked (mk : β → Bool) (p : List β) : Prop :=
  ∃ init o, p = init ++ [o] ∧ mk o = true ∧ ∀ q ∈ init, mk q = false

/-- a track whose marker feature is a function of the observation (e.g. observations = (tag, marker) pairs) -/
def tag (mk : β → Bool) (l : List β) : List (β × Bool) := l.map (fun o => (o, mk o))

theorem go_marked (mk : β → Bool) (l : List β) (cur : List β) (acc : List (List β)) (started : Bool)
    (hacc : ∀ p ∈ acc, EndsMarked mk p) (hcur : ∀ q ∈ cur, mk q = false) :
    (∀ p ∈ (go (tag mk l) cur acc started).1, EndsMarked mk p) ∧
    (∀ q ∈ (go (tag mk l) cur acc started).2.1, mk q = false) := by
  induction l generalizing cur acc started with
  | nil => exact ⟨hacc, hcur⟩
  | cons o rest ih =>
    simp only [tag, List.map_cons, go]
    cases hm : mk o with
    | true =>
      simp only [if_true]
      apply ih
      · intro p hp
        rcases List.mem_append.mp hp with h | h
        · exact hacc p h
        · have : p = cur ++ [o] := by simpa using h
          subst this
          exact ⟨cur, o, rfl, hm, hcur⟩
      · intro q hq; cases hq
    | false =>
      simp only [Bool.false_eq_true, if_false]
      apply ih
      · exact hacc
      · intro q hq
        rcases List.mem_append.mp hq with h | h
        · exact hcur q h
        · have : q = o := by simpa using h
          subst this; exact hm

/-- the result of `split`, as the emitted pieces followed by the tail -/
theorem split_shape (obs : List (β × Bool)) (h : obs.any Prod.snd = true) :
    split obs = (go obs [] [] false).1 ++ [(go obs [] [] false).2.1] := by
  unfold split
  obtain ⟨_, h2⟩ := go_spec obs [] [] false
  revert h2
  generalize go obs [] [] false = r
  obtain ⟨acc, cur, started⟩ := r
  intro h2
  simp only [Bool.false_or] at h2
  simp only at h2 ⊢
  rw [h2, h]; simp

theorem any_tag (mk : β → Bool) (l : List β) : (tag mk l).any Prod.snd = l.any mk := by
  induction l with
  | nil => rfl
  | cons o rest ih => simp only [tag, List.map_cons, List.any_cons] at ih ⊢; rw [ih]

/-- `split` does not look at the observations: it commutes with relabelling them -/
theorem go_map {γ : Type} (f : β → γ) (obs : List (β × Bool)) (cur : List β) (acc : List (List β)) (st : Bool) :
    go (obs.map (fun p => (f p.1, p.2))) (cur.map f) (acc.map (List.map f)) st =
      (((go obs cur acc st).1).map (List.map f), ((go obs cur acc st).2.1).map f, (go obs cur acc st).2.2) := by
  induction obs generalizing cur acc st with
  | nil => rfl
  | cons p rest ih =>
    obtain ⟨o, m⟩ := p
    cases m with
    | true =>
      simp only [List.map_cons, go, if_true]
      have := ih [] (acc ++ [cur ++ [o]]) true
      simpa using this
    | false =>
      simp only [List.map_cons, go, Bool.false_eq_true, if_false]
      have := ih (cur ++ [o]) acc st
      simpa using this

theorem split_map {γ : Type} (f : β → γ) (obs : List (β × Bool)) :
    split (obs.map (fun p => (f p.1, p.2))) = (split obs).map (List.map f) := by
  have h := go_map f obs [] [] false
  simp only [List.map_nil] at h
  unfold split
  rw [h]
  cases hs : (go obs [] [] false).2.2 <;> simp [hs]
end TV.Split

namespace TV.Split
variable {α : Type}

theorem threshold_lt (fmax : α) (ths : List α) (i : Nat) (h : i < ths.length) :
    threshold fmax ths i = some ths[i] := by
  unfold threshold
  have h' : ths.length ≥ i := Nat.le_of_lt h
  simp [h', List.getElem?_eq_getElem h]

/-- quantification over the positions of a row, split at the head -/
theorem forall_idx_cons {P : Nat → Option α → Prop} (x : Option α) (vs : List (Option α)) :
    (∀ i w, (x :: vs)[i]? = some w → P i w) ↔ (P 0 x ∧ ∀ i w, vs[i]? = some w → P (i + 1) w) := by
  constructor
  · intro h
    exact ⟨h 0 x (by simp), fun i w hw => h (i + 1) w (by simpa using hw)⟩
  · rintro ⟨h0, hs⟩ i w hw
    cases i with
    | zero => simp at hw; subst hw; exact h0
    | succ i => exact hs i w (by simpa using hw)

variable [LE α] [DecidableLE α]

/-- AND mode: the fold is `acc` and "every non-NaN value is ≤ its threshold" -/
theorem foldCmp_and (fmax : α) (ths : List α) : ∀ (vals : List (Option α)) (idx : Nat) (acc : Bool),
    idx + vals.length ≤ ths.length →
    ∃ r, foldCmp fmax true ths idx vals acc = some r ∧
      (r = true ↔ acc = true ∧ ∀ i w, vals[i]? = some w → ∀ v th, w = some v → ths[idx + i]? = some th → v ≤ th) := by
  intro vals
  induction vals with
  | nil => intro idx acc _; exact ⟨acc, rfl, by simp⟩
  | cons x vs ih =>
    intro idx acc hlen
    simp only [List.length_cons] at hlen
    rw [forall_idx_cons (P := fun i w => ∀ v th, w = some v → ths[idx + i]? = some th → v ≤ th)]
    cases x with
    | none =>
      obtain ⟨r, hr, hiff⟩ := ih (idx + 1) acc (by omega)
      refine ⟨r, by simpa [foldCmp] using hr, ?_⟩
      rw [hiff]
      have e : ∀ i, idx + 1 + i = idx + (i + 1) := by intro i; omega
      simp only [e]
      constructor
      · rintro ⟨a, b⟩
        refine ⟨a, ?_, b⟩
        intro v th hv; cases hv
      · rintro ⟨a, _, b⟩; exact ⟨a, b⟩
    | some v =>
      have hidx : idx < ths.length := by omega
      obtain ⟨r, hr, hiff⟩ := ih (idx + 1) (acc && decide (v ≤ ths[idx])) (by omega)
      refine ⟨r, by simpa [foldCmp, threshold_lt fmax ths idx hidx] using hr, ?_⟩
      rw [hiff]
      have e : ∀ i, idx + 1 + i = idx + (i + 1) := by intro i; omega
      simp only [e, Bool.and_eq_true, decide_eq_true_eq, Nat.add_zero]
      constructor
      · rintro ⟨⟨a, c⟩, b⟩
        refine ⟨a, ?_, b⟩
        intro v' th hv hth
        cases hv
        rw [List.getElem?_eq_getElem hidx] at hth
        cases hth; exact c
      · rintro ⟨a, c, b⟩
        exact ⟨⟨a, c v ths[idx] rfl (List.getElem?_eq_getElem hidx)⟩, b⟩

/-- OR mode: the fold is `acc` or "some non-NaN value is ≤ its threshold" -/
theorem foldCmp_or [LT α] (hnot : ∀ a b : α, ¬ a ≤ b ↔ b < a) (fmax : α) (ths : List α) :
    ∀ (vals : List (Option α)) (idx : Nat) (acc : Bool),
    idx + vals.length ≤ ths.length →
    ∃ r, foldCmp fmax false ths idx vals acc = some r ∧
      (r = false ↔ acc = false ∧ ∀ i w, vals[i]? = some w → ∀ v th, w = some v → ths[idx + i]? = some th → th < v) := by
  intro vals
  induction vals with
  | nil => intro idx acc _; exact ⟨acc, rfl, by simp⟩
  | cons x vs ih =>
    intro idx acc hlen
    simp only [List.length_cons] at hlen
    rw [forall_idx_cons (P := fun i w => ∀ v th, w = some v → ths[idx + i]? = some th → th < v)]
    cases x with
    | none =>
      obtain ⟨r, hr, hiff⟩ := ih (idx + 1) acc (by omega)
      refine ⟨r, by simpa [foldCmp] using hr, ?_⟩
      rw [hiff]
      have e : ∀ i, idx + 1 + i = idx + (i + 1) := by intro i; omega
      simp only [e]
      constructor
      · rintro ⟨a, b⟩
        refine ⟨a, ?_, b⟩
        intro v th hv; cases hv
      · rintro ⟨a, _, b⟩; exact ⟨a, b⟩
    | some v =>
      have hidx : idx < ths.length := by omega
      obtain ⟨r, hr, hiff⟩ := ih (idx + 1) (acc || decide (v ≤ ths[idx])) (by omega)
      refine ⟨r, by simpa [foldCmp, threshold_lt fmax ths idx hidx] using hr, ?_⟩
      rw [hiff]
      have e : ∀ i, idx + 1 + i = idx + (i + 1) := by intro i; omega
      simp only [e, Bool.or_eq_false_iff, decide_eq_false_iff_not, hnot, Nat.add_zero]
      constructor
      · rintro ⟨⟨a, c⟩, b⟩
        refine ⟨a, ?_, b⟩
        intro v' th hv hth
        cases hv
        rw [List.getElem?_eq_getElem hidx] at hth
        cases hth; exact c
      · rintro ⟨a, c, b⟩
        exact ⟨⟨a, c v ths[idx] rfl (List.getElem?_eq_getElem hidx)⟩, b⟩
end TV.Split

namespace TV.Split
variable {β : Type}

theorem getLast?_cons' (o : β) (rest : List β) :
    (o :: rest).getLast? = if rest = [] then some o else rest.getLast? := by
  cases rest with
  | nil => rfl
  | cons p ps => simp [List.getLast?_cons_cons]

/-- the current piece at the end of the loop is empty exactly when nothing was scanned into an empty piece, or the
last observation scanned is marked -/
theorem go_cur_nil (mk : β → Bool) (l : List β) (cur : List β) (acc : List (List β)) (st : Bool) :
    (go (tag mk l) cur acc st).2.1 = [] ↔
      (l = [] ∧ cur = []) ∨ (∃ o, l.getLast? = some o ∧ mk o = true) := by
  induction l generalizing cur acc st with
  | nil => simp [tag, go]
  | cons o rest ih =>
    simp only [tag, List.map_cons, go]
    rw [getLast?_cons']
    simp only [tag] at ih
    cases hm : mk o with
    | true =>
      simp only [if_true]
      rw [ih]
      by_cases hr : rest = []
      · subst hr; simp [hm]
      · simp [hr]
    | false =>
      simp only [Bool.false_eq_true, if_false]
      rw [ih]
      by_cases hr : rest = []
      · subst hr; simp [hm]
      · simp [hr]
end TV.Split
