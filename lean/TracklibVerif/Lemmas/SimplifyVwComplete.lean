import TracklibVerif.Lemmas.SimplifyVwNum
/-! **Completeness** of the level-by-level enumeration `vwAllLevels` / `visvalingamAll` (`Model/SimplifyTie.lean`) on columns without NaN.

The enumeration merges the states of a level that hold the same observations (`dedupTags`: same tags). That loses nothing when a
state is a *function of its observations*: under the invariant of T6 at full strength (`VInvP`: NaN at both ends, numbers in
between) together with the consistency of the column (`VCons`: every interior entry is the area of the triangle with the current
neighbours) two states with the same observations are **equal** (`state_ext`), and observations of one track are identified by
their tags (`map_tag_inj`). Hence, level by level, the frontier holds **every** state reached by `k` passes with any choice among equal
minima (`VReachN`), and when the enumeration does not give up its result holds every final state of every run.
No property of the scalar type is used. -/
namespace TV.Simplify
set_option linter.unusedSectionVars false
set_option linter.unusedVariables false
variable {α : Type} [Add α] [Sub α] [Mul α] [Div α] [Neg α] [LT α] [DecidableLT α] [BEq α]
  [OfNat α 0] [OfNat α 1] [OfNat α 2]

/-- reached from `S` by exactly `k` passes, each taking any of the equally small entries -/
inductive VReachN (big eps2 : α) : Nat → VState α → VState α → Prop
  | zero (S : VState α) : VReachN big eps2 0 S S
  | succ {k : Nat} {S S1 S2 : VState α} : VReachN big eps2 k S S1 → S2 ∈ vwNext big eps2 S1 → VReachN big eps2 (k + 1) S S2

theorem VReachN.cons {big eps2 : α} {k : Nat} {S S1 S' : VState α} (r : VReachN big eps2 k S1 S') :
    S1 ∈ vwNext big eps2 S → VReachN big eps2 (k + 1) S S' := by
  induction r with
  | zero S1 => intro hm; exact VReachN.succ (VReachN.zero S) hm
  | succ _ hm' ih => intro hm; exact VReachN.succ (ih hm) hm'

theorem VReach.toN {big eps2 : α} {S S' : VState α} (r : VReach big eps2 S S') : ∃ k, VReachN big eps2 k S S' := by
  induction r with
  | refl S => exact ⟨0, VReachN.zero S⟩
  | step hm _ ih => obtain ⟨k, hk⟩ := ih; exact ⟨k + 1, hk.cons hm⟩

theorem VReachN.toReach {big eps2 : α} {k : Nat} {S S' : VState α} (r : VReachN big eps2 k S S') : VReach big eps2 S S' := by
  induction r with
  | zero S => exact VReach.refl S
  | succ _ hm ih => exact ih.tail _ hm

/-- a run of `j` passes has a state after `k <= j` passes -/
theorem VReachN.pre {big eps2 : α} {j : Nat} {S0 S' : VState α} (r : VReachN big eps2 j S0 S') :
    ∀ k, k ≤ j → ∃ S, VReachN big eps2 k S0 S := by
  induction r with
  | zero S => intro k hk; have : k = 0 := by omega
              subst this; exact ⟨S, VReachN.zero S⟩
  | @succ j' _ S1 S2 r' hm ih =>
    intro k hk
    by_cases h : k = j' + 1
    · subst h; exact ⟨S2, VReachN.succ r' hm⟩
    · exact ih k (by omega)

/-- the invariant of a column without NaN, with the consistency of the column -/
def GoodP (big : α) (L : List (Fix α)) (S : VState α) : Prop :=
  VInvP (fun v => v < big ∨ (v == big) = true) L S ∧ VCons S

theorem VReach.goodP {big eps2 : α} (L : List (Fix α))
    (hnum : ∀ a b c, a ∈ L → b ∈ L → c ∈ L → areaFix a b c < big ∨ (areaFix a b c == big) = true)
    {S S' : VState α} (r : VReach big eps2 S S') : GoodP big L S → GoodP big L S' := by
  induction r with
  | refl S => intro h; exact h
  | step hm _ ih =>
    intro h
    obtain ⟨id, h0, h1, e⟩ := vwNext_interiorP _ _ _ L (fun _ h => h) _ _ h.1 hm
    subst e
    exact ih ⟨by rw [vwBody_eq_bodyL]; exact h.1.body hnum id h0 h1, vwBody_cons _ id h.2 h0 h1⟩

/-- under the invariant and the consistency of the column, a state is a function of its observations -/
theorem state_ext (P : α → Prop) (L : List (Fix α)) (S T : VState α) (hS : VInvP P L S) (hT : VInvP P L T)
    (cS : VCons S) (cT : VCons T) (e : S.map (·.1) = T.map (·.1)) : S = T := by
  have hlen : S.length = T.length := by
    have := congrArg List.length e
    simpa using this
  have hfst : ∀ (i : Nat) (p : Fix α) (c : Option α) (q : Fix α) (d : Option α),
      S[i]? = some (p, c) → T[i]? = some (q, d) → p = q := by
    intro i p c q d h1 h2
    have := congrArg (fun l => l[i]?) e
    simp only [List.getElem?_map, h1, h2, Option.map_some] at this
    exact Option.some.inj this
  apply List.ext_getElem?
  intro i
  by_cases hi : i < S.length
  · by_cases h0 : i = 0
    · subst h0
      obtain ⟨p, hp⟩ := hS.first
      obtain ⟨q, hq⟩ := hT.first
      rw [hp, hq, hfst 0 p none q none hp hq]
    · by_cases h1 : i + 1 = S.length
      · obtain ⟨p, hp⟩ := hS.last
        obtain ⟨q, hq⟩ := hT.last
        rw [← hlen] at hq
        have hi' : S.length - 1 = i := by omega
        rw [hi'] at hp hq
        rw [hp, hq, hfst i p none q none hp hq]
      · obtain ⟨p0, c0, p1, p2, c2, a0, a1, a2⟩ := cS i (by omega) (by omega)
        obtain ⟨q0, d0, q1, q2, d2, b0, b1, b2⟩ := cT i (by omega) (by rw [← hlen]; omega)
        have e0 := hfst _ _ _ _ _ a0 b0
        have e1 := hfst _ _ _ _ _ a1 b1
        have e2 := hfst _ _ _ _ _ a2 b2
        rw [a1, b1, e0, e1, e2]
  · rw [List.getElem?_eq_none_iff.mpr (by omega), List.getElem?_eq_none_iff.mpr (by omega)]

/-- observations of one track are identified by their tags -/
theorem map_tag_inj (L : List (Fix α)) (htag : ∀ x ∈ L, ∀ y ∈ L, x.tag = y.tag → x = y) :
    ∀ (A B : List (Fix α)), (∀ x ∈ A, x ∈ L) → (∀ x ∈ B, x ∈ L) → A.map (·.tag) = B.map (·.tag) → A = B := by
  intro A
  induction A with
  | nil =>
    intro B _ _ h
    cases B with
    | nil => rfl
    | cons b B => simp at h
  | cons a A ih =>
    intro B hA hB h
    cases B with
    | nil => simp at h
    | cons b B =>
      simp only [List.map_cons, List.cons.injEq] at h
      have := htag a (hA a List.mem_cons_self) b (hB b List.mem_cons_self) h.1
      subst this
      rw [ih B (fun x hx => hA x (List.mem_cons_of_mem _ hx)) (fun x hx => hB x (List.mem_cons_of_mem _ hx)) h.2]

/-- two good states with the same tags are equal -/
theorem good_eq_of_tags (big : α) (L : List (Fix α)) (htag : ∀ x ∈ L, ∀ y ∈ L, x.tag = y.tag → x = y)
    (S T : VState α) (hS : GoodP big L S) (hT : GoodP big L T) (e : tagsOf S = tagsOf T) : S = T := by
  refine state_ext _ L S T hS.1 hT.1 hS.2 hT.2 ?_
  refine map_tag_inj L htag _ _ ?_ ?_ ?_
  · intro x hx; obtain ⟨e', he, rfl⟩ := List.mem_map.mp hx; exact hS.1.mem e' he
  · intro x hx; obtain ⟨e', he, rfl⟩ := List.mem_map.mp hx; exact hT.1.mem e' he
  · unfold tagsOf at e
    rw [List.map_map, List.map_map]
    exact e

/-- merging keeps a representative of every state -/
theorem dedupTags_repr (l : List (VState α)) : ∀ x ∈ l, ∃ y ∈ dedupTags l, tagsOf y = tagsOf x := by
  have gen : ∀ (l acc : List (VState α)),
      (∀ x ∈ acc, ∃ y ∈ l.foldl (fun acc S => if acc.any (fun T => tagsOf T == tagsOf S) then acc else acc ++ [S]) acc,
        tagsOf y = tagsOf x) ∧
      (∀ x ∈ l, ∃ y ∈ l.foldl (fun acc S => if acc.any (fun T => tagsOf T == tagsOf S) then acc else acc ++ [S]) acc,
        tagsOf y = tagsOf x) := by
    intro l
    induction l with
    | nil => intro acc; exact ⟨fun x hx => ⟨x, hx, rfl⟩, fun x hx => by cases hx⟩
    | cons s l ih =>
      intro acc
      rw [List.foldl_cons]
      obtain ⟨i1, i2⟩ := ih (if acc.any (fun T => tagsOf T == tagsOf s) then acc else acc ++ [s])
      constructor
      · intro x hx
        apply i1
        split
        · exact hx
        · exact List.mem_append_left _ hx
      · intro x hx
        rcases List.mem_cons.mp hx with rfl | hx
        · by_cases hany : acc.any (fun T => tagsOf T == tagsOf x) = true
          · obtain ⟨T, hT, hTe⟩ := List.any_eq_true.mp hany
            obtain ⟨y, hy, hye⟩ := i1 T (by rw [if_pos hany]; exact hT)
            exact ⟨y, hy, by rw [hye]; exact beq_iff_eq.mp hTe⟩
          · exact i1 x (by rw [if_neg hany]; exact List.mem_append_right _ List.mem_cons_self)
        · exact i2 x hx
  exact (gen l []).2

/-- the enumeration is complete on columns without NaN: when it does not give up, its result holds every final state of every run -/
theorem vwAllLevels_complete (big eps2 : α) (cap : Nat) (L : List (Fix α))
    (hnum : ∀ a b c, a ∈ L → b ∈ L → c ∈ L → areaFix a b c < big ∨ (areaFix a b c == big) = true)
    (htag : ∀ x ∈ L, ∀ y ∈ L, x.tag = y.tag → x = y) (S0 : VState α) (h0 : GoodP big L S0) (fuel : Nat) :
    ∀ (k : Nat) (frontier finals R : List (VState α)),
      (∀ S, VReachN big eps2 k S0 S → S ∈ frontier) → (∀ S ∈ frontier, VReachN big eps2 k S0 S) →
      vwAllLevels big eps2 cap fuel frontier finals = some R →
      (∀ S ∈ finals, S ∈ R) ∧
      ∀ (j : Nat) (S' : VState α), k ≤ j → VReachN big eps2 j S0 S' → vwNext big eps2 S' = [] → S' ∈ R := by
  induction fuel with
  | zero =>
    intro k frontier finals R hF _ h
    rw [vwAllLevels] at h
    split at h
    · rename_i hem
      cases h
      refine ⟨fun S hS => hS, fun j S' hj r _ => ?_⟩
      obtain ⟨S, hS⟩ := r.pre k hj
      have := hF S hS
      rw [List.isEmpty_iff.mp hem] at this
      cases this
    · cases h
  | succ fuel ih =>
    intro k frontier finals R hF hsound h
    rw [vwAllLevels] at h
    split at h
    · rename_i hem
      cases h
      refine ⟨fun S hS => hS, fun j S' hj r _ => ?_⟩
      obtain ⟨S, hS⟩ := r.pre k hj
      have := hF S hS
      rw [List.isEmpty_iff.mp hem] at this
      cases this
    · split at h
      · cases h
      · have hF' : ∀ S, VReachN big eps2 (k + 1) S0 S → S ∈ dedupTags (frontier.flatMap (vwNext big eps2)) := by
          -- every state reached by k + 1 passes is in the merged next level
          intro S' r
          cases r with
          | succ r' hm =>
            rename_i S1
            have hin : S' ∈ frontier.flatMap (vwNext big eps2) := List.mem_flatMap.mpr ⟨S1, hF S1 r', hm⟩
            obtain ⟨T, hT, hTe⟩ := dedupTags_repr _ S' hin
            obtain ⟨T1, hT1, hTT1⟩ := List.mem_flatMap.mp (mem_dedupTags _ T hT)
            have gT : GoodP big L T := ((hsound T1 hT1).toReach.tail T hTT1).goodP L hnum h0
            have gS : GoodP big L S' := (r'.toReach.tail S' hm).goodP L hnum h0
            rw [← good_eq_of_tags big L htag T S' gT gS hTe]
            exact hT
        have hs' : ∀ S ∈ dedupTags (frontier.flatMap (vwNext big eps2)), VReachN big eps2 (k + 1) S0 S := by
          intro S hS
          obtain ⟨T1, hT1, hTT1⟩ := List.mem_flatMap.mp (mem_dedupTags _ S hS)
          exact VReachN.succ (hsound T1 hT1) hTT1
        obtain ⟨g1, g2⟩ := ih (k + 1) _ _ R hF' hs' h
        refine ⟨fun S hS => g1 S (List.mem_append_left _ hS), fun j S' hj r hn => ?_⟩
        by_cases hjk : j = k
        · subst hjk
          exact g1 S' (List.mem_append_right _ (List.mem_filter.mpr ⟨hF S' r, by rw [hn]; rfl⟩))
        · exact g2 j S' (by omega) r hn

end TV.Simplify
