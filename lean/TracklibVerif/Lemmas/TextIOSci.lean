import TracklibVerif.Lemmas.TextIOFile
/-! `str(float)` over the whole range of magnitudes (core only): positional and exponent notation (`reprFloat`), read back by
`float()` (`parseDec?` with an exponent part) as the decimal that was printed, whose value is the value written. -/
namespace TV.TextIO

/-! ### number of digits, trailing zeros -/

theorem numDigitsF_fuel (f g n : Nat) (hf : n ≤ f) (hg : n ≤ g) : numDigitsF f n = numDigitsF g n := by
  induction f generalizing g n with
  | zero =>
    have : n = 0 := by omega
    subst this
    cases g <;> simp [numDigitsF]
  | succ f ih =>
    cases g with
    | zero =>
      have : n = 0 := by omega
      subst this
      simp [numDigitsF]
    | succ g =>
      unfold numDigitsF
      split
      · rfl
      · rw [ih g (n / 10) (by omega) (by omega)]

theorem numDigits_step (a : Nat) (h : 10 ≤ a) : numDigits a = 1 + numDigits (a / 10) := by
  unfold numDigits
  cases a with
  | zero => omega
  | succ a' =>
    rw [numDigitsF]
    have : ¬ (a' + 1 < 10) := by omega
    simp only [this, ↓reduceIte]
    rw [numDigitsF_fuel a' ((a' + 1) / 10) ((a' + 1) / 10) (by omega) (Nat.le_refl _)]

theorem stripZerosF_spec (f a : Nat) (hf : a ≤ f) (ha : 0 < a) :
    ∃ tz, a = stripZerosF f a * 10 ^ tz ∧ numDigits a = numDigits (stripZerosF f a) + tz ∧ 0 < stripZerosF f a := by
  induction f generalizing a with
  | zero => omega
  | succ f ih =>
    unfold stripZerosF
    split
    · rename_i h
      obtain ⟨tz, h1, h2, h3⟩ := ih (a / 10) (by omega) (by omega)
      refine ⟨tz + 1, ?_, ?_, h3⟩
      · rw [Nat.pow_succ, ← Nat.mul_assoc, ← h1]; omega
      · rw [numDigits_step a (by omega), h2]; omega
    · exact ⟨0, by simp, by simp, ha⟩

theorem stripZeros_spec (a : Nat) (ha : 0 < a) :
    ∃ tz, a = stripZeros a * 10 ^ tz ∧ numDigits a = numDigits (stripZeros a) + tz ∧ 0 < stripZeros a :=
  stripZerosF_spec a a (Nat.le_refl _) ha

/-! ### the exponent part -/

theorem parseSInt_expDigits (x : Int) : parseSInt? ((if x < 0 then '-' else '+') :: zpad 2 x.natAbs) = some x := by
  unfold parseSInt?
  by_cases h : x < 0
  · have e : -((x.natAbs : Nat) : Int) = x := by omega
    simp [h, parseNat_zpad, e]
  · have e : ((x.natAbs : Nat) : Int) = x := by omega
    simp [h, parseNat_zpad, e]

/-! ### the mantissa of the exponent notation -/

/-- sign and mantissa `[-]d[.ddd]` -/
def sciHead (neg : Bool) (a : Nat) : Str := (if neg then ['-'] else []) ++ sciMant a

theorem sciHead_numChar (neg : Bool) (a : Nat) : ∀ c ∈ sciHead neg a, numChar c = true := by
  intro c hc
  unfold sciHead sciMant at hc
  simp only [List.mem_append] at hc
  unfold numChar
  rcases hc with hc | hc | hc
  · have : c = '-' := by cases neg <;> simp at hc; exact hc
    subst this; decide
  · simp [natStr_digits _ c hc]
  · split at hc
    · simp at hc
    · rcases List.mem_cons.1 hc with rfl | hc
      · decide
      · simp [padDigits_digits _ _ c hc]

theorem sciHead_ne_nil (neg : Bool) (a : Nat) : sciHead neg a ≠ [] := by
  unfold sciHead sciMant
  have := natStr_ne_nil (a / 10 ^ (numDigits a - 1))
  cases neg <;> simp [this]

theorem parseMant_sciHead (neg : Bool) (a : Nat) :
    parseMant? (sciHead neg a) = some (if neg then -(a : Int) else (a : Int), numDigits a - 1) := by
  unfold sciHead sciMant
  by_cases hk : numDigits a = 1
  · simp only [hk, ↓reduceIte, List.append_nil, Nat.sub_self, Nat.pow_zero, Nat.div_one]
    exact parseMant_nodot neg (natStr a) a (natStr_digits a) (natStr_ne_nil a) (by rw [parseNatAux_natStr]; simp)
  · simp only [hk, ↓reduceIte]
    have e : (if neg then ['-'] else []) ++ (natStr (a / 10 ^ (numDigits a - 1)) ++ '.' :: padDigits (numDigits a - 1) (a % 10 ^ (numDigits a - 1)))
        = (if neg then ['-'] else []) ++ natStr (a / 10 ^ (numDigits a - 1)) ++ ['.'] ++ padDigits (numDigits a - 1) (a % 10 ^ (numDigits a - 1)) := by
      simp
    rw [e, parseMant_core neg _ _ (a / 10 ^ (numDigits a - 1)) (a % 10 ^ (numDigits a - 1)) (natStr_digits _) (natStr_ne_nil _)
      (by rw [parseNatAux_natStr]; simp)
      (by rw [parseNatAux_padDigits, Nat.mod_mod]; simp)]
    rw [padDigits_length]
    have : a / 10 ^ (numDigits a - 1) * 10 ^ (numDigits a - 1) + a % 10 ^ (numDigits a - 1) = a := by
      rw [Nat.mul_comm]; exact Nat.div_add_mod _ _
    rw [this]

/-- **`float()` of the exponent notation**: `[-]d[.ddd](e|E)(+|-)xx` is read as the digits `a` with `numDigits a - 1`
decimals, scaled by the exponent -/
theorem parseDec_sci (ec : Char) (hec : isExpChar ec = true) (neg : Bool) (a : Nat) (x : Int) :
    parseDec? (sciHead neg a ++ expText ec x)
      = some (scaleDec (if neg then -(a : Int) else (a : Int)) (numDigits a - 1) x) := by
  have hnum := sciHead_numChar neg a
  have hne := sciHead_ne_nil neg a
  have hz := zpad_ne_nil 2 x.natAbs
  have e : sciHead neg a ++ expText ec x = sciHead neg a ++ ec :: ((if x < 0 then '-' else '+') :: zpad 2 x.natAbs) := by
    simp [expText]
  have hstrip : strip (sciHead neg a ++ expText ec x) = sciHead neg a ++ expText ec x := by
    apply strip_eq_self
    · intro c hc
      cases h : sciHead neg a with
      | nil => exact absurd h hne
      | cons y ys =>
        rw [h] at hc; simp at hc; rw [← hc]
        exact (numChar_not_ws (hnum y (by rw [h]; simp))).1
    · intro c hc
      rw [e, List.getLast?_append] at hc
      have e2 : ec :: ((if x < 0 then '-' else '+') :: zpad 2 x.natAbs) = [ec, if x < 0 then '-' else '+'] ++ zpad 2 x.natAbs := rfl
      rw [e2, List.getLast?_append] at hc
      cases hl : (zpad 2 x.natAbs).getLast? with
      | none => simp at hl; exact absurd hl hz
      | some y =>
        rw [hl] at hc; simp at hc; rw [← hc]
        exact (digit_of_digitVal (zpad_digits _ _ y (List.mem_of_getLast? hl))).1
  unfold parseDec?
  rw [hstrip, e]
  have htw := takeWhile_stop (fun c => !isExpChar c) (sciHead neg a) ec ((if x < 0 then '-' else '+') :: zpad 2 x.natAbs)
    (fun c hc => by simp [numChar_noexp (hnum c hc)]) (by simp [hec])
  simp only [htw.1, htw.2, parseMant_sciHead, parseSInt_expDigits]

/-! ### the value of a scaled decimal -/

theorem scaleDec_neg (m : Int) (k : Nat) (x : Int) :
    scaleDec (-m) k x = (-(scaleDec m k x).1, (scaleDec m k x).2) := by
  unfold scaleDec
  split
  · rfl
  · split
    · rfl
    · simp [Int.neg_mul]

theorem mul_pow_split (a p q r : Nat) (h : p + q = r) : a * 10 ^ p * 10 ^ q = a * 10 ^ r := by
  rw [Nat.mul_assoc, ← Nat.pow_add, h]

/-- digits `s` with `K ≥ 1` digits, `tz` trailing zeros removed, of a number with `d` decimals: the exponent notation
`s[0].s[1:] e (K + tz - 1 - d)` read back has the value `s · 10^tz / 10^d` -/
theorem scaleDec_value (s tz d K : Nat) (hK : 1 ≤ K) :
    (scaleDec (s : Int) (K - 1) (((K + tz : Nat) : Int) - 1 - (d : Int))).1 * 10 ^ d
      = ((s * 10 ^ tz : Nat) : Int) * 10 ^ (scaleDec (s : Int) (K - 1) (((K + tz : Nat) : Int) - 1 - (d : Int))).2 := by
  unfold scaleDec
  split
  · rename_i hx
    simp only
    have e : tz + (K - 1 + (((K + tz : Nat) : Int) - 1 - (d : Int)).natAbs) = d := by omega
    have := mul_pow_split s tz _ d e
    exact_mod_cast this.symm
  · rename_i hx
    split
    · rename_i hle
      simp only
      have e : tz + (K - 1 - (((K + tz : Nat) : Int) - 1 - (d : Int)).toNat) = d := by omega
      have := mul_pow_split s tz _ d e
      exact_mod_cast this.symm
    · rename_i hgt
      simp only [Int.pow_zero, Int.mul_one]
      have e : (((K + tz : Nat) : Int) - 1 - (d : Int)).toNat - (K - 1) + d = tz := by omega
      have := mul_pow_split s _ d tz e
      exact_mod_cast this

/-! ### positional `repr` -/

theorem trimFrac_spec (d f : Nat) : (trimFrac d f).1 ≤ d ∧ f = (trimFrac d f).2 * 10 ^ (d - (trimFrac d f).1) := by
  induction d, f using trimFrac.induct with
  | case1 f => simp [trimFrac]
  | case2 f => simp [trimFrac]
  | case3 d f h ih =>
    unfold trimFrac
    simp only [h, ↓reduceIte]
    refine ⟨by omega, ?_⟩
    have e : d + 2 - (trimFrac (d + 1) (f / 10)).1 = (d + 1 - (trimFrac (d + 1) (f / 10)).1) + 1 := by omega
    rw [e, Nat.pow_succ, ← Nat.mul_assoc, ← ih.2]
    omega
  | case4 d f h =>
    unfold trimFrac
    simp [h]

theorem trimFrac_lt (d f : Nat) (h : f < 10 ^ d) : (trimFrac d f).2 < 10 ^ (trimFrac d f).1 := by
  have hs := trimFrac_spec d f
  have hp : 10 ^ d = 10 ^ (trimFrac d f).1 * 10 ^ (d - (trimFrac d f).1) := by
    rw [← Nat.pow_add]; congr 1; omega
  rw [hp] at h
  have hpos : 0 < 10 ^ (d - (trimFrac d f).1) := Nat.pow_pos (by decide)
  have : (trimFrac d f).2 * 10 ^ (d - (trimFrac d f).1) < 10 ^ (trimFrac d f).1 * 10 ^ (d - (trimFrac d f).1) := by
    rw [← hs.2]; exact h
  exact Nat.lt_of_mul_lt_mul_right this

/-- what `float()` returns for the positional `str(±mag / 10^d)`: the mantissa without the trailing zeros of the decimals -/
def reprValS (d : Nat) (v : SNum) : Dec :=
  let t := trimFrac d (v.mag % 10 ^ d)
  let m : Int := ((v.mag / 10 ^ d * 10 ^ t.1 + t.2 : Nat) : Int)
  (if v.neg then -m else m, t.1)

theorem reprValS_value (d : Nat) (v : SNum) : (reprValS d v).2 ≤ d ∧ (reprValS d v).1 * 10 ^ (d - (reprValS d v).2) = v.toInt := by
  have hs := trimFrac_spec d (v.mag % 10 ^ d)
  refine ⟨hs.1, ?_⟩
  unfold reprValS SNum.toInt
  simp only
  generalize trimFrac d (v.mag % 10 ^ d) = t at hs
  have key : (v.mag / 10 ^ d * 10 ^ t.1 + t.2) * 10 ^ (d - t.1) = v.mag := by
    rw [Nat.add_mul, Nat.mul_assoc, ← Nat.pow_add, ← hs.2]
    have : t.1 + (d - t.1) = d := by omega
    rw [this, Nat.mul_comm]
    exact Nat.div_add_mod _ _
  have kz : (((v.mag / 10 ^ d * 10 ^ t.1 + t.2 : Nat) : Int)) * 10 ^ (d - t.1) = (v.mag : Int) := by
    exact_mod_cast key
  cases v.neg
  · simp only [Bool.false_eq_true, ↓reduceIte]; exact kz
  · simp only [↓reduceIte, Int.neg_mul, kz]

theorem parseDec_reprDecS (d : Nat) (v : SNum) : parseDec? (reprDecS d v) = some (reprValS d v) := by
  unfold reprDecS reprValS
  simp only
  have hlt := trimFrac_lt d (v.mag % 10 ^ d) (Nat.mod_lt _ (Nat.pow_pos (by decide)))
  generalize trimFrac d (v.mag % 10 ^ d) = t at hlt
  have h := parseDec_core v.neg (natStr (v.mag / 10 ^ d)) (padDigits t.1 t.2) (v.mag / 10 ^ d) t.2
    (natStr_digits _) (natStr_ne_nil _) (padDigits_digits _ _)
    (by rw [parseNatAux_natStr]; simp) (by rw [parseNatAux_padDigits, Nat.mod_eq_of_lt hlt]; simp)
  simp only [padDigits_length] at h
  exact h

theorem reprDecS_numChar (d : Nat) (v : SNum) : ∀ c ∈ reprDecS d v, numChar c = true := by
  intro c hc
  unfold reprDecS at hc
  simp only [List.mem_append, List.mem_singleton] at hc
  unfold numChar
  rcases hc with ((hc | hc) | hc) | hc
  · have : c = '-' := by cases hn : v.neg <;> simp [hn] at hc; exact hc
    subst this; decide
  · simp [natStr_digits _ c hc]
  · subst hc; decide
  · simp [padDigits_digits _ _ c hc]

theorem reprDecS_ne_nil (d : Nat) (v : SNum) : reprDecS d v ≠ [] := by
  unfold reprDecS
  have := natStr_ne_nil (v.mag / 10 ^ d)
  cases v.neg <;> simp [this]

/-! ### `str(float)` over the whole range -/

/-- what `float()` returns for `str(x)`, `x = ±mag / 10^d`: in the exponent range the digits without trailing zeros scaled
by the exponent, else the positional decimal -/
def reprValF (d : Nat) (v : SNum) : Dec :=
  if useExp d v.mag then
    scaleDec (if v.neg then -(stripZeros v.mag : Int) else (stripZeros v.mag : Int)) (numDigits (stripZeros v.mag) - 1) (sciExp d v.mag)
  else if d = 0 then reprValS 1 ⟨v.neg, v.mag * 10⟩ else reprValS d v

/-- **`float(str(x))`**, syntactic half: the text `str` prints for `±mag / 10^d` — positional or exponent notation, marker
`e` or (after `str.upper()`) `E` — is accepted by `float()` and read as the decimal `reprValF d v` -/
theorem parseDec_reprFloat (ec : Char) (hec : isExpChar ec = true) (d : Nat) (v : SNum) :
    parseDec? (reprFloat ec d v) = some (reprValF d v) := by
  unfold reprFloat reprValF
  split
  · exact parseDec_sci ec hec v.neg (stripZeros v.mag) (sciExp d v.mag)
  · split
    · exact parseDec_reprDecS 1 _
    · exact parseDec_reprDecS d v

/-- **`float(str(x))`**, value half: the decimal read back is the value written, `mantissa / 10^decimals = ±mag / 10^d`
(cross-multiplied) — for every magnitude and both signs -/
theorem reprValF_value (d : Nat) (v : SNum) : (reprValF d v).1 * 10 ^ d = v.toInt * 10 ^ (reprValF d v).2 := by
  unfold reprValF
  split
  · rename_i hu
    have hm : 0 < v.mag := by
      unfold useExp at hu
      simp only [bne_iff_ne, ne_eq, Bool.and_eq_true] at hu
      omega
    obtain ⟨tz, h1, h2, h3⟩ := stripZeros_spec v.mag hm
    have hK := numDigits_pos (stripZeros v.mag)
    have hv := scaleDec_value (stripZeros v.mag) tz d (numDigits (stripZeros v.mag)) hK
    have hx : sciExp d v.mag = ((numDigits (stripZeros v.mag) + tz : Nat) : Int) - 1 - (d : Int) := by
      unfold sciExp; rw [h2]
    rw [hx, ← h1] at *
    unfold SNum.toInt
    cases v.neg
    · simp only [Bool.false_eq_true, ↓reduceIte]
      exact hv
    · simp only [↓reduceIte, scaleDec_neg, Int.neg_mul, hv]
  · split
    · rename_i h0
      subst h0
      obtain ⟨hle, hval⟩ := reprValS_value 1 ⟨v.neg, v.mag * 10⟩
      generalize reprValS 1 ⟨v.neg, v.mag * 10⟩ = r at hle hval ⊢
      unfold SNum.toInt at hval ⊢
      simp only at hval
      have : r.2 = 0 ∨ r.2 = 1 := by omega
      rcases this with h | h
      · rw [h] at hval ⊢
        cases hn : v.neg <;> simp [hn] at hval ⊢ <;> omega
      · rw [h] at hval ⊢
        cases hn : v.neg <;> simp [hn] at hval ⊢ <;> omega
    · obtain ⟨hle, hval⟩ := reprValS_value d v
      generalize reprValS d v = r at hle hval
      rw [← hval, Int.mul_assoc, ← Int.pow_add]
      congr 2
      omega

/-- the characters of `str(float)`: number characters, the exponent marker, `+` -/
theorem reprFloat_chars (ec : Char) (d : Nat) (v : SNum) : ∀ c ∈ reprFloat ec d v, numChar c = true ∨ c = ec ∨ c = '+' := by
  intro c hc
  unfold reprFloat at hc
  split at hc
  · rw [show (if v.neg then ['-'] else []) ++ sciMant (stripZeros v.mag) = sciHead v.neg (stripZeros v.mag) from rfl] at hc
    rcases List.mem_append.1 hc with hc | hc
    · exact Or.inl (sciHead_numChar _ _ c hc)
    · unfold expText at hc
      simp only [List.mem_append, List.mem_cons, List.not_mem_nil, or_false] at hc
      rcases hc with (hc | hc) | hc
      · exact Or.inr (Or.inl hc)
      · split at hc
        · subst hc; exact Or.inl (by decide)
        · exact Or.inr (Or.inr hc)
      · exact Or.inl (by unfold numChar; simp [zpad_digits _ _ c hc])
  · split at hc
    · exact Or.inl (reprDecS_numChar _ _ c hc)
    · exact Or.inl (reprDecS_numChar _ _ c hc)

theorem reprFloat_ne_nil (ec : Char) (d : Nat) (v : SNum) : reprFloat ec d v ≠ [] := by
  unfold reprFloat
  split
  · have := sciHead_ne_nil v.neg (stripZeros v.mag)
    unfold sciHead at this
    intro h
    exact this (List.append_eq_nil_iff.1 h).1
  · split
    · exact reprDecS_ne_nil _ _
    · exact reprDecS_ne_nil _ _

end TV.TextIO
