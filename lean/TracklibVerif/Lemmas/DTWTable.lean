import TracklibVerif.Model.DTWTable
import TracklibVerif.Lemmas.DTW
/-! Refinement: the executable table form of `_dtw` (`Model/DTWTable.lean`) equals the function-style
`T` / `pred` of `Model/DTW.lean`; properties of the backward walk. -/
set_option linter.unusedSectionVars false
namespace TV.DTW
variable {α : Type} [LinearOrder α]

/-! ### Python's `min` / the predecessor encoding vs `min3` / `pred` -/

theorem pmin_eq_min (a b : α) : pmin a b = min a b := by
  unfold pmin
  by_cases h : b < a
  · simp [h, min_eq_right (le_of_lt h)]
  · simp [h, min_eq_left (not_lt.mp h)]

theorem min3_eq_min (a b c : α) : min3 a b c = min a (min b c) := by
  apply le_antisymm
  · exact le_min (min3_le a b c).1 (le_min (min3_le a b c).2.1 (min3_le a b c).2.2)
  · rcases min3_mem a b c with h | h | h <;> rw [h]
    · exact min_le_left _ _
    · exact le_trans (min_le_right _ _) (min_le_left _ _)
    · exact le_trans (min_le_right _ _) (min_le_right _ _)

theorem pmin3_eq_min3 (ul u l : α) : pmin ul (pmin u l) = min3 ul u l := by
  rw [pmin_eq_min, pmin_eq_min, min3_eq_min]

theorem predCell_eq (i j : Nat) (ul u l : α) :
    predCell (i+1) (j+1) ul u l =
      if ul ≤ u ∧ ul ≤ l then (i, j) else if u < l then (i, j+1) else (i+1, j) := by
  unfold predCell
  rw [pmin_eq_min]
  by_cases h1 : ul ≤ u ∧ ul ≤ l
  · have : ul ≤ min u l := le_min h1.1 h1.2
    simp [h1, this]
  · have h1' : ¬ ul ≤ min u l := fun h => h1 ⟨le_trans h (min_le_left _ _), le_trans h (min_le_right _ _)⟩
    by_cases h2 : u < l
    · have : ¬ l ≤ u := not_le.mpr h2
      simp [h1, h1', h2, this]
    · have : l ≤ u := not_lt.mp h2
      simp [h1, h1', h2, this]

end TV.DTW

namespace TV.DTW
variable {α : Type} [LinearOrder α]

/-! ### the table form computes `T` and `pred` -/

/-- column `j` of the function-style tables `T`, `M` -/
def colOf (w : α → α → α) (z : α) (D : Nat → Nat → α) (n2 j : Nat) : List (Cell α) :=
  (List.range' 0 n2).map (fun i => (T w z D i j, pred w z D i j))

/-- the columns of a distance matrix given as a function (`n1` columns of `n2` entries) -/
def dcols (D : Nat → Nat → α) (n1 n2 : Nat) : List (List α) :=
  (List.range' 0 n1).map (fun j => (List.range' 0 n2).map (fun i => D i j))

theorem firstCol_succ (w : α → α → α) (z : α) (D : Nat → Nat → α) :
    ∀ n i, firstCol w (i+1) (T w z D i 0) ((List.range' (i+1) n).map (fun r => D r 0))
      = (List.range' (i+1) n).map (fun r => (T w z D r 0, pred w z D r 0))
  | 0, i => by simp [firstCol]
  | n+1, i => by
    rw [List.range'_succ]
    simp only [List.map_cons, firstCol]
    have h := firstCol_succ w z D n (i+1)
    simp only [T] at h
    rw [h]
    simp [T, pred]

theorem firstCol_spec (w : α → α → α) (z : α) (D : Nat → Nat → α) (n2 : Nat) :
    firstCol w 0 z ((List.range' 0 n2).map (fun r => D r 0)) = colOf w z D n2 0 := by
  unfold colOf
  cases n2 with
  | zero => simp [firstCol]
  | succ n =>
    rw [List.range'_succ]
    simp only [List.map_cons, firstCol]
    have h := firstCol_succ w z D n 0
    simp only [T] at h
    rw [h]
    simp [T, pred]

theorem restCol_spec (w : α → α → α) (z : α) (D : Nat → Nat → α) (j : Nat) :
    ∀ n i, restCol w (j+1) (i+1) (T w z D i j) (T w z D i (j+1))
        ((List.range' (i+1) n).map (fun r => (T w z D r j, pred w z D r j)))
        ((List.range' (i+1) n).map (fun r => D r (j+1)))
      = (List.range' (i+1) n).map (fun r => (T w z D r (j+1), pred w z D r (j+1)))
  | 0, i => by simp [restCol]
  | n+1, i => by
    rw [List.range'_succ]
    simp only [List.map_cons, restCol]
    have h := restCol_spec w z D j n (i+1)
    have ht : w (pmin (T w z D i j) (pmin (T w z D i (j+1)) (T w z D (i+1) j))) (D (i+1) (j+1))
        = T w z D (i+1) (j+1) := by
      rw [pmin3_eq_min3]; simp only [T]
    rw [ht, h, predCell_eq]
    simp [pred]

theorem nextCol_spec (w : α → α → α) (z : α) (D : Nat → Nat → α) (n2 j : Nat) :
    nextCol w (j+1) (colOf w z D n2 j) ((List.range' 0 n2).map (fun r => D r (j+1))) = colOf w z D n2 (j+1) := by
  unfold colOf
  cases n2 with
  | zero => simp [nextCol]
  | succ n =>
    rw [List.range'_succ]
    simp only [List.map_cons, nextCol]
    have h := restCol_spec w z D j n 0
    have ht : w (T w z D 0 j) (D 0 (j+1)) = T w z D 0 (j+1) := by simp only [T]
    rw [ht, h]
    simp [pred]

theorem laterCols_spec (w : α → α → α) (z : α) (D : Nat → Nat → α) (n2 : Nat) :
    ∀ n j, laterCols w (j+1) (colOf w z D n2 j)
        ((List.range' (j+1) n).map (fun c => (List.range' 0 n2).map (fun r => D r c)))
      = (List.range' (j+1) n).map (colOf w z D n2)
  | 0, j => by simp [laterCols]
  | n+1, j => by
    rw [List.range'_succ]
    simp only [List.map_cons, laterCols]
    rw [nextCol_spec, laterCols_spec w z D n2 n (j+1)]

/-- the executable tables are the function-style ones, column by column -/
theorem table_spec (w : α → α → α) (z : α) (D : Nat → Nat → α) (n1 n2 : Nat) :
    table w z (dcols D n1 n2) = (List.range' 0 n1).map (colOf w z D n2) := by
  unfold dcols
  cases n1 with
  | zero => simp [table]
  | succ n =>
    rw [List.range'_succ]
    simp only [List.map_cons, table]
    rw [firstCol_spec, laterCols_spec w z D n2 n 0]

/-- `T[i,j]`, `M[i,j]` of the code's tables are `T i j`, `pred i j` -/
theorem cellAt_table (w : α → α → α) (z : α) (D : Nat → Nat → α) (n1 n2 i j : Nat) (hi : i < n2) (hj : j < n1) :
    cellAt (table w z (dcols D n1 n2)) i j = some (T w z D i j, pred w z D i j) := by
  rw [table_spec]
  unfold cellAt colOf
  simp [hi, hj]

theorem cellAt_table_none (w : α → α → α) (z : α) (D : Nat → Nat → α) (n1 n2 i j : Nat) (h : n2 ≤ i ∨ n1 ≤ j) :
    cellAt (table w z (dcols D n1 n2)) i j = none := by
  rw [table_spec]
  unfold cellAt colOf
  rcases h with h | h
  · by_cases hj : j < n1
    · simp [hj, Nat.not_lt.mpr h]
    · simp [hj]
  · simp [Nat.not_lt.mpr h]

end TV.DTW

namespace TV.DTW
variable {α : Type} [LinearOrder α]

/-! ### the backward walk -/

/-- `b` is a lattice predecessor of `a`: one step back in track2, in track1, or in both -/
def IsStep (a b : Nat × Nat) : Prop :=
  (a.1 = b.1 + 1 ∧ a.2 = b.2) ∨ (a.1 = b.1 ∧ a.2 = b.2 + 1) ∨ (a.1 = b.1 + 1 ∧ a.2 = b.2 + 1)

/-- a list of pairs, as `S` in the code (last pair first), that is a monotone coupling with unit steps ending at `(0,0)` -/
def BackPath : List (Nat × Nat) → Prop
  | [] => False
  | [s] => s = (0, 0)
  | a :: b :: rest => IsStep a b ∧ BackPath (b :: rest)

/-- accumulated cost of a coupling given last pair first: `weight(… weight(weight(0, D[0,0]), D[s₁]) …, D[last])` -/
def costBack (w : α → α → α) (z : α) (D : Nat → Nat → α) : List (Nat × Nat) → α
  | [] => z
  | s :: rest => w (costBack w z D rest) (D s.1 s.2)

/-- the walk through the function-style predecessor -/
def walkF (w : α → α → α) (z : α) (D : Nat → Nat → α) : Nat → Nat × Nat → List (Nat × Nat) :=
  walk (fun i j => some (pred w z D i j))

theorem pred_isStep (w : α → α → α) (z : α) (D : Nat → Nat → α) (i j : Nat) (h : 0 < i ∨ 0 < j) :
    IsStep (i, j) (pred w z D i j) := by
  unfold IsStep
  match i, j with
  | 0, 0 => omega
  | i+1, 0 => simp [pred]
  | 0, j+1 => simp [pred]
  | i+1, j+1 =>
    simp only [pred]
    split
    · simp
    · split <;> simp

theorem pred_le (w : α → α → α) (z : α) (D : Nat → Nat → α) (i j : Nat) :
    (pred w z D i j).1 ≤ i ∧ (pred w z D i j).2 ≤ j ∧
      ((0 < i ∨ 0 < j) → (pred w z D i j).1 + (pred w z D i j).2 < i + j) := by
  match i, j with
  | 0, 0 => simp [pred]
  | i+1, 0 => simp [pred]
  | 0, j+1 => simp [pred]
  | i+1, j+1 =>
    simp only [pred]
    split
    · simp; omega
    · split <;> simp

theorem walkF_head (w : α → α → α) (z : α) (D : Nat → Nat → α) (f : Nat) (s : Nat × Nat) :
    (walkF w z D f s).head? = some s := by
  unfold walkF
  cases f with
  | zero => simp [walk]
  | succ f =>
    obtain ⟨i, j⟩ := s
    simp only [walk]
    split <;> simp

/-- T3: with enough fuel the walk is a monotone unit-step coupling down to `(0,0)` -/
theorem walkF_backPath (w : α → α → α) (z : α) (D : Nat → Nat → α) :
    ∀ f i j, i + j ≤ f → BackPath (walkF w z D f (i, j)) := by
  intro f
  induction f with
  | zero =>
    intro i j h
    have hi : i = 0 := by omega
    have hj : j = 0 := by omega
    subst hi; subst hj
    simp [walkF, walk, BackPath]
  | succ f ih =>
    intro i j h
    by_cases h0 : 0 < i ∨ 0 < j
    · have hp := pred_le w z D i j
      have hs := pred_isStep w z D i j h0
      have hrec := ih (pred w z D i j).1 (pred w z D i j).2 (by have := hp.2.2 h0; omega)
      have hh := walkF_head w z D f (pred w z D i j)
      unfold walkF at hrec hh ⊢
      simp only [walk, h0, if_true]
      generalize hg : walk (fun i j => some (pred w z D i j)) f (pred w z D i j) = l at hrec hh
      cases l with
      | nil => simp at hh
      | cons b rest =>
        simp only [List.head?_cons, Option.some.injEq] at hh
        subst hh
        exact ⟨hs, hrec⟩
    · have hi : i = 0 := by omega
      have hj : j = 0 := by omega
      subst hi; subst hj
      simp [walkF, walk, BackPath]

/-- T4: the accumulated cost of the walk is the table value (each back-pointer is a minimal predecessor) -/
theorem walkF_cost (w : α → α → α) (z : α) (D : Nat → Nat → α) :
    ∀ f i j, i + j ≤ f → costBack w z D (walkF w z D f (i, j)) = T w z D i j := by
  intro f
  induction f with
  | zero =>
    intro i j h
    have hi : i = 0 := by omega
    have hj : j = 0 := by omega
    subst hi; subst hj
    simp [walkF, walk, costBack, T]
  | succ f ih =>
    intro i j h
    match i, j with
    | 0, 0 => simp [walkF, walk, costBack, T]
    | i+1, 0 =>
      have := ih i 0 (by omega)
      have hp : pred w z D (i+1) 0 = (i, 0) := by simp only [pred]
      unfold walkF at this ⊢
      simp only [walk, Nat.zero_lt_succ, true_or, if_true, costBack, hp]
      rw [this]; simp only [T]
    | 0, j+1 =>
      have := ih 0 j (by omega)
      have hp : pred w z D 0 (j+1) = (0, j) := by simp only [pred]
      unfold walkF at this ⊢
      simp only [walk, Nat.zero_lt_succ, or_true, if_true, costBack, hp]
      rw [this]; simp only [T]
    | i+1, j+1 =>
      have hp := pred_le w z D (i+1) (j+1)
      have := ih (pred w z D (i+1) (j+1)).1 (pred w z D (i+1) (j+1)).2 (by have := hp.2.2 (Or.inl (by omega)); omega)
      unfold walkF at this ⊢
      simp only [walk, Nat.zero_lt_succ, or_self, if_true, costBack]
      rw [this]
      exact (T_pred w z D i j).symm

end TV.DTW

namespace TV.DTW
variable {α : Type} [LinearOrder α]

/-! ### couplings as lists; coverage; symmetry; the table-driven walk -/

omit [LinearOrder α] in
/-- a coupling given as a list (last pair first) is a `Coupling` in the inductive sense, with the same cost -/
theorem backPath_coupling (w : α → α → α) (z : α) (D : Nat → Nat → α) :
    ∀ (S : List (Nat × Nat)) (i j : Nat), BackPath S → S.head? = some (i, j) →
      Coupling w z D i j (costBack w z D S)
  | [], _, _, h, _ => by simp [BackPath] at h
  | [s], i, j, h, hh => by
    simp only [BackPath] at h
    simp only [List.head?_cons, Option.some.injEq] at hh
    subst h
    cases hh
    simp only [costBack]
    exact Coupling.base
  | a :: b :: rest, i, j, h, hh => by
    simp only [BackPath] at h
    simp only [List.head?_cons, Option.some.injEq] at hh
    subst hh
    obtain ⟨b1, b2⟩ := b
    have ih := backPath_coupling w z D ((b1, b2) :: rest) b1 b2 h.2 rfl
    have hc : costBack w z D ((i, j) :: (b1, b2) :: rest) = w (costBack w z D ((b1, b2) :: rest)) (D i j) := rfl
    rw [hc]
    rcases h.1 with ⟨h1, h2⟩ | ⟨h1, h2⟩ | ⟨h1, h2⟩ <;> simp only at h1 h2 <;> subst h1 <;> subst h2
    · exact Coupling.down ih
    · exact Coupling.right ih
    · exact Coupling.diag ih

/-- every pair of a coupling lies in the rectangle spanned by its last pair -/
theorem backPath_bounds : ∀ (S : List (Nat × Nat)) (i j : Nat), BackPath S → S.head? = some (i, j) →
    ∀ s ∈ S, s.1 ≤ i ∧ s.2 ≤ j
  | [], _, _, h, _ => by simp [BackPath] at h
  | [s], i, j, _, hh => by
    simp only [List.head?_cons, Option.some.injEq] at hh
    subst hh
    intro s' hs'
    simp only [List.mem_singleton] at hs'
    subst hs'
    exact ⟨Nat.le_refl _, Nat.le_refl _⟩
  | a :: b :: rest, i, j, h, hh => by
    simp only [BackPath] at h
    simp only [List.head?_cons, Option.some.injEq] at hh
    subst hh
    obtain ⟨b1, b2⟩ := b
    have ih := backPath_bounds ((b1, b2) :: rest) b1 b2 h.2 rfl
    intro s hs
    rcases List.mem_cons.mp hs with hs | hs
    · subst hs; exact ⟨Nat.le_refl _, Nat.le_refl _⟩
    · have := ih s hs
      have hst := h.1
      unfold IsStep at hst
      simp only at hst
      omega

/-- every observation of track2 (rows) and of track1 (columns) up to the last pair is linked at least once -/
theorem backPath_covers : ∀ (S : List (Nat × Nat)) (i j : Nat), BackPath S → S.head? = some (i, j) →
    (∀ a, a ≤ i → ∃ b, (a, b) ∈ S) ∧ (∀ b, b ≤ j → ∃ a, (a, b) ∈ S)
  | [], _, _, h, _ => by simp [BackPath] at h
  | [s], i, j, h, hh => by
    simp only [BackPath] at h
    simp only [List.head?_cons, Option.some.injEq] at hh
    subst h
    cases hh
    constructor
    · intro a ha; exact ⟨0, by simp; omega⟩
    · intro b hb; exact ⟨0, by simp; omega⟩
  | a :: b :: rest, i, j, h, hh => by
    simp only [BackPath] at h
    simp only [List.head?_cons, Option.some.injEq] at hh
    subst hh
    obtain ⟨b1, b2⟩ := b
    have ih := backPath_covers ((b1, b2) :: rest) b1 b2 h.2 rfl
    have hst := h.1
    unfold IsStep at hst
    simp only at hst
    constructor
    · intro a ha
      by_cases hai : a = i
      · subst hai; exact ⟨j, List.mem_cons_self⟩
      · obtain ⟨b, hb⟩ := ih.1 a (by omega)
        exact ⟨b, List.mem_cons_of_mem _ hb⟩
    · intro b hb
      by_cases hbj : b = j
      · subst hbj; exact ⟨i, List.mem_cons_self⟩
      · obtain ⟨a, ha⟩ := ih.2 b (by omega)
        exact ⟨a, List.mem_cons_of_mem _ ha⟩

theorem min3_swap (a b c : α) : min3 a b c = min3 a c b := by
  rw [min3_eq_min, min3_eq_min, min_comm b c]

/-- T2 (core): transposing the distance matrix transposes the table -/
theorem T_transpose (w : α → α → α) (z : α) (D : Nat → Nat → α) :
    ∀ n i j, i + j = n → T w z (fun a b => D b a) j i = T w z D i j := by
  intro n
  induction n using Nat.strongRecOn with
  | _ n ih =>
    intro i j hij
    match i, j with
    | 0, 0 => simp only [T]
    | i+1, 0 => simp only [T]; rw [ih (i + 0) (by omega) i 0 rfl]
    | 0, j+1 => simp only [T]; rw [ih (0 + j) (by omega) 0 j rfl]
    | i+1, j+1 =>
      simp only [T]
      rw [ih (i + j) (by omega) i j rfl, ih (i + (j+1)) (by omega) i (j+1) rfl,
        ih ((i+1) + j) (by omega) (i+1) j rfl, min3_swap]

/-- inside the table the walk through the code's `M` is the walk through `pred` -/
theorem walk_table (w : α → α → α) (z : α) (D : Nat → Nat → α) (n1 n2 : Nat) :
    ∀ f i j, i < n2 → j < n1 →
      walk (fun i j => (cellAt (table w z (dcols D n1 n2)) i j).map (·.2)) f (i, j) = walkF w z D f (i, j) := by
  intro f
  induction f with
  | zero => intro i j _ _; simp [walkF, walk]
  | succ f ih =>
    intro i j hi hj
    have hp := pred_le w z D i j
    have hrec := ih (pred w z D i j).1 (pred w z D i j).2 (by omega) (by omega)
    unfold walkF at hrec ⊢
    simp only [walk, cellAt_table w z D n1 n2 i j hi hj, Option.map_some]
    split
    · rw [hrec]
    · rfl

/-- `_dtw` up to the backward step, on a non-empty `n2 × n1` matrix: the score is `T[n2-1,n1-1]` and `S` is the
walk through `pred` -/
theorem dtwCore_spec (w : α → α → α) (z : α) (D : Nat → Nat → α) (n1 n2 : Nat) (h1 : 0 < n1) (h2 : 0 < n2) :
    dtwCore w z n1 n2 (dcols D n1 n2)
      = some (T w z D (n2 - 1) (n1 - 1), walkF w z D (n1 + n2) (n2 - 1, n1 - 1)) := by
  unfold dtwCore
  simp only []
  rw [walk_table w z D n1 n2 (n1 + n2) (n2 - 1) (n1 - 1) (by omega) (by omega),
    cellAt_table w z D n1 n2 (n2 - 1) (n1 - 1) (by omega) (by omega)]
  rfl

end TV.DTW

namespace TV.DTW

/-! ### `_fillAF_dtw` -/
section fill
variable {α : Type} [Add α] [Sub α] [Mul α] [Div α] [LT α] [LE α] [DecidableLT α] [DecidableLE α] [OfNat α 0]

/-- the partners that the pairs of `L` (in visiting order) give to observation `j` of track1 -/
def partners (L : List (Nat × Nat)) (j : Nat) : List Nat := (L.filter (fun s => s.2 == j)).map (·.1)

omit [Add α] [Mul α] [Div α] [LT α] [DecidableLT α] [LE α] [DecidableLE α] in
theorem fill_foldl (dist : Pt α → Pt α → α) (t1 t2 : List (Pt α)) :
    ∀ (L : List (Nat × Nat)) (rows : List (Row α)) (nb : Nat), rows.length = t1.length →
      (∀ s ∈ L, s.1 < t2.length ∧ s.2 < t1.length) →
      ∃ rows', L.foldl (fillStep dist t1 t2) (some (rows, nb)) = some (rows', nb + L.length) ∧
        rows'.length = t1.length ∧
        ∀ j, (rows'[j]?).map (·.pair) = (rows[j]?).map (fun r => r.pair ++ partners L j)
  | [], rows, nb, hl, _ => ⟨rows, by simp, hl, by intro j; simp [partners]⟩
  | s :: L, rows, nb, hl, hb => by
    have hs := hb s List.mem_cons_self
    have h1 : s.2 < t1.length := hs.2
    have h2 : s.1 < t2.length := hs.1
    have hr : s.2 < rows.length := by omega
    simp only [List.foldl_cons, fillStep, List.getElem?_eq_getElem h1, List.getElem?_eq_getElem h2,
      List.getElem?_eq_getElem hr]
    obtain ⟨rows', he, hl', hp⟩ := fill_foldl dist t1 t2 L
      (rows.set s.2 { diff := some (dist t1[s.2] t2[s.1]), pair := rows[s.2].pair ++ [s.1],
                      ex := some (t1[s.2].x - t2[s.1].x), ey := some (t1[s.2].y - t2[s.1].y) })
      (nb + 1) (by simp [hl]) (fun s' hs' => hb s' (List.mem_cons_of_mem _ hs'))
    refine ⟨rows', ?_, hl', ?_⟩
    · rw [he]; simp only [List.length_cons]; congr 2; omega
    · intro j
      rw [hp j]
      by_cases hj : s.2 = j
      · subst hj
        simp [List.getElem?_set_self hr, List.getElem?_eq_getElem hr, partners]
      · have hne : (s.2 == j) = false := by simp [hj]
        simp [List.getElem?_set_ne hj, partners, hne]

omit [Div α] [LE α] [DecidableLE α] in
/-- `_fillAF_dtw` on pairs that exist: `score` and `S` are passed through, `nb_links` is the number of pairs and the
`pair` feature of observation `j` lists, in coupling order, the partners `i` of the pairs `(i, j)` of `S` -/
theorem fillAF_spec (dist : Pt α → Pt α → α) (t1 t2 : List (Pt α)) (S : List (Nat × Nat)) (score : α)
    (hb : ∀ s ∈ S, s.1 < t2.length ∧ s.2 < t1.length) :
    ∃ rows, fillAF dist t1 t2 S score = some { score := score, S := S, rows := rows, nbLinks := S.length } ∧
      rows.length = t1.length ∧
      ∀ j, j < t1.length → (rows[j]?).map (·.pair) = some (partners S.reverse j) := by
  obtain ⟨rows, he, hl, hp⟩ := fill_foldl dist t1 t2 S.reverse (t1.map (fun _ => {})) 0 (by simp)
    (fun s hs => hb s (List.mem_reverse.mp hs))
  refine ⟨rows, ?_, hl, ?_⟩
  · have h0 : (freshRows t1).map (fun r : Row α => { r with pair := [] }) = t1.map (fun _ => {}) := by
      simp [freshRows]
    unfold fillAF fillAFOn
    rw [h0, he]
    simp
  · intro j hj
    rw [hp j]
    simp [hj]

end fill
end TV.DTW

namespace TV.DTW

/-! ### `_dtw` as a whole -/

theorem map_eq_range' {β γ : Type} (l : List β) (d : β) (f : β → γ) :
    l.map f = (List.range' 0 l.length).map (fun i => f (l[i]?.getD d)) := by
  apply List.ext_getElem?
  intro i
  by_cases h : i < l.length
  · simp [h]
  · simp [h]

section whole
variable {α : Type} [Add α] [Sub α] [Mul α] [Div α] [LinearOrder α] [OfNat α 0]

/-- the distance matrix of `_dtw` as a function: `D[i,j] = _distance(track2[i], track1[j], dim)` -/
def Dmat (dist : Pt α → Pt α → α) (t1 t2 : List (Pt α)) (i j : Nat) : α :=
  dist (t2[i]?.getD ⟨0, 0, 0⟩) (t1[j]?.getD ⟨0, 0, 0⟩)

omit [Add α] [Sub α] [Mul α] [Div α] in
theorem distCols_eq (dist : Pt α → Pt α → α) (t1 t2 : List (Pt α)) :
    distCols dist t1 t2 = dcols (Dmat dist t1 t2) t1.length t2.length := by
  unfold distCols dcols Dmat
  rw [map_eq_range' t1 ⟨0, 0, 0⟩]
  congr 1
  funext j
  rw [map_eq_range' t2 ⟨0, 0, 0⟩]

omit [Div α] in
/-- `_dtw` on two non-empty tracks: the score is the table value at the last pair, `S` is the walk through the
minimal predecessors, and `_fillAF_dtw` turns `S` into the `pair` lists -/
theorem dtw_spec (dist : Pt α → Pt α → α) (w : α → α → α) (t1 t2 : List (Pt α))
    (h1 : 0 < t1.length) (h2 : 0 < t2.length) :
    ∃ rows, dtw dist w t1 t2 = some
        { score := T w 0 (Dmat dist t1 t2) (t2.length - 1) (t1.length - 1),
          S := walkF w 0 (Dmat dist t1 t2) (t1.length + t2.length) (t2.length - 1, t1.length - 1),
          rows := rows,
          nbLinks := (walkF w 0 (Dmat dist t1 t2) (t1.length + t2.length) (t2.length - 1, t1.length - 1)).length } ∧
      rows.length = t1.length ∧
      ∀ j, j < t1.length → (rows[j]?).map (·.pair) = some (partners
        (walkF w 0 (Dmat dist t1 t2) (t1.length + t2.length) (t2.length - 1, t1.length - 1)).reverse j) := by
  have hbp := walkF_backPath w 0 (Dmat dist t1 t2) (t1.length + t2.length) (t2.length - 1) (t1.length - 1) (by omega)
  have hhd := walkF_head w 0 (Dmat dist t1 t2) (t1.length + t2.length) (t2.length - 1, t1.length - 1)
  have hb := backPath_bounds _ _ _ hbp hhd
  obtain ⟨rows, he, hl, hp⟩ := fillAF_spec dist t1 t2
    (walkF w 0 (Dmat dist t1 t2) (t1.length + t2.length) (t2.length - 1, t1.length - 1))
    (T w 0 (Dmat dist t1 t2) (t2.length - 1) (t1.length - 1))
    (fun s hs => by have := hb s hs; omega)
  refine ⟨rows, ?_, hl, hp⟩
  unfold dtw dtwOn
  rw [distCols_eq, dtwCore_spec w 0 _ _ _ h1 h2]
  exact he

end whole
end TV.DTW

namespace TV.DTW

/-- what the `pair` lists say when they are the partners of a coupling `S` of the two tracks: exactly the pairs of `S`,
nobody left out -/
theorem rows_pairs {α : Type} (S : List (Nat × Nat)) (n1 n2 : Nat) (rows : List (Row α))
    (hbp : BackPath S) (hhd : S.head? = some (n2 - 1, n1 - 1)) (h1 : 0 < n1) (h2 : 0 < n2) (hl : rows.length = n1)
    (hp : ∀ j, j < n1 → (rows[j]?).map (·.pair) = some (partners S.reverse j)) :
    (∀ s ∈ S, s.1 < n2 ∧ s.2 < n1) ∧
    (∀ j, j < n1 → ∃ r : Row α, rows[j]? = some r ∧ (∀ i, i ∈ r.pair ↔ (i, j) ∈ S) ∧ r.pair ≠ []) ∧
    (∀ i, i < n2 → ∃ (j : Nat) (r : Row α), rows[j]? = some r ∧ i ∈ r.pair) := by
  have hb := backPath_bounds _ _ _ hbp hhd
  have hc := backPath_covers _ _ _ hbp hhd
  have hrow : ∀ j, j < n1 → ∃ r : Row α, rows[j]? = some r ∧ (∀ i, i ∈ r.pair ↔ (i, j) ∈ S) := by
    intro j hj
    have hpj := hp j hj
    have hjr : j < rows.length := by omega
    refine ⟨rows[j], List.getElem?_eq_getElem hjr, ?_⟩
    rw [List.getElem?_eq_getElem hjr] at hpj
    simp only [Option.map_some, Option.some.injEq] at hpj
    intro i
    rw [hpj]
    unfold partners
    simp only [List.mem_map, List.mem_filter, List.mem_reverse, beq_iff_eq]
    constructor
    · rintro ⟨⟨a, b⟩, ⟨hm, hb'⟩, ha⟩
      simp only at hb' ha
      subst hb'; subst ha; exact hm
    · intro hm; exact ⟨(i, j), ⟨hm, rfl⟩, rfl⟩
  refine ⟨fun s hs => by have := hb s hs; omega, ?_, ?_⟩
  · intro j hj
    obtain ⟨r, hr, hmem⟩ := hrow j hj
    refine ⟨r, hr, hmem, ?_⟩
    obtain ⟨a, ha⟩ := hc.2 j (by omega)
    intro hnil
    have := (hmem a).mpr ha
    rw [hnil] at this
    simp at this
  · intro i hi
    obtain ⟨b, hb'⟩ := hc.1 i (by omega)
    have hbj : b < n1 := by have := hb _ hb'; simp only at this; omega
    obtain ⟨r, hr, hmem⟩ := hrow b hbj
    exact ⟨b, r, hr, (hmem i).mpr hb'⟩

end TV.DTW
