import TracklibVerif.Lemmas.Geo
/-! Helper lemmas for C14, whole-track conversions (`Track.toENU/toGeo/toECEF` of the model): which base is used and
recorded, and the round trips through the recorded base. Valid for every `Trig ℝ` with `sin² + cos² = 1`. -/
namespace TV.Geo
open Real

theorem mapPts_ok {α : Type} [Add α] [Sub α] [Mul α] [Div α] [Neg α] [OfScientific α] (f : V3 α → V3 α) (l : List (V3 α)) :
    mapPts (fun p => Except.ok (f p)) l = .ok (l.map f) := by
  induction l with
  | nil => rfl
  | cons p ps ih => simp only [mapPts, ih, List.map_cons]; rfl

variable (T : Trig ℝ)

/-- `Track.toENUCoords(base)` on a Geo track: every position goes through `geoToEnu · base`, and the base recorded is the
base used, as `GeoCoords` -/
theorem toENU_geo_pt (t : Track ℝ) (hk : t.kind = .geo) (hne : t.pts ≠ []) (b : Base ℝ) :
    t.toENU T (some (.pt b)) = .ok ⟨.enu, t.pts.map (fun g => geoToEnu T g b), some (.pt (.geo (b.toGeo T)))⟩ := by
  obtain ⟨k, pts, base⟩ := t
  simp only at hk hne
  subst hk
  cases pts with
  | nil => exact absurd rfl hne
  | cons p ps =>
    simp only [Track.toENU, geoToEnuArg]
    rw [mapPts_ok]
    rfl

theorem toENU_ecef_pt (t : Track ℝ) (hk : t.kind = .ecef) (hne : t.pts ≠ []) (b : Base ℝ) :
    t.toENU T (some (.pt b)) = .ok ⟨.enu, t.pts.map (fun p => ecefToEnu T p b), some (.pt (.geo (b.toGeo T)))⟩ := by
  obtain ⟨k, pts, base⟩ := t
  simp only at hk hne
  subst hk
  cases pts with
  | nil => exact absurd rfl hne
  | cons p ps =>
    simp only [Track.toENU, ecefToEnuArg]
    rw [mapPts_ok]
    rfl

/-- without argument the base is the first observation -/
theorem toENU_geo_none (t : Track ℝ) (hk : t.kind = .geo) (p : V3 ℝ) (ps : List (V3 ℝ)) (hp : t.pts = p :: ps) :
    t.toENU T none = t.toENU T (some (.pt (.geo p))) := by
  obtain ⟨k, pts, base⟩ := t
  simp only at hk hp
  subst hk hp
  rfl

theorem toENU_ecef_none (t : Track ℝ) (hk : t.kind = .ecef) (p : V3 ℝ) (ps : List (V3 ℝ)) (hp : t.pts = p :: ps) :
    t.toENU T none = t.toENU T (some (.pt (.ecef p))) := by
  obtain ⟨k, pts, base⟩ := t
  simp only at hk hp
  subst hk hp
  rfl

/-- the base a return conversion uses: the argument, else the recorded one -/
def usedBase (t : Track ℝ) (arg : Option (BaseArg ℝ)) : Option (BaseArg ℝ) :=
  match arg with | some b => some b | none => t.base

theorem toGeo_enu (t : Track ℝ) (hk : t.kind = .enu) (hne : t.pts ≠ []) (b : Base ℝ) (arg : Option (BaseArg ℝ))
    (hb : usedBase t arg = some (.pt b)) :
    t.toGeo T arg = .ok ⟨.geo, t.pts.map (fun q => enuToGeo T q b), t.base⟩ := by
  obtain ⟨k, pts, base⟩ := t
  simp only at hk hne
  subst hk
  cases pts with
  | nil => exact absurd rfl hne
  | cons p ps =>
    cases arg with
    | some a =>
      simp only [usedBase, Option.some.injEq] at hb
      subst hb
      simp only [Track.toGeo, enuToGeoArg]
      rw [mapPts_ok]
      rfl
    | none =>
      simp only [usedBase] at hb
      subst hb
      simp only [Track.toGeo, enuToGeoArg]
      rw [mapPts_ok]
      rfl

theorem toECEF_enu (t : Track ℝ) (hk : t.kind = .enu) (hne : t.pts ≠ []) (b : Base ℝ) (arg : Option (BaseArg ℝ))
    (hb : usedBase t arg = some (.pt b)) :
    t.toECEF T arg = .ok ⟨.ecef, t.pts.map (fun q => enuToEcef T q b), t.base⟩ := by
  obtain ⟨k, pts, base⟩ := t
  simp only at hk hne
  subst hk
  cases pts with
  | nil => exact absurd rfl hne
  | cons p ps =>
    cases arg with
    | some a =>
      simp only [usedBase, Option.some.injEq] at hb
      subst hb
      simp only [Track.toECEF, enuToEcefArg]
      rw [mapPts_ok]
      rfl
    | none =>
      simp only [usedBase] at hb
      subst hb
      simp only [Track.toECEF, enuToEcefArg]
      rw [mapPts_ok]
      rfl

theorem map_id_of {f : V3 ℝ → V3 ℝ} (h : ∀ p, f p = p) (l : List (V3 ℝ)) : l.map f = l := by
  induction l with
  | nil => rfl
  | cons p ps ih => simp [h p, ih]

/-- ECEF track → ENU (any point base) → ECEF with the same base passed again: the positions come back exactly and the
base used is on record -/
theorem track_ecef_enu_ecef (hT : Pyth T) (t : Track ℝ) (hk : t.kind = .ecef) (hne : t.pts ≠ []) (b : Base ℝ) :
    (t.toENU T (some (.pt b))).bind (fun u => u.toECEF T (some (.pt b)))
      = .ok ⟨.ecef, t.pts, some (.pt (.geo (b.toGeo T)))⟩ := by
  rw [toENU_ecef_pt T t hk hne b]
  simp only [Except.bind]
  rw [toECEF_enu T _ rfl (by simpa using hne) b (some (.pt b)) rfl]
  simp only [List.map_map]
  rw [map_id_of (fun p => by simp only [Function.comp]; exact enuToEcef_ecefToEnu' T hT p b)]

/-- Geo track → ENU with a `GeoCoords` base → ECEF *without* argument (the recorded base is used): exactly the direct
Geo → ECEF conversion of every position -/
theorem track_geo_enu_ecef (hT : Pyth T) (t : Track ℝ) (hk : t.kind = .geo) (hne : t.pts ≠ []) (c : V3 ℝ) :
    (t.toENU T (some (.pt (.geo c)))).bind (fun u => u.toECEF T none)
      = .ok ⟨.ecef, t.pts.map (geoToEcef T), some (.pt (.geo c))⟩ := by
  rw [toENU_geo_pt T t hk hne (.geo c)]
  simp only [Except.bind]
  rw [toECEF_enu T _ rfl (by simpa using hne) (.geo c) none rfl]
  simp only [List.map_map]
  have : List.map ((fun q => enuToEcef T q (Base.geo c)) ∘ fun g => geoToEnu T g (Base.geo c)) t.pts
      = List.map (geoToEcef T) t.pts := by
    apply List.map_congr_left
    intro g _
    exact enuToEcef_geoToEnu' T hT g (.geo c)
  rw [this]
  rfl

/-- Geo track → ENU (any point base `b`) → Geo with the base the track recorded or the same `b` passed again, provided
that base is the one used (`hb`): every position is its own Geo → ECEF → Geo image; the local frame adds nothing -/
theorem track_geo_enu_geo (hT : Pyth T) (t : Track ℝ) (hk : t.kind = .geo) (hne : t.pts ≠ []) (b : Base ℝ)
    (arg : Option (BaseArg ℝ))
    (hb : arg = some (.pt b) ∨ (arg = none ∧ ∃ c, b = .geo c)) :
    (t.toENU T (some (.pt b))).bind (fun u => u.toGeo T arg)
      = .ok ⟨.geo, t.pts.map (fun g => ecefToGeo T (geoToEcef T g)), some (.pt (.geo (b.toGeo T)))⟩ := by
  rw [toENU_geo_pt T t hk hne b]
  simp only [Except.bind]
  have hu : usedBase ⟨.enu, t.pts.map (fun g => geoToEnu T g b), some (.pt (.geo (b.toGeo T)))⟩ arg = some (.pt b) := by
    rcases hb with h | ⟨h, c, hc⟩
    · subst h; rfl
    · subst h hc; rfl
  rw [toGeo_enu T _ rfl (by simpa using hne) b arg hu]
  simp only [List.map_map]
  have : List.map ((fun q => enuToGeo T q b) ∘ fun g => geoToEnu T g b) t.pts
      = List.map (fun g => ecefToGeo T (geoToEcef T g)) t.pts := by
    apply List.map_congr_left
    intro g _
    exact enuToGeo_geoToEnu' T hT g b
  rw [this]
end TV.Geo
