import TracklibVerif.Model.DTWReal
import TracklibVerif.Lemmas.DTWFront
/-! Helper lemmas for the front ends with an exponent that is any positive number (`Model/DTWReal.lean`): on the arguments of
`Model/DTWTable.lean` they are the old front ends; `_p2weight` on a number that is not a natural number; what `warpW` returns. -/
namespace TV.DTW
set_option linter.unusedSimpArgs false

section frontX
variable {α : Type} [Add α] [Sub α] [Mul α] [Div α] [Neg α] [LT α] [LE α] [DecidableLT α] [DecidableLE α] [OfNat α 0] [OfNat α 1]
  [OfScientific α]

omit [Sub α] [Div α] [Neg α] [LE α] [DecidableLE α] [OfScientific α] in
/-- on an argument whose value is a natural number or infinity, `p2weightX` is `p2weight` -/
theorem p2weightX_toX (pow : α → α → α) (p : PArg) : p2weightX pow (p.toX (α := α)) = p2weight p := by
  have h1 : (p.toX (α := α)).isFn = p.isFn := rfl
  have h2 : (p.toX (α := α)).isNum = p.isNum := rfl
  unfold p2weightX p2weight
  rw [h1, h2]
  generalize p.isFn = f
  generalize p.isNum = n
  obtain ⟨ty, val, fnw⟩ := p
  simp only [PArg.toX, PArgX.isZero, PArgX.isInf]
  cases f <;> cases n <;> cases fnw <;> cases val with
  | none => simp [accOf]
  | some v =>
    cases v with
    | inf => simp [accOf]
    | nat k => cases k <;> simp [accOf]

/-- `warpOn` is `_p2weight(p)` followed by `warpW` -/
theorem warpOn_eq_warpW (G : Geom α) (big : α) (fast : Bool) (p : PArg) (dim : DimArg α) (a : TrackObj α) (t2 : List (Pt α)) :
    warpOn G big fast p dim a t2 = (p2weight p).bind (fun w => warpW G big fast w dim a t2) := rfl

theorem warpOnX_toX (pow : α → α → α) (G : Geom α) (big : α) (fast : Bool) (p : PArg) (dim : DimArg α) (a : TrackObj α)
    (t2 : List (Pt α)) : warpOnX pow G big fast p.toX dim a t2 = warpOn G big fast p dim a t2 := by
  unfold warpOnX
  rw [p2weightX_toX, warpOn_eq_warpW]
  rfl

/-- on the arguments of `Model/DTWTable.lean` `matchBodyX` is `matchBody` -/
theorem matchBodyX_toX (pow : α → α → α) (G : Geom α) (big : α) (mode : Nat) (p : PArg) (dim : DimArg α) (a : TrackObj α)
    (t2 : List (Pt α)) : matchBodyX pow G big mode p.toX dim a t2 = matchBody G big mode p dim a t2 := by
  unfold matchBodyX matchBody
  simp only [warpOnX_toX]

theorem warpCompareX_toX (pow : α → α → α) (G : Geom α) (root : Nat → α → α) (ofNat : Nat → α) (big : α) (fast : Bool) (p : PArg)
    (dim : DimArg α) (a : TrackObj α) (t2 : List (Pt α)) :
    warpCompareX pow G root ofNat big fast p.toX dim a t2 = warpCompare G root ofNat big fast p dim a t2 := by
  unfold warpCompareX warpCompare
  rw [warpOnX_toX]
  cases warpOn G big fast p dim a t2 with
  | error e => rfl
  | ok m =>
    have h1 : (p.toX (α := α)).isFn = p.isFn := rfl
    simp only [bind, Except.bind, h1]
    generalize p.isFn = f
    obtain ⟨ty, val, fnw⟩ := p
    simp only [PArg.toX, PArgX.isZero, PArgX.isInf]
    cases fast <;> cases f <;> cases val with
    | none => simp
    | some v =>
      cases v with
      | inf => simp
      | nat k => cases k <;> simp

/-- … and `compareBodyX` is `compareBody` -/
theorem compareBodyX_toX (pow : α → α → α) (G : Geom α) (root : Nat → α → α) (ofNat : Nat → α) (big : α) (mode : Nat) (p : PArg)
    (dim : DimArg α) (a : TrackObj α) (t2 : List (Pt α)) :
    compareBodyX pow G root ofNat big mode p.toX dim a t2 = compareBody G root ofNat big mode p dim a t2 := by
  unfold compareBodyX compareBody
  simp only [warpCompareX_toX]

omit [Add α] [Sub α] [Mul α] [Div α] [Neg α] [LT α] [LE α] [DecidableLT α] [DecidableLE α] [OfNat α 0] [OfNat α 1] [OfScientific α] in
/-- `_exponent` on an embedded argument is the embedded `_exponent` -/
theorem PArg.toX_exponent (p : PArg) : (p.toX (α := α)).exponent = p.exponent.toX := rfl

/-- **on the arguments of `Model/DTWTable.lean` the front end `matchCallX` that the driver runs is `matchCall`** -/
theorem matchCallX_toX (pow : α → α → α) (G : Geom α) (big : α) (mode : Nat) (p : PArg) (dim : DimArg α) (a : TrackObj α)
    (t2 : List (Pt α)) : matchCallX pow G big mode p.toX dim a t2 = matchCall G big mode p dim a t2 := by
  unfold matchCallX matchCall
  rw [PArg.toX_exponent, matchBodyX_toX]

/-- **… and `compareCallX` is `compareCall`** -/
theorem compareCallX_toX (pow : α → α → α) (G : Geom α) (root : Nat → α → α) (ofNat : Nat → α) (big : α) (mode : Nat) (p : PArg)
    (dim : DimArg α) (a : TrackObj α) (t2 : List (Pt α)) :
    compareCallX pow G root ofNat big mode p.toX dim a t2 = compareCall G root ofNat big mode p dim a t2 := by
  unfold compareCallX compareCall
  rw [PArg.toX_exponent, compareBodyX_toX]

/-- **… and a session `runSeqX` is `runSeq`** -/
theorem runSeqX_toX (pow : α → α → α) (G : Geom α) (root : Nat → α → α) (ofNat : Nat → α) (big : α) :
    ∀ (steps : List (Step α)) (env : List (Option (TrackObj α))),
      runSeqX pow G root ofNat big env (steps.map Step.toX) = runSeq G root ofNat big env steps
  | [], _ => by simp [runSeqX, runSeq]
  | st :: rest, env => by
    simp only [List.map_cons, runSeqX, runSeq, Step.toX, matchCallX_toX, compareCallX_toX]
    cases (env[st.a]?).join with
    | none => simp only [runSeqX_toX pow G root ofNat big rest]
    | some a =>
      cases (env[st.b]?).join with
      | none => simp only [runSeqX_toX pow G root ofNat big rest]
      | some b =>
        simp only []
        split
        · cases matchCall G big st.mode st.p st.dim a b.pts with
          | error e => simp only [runSeqX_toX pow G root ofNat big rest]
          | ok o => simp only [runSeqX_toX pow G root ofNat big rest]
        · exact congrArg _ (runSeqX_toX pow G root ofNat big rest (env ++ [none]))

omit [Sub α] [Div α] [Neg α] [LE α] [DecidableLE α] [OfScientific α] in
/-- `_p2weight(p)` for a number `p = x` that is not a natural number nor infinity and whose type name contains `int` or `float`
(Python `float`, `numpy.float16/32/64`): `lambda A, B: A + B**x` -/
theorem p2weightX_real (pow : α → α → α) (p : PArgX α) (x : α) (hn : p.isNum = true)
    (hv : p.val = some (.real x)) (hx : 0 < x) : p2weightX pow p = .ok (weightX pow (.real x)) := by
  unfold p2weightX PArgX.isZero PArgX.isInf
  simp [hn, hv, accOf, hx]

omit [Sub α] [Div α] [Neg α] [LE α] [DecidableLE α] [OfScientific α] in
/-- a callable `p` computing `A + B**x` is that accumulation -/
theorem p2weightX_real_callable (pow : α → α → α) (p : PArgX α) (x : α) (hf : p.isFn = true) (hn : p.isNum = false)
    (hw : p.fnw = some (.real x)) (hv : p.val = none) (hx : 0 < x) : p2weightX pow p = .ok (weightX pow (.real x)) := by
  unfold p2weightX PArgX.isZero PArgX.isInf
  simp [hf, hn, hv, hw, accOf, hx]

omit [Sub α] [Div α] [Neg α] [LE α] [DecidableLE α] [OfScientific α] in
/-- a number that is not a natural number nor infinity, of a type whose name contains none of `int`, `float`, `function`
(`numpy.longdouble(1.5)`, `Fraction(3, 2)`, `Decimal('1.5')`): UnboundLocalError -/
theorem p2weightX_real_unbound (pow : α → α → α) (p : PArgX α) (x : α) (hf : p.isFn = false) (hn : p.isNum = false)
    (hv : p.val = some (.real x)) : p2weightX pow p = .error "err:UnboundLocalError" := by
  unfold p2weightX PArgX.isZero PArgX.isInf
  simp [hf, hn, hv]

end frontX

section warp
variable {α : Type} [Add α] [Sub α] [Mul α] [Div α] [Neg α] [LinearOrder α] [OfNat α 0] [OfScientific α]

/-- `warpW` on non-empty tracks without features, plain variant: what `_dtw` returns -/
theorem warpW_dtw (G : Geom α) (big : α) (w : α → α → α) (dim : DimArg α) (dist : Pt α → Pt α → α)
    (hd : distanceOf G dim = .ok dist) (t1 t2 : List (Pt α)) (h1 : 0 < t1.length) (h2 : 0 < t2.length) (o : Out α)
    (ho : dtw dist w t1 t2 = some o) : warpW G big false w dim (TrackObj.fresh t1) t2 = .ok o := by
  have hne : t1.isEmpty = false := by cases t1 with | nil => simp at h1 | cons _ _ => rfl
  have hne2 : t2.isEmpty = false := by cases t2 with | nil => simp at h2 | cons _ _ => rfl
  unfold dtw at ho
  unfold warpW
  simp [TrackObj.fresh, hne, hne2, hd, ho]

/-- `warpW` on non-empty tracks without features, fast variant: what `_fdtw` returns -/
theorem warpW_fdtw (G : Geom α) (big : α) (w : α → α → α) (dim : DimArg α) (dist : Pt α → Pt α → α)
    (hd : distanceOf G dim = .ok dist) (t1 t2 : List (Pt α)) (h1 : 0 < t1.length) (h2 : 0 < t2.length) (o : Out α)
    (ho : fdtw dist big w t1 t2 = some o) : warpW G big true w dim (TrackObj.fresh t1) t2 = .ok o := by
  have hne : t1.isEmpty = false := by cases t1 with | nil => simp at h1 | cons _ _ => rfl
  have hne2 : t2.isEmpty = false := by cases t2 with | nil => simp at h2 | cons _ _ => rfl
  unfold fdtw at ho
  unfold warpW
  simp [TrackObj.fresh, hne, hne2, hd, ho]

/-- the plain variant on a track1 that carries earlier feature rows: same result as on a track1 without them -/
theorem warpW_history (G : Geom α) (big : α) (w : α → α → α) (dim : DimArg α) (t1 t2 : List (Pt α)) (rows0 : List (Row α))
    (hl : rows0.length = t1.length) (h1 : 0 < t1.length) (h2 : 0 < t2.length) :
    warpW G big false w dim { pts := t1, rows := rows0 } t2 = warpW G big false w dim (TrackObj.fresh t1) t2 := by
  unfold warpW
  simp only [TrackObj.fresh, Bool.false_eq_true, if_false]
  cases distanceOf G dim with
  | error e => rfl
  | ok dist =>
    simp only []
    rw [dtwOn_eq_dtw dist w rows0 t1 t2 hl h1 h2, dtwOn_eq_dtw dist w (freshRows t1) t1 t2 (by simp [freshRows]) h1 h2]

end warp
/-! ### histories: a track1 that carries the feature rows of an earlier matching -/
section historyX
variable {α : Type} [Add α] [Sub α] [Mul α] [Div α] [Neg α] [LinearOrder α] [OfNat α 0] [OfNat α 1] [OfScientific α]

/-- the plain variant on a track1 that carries earlier feature rows: same result as on a track1 without them -/
theorem warpOnX_history (pow : α → α → α) (G : Geom α) (big : α) (p : PArgX α) (dim : DimArg α) (t1 t2 : List (Pt α))
    (rows0 : List (Row α)) (hl : rows0.length = t1.length) (h1 : 0 < t1.length) (h2 : 0 < t2.length) :
    warpOnX pow G big false p dim { pts := t1, rows := rows0 } t2 = warpOnX pow G big false p dim (TrackObj.fresh t1) t2 := by
  unfold warpOnX
  cases p2weightX pow p with
  | error e => rfl
  | ok w => exact warpW_history G big w dim t1 t2 rows0 hl h1 h2

theorem matchBodyX_history (pow : α → α → α) (G : Geom α) (big : α) (mode : Nat) (hm : mode ≠ 3) (p : PArgX α) (dim : DimArg α)
    (t1 t2 : List (Pt α)) (rows0 : List (Row α)) (hl : rows0.length = t1.length) (h1 : 0 < t1.length) (h2 : 0 < t2.length) :
    matchBodyX pow G big mode p dim { pts := t1, rows := rows0 } t2 = matchBodyX pow G big mode p dim (TrackObj.fresh t1) t2 := by
  unfold matchBodyX
  by_cases m1 : mode = 1
  · simp [m1]
  · by_cases m4 : mode = 4
    · simp only [m1, m4, if_true, if_false]
      exact warpOnX_history pow G big _ dim t1 t2 rows0 hl h1 h2
    · by_cases m2 : mode = 2
      · simp only [m1, m4, m2, if_true, if_false]
        exact warpOnX_history pow G big _ dim t1 t2 rows0 hl h1 h2
      · simp [m1, m4, m2, hm]

theorem compareBodyX_history (pow : α → α → α) (G : Geom α) (root : Nat → α → α) (ofNat : Nat → α) (big : α) (mode : Nat)
    (hm : mode ≠ 107) (p : PArgX α) (dim : DimArg α) (t1 t2 : List (Pt α)) (rows0 : List (Row α)) (hl : rows0.length = t1.length)
    (h1 : 0 < t1.length) (h2 : 0 < t2.length) :
    compareBodyX pow G root ofNat big mode p dim { pts := t1, rows := rows0 } t2
      = compareBodyX pow G root ofNat big mode p dim (TrackObj.fresh t1) t2 := by
  unfold compareBodyX
  split
  · rfl
  · by_cases m8 : mode = 108
    · simp only [m8, if_true]
      unfold warpCompareX
      rw [warpOnX_history pow G big _ dim t1 t2 rows0 hl h1 h2]
    · by_cases m6 : mode = 106
      · rw [if_neg m8, if_pos m6, if_neg m8, if_pos m6]
        unfold warpCompareX
        rw [warpOnX_history pow G big _ dim t1 t2 rows0 hl h1 h2]
      · simp [m8, m6, hm]

theorem warpOnX_rows_length (pow : α → α → α) (G : Geom α) (big : α) (p : PArgX α) (dim : DimArg α) (t1 t2 : List (Pt α))
    (h1 : 0 < t1.length) (h2 : 0 < t2.length) (o : Out α)
    (h : warpOnX pow G big false p dim (TrackObj.fresh t1) t2 = .ok o) : o.rows.length = t1.length := by
  unfold warpOnX warpW at h
  have hne : t1.isEmpty = false := by cases t1 with | nil => simp at h1 | cons _ _ => rfl
  have hne2 : t2.isEmpty = false := by cases t2 with | nil => simp at h2 | cons _ _ => rfl
  cases hp : p2weightX pow p with
  | error e => rw [hp] at h; cases h
  | ok w =>
    rw [hp] at h
    cases hd : distanceOf G dim with
    | error e =>
      rw [hd] at h
      simp [bind, Except.bind, TrackObj.fresh, hne, hne2] at h
    | ok dist =>
      rw [hd] at h
      obtain ⟨rows, he, hlen, _⟩ := dtw_spec dist w t1 t2 h1 h2
      have he' : dtwOn dist w (freshRows t1) t1 t2 = some _ := he
      simp only [bind, Except.bind, TrackObj.fresh, Bool.false_eq_true, if_false, hne, hne2, he'] at h
      cases h
      exact hlen

theorem matchBodyX_rows_length (pow : α → α → α) (G : Geom α) (big : α) (mode : Nat) (hm : mode ≠ 3) (p : PArgX α)
    (dim : DimArg α) (t1 t2 : List (Pt α)) (h1 : 0 < t1.length) (h2 : 0 < t2.length) (o : Out α)
    (h : matchBodyX pow G big mode p dim (TrackObj.fresh t1) t2 = .ok o) : o.rows.length = t1.length := by
  unfold matchBodyX at h
  by_cases m1 : mode = 1
  · simp [m1] at h
  · by_cases m4 : mode = 4
    · simp only [m1, m4, if_true, if_false] at h
      exact warpOnX_rows_length pow G big _ dim t1 t2 h1 h2 o h
    · by_cases m2 : mode = 2
      · simp only [m1, m4, m2, if_true, if_false] at h
        exact warpOnX_rows_length pow G big _ dim t1 t2 h1 h2 o h
      · simp [m1, m4, m2, hm] at h

/-! the same of `matchCallX` / `compareCallX` (`p = _exponent(p)` first) -/

theorem matchCallX_history (pow : α → α → α) (G : Geom α) (big : α) (mode : Nat) (hm : mode ≠ 3) (p : PArgX α) (dim : DimArg α)
    (t1 t2 : List (Pt α)) (rows0 : List (Row α)) (hl : rows0.length = t1.length) (h1 : 0 < t1.length) (h2 : 0 < t2.length) :
    matchCallX pow G big mode p dim { pts := t1, rows := rows0 } t2 = matchCallX pow G big mode p dim (TrackObj.fresh t1) t2 :=
  matchBodyX_history pow G big mode hm p.exponent dim t1 t2 rows0 hl h1 h2

theorem compareCallX_history (pow : α → α → α) (G : Geom α) (root : Nat → α → α) (ofNat : Nat → α) (big : α) (mode : Nat)
    (hm : mode ≠ 107) (p : PArgX α) (dim : DimArg α) (t1 t2 : List (Pt α)) (rows0 : List (Row α)) (hl : rows0.length = t1.length)
    (h1 : 0 < t1.length) (h2 : 0 < t2.length) :
    compareCallX pow G root ofNat big mode p dim { pts := t1, rows := rows0 } t2
      = compareCallX pow G root ofNat big mode p dim (TrackObj.fresh t1) t2 :=
  compareBodyX_history pow G root ofNat big mode hm p.exponent dim t1 t2 rows0 hl h1 h2

theorem matchCallX_rows_length (pow : α → α → α) (G : Geom α) (big : α) (mode : Nat) (hm : mode ≠ 3) (p : PArgX α)
    (dim : DimArg α) (t1 t2 : List (Pt α)) (h1 : 0 < t1.length) (h2 : 0 < t2.length) (o : Out α)
    (h : matchCallX pow G big mode p dim (TrackObj.fresh t1) t2 = .ok o) : o.rows.length = t1.length :=
  matchBodyX_rows_length pow G big mode hm p.exponent dim t1 t2 h1 h2 o h

omit [Add α] [Sub α] [Mul α] [Div α] [Neg α] [LinearOrder α] [OfNat α 0] [OfNat α 1] [OfScientific α] in
/-- `_exponent(p)` of a numpy floating / integer scalar: a Python number of the same value -/
theorem PArgX.exponent_numpy (p : PArgX α) (h : p.isNumpy = true) :
    p.exponent.isFn = false ∧ p.exponent.isNum = true ∧ p.exponent.val = p.val ∧ p.exponent.fnw = p.fnw :=
  ⟨(exponentTy_numpy p.tyname h).1, (exponentTy_numpy p.tyname h).2, rfl, rfl⟩

omit [Add α] [Sub α] [Mul α] [Div α] [Neg α] [LinearOrder α] [OfNat α 0] [OfNat α 1] [OfScientific α] in
theorem PArgX.exponent_other (p : PArgX α) (h : p.isNumpy = false) : p.exponent = p := by
  obtain ⟨ty, v, f⟩ := p
  simp only [PArgX.exponent]
  rw [exponentTy_other ty h]

omit [Add α] [Sub α] [Mul α] [Div α] [Neg α] [LinearOrder α] [OfNat α 0] [OfNat α 1] [OfScientific α] in
/-- `_exponent` does not change whether `p` is a callable -/
theorem PArgX.exponent_isFn (p : PArgX α) : p.exponent.isFn = p.isFn := by
  cases h : p.isNumpy with
  | false => rw [PArgX.exponent_other p h]
  | true => rw [(PArgX.exponent_numpy p h).1]; exact (isNumpy_not_fn p.tyname h).symm

end historyX

end TV.DTW
