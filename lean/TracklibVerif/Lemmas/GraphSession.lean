import TracklibVerif.Lemmas.GraphPath
import TracklibVerif.Model.GraphSession
/-! Lemmas for C06 about one `Network` object used for a sequence of calls (`Model/GraphSession.lean`):
`__resetFlags` makes every search start from the clean labelling whatever the earlier calls left, so every call
answers with the pure functions of `Model/Graph.lean` applied to the graph as it is at that moment. -/
namespace TV.Graph
variable {W : Type} [LinearOrder W] [Add W] [Zero W] [WalkAdd W]

/-! ### `__resetFlags` -/

theorem resetFlags_spec (order : List Nat) (st : St W) :
    (∀ z, (resetFlags order st).d z = if z ∈ order then none else st.d z) ∧
    (∀ z, (resetFlags order st).vis z = if z ∈ order then false else st.vis z) ∧
    (∀ z, (resetFlags order st).pred z = if z ∈ order then none else st.pred z) := by
  induction order generalizing st with
  | nil => simp [resetFlags]
  | cons v r ih =>
    have hstep : resetFlags (v :: r) st = resetFlags r (resetOne st v) := by
      simp [resetFlags, List.foldl_cons]
    rw [hstep]
    obtain ⟨a, b, c⟩ := ih (resetOne st v)
    refine ⟨?_, ?_, ?_⟩
    · intro z; rw [a z]; simp only [resetOne]
      by_cases hr : z ∈ r
      · simp [hr]
      · by_cases hv : z = v
        · simp [hv]
        · simp [hr, hv]
    · intro z; rw [b z]; simp only [resetOne]
      by_cases hr : z ∈ r
      · simp [hr]
      · by_cases hv : z = v
        · simp [hv]
        · simp [hr, hv]
    · intro z; rw [c z]; simp only [resetOne]
      by_cases hr : z ∈ r
      · simp [hr]
      · by_cases hv : z = v
        · simp [hv]
        · simp [hr, hv]

/-- the flags of ids that are not (yet) nodes of the network: no such `Node` object has been labelled -/
def CleanOutside (order : List Nat) (st : St W) : Prop :=
  ∀ v, v ∉ order → st.d v = none ∧ st.vis v = false ∧ st.pred v = none

theorem St.ext' (a b : St W) (h1 : a.d = b.d) (h2 : a.vis = b.vis) (h3 : a.pred = b.pred) : a = b := by
  cases a; cases b; simp only [St.mk.injEq]; exact ⟨h1, h2, h3⟩

/-- whatever flags the earlier calls left on the nodes, the search starts from the labelling
"source 0, everything else unlabelled, unvisited, without predecessor" -/
theorem start_clean (order : List Nat) (st : St W) (s : Nat) (h : CleanOutside order st) :
    startFlags order st s = St.init s := by
  obtain ⟨a, b, c⟩ := resetFlags_spec order st
  apply St.ext'
  · funext z
    simp only [startFlags, St.init]
    by_cases hz : z = s
    · simp [hz]
    · simp only [hz, if_false]
      rw [a z]
      by_cases ho : z ∈ order
      · simp [ho]
      · simp only [ho, if_false]; exact (h z ho).1
  · funext z
    simp only [startFlags, St.init]
    rw [b z]
    by_cases ho : z ∈ order
    · simp [ho]
    · simp only [ho, if_false]; exact (h z ho).2.1
  · funext z
    simp only [startFlags, St.init]
    rw [c z]
    by_cases ho : z ∈ order
    · simp [ho]
    · simp only [ho, if_false]; exact (h z ho).2.2

/-! ### the session invariant -/

theorem mem_addNodeTo (o : List Nat) (v z : Nat) : z ∈ addNodeTo o v ↔ (z ∈ o ∨ z = v) := by
  unfold addNodeTo
  split
  · rename_i h
    have hv : v ∈ o := by simpa using h
    constructor
    · intro hz; exact Or.inl hz
    · rintro (hz | hz)
      · exact hz
      · rw [hz]; exact hv
  · simp

structure SessOK (σ : Sess W) : Prop where
  wf : WFNet σ.net
  nodes : ∀ v ∈ σ.order, v < σ.net.n
  ends : ∀ e ∈ σ.net.edges, e.src ∈ σ.order ∧ e.tgt ∈ σ.order
  clean : CleanOutside σ.order σ.flags

theorem walk_in_order {net : Net W} {order : List Nat} (hends : ∀ e ∈ net.edges, e.src ∈ order ∧ e.tgt ∈ order)
    {s v : Nat} {c : W} (hs : s ∈ order) (hw : Walk net s v c) : v ∈ order := by
  induction hw with
  | nil => exact hs
  | snoc _ ha _ =>
    obtain ⟨e, he, _, h⟩ := ha
    rcases h with ⟨_, _, h3⟩ | ⟨_, _, h3⟩
    · rw [← h3]; exact (hends e he).2
    · rw [← h3]; exact (hends e he).1

/-- a search on the object is the pure search on the current graph, and leaves clean flags outside `NODES` -/
theorem routeOn_eq (net : Net W) (hnet : WFNet net) (order : List Nat) (hnodes : ∀ v ∈ order, v < net.n)
    (hends : ∀ e ∈ net.edges, e.src ∈ order ∧ e.tgt ∈ order) (st : St W) (hclean : CleanOutside order st)
    (s : Nat) (hs : s ∈ order) (tgt : Option Nat) (cut : Option W) :
    routeOn net order st s tgt cut = runForward net s tgt cut ∧
    CleanOutside order (runForward net s tgt cut).1 := by
  constructor
  · unfold routeOn runForward
    rw [start_clean order st s hclean]
  · obtain ⟨hinv, rk, K, hp⟩ := forward_good net hnet s tgt cut net.n (St.init s) [] (good_init net s (hnodes s hs))
    intro v hv
    have hd : (runForward net s tgt cut).1.d v = none := by
      cases h : (runForward net s tgt cut).1.d v with
      | none => rfl
      | some y => exact absurd (walk_in_order hends hs (hinv.j3 v y h)) hv
    refine ⟨hd, ?_, ?_⟩
    · cases h : (runForward net s tgt cut).1.vis v with
      | false => rfl
      | true =>
        obtain ⟨x, hx⟩ := hinv.j5 v h
        have : (runForward net s tgt cut).1.d v = some x := hx
        rw [hd] at this; cases this
    · cases h : (runForward net s tgt cut).1.pred v with
      | none => rfl
      | some p =>
        obtain ⟨a, i⟩ := p
        obtain ⟨_, _, e, _, _, _, x, _, hx⟩ := hp.p2 v a i h
        have : (runForward net s tgt cut).1.d v = some (x + e.w) := hx
        rw [hd] at this; cases this

/-- `all_shortest_distances` on the object fills the table as the pure function does -/
theorem allOn_eq (net : Net W) (hnet : WFNet net) (order : List Nat) (hnodes : ∀ v ∈ order, v < net.n)
    (hends : ∀ e ∈ net.edges, e.src ∈ order ∧ e.tgt ∈ order) (cut : Option W)
    (st : St W) (tb : Table W) (hclean : CleanOutside order st) :
    (allOn net order cut (st, tb)).2 = allShortestDistances net order cut tb ∧
    CleanOutside order (allOn net order cut (st, tb)).1 := by
  unfold allOn allShortestDistances
  have key : ∀ (l : List Nat), (∀ s ∈ l, s ∈ order) → ∀ (st : St W) (tb : Table W), CleanOutside order st →
      (l.foldl (fun x s => let r := routeOn net order x.1 s none cut; (r.1, record x.2 s r.2)) (st, tb)).2 =
        l.foldl (fun tb s => record tb s (runForward net s none cut).2) tb ∧
      CleanOutside order
        (l.foldl (fun x s => let r := routeOn net order x.1 s none cut; (r.1, record x.2 s r.2)) (st, tb)).1 := by
    intro l
    induction l with
    | nil => intro _ st tb h; exact ⟨rfl, h⟩
    | cons s0 r ih =>
      intro hl st tb h
      simp only [List.foldl_cons]
      obtain ⟨e1, e2⟩ := routeOn_eq net hnet order hnodes hends st h s0 (hl s0 List.mem_cons_self) none cut
      rw [e1]
      exact ih (fun s hs => hl s (List.mem_cons_of_mem _ hs)) _ _ e2
  exact key order (fun s hs => hs) st tb hclean

theorem contains_iff (l : List Nat) (v : Nat) : l.contains v = true ↔ v ∈ l := by simp

/-- every call keeps the invariant -/
theorem exec_ok (σ : Sess W) (h : SessOK σ) (op : Op W) : SessOK (exec σ op).1 := by
  have search : ∀ s tgt cut, s ∈ σ.order →
      CleanOutside σ.order (routeOn σ.net σ.order σ.flags s tgt cut).1 := by
    intro s tgt cut hs
    obtain ⟨e1, e2⟩ := routeOn_eq σ.net h.wf σ.order h.nodes h.ends σ.flags h.clean s hs tgt cut
    rw [e1]; exact e2
  cases op with
  | addNode v =>
    simp only [exec]
    split
    · rename_i hv
      refine ⟨h.wf, ?_, ?_, ?_⟩
      · intro z hz
        rcases (mem_addNodeTo _ _ _).1 hz with hz | hz
        · exact h.nodes z hz
        · rw [hz]; exact hv
      · intro e he
        exact ⟨(mem_addNodeTo _ _ _).2 (Or.inl (h.ends e he).1), (mem_addNodeTo _ _ _).2 (Or.inl (h.ends e he).2)⟩
      · intro z hz
        exact h.clean z (fun hz' => hz ((mem_addNodeTo _ _ _).2 (Or.inl hz')))
    · exact h
  | addEdge e =>
    simp only [exec]
    split
    · rename_i hc
      simp only [Bool.and_eq_true, decide_eq_true_eq, Bool.not_eq_true', decide_eq_false_iff_not] at hc
      obtain ⟨⟨⟨h1, h2⟩, h3⟩, _⟩ := hc
      refine ⟨?_, ?_, ?_, ?_⟩
      · intro e' he'
        simp only [List.mem_append, List.mem_singleton] at he'
        rcases he' with he' | rfl
        · exact h.wf e' he'
        · exact ⟨h1, h2, not_lt.mp h3⟩
      · intro z hz
        simp only [mem_addNodeTo] at hz
        rcases hz with (hz | hz) | hz
        · exact h.nodes z hz
        · rw [hz]; exact h1
        · rw [hz]; exact h2
      · intro e' he'
        simp only [List.mem_append, List.mem_singleton] at he'
        simp only [mem_addNodeTo]
        rcases he' with he' | rfl
        · exact ⟨Or.inl (Or.inl (h.ends e' he').1), Or.inl (Or.inl (h.ends e' he').2)⟩
        · exact ⟨Or.inl (Or.inr rfl), Or.inr rfl⟩
      · intro z hz
        simp only [mem_addNodeTo, not_or] at hz
        exact h.clean z hz.1.1
    · exact h
  | route s t cut ud =>
    have hs : σ.order.contains s = true → SessOK
        ({ σ with flags := (routeOn σ.net σ.order σ.flags s t cut).1,
                  udict := if ud then record σ.udict s (routeOn σ.net σ.order σ.flags s t cut).2 else σ.udict } : Sess W) :=
      fun hc => ⟨h.wf, h.nodes, h.ends, search s t cut ((contains_iff _ _).1 hc)⟩
    cases t with
    | none =>
      simp only [exec, Bool.and_true]
      split
      · rename_i hc; exact hs hc
      · exact h
    | some t =>
      simp only [exec]
      split
      · rename_i hc
        simp only [Bool.and_eq_true] at hc
        exact hs hc.1
      · exact h
  | dist s t cut ud =>
    simp only [exec]
    split
    · rename_i hc
      simp only [Bool.and_eq_true, contains_iff] at hc
      exact ⟨h.wf, h.nodes, h.ends, search s (some t) cut hc.1⟩
    · exact h
  | distList s cut ud =>
    simp only [exec]
    split
    · rename_i hc
      simp only [contains_iff] at hc
      exact ⟨h.wf, h.nodes, h.ends, search s none cut hc⟩
    · exact h
  | all cut ud =>
    simp only [exec]
    exact ⟨h.wf, h.nodes, h.ends, (allOn_eq σ.net h.wf σ.order h.nodes h.ends cut σ.flags _ h.clean).2⟩
  | prepare cut =>
    simp only [exec]
    exact ⟨h.wf, h.nodes, h.ends, (allOn_eq σ.net h.wf σ.order h.nodes h.ends cut σ.flags _ h.clean).2⟩
  | prepared s t =>
    simp only [exec]
    split <;> exact h
  | hasPrepared s t =>
    simp only [exec]
    split <;> exact h
  | sub s cut =>
    simp only [exec]
    split
    · rename_i hc
      simp only [contains_iff] at hc
      exact ⟨h.wf, h.nodes, h.ends, search s none cut hc⟩
    · exact h
  | saveLoad =>
    simp only [exec]
    split <;> exact h

theorem new_ok (n : Nat) : SessOK (Sess.new n : Sess W) := by
  refine ⟨?_, ?_, ?_, ?_⟩
  · intro e he; simp [Sess.new] at he
  · intro v hv; simp [Sess.new] at hv
  · intro e he; simp [Sess.new] at he
  · intro v _; simp [Sess.new, St.clean]

theorem stateAfter_ok (σ : Sess W) (h : SessOK σ) (ops : List (Op W)) : SessOK (stateAfter σ ops) := by
  induction ops generalizing σ with
  | nil => exact h
  | cons op rest ih => exact ih _ (exec_ok σ h op)
end TV.Graph
