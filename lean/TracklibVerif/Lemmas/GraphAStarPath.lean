import TracklibVerif.Lemmas.GraphAStarFix
import TracklibVerif.Lemmas.GraphBack
/-! Lemmas for C07 in A* mode: the predecessor structure (`antecedent`, `antecedent_edge`) left by the A* forward pass
(`forwardH`: label `g`, queue priority `g + h`) is tight and well-founded WHATEVER the heuristic — the order in which the
queue is emptied plays no part in it — so `run_routing_backward` returns a real route whose weights sum to the label of its
last node. Optimality of that label is `Lemmas/GraphAStarFix.lean` (consistent heuristic). -/
set_option linter.unusedSectionVars false
namespace TV.Graph
section any
variable {W : Type} [LinearOrder W] [Add W] [Zero W] [WalkAdd W] {P : Type}

/-- invariants of the loop that do not depend on the order in which the queue is emptied: the source carries the label 0,
settled nodes are labelled, labels are non-negative -/
structure InvB (s : Nat) (st : St W) : Prop where
  b1 : st.d s = some 0
  b5 : ∀ u, st.vis u = true → ∃ x, st.d u = some x
  b7 : ∀ v y, st.d v = some y → 0 ≤ y

theorem invB_init (s : Nat) : InvB s (St.init s : St W) := by
  refine ⟨by simp [St.init], ?_, ?_⟩
  · intro u hu; simp [St.init] at hu
  · intro v y hv
    simp only [St.init] at hv
    split at hv
    · cases hv; exact le_refl _
    · cases hv

theorem settle_invB (net : Net W) (hnet : WFNet net) (s : Nat) (st : St W) (hinv : InvB s st) (u : Nat) (du : W)
    (hud : st.d u = some du) : InvB s (settle net st u du) := by
  obtain ⟨s1, s2, s3, s4⟩ := settle_spec net st u du
  have b7' : ∀ v y, (settle net st u du).d v = some y → 0 ≤ y := by
    intro v y hv
    rcases s4 v y hv with h' | ⟨e, he, _, h2, _⟩
    · exact hinv.b7 v y h'
    · have hm : e ∈ net.edges := by simp only [nextEdges, List.mem_filter] at he; exact he.1
      rw [h2]
      exact le_trans (hinv.b7 u du hud) (WalkAdd.le_add_right _ _ (hnet e hm).2.2)
  refine ⟨?_, ?_, b7'⟩
  · obtain ⟨y', h1, h2⟩ := s3 s 0 hinv.b1
    rw [h1]; congr 1; exact le_antisymm h2 (b7' s y' h1)
  · intro x hx
    by_cases hxu : x = u
    · subst hxu; exact ⟨du, by rw [s2 x (Or.inl rfl)]; exact hud⟩
    · have hx_old : st.vis x = true := by rw [s1 x] at hx; simpa [hxu] using hx
      obtain ⟨a, ha⟩ := hinv.b5 x hx_old
      exact ⟨a, by rw [s2 x (Or.inr hx_old)]; exact ha⟩

/-- `settle_pinv` (`Lemmas/GraphPath.lean`) for ANY unsettled labelled node `u` — whichever the queue hands out -/
theorem settle_pinv_any (net : Net W) (hnet : WFNet net) (s : Nat) (st : St W) (rk : Nat → Nat) (K : Nat)
    (hinv : InvB s st) (hp : PInv net s st rk K) (u : Nat) (du : W)
    (hu : u < net.n) (huv : st.vis u = false) (hud : st.d u = some du) :
    PInv net s (settle net st u du) (fun z => if z = u then K else rk z) (K + 1) := by
  obtain ⟨s1, s2, _, _⟩ := settle_spec net st u du
  obtain ⟨q2, q3, q4⟩ := settle_pred net st u du
  refine ⟨?_, ?_, ?_, ?_, ?_, ?_⟩
  · -- p1
    cases hps : (settle net st u du).pred s with
    | none => rfl
    | some p =>
      obtain ⟨a, i⟩ := p
      rcases q2 s a i hps with ⟨h, _⟩ | ⟨_, _, e, he, _, _, _, _, h5⟩
      · rw [hp.p1] at h; cases h
      · have hw : 0 ≤ e.w := by
          have : e ∈ net.edges := by simp only [nextEdges, List.mem_filter] at he; exact he.1
          exact (hnet e this).2.2
        have := h5 0 hinv.b1
        exact absurd (lt_of_le_of_lt (le_trans (hinv.b7 u du hud) (WalkAdd.le_add_right _ _ hw)) this) (lt_irrefl _)
  · -- p2
    intro v a i hpv
    rcases q2 v a i hpv with ⟨h, hd⟩ | ⟨rfl, hva, e, he, h1, h2, h3, h4, _⟩
    · obtain ⟨g0, g1, e, he, g2, g3, x, g4, g5⟩ := hp.p2 v a i h
      refine ⟨g0, by rw [s1]; split <;> simp [g1], e, he, g2, g3, x, ?_, ?_⟩
      · rw [s2 a (Or.inr g1)]; exact g4
      · rw [hd]; exact g5
    · refine ⟨fun h => hva h.symm, by rw [s1]; simp, e, he, h1, h2, du, ?_, h4⟩
      rw [s2 a (Or.inl rfl)]; exact hud
  · -- p3
    intro v y hvs hd
    rcases q3 v with h | ⟨h1, h2⟩
    · exact h
    · rw [h2]; rw [h1] at hd; exact hp.p3 v y hvs hd
  · -- p4
    intro a ha
    rw [s1] at ha
    by_cases hau : a = u
    · simp [hau]
    · simp only [hau, if_false] at ha ⊢
      have := hp.p4 a ha; omega
  · -- p5
    intro v a i hpv hvv
    rw [s1] at hvv
    by_cases hvu : v = u
    · subst hvu
      rw [q4 v (Or.inl rfl)] at hpv
      obtain ⟨g0, g1, _⟩ := hp.p2 v a i hpv
      have := hp.p4 a g1
      simp [g0, this]
    · simp only [hvu, if_false] at hvv
      rw [q4 v (Or.inr hvv)] at hpv
      obtain ⟨_, g1, _⟩ := hp.p2 v a i hpv
      have hau : a ≠ u := by intro h; rw [h, huv] at g1; cases g1
      simp only [hau, hvu, if_false]
      exact hp.p5 v a i hpv hvv
  · -- p6
    have hc := cnt_mark st (settle net st u du) u huv s1 net.n
    simp only [hu, if_true] at hc
    have := hp.p6
    omega

/-- what `run_routing_backward` needs of the flags: the order-independent invariants and the predecessor invariant -/
def GoodH (net : Net W) (s : Nat) (st : St W) : Prop :=
  InvB s st ∧ InvA net s st ∧ ∃ rk K, PInv net s st rk K

theorem goodH_init (net : Net W) (s : Nat) (hs : s < net.n) : GoodH net s (St.init s) :=
  ⟨invB_init s, invA_init net s hs, _, _, pinv_init net s⟩

/-- the flags left by `run_routing_forward` in A* mode, ANY heuristic, any target, any cut-off -/
theorem forwardH_goodH (net : Net W) (hnet : WFNet net) (h : Nat → W) (s : Nat) (hs : s < net.n) (tgt : Option Nat)
    (cut : Option W) : GoodH net s (runForwardH net h s tgt cut).1 := by
  unfold runForwardH
  rw [forwardH_eq_loopG]
  refine loopG_preserves _ _ (GoodH net s) ?_ tgt cut net.n (St.init s) [] (goodH_init net s hs)
  intro st u du hg hpop
  obtain ⟨hb, ha, rk, K, hpi⟩ := hg
  obtain ⟨hu, huv, hud⟩ := popKey_facts hpop
  exact ⟨settle_invB net hnet s st hb u du hud, settle_invA net hnet s st ha u du hud, _, _,
    settle_pinv_any net hnet s st rk K hb hpi u du hu huv hud⟩

/-- `backAux_spec` (`Lemmas/GraphBack.lean`) from the order-independent invariants -/
theorem backAux_spec_any (net : Net W) (hu : UniqueIds net) (geo : Geo P) (s : Nat) (st : St W) (rk : Nat → Nat) (K : Nat)
    (hinv : InvB s st) (hp : PInv net s st rk K) (f v : Nat) (nodes : List Nat) (track : List P)
    (hv : st.vis v = true) (hf : rk v < f) :
    ∃ l g g' y, st.d v = some y ∧ Route net geo s l g g' v y ∧
      backAux net geo st f v nodes track = .path (l ++ nodes.reverse) (g ++ track.reverse) := by
  induction f generalizing v nodes track with
  | zero => omega
  | succ f ih =>
    cases hpv : st.pred v with
    | none =>
      have hvs : v = s := by
        by_contra hne
        obtain ⟨x, hx⟩ := hinv.b5 v hv
        have := hp.p3 v x hne hx
        rw [hpv] at this; cases this
      subst hvs
      refine ⟨[], [], [], 0, hinv.b1, Route.nil, ?_⟩
      unfold backAux
      simp [hpv]
    | some p =>
      obtain ⟨a, i⟩ := p
      obtain ⟨_, hva, _⟩ := hp.p2 v a i hpv
      have hlt := hp.p5 v a i hpv hv
      exact backAux_step net hu geo s st rk K hp f v nodes track a i hpv
        (fun nodes' track' => ih a nodes' track' hva (by omega))

/-- `run_routing_backward(t)` on the flags of an A* search (any heuristic): `None` when `t` has no antecedent, else a route
from the source whose weights sum to the label of `t`, with its geometry chained -/
theorem runBackward_spec_any (net : Net W) (hu : UniqueIds net) (geo : Geo P) (s : Nat) (st : St W)
    (hg : GoodH net s st) (t : Nat) :
    (st.pred t = none → runBackward net geo st t = .none) ∧
    (∀ p, st.pred t = some p → ∃ l g g' y, st.d t = some y ∧ Route net geo s l g g' t y ∧
        runBackward net geo st t = .path (l ++ [t]) (g ++ [geo.pos t])) := by
  obtain ⟨hinv, _, rk, K, hp⟩ := hg
  constructor
  · intro h; unfold runBackward; rw [h]
  · intro p hpt
    obtain ⟨a, i⟩ := p
    obtain ⟨_, hva, _⟩ := hp.p2 t a i hpt
    have hK : rk a < net.n := by
      have := hp.p4 a hva
      have := hp.p6
      omega
    obtain ⟨l, g, g', y, h1, h2, h3⟩ := backAux_step net hu geo s st rk K hp net.n t [t] [geo.pos t] a i hpt
      (fun nodes' track' => backAux_spec_any net hu geo s st rk K hinv hp net.n a nodes' track' hva hK)
    refine ⟨l, g, g', y, h1, h2, ?_⟩
    unfold runBackward
    rw [hpt]
    simpa using h3
end any
end TV.Graph
