import TracklibVerif.Model.Cinematics
import Mathlib.Algebra.Order.Field.Basic
import Mathlib.Tactic.Ring
import Mathlib.Tactic.Linarith
import Mathlib.Algebra.BigOperators.Group.List.Basic
/-! Helper lemmas for C17 (model: `Model/Cinematics.lean`). -/
namespace TV.Cinematics
variable {α : Type}

/-! ### the feature map -/
section table

theorem has_eq_false_iff (t : Track α) (n : String) : t.has n = false ↔ ∀ p ∈ t.feats, p.1 ≠ n := by
  unfold Track.has
  rw [List.any_eq_false]
  constructor
  · intro h p hp; have := h p hp; simpa using this
  · intro h p hp; have := h p hp; simpa using this

theorem has_set_self (t : Track α) (n : String) (c : Col α) : (t.set n c).has n = true := by
  unfold Track.set
  split
  · rename_i h
    unfold Track.has at h ⊢
    simp only [List.any_eq_true] at h ⊢
    obtain ⟨p, hp, hpn⟩ := h
    refine ⟨(p.1, c), ?_, by simpa using hpn⟩
    simp only [List.mem_map]
    exact ⟨p, hp, by simp [hpn]⟩
  · unfold Track.has; simp

theorem has_set_other (t : Track α) (n m : String) (c : Col α) (h : n ≠ m) : (t.set n c).has m = t.has m := by
  unfold Track.set
  split
  · unfold Track.has
    simp only [List.any_map]
    congr 1
    funext p
    simp only [Function.comp]
    split <;> simp_all
  · unfold Track.has
    simp [h]

theorem has_remove_self (t : Track α) (n : String) : (t.remove n).has n = false := by
  unfold Track.remove Track.has
  simp [List.any_eq_false]

theorem has_remove_other (t : Track α) (n m : String) (h : n ≠ m) : (t.remove n).has m = t.has m := by
  unfold Track.remove Track.has
  simp only [List.any_filter]
  congr 1
  funext p
  by_cases hp : p.1 = m
  · have : p.1 ≠ n := by rw [hp]; exact fun e => h e.symm
    simp [hp, this, h.symm]
  · simp [hp]

theorem find_map_self (F : List (String × Col α)) (n : String) (c : Col α)
    (h : F.any (fun p => p.1 == n) = true) :
    ((F.map (fun p => if p.1 == n then (p.1, c) else p)).find? (fun p => p.1 == n)).map Prod.snd = some c := by
  induction F with
  | nil => simp at h
  | cons p r ih =>
    by_cases hp : p.1 = n
    · simp [List.find?_cons, hp]
    · have hr : r.any (fun p => p.1 == n) = true := by simpa [List.any_cons, hp] using h
      simpa [List.find?_cons, hp] using ih hr

theorem find_map_other (F : List (String × Col α)) (n m : String) (c : Col α) (h : n ≠ m) :
    ((F.map (fun p => if p.1 == n then (p.1, c) else p)).find? (fun p => p.1 == m)).map Prod.snd
      = (F.find? (fun p => p.1 == m)).map Prod.snd := by
  induction F with
  | nil => simp
  | cons p r ih =>
    by_cases hp : p.1 = n
    · have hpm : ¬ p.1 = m := by rw [hp]; exact h
      simpa [List.find?_cons, hp, h, hpm] using ih
    · by_cases hpm : p.1 = m
      · have hmn : ¬ m = n := fun e => h e.symm
        simp [List.find?_cons, hpm, hmn]
      · simpa [List.find?_cons, hp, hpm] using ih

theorem find_filter_other (F : List (String × Col α)) (n m : String) (h : n ≠ m) :
    ((F.filter (fun p => !(p.1 == n))).find? (fun p => p.1 == m)) = F.find? (fun p => p.1 == m) := by
  induction F with
  | nil => simp
  | cons p r ih =>
    by_cases hp : p.1 = n
    · have hpm : ¬ p.1 = m := by rw [hp]; exact h
      simpa [List.filter_cons, List.find?_cons, hp, h, hpm] using ih
    · by_cases hpm : p.1 = m
      · have hmn : ¬ m = n := fun e => h e.symm
        simp [List.filter_cons, hpm, hmn]
      · simpa [List.filter_cons, List.find?_cons, hp, hpm] using ih

theorem get_set_self (t : Track α) (n : String) (c : Col α) : (t.set n c).get n = some c := by
  unfold Track.set
  split
  · rename_i h
    exact find_map_self t.feats n c h
  · rename_i h
    have h' := (has_eq_false_iff t n).1 (by simpa using h)
    unfold Track.get
    simp only
    rw [List.find?_append]
    have : t.feats.find? (fun p => p.1 == n) = none := by
      rw [List.find?_eq_none]; intro p hp; simpa using h' p hp
    simp [this]

theorem get_set_other (t : Track α) (n m : String) (c : Col α) (h : n ≠ m) : (t.set n c).get m = t.get m := by
  unfold Track.set
  split
  · exact find_map_other t.feats n m c h
  · unfold Track.get
    simp only
    rw [List.find?_append]
    have hnm : (n == m) = false := by simpa using h
    cases hf : t.feats.find? (fun p => p.1 == m) <;> simp [hnm]

theorem get_remove_other (t : Track α) (n m : String) (h : n ≠ m) : (t.remove n).get m = t.get m := by
  unfold Track.remove Track.get
  simp only
  rw [find_filter_other _ _ _ h]

/-- adding a new feature and removing it again gives the track back -/
theorem remove_set_new (t : Track α) (n : String) (c : Col α) (h : t.has n = false) : (t.set n c).remove n = t := by
  have h' := (has_eq_false_iff t n).1 h
  unfold Track.set
  simp only [h, Bool.false_eq_true, ↓reduceIte]
  unfold Track.remove
  simp only [List.filter_append]
  have : t.feats.filter (fun p => !(p.1 == n)) = t.feats := by
    rw [List.filter_eq_self]; intro p hp; simpa using h' p hp
  simp [this]

theorem set_xy (t : Track α) (n : String) (c : Col α) : (t.set n c).xy = t.xy ∧ (t.set n c).ts = t.ts := by
  unfold Track.set; split <;> simp

end table

section arith
variable [Add α] [Sub α] [Mul α] [Div α] [OfNat α 0] [BEq α]

/-! ### the integrator -/

theorem absc_succ (sqrt : α → α) (xy : List (α × α)) (i : Nat) (h : i + 1 < xy.length) :
    absc sqrt xy (i + 1) = absc sqrt xy i + dist2D sqrt (xy[i + 1]'h) (xy[i]'(Nat.lt_of_succ_lt h)) := by
  have h1 : xy[i + 1]? = some (xy[i + 1]'h) := List.getElem?_eq_getElem h
  have h0 : xy[i]? = some (xy[i]'(Nat.lt_of_succ_lt h)) := List.getElem?_eq_getElem (Nat.lt_of_succ_lt h)
  simp only [absc, h1, h0]

theorem dsAt_succ (sqrt : α → α) (xy : List (α × α)) (i : Nat) (h : i + 1 < xy.length) :
    dsAt sqrt xy (i + 1) = some (dist2D sqrt (xy[i + 1]'h) (xy[i]'(Nat.lt_of_succ_lt h))) := by
  have h1 : xy[i + 1]? = some (xy[i + 1]'h) := List.getElem?_eq_getElem h
  have h0 : xy[i]? = some (xy[i]'(Nat.lt_of_succ_lt h)) := List.getElem?_eq_getElem (Nat.lt_of_succ_lt h)
  simp only [dsAt, Nat.add_one_ne_zero, ↓reduceIte, Nat.add_sub_cancel, h1, h0]

theorem integLoop_ds (sqrt : α → α) (xy : List (α × α)) :
    ∀ m s, s + m < xy.length →
      integLoop (some (absc sqrt xy s)) ((List.range' (s + 1) m).map (dsAt sqrt xy))
        = (List.range' (s + 1) m).map (fun i => some (absc sqrt xy i)) := by
  intro m
  induction m with
  | zero => intro s _; simp [integLoop]
  | succ m ih =>
    intro s h
    have hs : s + 1 < xy.length := by omega
    simp only [List.range'_succ, List.map_cons, integLoop]
    rw [dsAt_succ sqrt xy s hs]
    simp only [oadd]
    rw [← absc_succ sqrt xy s hs]
    congr 1
    exact ih (s + 1) (by omega)

theorem integrator_dsCol (sqrt : α → α) (xy : List (α × α)) :
    integrator (dsCol sqrt xy) = (List.range xy.length).map (fun i => some (absc sqrt xy i)) := by
  unfold dsCol
  cases hn : xy.length with
  | zero => simp [integrator]
  | succ k =>
    rw [List.range_eq_range', List.range'_succ]
    simp only [List.map_cons, integrator]
    congr 1
    have := integLoop_ds sqrt xy k 0 (by omega)
    simpa [absc] using this

/-- what `computeAbsCurv` does on a track that has neither `ds` nor `abs_curv` -/
theorem computeAbsCurv_fresh (sqrt : α → α) (t : Track α) (hds : t.has "ds" = false) (hac : t.has "abs_curv" = false) :
    computeAbsCurv sqrt t
      = (t.set "abs_curv" (integrator (dsCol sqrt t.xy)), some (integrator (dsCol sqrt t.xy))) := by
  have hne : ("ds" : String) ≠ "abs_curv" := by decide
  unfold computeAbsCurv
  simp only [hds, Bool.false_eq_true, ↓reduceIte]
  have h1 : (t.set "ds" (dsCol sqrt t.xy)).has "abs_curv" = false := by rw [has_set_other _ _ _ _ hne]; exact hac
  simp only [h1, Bool.false_eq_true, ↓reduceIte, get_set_self, Option.getD_some, (set_xy t "ds" _).1]
  -- set abs_curv after set ds, then remove ds  =  set abs_curv
  have hrm : ((t.set "ds" (dsCol sqrt t.xy)).set "abs_curv" (integrator (dsCol sqrt t.xy))).remove "ds"
      = t.set "abs_curv" (integrator (dsCol sqrt t.xy)) := by
    have hds' := (has_eq_false_iff t "ds").1 hds
    have hf : t.feats.filter (fun p => !(p.1 == "ds")) = t.feats := by
      rw [List.filter_eq_self]; intro p hp; simpa using hds' p hp
    have e1 : t.set "ds" (dsCol sqrt t.xy) = { t with feats := t.feats ++ [("ds", dsCol sqrt t.xy)] } := by
      unfold Track.set; simp [hds]
    rw [e1]
    have h1' : ({ t with feats := t.feats ++ [("ds", dsCol sqrt t.xy)] } : Track α).has "abs_curv" = false := by
      rw [← e1]; exact h1
    unfold Track.set
    simp only [h1', hac, Bool.false_eq_true, ↓reduceIte]
    unfold Track.remove
    simp [List.filter_append, hf]
  rw [hrm]
  simp [get_set_self]

/-- `computeAbsCurv` on a track that already has `abs_curv` and no `ds`: nothing changes -/
theorem computeAbsCurv_of_has (sqrt : α → α) (u : Track α) (h1 : u.has "ds" = false) (h2 : u.has "abs_curv" = true) :
    computeAbsCurv sqrt u = (u, u.get "abs_curv") := by
  have hne : ("ds" : String) ≠ "abs_curv" := by decide
  unfold computeAbsCurv
  simp only [h1, Bool.false_eq_true, ↓reduceIte]
  have h3 : (u.set "ds" (dsCol sqrt u.xy)).has "abs_curv" = true := by rw [has_set_other _ _ _ _ hne]; exact h2
  simp only [h3, ↓reduceIte, remove_set_new u "ds" _ h1]

theorem computeAbsCurv_has (sqrt : α → α) (t : Track α) :
    (computeAbsCurv sqrt t).1.has "ds" = false ∧ (computeAbsCurv sqrt t).1.has "abs_curv" = true := by
  have hne : ("ds" : String) ≠ "abs_curv" := by decide
  unfold computeAbsCurv
  refine ⟨has_remove_self _ _, ?_⟩
  simp only
  rw [has_remove_other _ _ _ hne]
  generalize (if t.has "ds" = true then t else t.set "ds" (dsCol sqrt t.xy)) = t1
  by_cases h : t1.has "abs_curv" = true
  · simp [h]
  · simp only [h, ↓reduceIte]; exact has_set_self _ _ _

theorem computeAbsCurv_idem (sqrt : α → α) (t : Track α) :
    computeAbsCurv sqrt (computeAbsCurv sqrt t).1 = computeAbsCurv sqrt t := by
  obtain ⟨h1, h2⟩ := computeAbsCurv_has sqrt t
  rw [computeAbsCurv_of_has sqrt _ h1 h2]
  rfl

theorem computeAbsCurv_frame (sqrt : α → α) (t : Track α) :
    (computeAbsCurv sqrt t).1.xy = t.xy ∧ (computeAbsCurv sqrt t).1.ts = t.ts := by
  unfold computeAbsCurv
  simp only [Track.remove]
  split <;> split <;> simp [set_xy]

theorem computeAbsCurv_get_other (sqrt : α → α) (t : Track α) (m : String) (h1 : m ≠ "ds") (h2 : m ≠ "abs_curv") :
    (computeAbsCurv sqrt t).1.get m = t.get m := by
  unfold computeAbsCurv
  simp only
  rw [get_remove_other _ _ _ h1.symm]
  split <;> split <;> simp [get_set_other _ _ _ _ h1.symm, get_set_other _ _ _ _ h2.symm]

theorem estimateSpeed_fresh (sqrt : α → α) (t : Track α) (h : t.has "speed" = false) :
    estimateSpeed sqrt t = (t.set "speed" (speedCol sqrt t.xy t.ts), some (speedCol sqrt t.xy t.ts)) := by
  unfold estimateSpeed
  simp [h, get_set_self]

theorem estimateSpeed_has (sqrt : α → α) (t : Track α) : (estimateSpeed sqrt t).1.has "speed" = true := by
  unfold estimateSpeed
  split
  · assumption
  · exact has_set_self _ _ _

theorem estimateSpeed_idem (sqrt : α → α) (t : Track α) :
    estimateSpeed sqrt (estimateSpeed sqrt t).1 = estimateSpeed sqrt t := by
  have h := estimateSpeed_has sqrt t
  have e : estimateSpeed sqrt t = ((estimateSpeed sqrt t).1, (estimateSpeed sqrt t).1.get "speed") := by
    unfold estimateSpeed; split <;> rfl
  have e2 : ∀ u : Track α, u.has "speed" = true → estimateSpeed sqrt u = (u, u.get "speed") := by
    intro u hu; unfold estimateSpeed; simp [hu]
  rw [e2 _ h]
  exact e.symm

theorem estimateSpeed_frame (sqrt : α → α) (t : Track α) :
    (estimateSpeed sqrt t).1.xy = t.xy ∧ (estimateSpeed sqrt t).1.ts = t.ts := by
  unfold estimateSpeed
  split <;> simp [set_xy]

theorem estimateSpeed_get_other (sqrt : α → α) (t : Track α) (m : String) (h : m ≠ "speed") :
    (estimateSpeed sqrt t).1.get m = t.get m := by
  unfold estimateSpeed
  split
  · rfl
  · simp [get_set_other _ _ _ _ h.symm]

theorem speedBetween_eq (sqrt : α → α) (xy : List (α × α)) (ts : List α) (a b : Nat)
    (ha : a < xy.length) (hb : b < xy.length) (ha' : a < ts.length) (hb' : b < ts.length) :
    speedBetween sqrt xy ts a b = quot (dist2D sqrt xy[a] xy[b]) (ts[a] - ts[b]) := by
  unfold speedBetween
  simp only [List.getElem?_eq_getElem ha, List.getElem?_eq_getElem hb, List.getElem?_eq_getElem ha',
    List.getElem?_eq_getElem hb']

theorem speedCol_getElem? (sqrt : α → α) (xy : List (α × α)) (ts : List α) (i : Nat) (h : i < xy.length) :
    (speedCol sqrt xy ts)[i]? = some (speedAt sqrt xy ts i) := by
  unfold speedCol
  simp [h]

theorem quot_zero [LawfulBEq α] (d dt : α) (h : dt = 0) : quot d dt = none := by
  unfold quot; simp [h]

theorem quot_ne [LawfulBEq α] (d dt : α) (h : dt ≠ 0) : quot d dt = some (d / dt) := by
  unfold quot; simp [h]

end arith

/-! ### ordered-field facts -/
section field
variable [Field α] [LinearOrder α] [IsStrictOrderedRing α]

/-- the contract of a genuine square root (`Real.sqrt` satisfies it) -/
def SqrtSpec (sqrt : α → α) : Prop := ∀ x, 0 ≤ x → 0 ≤ sqrt x ∧ sqrt x * sqrt x = x

theorem dist2D_spec (sqrt : α → α) (hs : SqrtSpec sqrt) (p q : α × α) :
    0 ≤ dist2D sqrt p q ∧ dist2D sqrt p q * dist2D sqrt p q = (q.1 - p.1) ^ 2 + (q.2 - p.2) ^ 2 := by
  unfold dist2D
  have h0 : 0 ≤ (q.1 - p.1) * (q.1 - p.1) + (q.2 - p.2) * (q.2 - p.2) :=
    add_nonneg (mul_self_nonneg _) (mul_self_nonneg _)
  obtain ⟨a, b⟩ := hs _ h0
  refine ⟨a, ?_⟩
  simp only
  rw [b]; ring

theorem absc_mono_step (sqrt : α → α) (hs : SqrtSpec sqrt) (xy : List (α × α)) (i : Nat) :
    absc sqrt xy i ≤ absc sqrt xy (i + 1) := by
  simp only [absc]
  have : 0 ≤ (match xy[i + 1]?, xy[i]? with
      | some p, some q => dist2D sqrt p q
      | _, _ => (0 : α)) := by
    split
    · exact (dist2D_spec sqrt hs _ _).1
    · exact le_refl _
  exact le_add_of_nonneg_right this

theorem absc_mono (sqrt : α → α) (hs : SqrtSpec sqrt) (xy : List (α × α)) {i j : Nat} (h : i ≤ j) :
    absc sqrt xy i ≤ absc sqrt xy j := by
  induction h with
  | refl => exact le_refl _
  | step _ ih => exact le_trans ih (absc_mono_step sqrt hs xy _)

/-- the legs of a polyline, as a list (specification side) -/
def legs (sqrt : α → α) : List (α × α) → List α
  | p :: q :: r => dist2D sqrt q p :: legs sqrt (q :: r)
  | [_] => []
  | [] => []

theorem legs_getElem? (sqrt : α → α) : ∀ (xy : List (α × α)) (i : Nat) (h : i + 1 < xy.length),
    (legs sqrt xy)[i]? = some (dist2D sqrt (xy[i + 1]'h) (xy[i]'(Nat.lt_of_succ_lt h)))
  | [], i, h => by simp at h
  | [_], i, h => by simp at h
  | p :: q :: r, 0, _ => by simp [legs]
  | p :: q :: r, i + 1, h => by
    have h' : i + 1 < (q :: r).length := by simpa using h
    have := legs_getElem? sqrt (q :: r) i h'
    simpa [legs] using this

theorem legs_length (sqrt : α → α) : ∀ (xy : List (α × α)), (legs sqrt xy).length = xy.length - 1
  | [] => rfl
  | [_] => rfl
  | p :: q :: r => by
    have := legs_length sqrt (q :: r)
    simp only [legs, List.length_cons] at this ⊢
    omega

theorem absc_eq_sum_take (sqrt : α → α) (xy : List (α × α)) :
    ∀ i, i < xy.length → absc sqrt xy i = ((legs sqrt xy).take i).sum := by
  intro i
  induction i with
  | zero => intro _; simp [absc]
  | succ i ih =>
    intro h
    have hl : i < (legs sqrt xy).length := by rw [legs_length]; omega
    rw [absc_succ sqrt xy i h, ih (by omega), List.sum_take_succ _ _ hl]
    congr 1
    have := legs_getElem? sqrt xy i h
    rw [List.getElem?_eq_getElem hl] at this
    exact (Option.some.inj this).symm

/-- the last abscissa is the planimetric length (sum of all legs) -/
theorem absc_last (sqrt : α → α) (xy : List (α × α)) (h : 0 < xy.length) :
    absc sqrt xy (xy.length - 1) = (legs sqrt xy).sum := by
  rw [absc_eq_sum_take sqrt xy _ (by omega), ← legs_length sqrt xy, List.take_length]

end field
end TV.Cinematics
