import TracklibVerif.Model.SplitNum
import TracklibVerif.Lemmas.SplitVal
/-! Lemmas on `Model/SplitNum.lean`: the comparison of two numbers is exact unless numpy converts an integer operand,
and that conversion is the identity below 2^53. -/
namespace TV.Split

/-- "a exceeds b" between two numbers: the exact `>` of their values -/
def PNum.gt (a b : PNum) : Bool := decide (b.val < a.val)

theorem PNum.image_false (a : PNum) : a.image false = a.val := by
  unfold PNum.image
  simp

theorem PNum.le?_exact (a b : PNum) (h : a.converts b = false) : PNum.le? a b = .ok (!PNum.gt a b) := by
  unfold PNum.le? PNum.gt
  simp only [h, PNum.image_false]
  congr 1
  by_cases hab : a.val ≤ b.val
  · have : ¬ b.val < a.val := fun hlt => ((Ext.not_le a.val b.val).mpr hlt) hab
    simp [hab, this]
  · have : b.val < a.val := (Ext.not_le a.val b.val).mp hab
    simp [hab, this]

/-- two Python numbers (int or float, in any pairing) never convert -/
theorem PNum.converts_python (a b : PNum) (ha : a.kind.isNumpy = false) (hb : b.kind.isNumpy = false) :
    a.converts b = false := by
  simp [PNum.converts, ha, hb]

/-- two integers, or two floats, never convert -/
theorem PNum.converts_same (a b : PNum) (h : a.kind.isInt = b.kind.isInt) : a.converts b = false := by
  simp [PNum.converts, h]

theorem roundNat_small (n : Nat) (h : n < 2 ^ 53) : roundNat n = n := by
  have he : (n.log2 + 1) - 53 = 0 := by
    by_cases h0 : n = 0
    · subst h0; decide
    · have := (Nat.log2_lt h0).mpr h
      omega
  unfold roundNat
  simp only [he, Nat.shiftRight_zero, Nat.shiftLeft_zero, Nat.sub_self]
  simp

theorem roundInt_small (n : Int) (h : n.natAbs < 2 ^ 53) : roundInt n = n := by
  unfold roundInt
  rw [roundNat_small _ h]
  split <;> omega

/-- below 2^53 the conversion of an integer to a double changes nothing -/
theorem PNum.image_small (c : Bool) (k : NumKind) (n : Int) (h : n.natAbs < 2 ^ 53) :
    PNum.image c ⟨k, .fin (n : Rat)⟩ = .fin (n : Rat) := by
  unfold PNum.image
  cases hc : (c && k.isInt) with
  | false => rfl
  | true =>
    simp only
    rw [Rat.num_intCast, roundInt_small n h]

/-- numbers against thresholds such that no compared pair converts: the row is typed for the exact "exceeds" -/
theorem PNum.typed (ths : List PNum) (vals : List (Option PNum))
    (h : ∀ (i : Nat) (v th : PNum), vals[i]? = some (some v) → ths[i]? = some th → v.converts th = false) :
    Typed PNum.isnan PNum.le? PNum.gt ths 0 vals := by
  intro i w hw v th hv _ hth
  subst hv
  rw [Nat.zero_add] at hth
  exact PNum.le?_exact v th (h i v th hw hth)
end TV.Split
