import TracklibVerif.Lemmas.Expr
/-! Helper lemmas for C02, the ERROR direction: when the tree semantics `denoteM` of a well-formed tree
(bound variables, known functions, no function applied to a bare number token) is an error, the stack
machine `evalRPN` on the postfix form raises the SAME error, having changed the track only by appended
temporaries — which the purge of `operate` removes, so that `operateTokens` leaves the track exactly as it was. -/
namespace TV.Expr
open Scalar
set_option linter.unusedSectionVars false
variable {α : Type} [Scalar α]

/-! ### predicates on trees -/

/-- every variable of the tree can be read on the track -/
def Bound (tr : Tr α) : Ex → Prop
  | .num _ => True
  | .var s => ∃ c, getAF tr s = .ok c
  | .bin _ l r => Bound tr l ∧ Bound tr r
  | .call _ e => Bound tr e

/-- the tree is a bare number token -/
def isNumLeaf : Ex → Bool
  | .num _ => true
  | _ => false

/-- every call node applies a function the machine knows (one of the void functions `I D D2 ABS SQRT LOG
    DIODE SIGN EXP COS SIN TAN` or one of the aggregates `SUM AVG … ARGMAX`) to something that is not a
    bare number token (`SQRT{2}` is excluded, `SQRT{1+1}` is not) -/
def CallsOK : Ex → Prop
  | .num _ => True
  | .var _ => True
  | .bin _ l r => CallsOK l ∧ CallsOK r
  | .call f e => (isVoidFn f = true ∨ isAggFn f = true) ∧ isNumLeaf e = false ∧ CallsOK e

theorem Bound.ext {tr : Tr α} (ad : List (Str × List α)) {e : Ex} (h : Bound tr e) : Bound (ext tr ad) e := by
  induction e with
  | num s => trivial
  | var s => obtain ⟨c, hc⟩ := h; exact ⟨c, getAF_ext ad hc⟩
  | bin o l r ihl ihr => exact ⟨ihl h.1, ihr h.2⟩
  | call f e ih => exact ih h

/-- on a track that has gained columns, a tree whose variables were all bound means what it meant -/
theorem denoteM_ext_eq {tr : Tr α} (ad : List (Str × List α)) (e : Ex) (hb : Bound tr e) :
    denoteM (ext tr ad) e = denoteM tr e := by
  induction e with
  | num s => simp only [denoteM]
  | var s =>
    obtain ⟨c, hc⟩ := hb
    simp only [denoteM, getAF_ext ad hc, hc]
  | bin o l r ihl ihr =>
    simp only [denoteM, ihl hb.1, ihr hb.2]
  | call f e ih =>
    simp only [denoteM, ih hb, ext_n]

theorem denoteM_ext_err {tr : Tr α} (ad : List (Str × List α)) (e : Ex) (hb : Bound tr e) {err : Err}
    (h : denoteM tr e = .error err) : denoteM (ext tr ad) e = .error err := by
  rw [denoteM_ext_eq ad e hb]; exact h

theorem Step.mono {tr tr' : Tr α} {k k' k'' : Nat} (h : Step tr tr' k k') (hk : k' ≤ k'') : Step tr tr' k k'' := by
  obtain ⟨ad, e, p⟩ := h
  exact ⟨ad, e, fun q hq => by obtain ⟨j, a, b, c⟩ := p q hq; exact ⟨j, a, by omega, c⟩⟩

theorem step_added {tr tr' : Tr α} {k k' : Nat} (h : Step tr tr' k k') :
    ∃ ad, tr' = ext tr ad ∧ ∀ p ∈ ad, ∃ j, p.1 = tmpName j := by
  obtain ⟨ad, e, p⟩ := h
  exact ⟨ad, e, fun q hq => by obtain ⟨j, _, _, c⟩ := p q hq; exact ⟨j, c⟩⟩

/-! ### one failing operation of the stack machine -/

/-- a void operator writing to the fresh temporary `#k` whose computation raises: the temporary has been
    created (filled with zeros) BEFORE the computation, and stays -/
theorem runVoid_fresh_err (tr : Tr α) (k : Nat) (compute : Tr α → Except Err (List α)) (err : Err)
    (hn : tr.n ≠ 0) (hf : lookup (tmpName k) tr.feats = none)
    (hc : compute (ext tr [(tmpName k, konst tr zero)]) = .error err) :
    runVoid tr (tmpName k) compute = (.error err, ext tr [(tmpName k, konst tr zero)]) := by
  have hcr : createAF tr (tmpName k) (konst tr zero) = .ok (ext tr [(tmpName k, konst tr zero)]) := by
    simp [createAF, isReserved_tmpName, hn, hf, ext]
  simp only [runVoid, hcr, hc]

theorem map_error {β γ : Type} {x : Except Err β} {g : β → γ} {err : Err} (h : x.map g = .error err) : x = .error err := by
  cases x with
  | error e => simpa [Except.map] using h
  | ok a => simp [Except.map] at h

/-- literal ∘ literal: the error of the folding, nothing is created -/
theorem applyOp_litlit_err (tr : Tr α) (i1 i2 : Item α) (o : Char) (k : Nat) (a b : α) (err : Err)
    (ho : binOps.contains o = true)
    (h1 : itemVal tr i1 = some (.lit a)) (h2 : itemVal tr i2 = some (.lit b)) (hv : litOp o a b = .error err) :
    applyOperation tr i1 i2 o k = (.error err, tr) := by
  obtain ⟨f1, _, _⟩ := itemVal_lit h1
  obtain ⟨f2, _, _⟩ := itemVal_lit h2
  unfold applyOperation
  simp only [(binOps_ne ho).1, if_false, f1, f2, ho, if_true, hv]

/-- feature ∘ feature: the temporary `#k` (zeros) is left behind -/
theorem applyOp_vecvec_err (tr : Tr α) (i1 i2 : Item α) (o : Char) (k : Nat) (a b : List α) (err : Err)
    (ho : binOps.contains o = true) (hn : tr.n ≠ 0) (hf : Fresh tr k)
    (h1 : itemVal tr i1 = some (.vec a)) (h2 : itemVal tr i2 = some (.vec b)) (hv : vvOp o a b = .error err) :
    applyOperation tr i1 i2 o k = (.error err, ext tr [(tmpName k, konst tr zero)]) := by
  obtain ⟨s1, rfl, l1, g1⟩ := itemVal_vec h1
  obtain ⟨s2, rfl, l2, g2⟩ := itemVal_vec h2
  have hr := runVoid_fresh_err tr k (fun t => do let a ← getAF t s1; let b ← getAF t s2; vvOp o a b) err hn (hf k (Nat.le_refl k))
    (by simp only [getAF_ext _ g1, getAF_ext _ g2]; exact hv)
  unfold applyOperation
  simp only [(binOps_ne ho).1, (binOps_ne ho).2, if_false, isFloat, l1, ho, itemHasAF, hasAF_of_getAF g1, hasAF_of_getAF g2,
    opBin, hr, Bool.not_true, Bool.false_eq_true]

/-- feature ∘ number through the operator object, the computation raising (a zero number under `/` included, since
    fixes 5676890 / 2dd86ce): the temporary `#k` (zeros) has been created and is left behind -/
theorem opScal_fresh_err (tr : Tr α) (o : Char) (s1 : Str) (k : Nat) (a : List α) (b : α) (err : Err)
    (hn : tr.n ≠ 0) (hf : lookup (tmpName k) tr.feats = none) (g1 : getAF tr s1 = .ok a) (hv : vsOp o a b = .error err) :
    ∃ tr', opScal tr o s1 b (tmpName k) = (.error err, tr') ∧ Step tr tr' k (k + 1) :=
  ⟨_, runVoid_fresh_err tr k _ err hn hf (by simp only [getAF_ext _ g1]; exact hv), step_one tr k (konst tr zero)⟩

theorem opScalRev_fresh_err (tr : Tr α) (o : Char) (s2 : Str) (k : Nat) (a : List α) (b : α) (err : Err)
    (hn : tr.n ≠ 0) (hf : lookup (tmpName k) tr.feats = none) (g2 : getAF tr s2 = .ok a) (hv : svOp o b a = .error err) :
    ∃ tr', opScalRev tr o s2 b (tmpName k) = (.error err, tr') ∧ Step tr tr' k (k + 1) :=
  ⟨_, runVoid_fresh_err tr k _ err hn hf (by simp only [getAF_ext _ g2]; exact hv), step_one tr k (konst tr zero)⟩

/-- feature ∘ number: the temporary `#k` (zeros) is left behind -/
theorem applyOp_veclit_err (tr : Tr α) (i1 i2 : Item α) (o : Char) (k : Nat) (a : List α) (b : α) (err : Err)
    (ho : binOps.contains o = true) (hn : tr.n ≠ 0) (hf : Fresh tr k) (hl : NoLitNames tr)
    (h1 : itemVal tr i1 = some (.vec a)) (h2 : itemVal tr i2 = some (.lit b)) (hv : vsOp o a b = .error err) :
    ∃ tr', applyOperation tr i1 i2 o k = (.error err, tr') ∧ Step tr tr' k (k + 1) := by
  obtain ⟨s1, rfl, l1, g1⟩ := itemVal_vec h1
  obtain ⟨_, t2, _⟩ := itemVal_lit h2
  have hA2 := itemHasAF_lit hl h2
  obtain ⟨tr', hr, hs⟩ := opScal_fresh_err tr o s1 k a b err hn (hf k (Nat.le_refl k)) g1 hv
  refine ⟨tr', ?_, hs⟩
  unfold applyOperation
  cases i2 with
  | tok s2 =>
    have hA2' : hasAF tr s2 = false := by simpa [itemHasAF] using hA2
    simp only [(binOps_ne ho).1, (binOps_ne ho).2, if_false, isFloat, l1, ho, itemHasAF, hasAF_of_getAF g1, hA2',
      hr, Bool.not_true, Bool.false_eq_true, t2]
  | num v =>
    simp only [(binOps_ne ho).1, (binOps_ne ho).2, if_false, isFloat, l1, ho, itemHasAF, hasAF_of_getAF g1,
      hr, Bool.not_true, Bool.false_eq_true, t2]
  | unit => simp [itemVal] at h2

/-- number ∘ feature: the temporary `#k` (zeros) is left behind -/
theorem applyOp_litvec_err (tr : Tr α) (i1 i2 : Item α) (o : Char) (k : Nat) (a : List α) (b : α) (err : Err)
    (ho : binOps.contains o = true) (hn : tr.n ≠ 0) (hf : Fresh tr k) (hl : NoLitNames tr)
    (h1 : itemVal tr i1 = some (.lit b)) (h2 : itemVal tr i2 = some (.vec a)) (hv : svOp o b a = .error err) :
    ∃ tr', applyOperation tr i1 i2 o k = (.error err, tr') ∧ Step tr tr' k (k + 1) := by
  obtain ⟨s2, rfl, l2, g2⟩ := itemVal_vec h2
  obtain ⟨f1, t1, _⟩ := itemVal_lit h1
  have hA1 := itemHasAF_lit hl h1
  obtain ⟨tr', hr, hs⟩ := opScalRev_fresh_err tr o s2 k a b err hn (hf k (Nat.le_refl k)) g2 hv
  refine ⟨tr', ?_, hs⟩
  unfold applyOperation
  cases i1 with
  | tok s1 =>
    have hA1' : hasAF tr s1 = false := by simpa [itemHasAF] using hA1
    have l1 : litOf (α := α) s1 = some b := by simpa [isFloat] using f1
    simp only [(binOps_ne ho).1, (binOps_ne ho).2, if_false, isFloat, l1, l2, ho, itemHasAF, hasAF_of_getAF g2, hA1',
      hr, Bool.not_true, Bool.false_eq_true, t1]
  | num v =>
    simp only [(binOps_ne ho).1, (binOps_ne ho).2, if_false, isFloat, l2, ho, itemHasAF, hasAF_of_getAF g2,
      hr, Bool.not_true, Bool.false_eq_true, t1]
  | unit => simp [itemVal] at h1

/-- a failing binary operator of the machine raises the error of `nodeBin` on the operands' values; at most
    the temporary `#k` is left behind -/
theorem applyOp_bin_err (tr : Tr α) (i1 i2 : Item α) (o : Char) (k : Nat) (a b : Val α) (err : Err)
    (ho : binOps.contains o = true) (hn : tr.n ≠ 0) (hf : Fresh tr k) (hl : NoLitNames tr)
    (h1 : itemVal tr i1 = some a) (h2 : itemVal tr i2 = some b) (hv : nodeBin o a b = .error err) :
    ∃ tr', applyOperation tr i1 i2 o k = (.error err, tr') ∧ Step tr tr' k (k + 1) := by
  cases a with
  | lit x =>
    cases b with
    | lit y =>
      exact ⟨tr, applyOp_litlit_err tr i1 i2 o k x y err ho h1 h2 (map_error hv), (Step.refl tr k).mono (by omega)⟩
    | vec y =>
      exact applyOp_litvec_err tr i1 i2 o k y x err ho hn hf hl h1 h2 (map_error hv)
  | vec x =>
    cases b with
    | lit y => exact applyOp_veclit_err tr i1 i2 o k x y err ho hn hf hl h1 h2 (map_error hv)
    | vec y =>
      exact ⟨_, applyOp_vecvec_err tr i1 i2 o k x y err ho hn hf h1 h2 (map_error hv), step_one tr k _⟩

/-- function call `f@(…)` on a feature, the function raising: a void function other than `LOG` leaves the
    temporary `#k` (zeros) behind; `LOG` and the aggregates compute before creating anything -/
theorem applyOp_call_err (tr : Tr α) (f : Str) (i : Item α) (k : Nat) (a : List α) (err : Err)
    (hfl : litOf (α := α) f = none) (hkn : isVoidFn f = true ∨ isAggFn f = true) (hn : tr.n ≠ 0) (hf : Fresh tr k)
    (h : itemVal tr i = some (.vec a)) (hv : nodeCall tr.n f (.vec a) = .error err) :
    ∃ tr', applyOperation tr (.tok f) i '@' k = (.error err, tr') ∧ Step tr tr' k (k + 1) := by
  obtain ⟨s, rfl, ls, gs⟩ := itemVal_vec h
  have hfr := hf k (Nat.le_refl k)
  have h0 : ('@' : Char) ≠ '=' := by decide
  unfold applyOperation
  simp only [h0, if_false, isFloat, hfl, if_true]
  unfold applyCall
  simp only [nodeCall] at hv
  by_cases hvf : isVoidFn f = true
  · simp only [hvf, if_true] at hv ⊢
    have hc := map_error hv
    unfold opVoidFn
    by_cases hlog : f = logName
    · subst hlog
      simp only [if_true]
      rw [opLog_new_err tr s (tmpName k) err (by rw [voidCompute_self tr _ s a gs]; exact hc)]
      exact ⟨tr, rfl, (Step.refl tr k).mono (by omega)⟩
    · simp only [hlog, if_false]
      rw [runVoid_fresh_err tr k (voidCompute f s) err hn hfr (by rw [voidCompute_ext tr f s a _ gs]; exact hc)]
      exact ⟨_, rfl, step_one tr k _⟩
  · have haf : isAggFn f = true := by
      rcases hkn with h | h
      · exact absurd h hvf
      · exact h
    simp only [hvf, if_false, Bool.false_eq_true, haf, if_true] at hv ⊢
    have hc := map_error hv
    have hag : opAgg tr f s = .error err := by simp only [opAgg, gs]; exact hc
    simp only [hag]
    exact ⟨tr, rfl, (Step.refl tr k).mono (by omega)⟩

/-- function call `f@(…)` on a folded number (`SQRT{1+1}`): a TypeError, nothing is created -/
theorem applyOp_call_num (tr : Tr α) (f : Str) (x : α) (k : Nat)
    (hfl : litOf (α := α) f = none) (hkn : isVoidFn f = true ∨ isAggFn f = true) :
    applyOperation tr (.tok f) (.num x) '@' k = (.error "err:type", tr) := by
  have h0 : ('@' : Char) ≠ '=' := by decide
  unfold applyOperation
  simp only [h0, if_false, isFloat, hfl, if_true]
  unfold applyCall
  by_cases hvf : isVoidFn f = true
  · simp only [hvf, if_true]
  · have haf : isAggFn f = true := by
      rcases hkn with h | h
      · exact absurd h hvf
      · exact h
    simp only [hvf, if_false, Bool.false_eq_true, haf, if_true]

/-! ### number-valued trees -/

/-- a tree whose value is a number is made of number tokens and binary operators only: the machine folds
    it without touching the track, and what it pushes is a folded number unless the tree is a bare token -/
theorem evalRPN_post_lit (e : Ex) : ∀ (tr : Tr α) (st : List (Item α)) (k : Nat) (rest : List Str) (x : α),
    WFx e → denoteM tr e = .ok (.lit x) →
    ∃ it, evalRPN tr (post e ++ rest) st k = evalRPN tr rest (it :: st) (k + nops e)
      ∧ itemVal tr it = some (.lit x) ∧ (isNumLeaf e = false → it = .num x) := by
  induction e with
  | num s =>
    intro tr st k rest x hw hd
    obtain ⟨hp, hop⟩ := hw
    refine ⟨.tok s, by simp [post, evalRPN, hop, nops], ?_, by simp [isNumLeaf]⟩
    simp only [denoteM] at hd
    cases hls : litOf (α := α) s with
    | none => simp [hls] at hd
    | some y => simp only [hls, Except.ok.injEq, Val.lit.injEq] at hd; subst hd; simp [itemVal, hls]
  | var s =>
    intro tr st k rest x hw hd
    simp only [denoteM] at hd
    cases hg : getAF tr s with
    | error e => simp [hg, Except.map] at hd
    | ok c => simp [hg, Except.map] at hd
  | bin o l r ihl ihr =>
    intro tr st k rest x hw hd
    obtain ⟨ho, hwl, hwr⟩ := hw
    simp only [denoteM] at hd
    obtain ⟨a, ha, hd⟩ := bind_ok hd
    obtain ⟨b, hb, hd⟩ := bind_ok hd
    cases a with
    | vec ca =>
      cases b with
      | lit y =>
        simp only [nodeBin] at hd
        cases hc : vsOp o ca y with
        | error e => simp [hc, Except.map] at hd
        | ok c => simp [hc, Except.map] at hd
      | vec cb =>
        simp only [nodeBin] at hd
        cases hc : vvOp o ca cb with
        | error e => simp [hc, Except.map] at hd
        | ok c => simp [hc, Except.map] at hd
    | lit xa =>
      cases b with
      | vec cb =>
        simp only [nodeBin] at hd
        cases hc : svOp o xa cb with
        | error e => simp [hc, Except.map] at hd
        | ok c => simp [hc, Except.map] at hd
      | lit xb =>
        simp only [nodeBin] at hd
        cases hc : litOp o xa xb with
        | error e => simp [hc, Except.map] at hd
        | ok w =>
          simp only [hc, Except.map, Except.ok.injEq, Val.lit.injEq] at hd
          subst hd
          obtain ⟨it1, e1, v1, _⟩ := ihl tr st k (post r ++ [[o]] ++ rest) xa hwl ha
          obtain ⟨it2, e2, v2, _⟩ := ihr tr (it1 :: st) (k + nops l) ([[o]] ++ rest) xb hwr hb
          have e3 := applyOp_litlit tr it1 it2 o (k + nops l + nops r) xa xb w ho v1 v2 hc
          refine ⟨.num w, ?_, rfl, fun _ => rfl⟩
          have hassoc : post (.bin o l r) ++ rest = post l ++ (post r ++ [[o]] ++ rest) := by simp [post, List.append_assoc]
          rw [hassoc, e1]
          have hassoc2 : post r ++ [[o]] ++ rest = post r ++ ([[o]] ++ rest) := by simp [List.append_assoc]
          rw [hassoc2, e2]
          simp only [List.singleton_append, evalRPN, isOperatorTok_bin ho, e3]
          simp [nops, Nat.add_assoc]
  | call f e ih =>
    intro tr st k rest x hw hd
    simp only [denoteM] at hd
    obtain ⟨a, ha, hd⟩ := bind_ok hd
    cases a with
    | lit y => simp [nodeCall] at hd
    | vec c =>
      simp only [nodeCall] at hd
      by_cases hvf : isVoidFn f = true
      · simp only [hvf, if_true] at hd
        cases hc : voidFn f tr.n c with
        | error e => simp [hc, Except.map] at hd
        | ok c => simp [hc, Except.map] at hd
      · simp only [hvf, if_false, Bool.false_eq_true] at hd
        by_cases haf : isAggFn f = true
        · simp only [haf, if_true] at hd
          cases hc : aggFn f c with
          | error e => simp [hc, Except.map] at hd
          | ok c => simp [hc, Except.map] at hd
        · simp [haf] at hd

/-! ### the induction on the tree -/

theorem bind_error {β γ : Type} {x : Except Err β} {f : β → Except Err γ} {err : Err} (h : (x >>= f) = .error err) :
    x = .error err ∨ ∃ a, x = .ok a ∧ f a = .error err := by
  cases x with
  | error e =>
    left
    have : (Except.error e : Except Err γ) = .error err := h
    cases this; rfl
  | ok a => exact .inr ⟨a, rfl, h⟩

/-- **the machine fails as the tree semantics does.** When the tree semantics of a well-formed tree (bound
    variables, known functions not applied to a bare number token) is the error `err`, running `evalRPN`
    on its postfix form (then whatever follows) stops with the same error; the track differs only by
    appended temporaries numbered from the old counter on. -/
theorem evalRPN_post_err (e : Ex) : ∀ (tr : Tr α) (st : List (Item α)) (k : Nat) (rest : List Str) (err : Err),
    WFx e → CallsOK e → Bound tr e → tr.n ≠ 0 → Fresh tr k → NoLitNames tr → denoteM tr e = .error err →
    ∃ tr', evalRPN tr (post e ++ rest) st k = (.error err, tr') ∧ Step tr tr' k (k + nops e) := by
  induction e with
  | num s =>
    intro tr st k rest err hw hc hb hn hf hl hd
    obtain ⟨hp, hop⟩ := hw
    simp only [denoteM, litOf] at hd
    cases hps : parseLit s with
    | none => simp [hps] at hp
    | some p => simp [hps] at hd
  | var s =>
    intro tr st k rest err hw hc hb hn hf hl hd
    obtain ⟨c, hg⟩ := hb
    simp [denoteM, hg, Except.map] at hd
  | bin o l r ihl ihr =>
    intro tr st k rest err hw hc hb hn hf hl hd
    obtain ⟨ho, hwl, hwr⟩ := hw
    obtain ⟨hcl, hcr⟩ := hc
    obtain ⟨hbl, hbr⟩ := hb
    simp only [denoteM] at hd
    have hassoc : post (.bin o l r) ++ rest = post l ++ (post r ++ [[o]] ++ rest) := by simp [post, List.append_assoc]
    have hassoc2 : post r ++ [[o]] ++ rest = post r ++ ([[o]] ++ rest) := by simp [List.append_assoc]
    rcases bind_error hd with ha | ⟨a, ha, hd⟩
    · -- the left operand fails
      obtain ⟨tr1, e1, s1⟩ := ihl tr st k (post r ++ [[o]] ++ rest) err hwl hcl hbl hn hf hl ha
      exact ⟨tr1, by rw [hassoc, e1], s1.mono (by simp only [nops]; omega)⟩
    · obtain ⟨tr1, it1, e1, s1, v1⟩ := evalRPN_post l tr st k (post r ++ [[o]] ++ rest) a hwl hn hf hl ha
      obtain ⟨ad1, rfl, p1⟩ := id s1
      have hf1 := hf.step s1 (by omega)
      have hl1 := hl.step s1
      rcases bind_error hd with hb' | ⟨b, hb', hd⟩
      · -- the right operand fails (on the track extended by the left operand's temporaries)
        obtain ⟨tr2, e2, s2⟩ := ihr (ext tr ad1) (it1 :: st) (k + nops l) ([[o]] ++ rest) err hwr hcr (hbr.ext ad1) hn hf1 hl1
          (denoteM_ext_err ad1 r hbr hb')
        refine ⟨tr2, by rw [hassoc, e1, hassoc2, e2], ?_⟩
        have := s1.trans s2 (by omega) (by omega)
        exact this.mono (by simp only [nops]; omega)
      · -- the node itself fails
        obtain ⟨tr2, it2, e2, s2, v2⟩ := evalRPN_post r (ext tr ad1) (it1 :: st) (k + nops l) ([[o]] ++ rest) b hwr hn hf1 hl1
          (denoteM_ext ad1 r b hb')
        obtain ⟨ad2, rfl, p2⟩ := id s2
        have hf2 := hf1.step s2 (by omega)
        have hl2 := hl1.step s2
        have v1' := itemVal_ext ad2 v1
        obtain ⟨tr3, e3, s3⟩ := applyOp_bin_err (ext (ext tr ad1) ad2) it1 it2 o (k + nops l + nops r) a b err ho hn hf2 hl2 v1' v2 hd
        refine ⟨tr3, ?_, ?_⟩
        · rw [hassoc, e1, hassoc2, e2]
          simp only [List.singleton_append, evalRPN, isOperatorTok_bin ho, e3]
        · have := (s1.trans s2 (by omega) (by omega)).trans s3 (by omega) (by omega)
          simpa [nops, Nat.add_assoc] using this
  | call f e ih =>
    intro tr st k rest err hw hc hb hn hf hl hd
    obtain ⟨hpf, hopf, hwe⟩ := hw
    obtain ⟨hkn, hnl, hce⟩ := hc
    simp only [denoteM] at hd
    have hassoc : post (.call f e) ++ rest = f :: (post e ++ ([['@']] ++ rest)) := by simp [post, List.append_assoc]
    have hat : isOperatorTok ['@'] = some '@' := rfl
    have hfl : litOf (α := α) f = none := by simp [litOf, hpf]
    rcases bind_error hd with ha | ⟨a, ha, hd⟩
    · -- the argument fails
      obtain ⟨tr1, e1, s1⟩ := ih tr (.tok f :: st) k ([['@']] ++ rest) err hwe hce hb hn hf hl ha
      refine ⟨tr1, ?_, s1.mono (by simp only [nops]; omega)⟩
      rw [hassoc]
      simp only [evalRPN, hopf]
      exact e1
    · cases a with
      | lit x =>
        -- a function applied to a folded number
        simp only [nodeCall] at hd
        cases hd
        obtain ⟨it1, e1, _, hit⟩ := evalRPN_post_lit e tr (.tok f :: st) k ([['@']] ++ rest) x hwe ha
        have hit' := hit hnl
        subst hit'
        refine ⟨tr, ?_, (Step.refl tr k).mono (by omega)⟩
        rw [hassoc]
        simp only [evalRPN, hopf]
        rw [e1]
        simp only [List.singleton_append, evalRPN, hat, applyOp_call_num tr f x (k + nops e) hfl hkn]
      | vec x =>
        obtain ⟨tr1, it1, e1, s1, v1⟩ := evalRPN_post e tr (.tok f :: st) k ([['@']] ++ rest) (.vec x) hwe hn hf hl ha
        obtain ⟨ad1, rfl, p1⟩ := id s1
        have hf1 := hf.step s1 (by omega)
        obtain ⟨tr2, e2, s2⟩ := applyOp_call_err (ext tr ad1) f it1 (k + nops e) x err hfl hkn hn hf1 v1 hd
        refine ⟨tr2, ?_, ?_⟩
        · rw [hassoc]
          simp only [evalRPN, hopf]
          rw [e1]
          simp only [List.singleton_append, evalRPN, hat, e2]
        · have := s1.trans s2 (by omega) (by omega)
          simpa [nops, Nat.add_assoc] using this

/-! ### a whole expression: `lhs = e` / `#output = e`, then the purge -/

/-- **`operate` on `lhs = e` (or `#output = e`) when the tree semantics of `e` is an error**: the same
    error comes out, the assignment is never reached, and after the purge of the `finally` clause the
    track is exactly as it was. -/
theorem operateTokens_error (tr : Tr α) (lhs : Str) (e : Ex) (void : Bool) (err : Err)
    (hop : isOperatorTok lhs = none) (hw : WFx e) (hc : CallsOK e) (hb : Bound tr e)
    (hn : tr.n ≠ 0) (hnt : NoTemps tr) (hl : NoLitNames tr) (hd : denoteM tr e = .error err) :
    operateTokens tr (lhs :: (post e ++ [['=']])) void = (.error err, tr) := by
  obtain ⟨tr1, e1, s1⟩ := evalRPN_post_err e tr [.tok lhs] 0 [['=']] err hw hc hb hn (hnt.fresh 0) hl hd
  obtain ⟨ad, rfl, had⟩ := step_added s1
  have hev : evalRPN tr (lhs :: (post e ++ [['=']])) [] 0 = (.error err, ext tr ad) := by
    simp only [evalRPN, hop]
    exact e1
  simp only [operateTokens, evalTokens, hev]
  have := purge_ext hnt ad [] (temp_of_added had) (by simp)
  simp only [ext_nil] at this
  exact congrArg _ this

/-- the evaluation alone (`Track.__evaluate` from the token list on, before the purge): same error, the
    track has only gained temporaries -/
theorem evalTokens_error (tr : Tr α) (lhs : Str) (e : Ex) (void : Bool) (err : Err)
    (hop : isOperatorTok lhs = none) (hw : WFx e) (hc : CallsOK e) (hb : Bound tr e)
    (hn : tr.n ≠ 0) (hnt : NoTemps tr) (hl : NoLitNames tr) (hd : denoteM tr e = .error err) :
    ∃ ad, evalTokens tr (lhs :: (post e ++ [['=']])) void = (.error err, ext tr ad) ∧ ∀ p ∈ ad, isTemp p.1 = true := by
  obtain ⟨tr1, e1, s1⟩ := evalRPN_post_err e tr [.tok lhs] 0 [['=']] err hw hc hb hn (hnt.fresh 0) hl hd
  obtain ⟨ad, rfl, had⟩ := step_added s1
  refine ⟨ad, ?_, temp_of_added had⟩
  have hev : evalRPN tr (lhs :: (post e ++ [['=']])) [] 0 = (.error err, ext tr ad) := by
    simp only [evalRPN, hop]
    exact e1
  simp only [evalTokens, hev]

/-! ### non-vacuity, and the cases the hypotheses exclude -/
namespace ErrEx

/-- a toy exact scalar (integers) whose `sqrt` raises on negatives and whose `pow` raises on `0 ** negative`;
    local to this section -/
local instance toyE : Scalar Int where
  add := (· + ·)
  sub := (· - ·)
  mul := (· * ·)
  div := (· / ·)
  neg := fun x => -x
  pow := fun x y => if x == 0 && decide (y < 0) then .error "err:zerodiv" else .ok (x ^ y.toNat)
  sqrt := fun x => if decide (x < 0) then .error "err:value" else .ok x
  abs := fun x => x.natAbs
  lt := fun a b => decide (a < b)
  isZero := fun x => x == 0
  isNaN := fun _ => false
  nan := 0
  ofDec := fun m k => (m : Int) / (10 ^ k : Nat)
  inf := 10 ^ 300

def trE : Tr Int := ⟨3, [1, 2, 3], [0, 0, 0], [0, 0, 0], [0, 10, 20], [(['a'], [1, -2, 4]), (['b'], [2, 0, 5])]⟩
def sqrtN : Str := ['S', 'Q', 'R', 'T']
/-- `a/0` -/
def eDiv : Ex := .bin '/' (.var ['a']) (.num ['0'])
/-- `SQRT{a}` -/
def eSqrt : Ex := .call sqrtN (.var ['a'])
/-- `a*b + SQRT{a-b}` -/
def eDeep : Ex := .bin '+' (.bin '*' (.var ['a']) (.var ['b'])) (.call sqrtN (.bin '-' (.var ['a']) (.var ['b'])))
/-- `SQRT{1+1}` -/
def eType : Ex := .call sqrtN (.bin '+' (.num ['1']) (.num ['1']))

theorem trE_n : trE.n ≠ 0 := by decide
theorem trE_noTemps : NoTemps trE := by intro p hp; simp [trE] at hp; rcases hp with rfl | rfl <;> rfl
theorem trE_noLit : NoLitNames trE := by
  intro s hs
  simp only [trE, lookup]
  split
  · rename_i h; subst h; exact absurd hs (by decide)
  · split
    · rename_i h; subst h; exact absurd hs (by decide)
    · rfl

example : WFx eDiv ∧ WFx eSqrt ∧ WFx eDeep ∧ WFx eType := by simp only [eDiv, eSqrt, eDeep, eType, WFx]; decide
example : CallsOK eDiv ∧ CallsOK eSqrt ∧ CallsOK eDeep ∧ CallsOK eType := by
  simp only [eDiv, eSqrt, eDeep, eType, CallsOK, isNumLeaf]; decide
example : Bound trE eDeep := ⟨⟨⟨_, rfl⟩, ⟨_, rfl⟩⟩, ⟨_, rfl⟩, ⟨_, rfl⟩⟩

/-- `a/0`: division of a feature by the number 0 raises at the first observation (`a[0] / 0`), the temporary `#0` having been
    created as for every other scalar operator (fixes 5676890 / 2dd86ce; it used to raise on `1.0 / 0` before anything was
    created); the purge of `operate` removes it -/
example : denoteM trE eDiv = .error "err:zerodiv" := by rfl
example : evalTokens trE (outputName :: (post eDiv ++ [['=']])) false
    = (.error "err:zerodiv", ext trE [(tmpName 0, [0, 0, 0])]) := by rfl
/-- `SQRT{a}` with a negative value: the temporary `#0` was created before the computation and is left behind
    by the evaluation; the purge of `operate` removes it -/
example : denoteM trE eSqrt = .error "err:value" := by rfl
example : evalTokens trE (outputName :: (post eSqrt ++ [['=']])) false
    = (.error "err:value", ext trE [(tmpName 0, [0, 0, 0])]) := by rfl
example : operateTokens trE (outputName :: (post eSqrt ++ [['=']])) false = (.error "err:value", trE) := by rfl
/-- the error deep in the right operand, after two successful operations: three temporaries before the purge -/
example : denoteM trE eDeep = .error "err:value" := by rfl
example : evalTokens trE (['c'] :: (post eDeep ++ [['=']])) true
    = (.error "err:value", ext trE [(tmpName 0, [2, 0, 20]), (tmpName 1, [-1, -2, -1]), (tmpName 2, [0, 0, 0])]) := by rfl
/-- a function applied to a folded number: the same TypeError on both sides -/
example : denoteM trE eType = .error "err:type" := by rfl
example : operateTokens trE (outputName :: (post eType ++ [['=']])) false = (.error "err:type", trE) := by rfl

/-- the theorem on the instances -/
example : operateTokens trE (outputName :: (post eDiv ++ [['=']])) false = (.error "err:zerodiv", trE) :=
  operateTokens_error trE outputName eDiv false _ rfl (by simp only [eDiv, WFx]; decide) (by simp only [eDiv, CallsOK, and_self])
    ⟨⟨_, rfl⟩, trivial⟩ trE_n trE_noTemps trE_noLit (by rfl)
example : operateTokens trE (['c'] :: (post eDeep ++ [['=']])) true = (.error "err:value", trE) :=
  operateTokens_error trE ['c'] eDeep true _ rfl (by simp only [eDeep, WFx]; decide)
    (by simp only [eDeep, CallsOK, isNumLeaf]; decide)
    ⟨⟨⟨_, rfl⟩, ⟨_, rfl⟩⟩, ⟨_, rfl⟩, ⟨_, rfl⟩⟩ trE_n trE_noTemps trE_noLit (by rfl)

/-! the excluded cases: there the machine's outcome is NOT the error of the tree semantics -/

/-- `SQRT{2}` (a void function applied to a bare number token; excluded by `CallsOK`): the tree semantics
    says TypeError, the machine takes the token `2` for a feature name -/
example : denoteM trE (.call sqrtN (.num ['2'])) = .error "err:type"
    ∧ (operateTokens trE (outputName :: (post (.call sqrtN (.num ['2'])) ++ [['=']])) false).1
        = .error "err:AnalyticalFeatureError" := ⟨by rfl, by rfl⟩
/-- `I{2}` on a track of one observation: the input is never read (`voidReads`), the machine succeeds -/
example : denoteM (⟨1, [1], [0], [0], [0], []⟩ : Tr Int) (.call ['I'] (.num ['2'])) = .error "err:type"
    ∧ (operateTokens (⟨1, [1], [0], [0], [0], []⟩ : Tr Int) (outputName :: (post (.call ['I'] (.num ['2'])) ++ [['=']])) false).1
        = .ok (some [0]) := ⟨by rfl, by rfl⟩
/-- `FOO{a}` (unknown function; excluded by `CallsOK`): "err:unsupported" against `sys.exit` -/
example : denoteM trE (.call ['F', 'O', 'O'] (.var ['a'])) = .error "err:unsupported"
    ∧ (operateTokens trE (outputName :: (post (.call ['F', 'O', 'O'] (.var ['a'])) ++ [['=']])) false).1
        = .error "err:exit" := ⟨by rfl, by rfl⟩
/-- `c+1`, `c+a` with `c` unknown (excluded by `Bound`): AnalyticalFeatureError against `sys.exit` / ValueError -/
example : denoteM trE (.bin '+' (.var ['c']) (.num ['1'])) = .error "err:AnalyticalFeatureError"
    ∧ (operateTokens trE (outputName :: (post (.bin '+' (.var ['c']) (.num ['1'])) ++ [['=']])) false).1 = .error "err:exit"
    ∧ (operateTokens trE (outputName :: (post (.bin '+' (.var ['c']) (.var ['a'])) ++ [['=']])) false).1 = .error "err:value" :=
  ⟨by rfl, by rfl, by rfl⟩

end ErrEx

end TV.Expr
