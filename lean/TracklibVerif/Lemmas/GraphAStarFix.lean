import TracklibVerif.Lemmas.GraphAStar
/-! The A* branch of `run_routing_forward` as it is after fix c78e3ab (`forwardH`, `Model/GraphAStar.lean`: the label is
`g`, the queue priority `g + h`) is exact for a consistent heuristic — `h u ≤ w + h v` along every permitted arc —: without
and with a cut-off, for the value returned and for every `output_dict` entry. Weights in a linearly ordered cancellative
commutative monoid (`ℕ ℤ ℚ ℝ`). (The file name dates from the time when this loop was the proposed repair.) -/
set_option linter.unusedSectionVars false
namespace TV.Graph
variable {W : Type} [AddCommMonoid W] [LinearOrder W] [IsOrderedCancelAddMonoid W]

/-- the heuristic is consistent: `h u ≤ w + h v` along every permitted arc -/
def Consistent (net : Net W) (h : Nat → W) : Prop := ∀ u v w, Arc net u v w → h u ≤ w + h v

/-- loop invariants of the textbook A*: as `Inv`, with "settled before unsettled" in terms of the priority `g + h` -/
structure InvF (net : Net W) (h : Nat → W) (s : Nat) (st : St W) : Prop where
  j1 : st.d s = some 0
  j2 : ∀ u, st.vis u = true → ∀ v w, Arc net u v w → ∃ x y, st.d u = some x ∧ st.d v = some y ∧ y ≤ x + w
  j3 : ∀ v y, st.d v = some y → Walk net s v y
  j4 : ∀ u x, st.vis u = true → st.d u = some x → ∀ v y, st.vis v = false → st.d v = some y → x + h u ≤ y + h v
  j5 : ∀ u, st.vis u = true → ∃ x, st.d u = some x
  j6 : ∀ v y, st.d v = some y → v < net.n
  j7 : ∀ v y, st.d v = some y → 0 ≤ y

theorem invF_init (net : Net W) (h : Nat → W) (s : Nat) (hs : s < net.n) : InvF net h s (St.init s) := by
  refine ⟨by simp [St.init], ?_, ?_, ?_, ?_, ?_, ?_⟩
  · intro u hu; simp [St.init] at hu
  · intro v y hv
    simp only [St.init] at hv
    split at hv
    · rename_i hq; subst hq; cases hv; exact Walk.nil
    · cases hv
  · intro u x hu; simp [St.init] at hu
  · intro u hu; simp [St.init] at hu
  · intro v y hv
    simp only [St.init] at hv
    split at hv
    · rename_i hq; rw [hq]; exact hs
    · cases hv
  · intro v y hv
    simp only [St.init] at hv
    split at hv
    · cases hv; exact le_refl _
    · cases hv

theorem settle_invF (net : Net W) (hnet : WFNet net) (h : Nat → W) (hc : Consistent net h) (s : Nat) (st : St W)
    (hinv : InvF net h s st) (u : Nat) (du : W) (hp : popMinKey h st net.n = some (u, du)) :
    InvF net h s (settle net st u du) := by
  obtain ⟨hu_lt, hu_vis, hu_d, hu_min⟩ := (popMinKey_spec h st net.n).2 u du hp
  obtain ⟨r1, r2, r3, r4, r5⟩ := relaxAll_spec u du (nextEdges net u)
    { st with vis := fun z => if z = u then true else st.vis z }
  generalize hst' : settle net st u du = st'
  have hfold : (nextEdges net u).foldl (relaxOne u du) { st with vis := fun z => if z = u then true else st.vis z } = st' := by
    rw [← hst']; rfl
  rw [hfold] at r1 r2 r3 r4 r5
  have vis' : ∀ z, st'.vis z = if z = u then true else st.vis z := by intro z; rw [r1]
  have hu' : st'.d u = some du := by rw [r2 u (by simp)]; exact hu_d
  have hdu0 : 0 ≤ du := hinv.j7 u du hu_d
  have old_vis : ∀ z, st.vis z = true → st'.d z = st.d z := by
    intro z hz; exact r2 z (by simp [hz])
  have lab : ∀ z y', st'.d z = some y' → st.d z = some y' ∨ (∃ w, Arc net u z w ∧ y' = du + w ∧ st'.vis z = false) := by
    intro z y' hd
    rcases r4 z y' hd with hq | ⟨e, he, h1, h2, h3⟩
    · exact Or.inl hq
    · refine Or.inr ⟨e.w, (arc_iff_next net u z e.w).2 ⟨e, he, h1.symm, rfl⟩, h2, ?_⟩
      rw [r1]; exact h3
  -- every unsettled label of st' has a priority ≥ that of u
  have lab_ge : ∀ z y', st'.vis z = false → st'.d z = some y' → du + h u ≤ y' + h z := by
    intro z y' hz hd
    have hzu : z ≠ u := by intro hq; rw [vis' z] at hz; simp [hq] at hz
    have hzv : st.vis z = false := by rw [vis' z] at hz; simpa [hzu] using hz
    rcases lab z y' hd with hq | ⟨w, ha, h2, _⟩
    · exact hu_min z y' (hinv.j6 z y' hq) hzv hq
    · rw [h2, add_assoc]; exact add_le_add_right (hc u z w ha) du
  have j7' : ∀ v y, st'.d v = some y → 0 ≤ y := by
    intro v y hd
    rcases lab v y hd with hq | ⟨w, ha, h2, _⟩
    · exact hinv.j7 v y hq
    · rw [h2]; exact add_nonneg hdu0 (arc_wf hnet ha).2
  refine ⟨?_, ?_, ?_, ?_, ?_, ?_, j7'⟩
  · obtain ⟨y', h1, h2⟩ := r3 s 0 hinv.j1
    rw [h1]; congr 1; exact le_antisymm h2 (j7' s y' h1)
  · intro x hx v w ha
    by_cases hxu : x = u
    · subst hxu
      by_cases hvv : st'.vis v = true
      · by_cases hvu : v = x
        · subst hvu
          exact ⟨du, du, hu', hu', le_add_of_nonneg_right (arc_wf hnet ha).2⟩
        · have hv_old : st.vis v = true := by rw [vis' v] at hvv; simpa [hvu] using hvv
          obtain ⟨yv, hyv⟩ := hinv.j5 v hv_old
          have h4 : yv + h v ≤ du + h x := hinv.j4 v yv hv_old hyv x du hu_vis hu_d
          refine ⟨du, yv, hu', by rw [old_vis v hv_old]; exact hyv, ?_⟩
          -- yv + h v ≤ du + h x ≤ du + (w + h v) = (du + w) + h v
          have h5 : yv + h v ≤ (du + w) + h v := by
            rw [add_assoc]; exact le_trans h4 (add_le_add_right (hc x v w ha) du)
          exact le_of_add_le_add_right h5
      · have hvv' : st'.vis v = false := by cases hq : st'.vis v <;> simp_all
        obtain ⟨e, he, ho, hw⟩ := (arc_iff_next net x v w).1 ha
        have hv1 : (if other e x = x then true else st.vis (other e x)) = false := by
          rw [ho]; have := hvv'; rw [vis' v] at this; exact this
        obtain ⟨y, hy, ly⟩ := r5 e he hv1
        rw [ho] at hy; rw [hw] at ly
        exact ⟨du, y, hu', hy, ly⟩
    · have hx_old : st.vis x = true := by rw [vis' x] at hx; simpa [hxu] using hx
      obtain ⟨a, b, ha1, hb1, hab⟩ := hinv.j2 x hx_old v w ha
      obtain ⟨b', hb', lb'⟩ := r3 v b hb1
      exact ⟨a, b', by rw [old_vis x hx_old]; exact ha1, hb', le_trans lb' hab⟩
  · intro v y hd
    rcases lab v y hd with hq | ⟨w, ha, h2, _⟩
    · exact hinv.j3 v y hq
    · rw [h2]; exact Walk.snoc (hinv.j3 u du hu_d) ha
  · intro x a hx hxa v y hv hvy
    have hge := lab_ge v y hv hvy
    by_cases hxu : x = u
    · subst hxu; rw [hu'] at hxa; cases hxa; exact hge
    · have hx_old : st.vis x = true := by rw [vis' x] at hx; simpa [hxu] using hx
      rw [old_vis x hx_old] at hxa
      exact le_trans (hinv.j4 x a hx_old hxa u du hu_vis hu_d) hge
  · intro x hx
    by_cases hxu : x = u
    · subst hxu; exact ⟨du, hu'⟩
    · have hx_old : st.vis x = true := by rw [vis' x] at hx; simpa [hxu] using hx
      obtain ⟨a, ha⟩ := hinv.j5 x hx_old
      exact ⟨a, by rw [old_vis x hx_old]; exact ha⟩
  · intro v y hd
    rcases lab v y hd with hq | ⟨w, ha, _, _⟩
    · exact hinv.j6 v y hq
    · exact (arc_wf hnet ha).1

/-- under the invariants, every walk `s → v` of weight `c` is "covered": some labelled node `z`, unsettled or `v` itself,
has priority `g z + h z ≤ c + h v` -/
theorem invF_cover (net : Net W) (h : Nat → W) (hc : Consistent net h) (s : Nat) (st : St W) (hinv : InvF net h s st)
    (v : Nat) (c : W) (hw : Walk net s v c) :
    ∃ z y, st.d z = some y ∧ y + h z ≤ c + h v ∧ (st.vis z = false ∨ z = v) := by
  induction hw with
  | nil => exact ⟨s, 0, hinv.j1, le_refl _, Or.inr rfl⟩
  | @snoc v t c w _ ha ih =>
    obtain ⟨z, y, hz, hle, hcase⟩ := ih
    have hstep : c + h v ≤ (c + w) + h t := by rw [add_assoc]; exact add_le_add_right (hc v t w ha) c
    by_cases hzv : st.vis z = false
    · exact ⟨z, y, hz, le_trans hle hstep, Or.inl hzv⟩
    · have hzvis : st.vis z = true := by cases hq : st.vis z <;> simp_all
      have hzeq : z = v := by rcases hcase with hq | hq; · exact absurd hq hzv
                              · exact hq
      subst hzeq
      obtain ⟨x, y', hx, hy', hxy⟩ := hinv.j2 z hzvis t w ha
      rw [hz] at hx; cases hx
      have hyc : y ≤ c := le_of_add_le_add_right hle
      exact ⟨t, y', hy', add_le_add_left (le_trans hxy (add_le_add_left hyc w)) (h t), Or.inr rfl⟩

/-- the textbook A* with a consistent heuristic is exact: `shortest_distance(s, t)` is the minimum weight over the
permitted walks, the sentinel iff there is none -/
theorem shortestDistanceH_spec (net : Net W) (hnet : WFNet net) (h : Nat → W) (hc : Consistent net h) (s t : Nat)
    (hs : s < net.n) :
    (∀ y, shortestDistanceH net h s t none = some y ↔ IsDist net s t y) ∧
    (shortestDistanceH net h s t none = none ↔ ¬ Reachable net s t) := by
  unfold shortestDistanceH runForwardH
  rw [forwardH_eq_loopG]
  have hQ : ∀ st u du, InvF net h s st → popMinKey h st net.n = some (u, du) → InvF net h s (settle net st u du) :=
    fun st u du hi hp => settle_invF net hnet h hc s st hi u du hp
  have hinv := loopG_preserves _ _ (InvF net h s) hQ (some t) none net.n (St.init s) [] (invF_init net h s hs)
  have hend := loopG_end net.n (fun st => popMinKey h st net.n) (settle net)
    (fun st u du hp => ⟨((popMinKey_spec h st net.n).2 u du hp).1, ((popMinKey_spec h st net.n).2 u du hp).2.1⟩)
    (fun st u du z => (settle_spec net st u du).1 z)
    t net.n (St.init s) [] (cnt_le _ _)
  generalize (loopG (fun st => popMinKey h st net.n) (settle net) (some t) none net.n (St.init s) []).1 = r at hinv hend
  -- in every end state: a walk of weight c to t forces a label ≤ c on t
  have hlow : ∀ c, Walk net s t c → ∃ y, r.d t = some y ∧ y ≤ c := by
    intro c hw
    obtain ⟨z, y, hz, hle, hcase⟩ := invF_cover net h hc s r hinv t c hw
    rcases hend with ⟨du, hp⟩ | hp | hc0
    · obtain ⟨_, htv, htd, hmin⟩ := (popMinKey_spec h r net.n).2 t du hp
      refine ⟨du, htd, ?_⟩
      rcases hcase with hzv | hzt
      · exact le_of_add_le_add_right (le_trans (hmin z y (hinv.j6 z y hz) hzv hz) hle)
      · subst hzt; rw [htd] at hz; cases hz; exact le_of_add_le_add_right hle
    · rcases hcase with hzv | hzt
      · rw [(popMinKey_spec h r net.n).1 hp z (hinv.j6 z y hz) hzv] at hz; cases hz
      · subst hzt; exact ⟨y, hz, le_of_add_le_add_right hle⟩
    · rcases hcase with hzv | hzt
      · rw [cnt_zero_all r net.n hc0 z (hinv.j6 z y hz)] at hzv; cases hzv
      · subst hzt; exact ⟨y, hz, le_of_add_le_add_right hle⟩
  refine ⟨fun y => ⟨fun hy => ⟨hinv.j3 t y hy, fun c hw => ?_⟩, fun ⟨hw, hmin⟩ => ?_⟩, ?_, ?_⟩
  · obtain ⟨y', hy', hle⟩ := hlow c hw
    rw [hy] at hy'; cases hy'; exact hle
  · obtain ⟨y', hy', hle⟩ := hlow y hw
    rw [hy']; congr 1; exact le_antisymm hle (hmin y' (hinv.j3 t y' hy'))
  · intro hn ⟨c, hw⟩
    obtain ⟨y', hy', _⟩ := hlow c hw
    rw [hn] at hy'; cases hy'
  · intro hn
    cases hd : r.d t with
    | none => rfl
    | some y => exact absurd ⟨y, hinv.j3 t y hd⟩ hn

/-- under the invariants, the label of a settled (`visite`) node is its true distance — at any moment of any search -/
theorem invF_settled_isDist (net : Net W) (h : Nat → W) (hc : Consistent net h) (s : Nat) (st : St W)
    (hinv : InvF net h s st) (u : Nat) (x : W) (hv : st.vis u = true) (hd : st.d u = some x) : IsDist net s u x := by
  refine ⟨hinv.j3 u x hd, ?_⟩
  intro c hw
  obtain ⟨z, y, hz, hle, hcase⟩ := invF_cover net h hc s st hinv u c hw
  rcases hcase with hzv | hzu
  · exact le_of_add_le_add_right (le_trans (hinv.j4 u x hv hd z y hzv hz) hle)
  · subst hzu; rw [hd] at hz; cases hz; exact le_of_add_le_add_right hle

theorem forwardH_invF (net : Net W) (hnet : WFNet net) (h : Nat → W) (hc : Consistent net h) (s : Nat) (hs : s < net.n)
    (tgt : Option Nat) (cut : Option W) : InvF net h s (runForwardH net h s tgt cut).1 := by
  unfold runForwardH
  rw [forwardH_eq_loopG]
  exact loopG_preserves _ _ (InvF net h s) (fun st u du hi hp => settle_invF net hnet h hc s st hi u du hp) tgt cut
    net.n (St.init s) [] (invF_init net h s hs)

/-- every entry an A* search with a consistent heuristic writes to `output_dict` — whatever the target and the cut-off —
is the true distance of its key and does not exceed the cut-off; the entries are exactly the nodes the search marked
`visite` (whose labels are therefore true distances) -/
theorem runForwardH_entries (net : Net W) (hnet : WFNet net) (h : Nat → W) (hc : Consistent net h) (s : Nat)
    (hs : s < net.n) (tgt : Option Nat) (cut : Option W) :
    (∀ u y, (u, y) ∈ (runForwardH net h s tgt cut).2 → IsDist net s u y ∧ Within cut y) ∧
    (∀ u, (runForwardH net h s tgt cut).1.vis u = true ↔ ∃ y, (u, y) ∈ (runForwardH net h s tgt cut).2) ∧
    (∀ u y, (runForwardH net h s tgt cut).1.vis u = true → (runForwardH net h s tgt cut).1.d u = some y → IsDist net s u y) := by
  have hinv := forwardH_invF net hnet h hc s hs tgt cut
  have hrec := loopG_rec (fun st => popMinKey h st net.n) (settle net)
    (fun st u du hp => (popKey_facts hp).2.2)
    (fun st u du z => (settle_spec net st u du).1 z)
    (fun st u du z hz => (settle_spec net st u du).2.1 z hz)
    tgt cut net.n (St.init s) []
    (by intro u y; simp [St.init]) (by intro u y hq; simp [St.init] at hq)
  unfold runForwardH at hinv ⊢
  rw [forwardH_eq_loopG] at hinv ⊢
  obtain ⟨r1, r2⟩ := hrec
  refine ⟨?_, ?_, ?_⟩
  · intro u y hm
    obtain ⟨a, b⟩ := (r1 u y).1 hm
    exact ⟨invF_settled_isDist net h hc s _ hinv u y a b, r2 u y a b⟩
  · intro u
    constructor
    · intro hv
      obtain ⟨x, hx⟩ := hinv.j5 u hv
      exact ⟨x, (r1 u x).2 ⟨hv, hx⟩⟩
    · rintro ⟨y, hm⟩
      exact ((r1 u y).1 hm).1
  · intro u y a b
    exact invF_settled_isDist net h hc s _ hinv u y a b

/-- `shortest_distance(s, t, cut)` in A* mode with a consistent heuristic that is smallest at the target (`h t ≤ h v`:
`h t = 0 ≤ h v` for the code's `astar_wgt × distance to t`): the true distance whenever it does not exceed the cut-off, the
sentinel whenever `t` is unreachable. The stop test `pere.poids > cut` fires on a node `u` of minimal priority with
`g u > cut`; every unsettled node `z` on a shortest walk to `t` has `g z + h z ≤ dist + h t ≤ cut + h u < g u + h u`, so no such
node is left: `t` already carries its true distance. -/
theorem shortestDistanceH_cut (net : Net W) (hnet : WFNet net) (h : Nat → W) (hc : Consistent net h) (s t : Nat)
    (hs : s < net.n) (hmin : ∀ v, h t ≤ h v) (cut : Option W) :
    (∀ y, IsDist net s t y → Within cut y → shortestDistanceH net h s t cut = some y) ∧
    (¬ Reachable net s t → shortestDistanceH net h s t cut = none) := by
  have hinv := forwardH_invF net hnet h hc s hs (some t) cut
  unfold shortestDistanceH
  unfold runForwardH at hinv ⊢
  rw [forwardH_eq_loopG] at hinv ⊢
  have hend := loopG_stop net.n (fun st => popMinKey h st net.n) (settle net)
    (fun st u du hp => ⟨(popKey_facts hp).1, (popKey_facts hp).2.1⟩)
    (fun st u du z => (settle_spec net st u du).1 z)
    (some t) cut net.n (St.init s) [] (cnt_le _ _)
  generalize (loopG (fun st => popMinKey h st net.n) (settle net) (some t) cut net.n (St.init s) []).1 = r at hinv hend
  have hlow : ∀ c, Walk net s t c → Within cut c → ∃ y, r.d t = some y ∧ y ≤ c := by
    intro c hw hwc
    obtain ⟨z, y, hz, hle, hcase⟩ := invF_cover net h hc s r hinv t c hw
    rcases hcase with hzv | hzt
    · rcases hend with ⟨u, du, hp, hstop⟩ | hp | hc0
      · obtain ⟨_, _, hud, hm⟩ := (popMinKey_spec h r net.n).2 u du hp
        have hprio : du + h u ≤ c + h t := le_trans (hm z y (hinv.j6 z y hz) hzv hz) hle
        by_cases hut : u = t
        · subst hut; exact ⟨du, hud, le_of_add_le_add_right hprio⟩
        · exfalso
          simp only [stops, hut, decide_false, Bool.or_false] at hstop
          cases hcut : cut with
          | none => rw [hcut] at hstop; simp at hstop
          | some cc =>
            rw [hcut] at hstop
            simp only [decide_eq_true_eq] at hstop
            have h1 : c ≤ cc := hwc cc hcut
            have h2 : du + h u ≤ c + h u := le_trans hprio (add_le_add_right (hmin u) c)
            exact absurd (lt_of_le_of_lt h1 hstop) (not_lt.mpr (le_of_add_le_add_right h2))
      · rw [(popMinKey_spec h r net.n).1 hp z (hinv.j6 z y hz) hzv] at hz; cases hz
      · rw [cnt_zero_all r net.n hc0 z (hinv.j6 z y hz)] at hzv; cases hzv
    · subst hzt; exact ⟨y, hz, le_of_add_le_add_right hle⟩
  constructor
  · intro y ⟨hw, hmn⟩ hwy
    obtain ⟨y', hy', hle⟩ := hlow y hw hwy
    rw [hy']; congr 1; exact le_antisymm hle (hmn y' (hinv.j3 t y' hy'))
  · intro hn
    cases hd : r.d t with
    | none => rfl
    | some y => exact absurd ⟨y, hinv.j3 t y hd⟩ hn
end TV.Graph
