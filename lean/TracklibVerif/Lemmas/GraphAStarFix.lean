import TracklibVerif.Lemmas.GraphAStar
/-! The textbook A* (`forwardFix`, `Model/GraphAStar.lean`: the label is `g`, the queue priority `g + h` — the repair
proposed for `run_routing_forward`'s A* branch) is exact for a consistent heuristic: `h u ≤ w + h v` along every
permitted arc. Weights in a linearly ordered cancellative commutative monoid (`ℕ ℤ ℚ ℝ`). -/
set_option linter.unusedSectionVars false
namespace TV.Graph
variable {W : Type} [AddCommMonoid W] [LinearOrder W] [IsOrderedCancelAddMonoid W]

theorem popMinKey_spec (h : Nat → W) (st : St W) (k : Nat) :
    (popMinKey h st k = none → ∀ v, v < k → st.vis v = false → st.d v = none) ∧
    (∀ u x, popMinKey h st k = some (u, x) → u < k ∧ st.vis u = false ∧ st.d u = some x ∧
        ∀ v y, v < k → st.vis v = false → st.d v = some y → x + h u ≤ y + h v) := by
  induction k with
  | zero => exact ⟨fun _ v hv => by omega, fun u x hq => by simp [popMinKey] at hq⟩
  | succ k ih =>
    obtain ⟨ih1, ih2⟩ := ih
    unfold popMinKey
    by_cases hv : st.vis k = true
    · simp only [hv, if_true]
      constructor
      · intro hq v hvk hvis
        rcases Nat.lt_succ_iff_lt_or_eq.mp hvk with h' | h'
        · exact ih1 hq v h' hvis
        · subst h'; rw [hv] at hvis; cases hvis
      · intro u x hq
        obtain ⟨a, b, c, d⟩ := ih2 u x hq
        refine ⟨by omega, b, c, ?_⟩
        intro v y hvk hvis hd
        rcases Nat.lt_succ_iff_lt_or_eq.mp hvk with h' | h'
        · exact d v y h' hvis hd
        · subst h'; rw [hv] at hvis; cases hvis
    · have hv' : st.vis k = false := by cases hq : st.vis k <;> simp_all
      simp only [hv', Bool.false_eq_true, if_false]
      cases hd : st.d k with
      | none =>
        simp only []
        constructor
        · intro hq v hvk hvis
          rcases Nat.lt_succ_iff_lt_or_eq.mp hvk with h' | h'
          · exact ih1 hq v h' hvis
          · subst h'; exact hd
        · intro u x hq
          obtain ⟨a, b, c, d⟩ := ih2 u x hq
          refine ⟨by omega, b, c, ?_⟩
          intro v y hvk hvis hdv
          rcases Nat.lt_succ_iff_lt_or_eq.mp hvk with h' | h'
          · exact d v y h' hvis hdv
          · subst h'; rw [hd] at hdv; cases hdv
      | some xk =>
        simp only []
        cases hb : popMinKey h st k with
        | none =>
          simp only []
          constructor
          · intro hq; cases hq
          · intro u x hq
            simp only [Option.some.injEq, Prod.mk.injEq] at hq
            obtain ⟨rfl, rfl⟩ := hq
            refine ⟨by omega, hv', hd, ?_⟩
            intro v y hvk hvis hdv
            rcases Nat.lt_succ_iff_lt_or_eq.mp hvk with h' | h'
            · have := ih1 hb v h' hvis; rw [this] at hdv; cases hdv
            · subst h'; rw [hd] at hdv; cases hdv; exact le_refl _
        | some p =>
          obtain ⟨ub, yb⟩ := p
          obtain ⟨a, b, c, d⟩ := ih2 ub yb hb
          simp only []
          by_cases hlt : xk + h k < yb + h ub
          · simp only [hlt, if_true]
            constructor
            · intro hq; cases hq
            · intro u x hq
              simp only [Option.some.injEq, Prod.mk.injEq] at hq
              obtain ⟨rfl, rfl⟩ := hq
              refine ⟨by omega, hv', hd, ?_⟩
              intro v y hvk hvis hdv
              rcases Nat.lt_succ_iff_lt_or_eq.mp hvk with h' | h'
              · exact le_trans (le_of_lt hlt) (d v y h' hvis hdv)
              · subst h'; rw [hd] at hdv; cases hdv; exact le_refl _
          · simp only [hlt, if_false]
            constructor
            · intro hq; cases hq
            · intro u x hq
              simp only [Option.some.injEq, Prod.mk.injEq] at hq
              obtain ⟨rfl, rfl⟩ := hq
              refine ⟨by omega, b, c, ?_⟩
              intro v y hvk hvis hdv
              rcases Nat.lt_succ_iff_lt_or_eq.mp hvk with h' | h'
              · exact d v y h' hvis hdv
              · subst h'; rw [hd] at hdv; cases hdv; exact not_lt.mp hlt

/-- the heuristic is consistent: `h u ≤ w + h v` along every permitted arc -/
def Consistent (net : Net W) (h : Nat → W) : Prop := ∀ u v w, Arc net u v w → h u ≤ w + h v

/-- loop invariants of the textbook A*: as `Inv`, with "settled before unsettled" in terms of the priority `g + h` -/
structure InvF (net : Net W) (h : Nat → W) (s : Nat) (st : St W) : Prop where
  j1 : st.d s = some 0
  j2 : ∀ u, st.vis u = true → ∀ v w, Arc net u v w → ∃ x y, st.d u = some x ∧ st.d v = some y ∧ y ≤ x + w
  j3 : ∀ v y, st.d v = some y → Walk net s v y
  j4 : ∀ u x, st.vis u = true → st.d u = some x → ∀ v y, st.vis v = false → st.d v = some y → x + h u ≤ y + h v
  j5 : ∀ u, st.vis u = true → ∃ x, st.d u = some x
  j6 : ∀ v y, st.d v = some y → v < net.n
  j7 : ∀ v y, st.d v = some y → 0 ≤ y

theorem invF_init (net : Net W) (h : Nat → W) (s : Nat) (hs : s < net.n) : InvF net h s (St.init s) := by
  refine ⟨by simp [St.init], ?_, ?_, ?_, ?_, ?_, ?_⟩
  · intro u hu; simp [St.init] at hu
  · intro v y hv
    simp only [St.init] at hv
    split at hv
    · rename_i hq; subst hq; cases hv; exact Walk.nil
    · cases hv
  · intro u x hu; simp [St.init] at hu
  · intro u hu; simp [St.init] at hu
  · intro v y hv
    simp only [St.init] at hv
    split at hv
    · rename_i hq; rw [hq]; exact hs
    · cases hv
  · intro v y hv
    simp only [St.init] at hv
    split at hv
    · cases hv; exact le_refl _
    · cases hv

theorem settle_invF (net : Net W) (hnet : WFNet net) (h : Nat → W) (hc : Consistent net h) (s : Nat) (st : St W)
    (hinv : InvF net h s st) (u : Nat) (du : W) (hp : popMinKey h st net.n = some (u, du)) :
    InvF net h s (settle net st u du) := by
  obtain ⟨hu_lt, hu_vis, hu_d, hu_min⟩ := (popMinKey_spec h st net.n).2 u du hp
  obtain ⟨r1, r2, r3, r4, r5⟩ := relaxAll_spec u du (nextEdges net u)
    { st with vis := fun z => if z = u then true else st.vis z }
  generalize hst' : settle net st u du = st'
  have hfold : (nextEdges net u).foldl (relaxOne u du) { st with vis := fun z => if z = u then true else st.vis z } = st' := by
    rw [← hst']; rfl
  rw [hfold] at r1 r2 r3 r4 r5
  have vis' : ∀ z, st'.vis z = if z = u then true else st.vis z := by intro z; rw [r1]
  have hu' : st'.d u = some du := by rw [r2 u (by simp)]; exact hu_d
  have hdu0 : 0 ≤ du := hinv.j7 u du hu_d
  have old_vis : ∀ z, st.vis z = true → st'.d z = st.d z := by
    intro z hz; exact r2 z (by simp [hz])
  have lab : ∀ z y', st'.d z = some y' → st.d z = some y' ∨ (∃ w, Arc net u z w ∧ y' = du + w ∧ st'.vis z = false) := by
    intro z y' hd
    rcases r4 z y' hd with hq | ⟨e, he, h1, h2, h3⟩
    · exact Or.inl hq
    · refine Or.inr ⟨e.w, (arc_iff_next net u z e.w).2 ⟨e, he, h1.symm, rfl⟩, h2, ?_⟩
      rw [r1]; exact h3
  -- every unsettled label of st' has a priority ≥ that of u
  have lab_ge : ∀ z y', st'.vis z = false → st'.d z = some y' → du + h u ≤ y' + h z := by
    intro z y' hz hd
    have hzu : z ≠ u := by intro hq; rw [vis' z] at hz; simp [hq] at hz
    have hzv : st.vis z = false := by rw [vis' z] at hz; simpa [hzu] using hz
    rcases lab z y' hd with hq | ⟨w, ha, h2, _⟩
    · exact hu_min z y' (hinv.j6 z y' hq) hzv hq
    · rw [h2, add_assoc]; exact add_le_add_right (hc u z w ha) du
  have j7' : ∀ v y, st'.d v = some y → 0 ≤ y := by
    intro v y hd
    rcases lab v y hd with hq | ⟨w, ha, h2, _⟩
    · exact hinv.j7 v y hq
    · rw [h2]; exact add_nonneg hdu0 (arc_wf hnet ha).2
  refine ⟨?_, ?_, ?_, ?_, ?_, ?_, j7'⟩
  · obtain ⟨y', h1, h2⟩ := r3 s 0 hinv.j1
    rw [h1]; congr 1; exact le_antisymm h2 (j7' s y' h1)
  · intro x hx v w ha
    by_cases hxu : x = u
    · subst hxu
      by_cases hvv : st'.vis v = true
      · by_cases hvu : v = x
        · subst hvu
          exact ⟨du, du, hu', hu', le_add_of_nonneg_right (arc_wf hnet ha).2⟩
        · have hv_old : st.vis v = true := by rw [vis' v] at hvv; simpa [hvu] using hvv
          obtain ⟨yv, hyv⟩ := hinv.j5 v hv_old
          have h4 : yv + h v ≤ du + h x := hinv.j4 v yv hv_old hyv x du hu_vis hu_d
          refine ⟨du, yv, hu', by rw [old_vis v hv_old]; exact hyv, ?_⟩
          -- yv + h v ≤ du + h x ≤ du + (w + h v) = (du + w) + h v
          have h5 : yv + h v ≤ (du + w) + h v := by
            rw [add_assoc]; exact le_trans h4 (add_le_add_right (hc x v w ha) du)
          exact le_of_add_le_add_right h5
      · have hvv' : st'.vis v = false := by cases hq : st'.vis v <;> simp_all
        obtain ⟨e, he, ho, hw⟩ := (arc_iff_next net x v w).1 ha
        have hv1 : (if other e x = x then true else st.vis (other e x)) = false := by
          rw [ho]; have := hvv'; rw [vis' v] at this; exact this
        obtain ⟨y, hy, ly⟩ := r5 e he hv1
        rw [ho] at hy; rw [hw] at ly
        exact ⟨du, y, hu', hy, ly⟩
    · have hx_old : st.vis x = true := by rw [vis' x] at hx; simpa [hxu] using hx
      obtain ⟨a, b, ha1, hb1, hab⟩ := hinv.j2 x hx_old v w ha
      obtain ⟨b', hb', lb'⟩ := r3 v b hb1
      exact ⟨a, b', by rw [old_vis x hx_old]; exact ha1, hb', le_trans lb' hab⟩
  · intro v y hd
    rcases lab v y hd with hq | ⟨w, ha, h2, _⟩
    · exact hinv.j3 v y hq
    · rw [h2]; exact Walk.snoc (hinv.j3 u du hu_d) ha
  · intro x a hx hxa v y hv hvy
    have hge := lab_ge v y hv hvy
    by_cases hxu : x = u
    · subst hxu; rw [hu'] at hxa; cases hxa; exact hge
    · have hx_old : st.vis x = true := by rw [vis' x] at hx; simpa [hxu] using hx
      rw [old_vis x hx_old] at hxa
      exact le_trans (hinv.j4 x a hx_old hxa u du hu_vis hu_d) hge
  · intro x hx
    by_cases hxu : x = u
    · subst hxu; exact ⟨du, hu'⟩
    · have hx_old : st.vis x = true := by rw [vis' x] at hx; simpa [hxu] using hx
      obtain ⟨a, ha⟩ := hinv.j5 x hx_old
      exact ⟨a, by rw [old_vis x hx_old]; exact ha⟩
  · intro v y hd
    rcases lab v y hd with hq | ⟨w, ha, _, _⟩
    · exact hinv.j6 v y hq
    · exact (arc_wf hnet ha).1

/-- under the invariants, every walk `s → v` of weight `c` is "covered": some labelled node `z`, unsettled or `v` itself,
has priority `g z + h z ≤ c + h v` -/
theorem invF_cover (net : Net W) (h : Nat → W) (hc : Consistent net h) (s : Nat) (st : St W) (hinv : InvF net h s st)
    (v : Nat) (c : W) (hw : Walk net s v c) :
    ∃ z y, st.d z = some y ∧ y + h z ≤ c + h v ∧ (st.vis z = false ∨ z = v) := by
  induction hw with
  | nil => exact ⟨s, 0, hinv.j1, le_refl _, Or.inr rfl⟩
  | @snoc v t c w _ ha ih =>
    obtain ⟨z, y, hz, hle, hcase⟩ := ih
    have hstep : c + h v ≤ (c + w) + h t := by rw [add_assoc]; exact add_le_add_right (hc v t w ha) c
    by_cases hzv : st.vis z = false
    · exact ⟨z, y, hz, le_trans hle hstep, Or.inl hzv⟩
    · have hzvis : st.vis z = true := by cases hq : st.vis z <;> simp_all
      have hzeq : z = v := by rcases hcase with hq | hq; · exact absurd hq hzv
                              · exact hq
      subst hzeq
      obtain ⟨x, y', hx, hy', hxy⟩ := hinv.j2 z hzvis t w ha
      rw [hz] at hx; cases hx
      have hyc : y ≤ c := le_of_add_le_add_right hle
      exact ⟨t, y', hy', add_le_add_left (le_trans hxy (add_le_add_left hyc w)) (h t), Or.inr rfl⟩

/-- the textbook A* with a consistent heuristic is exact: `shortest_distance(s, t)` is the minimum weight over the
permitted walks, the sentinel iff there is none -/
theorem shortestDistanceFix_spec (net : Net W) (hnet : WFNet net) (h : Nat → W) (hc : Consistent net h) (s t : Nat)
    (hs : s < net.n) :
    (∀ y, shortestDistanceFix net h s t none = some y ↔ IsDist net s t y) ∧
    (shortestDistanceFix net h s t none = none ↔ ¬ Reachable net s t) := by
  unfold shortestDistanceFix
  rw [forwardFix_eq_loopG]
  have hQ : ∀ st u du, InvF net h s st → popMinKey h st net.n = some (u, du) → InvF net h s (settle net st u du) :=
    fun st u du hi hp => settle_invF net hnet h hc s st hi u du hp
  have hinv := loopG_preserves _ _ (InvF net h s) hQ (some t) none net.n (St.init s) [] (invF_init net h s hs)
  have hend := loopG_end net.n (fun st => popMinKey h st net.n) (settle net)
    (fun st u du hp => ⟨((popMinKey_spec h st net.n).2 u du hp).1, ((popMinKey_spec h st net.n).2 u du hp).2.1⟩)
    (fun st u du z => (settle_spec net st u du).1 z)
    t net.n (St.init s) [] (cnt_le _ _)
  generalize (loopG (fun st => popMinKey h st net.n) (settle net) (some t) none net.n (St.init s) []).1 = r at hinv hend
  -- in every end state: a walk of weight c to t forces a label ≤ c on t
  have hlow : ∀ c, Walk net s t c → ∃ y, r.d t = some y ∧ y ≤ c := by
    intro c hw
    obtain ⟨z, y, hz, hle, hcase⟩ := invF_cover net h hc s r hinv t c hw
    rcases hend with ⟨du, hp⟩ | hp | hc0
    · obtain ⟨_, htv, htd, hmin⟩ := (popMinKey_spec h r net.n).2 t du hp
      refine ⟨du, htd, ?_⟩
      rcases hcase with hzv | hzt
      · exact le_of_add_le_add_right (le_trans (hmin z y (hinv.j6 z y hz) hzv hz) hle)
      · subst hzt; rw [htd] at hz; cases hz; exact le_of_add_le_add_right hle
    · rcases hcase with hzv | hzt
      · rw [(popMinKey_spec h r net.n).1 hp z (hinv.j6 z y hz) hzv] at hz; cases hz
      · subst hzt; exact ⟨y, hz, le_of_add_le_add_right hle⟩
    · rcases hcase with hzv | hzt
      · rw [cnt_zero_all r net.n hc0 z (hinv.j6 z y hz)] at hzv; cases hzv
      · subst hzt; exact ⟨y, hz, le_of_add_le_add_right hle⟩
  refine ⟨fun y => ⟨fun hy => ⟨hinv.j3 t y hy, fun c hw => ?_⟩, fun ⟨hw, hmin⟩ => ?_⟩, ?_, ?_⟩
  · obtain ⟨y', hy', hle⟩ := hlow c hw
    rw [hy] at hy'; cases hy'; exact hle
  · obtain ⟨y', hy', hle⟩ := hlow y hw
    rw [hy']; congr 1; exact le_antisymm hle (hmin y' (hinv.j3 t y' hy'))
  · intro hn ⟨c, hw⟩
    obtain ⟨y', hy', _⟩ := hlow c hw
    rw [hn] at hy'; cases hy'
  · intro hn
    cases hd : r.d t with
    | none => rfl
    | some y => exact absurd ⟨y, hinv.j3 t y hd⟩ hn
end TV.Graph
