import TracklibVerif.Lemmas.SimplifyTrack
import Mathlib.Data.List.Forall2
/-! `mapM` in `Except`, element by element: the entry points that call `simplify` on every track of a list (`Network.simplify`:
`netSimplify`; `TrackCollection.simplify`: `collSimplify`) succeed exactly when every call does, the results are in the list's order,
and a failure is the failure of one of the calls. -/
namespace TV.Simplify

/-- a `mapM` in `Except` that succeeds has run `f` successfully on every element, in order -/
theorem mapM_ok_each {β γ : Type} (f : β → Except String γ) (l : List β) (cs : List γ) (h : l.mapM f = .ok cs) :
    List.Forall₂ (fun b c => f b = .ok c) l cs := by
  induction l generalizing cs with
  | nil =>
    simp only [List.mapM_nil, pure, Except.pure, Except.ok.injEq] at h
    subst h; exact List.Forall₂.nil
  | cons g G ih =>
    rw [List.mapM_cons] at h
    cases hg : f g with
    | error e => rw [hg] at h; cases h
    | ok o =>
      rw [hg] at h
      cases hr : G.mapM f with
      | error e => rw [hr] at h; cases h
      | ok os =>
        rw [hr] at h
        cases h
        exact List.Forall₂.cons hg (ih os hr)

/-- … and it succeeds as soon as `f` succeeds on every element -/
theorem mapM_ok_of_forall {β γ : Type} (f : β → Except String γ) (P : β → γ → Prop) (l : List β)
    (h : ∀ b ∈ l, ∃ c, f b = .ok c ∧ P b c) :
    ∃ cs, l.mapM f = .ok cs ∧ List.Forall₂ (fun b c => f b = .ok c ∧ P b c) l cs := by
  induction l with
  | nil => exact ⟨[], rfl, List.Forall₂.nil⟩
  | cons g G ih =>
    obtain ⟨o, ho, hp⟩ := h g List.mem_cons_self
    obtain ⟨os, hos, hf⟩ := ih (fun b hb => h b (List.mem_cons_of_mem _ hb))
    refine ⟨o :: os, ?_, List.Forall₂.cons ⟨ho, hp⟩ hf⟩
    rw [List.mapM_cons, ho, hos]; rfl

/-- a `mapM` in `Except` that fails has failed on one of the elements, with that error -/
theorem mapM_error_mem {β γ : Type} (f : β → Except String γ) (l : List β) (e : String) (h : l.mapM f = .error e) :
    ∃ b ∈ l, f b = .error e := by
  induction l with
  | nil => simp only [List.mapM_nil, pure, Except.pure, reduceCtorEq] at h
  | cons g G ih =>
    rw [List.mapM_cons] at h
    cases hg : f g with
    | error e1 =>
      rw [hg] at h
      have : e1 = e := by cases h; rfl
      exact ⟨g, List.mem_cons_self, by rw [hg, this]⟩
    | ok o =>
      rw [hg] at h
      cases hr : G.mapM f with
      | error e1 =>
        rw [hr] at h
        have : e1 = e := by cases h; rfl
        obtain ⟨b, hb, hfb⟩ := ih (by rw [hr, this])
        exact ⟨b, List.mem_cons_of_mem _ hb, hfb⟩
      | ok os => rw [hr] at h; cases h

end TV.Simplify
