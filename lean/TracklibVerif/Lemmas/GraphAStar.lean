import TracklibVerif.Lemmas.GraphTable
import TracklibVerif.Model.GraphAStar
/-! Lemmas for C06 about the A* branch of `run_routing_forward` as coded (`forwardH`, `Model/GraphAStar.lean`): the
relaxation with the heuristic term, the loop's end states (target popped / queue exhausted), reachability of the
labelled nodes, and the case `heuristic = 0`, in which the loop is the Dijkstra loop. -/
set_option linter.unusedSectionVars false
namespace TV.Graph
variable {W : Type} [LinearOrder W] [Add W] [Zero W] [WalkAdd W]

/-- the three outcomes of one relaxation -/
theorem relaxOneH_cases (h : Nat → W) (u : Nat) (du : W) (st : St W) (e : Edge W) :
    (relaxOneH h u du st e = st ∧ st.vis (other e u) = true) ∨
    (relaxOneH h u du st e = st ∧ ∃ y0, st.d (other e u) = some y0) ∨
    (st.vis (other e u) = false ∧
      relaxOneH h u du st e = { st with d := fun z => if z = other e u then some (du + e.w + h (other e u)) else st.d z,
                                        pred := fun z => if z = other e u then some (u, e.id) else st.pred z }) := by
  by_cases hv : st.vis (other e u) = true
  · left; exact ⟨by simp [relaxOneH, hv], hv⟩
  · have hv' : st.vis (other e u) = false := by cases hq : st.vis (other e u) <;> simp_all
    cases hd : st.d (other e u) with
    | none => right; right; exact ⟨hv', by simp [relaxOneH, hv', hd]⟩
    | some y0 =>
      by_cases hlt : du + e.w < y0
      · right; right; exact ⟨hv', by simp [relaxOneH, hv', hd, hlt]⟩
      · right; left; exact ⟨by simp [relaxOneH, hv', hd, hlt], y0, rfl⟩

/-- what one relaxation with the heuristic term does -/
theorem relaxOneH_spec (h : Nat → W) (u : Nat) (du : W) (st : St W) (e : Edge W) :
    (relaxOneH h u du st e).vis = st.vis ∧
    (∀ z, st.vis z = true → (relaxOneH h u du st e).d z = st.d z) ∧
    (∀ z y, st.d z = some y → ∃ y', (relaxOneH h u du st e).d z = some y') ∧
    (∀ z y', (relaxOneH h u du st e).d z = some y' →
        st.d z = some y' ∨ (z = other e u ∧ y' = du + e.w + h z ∧ st.vis z = false)) ∧
    (st.vis (other e u) = false → ∃ y, (relaxOneH h u du st e).d (other e u) = some y) := by
  rcases relaxOneH_cases h u du st e with ⟨hR, hv⟩ | ⟨hR, y0, hy0⟩ | ⟨hv, hR⟩
  · rw [hR]
    exact ⟨rfl, fun _ _ => rfl, fun z y hz => ⟨y, hz⟩, fun z y' hz => Or.inl hz, fun hq => by rw [hv] at hq; cases hq⟩
  · rw [hR]
    exact ⟨rfl, fun _ _ => rfl, fun z y hz => ⟨y, hz⟩, fun z y' hz => Or.inl hz, fun _ => ⟨y0, hy0⟩⟩
  · rw [hR]
    refine ⟨rfl, ?_, ?_, ?_, ?_⟩
    · intro z hz
      have : z ≠ other e u := by intro hq; rw [hq, hv] at hz; cases hz
      simp [this]
    · intro z y hz
      by_cases hq : z = other e u
      · exact ⟨du + e.w + h (other e u), by simp [hq]⟩
      · exact ⟨y, by simp [hq, hz]⟩
    · intro z y' hz
      by_cases hq : z = other e u
      · right
        simp only [hq, if_true, Option.some.injEq] at hz
        exact ⟨hq, by rw [hq]; exact hz.symm, by rw [hq]; exact hv⟩
      · left; simpa [hq] using hz
    · intro _; exact ⟨du + e.w + h (other e u), by simp⟩

/-- what the relaxation loop over `es` does -/
theorem relaxAllH_spec (h : Nat → W) (u : Nat) (du : W) (es : List (Edge W)) (st : St W) :
    (es.foldl (relaxOneH h u du) st).vis = st.vis ∧
    (∀ z, st.vis z = true → (es.foldl (relaxOneH h u du) st).d z = st.d z) ∧
    (∀ z y, st.d z = some y → ∃ y', (es.foldl (relaxOneH h u du) st).d z = some y') ∧
    (∀ z y', (es.foldl (relaxOneH h u du) st).d z = some y' →
        st.d z = some y' ∨ (∃ e ∈ es, z = other e u ∧ y' = du + e.w + h z ∧ st.vis z = false)) ∧
    (∀ e ∈ es, st.vis (other e u) = false → ∃ y, (es.foldl (relaxOneH h u du) st).d (other e u) = some y) := by
  induction es generalizing st with
  | nil =>
    exact ⟨rfl, fun _ _ => rfl, fun z y hz => ⟨y, hz⟩, fun z y' hz => Or.inl hz, fun e he => by simp at he⟩
  | cons e es ih =>
    obtain ⟨a1, a2, a3, a4, a5⟩ := relaxOneH_spec h u du st e
    obtain ⟨b1, b2, b3, b4, b5⟩ := ih (relaxOneH h u du st e)
    simp only [List.foldl_cons]
    refine ⟨by rw [b1, a1], ?_, ?_, ?_, ?_⟩
    · intro z hz
      rw [b2 z (by rw [a1]; exact hz), a2 z hz]
    · intro z y hz
      obtain ⟨y1, h1⟩ := a3 z y hz
      exact b3 z y1 h1
    · intro z y' hz
      rcases b4 z y' hz with h' | ⟨e', he', h1, h2, h3⟩
      · rcases a4 z y' h' with h'' | ⟨h1, h2, h3⟩
        · exact Or.inl h''
        · exact Or.inr ⟨e, by simp, h1, h2, h3⟩
      · exact Or.inr ⟨e', by simp [he'], h1, h2, by rw [← a1]; exact h3⟩
    · intro e' he' hv
      rcases List.mem_cons.mp he' with hq | hq
      · subst hq
        obtain ⟨y, hy⟩ := a5 hv
        exact b3 _ y hy
      · exact b5 e' hq (by rw [a1]; exact hv)

/-- what settling the popped node does, with the heuristic term -/
theorem settleH_spec (net : Net W) (h : Nat → W) (st : St W) (u : Nat) (du : W)
    (hvl : ∀ z, st.vis z = true → ∃ y, st.d z = some y) (hu : st.d u = some du) :
    (∀ z, (settleH net h st u du).vis z = if z = u then true else st.vis z) ∧
    (∀ z, (z = u ∨ st.vis z = true) → (settleH net h st u du).d z = st.d z) ∧
    (∀ z y, st.d z = some y → ∃ y', (settleH net h st u du).d z = some y') ∧
    (∀ z y', (settleH net h st u du).d z = some y' → st.d z = some y' ∨
        ∃ e ∈ nextEdges net u, z = other e u ∧ y' = du + e.w + h z) ∧
    (∀ e ∈ nextEdges net u, ∃ y, (settleH net h st u du).d (other e u) = some y) := by
  obtain ⟨r1, r2, r3, r4, r5⟩ := relaxAllH_spec h u du (nextEdges net u)
    { st with vis := fun z => if z = u then true else st.vis z }
  refine ⟨?_, ?_, ?_, ?_, ?_⟩
  · intro z; unfold settleH; rw [r1]
  · intro z hz
    unfold settleH
    rw [r2 z (by rcases hz with hq | hq <;> simp [hq])]
  · intro z y hz; exact r3 z y hz
  · intro z y' hz
    rcases r4 z y' hz with h' | ⟨e, he, h1, h2, _⟩
    · exact Or.inl h'
    · exact Or.inr ⟨e, he, h1, h2⟩
  · intro e he
    by_cases hv : (if other e u = u then true else st.vis (other e u)) = true
    · -- already settled (or the popped node itself): labelled before, unchanged
      by_cases hq : other e u = u
      · exact r3 _ du (by rw [hq]; exact hu)
      · obtain ⟨y, hy⟩ := hvl (other e u) (by simpa [hq] using hv)
        exact r3 _ y hy
    · exact r5 e he (by simpa using hv)

/-! ### `heuristic = 0`: the loop is the Dijkstra loop -/

theorem relaxOneH_zero (hadd : ∀ a : W, a + 0 = a) (h : Nat → W) (hz : ∀ v, h v = 0) (u : Nat) (du : W) (st : St W)
    (e : Edge W) : relaxOneH h u du st e = relaxOne u du st e := by
  unfold relaxOneH relaxOne
  simp only [hz, hadd]
  by_cases hv : st.vis (other e u) = true
  · simp [hv]
  · cases hd : st.d (other e u) <;> simp [hv]

theorem settleH_zero (hadd : ∀ a : W, a + 0 = a) (net : Net W) (h : Nat → W) (hz : ∀ v, h v = 0) (st : St W) (u : Nat)
    (du : W) : settleH net h st u du = settle net st u du := by
  unfold settleH settle
  congr 1
  funext st e
  exact relaxOneH_zero hadd h hz u du st e

theorem forwardH_zero (hadd : ∀ a : W, a + 0 = a) (net : Net W) (h : Nat → W) (hz : ∀ v, h v = 0) (tg : Option Nat)
    (cut : Option W) (f : Nat) (st : St W) (out : List (Nat × W)) :
    forwardH net h tg cut f st out = forward net tg cut f st out := by
  induction f generalizing st out with
  | zero => rfl
  | succ f ih =>
    unfold forwardH forward
    cases popMinAux st net.n with
    | none => rfl
    | some p =>
      obtain ⟨u, du⟩ := p
      simp only [settleH_zero hadd net h hz, ih]

/-! ### the loop over an abstract "pop" and "settle": how it can end -/

/-- the `while len(fil) != 0` loop of `run_routing_forward` with the queue's choice and the body abstracted -/
def loopG (pop : St W → Option (Nat × W)) (stl : St W → Nat → W → St W) (target : Option Nat) (cut : Option W) :
    Nat → St W → List (Nat × W) → St W × List (Nat × W)
  | 0, st, out => (st, out)
  | f+1, st, out =>
    match pop st with
    | none => (st, out)
    | some (u, du) =>
      if stops target cut u du then (st, out)
      else loopG pop stl target cut f (stl st u du) (out ++ [(u, du)])

theorem forwardH_eq_loopG (net : Net W) (h : Nat → W) (tg : Option Nat) (cut : Option W) (f : Nat) (st : St W)
    (out : List (Nat × W)) :
    forwardH net h tg cut f st out = loopG (fun st => popMinAux st net.n) (settleH net h) tg cut f st out := by
  induction f generalizing st out with
  | zero => rfl
  | succ f ih =>
    unfold forwardH loopG
    cases popMinAux st net.n with
    | none => rfl
    | some p => obtain ⟨u, du⟩ := p; simp only [ih]

theorem forwardFix_eq_loopG (net : Net W) (h : Nat → W) (tg : Option Nat) (cut : Option W) (f : Nat) (st : St W)
    (out : List (Nat × W)) :
    forwardFix net h tg cut f st out = loopG (fun st => popMinKey h st net.n) (settle net) tg cut f st out := by
  induction f generalizing st out with
  | zero => rfl
  | succ f ih =>
    unfold forwardFix loopG
    cases popMinKey h st net.n with
    | none => rfl
    | some p => obtain ⟨u, du⟩ := p; simp only [ih]

/-- anything preserved by one iteration holds when the loop ends, whatever the target and the cut-off -/
theorem loopG_preserves (pop : St W → Option (Nat × W)) (stl : St W → Nat → W → St W) (Q : St W → Prop)
    (hQ : ∀ st u du, Q st → pop st = some (u, du) → Q (stl st u du))
    (tg : Option Nat) (cut : Option W) (f : Nat) (st : St W) (out : List (Nat × W)) (h0 : Q st) :
    Q (loopG pop stl tg cut f st out).1 := by
  induction f generalizing st out with
  | zero => exact h0
  | succ f ih =>
    unfold loopG
    cases hp : pop st with
    | none => exact h0
    | some p =>
      obtain ⟨u, du⟩ := p
      simp only []
      split
      · exact h0
      · exact ih _ _ (hQ st u du h0 hp)

/-- without a cut-off the loop ends with the target on top of the queue, or with nothing left to pop, or (fuel) with
every node settled -/
theorem loopG_end (n : Nat) (pop : St W → Option (Nat × W)) (stl : St W → Nat → W → St W)
    (hpop : ∀ st u du, pop st = some (u, du) → u < n ∧ st.vis u = false)
    (hvis : ∀ st u du z, (stl st u du).vis z = if z = u then true else st.vis z)
    (t : Nat) (f : Nat) (st : St W) (out : List (Nat × W)) (hf : cnt st n ≤ f) :
    (∃ du, pop (loopG pop stl (some t) none f st out).1 = some (t, du)) ∨
      pop (loopG pop stl (some t) none f st out).1 = none ∨ cnt (loopG pop stl (some t) none f st out).1 n = 0 := by
  induction f generalizing st out with
  | zero => right; right; simp only [loopG]; omega
  | succ f ih =>
    unfold loopG
    cases hp : pop st with
    | none => right; left; exact hp
    | some p =>
      obtain ⟨u, du⟩ := p
      simp only []
      by_cases hut : u = t
      · subst hut
        simp only [stops, Bool.false_or, decide_true, if_true]
        left; exact ⟨du, hp⟩
      · simp only [stops, Bool.false_or, hut, decide_false, Bool.false_eq_true, if_false]
        apply ih
        obtain ⟨hu, huv⟩ := hpop st u du hp
        have := cnt_mark st (stl st u du) u huv (hvis st u du) n
        simp only [hu, if_true] at this
        omega

/-! ### the A* branch as coded: what can be said of its labels for any heuristic -/

/-- invariants of the loop with a heuristic term (any `h ≥ 0`): the source is labelled, the arcs out of settled nodes
lead to labelled nodes, every label is at least the weight of some walk, settled nodes are labelled, labels sit on
real nodes -/
structure InvH (net : Net W) (s : Nat) (st : St W) : Prop where
  a1 : ∃ y, st.d s = some y
  a2 : ∀ u, st.vis u = true → ∀ v w, Arc net u v w → ∃ y, st.d v = some y
  a3 : ∀ v y, st.d v = some y → ∃ c, Walk net s v c ∧ c ≤ y
  a5 : ∀ u, st.vis u = true → ∃ x, st.d u = some x
  a6 : ∀ v y, st.d v = some y → v < net.n

theorem invH_init (net : Net W) (s : Nat) (hs : s < net.n) : InvH net s (St.init s) := by
  refine ⟨⟨0, by simp [St.init]⟩, ?_, ?_, ?_, ?_⟩
  · intro u hu; simp [St.init] at hu
  · intro v y hv
    simp only [St.init] at hv
    split at hv
    · rename_i hq; subst hq; cases hv; exact ⟨0, Walk.nil, le_refl _⟩
    · cases hv
  · intro u hu; simp [St.init] at hu
  · intro v y hv
    simp only [St.init] at hv
    split at hv
    · rename_i hq; rw [hq]; exact hs
    · cases hv

theorem settleH_inv (net : Net W) (hnet : WFNet net) (h : Nat → W) (hh : ∀ v, 0 ≤ h v) (s : Nat) (st : St W)
    (hinv : InvH net s st) (u : Nat) (du : W) (hp : popMinAux st net.n = some (u, du)) :
    InvH net s (settleH net h st u du) := by
  obtain ⟨_, _, hud, _⟩ := popMin_facts hp
  obtain ⟨s1, s2, s3, s4, s5⟩ := settleH_spec net h st u du hinv.a5 hud
  refine ⟨?_, ?_, ?_, ?_, ?_⟩
  · obtain ⟨y, hy⟩ := hinv.a1; exact s3 s y hy
  · intro x hx v w ha
    by_cases hxu : x = u
    · subst hxu
      obtain ⟨e, he, ho, _⟩ := (arc_iff_next net x v w).1 ha
      rw [← ho]; exact s5 e he
    · have hx_old : st.vis x = true := by rw [s1 x] at hx; simpa [hxu] using hx
      obtain ⟨y, hy⟩ := hinv.a2 x hx_old v w ha
      exact s3 v y hy
  · intro v y hv
    rcases s4 v y hv with h' | ⟨e, he, h1, h2⟩
    · exact hinv.a3 v y h'
    · obtain ⟨c, hc, hcl⟩ := hinv.a3 u du hud
      have ha : Arc net u v e.w := (arc_iff_next net u v e.w).2 ⟨e, he, h1.symm, rfl⟩
      refine ⟨c + e.w, Walk.snoc hc ha, ?_⟩
      rw [h2]
      exact le_trans (WalkAdd.add_le_add c du e.w hcl) (WalkAdd.le_add_right _ _ (hh v))
  · intro x hx
    by_cases hxu : x = u
    · subst hxu; exact ⟨du, by rw [s2 x (Or.inl rfl)]; exact hud⟩
    · have hx_old : st.vis x = true := by rw [s1 x] at hx; simpa [hxu] using hx
      obtain ⟨a, ha⟩ := hinv.a5 x hx_old
      exact ⟨a, by rw [s2 x (Or.inr hx_old)]; exact ha⟩
  · intro v y hv
    rcases s4 v y hv with h' | ⟨e, he, h1, _⟩
    · exact hinv.a6 v y h'
    · exact (arc_wf hnet ((arc_iff_next net u v e.w).2 ⟨e, he, h1.symm, rfl⟩)).1

/-- when every labelled node is settled, every node joined to the source by a walk is labelled -/
theorem invH_closed (net : Net W) (s : Nat) (st : St W) (hinv : InvH net s st)
    (hdone : ∀ v y, st.d v = some y → st.vis v = true) (v : Nat) (c : W) (hw : Walk net s v c) :
    ∃ y, st.d v = some y := by
  induction hw with
  | nil => exact hinv.a1
  | snoc _ ha ih =>
    obtain ⟨y, hy⟩ := ih
    exact hinv.a2 _ (hdone _ y hy) _ _ ha

/-- `shortest_distance(s, t)` in A* mode as coded, any heuristic `h ≥ 0`: a reported value is never below the weight of
some permitted walk (hence never below the minimum); and without a cut-off the sentinel is reported exactly when no
walk exists. -/
theorem shortestDistanceH_spec (net : Net W) (hnet : WFNet net) (h : Nat → W) (hh : ∀ v, 0 ≤ h v) (s t : Nat)
    (hs : s < net.n) :
    (∀ cut y, shortestDistanceH net h s t cut = some y → ∃ c, Walk net s t c ∧ c ≤ y) ∧
    (shortestDistanceH net h s t none = none ↔ ¬ Reachable net s t) := by
  have hQ : ∀ st u du, InvH net s st → popMinAux st net.n = some (u, du) → InvH net s (settleH net h st u du) :=
    fun st u du hi hp => settleH_inv net hnet h hh s st hi u du hp
  constructor
  · intro cut y hy
    unfold shortestDistanceH runForwardH at hy
    rw [forwardH_eq_loopG] at hy
    exact (loopG_preserves _ _ (InvH net s) hQ (some t) cut net.n _ _ (invH_init net s hs)).a3 t y hy
  · unfold shortestDistanceH runForwardH
    rw [forwardH_eq_loopG]
    have hinv := loopG_preserves _ _ (InvH net s) hQ (some t) none net.n (St.init s) [] (invH_init net s hs)
    have hend := loopG_end net.n (fun st => popMinAux st net.n) (settleH net h)
      (fun st u du hp => ⟨(popMin_facts hp).1, (popMin_facts hp).2.1⟩)
      (fun st u du z => by
        unfold settleH
        rw [(relaxAllH_spec h u du (nextEdges net u) _).1])
      t net.n (St.init s) [] (cnt_le _ _)
    generalize (loopG (fun st => popMinAux st net.n) (settleH net h) (some t) none net.n (St.init s) []).1 = r at hinv hend
    constructor
    · intro hn ⟨c, hc⟩
      have hdone : ∀ v y, r.d v = some y → r.vis v = true := by
        rcases hend with ⟨du, hp⟩ | hp | hc0
        · rw [(popMin_facts hp).2.2.1] at hn; cases hn
        · intro v y hv
          by_contra hq
          have hq' : r.vis v = false := by cases hx : r.vis v <;> simp_all
          rw [(popMinAux_spec r net.n).1 hp v (hinv.a6 v y hv) hq'] at hv; cases hv
        · intro v y hv
          exact cnt_zero_all r net.n hc0 v (hinv.a6 v y hv)
      obtain ⟨y, hy⟩ := invH_closed net s r hinv hdone t c hc
      rw [hn] at hy; cases hy
    · intro hn
      cases hd : r.d t with
      | none => rfl
      | some y =>
        obtain ⟨c, hc, _⟩ := hinv.a3 t y hd
        exact absurd ⟨c, hc⟩ hn

/-! ### the flags an A* search leaves sit on nodes joined to the source (so: on nodes of `NODES`) -/

theorem relaxOneH_pred (h : Nat → W) (u : Nat) (du : W) (st : St W) (e : Edge W) (z : Nat)
    (hz : (relaxOneH h u du st e).pred z ≠ st.pred z) : ∃ y, (relaxOneH h u du st e).d z = some y := by
  rcases relaxOneH_cases h u du st e with ⟨hR, _⟩ | ⟨hR, _⟩ | ⟨_, hR⟩
  · rw [hR] at hz; exact absurd rfl hz
  · rw [hR] at hz; exact absurd rfl hz
  · rw [hR] at hz ⊢
    by_cases hq : z = other e u
    · exact ⟨du + e.w + h (other e u), by simp [hq]⟩
    · simp [hq] at hz

theorem relaxAllH_pred (h : Nat → W) (u : Nat) (du : W) (es : List (Edge W)) (st : St W) (z : Nat)
    (hz : (es.foldl (relaxOneH h u du) st).pred z ≠ st.pred z) : ∃ y, (es.foldl (relaxOneH h u du) st).d z = some y := by
  induction es generalizing st with
  | nil => exact absurd rfl hz
  | cons e es ih =>
    simp only [List.foldl_cons] at hz ⊢
    by_cases hq : (es.foldl (relaxOneH h u du) (relaxOneH h u du st e)).pred z = (relaxOneH h u du st e).pred z
    · rw [hq] at hz
      obtain ⟨y, hy⟩ := relaxOneH_pred h u du st e z hz
      exact (relaxAllH_spec h u du es _).2.2.1 z y hy
    · exact ih _ hq

/-- every labelled node is joined to the source by a walk; settled nodes and nodes with a predecessor are labelled -/
structure InvC (net : Net W) (s : Nat) (st : St W) : Prop where
  c1 : ∀ v y, st.d v = some y → Reachable net s v
  c2 : ∀ v, st.vis v = true → ∃ y, st.d v = some y
  c3 : ∀ v p, st.pred v = some p → ∃ y, st.d v = some y

theorem invC_init (net : Net W) (s : Nat) : InvC net s (St.init s) := by
  refine ⟨?_, ?_, ?_⟩
  · intro v y hv
    simp only [St.init] at hv
    split at hv
    · rename_i hq; subst hq; exact ⟨0, Walk.nil⟩
    · cases hv
  · intro v hv; simp [St.init] at hv
  · intro v p hv; simp [St.init] at hv

theorem settleH_invC (net : Net W) (h : Nat → W) (s : Nat) (st : St W) (hinv : InvC net s st) (u : Nat) (du : W)
    (hp : popMinAux st net.n = some (u, du)) : InvC net s (settleH net h st u du) := by
  obtain ⟨_, _, hud, _⟩ := popMin_facts hp
  obtain ⟨s1, s2, s3, s4, _⟩ := settleH_spec net h st u du hinv.c2 hud
  refine ⟨?_, ?_, ?_⟩
  · intro v y hv
    rcases s4 v y hv with h' | ⟨e, he, h1, _⟩
    · exact hinv.c1 v y h'
    · obtain ⟨c, hc⟩ := hinv.c1 u du hud
      exact ⟨c + e.w, Walk.snoc hc ((arc_iff_next net u v e.w).2 ⟨e, he, h1.symm, rfl⟩)⟩
  · intro x hx
    by_cases hxu : x = u
    · subst hxu; exact ⟨du, by rw [s2 x (Or.inl rfl)]; exact hud⟩
    · have hx_old : st.vis x = true := by rw [s1 x] at hx; simpa [hxu] using hx
      obtain ⟨a, ha⟩ := hinv.c2 x hx_old
      exact ⟨a, by rw [s2 x (Or.inr hx_old)]; exact ha⟩
  · intro v p hv
    by_cases hq : (settleH net h st u du).pred v = st.pred v
    · rw [hq] at hv
      obtain ⟨y, hy⟩ := hinv.c3 v p hv
      exact s3 v y hy
    · exact relaxAllH_pred h u du (nextEdges net u) { st with vis := fun z => if z = u then true else st.vis z } v hq

/-- the flags left by `run_routing_forward` in A* mode are on nodes joined to the source only, whatever the heuristic -/
theorem forwardH_invC (net : Net W) (h : Nat → W) (s : Nat) (tg : Option Nat) (cut : Option W) :
    InvC net s (forwardH net h tg cut net.n (St.init s) []).1 := by
  rw [forwardH_eq_loopG]
  exact loopG_preserves _ _ (InvC net s) (fun st u du hi hp => settleH_invC net h s st hi u du hp) tg cut net.n _ _
    (invC_init net s)
end TV.Graph
