import TracklibVerif.Lemmas.GraphPath
import TracklibVerif.Model.GraphAStar
/-! Lemmas for C06 about the A* branch of `run_routing_forward` (`forwardH`, `Model/GraphAStar.lean`: label `g`, queue
priority `g + h`), valid for ANY heuristic: what the queue pops, the loop's end states (a stop test fired / queue
exhausted), the recorded entries, reachability of the labelled nodes, and the case `heuristic = 0`, in which the loop is
the Dijkstra loop. (Exactness for a consistent heuristic: `Lemmas/GraphAStarFix.lean`.) -/
set_option linter.unusedSectionVars false
namespace TV.Graph
variable {W : Type} [LinearOrder W] [Add W] [Zero W] [WalkAdd W]

/-- what `popMinKey` returns: nothing iff no unsettled node below `k` is labelled; otherwise an unsettled labelled node
with its label, of minimal priority `label + h` -/
theorem popMinKey_spec (h : Nat → W) (st : St W) (k : Nat) :
    (popMinKey h st k = none → ∀ v, v < k → st.vis v = false → st.d v = none) ∧
    (∀ u x, popMinKey h st k = some (u, x) → u < k ∧ st.vis u = false ∧ st.d u = some x ∧
        ∀ v y, v < k → st.vis v = false → st.d v = some y → x + h u ≤ y + h v) := by
  induction k with
  | zero => exact ⟨fun _ v hv => by omega, fun u x hq => by simp [popMinKey] at hq⟩
  | succ k ih =>
    obtain ⟨ih1, ih2⟩ := ih
    unfold popMinKey
    by_cases hv : st.vis k = true
    · simp only [hv, if_true]
      constructor
      · intro hq v hvk hvis
        rcases Nat.lt_succ_iff_lt_or_eq.mp hvk with h' | h'
        · exact ih1 hq v h' hvis
        · subst h'; rw [hv] at hvis; cases hvis
      · intro u x hq
        obtain ⟨a, b, c, d⟩ := ih2 u x hq
        refine ⟨by omega, b, c, ?_⟩
        intro v y hvk hvis hd
        rcases Nat.lt_succ_iff_lt_or_eq.mp hvk with h' | h'
        · exact d v y h' hvis hd
        · subst h'; rw [hv] at hvis; cases hvis
    · have hv' : st.vis k = false := by cases hq : st.vis k <;> simp_all
      simp only [hv', Bool.false_eq_true, if_false]
      cases hd : st.d k with
      | none =>
        simp only []
        constructor
        · intro hq v hvk hvis
          rcases Nat.lt_succ_iff_lt_or_eq.mp hvk with h' | h'
          · exact ih1 hq v h' hvis
          · subst h'; exact hd
        · intro u x hq
          obtain ⟨a, b, c, d⟩ := ih2 u x hq
          refine ⟨by omega, b, c, ?_⟩
          intro v y hvk hvis hdv
          rcases Nat.lt_succ_iff_lt_or_eq.mp hvk with h' | h'
          · exact d v y h' hvis hdv
          · subst h'; rw [hd] at hdv; cases hdv
      | some xk =>
        simp only []
        cases hb : popMinKey h st k with
        | none =>
          simp only []
          constructor
          · intro hq; cases hq
          · intro u x hq
            simp only [Option.some.injEq, Prod.mk.injEq] at hq
            obtain ⟨rfl, rfl⟩ := hq
            refine ⟨by omega, hv', hd, ?_⟩
            intro v y hvk hvis hdv
            rcases Nat.lt_succ_iff_lt_or_eq.mp hvk with h' | h'
            · have := ih1 hb v h' hvis; rw [this] at hdv; cases hdv
            · subst h'; rw [hd] at hdv; cases hdv; exact le_refl _
        | some p =>
          obtain ⟨ub, yb⟩ := p
          obtain ⟨a, b, c, d⟩ := ih2 ub yb hb
          simp only []
          by_cases hlt : xk + h k < yb + h ub
          · simp only [hlt, if_true]
            constructor
            · intro hq; cases hq
            · intro u x hq
              simp only [Option.some.injEq, Prod.mk.injEq] at hq
              obtain ⟨rfl, rfl⟩ := hq
              refine ⟨by omega, hv', hd, ?_⟩
              intro v y hvk hvis hdv
              rcases Nat.lt_succ_iff_lt_or_eq.mp hvk with h' | h'
              · exact le_trans (le_of_lt hlt) (d v y h' hvis hdv)
              · subst h'; rw [hd] at hdv; cases hdv; exact le_refl _
          · simp only [hlt, if_false]
            constructor
            · intro hq; cases hq
            · intro u x hq
              simp only [Option.some.injEq, Prod.mk.injEq] at hq
              obtain ⟨rfl, rfl⟩ := hq
              refine ⟨by omega, b, c, ?_⟩
              intro v y hvk hvis hdv
              rcases Nat.lt_succ_iff_lt_or_eq.mp hvk with h' | h'
              · exact d v y h' hvis hdv
              · subst h'; rw [hd] at hdv; cases hdv; exact not_lt.mp hlt

theorem popKey_facts {h : Nat → W} {st : St W} {k u : Nat} {du : W} (hp : popMinKey h st k = some (u, du)) :
    u < k ∧ st.vis u = false ∧ st.d u = some du :=
  ⟨((popMinKey_spec h st k).2 u du hp).1, ((popMinKey_spec h st k).2 u du hp).2.1, ((popMinKey_spec h st k).2 u du hp).2.2.1⟩

/-! ### `heuristic = 0`: the loop is the Dijkstra loop -/

theorem popMinKey_zero (hadd : ∀ a : W, a + 0 = a) (h : Nat → W) (hz : ∀ v, h v = 0) (st : St W) (k : Nat) :
    popMinKey h st k = popMinAux st k := by
  induction k with
  | zero => rfl
  | succ k ih =>
    unfold popMinKey popMinAux
    simp only [ih, hz, hadd]
    by_cases hv : st.vis k = true
    · simp only [hv, if_true]
    · simp only [hv, if_false]
      cases st.d k with
      | none => rfl
      | some x => cases popMinAux st k <;> rfl

theorem forwardH_zero (hadd : ∀ a : W, a + 0 = a) (net : Net W) (h : Nat → W) (hz : ∀ v, h v = 0) (tg : Option Nat)
    (cut : Option W) (f : Nat) (st : St W) (out : List (Nat × W)) :
    forwardH net h tg cut f st out = forward net tg cut f st out := by
  induction f generalizing st out with
  | zero => rfl
  | succ f ih =>
    unfold forwardH forward
    rw [popMinKey_zero hadd h hz]
    cases popMinAux st net.n with
    | none => rfl
    | some p =>
      obtain ⟨u, du⟩ := p
      simp only [ih]

/-! ### the loop over an abstract "pop" and "settle": how it can end -/

/-- the `while len(fil) != 0` loop of `run_routing_forward` with the queue's choice and the body abstracted -/
def loopG (pop : St W → Option (Nat × W)) (stl : St W → Nat → W → St W) (target : Option Nat) (cut : Option W) :
    Nat → St W → List (Nat × W) → St W × List (Nat × W)
  | 0, st, out => (st, out)
  | f+1, st, out =>
    match pop st with
    | none => (st, out)
    | some (u, du) =>
      if stops target cut u du then (st, out)
      else loopG pop stl target cut f (stl st u du) (out ++ [(u, du)])

theorem forwardH_eq_loopG (net : Net W) (h : Nat → W) (tg : Option Nat) (cut : Option W) (f : Nat) (st : St W)
    (out : List (Nat × W)) :
    forwardH net h tg cut f st out = loopG (fun st => popMinKey h st net.n) (settle net) tg cut f st out := by
  induction f generalizing st out with
  | zero => rfl
  | succ f ih =>
    unfold forwardH loopG
    cases popMinKey h st net.n with
    | none => rfl
    | some p => obtain ⟨u, du⟩ := p; simp only [ih]

/-- anything preserved by one iteration holds when the loop ends, whatever the target and the cut-off -/
theorem loopG_preserves (pop : St W → Option (Nat × W)) (stl : St W → Nat → W → St W) (Q : St W → Prop)
    (hQ : ∀ st u du, Q st → pop st = some (u, du) → Q (stl st u du))
    (tg : Option Nat) (cut : Option W) (f : Nat) (st : St W) (out : List (Nat × W)) (h0 : Q st) :
    Q (loopG pop stl tg cut f st out).1 := by
  induction f generalizing st out with
  | zero => exact h0
  | succ f ih =>
    unfold loopG
    cases hp : pop st with
    | none => exact h0
    | some p =>
      obtain ⟨u, du⟩ := p
      simp only []
      split
      · exact h0
      · exact ih _ _ (hQ st u du h0 hp)

/-- without a cut-off the loop ends with the target on top of the queue, or with nothing left to pop, or (fuel) with
every node settled -/
theorem loopG_end (n : Nat) (pop : St W → Option (Nat × W)) (stl : St W → Nat → W → St W)
    (hpop : ∀ st u du, pop st = some (u, du) → u < n ∧ st.vis u = false)
    (hvis : ∀ st u du z, (stl st u du).vis z = if z = u then true else st.vis z)
    (t : Nat) (f : Nat) (st : St W) (out : List (Nat × W)) (hf : cnt st n ≤ f) :
    (∃ du, pop (loopG pop stl (some t) none f st out).1 = some (t, du)) ∨
      pop (loopG pop stl (some t) none f st out).1 = none ∨ cnt (loopG pop stl (some t) none f st out).1 n = 0 := by
  induction f generalizing st out with
  | zero => right; right; simp only [loopG]; omega
  | succ f ih =>
    unfold loopG
    cases hp : pop st with
    | none => right; left; exact hp
    | some p =>
      obtain ⟨u, du⟩ := p
      simp only []
      by_cases hut : u = t
      · subst hut
        simp only [stops, Bool.false_or, decide_true, if_true]
        left; exact ⟨du, hp⟩
      · simp only [stops, Bool.false_or, hut, decide_false, Bool.false_eq_true, if_false]
        apply ih
        obtain ⟨hu, huv⟩ := hpop st u du hp
        have := cnt_mark st (stl st u du) u huv (hvis st u du) n
        simp only [hu, if_true] at this
        omega

/-- the loop ends because a stop test fired on the node on top of the queue, or with nothing left to pop, or (fuel)
with every node settled — any target, any cut-off -/
theorem loopG_stop (n : Nat) (pop : St W → Option (Nat × W)) (stl : St W → Nat → W → St W)
    (hpop : ∀ st u du, pop st = some (u, du) → u < n ∧ st.vis u = false)
    (hvis : ∀ st u du z, (stl st u du).vis z = if z = u then true else st.vis z)
    (tg : Option Nat) (cut : Option W) (f : Nat) (st : St W) (out : List (Nat × W)) (hf : cnt st n ≤ f) :
    (∃ u du, pop (loopG pop stl tg cut f st out).1 = some (u, du) ∧ stops tg cut u du = true) ∨
      pop (loopG pop stl tg cut f st out).1 = none ∨ cnt (loopG pop stl tg cut f st out).1 n = 0 := by
  induction f generalizing st out with
  | zero => right; right; simp only [loopG]; omega
  | succ f ih =>
    unfold loopG
    cases hp : pop st with
    | none => right; left; exact hp
    | some p =>
      obtain ⟨u, du⟩ := p
      simp only []
      by_cases hstop : stops tg cut u du = true
      · simp only [hstop, if_true]
        left; exact ⟨u, du, hp, hstop⟩
      · simp only [hstop, Bool.false_eq_true, if_false]
        apply ih
        obtain ⟨hu, huv⟩ := hpop st u du hp
        have := cnt_mark st (stl st u du) u huv (hvis st u du) n
        simp only [hu, if_true] at this
        omega

/-- for any target and cut-off: the recorded entries are exactly the visited nodes with their labels, and every visited
node's label is within the cut-off (`forward_rec` of `Lemmas/GraphSessionQ.lean` for an abstract queue) -/
theorem loopG_rec (pop : St W → Option (Nat × W)) (stl : St W → Nat → W → St W)
    (hpop : ∀ st u du, pop st = some (u, du) → st.d u = some du)
    (hvis : ∀ st u du z, (stl st u du).vis z = if z = u then true else st.vis z)
    (hlab : ∀ st u du z, (z = u ∨ st.vis z = true) → (stl st u du).d z = st.d z)
    (tgt : Option Nat) (cut : Option W) (f : Nat) (st : St W) (out : List (Nat × W))
    (hout : ∀ u y, (u, y) ∈ out ↔ (st.vis u = true ∧ st.d u = some y))
    (hcut : ∀ u y, st.vis u = true → st.d u = some y → Within cut y) :
    (∀ u y, (u, y) ∈ (loopG pop stl tgt cut f st out).2 ↔
      ((loopG pop stl tgt cut f st out).1.vis u = true ∧ (loopG pop stl tgt cut f st out).1.d u = some y)) ∧
    (∀ u y, (loopG pop stl tgt cut f st out).1.vis u = true → (loopG pop stl tgt cut f st out).1.d u = some y →
      Within cut y) := by
  induction f generalizing st out with
  | zero => exact ⟨hout, hcut⟩
  | succ f ih =>
    unfold loopG
    cases hp : pop st with
    | none => exact ⟨hout, hcut⟩
    | some p =>
      obtain ⟨u0, du⟩ := p
      have hu0d := hpop st u0 du hp
      simp only []
      by_cases hstop : stops tgt cut u0 du = true
      · simp only [hstop, if_true]; exact ⟨hout, hcut⟩
      · simp only [hstop, Bool.false_eq_true, if_false]
        have hwdu : Within cut du := by
          intro c hc
          have : ¬ (c < du) := by
            intro hlt; apply hstop; simp [stops, hc, hlt]
          exact not_lt.mp this
        have s1 := hvis st u0 du
        have s2 := hlab st u0 du
        apply ih (stl st u0 du) (out ++ [(u0, du)])
        · intro v z
          rw [List.mem_append, List.mem_singleton, s1 v]
          constructor
          · rintro (h | h)
            · obtain ⟨a, b⟩ := (hout v z).1 h
              refine ⟨by split <;> simp [a], ?_⟩
              rw [s2 v (Or.inr a)]; exact b
            · simp only [Prod.mk.injEq] at h
              obtain ⟨rfl, rfl⟩ := h
              exact ⟨by simp, by rw [s2 v (Or.inl rfl)]; exact hu0d⟩
          · rintro ⟨a, b⟩
            by_cases hvu : v = u0
            · subst hvu
              rw [s2 v (Or.inl rfl), hu0d] at b
              cases b
              exact Or.inr rfl
            · simp only [hvu, if_false] at a
              rw [s2 v (Or.inr a)] at b
              exact Or.inl ((hout v z).2 ⟨a, b⟩)
        · intro v z a b
          rw [s1 v] at a
          by_cases hvu : v = u0
          · subst hvu
            rw [s2 v (Or.inl rfl), hu0d] at b
            cases b
            exact hwdu
          · simp only [hvu, if_false] at a
            rw [s2 v (Or.inr a)] at b
            exact hcut v z a b

/-! ### any heuristic: labels are weights of walks; without a cut-off the target is labelled iff it can be reached -/

/-- invariants of the loop that do not depend on the order in which the queue is emptied: the source is labelled, the
arcs out of settled nodes lead to labelled nodes, every label is the weight of a walk, settled nodes are labelled,
labels sit on real nodes -/
structure InvA (net : Net W) (s : Nat) (st : St W) : Prop where
  a1 : ∃ y, st.d s = some y
  a2 : ∀ u, st.vis u = true → ∀ v w, Arc net u v w → ∃ y, st.d v = some y
  a3 : ∀ v y, st.d v = some y → Walk net s v y
  a5 : ∀ u, st.vis u = true → ∃ x, st.d u = some x
  a6 : ∀ v y, st.d v = some y → v < net.n

theorem invA_init (net : Net W) (s : Nat) (hs : s < net.n) : InvA net s (St.init s) := by
  refine ⟨⟨0, by simp [St.init]⟩, ?_, ?_, ?_, ?_⟩
  · intro u hu; simp [St.init] at hu
  · intro v y hv
    simp only [St.init] at hv
    split at hv
    · rename_i hq; subst hq; cases hv; exact Walk.nil
    · cases hv
  · intro u hu; simp [St.init] at hu
  · intro v y hv
    simp only [St.init] at hv
    split at hv
    · rename_i hq; rw [hq]; exact hs
    · cases hv

theorem settle_invA (net : Net W) (hnet : WFNet net) (s : Nat) (st : St W)
    (hinv : InvA net s st) (u : Nat) (du : W) (hud : st.d u = some du) :
    InvA net s (settle net st u du) := by
  obtain ⟨s1, s2, s3, s4⟩ := settle_spec net st u du
  obtain ⟨_, _, _, _, r5⟩ := relaxAll_spec u du (nextEdges net u)
    { st with vis := fun z => if z = u then true else st.vis z }
  refine ⟨?_, ?_, ?_, ?_, ?_⟩
  · obtain ⟨y, hy⟩ := hinv.a1
    obtain ⟨y', hy', _⟩ := s3 s y hy
    exact ⟨y', hy'⟩
  · intro x hx v w ha
    by_cases hxu : x = u
    · subst hxu
      obtain ⟨e, he, ho, _⟩ := (arc_iff_next net x v w).1 ha
      by_cases hvv : (if other e x = x then true else st.vis (other e x)) = false
      · obtain ⟨y, hy, _⟩ := r5 e he hvv
        rw [← ho]; exact ⟨y, hy⟩
      · have hold : ∃ y, st.d (other e x) = some y := by
          by_cases hq : other e x = x
          · rw [hq]; exact ⟨du, hud⟩
          · simp only [hq, if_false] at hvv
            exact hinv.a5 _ (by cases hb : st.vis (other e x) <;> simp_all)
        obtain ⟨y, hy⟩ := hold
        obtain ⟨y', hy', _⟩ := s3 _ y hy
        rw [← ho]; exact ⟨y', hy'⟩
    · have hx_old : st.vis x = true := by rw [s1 x] at hx; simpa [hxu] using hx
      obtain ⟨y, hy⟩ := hinv.a2 x hx_old v w ha
      obtain ⟨y', hy', _⟩ := s3 v y hy
      exact ⟨y', hy'⟩
  · intro v y hv
    rcases s4 v y hv with h' | ⟨e, he, h1, h2, _⟩
    · exact hinv.a3 v y h'
    · rw [h2]
      exact Walk.snoc (hinv.a3 u du hud) ((arc_iff_next net u v e.w).2 ⟨e, he, h1.symm, rfl⟩)
  · intro x hx
    by_cases hxu : x = u
    · subst hxu; exact ⟨du, by rw [s2 x (Or.inl rfl)]; exact hud⟩
    · have hx_old : st.vis x = true := by rw [s1 x] at hx; simpa [hxu] using hx
      obtain ⟨a, ha⟩ := hinv.a5 x hx_old
      exact ⟨a, by rw [s2 x (Or.inr hx_old)]; exact ha⟩
  · intro v y hv
    rcases s4 v y hv with h' | ⟨e, he, h1, _, _⟩
    · exact hinv.a6 v y h'
    · exact (arc_wf hnet ((arc_iff_next net u v e.w).2 ⟨e, he, h1.symm, rfl⟩)).1

/-- when every labelled node is settled, every node joined to the source by a walk is labelled -/
theorem invA_closed (net : Net W) (s : Nat) (st : St W) (hinv : InvA net s st)
    (hdone : ∀ v y, st.d v = some y → st.vis v = true) (v : Nat) (c : W) (hw : Walk net s v c) :
    ∃ y, st.d v = some y := by
  induction hw with
  | nil => exact hinv.a1
  | snoc _ ha ih =>
    obtain ⟨y, hy⟩ := ih
    exact hinv.a2 _ (hdone _ y hy) _ _ ha

/-- `shortest_distance(s, t)` in A* mode, ANY heuristic (consistent or not, of any sign): a reported value is the weight
of a permitted walk (hence never below the minimum), with any cut-off; and without a cut-off the sentinel is reported
exactly when no walk exists. -/
theorem shortestDistanceH_any (net : Net W) (hnet : WFNet net) (h : Nat → W) (s t : Nat) (hs : s < net.n) :
    (∀ cut y, shortestDistanceH net h s t cut = some y → Walk net s t y) ∧
    (shortestDistanceH net h s t none = none ↔ ¬ Reachable net s t) := by
  have hQ : ∀ st u du, InvA net s st → popMinKey h st net.n = some (u, du) → InvA net s (settle net st u du) :=
    fun st u du hi hp => settle_invA net hnet s st hi u du (popKey_facts hp).2.2
  constructor
  · intro cut y hy
    unfold shortestDistanceH runForwardH at hy
    rw [forwardH_eq_loopG] at hy
    exact (loopG_preserves _ _ (InvA net s) hQ (some t) cut net.n _ _ (invA_init net s hs)).a3 t y hy
  · unfold shortestDistanceH runForwardH
    rw [forwardH_eq_loopG]
    have hinv := loopG_preserves _ _ (InvA net s) hQ (some t) none net.n (St.init s) [] (invA_init net s hs)
    have hend := loopG_end net.n (fun st => popMinKey h st net.n) (settle net)
      (fun st u du hp => ⟨(popKey_facts hp).1, (popKey_facts hp).2.1⟩)
      (fun st u du z => (settle_spec net st u du).1 z)
      t net.n (St.init s) [] (cnt_le _ _)
    generalize (loopG (fun st => popMinKey h st net.n) (settle net) (some t) none net.n (St.init s) []).1 = r at hinv hend
    constructor
    · intro hn ⟨c, hc⟩
      have hdone : ∀ v y, r.d v = some y → r.vis v = true := by
        rcases hend with ⟨du, hp⟩ | hp | hc0
        · rw [(popKey_facts hp).2.2] at hn; cases hn
        · intro v y hv
          by_contra hq
          have hq' : r.vis v = false := by cases hx : r.vis v <;> simp_all
          rw [(popMinKey_spec h r net.n).1 hp v (hinv.a6 v y hv) hq'] at hv; cases hv
        · intro v y hv
          exact cnt_zero_all r net.n hc0 v (hinv.a6 v y hv)
      obtain ⟨y, hy⟩ := invA_closed net s r hinv hdone t c hc
      rw [hn] at hy; cases hy
    · intro hn
      cases hd : r.d t with
      | none => rfl
      | some y => exact absurd ⟨y, hinv.a3 t y hd⟩ hn

/-! ### the flags an A* search leaves sit on nodes joined to the source (so: on nodes of `NODES`) -/

/-- every labelled node is joined to the source by a walk; settled nodes and nodes with a predecessor are labelled -/
structure InvC (net : Net W) (s : Nat) (st : St W) : Prop where
  c1 : ∀ v y, st.d v = some y → Reachable net s v
  c2 : ∀ v, st.vis v = true → ∃ y, st.d v = some y
  c3 : ∀ v p, st.pred v = some p → ∃ y, st.d v = some y

theorem invC_init (net : Net W) (s : Nat) : InvC net s (St.init s) := by
  refine ⟨?_, ?_, ?_⟩
  · intro v y hv
    simp only [St.init] at hv
    split at hv
    · rename_i hq; subst hq; exact ⟨0, Walk.nil⟩
    · cases hv
  · intro v hv; simp [St.init] at hv
  · intro v p hv; simp [St.init] at hv

theorem settle_invC (net : Net W) (s : Nat) (st : St W) (hinv : InvC net s st) (u : Nat) (du : W)
    (hud : st.d u = some du) : InvC net s (settle net st u du) := by
  obtain ⟨s1, s2, s3, s4⟩ := settle_spec net st u du
  refine ⟨?_, ?_, ?_⟩
  · intro v y hv
    rcases s4 v y hv with h' | ⟨e, he, h1, _, _⟩
    · exact hinv.c1 v y h'
    · obtain ⟨c, hc⟩ := hinv.c1 u du hud
      exact ⟨c + e.w, Walk.snoc hc ((arc_iff_next net u v e.w).2 ⟨e, he, h1.symm, rfl⟩)⟩
  · intro x hx
    by_cases hxu : x = u
    · subst hxu; exact ⟨du, by rw [s2 x (Or.inl rfl)]; exact hud⟩
    · have hx_old : st.vis x = true := by rw [s1 x] at hx; simpa [hxu] using hx
      obtain ⟨a, ha⟩ := hinv.c2 x hx_old
      exact ⟨a, by rw [s2 x (Or.inr hx_old)]; exact ha⟩
  · intro v p hv
    obtain ⟨a, i⟩ := p
    rcases (relaxAll_pred u du (nextEdges net u) { st with vis := fun z => if z = u then true else st.vis z }).1 v a i hv with
      ⟨h1, h2⟩ | ⟨_, e, _, _, _, _, h5, _⟩
    · obtain ⟨y, hy⟩ := hinv.c3 v (a, i) h1
      exact ⟨y, by unfold settle; rw [h2]; exact hy⟩
    · exact ⟨du + e.w, h5⟩

/-- the flags left by `run_routing_forward` in A* mode are on nodes joined to the source only, whatever the heuristic -/
theorem forwardH_invC (net : Net W) (h : Nat → W) (s : Nat) (tg : Option Nat) (cut : Option W) :
    InvC net s (forwardH net h tg cut net.n (St.init s) []).1 := by
  rw [forwardH_eq_loopG]
  exact loopG_preserves _ _ (InvC net s) (fun st u du hi hp => settle_invC net s st hi u du (popKey_facts hp).2.2) tg cut net.n _ _
    (invC_init net s)
end TV.Graph
