import TracklibVerif.Model.Rpn
namespace TV.Rpn
variable (lvl : Char → Nat) (G : Nat)

theorem bal_append (xs ys : List Tok) : bal (xs ++ ys) = bal xs + bal ys := by
  induction xs with
  | nil => simp [bal]
  | cons t ts ih => cases t <;> simp [bal, ih] <;> omega

/-- every suffix has at least as many ')' as '(' -/
def SN : List Tok → Prop
  | [] => True
  | t :: ts => 0 ≤ bal (t :: ts) ∧ SN ts

theorem SN_append {xs ys : List Tok} (hx : SN xs) (hy : SN ys) (hb : 0 ≤ bal ys) : SN (xs ++ ys) := by
  induction xs with
  | nil => simpa using hy
  | cons t ts ih =>
    obtain ⟨h1, h2⟩ := hx
    refine ⟨?_, ih h2⟩
    have := bal_append (t :: ts) ys
    rw [List.cons_append] at this
    show 0 ≤ bal (t :: (ts ++ ys))
    omega

/-- inside `… ++ [rp]` (one more closing parenthesis to the right) nothing is at depth 0 -/
theorem splitR_shift (g : Nat) (ts suf : List Tok) (hs : SN ts) (hsuf : 0 < bal suf)
    (hn : splitR lvl g suf = none) : splitR lvl g (ts ++ suf) = none := by
  induction ts with
  | nil => simpa using hn
  | cons t ts ih =>
    obtain ⟨h1, h2⟩ := hs
    simp only [List.cons_append, splitR, ih h2]
    cases t with
    | op c =>
      have hb : bal (ts ++ suf) ≠ 0 := by
        have := bal_append ts suf
        have h1' : 0 ≤ bal ts := by simpa [bal] using h1
        omega
      simp [hb]
    | _ => rfl

theorem splitR_wrapped (g : Nat) (ts : List Tok) (hs : SN ts) :
    splitR lvl g (Tok.lp :: (ts ++ [Tok.rp])) = none := by
  have h : splitR lvl g (ts ++ [Tok.rp]) = none :=
    splitR_shift lvl g ts [Tok.rp] hs (by simp [bal]) (by simp [splitR])
  simp [splitR, h]

/-- splitting a concatenation whose right part is balanced -/
theorem splitR_append (g : Nat) (xs ys : List Tok) (hb : bal ys = 0) :
    splitR lvl g (xs ++ ys) =
      match splitR lvl g ys with
      | some (l, c, r) => some (xs ++ l, c, r)
      | none => (splitR lvl g xs).map (fun (l, c, r) => (l, c, r ++ ys)) := by
  induction xs with
  | nil => cases h : splitR lvl g ys with
    | none => simp [splitR, h]
    | some x => obtain ⟨l, c, r⟩ := x; simp [h]
  | cons t ts ih =>
    simp only [List.cons_append, splitR, ih]
    cases hy : splitR lvl g ys with
    | some x => obtain ⟨l, c, r⟩ := x; simp
    | none =>
      simp only []
      cases hx : splitR lvl g ts with
      | some x => obtain ⟨l, c, r⟩ := x; simp
      | none =>
        simp only [Option.map_none]
        cases t with
        | op c =>
          have : bal (ts ++ ys) = bal ts := by rw [bal_append]; omega
          by_cases hc : lvl c = g ∧ bal ts = 0
          · simp [this, hc]
          · simp [this, hc]
        | _ => simp
end TV.Rpn

namespace TV.Rpn
variable (lvl : Char → Nat) (G : Nat)

theorem bal_wrap (b : Bool) (ts : List Tok) : bal (wrap b ts) = bal ts := by
  unfold wrap; split
  · simp [bal, bal_append]
  · rfl

theorem SN_wrap (b : Bool) (ts : List Tok) (hs : SN ts) (hb : bal ts = 0) : SN (wrap b ts) := by
  unfold wrap; split
  · refine ⟨?_, SN_append hs (by simp [SN, bal]) (by simp [bal])⟩
    simp [bal, bal_append, hb]
  · exact hs

theorem shw_bal_SN (e : E) : bal (shw lvl G e) = 0 ∧ SN (shw lvl G e) := by
  induction e with
  | atom s => simp [shw, bal, SN]
  | par e ih =>
    have := SN_wrap true _ ih.2 ih.1
    have hb := bal_wrap true (shw lvl G e)
    simp only [wrap, if_true] at this hb
    exact ⟨by simp [shw]; rw [hb]; exact ih.1, by simpa [shw] using this⟩
  | bin c l r ihl ihr =>
    have bl := bal_wrap (decide (lv lvl G l < lvl c)) (shw lvl G l)
    have br := bal_wrap (decide (lv lvl G r ≤ lvl c)) (shw lvl G r)
    have sl := SN_wrap (decide (lv lvl G l < lvl c)) _ ihl.2 ihl.1
    have sr := SN_wrap (decide (lv lvl G r ≤ lvl c)) _ ihr.2 ihr.1
    constructor
    · simp only [shw, bal_append, bal, bl, br, ihl.1, ihr.1]; omega
    · simp only [shw]
      apply SN_append sl
      · refine ⟨?_, sr⟩
        simp [bal, br, ihr.1]
      · simp [bal, br, ihr.1]

/-- no operator of a group below the root's is at depth 0 -/
theorem no_split_below (e : E) (g : Nat) (hg : g < lv lvl G e) : splitR lvl g (shw lvl G e) = none := by
  induction e with
  | atom s => simp [shw, splitR]
  | par e _ => simpa [shw] using splitR_wrapped lvl g _ (shw_bal_SN lvl G e).2
  | bin c l r ihl ihr =>
    simp only [lv] at hg
    have hr : splitR lvl g (wrap (decide (lv lvl G r ≤ lvl c)) (shw lvl G r)) = none := by
      unfold wrap; split
      · exact splitR_wrapped lvl g _ (shw_bal_SN lvl G r).2
      · rename_i h; simp only [decide_eq_true_eq] at h; exact ihr (by omega)
    have hl : splitR lvl g (wrap (decide (lv lvl G l < lvl c)) (shw lvl G l)) = none := by
      unfold wrap; split
      · exact splitR_wrapped lvl g _ (shw_bal_SN lvl G l).2
      · rename_i h; simp only [decide_eq_true_eq] at h; exact ihl (by omega)
    have hbr : bal (wrap (decide (lv lvl G r ≤ lvl c)) (shw lvl G r)) = 0 := by
      rw [bal_wrap]; exact (shw_bal_SN lvl G r).1
    have hmid : splitR lvl g (Tok.op c :: wrap (decide (lv lvl G r ≤ lvl c)) (shw lvl G r)) = none := by
      simp only [splitR, hr]
      have : ¬ (lvl c = g ∧ bal (wrap (decide (lv lvl G r ≤ lvl c)) (shw lvl G r)) = 0) := by omega
      simp [this]
    simp only [shw]
    rw [splitR_append lvl g _ _ (by simp [bal, hbr])]
    simp [hmid, hl]

/-- the root operator is the rightmost depth-0 operator of its group -/
theorem split_root (c : Char) (l r : E) :
    splitR lvl (lvl c) (shw lvl G (E.bin c l r)) =
      some (wrap (decide (lv lvl G l < lvl c)) (shw lvl G l), c, wrap (decide (lv lvl G r ≤ lvl c)) (shw lvl G r)) := by
  have hr : splitR lvl (lvl c) (wrap (decide (lv lvl G r ≤ lvl c)) (shw lvl G r)) = none := by
    unfold wrap; split
    · exact splitR_wrapped lvl _ _ (shw_bal_SN lvl G r).2
    · rename_i h; simp only [decide_eq_true_eq] at h; exact no_split_below lvl G r _ (by omega)
  have hbr : bal (wrap (decide (lv lvl G r ≤ lvl c)) (shw lvl G r)) = 0 := by
    rw [bal_wrap]; exact (shw_bal_SN lvl G r).1
  have hmid : splitR lvl (lvl c) (Tok.op c :: wrap (decide (lv lvl G r ≤ lvl c)) (shw lvl G r)) =
      some ([], c, wrap (decide (lv lvl G r ≤ lvl c)) (shw lvl G r)) := by
    simp [splitR, hr, hbr]
  simp only [shw]
  rw [splitR_append lvl _ _ _ (by simp [bal, hbr])]
  simp [hmid]
end TV.Rpn

namespace TV.Rpn
variable (lvl : Char → Nat) (G : Nat)

theorem firstSplit_none (ts : List Tok) (h : ∀ g, splitR lvl g ts = none) (k g : Nat) :
    firstSplit lvl k g ts = none := by
  induction k generalizing g with
  | zero => rfl
  | succ k ih => simp [firstSplit, h g, ih]

theorem firstSplit_some (ts : List Tok) (x : List Tok × Char × List Tok) (g0 : Nat)
    (hx : splitR lvl g0 ts = some x) (hbelow : ∀ g, g < g0 → splitR lvl g ts = none)
    (k g : Nat) (hg : g ≤ g0) (hk : g0 < g + k) : firstSplit lvl k g ts = some x := by
  induction k generalizing g with
  | zero => omega
  | succ k ih =>
    by_cases h : g = g0
    · subst h; simp [firstSplit, hx]
    · simp only [firstSplit, hbelow g (by omega)]
      exact ih (g+1) (by omega) (by omega)

theorem size_pos (e : E) : 0 < size e := by cases e <;> simp [size]

theorem rpn_wrap (b : Bool) (e : E) (post_e : List String) (f : Nat)
    (h : ∀ f', f ≤ f' → rpn lvl G f' (shw lvl G e) = post_e) :
    ∀ f', f + 1 ≤ f' → rpn lvl G f' (wrap b (shw lvl G e)) = post_e := by
  intro f' hf
  cases b with
  | false => simpa [wrap] using h f' (by omega)
  | true =>
    obtain ⟨f'', rfl⟩ : ∃ f'', f' = f'' + 1 := ⟨f' - 1, by omega⟩
    have hn := firstSplit_none lvl (wrap true (shw lvl G e))
      (fun g => by simpa [wrap] using splitR_wrapped lvl g _ (shw_bal_SN lvl G e).2) G 0
    simp only [wrap, if_true] at hn ⊢
    simp only [rpn, hn, List.dropLast_concat]
    exact h f'' (by omega)

theorem rpn_shw (e : E) (hwf : WF lvl G e) : ∀ f, size e ≤ f → rpn lvl G f (shw lvl G e) = post e := by
  induction e with
  | atom s =>
    intro f hf
    obtain ⟨f', rfl⟩ : ∃ f', f = f' + 1 := ⟨f - 1, by simp [size] at hf; omega⟩
    have hn := firstSplit_none lvl [Tok.atom s] (fun g => by simp [splitR]) G 0
    simp [shw, rpn, hn, render, post]
  | par e ih =>
    intro f hf
    have := rpn_wrap lvl G true e (post e) (size e) (ih hwf) f (by simp [size] at hf; omega)
    simpa [wrap, shw, post] using this
  | bin c l r ihl ihr =>
    intro f hf
    obtain ⟨hc, hwl, hwr⟩ := hwf
    obtain ⟨f', rfl⟩ : ∃ f', f = f' + 1 := ⟨f - 1, by simp [size] at hf; omega⟩
    have hsl := size_pos l
    have hsr := size_pos r
    simp only [size] at hf
    have hfs := firstSplit_some lvl (shw lvl G (E.bin c l r)) _ (lvl c) (split_root lvl G c l r)
      (fun g hg => no_split_below lvl G (E.bin c l r) g (by simpa [lv] using hg)) G 0 (by omega) (by omega)
    simp only [rpn, hfs, post]
    rw [rpn_wrap lvl G _ l (post l) (size l) (ihl hwl) f' (by omega),
        rpn_wrap lvl G _ r (post r) (size r) (ihr hwr) f' (by omega)]


/-- instance for the precedence table of `makeRPN` -/
example : rpn pyLvl 9 20 (shw pyLvl 9 (E.bin '-' (E.bin '-' (E.atom "a") (E.atom "b")) (E.atom "c")))
    = ["a", "b", "-", "c", "-"] := by decide
end TV.Rpn
