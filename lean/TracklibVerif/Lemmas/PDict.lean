import TracklibVerif.Model.PDict
import TracklibVerif.Lemmas.Heapq
import Mathlib.Order.Defs.LinearOrder
import Mathlib.Order.Basic
/-! `priority_dict.pop_smallest` returns the key with the smallest `(priority, key)` among the current dict
entries, whatever stale entries the heap holds, provided every dict entry has its heap entry and `_heap` is a
binary heap (`HInv`), which `priority_dict(d)` (`heapify`), `__setitem__` (`heappush` / rebuild) and `pop_smallest`
(`heappop`) maintain. The `heapq` facts come from `Lemmas/Heapq.lean`. -/
namespace TV.PDict
open TV.Heapq
variable {W : Type} [LinearOrder W]

/-- tuple order `(v, k) ≤ (v', k')` -/
def tle (a b : W × Nat) : Prop := a.1 < b.1 ∨ (a.1 = b.1 ∧ a.2 ≤ b.2)

theorem tle_refl (a : W × Nat) : tle a a := Or.inr ⟨rfl, Nat.le_refl _⟩

theorem tle_trans {a b c : W × Nat} (h1 : tle a b) (h2 : tle b c) : tle a c := by
  rcases h1 with h1 | ⟨h1, h1'⟩ <;> rcases h2 with h2 | ⟨h2, h2'⟩
  · exact Or.inl (lt_trans h1 h2)
  · exact Or.inl (by rw [← h2]; exact h1)
  · exact Or.inl (by rw [h1]; exact h2)
  · exact Or.inr ⟨h1.trans h2, Nat.le_trans h1' h2'⟩

theorem tle_antisymm {a b : W × Nat} (h1 : tle a b) (h2 : tle b a) : a = b := by
  rcases h1 with h1 | ⟨h1, h1'⟩ <;> rcases h2 with h2 | ⟨h2, h2'⟩
  · exact absurd (lt_trans h1 h2) (lt_irrefl _)
  · rw [h2] at h1; exact absurd h1 (lt_irrefl _)
  · rw [h1] at h2; exact absurd h2 (lt_irrefl _)
  · exact Prod.ext h1 (Nat.le_antisymm h1' h2')

theorem tlt_true {a b : W × Nat} (h : tlt b a = true) : tle b a := by
  simp only [tlt, Bool.or_eq_true, decide_eq_true_eq, Bool.and_eq_true, Bool.not_eq_true', decide_eq_false_iff_not] at h
  rcases h with h | ⟨h1, h2⟩
  · exact Or.inl h
  · rcases lt_or_eq_of_le (not_lt.mp h1) with h' | h'
    · exact Or.inl h'
    · exact Or.inr ⟨h', Nat.le_of_lt h2⟩

theorem tlt_false {a b : W × Nat} (h : tlt b a = false) : tle a b := by
  simp only [tlt, Bool.or_eq_false_iff, decide_eq_false_iff_not, Bool.and_eq_false_iff, Bool.not_eq_false',
    decide_eq_true_eq] at h
  obtain ⟨h1, h2⟩ := h
  rcases lt_or_eq_of_le (not_lt.mp h1) with h' | h'
  · exact Or.inl h'
  · rcases h2 with h2 | h2
    · rw [h'] at h2; exact absurd h2 (lt_irrefl _)
    · exact Or.inr ⟨h', Nat.le_of_not_lt h2⟩

theorem tlt_of_tle {a b : W × Nat} (h : tle a b) : tlt b a = false := by
  simp only [tlt, Bool.or_eq_false_iff, decide_eq_false_iff_not, Bool.and_eq_false_iff, Bool.not_eq_false',
    decide_eq_true_eq]
  rcases h with h | ⟨h1, h2⟩
  · exact ⟨not_lt.mpr (le_of_lt h), Or.inl h⟩
  · exact ⟨by rw [h1]; exact lt_irrefl _, Or.inr (by omega)⟩

/-- Python's tuple order on `(priority, key)` is a strict weak (indeed total) order: what `heapq` needs -/
theorem tlt_ord : Ord (tlt (W := W)) := by
  constructor
  · intro a b h
    have h1 := tlt_true h
    cases h2 : tlt b a with
    | false => rfl
    | true =>
      have := tle_antisymm h1 (tlt_true h2)
      subst this
      simp [tlt] at h
  · intro a b c h1 h2
    exact tlt_of_tle (tle_trans (tlt_false h1) (tlt_false h2))

theorem lookup_filter_ne (l : List (Nat × W)) (k k' : Nat) :
    lookup (l.filter (fun p => p.1 ≠ k)) k' = if k' = k then none else lookup l k' := by
  induction l with
  | nil => simp [lookup]
  | cons p r ih =>
    obtain ⟨a, v⟩ := p
    by_cases ha : a = k
    · subst ha
      simp only [List.filter, ne_eq, not_true_eq_false, decide_false, ih, lookup]
      by_cases hk : k' = a
      · simp [hk]
      · have : ¬ a = k' := fun h => hk h.symm
        simp [hk, this]
    · simp only [List.filter, ne_eq, ha, not_false_eq_true, decide_true, lookup, ih]
      by_cases hk : a = k'
      · have : ¬ k' = k := by rw [← hk]; exact ha
        simp [hk, this]
      · simp [hk]

theorem lookup_mem (l : List (Nat × W)) (k : Nat) (v : W) (h : lookup l k = some v) : (k, v) ∈ l := by
  induction l with
  | nil => simp [lookup] at h
  | cons p r ih =>
    obtain ⟨a, w⟩ := p
    simp only [lookup] at h
    split at h
    · rename_i ha
      cases h; subst ha; exact List.mem_cons_self
    · exact List.mem_cons_of_mem _ (ih h)

theorem current_iff (dict : List (Nat × W)) (k : Nat) (v : W) : current dict k v = true ↔ lookup dict k = some v := by
  unfold current
  cases lookup dict k with
  | none => simp
  | some v' =>
    simp only [Bool.and_eq_true, Bool.not_eq_true', decide_eq_false_iff_not, Option.some.injEq]
    constructor
    · rintro ⟨h1, h2⟩; exact le_antisymm (not_lt.mp h2) (not_lt.mp h1)
    · intro h; rw [h]; exact ⟨lt_irrefl _, lt_irrefl _⟩

/-- every current dict entry has its heap entry, and `_heap` is a binary heap in tuple order -/
def HInv (pd : PD W) : Prop := (∀ k v, lookup pd.dict k = some v → (v, k) ∈ pd.heap) ∧ IsHeap tlt pd.heap

theorem popLoop_spec (dict : List (Nat × W)) (f : Nat) (heap : List (W × Nat)) (hf : heap.length < f)
    (hinv : ∀ k v, lookup dict k = some v → (v, k) ∈ heap) (hheap : IsHeap tlt heap)
    (k0 : Nat) (v0 : W) (h0 : lookup dict k0 = some v0) :
    ∃ k v rest, popLoop dict f heap = some (k, rest) ∧ lookup dict k = some v ∧
      (∀ k' v', lookup dict k' = some v' → tle (v, k) (v', k')) ∧
      (∀ k' v', k' ≠ k → lookup dict k' = some v' → (v', k') ∈ rest) ∧ IsHeap tlt rest := by
  induction f generalizing heap with
  | zero => omega
  | succ f ih =>
    unfold popLoop
    cases hm : heappop tlt heap with
    | none =>
      have := (heappop_none tlt heap).1 hm
      have h := hinv k0 v0 h0
      rw [this] at h; cases h
    | some p =>
      obtain ⟨m, rest⟩ := p
      obtain ⟨e1, e2, e3, _⟩ := heappop_spec tlt_ord heap hheap m rest hm
      have elen : rest.length + 1 = heap.length := by rw [e1.length_eq]; simp
      have emem : ∀ x, x ∈ heap → x = m ∨ x ∈ rest := by
        intro x hx; have := (e1.mem_iff).1 hx; simpa using this
      simp only []
      by_cases hc : current dict m.2 m.1 = true
      · simp only [hc, if_true]
        have hl := (current_iff dict m.2 m.1).1 hc
        refine ⟨m.2, m.1, rest, rfl, hl, ?_, ?_, e2⟩
        · intro k' v' h; exact tlt_false (e3 _ (hinv k' v' h))
        · intro k' v' hne h
          rcases emem _ (hinv k' v' h) with h' | h'
          · exact absurd (congrArg Prod.snd h') hne
          · exact h'
      · simp only [hc, Bool.false_eq_true, if_false]
        apply ih rest (by omega) _ e2
        intro k v h
        rcases emem _ (hinv k v h) with h' | h'
        · exfalso; apply hc
          rw [current_iff, ← h']; exact h
        · exact h'

/-- `pop_smallest` on a non-empty dict returns the key whose `(priority, key)` is smallest, removes exactly that
key from the dict, and keeps the heap invariant -/
theorem popSmallest_spec (pd : PD W) (hinv : HInv pd) (k0 : Nat) (v0 : W) (h0 : lookup pd.dict k0 = some v0) :
    ∃ k v pd', popSmallest pd = some (k, pd') ∧ lookup pd.dict k = some v ∧
      (∀ k' v', lookup pd.dict k' = some v' → tle (v, k) (v', k')) ∧
      (∀ k', lookup pd'.dict k' = if k' = k then none else lookup pd.dict k') ∧ HInv pd' := by
  obtain ⟨k, v, rest, h1, h2, h3, h4, h5⟩ :=
    popLoop_spec pd.dict (pd.heap.length + 1) pd.heap (by omega) hinv.1 hinv.2 k0 v0 h0
  refine ⟨k, v, _, by unfold popSmallest; rw [h1], h2, h3, fun k' => lookup_filter_ne _ _ _, ?_, h5⟩
  intro k' v' h
  simp only [lookup_filter_ne] at h
  split at h
  · cases h
  · rename_i hne; exact h4 k' v' hne h

/-- `pop_smallest` fails (IndexError) only on an empty dict — the forward loop tests `len(fil) != 0` first -/
theorem popSmallest_none (pd : PD W) (hinv : HInv pd) (h : popSmallest pd = none) : pd.dict = [] := by
  cases hd : pd.dict with
  | nil => rfl
  | cons p r =>
    obtain ⟨a, w⟩ := p
    obtain ⟨k, v, pd', h1, _⟩ := popSmallest_spec pd hinv a w (by rw [hd]; simp [lookup])
    rw [h] at h1; cases h1

theorem rebuild_spec (dict : List (Nat × W)) :
    (∀ k v, lookup dict k = some v → (v, k) ∈ rebuild dict) ∧ IsHeap tlt (rebuild dict) := by
  obtain ⟨a, b⟩ := heapify_spec tlt_ord (dict.map (fun p => (p.2, p.1)))
  refine ⟨?_, a⟩
  intro k v h
  unfold rebuild
  rw [b.mem_iff]
  simp only [List.mem_map]
  exact ⟨(k, v), lookup_mem _ _ _ h, rfl⟩

theorem ofDict_inv (dict : List (Nat × W)) : HInv (ofDict dict) := rebuild_spec dict

theorem lookup_dictSet (l : List (Nat × W)) (k k' : Nat) (v : W) :
    lookup (dictSet l k v) k' = if k' = k then some v else lookup l k' := by
  induction l with
  | nil =>
    simp only [dictSet, lookup]
    by_cases h : k = k'
    · simp [h]
    · have : ¬ k' = k := fun h' => h h'.symm
      simp [h, this]
  | cons p r ih =>
    obtain ⟨a, w⟩ := p
    simp only [dictSet]
    by_cases ha : a = k
    · subst ha
      simp only [if_true, lookup]
      by_cases h : a = k'
      · simp [h]
      · have : ¬ k' = a := fun h' => h h'.symm
        simp [h, this]
    · simp only [ha, if_false, lookup, ih]
      by_cases h : a = k'
      · have : ¬ k' = k := by rw [← h]; exact ha
        simp [h, this]
      · simp [h]

/-- `pd[k] = v` sets the entry, leaves the others, and keeps the heap invariant (push or rebuild) -/
theorem setitem_spec (pd : PD W) (hinv : HInv pd) (k : Nat) (v : W) :
    (∀ k', lookup (setitem pd k v).dict k' = if k' = k then some v else lookup pd.dict k') ∧ HInv (setitem pd k v) := by
  have hl := lookup_dictSet pd.dict k (v := v)
  unfold setitem
  simp only []
  split
  · obtain ⟨p1, p2⟩ := heappush_spec tlt_ord pd.heap (v, k) hinv.2
    refine ⟨fun k' => hl k', ?_, p1⟩
    intro k' v' h
    simp only [] at h ⊢
    rw [hl k'] at h
    rw [p2.mem_iff]
    split at h
    · rename_i hk; cases h; rw [hk]; exact List.mem_cons_self
    · exact List.mem_cons_of_mem _ (hinv.1 k' v' h)
  · exact ⟨fun k' => hl k', rebuild_spec _⟩
end TV.PDict
