import TracklibVerif.Lemmas.GraphAStarFix
import Mathlib.Algebra.Order.Field.Basic
import Mathlib.Tactic.Ring
import Mathlib.Tactic.Linarith
/-! Where the consistency of the A* heuristic of `run_routing_forward` comes from: `Node.distanceTo` is the Euclidean
distance (`sqrt(E**2 + N**2 + U**2)` of the coordinate differences), which is non-negative, 0 from a point to itself and
satisfies the triangle inequality (Cauchy–Schwarz in three dimensions) — for any `sqrt` that is a square root on the
non-negative elements of a linearly ordered field. Hence `astar_wgt × distance to the target` is consistent as soon as
`0 ≤ astar_wgt` and every edge weighs at least `astar_wgt` × the distance between its ends. -/
set_option linter.unusedSectionVars false
namespace TV.Graph
variable {V : Type} [Field V] [LinearOrder V] [IsStrictOrderedRing V]

/-- `sqrt` is a square root on the non-negative elements (what `math.sqrt` is on the reals; `sqrtRat` on rational squares) -/
def IsSqrt (sqrt : V → V) : Prop := ∀ x, 0 ≤ x → 0 ≤ sqrt x ∧ sqrt x * sqrt x = x

theorem sumsq_nonneg (a b c : V) : 0 ≤ a * a + b * b + c * c := by
  nlinarith [mul_self_nonneg a, mul_self_nonneg b, mul_self_nonneg c]

/-- Minkowski's inequality in three dimensions, through Cauchy–Schwarz (Lagrange's identity) -/
theorem sqrt_triangle {sqrt : V → V} (hsq : IsSqrt sqrt) (p1 p2 p3 q1 q2 q3 : V) :
    sqrt ((p1 + q1) * (p1 + q1) + (p2 + q2) * (p2 + q2) + (p3 + q3) * (p3 + q3)) ≤
      sqrt (p1 * p1 + p2 * p2 + p3 * p3) + sqrt (q1 * q1 + q2 * q2 + q3 * q3) := by
  obtain ⟨hx0, hx⟩ := hsq _ (sumsq_nonneg p1 p2 p3)
  obtain ⟨hy0, hy⟩ := hsq _ (sumsq_nonneg q1 q2 q3)
  obtain ⟨hz0, hz⟩ := hsq _ (sumsq_nonneg (p1 + q1) (p2 + q2) (p3 + q3))
  generalize sqrt (p1 * p1 + p2 * p2 + p3 * p3) = x at hx0 hx ⊢
  generalize sqrt (q1 * q1 + q2 * q2 + q3 * q3) = y at hy0 hy ⊢
  generalize sqrt ((p1 + q1) * (p1 + q1) + (p2 + q2) * (p2 + q2) + (p3 + q3) * (p3 + q3)) = z at hz0 hz ⊢
  by_contra hlt
  have hlt' : x + y < z := not_le.mp hlt
  have h1 : (x + y) * (x + y) < z * z := mul_self_lt_mul_self (add_nonneg hx0 hy0) hlt'
  have hdot : x * y < p1 * q1 + p2 * q2 + p3 * q3 := by nlinarith
  have h2 : (x * y) * (x * y) < (p1 * q1 + p2 * q2 + p3 * q3) * (p1 * q1 + p2 * q2 + p3 * q3) :=
    mul_self_lt_mul_self (mul_nonneg hx0 hy0) hdot
  have h3 : (x * y) * (x * y) = (p1 * p1 + p2 * p2 + p3 * p3) * (q1 * q1 + q2 * q2 + q3 * q3) := by
    rw [← hx, ← hy]; ring
  have cs : (p1 * q1 + p2 * q2 + p3 * q3) * (p1 * q1 + p2 * q2 + p3 * q3) ≤
      (p1 * p1 + p2 * p2 + p3 * p3) * (q1 * q1 + q2 * q2 + q3 * q3) := by
    nlinarith [mul_self_nonneg (p1 * q2 - p2 * q1), mul_self_nonneg (p1 * q3 - p3 * q1), mul_self_nonneg (p2 * q3 - p3 * q2)]
  linarith

theorem distanceTo_nonneg {sqrt : V → V} (hsq : IsSqrt sqrt) (a b : Pos V) : 0 ≤ distanceTo sqrt a b :=
  (hsq _ (sumsq_nonneg _ _ _)).1

theorem distanceTo_self {sqrt : V → V} (hsq : IsSqrt sqrt) (a : Pos V) : distanceTo sqrt a a = 0 := by
  unfold distanceTo
  simp only [sub_self, mul_zero, add_zero]
  obtain ⟨_, h⟩ := hsq 0 (le_refl 0)
  exact mul_self_eq_zero.mp h

theorem distanceTo_triangle {sqrt : V → V} (hsq : IsSqrt sqrt) (a b c : Pos V) :
    distanceTo sqrt a c ≤ distanceTo sqrt a b + distanceTo sqrt b c := by
  unfold distanceTo
  have e1 : c.e - a.e = (b.e - a.e) + (c.e - b.e) := by ring
  have e2 : c.n - a.n = (b.n - a.n) + (c.n - b.n) := by ring
  have e3 : c.u - a.u = (b.u - a.u) + (c.u - b.u) := by ring
  simp only []
  rw [e1, e2, e3]
  exact sqrt_triangle hsq _ _ _ _ _ _

/-- the heuristic the code computes in A* mode for the target `t`, `h v = astar_wgt × |v − t|`, is consistent on `net` and
smallest (0) at the target, as soon as `0 ≤ astar_wgt` and every permitted arc weighs at least `astar_wgt` × the
straight-line distance between its ends -/
theorem heuristicOf_consistent {sqrt : V → V} (hsq : IsSqrt sqrt) (net : Net V) (pos : Nat → Pos V) (wgt : V)
    (hw : 0 ≤ wgt) (t : Nat) (hedge : ∀ u v w, Arc net u v w → wgt * distanceTo sqrt (pos u) (pos v) ≤ w) :
    Consistent net (heuristicOf sqrt pos 1 wgt (some t)) ∧
    (∀ v, heuristicOf sqrt pos 1 wgt (some t) t ≤ heuristicOf sqrt pos 1 wgt (some t) v) := by
  have hh : ∀ v, heuristicOf sqrt pos 1 wgt (some t) v = wgt * distanceTo sqrt (pos v) (pos t) := by
    intro v; simp [heuristicOf]
  constructor
  · intro u v w ha
    rw [hh, hh]
    have h1 := mul_le_mul_of_nonneg_left (distanceTo_triangle hsq (pos u) (pos v) (pos t)) hw
    rw [mul_add] at h1
    exact le_trans h1 (add_le_add_left (hedge u v w ha) _)
  · intro v
    rw [hh, hh, distanceTo_self hsq, mul_zero]
    exact mul_nonneg hw (distanceTo_nonneg hsq _ _)
end TV.Graph
